import XmpModel.MixKernel
import XmpProofs.MixLinear
/-!
# Lemmas about the bit-exact kernel model (`XmpModel/MixKernel.lean`)

* the loop that threads the real buffer (`loopBuf`, `run`) only *adds* to the buffer the
  words of the buffer-free loop (`loop`, `contrib`): `run_eq`, `Call.exec_eq`, `mixCalls_eq_tick`;
* all levels zero ⇒ every word is zero: `contrib_zero_of_levels`;
* range lemmas: interpolation stays inside the sample range (`fetch_bound`), the filter output is
  clamped (`filt_bound`), every word is bounded by `sampleBound · level bound` (`contrib_bound`);
* left/right mirror of a kernel call (`contrib_mirror`).
-/
namespace Xmp.MixKernel
open Xmp.Gen.MixKernelConsts
open Xmp.MixLinear

/-! ## The kernel only adds -/

theorem addInto_append_split (b w c : Buf) :
    addInto b (w ++ c) = addInto (b.take w.length) w ++ addInto (b.drop w.length) c := by
  induction w generalizing b with
  | nil => simp
  | cons y w ih =>
    cases b with
    | nil => simp
    | cons x b =>
      simp only [List.cons_append, addInto, List.length_cons, List.take_succ_cons, List.drop_succ_cons]
      rw [ih]

theorem store_eq (b : Buf) (ws : List Int) :
    store b ws = (addInto (b.take ws.length) (ws.map toAcc), b.drop ws.length) := by
  induction ws generalizing b with
  | nil => simp [store]
  | cons w ws ih =>
    cases b with
    | nil => simp [store]
    | cons x b =>
      simp only [store, ih, List.length_cons, List.take_succ_cons, List.drop_succ_cons, List.map_cons, addInto]

/-- **The buffer-threading loop adds exactly the words of the buffer-free loop**, and its final
state (ramp, position, filter memory) does not depend on the buffer. -/
theorem loopBuf_eq (k : KSpec) (v : KVoice) (a : KArgs) (n nac : Nat) (s : St) (buf : Buf) :
    loopBuf k v a n nac s buf = (addInto buf ((loop k v a n nac s).1.map toAcc), (loop k v a n nac s).2) := by
  induction n generalizing nac s buf with
  | zero => simp [loopBuf, loop]
  | succ n ih =>
    simp only [loopBuf, loop, store_eq, ih, List.map_append]
    rw [addInto_append_split]
    simp

/-- **A kernel call = buffer + contribution(voice, arguments)**; the filter memory written back is
a function of the voice and the arguments alone. -/
theorem run_eq (k : KSpec) (v : KVoice) (a : KArgs) (buf : Buf) :
    run k v a buf = (addInto buf (contribAcc k v a), fltAfter k v a) := by
  simp [run, loopBuf_eq, contribAcc, contrib, fltAfter]

theorem Call.exec_eq (c : Call) (buf : Buf) : c.exec buf = addInto buf c.contrib := by
  simp only [Call.exec, Call.contrib, run_eq]
  rw [addInto_append_split, zeros_length, addInto_zeros]

theorem mixCalls_eq_tick (n : Nat) (cs : List Call) : mixCalls n cs = tick n (cs.map Call.contrib) := by
  simp only [mixCalls, tick, List.foldl_map]
  congr 1
  funext b c
  exact Call.exec_eq c b

/-! ## Length of the contribution -/

theorem outWords_length (k : KSpec) (fr lv : Int × Int) : (outWords k fr lv).length = if k.stereoOut then 2 else 1 := by
  unfold outWords
  split
  · rfl
  · split <;> rfl

theorem loop_length (k : KSpec) (v : KVoice) (a : KArgs) (n nac : Nat) (s : St) :
    (loop k v a n nac s).1.length = n * (if k.stereoOut then 2 else 1) := by
  induction n generalizing nac s with
  | zero => simp [loop]
  | succ n ih =>
    simp only [loop, List.length_append, ih, iter, outWords_length]
    rw [Nat.succ_mul, Nat.add_comm]

theorem contrib_length (k : KSpec) (v : KVoice) (a : KArgs) :
    (contrib k v a).length = a.count * (if k.stereoOut then 2 else 1) := loop_length ..

/-! ## Silence: all levels zero -/

/-- interpolation and filter do not touch the ramp state -/
theorem frame_old (k : KSpec) (v : KVoice) (s : St) :
    (frame k v s).2.oldVl = s.oldVl ∧ (frame k v s).2.oldVr = s.oldVr := by
  unfold frame
  split <;> split <;> exact ⟨rfl, rfl⟩

/-- the ramp state after one iteration -/
theorem iter_old (k : KSpec) (v : KVoice) (a : KArgs) (ac : Bool) (s : St) :
    (iter k v a ac s).2.oldVl = (if ac then s.oldVl + a.dl else s.oldVl) ∧
    (iter k v a ac s).2.oldVr = (if ac ∧ k.stereoOut then s.oldVr + a.dr else s.oldVr) := by
  obtain ⟨e1, e2⟩ := frame_old k v s
  cases ac <;> cases hs : k.stereoOut <;> simp [iter, updatePos, advance, rampStep, e1, e2, hs]

/-- every word of the loop is zero when the fixed levels are zero and the ramping levels
`old_v >> 8` stay zero during the `LOOP_AC` part -/
theorem loop_zero (k : KSpec) (v : KVoice) (a : KArgs) (hl : a.vl = 0) (hr : a.vr = 0) (n nac : Nat) (s : St)
    (hac : 0 < nac → (s.oldVl >>> rampLevelShift.getD 0 = 0 ∧ a.dl = 0) ∧ (s.oldVr >>> rampLevelShift.getD 0 = 0 ∧ a.dr = 0)) :
    ∀ w ∈ (loop k v a n nac s).1, w = 0 := by
  induction n generalizing nac s with
  | zero => intro w h; simp [loop] at h
  | succ n ih =>
    intro w h
    simp only [loop, List.mem_append] at h
    rcases h with h | h
    · -- this iteration
      simp only [iter] at h
      have hlv : levels a (decide (0 < nac)) s = (0, 0) := by
        unfold levels
        by_cases hn : 0 < nac
        · simp [hn, (hac hn).1.1, (hac hn).2.1]
        · simp [hn, hl, hr]
      rw [hlv] at h
      unfold outWords at h
      split at h
      · simpa using h
      · split at h <;> simpa using h
    · -- the remaining iterations: the ramp state keeps its `old_v` (delta 0)
      refine ih (nac - 1) _ ?_ w h
      intro hn
      have hn0 : 0 < nac := by omega
      obtain ⟨⟨h1, h2⟩, h3, h4⟩ := hac hn0
      obtain ⟨e1, e2⟩ := iter_old k v a (decide (0 < nac)) s
      rw [e1, e2]
      simp only [hn0, decide_true, h2, h4, Int.add_zero, ite_self]
      exact ⟨⟨h1, trivial⟩, h3, trivial⟩

/-! ## Arithmetic helpers -/

theorem mul_bound {x y S L : Int} (hx : -S ≤ x ∧ x ≤ S) (hy : -L ≤ y ∧ y ≤ L) :
    -(S * L) ≤ x * y ∧ x * y ≤ S * L := by
  have h1 : (x * y).natAbs ≤ S.natAbs * L.natAbs := by
    rw [Int.natAbs_mul]; exact Nat.mul_le_mul (by omega) (by omega)
  have h2 : ((S.natAbs * L.natAbs : Nat) : Int) = S * L := by
    rw [Int.natCast_mul, Int.natAbs_of_nonneg (by omega), Int.natAbs_of_nonneg (by omega)]
  have h3 : ((x * y).natAbs : Int) ≤ S * L := by rw [← h2]; exact Int.ofNat_le.mpr h1
  omega

theorem shr_bounds (x : Int) (n : Nat) (lo hi : Int) (h1 : lo * 2 ^ n ≤ x) (h2 : x < (hi + 1) * 2 ^ n) :
    lo ≤ x >>> n ∧ x >>> n ≤ hi := by
  have hd : (0 : Int) < ((2 ^ n : Nat) : Int) := Int.natCast_pos.mpr (Nat.two_pow_pos n)
  have e : ((2 ^ n : Nat) : Int) = (2 : Int) ^ n := by simp
  rw [Int.shiftRight_eq_div_pow]
  constructor
  · exact Int.le_ediv_of_mul_le hd (by rw [e]; exact h1)
  · have := Int.ediv_lt_of_lt_mul hd (by rw [e]; exact h2)
    omega

theorem getD_prop {α} (P : α → Prop) (l : List α) (i : Nat) (d : α) (hd : P d) (hl : ∀ x ∈ l, P x) :
    P (l.getD i d) := by
  rw [List.getD_eq_getElem?_getD]
  cases h : l[i]? with
  | none => exact hd
  | some x => exact hl x (List.mem_of_getElem? h)

/-! ## The code shapes the model relies on were recognised by the translator -/

theorem shapes_recognised :
    splineFracShift = some 6 ∧ spline8Shift = some 8 ∧ nearest8Shift = some 8 ∧ rampLevelShift = some 8 := by decide

/-! ## The spline table -/

/-- row property: the absolute values of the four coefficients sum to at most 20480 = 1.25 · 2^14 -/
def RowAbs (r : Int × Int × Int × Int) : Prop :=
  r.1.natAbs + r.2.1.natAbs + r.2.2.1.natAbs + r.2.2.2.natAbs ≤ 20480

instance (r) : Decidable (RowAbs r) := by unfold RowAbs; infer_instance

set_option maxRecDepth 100000 in
theorem splineRows_abs_all : splineRows.all (fun r => decide (RowAbs r)) = true := by decide

/-- every row of the generated `cubic_spline_lut0..3` has coefficient mass ≤ 20480 -/
theorem splineRow_abs (f : Int) : RowAbs (splineRow f) := by
  have e : splineRow f = splineRows.getD f.toNat (0, 0, 0, 0) := by
    simp only [splineRow, splineRowsA, Array.getD, List.getD, List.size_toArray]
    by_cases h : f.toNat < splineRows.length
    · simp [h]
    · simp [h]
  rw [e]
  apply getD_prop RowAbs
  · decide
  · intro x hx
    have := List.all_eq_true.mp splineRows_abs_all x hx
    simpa using this

set_option maxRecDepth 100000 in
/-- the four coefficients of every row sum to exactly 2^14: unit gain for a constant signal -/
theorem splineRows_unit_gain : splineRows.all (fun r => decide (r.1 + r.2.1 + r.2.2.1 + r.2.2.2 = 16384)) = true := by decide

/-- weighted sum of four samples against a row -/
theorem row_dot_bound (r : Int × Int × Int × Int) (hr : RowAbs r) (M : Int) (s0 s1 s2 s3 : Int)
    (h0 : -M ≤ s0 ∧ s0 ≤ M) (h1 : -M ≤ s1 ∧ s1 ≤ M) (h2 : -M ≤ s2 ∧ s2 ≤ M) (h3 : -M ≤ s3 ∧ s3 ≤ M) :
    -(20480 * M) ≤ r.1 * s0 + r.2.1 * s1 + r.2.2.2 * s3 + r.2.2.1 * s2 ∧
    r.1 * s0 + r.2.1 * s1 + r.2.2.2 * s3 + r.2.2.1 * s2 ≤ 20480 * M := by
  have hM : 0 ≤ M := by omega
  have b0 := mul_bound (x := r.1) (S := r.1.natAbs) (by omega) h0
  have b1 := mul_bound (x := r.2.1) (S := r.2.1.natAbs) (by omega) h1
  have b2 := mul_bound (x := r.2.2.1) (S := r.2.2.1.natAbs) (by omega) h2
  have b3 := mul_bound (x := r.2.2.2) (S := r.2.2.2.natAbs) (by omega) h3
  unfold RowAbs at hr
  have hsum : (r.1.natAbs : Int) * M + r.2.1.natAbs * M + r.2.2.1.natAbs * M + r.2.2.2.natAbs * M ≤ 20480 * M := by
    rw [← Int.add_mul, ← Int.add_mul, ← Int.add_mul]
    exact Int.mul_le_mul_of_nonneg_right (by omega) hM
  omega

/-! ## Interpolation stays within the sample range -/

/-- bound of the interpolated sample before the filter -/
def fetchBound (k : KSpec) : Int := if k.interp = .spline then 40960 else 32768

/-- sample as the macros see it (8-bit samples widened by 8 bits): within ±32768 -/
theorem widened_range (k : KSpec) (smp : Int → Int) (hs : SmpRange k smp) (i : Int) :
    -32768 ≤ (if k.s16 then smp i else widen8 (smp i)) ∧ (if k.s16 then smp i else widen8 (smp i)) ≤ 32767 := by
  have := hs i
  cases h16 : k.s16 <;> simp only [h16, if_true, if_false, Bool.false_eq_true] at this ⊢
  · have e : widen8 (smp i) = smp i * 256 := by simp [widen8, nearest8Shift]
    rw [e]; omega
  · exact this

/-- `l1 + (((frac >> 1) * (l2 - l1)) >> 15)` lies between `l1` and `l2` -/
theorem lerp_between (l1 l2 frac : Int) (hf : 0 ≤ frac ∧ frac < 65536) :
    min l1 l2 ≤ l1 + (((frac >>> 1) * (l2 - l1)) >>> (15 : Nat)) ∧ l1 + (((frac >>> 1) * (l2 - l1)) >>> (15 : Nat)) ≤ max l1 l2 := by
  have hh := shr_bounds frac 1 0 32767 (by omega) (by omega)
  generalize frac >>> 1 = h at hh
  generalize hdt : l2 - l1 = dt
  rcases Int.le_total 0 dt with hd | hd
  · have p1 : 0 ≤ h * dt := Int.mul_nonneg hh.1 hd
    have p2 : h * dt ≤ 32767 * dt := Int.mul_le_mul_of_nonneg_right hh.2 hd
    have := shr_bounds (h * dt) 15 0 dt (by omega) (by omega)
    omega
  · have p1 : h * dt ≤ 0 := Int.mul_nonpos_of_nonneg_of_nonpos hh.1 hd
    have p2 : 32767 * dt ≤ h * dt := Int.mul_le_mul_of_nonpos_right hh.2 hd
    have := shr_bounds (h * dt) 15 dt 0 (by omega) (by omega)
    omega

theorem fetch_bound (k : KSpec) (smp : Int → Int) (hs : SmpRange k smp) (pos frac off : Int)
    (hf : 0 ≤ frac ∧ frac < 65536) :
    -fetchBound k ≤ fetch k smp pos frac off ∧ fetch k smp pos frac off ≤ fetchBound k := by
  unfold fetch fetchBound
  cases hi : k.interp <;> simp only [reduceCtorEq, if_false, if_true]
  · -- nearest
    have := widened_range k smp hs (pos + off)
    omega
  · -- linear
    have w1 := widened_range k smp hs (pos + off)
    have w2 := widened_range k smp hs (pos + off + chnOf k)
    have e : smixShift - 1 = 15 := rfl
    rw [e]
    have := lerp_between (if k.s16 then smp (pos + off) else widen8 (smp (pos + off)))
      (if k.s16 then smp (pos + off + chnOf k) else widen8 (smp (pos + off + chnOf k))) frac hf
    omega
  · -- spline
    have hr := splineRow_abs (frac >>> splineFracShift.getD 0)
    generalize splineRow (frac >>> splineFracShift.getD 0) = r at hr
    cases h16 : k.s16 <;> simp only [if_true, if_false, Bool.false_eq_true]
    · have hs' : ∀ i, -128 ≤ smp i ∧ smp i ≤ 128 := by
        intro i; have := hs i; simp only [h16, Bool.false_eq_true, if_false] at this; omega
      have hb := row_dot_bound r hr 128 _ _ _ _ (hs' (pos + off - chnOf k)) (hs' (pos + off))
        (hs' (pos + off + chnOf k)) (hs' (pos + off + chnOf k * 2))
      have e : splineShift - spline8Shift.getD 0 = 6 := rfl
      rw [e]
      exact shr_bounds _ 6 (-40960) 40960 (by omega) (by omega)
    · have hs' : ∀ i, -32768 ≤ smp i ∧ smp i ≤ 32768 := by
        intro i; have := hs i; simp only [h16, if_true] at this; omega
      have hb := row_dot_bound r hr 32768 _ _ _ _ (hs' (pos + off - chnOf k)) (hs' (pos + off))
        (hs' (pos + off + chnOf k)) (hs' (pos + off + chnOf k * 2))
      have e : splineShift = 14 := rfl
      rw [e]
      exact shr_bounds _ 14 (-40960) 40960 (by omega) (by omega)

/-! ## The filter output is clamped -/

theorem filterClamp_range (x : Int) : filterMin ≤ filterClamp x ∧ filterClamp x ≤ filterMax := by
  unfold filterClamp
  have : filterMin ≤ (filterMax : Int) := by decide
  split
  · omega
  · split <;> omega

/-- whatever the coefficients, the memory and the input: the filtered sample is within
`[-65536, 65535]` and the new memory within `[FILTER_MIN, FILTER_MAX]` -/
theorem filt_bound (f : Flt) (x f1 f2 : Int) :
    (-65536 ≤ (filt f x f1 f2).1 ∧ (filt f x f1 f2).1 ≤ 65535) ∧
    (filterMin ≤ (filt f x f1 f2).2.1 ∧ (filt f x f1 f2).2.1 ≤ filterMax) ∧ (filt f x f1 f2).2.2 = f1 := by
  simp only [filt]
  have h := filterClamp_range ((f.a0 * (x * 2 ^ preampBits) + f.b0 * f1 + f.b1 * f2) >>> filterShift)
  generalize filterClamp _ = c at h
  have e1 : filterMin = -2147483648 := rfl
  have e2 : (filterMax : Int) = 2147450880 := rfl
  have e3 : preampBits = 15 := rfl
  rw [e3]
  exact ⟨shr_bounds c 15 (-65536) 65535 (by omega) (by omega), h, trivial⟩

/-! ## Every word of a kernel call is bounded by `sampleBound · level bound` -/

/-- the fraction is a 16-bit value -/
def FracOK (s : St) : Prop := 0 ≤ s.frac ∧ s.frac < 65536

theorem advance_fracOK (k : KSpec) (d : Int) (s : St) : FracOK (advance k d s) := by
  simp only [FracOK, advance]
  have e : (((smixMask + 1 : Nat)) : Int) = 65536 := rfl
  rw [e]
  omega

theorem frame_frac (k : KSpec) (v : KVoice) (s : St) : (frame k v s).2.frac = s.frac := by
  unfold frame
  split <;> split <;> rfl

theorem iter_fracOK (k : KSpec) (v : KVoice) (a : KArgs) (ac : Bool) (s : St) : FracOK (iter k v a ac s).2 := by
  simp only [iter, updatePos]
  exact advance_fracOK ..

theorem init_fracOK (k : KSpec) (v : KVoice) (h : k.interp = .nearest ∨ (0 ≤ v.frac ∧ v.frac < 65536)) :
    FracOK (St.init k v) := by
  unfold St.init
  by_cases hn : k.interp = .nearest
  · simp only [hn, if_true, nearestRound]
    exact advance_fracOK ..
  · simp only [hn, if_false]
    rcases h with h | h
    · exact absurd h hn
    · exact h

/-- both channels of the frame after interpolation and filter are within `±sampleBound` -/
theorem frame_bound (k : KSpec) (v : KVoice) (hs : SmpRange k v.smp) (s : St) (hf : FracOK s) :
    (-sampleBound k ≤ (frame k v s).1.1 ∧ (frame k v s).1.1 ≤ sampleBound k) ∧
    (-sampleBound k ≤ (frame k v s).1.2 ∧ (frame k v s).1.2 ≤ sampleBound k) := by
  have f0 := fetch_bound k v.smp hs s.pos s.frac 0 hf
  have f1 := fetch_bound k v.smp hs s.pos s.frac 1 hf
  have hfb : fetchBound k ≤ 40960 ∧ (k.interp ≠ .spline → fetchBound k = 32768) ∧ (k.interp = .spline → fetchBound k = 40960) := by
    unfold fetchBound; split <;> simp [*]
  unfold frame sampleBound
  cases hst : k.stereoSmp <;> cases hfl : k.filter <;> simp only [if_true, if_false, Bool.false_eq_true]
  · by_cases hsp : k.interp = .spline
    · have := hfb.2.2 hsp; simp only [hsp, if_true]; omega
    · have := hfb.2.1 hsp; simp only [hsp, if_false]; omega
  · have b := filt_bound v.flt (fetch k v.smp s.pos s.frac 0) s.fl1 s.fl2
    omega
  · by_cases hsp : k.interp = .spline
    · have := hfb.2.2 hsp; simp only [hsp, if_true]; omega
    · have := hfb.2.1 hsp; simp only [hsp, if_false]; omega
  · have b := filt_bound v.flt (fetch k v.smp s.pos s.frac 0) s.fl1 s.fl2
    have b' := filt_bound v.flt (fetch k v.smp s.pos s.frac 1) s.fr1 s.fr2
    omega

theorem sampleBound_nonneg (k : KSpec) : 0 ≤ sampleBound k := by
  unfold sampleBound
  split
  · omega
  · split <;> omega

/-- the words of one iteration -/
theorem outWords_bound (k : KSpec) (fr lv : Int × Int) (S L : Int)
    (h1 : -S ≤ fr.1 ∧ fr.1 ≤ S) (h2 : -S ≤ fr.2 ∧ fr.2 ≤ S)
    (l1 : -L ≤ lv.1 ∧ lv.1 ≤ L) (l2 : k.stereoOut = true → -L ≤ lv.2 ∧ lv.2 ≤ L) :
    ∀ w ∈ outWords k fr lv, -(S * L) ≤ w ∧ w ≤ S * L := by
  intro w hw
  unfold outWords at hw
  split at hw
  · rename_i hso
    simp only [List.mem_cons, List.mem_nil_iff, or_false] at hw
    rcases hw with hw | hw <;> rw [hw]
    · exact mul_bound h1 l1
    · exact mul_bound h2 (l2 hso)
  · split at hw <;> simp only [List.mem_cons, List.mem_nil_iff, or_false] at hw <;> rw [hw]
    · have := shr_bounds (fr.1 + fr.2) 1 (-S) S (by omega) (by omega)
      exact mul_bound this l1
    · exact mul_bound h1 l1

/-- the ramping levels `old_v >> 8` of the remaining `LOOP_AC` iterations are within `±L` -/
def RampOK (k : KSpec) (a : KArgs) (L : Int) (nac : Nat) (s : St) : Prop :=
  ∀ j : Nat, j < nac →
    (-L ≤ (s.oldVl + j * a.dl) >>> (8 : Nat) ∧ (s.oldVl + j * a.dl) >>> (8 : Nat) ≤ L) ∧
    (k.stereoOut = true → -L ≤ (s.oldVr + j * a.dr) >>> (8 : Nat) ∧ (s.oldVr + j * a.dr) >>> (8 : Nat) ≤ L)

theorem loop_bound (k : KSpec) (v : KVoice) (a : KArgs) (hs : SmpRange k v.smp) (L : Int)
    (hvl : -L ≤ a.vl ∧ a.vl ≤ L) (hvr : k.stereoOut = true → -L ≤ a.vr ∧ a.vr ≤ L)
    (n nac : Nat) (s : St) (hf : FracOK s) (hr : RampOK k a L nac s) :
    ∀ w ∈ (loop k v a n nac s).1, -(sampleBound k * L) ≤ w ∧ w ≤ sampleBound k * L := by
  induction n generalizing nac s with
  | zero => intro w h; simp [loop] at h
  | succ n ih =>
    intro w h
    simp only [loop, List.mem_append] at h
    rcases h with h | h
    · simp only [iter] at h
      obtain ⟨b1, b2⟩ := frame_bound k v hs s hf
      refine outWords_bound k _ _ _ L b1 b2 ?_ ?_ w h
      · unfold levels
        by_cases hn : 0 < nac
        · have := (hr 0 hn).1
          simpa [hn, show rampLevelShift.getD 0 = 8 from rfl] using this
        · simpa [hn] using hvl
      · intro hso
        unfold levels
        by_cases hn : 0 < nac
        · have := (hr 0 hn).2 hso
          simpa [hn, show rampLevelShift.getD 0 = 8 from rfl] using this
        · simpa [hn] using hvr hso
    · refine ih (nac - 1) _ (iter_fracOK ..) ?_ w h
      intro j hj
      have hn0 : 0 < nac := by omega
      obtain ⟨e1, e2⟩ := iter_old k v a (decide (0 < nac)) s
      rw [e1, e2]
      have := hr (j + 1) (by omega)
      simp only [hn0, decide_true, if_true, true_and]
      constructor
      · have e : s.oldVl + a.dl + (j : Int) * a.dl = s.oldVl + ((j + 1 : Nat) : Int) * a.dl := by
          rw [Int.natCast_add, Int.add_mul]; omega
        rw [e]; exact this.1
      · intro hso
        have e : s.oldVr + a.dr + (j : Int) * a.dr = s.oldVr + ((j + 1 : Nat) : Int) * a.dr := by
          rw [Int.natCast_add, Int.add_mul]; omega
        simp only [hso, if_true]
        rw [e]; exact this.2 hso

/-- **Bound of a kernel call's contribution.** -/
theorem contrib_bound (k : KSpec) (v : KVoice) (a : KArgs) (hs : SmpRange k v.smp) (L : Int)
    (hfrac : k.interp = .nearest ∨ (0 ≤ v.frac ∧ v.frac < 65536))
    (hvl : -L ≤ a.vl ∧ a.vl ≤ L) (hvr : k.stereoOut = true → -L ≤ a.vr ∧ a.vr ≤ L)
    (hramp : ∀ j : Nat, j < nAC k a →
      (-L ≤ (v.oldVl + j * a.dl) >>> (8 : Nat) ∧ (v.oldVl + j * a.dl) >>> (8 : Nat) ≤ L) ∧
      (k.stereoOut = true → -L ≤ (v.oldVr + j * a.dr) >>> (8 : Nat) ∧ (v.oldVr + j * a.dr) >>> (8 : Nat) ≤ L)) :
    ∀ w ∈ contrib k v a, -(sampleBound k * L) ≤ w ∧ w ≤ sampleBound k * L := by
  refine loop_bound k v a hs L hvl hvr a.count (nAC k a) (St.init k v) (init_fracOK k v hfrac) ?_
  have e : (St.init k v).oldVl = v.oldVl ∧ (St.init k v).oldVr = v.oldVr := by
    unfold St.init
    split <;> simp [nearestRound, advance]
  intro j hj
  rw [e.1, e.2]
  exact hramp j hj

/-! ## No wrap-around below the voice-count × bound limit -/

theorem sum_bound (ws : List Int) (B : Int) (hB : ∀ w ∈ ws, -B ≤ w ∧ w ≤ B) :
    -(ws.length * B) ≤ ws.sum ∧ ws.sum ≤ ws.length * B := by
  induction ws with
  | nil => simp
  | cons w ws ih =>
    have h1 := hB w List.mem_cons_self
    have h2 := ih (fun x hx => hB x (List.mem_cons_of_mem _ hx))
    simp only [List.sum_cons, List.length_cons, Int.natCast_add, Int.add_mul]
    omega

theorem accSum_toAcc (ws : List Int) : accSum (ws.map toAcc) = toAcc ws.sum := by
  induction ws with
  | nil => simp [accSum, toAcc]
  | cons w ws ih =>
    simp only [List.map_cons, accSum_cons, ih, List.sum_cons, toAcc, BitVec.ofInt_add]

/-- **The accumulator word holds the true integer sum** of `N` contributions bounded by `B`
whenever `N · B < 2^31`. -/
theorem accSum_exact (ws : List Int) (B : Int) (hB : ∀ w ∈ ws, -B ≤ w ∧ w ≤ B) (hN : ws.length * B < 2 ^ 31) :
    (accSum (ws.map toAcc)).toInt = ws.sum := by
  have hb := sum_bound ws B hB
  rw [accSum_toAcc, toAcc, BitVec.toInt_ofInt]
  apply Int.bmod_eq_of_le <;> omega

/-! ## Left/right mirror of a kernel call (mono samples, stereo output) -/

/-- exchange of the left and right scalar arguments -/
def KArgs.mirror (a : KArgs) : KArgs := { a with vl := a.vr, vr := a.vl, dl := a.dr, dr := a.dl }

/-- exchange of the left and right ramp memory of the voice -/
def KVoice.mirror (v : KVoice) : KVoice := { v with oldVl := v.oldVr, oldVr := v.oldVl }

def St.swapRamp (s : St) : St := { s with oldVl := s.oldVr, oldVr := s.oldVl }

/-- exchange the two words of every output frame -/
def swapPairs : List Int → List Int
  | a :: b :: r => b :: a :: swapPairs r
  | l => l

theorem frame_mono (k : KSpec) (v : KVoice) (s : St) (hm : k.stereoSmp = false) :
    (frame k v s).1.1 = (frame k v s).1.2 := by
  unfold frame
  simp only [hm, Bool.false_eq_true, if_false]
  split <;> rfl

theorem frame_swapRamp (k : KSpec) (v : KVoice) (s : St) :
    frame k v.mirror s.swapRamp = ((frame k v s).1, (frame k v s).2.swapRamp) := by
  unfold frame
  simp only [KVoice.mirror, St.swapRamp]
  split <;> split <;> rfl

theorem iter_mirror (k : KSpec) (v : KVoice) (a : KArgs) (ac : Bool) (s : St)
    (hm : k.stereoSmp = false) (ho : k.stereoOut = true) :
    iter k v.mirror a.mirror ac s.swapRamp = (swapPairs (iter k v a ac s).1, (iter k v a ac s).2.swapRamp) := by
  have hf := frame_mono k v s hm
  have hfo := frame_old k v s
  simp only [iter, frame_swapRamp]
  generalize frame k v s = f at hf hfo
  obtain ⟨⟨f1, f2⟩, s'⟩ := f
  simp only at hf hfo
  subst hf
  cases ac <;>
    simp [outWords, ho, levels, rampStep, updatePos, advance, KArgs.mirror, St.swapRamp, swapPairs, hfo.1, hfo.2]

theorem swapPairs_append_pair (x y : Int) (r : List Int) : swapPairs ([x, y] ++ r) = [y, x] ++ swapPairs r := rfl

theorem loop_mirror (k : KSpec) (v : KVoice) (a : KArgs) (hm : k.stereoSmp = false) (ho : k.stereoOut = true)
    (n nac : Nat) (s : St) :
    loop k v.mirror a.mirror n nac s.swapRamp = (swapPairs (loop k v a n nac s).1, (loop k v a n nac s).2.swapRamp) := by
  induction n generalizing nac s with
  | zero => simp [loop, swapPairs]
  | succ n ih =>
    simp only [loop, iter_mirror k v a _ s hm ho, ih]
    have hl : ∃ x y, (iter k v a (decide (0 < nac)) s).1 = [x, y] := by
      simp only [iter, outWords, ho, if_true]
      exact ⟨_, _, rfl⟩
    obtain ⟨x, y, e⟩ := hl
    rw [e]
    rfl

theorem init_mirror (k : KSpec) (v : KVoice) : St.init k v.mirror = (St.init k v).swapRamp := by
  unfold St.init
  split <;> rfl

/-- **Mirror of a kernel call** (mono sample, stereo output): with the left/right levels, ramp
memory and ramp deltas exchanged the kernel adds the same frames with left and right exchanged,
and leaves the same filter memory. -/
theorem contrib_mirror (k : KSpec) (v : KVoice) (a : KArgs) (hm : k.stereoSmp = false) (ho : k.stereoOut = true) :
    contrib k v.mirror a.mirror = swapPairs (contrib k v a) ∧ fltAfter k v.mirror a.mirror = fltAfter k v a := by
  have hn : nAC k a.mirror = nAC k a := rfl
  have hc : a.mirror.count = a.count := rfl
  unfold contrib fltAfter
  rw [hn, hc, init_mirror, loop_mirror k v a hm ho]
  refine ⟨rfl, ?_⟩
  simp only [saveFilter, KVoice.mirror, St.swapRamp]

/-! ## `VAR_NORM`: a non-negative position has a 16-bit fraction -/

theorem posFrac_range (m e : Int) (hm : 0 ≤ m) : 0 ≤ posFrac m e ∧ posFrac m e < 65536 := by
  unfold posFrac posInt
  by_cases he : 0 ≤ e
  · simp [he]
  · simp only [he, if_false]
    have hd : (0 : Int) < 2 ^ (-e).toNat := Int.pow_pos (by omega)
    generalize (2 : Int) ^ (-e).toNat = d at hd
    have e16 : (2 : Int) ^ smixShift = 65536 := by simp [smixShift]
    rw [e16, Int.tdiv_eq_ediv_of_nonneg hm]
    have hr : m - m / d * d = m % d := by rw [Int.emod_def, Int.mul_comm]
    rw [hr]
    have r0 : 0 ≤ m % d := Int.emod_nonneg m (by omega)
    have r1 : m % d < d := Int.emod_lt_of_pos m hd
    generalize m % d = r at r0 r1
    rw [Int.tdiv_eq_ediv_of_nonneg (by omega)]
    constructor
    · exact Int.ediv_nonneg (by omega) (by omega)
    · exact Int.ediv_lt_of_lt_mul hd (by omega)

/-! ## The intermediate values fit their C types -/

/-- `(frac >> 1) * smp_dt` of `LINEAR_*` fits a C `int` -/
theorem lerp_product_fits (l1 l2 frac : Int) (hf : 0 ≤ frac ∧ frac < 65536)
    (h1 : -32768 ≤ l1 ∧ l1 ≤ 32767) (h2 : -32768 ≤ l2 ∧ l2 ≤ 32767) :
    -(2 ^ 31) ≤ (frac >>> 1) * (l2 - l1) ∧ (frac >>> 1) * (l2 - l1) < 2 ^ 31 := by
  have hh := shr_bounds frac 1 0 32767 (by omega) (by omega)
  have := mul_bound (x := frac >>> 1) (y := l2 - l1) (S := 32767) (L := 65535) (by omega) (by omega)
  omega

/-- the weighted sum of `SPLINE_*` fits a C `int` -/
theorem spline_acc_fits (k : KSpec) (smp : Int → Int) (hs : SmpRange k smp) (f : Int) (i0 i1 i2 i3 : Int) :
    -(2 ^ 31) ≤ (splineRow f).1 * smp i0 + (splineRow f).2.1 * smp i1 + (splineRow f).2.2.2 * smp i3 + (splineRow f).2.2.1 * smp i2 ∧
    (splineRow f).1 * smp i0 + (splineRow f).2.1 * smp i1 + (splineRow f).2.2.2 * smp i3 + (splineRow f).2.2.1 * smp i2 < 2 ^ 31 := by
  generalize hr : splineRow f = r
  have hra : RowAbs r := hr ▸ splineRow_abs f
  have hs' : ∀ i, -32768 ≤ smp i ∧ smp i ≤ 32768 := by
    intro i; have := hs i; split at this <;> omega
  have := row_dot_bound r hra 32768 _ _ _ _ (hs' i0) (hs' i1) (hs' i2) (hs' i3)
  omega

/-- `smp_in << PREAMP_BITS` of `FILTER_LEFT/RIGHT` fits a C `int` -/
theorem preamp_fits (k : KSpec) (smp : Int → Int) (hs : SmpRange k smp) (pos frac off : Int)
    (hf : 0 ≤ frac ∧ frac < 65536) :
    -(2 ^ 31) ≤ fetch k smp pos frac off * 2 ^ preampBits ∧ fetch k smp pos frac off * 2 ^ preampBits < 2 ^ 31 := by
  have := fetch_bound k smp hs pos frac off hf
  have hb : fetchBound k ≤ 40960 := by unfold fetchBound; split <;> omega
  have e : (2 : Int) ^ preampBits = 32768 := by simp [preampBits]
  rw [e]
  omega

/-- the 64-bit sum of `FILTER_LEFT/RIGHT` fits a C `int64` when the coefficients are below 2^27
in magnitude (libxmp_filter_setup produces |a0|, |b0|, |b1| < 2^25) -/
theorem filter_sum_fits (f : Flt) (x f1 f2 : Int) (C : Int) (hC : C ≤ 2 ^ 27)
    (ha : -C ≤ f.a0 ∧ f.a0 ≤ C) (hb0 : -C ≤ f.b0 ∧ f.b0 ≤ C) (hb1 : -C ≤ f.b1 ∧ f.b1 ≤ C)
    (hx : -(2 ^ 31) ≤ x * 2 ^ preampBits ∧ x * 2 ^ preampBits < 2 ^ 31)
    (h1 : filterMin ≤ f1 ∧ f1 ≤ filterMax) (h2 : filterMin ≤ f2 ∧ f2 ≤ filterMax) :
    -(2 ^ 63) ≤ f.a0 * (x * 2 ^ preampBits) + f.b0 * f1 + f.b1 * f2 ∧
    f.a0 * (x * 2 ^ preampBits) + f.b0 * f1 + f.b1 * f2 < 2 ^ 63 := by
  have e1 : filterMin = -2147483648 := rfl
  have e2 : (filterMax : Int) = 2147450880 := rfl
  have hC0 : 0 ≤ C := by omega
  have p1 := mul_bound (x := f.a0) (y := x * 2 ^ preampBits) (S := C) (L := 2147483648) ha (by omega)
  have p2 := mul_bound (x := f.b0) (y := f1) (S := C) (L := 2147483648) hb0 (by omega)
  have p3 := mul_bound (x := f.b1) (y := f2) (S := C) (L := 2147483648) hb1 (by omega)
  have : C * 2147483648 ≤ 2 ^ 27 * 2147483648 := Int.mul_le_mul_of_nonneg_right hC (by omega)
  omega

/-- every product `smp * level` handed to `MIX_OUT` fits a C `int` when the levels are 16-bit
values (`|level| ≤ 32767`) -/
theorem contrib_fits_int32 (k : KSpec) (v : KVoice) (a : KArgs) (hs : SmpRange k v.smp)
    (hfrac : k.interp = .nearest ∨ (0 ≤ v.frac ∧ v.frac < 65536))
    (hvl : -32767 ≤ a.vl ∧ a.vl ≤ 32767) (hvr : k.stereoOut = true → -32767 ≤ a.vr ∧ a.vr ≤ 32767)
    (hramp : ∀ j : Nat, j < nAC k a →
      (-32767 ≤ (v.oldVl + j * a.dl) >>> (8 : Nat) ∧ (v.oldVl + j * a.dl) >>> (8 : Nat) ≤ 32767) ∧
      (k.stereoOut = true → -32767 ≤ (v.oldVr + j * a.dr) >>> (8 : Nat) ∧ (v.oldVr + j * a.dr) >>> (8 : Nat) ≤ 32767)) :
    ∀ w ∈ contrib k v a, -(2 ^ 31) ≤ w ∧ w < 2 ^ 31 := by
  intro w hw
  have := contrib_bound k v a hs 32767 hfrac hvl hvr hramp w hw
  have hb : sampleBound k ≤ 65536 := by
    unfold sampleBound
    split
    · omega
    · split <;> omega
  have h0 := sampleBound_nonneg k
  have : sampleBound k * 32767 ≤ 65536 * 32767 := Int.mul_le_mul_of_nonneg_right hb (by omega)
  omega

/-! ## Words of a call inside the tick buffer -/

/-- the exact integer a call adds to word `i` of the tick buffer -/
def Call.wordAt (c : Call) (i : Nat) : Int :=
  if i < c.off then 0 else (MixKernel.contrib c.spec c.voice c.args).getD (i - c.off) 0

theorem Call.contrib_getD (c : Call) (i : Nat) : c.contrib.getD i 0 = toAcc (c.wordAt i) := by
  unfold Call.contrib Call.wordAt contribAcc
  simp only [List.getD_eq_getElem?_getD]
  by_cases h : i < c.off
  · simp only [h, if_true]
    rw [List.getElem?_append_left (by simpa using h)]
    simp [zeros, h, toAcc]
  · simp only [h, if_false]
    rw [List.getElem?_append_right (by simpa using Nat.le_of_not_lt h), zeros_length, List.getElem?_map]
    cases (MixKernel.contrib c.spec c.voice c.args)[i - c.off]? <;> simp [toAcc]

theorem Call.wordAt_bound (c : Call) (B : Int) (h0 : 0 ≤ B)
    (hB : ∀ w ∈ MixKernel.contrib c.spec c.voice c.args, -B ≤ w ∧ w ≤ B) (i : Nat) :
    -B ≤ c.wordAt i ∧ c.wordAt i ≤ B := by
  unfold Call.wordAt
  split
  · omega
  · exact getD_prop (fun w => -B ≤ w ∧ w ≤ B) _ _ _ ⟨by omega, h0⟩ hB

/-! ## The abstract kernel shape of `XmpModel/MixLinear.lean` is what every real kernel computes

`MixLinear.kernel` (used by `voiceTick` and the tick-level theorems `C14_silence_voice`,
`C14_separation_mirror_tick`, …) takes the sample frames as a parameter.  Here the frames are
*computed* from the voice (`frameSeq`: interpolation, filter, position walk — no level, no ramp,
no buffer) and the concrete contribution is shown to be the abstract kernel applied to them. -/

/-- the state without the ramp memory -/
def St.core (s : St) : St := { s with oldVl := 0, oldVr := 0 }

/-- the sample side of the loop: the frame of every iteration (for mono output of a stereo sample:
the average in both components) -/
def frameSeq (k : KSpec) (v : KVoice) (a : KArgs) : Nat → St → List (Int × Int)
  | 0, _ => []
  | n + 1, s =>
    let f := frame k v s
    let m : Int × Int :=
      if k.stereoOut then f.1 else if k.stereoSmp then ((f.1.1 + f.1.2) >>> 1, (f.1.1 + f.1.2) >>> 1) else f.1
    m :: frameSeq k v a n (updatePos k a f.2)

/-- the frames a kernel call multiplies with its levels: a function of the voice's sample window,
position, step and filter memory alone -/
def frames (k : KSpec) (v : KVoice) (a : KArgs) : List (Int × Int) := frameSeq k v a a.count (St.init k v).core

/-- accumulator words of a frame list: interleaved for stereo output, left component for mono -/
def wordsOf (stereo : Bool) (fr : List (Int × Int)) : List Int :=
  if stereo then fr.flatMap fun p => [p.1, p.2] else fr.map fun p => p.1

/-- what the voice loop hands to the abstract kernel -/
def absArgs (k : KSpec) (v : KVoice) (a : KArgs) : MixLinear.KArgs :=
  { vl := a.vl, vr := a.vr, oldVl := v.oldVl, oldVr := v.oldVr, dl := a.dl, dr := a.dr, rsize := a.ramp, ac := hasAC k, lsh := 0 }

theorem frame_core (k : KSpec) (v : KVoice) (s : St) :
    frame k v s.core = ((frame k v s).1, (frame k v s).2.core) := by
  unfold frame
  simp only [St.core]
  split <;> split <;> rfl

theorem updatePos_core (k : KSpec) (a : KArgs) (s : St) : updatePos k a s.core = (updatePos k a s).core := rfl

theorem rampStep_core (k : KSpec) (a : KArgs) (ac : Bool) (s : St) : (rampStep k a ac s).core = s.core := by
  unfold rampStep St.core
  split <;> rfl

theorem wordsOf_cons (st : Bool) (p : Int × Int) (r : List (Int × Int)) :
    wordsOf st (p :: r) = (if st then [p.1, p.2] else [p.1]) ++ wordsOf st r := by
  cases st <;> simp [wordsOf]

theorem iter_core (k : KSpec) (v : KVoice) (a : KArgs) (ac : Bool) (s : St) :
    (iter k v a ac s).2.core = updatePos k a (frame k v s).2.core := by
  simp only [iter]
  rw [← updatePos_core, rampStep_core]

theorem loop_eq_kernelAux (k : KSpec) (v : KVoice) (a : KArgs) (K : MixLinear.KArgs)
    (hvl : K.vl = a.vl) (hvr : K.vr = a.vr) (hdl : K.dl = a.dl) (hdr : K.dr = a.dr) (hlsh : K.lsh = 0)
    (n i NAC : Nat) (s : St) (h1 : i < NAC → s.oldVl = K.oldVl + i * K.dl)
    (h2 : i < NAC → k.stereoOut = true → s.oldVr = K.oldVr + i * K.dr) :
    (loop k v a n (NAC - i) s).1 = wordsOf k.stereoOut (MixLinear.kernelAux K NAC i (frameSeq k v a n s.core)) := by
  induction n generalizing i s with
  | zero => cases hs : k.stereoOut <;> simp [loop, frameSeq, MixLinear.kernelAux, wordsOf]
  | succ n ih =>
    have e8 : rampLevelShift.getD 0 = 8 := rfl
    have hsub : NAC - i - 1 = NAC - (i + 1) := by omega
    simp only [loop, frameSeq, MixLinear.kernelAux, wordsOf_cons, frame_core, hsub]
    have hrec := ih (i + 1) (iter k v a (decide (0 < NAC - i)) s).2 (by
        intro hlt
        have hn : 0 < NAC - i := by omega
        rw [(iter_old k v a (decide (0 < NAC - i)) s).1]
        simp only [hn, decide_true, if_true, h1 (by omega), hdl, Int.natCast_add, Int.add_mul]
        omega) (by
        intro hlt hso
        have hn : 0 < NAC - i := by omega
        rw [(iter_old k v a (decide (0 < NAC - i)) s).2]
        simp only [hn, decide_true, hso, and_self, if_true, h2 (by omega) hso, hdr, Int.natCast_add, Int.add_mul]
        omega)
    rw [hrec, iter_core]
    congr 1
    -- the words of this iteration
    simp only [iter, levels, e8]
    by_cases hn : i < NAC
    · have hn' : 0 < NAC - i := by omega
      simp only [hn, hn', decide_true, if_true, h1 hn]
      unfold outWords
      cases hso : k.stereoOut
      · cases hss : k.stereoSmp <;> simp
      · simp [h2 hn hso]
    · have hn' : ¬ 0 < NAC - i := by omega
      simp only [hn, hn', decide_false, if_false, Bool.false_eq_true, hvl, hvr, hlsh, Int.pow_zero, Int.mul_one]
      unfold outWords
      cases hso : k.stereoOut
      · cases hss : k.stereoSmp <;> simp
      · simp

/-- **Refinement**: the contribution of every real kernel is the abstract kernel of
`XmpModel/MixLinear.lean` (sample × level, ramping `old_v >> 8` in the first `count - ramp`
frames) applied to frames that are computed from the voice's sample side alone. -/
theorem contrib_eq_kernel (k : KSpec) (v : KVoice) (a : KArgs) :
    contrib k v a = wordsOf k.stereoOut (MixLinear.kernel (absArgs k v a) (frames k v a)) := by
  have hl : (frames k v a).length = a.count := by
    unfold frames
    generalize (St.init k v).core = s
    induction a.count generalizing s with
    | zero => rfl
    | succ n ih => simp [frameSeq, ih]
  have hnac : (if (absArgs k v a).ac = true then (frames k v a).length - (absArgs k v a).rsize else 0) = nAC k a := by
    simp only [absArgs, hl, nAC]
  unfold contrib MixLinear.kernel
  rw [hnac]
  have e : (St.init k v).oldVl = v.oldVl ∧ (St.init k v).oldVr = v.oldVr := by
    unfold St.init; split <;> simp [nearestRound, advance]
  have := loop_eq_kernelAux k v a (absArgs k v a) rfl rfl rfl rfl rfl a.count 0 (nAC k a) (St.init k v)
    (by intro _; simp [absArgs, e.1]) (by intro _ _; simp [absArgs, e.2])
  simpa [frames] using this

/-! ## The levels the voice loop produces -/

/-- `old + j · ((new − old) / r)` (C division) stays between `old` and `new` for `j ≤ r` -/
theorem ramp_between (old new : Int) (r j : Nat) (hr : 0 < r) (hj : j ≤ r) :
    min old new ≤ old + j * rampDelta new old r ∧ old + j * rampDelta new old r ≤ max old new := by
  unfold rampDelta
  rcases Int.le_total old new with h | h
  · have hd : 0 ≤ new - old := by omega
    rw [Int.tdiv_eq_ediv_of_nonneg hd]
    have hq0 : 0 ≤ (new - old) / (r : Int) := Int.ediv_nonneg hd (by omega)
    have hq1 : (new - old) / (r : Int) * r ≤ new - old := Int.ediv_mul_le _ (by omega)
    generalize (new - old) / (r : Int) = q at *
    have h1 : 0 ≤ (j : Int) * q := Int.mul_nonneg (by omega) hq0
    have h2 : (j : Int) * q ≤ r * q := Int.mul_le_mul_of_nonneg_right (by omega) hq0
    have h3 : (r : Int) * q = q * r := Int.mul_comm _ _
    omega
  · have hd : 0 ≤ old - new := by omega
    have e : new - old = -(old - new) := by omega
    rw [e, Int.neg_tdiv, Int.tdiv_eq_ediv_of_nonneg hd]
    have hq0 : 0 ≤ (old - new) / (r : Int) := Int.ediv_nonneg hd (by omega)
    have hq1 : (old - new) / (r : Int) * r ≤ old - new := Int.ediv_mul_le _ (by omega)
    generalize (old - new) / (r : Int) = q at *
    have h1 : 0 ≤ (j : Int) * q := Int.mul_nonneg (by omega) hq0
    have h2 : (j : Int) * q ≤ r * q := Int.mul_le_mul_of_nonneg_right (by omega) hq0
    have h3 : (r : Int) * q = q * r := Int.mul_comm _ _
    have h4 : (j : Int) * -q = -(j * q) := Int.mul_neg _ _
    omega

/-- the level handed to a kernel is bounded by the voice volume: `|vol_l >> 8| ≤ |vol|` for every pan the
player produces (−128 … 128) and for surround -/
theorem level_bound (vol pan : Int) (V : Int) (hv : -V ≤ vol ∧ vol ≤ V) (hp : (-128 ≤ pan ∧ pan ≤ 128) ∨ pan = PAN_SURROUND) :
    (-V ≤ level (volLR vol pan).1 ∧ level (volLR vol pan).1 ≤ V) ∧ (-V ≤ level (volLR vol pan).2 ∧ level (volLR vol pan).2 ≤ V) := by
  have hV : 0 ≤ V := by omega
  unfold volLR level
  by_cases hs : pan = PAN_SURROUND
  · simp only [hs, if_true]
    constructor
    · exact shr_bounds _ 8 (-V) V (by omega) (by omega)
    · exact shr_bounds _ 8 (-V) V (by omega) (by omega)
  · simp only [hs, if_false]
    rcases hp with hp | hp
    · have b1 := mul_bound (x := vol) (y := 0x80 - pan) (S := V) (L := 256) hv (by omega)
      have b2 := mul_bound (x := vol) (y := 0x80 + pan) (S := V) (L := 256) hv (by omega)
      constructor
      · exact shr_bounds _ 8 (-V) V (by omega) (by omega)
      · exact shr_bounds _ 8 (-V) V (by omega) (by omega)
    · exact absurd hp hs

/-! ## `do_anticlick` adds at most the residue it discharges -/

theorem scaled_between (q : Nat) (hq : q < 2 ^ 32) (s : Int) :
    min s 0 ≤ ((q : Int) * s) >>> (32 : Nat) ∧ ((q : Int) * s) >>> (32 : Nat) ≤ max s 0 := by
  have hq' : (q : Int) < 4294967296 := by
    have h2 : (2 : Nat) ^ 32 = 4294967296 := by decide
    omega
  rcases Int.le_total 0 s with h | h
  · have p1 : 0 ≤ (q : Int) * s := Int.mul_nonneg (by omega) h
    have p2 : (q : Int) * s ≤ 4294967296 * s := Int.mul_le_mul_of_nonneg_right (by omega) h
    have := shr_bounds ((q : Int) * s) 32 0 s (by omega) (by omega)
    omega
  · have p1 : (q : Int) * s ≤ 0 := Int.mul_nonpos_of_nonneg_of_nonpos (by omega) h
    have p2 : 4294967296 * s ≤ (q : Int) * s := Int.mul_le_mul_of_nonpos_right (by omega) h
    have := shr_bounds ((q : Int) * s) 32 s 0 (by omega) (by omega)
    omega

/-- every frame `do_anticlick` adds lies between 0 and the residue it discharges -/
theorem anticlick_bound (count : Nat) (sl sr : Int) :
    ∀ p ∈ anticlickRamp count sl sr,
      (min sl 0 ≤ p.1 ∧ p.1 ≤ max sl 0) ∧ (min sr 0 ≤ p.2 ∧ p.2 ≤ max sr 0) := by
  intro p hp
  unfold anticlickRamp at hp
  split at hp
  · simp at hp
  · obtain ⟨j, _, rfl⟩ := List.mem_map.mp hp
    simp only [anticlickStep]
    exact ⟨scaled_between _ (Nat.mod_lt _ (by decide)) sl, scaled_between _ (Nat.mod_lt _ (by decide)) sr⟩

/-! ## Only the calls that cover a word count -/

theorem sum_bound_nz (ws : List Int) (B : Int) (_h0 : 0 ≤ B) (hB : ∀ w ∈ ws, -B ≤ w ∧ w ≤ B) :
    -((ws.filter (· ≠ 0)).length * B) ≤ ws.sum ∧ ws.sum ≤ (ws.filter (· ≠ 0)).length * B := by
  induction ws with
  | nil => simp
  | cons w ws ih =>
    have h1 := hB w List.mem_cons_self
    have h2 := ih (fun x hx => hB x (List.mem_cons_of_mem _ hx))
    simp only [ne_eq] at h2 ⊢
    by_cases hw : w = 0
    · simp only [hw, List.sum_cons, Int.zero_add, List.filter_cons, not_true_eq_false, decide_false]
      exact h2
    · simp only [List.sum_cons, List.filter_cons, hw, not_false_eq_true, decide_true, if_true, List.length_cons,
        Int.natCast_add, Int.add_mul]
      omega

theorem accSum_exact_nz (ws : List Int) (B : Int) (h0 : 0 ≤ B) (hB : ∀ w ∈ ws, -B ≤ w ∧ w ≤ B)
    (hN : (ws.filter (· ≠ 0)).length * B < 2 ^ 31) : (accSum (ws.map toAcc)).toInt = ws.sum := by
  have hb := sum_bound_nz ws B h0 hB
  rw [accSum_toAcc, toAcc, BitVec.toInt_ofInt]
  apply Int.bmod_eq_of_le <;> omega

/-! ## Left/right mirror of a kernel call on a stereo sample -/

/-- the sample memory with the two channels of every stereo frame exchanged -/
def swapLR (smp : Int → Int) : Int → Int := fun i => smp (if i % 2 = 0 then i + 1 else i - 1)

/-- the voice with left and right exchanged everywhere: sample channels, ramp memory, filter memory -/
def KVoice.mirrorS (v : KVoice) : KVoice :=
  { v with smp := swapLR v.smp, oldVl := v.oldVr, oldVr := v.oldVl,
           flt := { v.flt with l1 := v.flt.r1, l2 := v.flt.r2, r1 := v.flt.l1, r2 := v.flt.l2 } }

def St.swapS (s : St) : St :=
  { s with oldVl := s.oldVr, oldVr := s.oldVl, fl1 := s.fr1, fl2 := s.fr2, fr1 := s.fl1, fr2 := s.fl2 }

def Flt.swapLR (f : Flt) : Flt := { f with l1 := f.r1, l2 := f.r2, r1 := f.l1, r2 := f.l2 }

theorem fetch_congr (k : KSpec) (hst : k.stereoSmp = true) (smp smp' : Int → Int) (pos frac off off' : Int)
    (e0 : smp' (pos + off) = smp (pos + off')) (e1 : smp' (pos + off + 2) = smp (pos + off' + 2))
    (em : smp' (pos + off - 2) = smp (pos + off' - 2)) (e2 : smp' (pos + off + 2 * 2) = smp (pos + off' + 2 * 2)) :
    fetch k smp' pos frac off = fetch k smp pos frac off' := by
  unfold fetch
  simp only [chnOf, hst, if_true, e0, e1, em, e2]

theorem fetch_swapLR (k : KSpec) (hst : k.stereoSmp = true) (smp : Int → Int) (pos frac : Int) (hp : pos % 2 = 0) :
    fetch k (swapLR smp) pos frac 0 = fetch k smp pos frac 1 ∧ fetch k (swapLR smp) pos frac 1 = fetch k smp pos frac 0 := by
  constructor
  · apply fetch_congr k hst <;> (unfold swapLR; split <;> first | (congr 1; omega) | omega)
  · apply fetch_congr k hst <;> (unfold swapLR; split <;> first | (congr 1; omega) | omega)

theorem frame_swapS (k : KSpec) (hst : k.stereoSmp = true) (v : KVoice) (s : St) (hp : s.pos % 2 = 0) :
    frame k v.mirrorS s.swapS = (((frame k v s).1.2, (frame k v s).1.1), (frame k v s).2.swapS) := by
  obtain ⟨f0, f1⟩ := fetch_swapLR k hst v.smp s.pos s.frac hp
  unfold frame
  simp only [hst, if_true, KVoice.mirrorS, St.swapS, f0, f1]
  split <;> rfl

theorem frame_pos (k : KSpec) (v : KVoice) (s : St) : (frame k v s).2.pos = s.pos := by
  unfold frame
  split <;> split <;> rfl

theorem iter_pos_even (k : KSpec) (hst : k.stereoSmp = true) (v : KVoice) (a : KArgs) (ac : Bool) (s : St)
    (hp : s.pos % 2 = 0) : (iter k v a ac s).2.pos % 2 = 0 := by
  have e : (iter k v a ac s).2.pos = s.pos + (((frame k v s).2.frac + a.step) >>> smixShift) * 2 := by
    simp only [iter, updatePos, advance, chnOf, hst, if_true]
    cases ac <;> simp [rampStep, frame_pos]
  rw [e]
  omega

theorem iter_mirrorS (k : KSpec) (hst : k.stereoSmp = true) (ho : k.stereoOut = true) (v : KVoice) (a : KArgs)
    (ac : Bool) (s : St) (hp : s.pos % 2 = 0) :
    iter k v.mirrorS a.mirror ac s.swapS = (swapPairs (iter k v a ac s).1, (iter k v a ac s).2.swapS) := by
  simp only [iter, frame_swapS k hst v s hp]
  generalize frame k v s = f
  obtain ⟨⟨f1, f2⟩, s'⟩ := f
  cases ac <;>
    simp [outWords, ho, levels, rampStep, updatePos, advance, KArgs.mirror, St.swapS, swapPairs]

theorem loop_mirrorS (k : KSpec) (hst : k.stereoSmp = true) (ho : k.stereoOut = true) (v : KVoice) (a : KArgs)
    (n nac : Nat) (s : St) (hp : s.pos % 2 = 0) :
    loop k v.mirrorS a.mirror n nac s.swapS = (swapPairs (loop k v a n nac s).1, (loop k v a n nac s).2.swapS) := by
  induction n generalizing nac s with
  | zero => simp [loop, swapPairs]
  | succ n ih =>
    simp only [loop, iter_mirrorS k hst ho v a _ s hp, ih _ _ (iter_pos_even k hst v a _ s hp)]
    have hl : ∃ x y, (iter k v a (decide (0 < nac)) s).1 = [x, y] := by
      simp only [iter, outWords, ho, if_true]
      exact ⟨_, _, rfl⟩
    obtain ⟨x, y, e⟩ := hl
    rw [e]
    rfl

theorem init_mirrorS (k : KSpec) (v : KVoice) : St.init k v.mirrorS = (St.init k v).swapS := by
  unfold St.init
  split <;> rfl

theorem init_pos_even (k : KSpec) (hst : k.stereoSmp = true) (v : KVoice) : (St.init k v).pos % 2 = 0 := by
  unfold St.init
  split
  · simp only [nearestRound, advance, chnOf, hst, if_true]; omega
  · simp only [chnOf, hst, if_true]; omega

/-- **Mirror of a kernel call on a stereo sample** (stereo output): with the two sample channels, the
left/right levels, ramp memory, ramp deltas and filter memory exchanged the kernel adds the same frames
with left and right exchanged and writes back the exchanged filter memory. -/
theorem contrib_mirrorS (k : KSpec) (v : KVoice) (a : KArgs) (hst : k.stereoSmp = true) (ho : k.stereoOut = true) :
    contrib k v.mirrorS a.mirror = swapPairs (contrib k v a) ∧ fltAfter k v.mirrorS a.mirror = (fltAfter k v a).swapLR := by
  have hn : nAC k a.mirror = nAC k a := rfl
  have hc : a.mirror.count = a.count := rfl
  unfold contrib fltAfter
  rw [hn, hc, init_mirrorS, loop_mirrorS k hst ho v a _ _ _ (init_pos_even k hst v)]
  refine ⟨rfl, ?_⟩
  simp only [saveFilter, hst, if_true, KVoice.mirrorS, St.swapS, Flt.swapLR]
  split <;> rfl

end Xmp.MixKernel
