import XmpModel.Bzip2
import XmpProofs.Bzip2Bits
/-!
# bzip2: the decode tables `limit/base/permute` of `read_block_header`

* flat code lengths (the encoder of the round-trip theorem): the tables decode the 9-bit code of every symbol;
* general lengths: see the second part.
-/
namespace Xmp.Bzip2
open Xmp

theorem frozen_getD (f : Nat → Int) (n i : Nat) (h : i < n) : ((List.range n).map f).toArray.getD i 0 = f i := by
  rw [Array.getD_eq_getD_getElem?]
  simp [h]

theorem minMax_replicate (n v : Nat) : minMax (List.replicate (n + 1) v) = (v, v) := by
  unfold minMax
  simp only [List.replicate_succ]
  induction n with
  | zero => rfl
  | succ k ih =>
    rw [List.replicate_succ, List.foldl_cons]
    simpa using ih

theorem symsOfLen_replicate (n v : Nat) : symsOfLen (List.replicate n v) v = List.range n := by
  unfold symsOfLen
  have : (List.replicate n v).zipIdx.filter (fun p => p.1 == v) = (List.replicate n v).zipIdx := by
    rw [List.filter_eq_self]
    intro p hp
    have := (List.mem_zipIdx hp).2.2
    simp only [Nat.sub_zero] at this
    rw [this]; simp
  rw [this, List.zipIdx_map_snd, List.length_replicate, List.range_eq_range']

/-- tables of a group in which all `n + 1` symbols have the same length `v` -/
theorem mkGroup_flat (n v : Nat) (hv : v < 22) :
    (mkGroup (List.replicate (n + 1) v)).minLen = v ∧ (mkGroup (List.replicate (n + 1) v)).maxLen = v ∧
    (mkGroup (List.replicate (n + 1) v)).limit.getD v 0 = (n : Int) ∧
    (mkGroup (List.replicate (n + 1) v)).base.getD v 0 = 0 ∧
    (mkGroup (List.replicate (n + 1) v)).permute = (List.range (n + 1)).toArray := by
  unfold mkGroup limitFn baseFn permuteList
  simp only [minMax_replicate, Nat.sub_self, List.range'_zero, lbLoop]
  refine ⟨trivial, trivial, ?_, ?_, ?_⟩
  · rw [frozen_getD _ _ _ (by omega)]
    simp only [upd, List.count_replicate_self]
    rw [if_neg (by omega)]
    simp only [if_true]
    omega
  · rw [frozen_getD _ _ _ (by omega)]
    simp [upd]
  · simp [symsOfLen_replicate]

/-- a flat group decodes the `v`-bit number of every symbol -/
theorem decodeSym_flat (n v : Nat) (hv1 : 1 ≤ v) (hv : v < 22) (hn : n < 258) (sym : Nat) (hs : sym ≤ n) (hsv : sym < 2 ^ v)
    (rest : Bits) :
    decodeSym (mkGroup (List.replicate (n + 1) v)) (putBits v sym ++ rest) = .ok (sym, rest) := by
  obtain ⟨h1, h2, h3, h4, h5⟩ := mkGroup_flat n v hv
  unfold decodeSym
  rw [h1, getBits_putBits v sym hsv]
  simp only
  have hl : hufLoop (mkGroup (List.replicate (n + 1) v)) 22 v sym rest = .ok (v, sym, rest) := by
    rw [show (22 : Nat) = 21 + 1 from rfl]
    simp only [hufLoop, h3]
    rw [if_neg (by omega)]
  rw [hl]
  simp only [h2, h4, h5, Int.sub_zero]
  rw [if_neg (by simp [Gen.maxSymbols]; omega)]
  congr 2
  rw [Array.getD_eq_getD_getElem?, Int.toNat_natCast]
  have : sym < (List.range (n + 1)).toArray.size := by simp; omega
  rw [Array.getElem?_eq_getElem this]
  simp

end Xmp.Bzip2
