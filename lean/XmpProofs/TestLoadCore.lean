import XmpModel.TestLoadCore
import XmpProofs.TestLoad
/-! Helper lemmas for the core test functions (C11): every stream operation keeps the data, the
verdict of a test function is its probe's, the title a test function stores. -/
namespace Xmp.TestLoad

/-! ## the stream operations keep the data -/

@[simp] theorem Stream.read_data (s : Stream) (n : Nat) : (s.read n).2.data = s.data := rfl
@[simp] theorem Stream.seekSet_data (s : Stream) (n : Nat) : (s.seekSet n).data = s.data := rfl
@[simp] theorem Stream.seekCur_data (s : Stream) (n : Nat) : (s.seekCur n).data = s.data := rfl

@[simp] theorem Stream.readBE_data (s : Stream) (k : Nat) : (s.readBE k).2.data = s.data := by
  unfold Stream.readBE
  dsimp only
  split <;> rfl

@[simp] theorem readTitle_data (f : Stream) (n : Int) : (readTitle f n).2.data = f.data := by
  unfold readTitle
  split
  · rfl
  · rfl

@[simp] theorem titledOut_rc (f : Stream) (n : Int) (w : Bool) : (titledOut f n w).rc = 0 := by
  unfold titledOut; split <;> rfl

@[simp] theorem titledOut_data (f : Stream) (n : Int) (w : Bool) : (titledOut f n w).st.data = f.data := by
  unfold titledOut; split
  · exact readTitle_data f n
  · rfl

@[simp] theorem rejectOut_rc (f : Stream) : (rejectOut f).rc = -1 := rfl
@[simp] theorem rejectOut_data (f : Stream) : (rejectOut f).st.data = f.data := rfl

/-! ## the probes keep the data -/

theorem xmProbe_data (f : Stream) : (xmProbe f).2.data = f.data := by
  unfold xmProbe
  dsimp only
  split
  · rfl
  · split <;> rfl

theorem itProbe_data (f : Stream) : (itProbe f).2.data = f.data := by
  unfold itProbe
  exact Stream.readBE_data f 4

theorem s3mProbe_data (f : Stream) : (s3mProbe f).2.data = f.data := by
  unfold s3mProbe
  dsimp only
  split
  · simp
  · split <;> simp

theorem modInsLoop_data : ∀ (n : Nat) (f : Stream), (modInsLoop n f).2.data = f.data
  | 0, _ => rfl
  | n + 1, f => by
    unfold modInsLoop
    dsimp only
    split
    · simp
    · split
      · simp
      · rw [modInsLoop_data n]; simp

theorem modSmpSize_data : ∀ (n acc : Nat) (f : Stream), (modSmpSize n acc f).2.data = f.data
  | 0, _, _ => rfl
  | n + 1, acc, f => by
    unfold modSmpSize
    dsimp only
    rw [modSmpSize_data n]; simp

theorem modMaxPat_data : ∀ (n mx : Nat) (f : Stream), (modMaxPat n mx f).2.data = f.data
  | 0, _, _ => rfl
  | n + 1, mx, f => by
    unfold modMaxPat
    dsimp only
    split
    · simp
    · rw [modMaxPat_data n]; simp

theorem modPatLoop_data : ∀ (n i c : Nat) (f : Stream), (modPatLoop n i c f).2.data = f.data
  | 0, _, _, _ => rfl
  | n + 1, i, c, f => by
    unfold modPatLoop
    dsimp only
    split
    · simp
    · rw [modPatLoop_data n]; simp

theorem modUnic_data (f : Stream) : (modUnic f).2.data = f.data := by
  unfold modUnic
  dsimp only
  have h1 : (modMaxPat 128 0 ((modSmpSize 31 0 (f.seekSet 20)).2.seekSet 952)).2.data = f.data := by
    rw [modMaxPat_data]; simp [modSmpSize_data]
  generalize modMaxPat 128 0 ((modSmpSize 31 0 (f.seekSet 20)).2.seekSet 952) = m at h1 ⊢
  generalize (modSmpSize 31 0 (f.seekSet 20)).1 = sz
  split
  · exact h1
  · have h2 := modPatLoop_data (m.1 + 1) 0 0 m.2
    generalize modPatLoop (m.1 + 1) 0 0 m.2 = p at h2 ⊢
    obtain ⟨p1, p2⟩ := p
    cases p1 with
    | none => exact h2.trans h1
    | some c => dsimp only; split <;> exact h2.trans h1

theorem modProbe_data (f : Stream) : (modProbe f).2.data = f.data := by
  unfold modProbe
  dsimp only
  split
  · simp
  · split
    · simp
    · split
      · simp
      · split
        · rw [modInsLoop_data]; simp
        · split
          · rw [modInsLoop_data]; simp
          · rw [modUnic_data, modInsLoop_data]; simp

theorem probe_data (k : CoreFmt) (f : Stream) : (k.probe f).2.data = f.data := by
  cases k
  · exact xmProbe_data f
  · exact modProbe_data f
  · exact itProbe_data f
  · exact s3mProbe_data f

/-! ## a test function's verdict is its probe's; it never depends on the title pointer -/

theorem coreTest_rc (k : CoreFmt) (f : Stream) (w : Bool) :
    (k.test f w).rc = if (k.probe f).1 then 0 else -1 := by
  cases k <;> simp only [CoreFmt.test, CoreFmt.probe, xmTest, modTest, itTest, s3mTest] <;>
    split <;> simp_all

theorem coreTest_data (k : CoreFmt) (f : Stream) (w : Bool) : (k.test f w).st.data = f.data := by
  cases k <;> simp only [CoreFmt.test, xmTest, modTest, itTest, s3mTest] <;> split <;>
    simp [xmProbe_data, modProbe_data, itProbe_data, s3mProbe_data]

theorem coreTest_rc_zero (k : CoreFmt) (f : Stream) (w : Bool) : (k.test f w).rc = 0 ↔ (k.probe f).1 = true := by
  rw [coreTest_rc]
  split <;> simp_all

theorem coreTest_nonpos (k : CoreFmt) (f : Stream) (w : Bool) : (k.test f w).rc ≤ 0 := by
  rw [coreTest_rc]
  split <;> decide

/-! ## walks over tables whose probes keep the data -/

/-- every probe of the table leaves the handle on the same data -/
def DataPres (ls : List Loader) : Prop := ∀ l ∈ ls, ∀ s w, (l.test s w).st.data = s.data

theorem rewind_of_data {s : Stream} {d : Bytes} (h : s.data = d) : s.rewind = { data := d } := by
  subst h; rfl

/-- `test_module` stops at the first loader that accepts: the result is built from that
loader's probe on the rewound data alone. -/
theorem testWalk_first (e : Env) (l : Loader) (post : List Loader) (d : Bytes)
    (hacc : (l.test { data := d } true).rc = 0) (hnpw : l.name ≠ prowizardName) :
    ∀ (pre : List Loader), DataPres pre → (∀ x ∈ pre, (x.test { data := d } true).rc ≠ 0) →
    ∀ (s : Stream) (buf : Bytes) (info : Option Info), s.data = d →
      ∃ b, testWalk e (pre ++ l :: post) s buf info =
        (0, info.map (fun i => { name := boundedCopy i.name (overlayOpt (l.test { data := d } true).title b),
                                  type := boundedCopy i.type l.name }), (l.test { data := d } true).st)
  | [], _, _, s, buf, info, hs => by
    refine ⟨if Gen.testBufInit = 2 then set0 buf else buf, ?_⟩
    simp only [List.nil_append, testWalk, rewind_of_data hs, hacc, if_true, hnpw, if_false]
  | x :: pre, hd, hrej, s, buf, info, hs => by
    have hx := hrej x (by simp)
    simp only [List.cons_append, testWalk, rewind_of_data hs, hx, if_false]
    exact testWalk_first e l post d hacc hnpw pre (fun y hy => hd y (by simp [hy]))
      (fun y hy => hrej y (by simp [hy])) _ _ info (by rw [hd x (by simp)])

/-- `load_module` hands the rewound data to the first loader whose probe accepts. -/
theorem loadWalk_first (l : Loader) (post : List Loader) (d : Bytes)
    (hacc : (l.test { data := d } false).rc = 0) (hld : (l.test { data := d } false).st.data = d) :
    ∀ (pre : List Loader), DataPres pre → (∀ x ∈ pre, (x.test { data := d } false).rc ≠ 0) →
    ∀ (s : Stream) (tr : Int), s.data = d →
      loadWalk (pre ++ l :: post) s tr = (0, some (l, l.load { data := d }), { data := d })
  | [], _, _, s, tr, hs => by
    simp only [List.nil_append, loadWalk, rewind_of_data hs, hacc, if_true, rewind_of_data hld]
  | x :: pre, hd, hrej, s, tr, hs => by
    have hx := hrej x (by simp)
    simp only [List.cons_append, loadWalk, rewind_of_data hs, hx, if_false]
    exact loadWalk_first l post d hacc hld pre (fun y hy => hd y (by simp [hy]))
      (fun y hy => hrej y (by simp [hy])) _ _ (by rw [hd x (by simp)])

/-- no loader accepts: both walks fall through a prefix -/
theorem testWalk_skip (e : Env) (post : List Loader) (d : Bytes) :
    ∀ (pre : List Loader), DataPres pre → (∀ x ∈ pre, (x.test { data := d } true).rc ≠ 0) →
    ∀ (s : Stream) (buf : Bytes) (info : Option Info), s.data = d →
      ∃ s' b, s'.data = d ∧ testWalk e (pre ++ post) s buf info = testWalk e post s' b info
  | [], _, _, s, buf, info, hs => ⟨s, buf, hs, rfl⟩
  | x :: pre, hd, hrej, s, buf, info, hs => by
    have hx := hrej x (by simp)
    simp only [List.cons_append, testWalk, rewind_of_data hs, hx, if_false]
    exact testWalk_skip e post d pre (fun y hy => hd y (by simp [hy]))
      (fun y hy => hrej y (by simp [hy])) _ _ info (by rw [hd x (by simp)])

/-! ## C strings: a few more facts -/

theorem cstr_append_of_hasNul : ∀ (a b : Bytes), hasNul a = true → cstr (a ++ b) = cstr a
  | [], _, h => by simp [hasNul] at h
  | x :: xs, b, h => by
    by_cases hx : x = 0
    · simp [cstr, hx]
    · have h' : hasNul xs = true := by
        simp only [hasNul, List.any_cons, Bool.or_eq_true, decide_eq_true_eq] at h ⊢
        rcases h with h | h
        · exact absurd h hx
        · simpa [hasNul] using h
      simp [cstr, hx, cstr_append_of_hasNul xs b h']

/-- a NUL right after `a` ends the string no later than `a` does -/
theorem cstr_append_zero_any : ∀ (a b : Bytes), cstr (a ++ 0 :: b) = cstr a
  | [], b => by simp [cstr]
  | x :: xs, b => by
    by_cases hx : x = 0
    · simp [cstr, hx]
    · simp [cstr, hx, cstr_append_zero_any xs b]

theorem cstr_append_zeros_any (a : Bytes) : ∀ (n : Nat), cstr (a ++ zeros n) = cstr a
  | 0 => by simp [zeros]
  | n + 1 => by
    have : a ++ zeros (n + 1) = a ++ 0 :: zeros n := by simp [zeros, List.replicate_succ]
    rw [this, cstr_append_zero_any]

theorem hasNul_copyAdjustBuf (r : Bytes) (n : Nat) : hasNul (copyAdjustBuf r n) = true := by
  have hl := copyAdjust_length_le r n
  unfold copyAdjustBuf
  apply hasNul_append_right
  apply hasNul_zeros
  omega

theorem zeros_drop (n k : Nat) : (zeros n).drop k = zeros (n - k) := by
  simp [zeros, List.drop_replicate]

theorem zeros_append (n k : Nat) : zeros n ++ zeros k = zeros (n + k) := by
  simp [zeros, List.replicate_append_replicate]

/-! ## the title a core test function stores -/

/-- the title field as far as the file has it -/
def CoreFmt.raw (k : CoreFmt) (d : Bytes) : Bytes := (d.drop k.titleOff).take k.titleLen

/-- what `libxmp_read_title` makes of the raw field: `'.'` for unprintables, blanks trimmed -/
def titleOfRaw (raw : Bytes) : Bytes := trimR ((cstr raw).map dotCh)

theorem copyAdjust_self_length (got : Bytes) : copyAdjust (got ++ [0]) got.length = titleOfRaw got := by
  unfold copyAdjust titleOfRaw
  rw [List.take_left']
  rfl

theorem CoreFmt.titleLen_lt (k : CoreFmt) : k.titleLen < nameSize := by cases k <;> decide

/-- `libxmp_read_title(f, t, n)` for `0 ≤ n < XMP_NAME_SIZE`: the `n + 1` bytes written at `t` -/
theorem readTitle_nat (f : Stream) (n : Nat) (hn : n < nameSize) :
    (readTitle f (n : Int)).1 =
      some (copyAdjustBuf ((f.read n).1 ++ [0]) (f.read n).1.length ++
            zeros (n + 1 - (copyAdjustBuf ((f.read n).1 ++ [0]) (f.read n).1.length).length)) := by
  unfold readTitle
  have h1 : ¬ ((n : Int) < 0) := by omega
  have h2 : ¬ ((n : Int) ≥ (nameSize : Int)) := by omega
  simp only [h1, h2, if_false, Int.toNat_natCast]

theorem readTitle_cstr (f : Stream) (n : Nat) (hn : n < nameSize) :
    ∃ w, (readTitle f (n : Int)).1 = some w ∧ hasNul w = true ∧ cstr w = titleOfRaw (f.read n).1 := by
  refine ⟨_, readTitle_nat f n hn, hasNul_append_left (hasNul_copyAdjustBuf _ _), ?_⟩
  rw [cstr_append_of_hasNul _ _ (hasNul_copyAdjustBuf _ _), cstr_copyAdjustBuf, copyAdjust_self_length]

/-- an accepting probe leaves the handle at the title field (`mod_test` / `s3m_test` seek there) -/
theorem coreTest_titled (k : CoreFmt) (d : Bytes) (h : k.accepts d = true) :
    ∃ f : Stream, f.data = d ∧ f.pos = k.titleOff ∧ ∀ w, k.test { data := d } w = titledOut f k.titleLen w := by
  cases k with
  | xm =>
    have hp : (xmProbe { data := d }).1 = true := h
    refine ⟨(xmProbe { data := d }).2, xmProbe_data _, ?_, fun w => by
      simp only [CoreFmt.test, xmTest, hp, if_true]; rfl⟩
    unfold xmProbe at hp ⊢
    dsimp only at hp ⊢
    split at hp
    · simp at hp
    · rename_i hlen
      split at hp
      · simp at hp
      · split
        · omega
        · simp only [Stream.read, List.drop_zero, List.length_take, CoreFmt.titleOff] at hlen ⊢
          have : Gen.xmIdLen = 17 := rfl
          omega
  | mod =>
    have hp : (modProbe { data := d }).1 = true := h
    exact ⟨(modProbe { data := d }).2.seekSet 0, by simp [modProbe_data], by simp [Stream.seekSet, CoreFmt.titleOff],
      fun w => by simp only [CoreFmt.test, modTest, hp, if_true]; rfl⟩
  | it =>
    have hp : (itProbe { data := d }).1 = true := h
    refine ⟨(itProbe { data := d }).2, itProbe_data _, ?_, fun w => by
      simp only [CoreFmt.test, itTest, hp, if_true]; rfl⟩
    unfold itProbe Stream.readBE at hp ⊢
    dsimp only at hp ⊢
    split at hp
    · rename_i hlen
      simp only [hlen, if_true]
      simp only [Stream.read] at hlen ⊢
      simpa [CoreFmt.titleOff] using hlen
    · exfalso
      have hne : ¬ ((2 ^ (8 * 4) - 1 : Nat) = Gen.MAGIC_IMPM) := by decide
      exact hne (of_decide_eq_true hp)
  | s3m =>
    have hp : (s3mProbe { data := d }).1 = true := h
    refine ⟨(s3mProbe { data := d }).2, s3mProbe_data _, ?_, fun w => by
      simp only [CoreFmt.test, s3mTest, hp, if_true]; rfl⟩
    unfold s3mProbe at hp ⊢
    dsimp only at hp ⊢
    split at hp
    · simp at hp
    · split at hp
      · simp at hp
      · rename_i h1 h2
        simp only [h1, h2, if_false]
        simp [Stream.seekSet, CoreFmt.titleOff]

/-- **the title a core test function reports**: a NUL-terminated buffer holding the raw title
field of the file pushed through `libxmp_copy_adjust` -/
theorem coreTest_title (k : CoreFmt) (d : Bytes) (h : k.accepts d = true) :
    ∃ w, (k.test { data := d } true).title = some w ∧ hasNul w = true ∧ cstr w = titleOfRaw (k.raw d) := by
  obtain ⟨f, hd, hpos, ht⟩ := coreTest_titled k d h
  obtain ⟨w, h1, h2, h3⟩ := readTitle_cstr f k.titleLen k.titleLen_lt
  refine ⟨w, ?_, h2, ?_⟩
  · rw [ht true]; simp only [titledOut, if_true]; exact h1
  · rw [h3]
    simp only [Stream.read, hd, hpos, CoreFmt.raw]

/-! ## the name a core loader stores -/

theorem CoreFmt.raw_length_le (k : CoreFmt) (d : Bytes) : (k.raw d).length ≤ k.titleLen := by
  simp only [CoreFmt.raw, List.length_take]; omega

theorem CoreFmt.field_eq (k : CoreFmt) (d : Bytes) : k.field d = k.raw d ++ zeros (k.titleLen - (k.raw d).length) := rfl

theorem CoreFmt.field_length (k : CoreFmt) (d : Bytes) : (k.field d).length = k.titleLen := by
  have := k.raw_length_le d
  simp only [CoreFmt.field_eq, List.length_append, zeros_length]; omega

theorem CoreFmt.cstr_field (k : CoreFmt) (d : Bytes) : cstr (k.field d) = cstr (k.raw d) := by
  rw [CoreFmt.field_eq, cstr_append_zeros_any]

theorem cstr_raw_length_le (k : CoreFmt) (d : Bytes) : (cstr (k.raw d)).length ≤ k.titleLen :=
  Nat.le_trans (cstr_length_le _) (k.raw_length_le d)

/-- the C string a core loader leaves in `mod->name`, and the array is terminated -/
theorem coreName_cstr (k : CoreFmt) (d : Bytes) :
    hasNul (coreName k d) = true ∧
    cstr (coreName k d) = (if k = .s3m then titleOfRaw (k.raw d) else cstr (k.raw d)) := by
  have hlen := cstr_raw_length_le k d
  have hnz := cstr_no_zero (k.raw d)
  have strn : ∀ (n : Nat), (cstr (k.raw d)).length ≤ n → n < nameSize →
      hasNul (strncpyBuf (zeros nameSize) (k.field d ++ [0]) n) = true ∧
      cstr (strncpyBuf (zeros nameSize) (k.field d ++ [0]) n) = cstr (k.raw d) := by
    intro n h1 h2
    have hc : cstr (k.field d ++ [0]) = cstr (k.raw d) := by
      rw [cstr_append_zero_any, k.cstr_field]
    unfold strncpyBuf
    rw [hc, List.take_of_length_le h1, zeros_drop, List.append_assoc, zeros_append]
    have hpos : 0 < n - (cstr (k.raw d)).length + (nameSize - n) := by omega
    constructor
    · exact hasNul_append_right (hasNul_zeros hpos)
    · have := cstr_append_zeros (cstr (k.raw d)) _ [] hnz hpos
      simpa using this
  cases k with
  | xm => simpa [coreName, CoreFmt.titleLen] using strn 20 hlen (by decide)
  | mod => simpa [coreName, CoreFmt.titleLen] using strn 20 hlen (by decide)
  | it =>
    simp only [coreName, overlay, if_neg (by decide : ¬ CoreFmt.it = .s3m)]
    constructor
    · apply hasNul_append_left; apply hasNul_append_right; simp [hasNul]
    · rw [List.append_assoc]
      show cstr (CoreFmt.it.field d ++ 0 :: _) = _
      rw [cstr_append_zero_any, CoreFmt.cstr_field]
  | s3m =>
    simp only [coreName, overlay, if_true]
    have hn := hasNul_copyAdjustBuf (CoreFmt.s3m.field d) CoreFmt.s3m.titleLen
    refine ⟨hasNul_append_left hn, ?_⟩
    rw [cstr_append_of_hasNul _ _ hn, cstr_copyAdjustBuf]
    unfold copyAdjust titleOfRaw
    rw [List.take_of_length_le (Nat.le_of_eq (CoreFmt.s3m.field_length d)), CoreFmt.cstr_field]

/-! ## the first core format that accepts -/

/-- the core loader `test_module` / `load_module` stop at: table order xm, mod, it, s3m -/
def coreFirst (d : Bytes) : Option CoreFmt :=
  if CoreFmt.xm.accepts d then some .xm
  else if CoreFmt.mod.accepts d then some .mod
  else if CoreFmt.it.accepts d then some .it
  else if CoreFmt.s3m.accepts d then some .s3m
  else none

theorem coreFirst_some {d : Bytes} {k : CoreFmt} (h : coreFirst d = some k) :
    k.accepts d = true ∧ ∀ j : CoreFmt, j.index < k.index → j.accepts d = false := by
  unfold coreFirst at h
  split at h
  · cases h; rename_i h1; exact ⟨h1, fun j hj => by cases j <;> simp [CoreFmt.index] at hj⟩
  · rename_i n1
    split at h
    · cases h; rename_i h2
      exact ⟨h2, fun j hj => by cases j <;> simp [CoreFmt.index] at hj; simpa using n1⟩
    · rename_i n2
      split at h
      · cases h; rename_i h3
        refine ⟨h3, fun j hj => ?_⟩
        cases j <;> simp [CoreFmt.index] at hj
        · simpa using n1
        · simpa using n2
      · rename_i n3
        split at h
        · cases h; rename_i h4
          refine ⟨h4, fun j hj => ?_⟩
          cases j <;> simp [CoreFmt.index] at hj
          · simpa using n1
          · simpa using n2
          · simpa using n3
        · cases h

theorem coreFirst_none {d : Bytes} (h : coreFirst d = none) : ∀ k : CoreFmt, k.accepts d = false := by
  unfold coreFirst at h
  split at h
  · cases h
  · split at h
    · cases h
    · split at h
      · cases h
      · split at h
        · cases h
        · intro k; cases k <;> simp_all

theorem coreFirst_isSome (d : Bytes) : (coreFirst d).isSome = true ↔ ∃ k : CoreFmt, k.accepts d = true := by
  constructor
  · intro h
    cases hk : coreFirst d with
    | none => rw [hk] at h; cases h
    | some k => exact ⟨k, (coreFirst_some hk).1⟩
  · intro ⟨k, hk⟩
    cases hc : coreFirst d with
    | none => have := coreFirst_none hc k; rw [this] at hk; cases hk
    | some _ => rfl

theorem coreLoaders_dataPres (body : CoreFmt → Stream → LoadOut) : DataPres (coreLoaders body) := by
  intro l hl s w
  simp only [coreLoaders, coreOrder, List.map_cons, List.map_nil, List.mem_cons, List.mem_nil_iff, or_false] at hl
  rcases hl with rfl | rfl | rfl | rfl <;> exact coreTest_data _ s w

/-- the table splits around the entry of `k`; what precedes are the core loaders of smaller index -/
theorem core_split (body : CoreFmt → Stream → LoadOut) (rest : List Loader) (k : CoreFmt) :
    ∃ pre post, coreLoaders body ++ rest = pre ++ coreLoader k (body k) :: post ∧
      ∀ x ∈ pre, ∃ j : CoreFmt, j.index < k.index ∧ x = coreLoader j (body j) := by
  cases k with
  | xm => exact ⟨[], _, rfl, fun x hx => by cases hx⟩
  | mod =>
    refine ⟨[coreLoader .xm (body .xm)], _, rfl, fun x hx => ?_⟩
    simp only [List.mem_cons, List.mem_nil_iff, or_false] at hx
    exact ⟨.xm, by decide, hx⟩
  | it =>
    refine ⟨[coreLoader .xm (body .xm), coreLoader .mod (body .mod)], _, rfl, fun x hx => ?_⟩
    simp only [List.mem_cons, List.mem_nil_iff, or_false] at hx
    rcases hx with hx | hx
    · exact ⟨.xm, by decide, hx⟩
    · exact ⟨.mod, by decide, hx⟩
  | s3m =>
    refine ⟨[coreLoader .xm (body .xm), coreLoader .mod (body .mod), coreLoader .it (body .it)], _, rfl, fun x hx => ?_⟩
    simp only [List.mem_cons, List.mem_nil_iff, or_false] at hx
    rcases hx with hx | hx | hx
    · exact ⟨.xm, by decide, hx⟩
    · exact ⟨.mod, by decide, hx⟩
    · exact ⟨.it, by decide, hx⟩

theorem core_lname_facts (k : CoreFmt) :
    k.lname ≠ prowizardName ∧ (∀ c ∈ k.lname, c ≠ 0) ∧ k.lname.length < nameSize - 1 := by
  cases k <;> decide

/-- `test_module` on a table that starts with the four core loaders, when `k` is the first of them
to accept: the outcome is `k`'s, whatever follows in the table. -/
theorem core_testModule (e : Env) (body : CoreFmt → Stream → LoadOut) (rest : List Loader)
    (he : e.loaders = coreLoaders body ++ rest) (s : Stream) (k : CoreFmt) (hk : coreFirst s.data = some k)
    (info : Option Info) :
    ∃ b, testModule e s info =
      (0, (resetInfo info).map (fun i => { name := boundedCopy i.name (overlayOpt (k.test { data := s.data } true).title b),
                                           type := boundedCopy i.type k.lname }),
       (k.test { data := s.data } true).st) := by
  obtain ⟨hacc, hrej⟩ := coreFirst_some hk
  obtain ⟨pre, post, hsplit, hpre⟩ := core_split body rest k
  have hd : DataPres pre := by
    intro x hx s' w
    obtain ⟨j, _, rfl⟩ := hpre x hx
    exact coreTest_data j s' w
  have hr : ∀ x ∈ pre, (x.test { data := s.data } true).rc ≠ 0 := by
    intro x hx
    obtain ⟨j, hj, rfl⟩ := hpre x hx
    intro h0
    have := (coreTest_rc_zero j { data := s.data } true).mp h0
    have h2 : j.accepts s.data = false := hrej j hj
    simp only [CoreFmt.accepts] at h2
    rw [h2] at this; cases this
  have ha : ((coreLoader k (body k)).test { data := s.data } true).rc = 0 :=
    (coreTest_rc_zero k _ true).mpr hacc
  unfold testModule
  rw [he, hsplit]
  exact testWalk_first e (coreLoader k (body k)) post s.data ha (core_lname_facts k).1 pre hd hr s _ _ rfl

/-- `load_module` on the same table: the rewound data goes to `k`'s loader -/
theorem core_loadWalk (e : Env) (body : CoreFmt → Stream → LoadOut) (rest : List Loader)
    (he : e.loaders = coreLoaders body ++ rest) (s : Stream) (k : CoreFmt) (hk : coreFirst s.data = some k) (tr : Int) :
    loadWalk e.loaders s tr =
      (0, some (coreLoader k (body k), (coreLoader k (body k)).load { data := s.data }), { data := s.data }) := by
  obtain ⟨hacc, hrej⟩ := coreFirst_some hk
  obtain ⟨pre, post, hsplit, hpre⟩ := core_split body rest k
  have hd : DataPres pre := by
    intro x hx s' w
    obtain ⟨j, _, rfl⟩ := hpre x hx
    exact coreTest_data j s' w
  have hr : ∀ x ∈ pre, (x.test { data := s.data } false).rc ≠ 0 := by
    intro x hx
    obtain ⟨j, hj, rfl⟩ := hpre x hx
    intro h0
    have := (coreTest_rc_zero j { data := s.data } false).mp h0
    have h2 : j.accepts s.data = false := hrej j hj
    simp only [CoreFmt.accepts] at h2
    rw [h2] at this; cases this
  have ha : ((coreLoader k (body k)).test { data := s.data } false).rc = 0 :=
    (coreTest_rc_zero k _ false).mpr hacc
  rw [he, hsplit]
  exact loadWalk_first (coreLoader k (body k)) post s.data ha (coreTest_data k _ false) pre hd hr s tr rfl

end Xmp.TestLoad
