import XmpProofs.WorkBound
/-!
# Work bound of the compress(1) LZW code loop (`XmpModel.Lzw.decGo`, src/depackers/uncompress.c) (C02)

For arbitrary input bytes: every iteration of the `while (inbits > posbits)` loop either reads a code of at
least 9 bits or performs a code-width change, and two width changes never follow each other (after a change
`free_ent ≤ maxcode` again).  Hence at most `2·(8·|body|/9) + 1 ≤ 2·|body| + 1` iterations; the model's fuel
`2·|body| + 4` is never what stops it.
-/
namespace Xmp.Work
open Xmp Xmp.Lzw

theorem decGo_eq_run (a : Array UInt8) (maxbits : Nat) (bm : Bool) : ∀ fuel d,
    decGo a maxbits bm fuel d = (run (lzwStep a maxbits bm) fuel d).outD none := by
  intro fuel
  induction fuel with
  | zero => intros; rfl
  | succ n ih =>
    intro d
    rw [run_outD_fold]
    simp only [decGo, lzwStep]
    split
    · rfl
    split
    · exact ih _
    cases decCode maxbits bm { d with w := d.w.adv } (readCode a d.w.pos d.w.nBits) with
    | none => rfl
    | some d' => exact ih d'

/-- width-state invariant: the table never outgrows the current code width, and `maxcode` has one of its two forms -/
def LzwInv (maxbits : Nat) (d : Dec) : Prop :=
  9 ≤ d.w.nBits ∧ 256 + d.tab.size ≤ 2 ^ d.w.nBits ∧
    (d.w.maxcode = 2 ^ d.w.nBits - 1 ∨ (d.w.maxcode = 2 ^ maxbits ∧ d.w.nBits = maxbits))

theorem alignUp_ge (rel nb8 : Nat) (h : 0 < nb8) : rel ≤ alignUp rel nb8 := by
  unfold alignUp
  split
  · omega
  · have := Nat.mod_lt (rel - 1 + nb8) h
    omega

theorem aligned_ge (w : W) (h : 0 < w.nBits) : w.pos ≤ w.aligned := by
  unfold W.aligned
  have := alignUp_ge (w.pos - w.base) (w.nBits * 8) (by omega)
  omega

theorem two_pow_succ (n : Nat) : 2 ^ (n + 1) = 2 * 2 ^ n := by rw [Nat.pow_succ]; omega

/-- what one code does to the invariant and to the bit position -/
theorem decCode_inv (maxbits : Nat) (bm : Bool) (d : Dec) (code : Nat) (d' : Dec)
    (hi : LzwInv maxbits d) (hnb : ¬ 256 + d.tab.size > d.w.maxcode)
    (h : decCode maxbits bm { d with w := d.w.adv } code = some d') :
    LzwInv maxbits d' ∧ d.w.pos + d.w.nBits ≤ d'.w.pos := by
  obtain ⟨h9, hsz, hmc⟩ := hi
  unfold decCode at h
  simp only [] at h
  split at h
  · -- first code
    split at h
    · simp at h
    simp only [Option.some.injEq] at h
    subst h
    exact ⟨⟨h9, hsz, hmc⟩, by simp [W.adv]⟩
  · split at h
    · -- CLEAR
      simp only [Option.some.injEq] at h
      subst h
      refine ⟨⟨by simp [W.clear], by simp [W.clear], by left; simp [W.clear]⟩, ?_⟩
      have := aligned_ge d.w.adv (by simp [W.adv]; omega)
      simp only [W.clear, W.adv] at this ⊢
      exact this
    split at h
    · simp at h
    split at h
    · simp at h
    rename_i stk fin _
    simp only [Option.some.injEq] at h
    subst h
    refine ⟨⟨h9, ?_, hmc⟩, by simp [W.adv]⟩
    simp only [W.adv]
    split
    · rename_i hroom
      simp only [Array.size_push]
      rcases hmc with hm | ⟨hm, hn⟩
      · have : 0 < 2 ^ d.w.nBits := Nat.pow_pos (by decide)
        omega
      · rw [hn]; omega
    · exact hsz

theorem bump_inv (maxbits : Nat) (d : Dec) (hi : LzwInv maxbits d) (hb : 256 + d.tab.size > d.w.maxcode) :
    LzwInv maxbits { d with w := d.w.bump maxbits } ∧ ¬ 256 + d.tab.size > (d.w.bump maxbits).maxcode ∧
      d.w.pos ≤ (d.w.bump maxbits).pos := by
  obtain ⟨h9, hsz, hmc⟩ := hi
  have hp := two_pow_succ d.w.nBits
  have hpos : 0 < 2 ^ d.w.nBits := Nat.pow_pos (by decide)
  have hm : d.w.maxcode = 2 ^ d.w.nBits - 1 := by
    rcases hmc with hm | ⟨hm, hn⟩
    · exact hm
    · rw [hn] at hsz; omega
  refine ⟨⟨by simp [W.bump]; omega, by simp only [W.bump]; omega, ?_⟩, ?_, aligned_ge d.w (by omega)⟩
  · simp only [W.bump]
    split
    · rename_i he; right; exact ⟨rfl, he⟩
    · left; rfl
  · simp only [W.bump]
    split
    · rename_i he; rw [← he]; omega
    · omega

/-- the measure: twice the number of 9-bit codes that still fit, plus one while a width change is pending -/
def lzwMu (a : Array UInt8) (d : Dec) : Nat :=
  2 * ((8 * a.size - d.w.pos) / 9) + (if 256 + d.tab.size > d.w.maxcode then 1 else 0)

theorem lzwStep_progress (a : Array UInt8) (maxbits : Nat) (bm : Bool) (d d' : Dec) (hi : LzwInv maxbits d)
    (h : (lzwStep a maxbits bm d).succ? = some d') : LzwInv maxbits d' ∧ lzwMu a d' + 1 ≤ lzwMu a d := by
  unfold lzwStep at h
  split at h
  · simp [Out.succ?] at h
  rename_i hfit
  split at h
  · rename_i hb
    simp only [Out.succ?, Option.some.injEq] at h
    subst h
    obtain ⟨i2, nb, hp⟩ := bump_inv maxbits d hi hb
    refine ⟨i2, ?_⟩
    unfold lzwMu
    simp only [] at nb hp ⊢
    rw [if_neg nb, if_pos hb]
    have : (8 * a.size - (d.w.bump maxbits).pos) / 9 ≤ (8 * a.size - d.w.pos) / 9 := Nat.div_le_div_right (by omega)
    omega
  · rename_i hnb
    split at h
    · simp [Out.succ?] at h
    rename_i dd hd
    simp only [Out.succ?, Option.some.injEq] at h
    subst h
    obtain ⟨i2, hp⟩ := decCode_inv maxbits bm d _ dd hi hnb hd
    refine ⟨i2, ?_⟩
    unfold lzwMu
    rw [if_neg hnb]
    have h9 := hi.1
    have : (8 * a.size - dd.w.pos) + 9 ≤ 8 * a.size - d.w.pos := by omega
    have := div_step (by decide : 0 < 9) this
    split <;> omega

/-- **LZW work bound**: from the initial state the code loop of `decrunch_compress` ends by itself within
`2·(8·|body|/9) + 1` iterations, for every byte string; the model's fuel `2·|body| + 4` is never what stops it -/
theorem lzw_work (body : Bytes) (maxbits : Nat) (bm : Bool) :
    let d0 : Dec := { w := W.init, tab := initTab bm, oldcode := none, finchar := 0, out := [] }
    EndsWithin (lzwStep body.toArray maxbits bm) (2 * body.length + 4) d0 (2 * (8 * body.length / 9) + 1) ∧
    decGo body.toArray maxbits bm (2 * body.length + 4) d0 =
      (run (lzwStep body.toArray maxbits bm) (2 * body.length + 4) d0).outD none := by
  intro d0
  have hi : LzwInv maxbits d0 := by
    refine ⟨by simp [d0, W.init], ?_, by left; simp [d0, W.init]⟩
    show 256 + (initTab bm).size ≤ 2 ^ 9
    cases bm <;> decide
  have hmu : lzwMu body.toArray d0 = 2 * (8 * body.length / 9) := by
    unfold lzwMu
    have : ¬ 256 + d0.tab.size > d0.w.maxcode := by
      show ¬ 256 + (initTab bm).size > 511
      cases bm <;> decide
    rw [if_neg this]
    simp [d0, W.init]
  have hb := run_bounded (lzwStep body.toArray maxbits bm) (LzwInv maxbits) (lzwMu body.toArray) 1 (by decide)
    (fun s s' hs h => lzwStep_progress body.toArray maxbits bm s s' hs h) (2 * body.length + 4) d0 hi
    (by rw [hmu, Nat.div_one]; have : 8 * body.length / 9 ≤ body.length := by omega
        omega)
  rw [hmu, Nat.div_one] at hb
  exact ⟨hb, decGo_eq_run _ _ _ _ _⟩

end Xmp.Work
