import XmpProofs.LoadPostCore
import XmpProofs.LoadPostCorePcm
/-!
# C03 × C19 — every song `Xm.read` returns satisfies `SongOk`
-/
namespace Xmp.LoadPost.Core
open Xmp Xmp.Fmt

theorem xm_readPats_rows (chn : Nat) (file : Bytes) : ∀ (n pos : Nat) (x : List Pat × Nat),
    Xm.readPats chn file n pos = some x → ∀ p ∈ x.1, 1 ≤ p.rows
  | 0, pos, x, h => by
    simp only [Xm.readPats, Option.some.injEq] at h
    subst h; intro p hp; cases hp
  | n + 1, pos, x, h => by
    unfold Xm.readPats at h
    simp only at h
    split at h
    · cases h
    · split at h
      · cases h
      · split at h
        · cases h
        · have hr : 1 ≤ (if rd16le (List.take 2 (List.drop 5 (List.take 9 (List.drop pos file)))) = 0 then 256
              else rd16le (List.take 2 (List.drop 5 (List.take 9 (List.drop pos file))))) := by
            split <;> omega
          split at h
          · obtain ⟨y, hy, rfl⟩ := Option.map_eq_some_iff.mp h
            intro p hp
            simp only [List.mem_cons] at hp
            rcases hp with rfl | hp
            · exact hr
            · exact xm_readPats_rows chn file n _ y hy p hp
          · split at h
            · cases h
            · split at h
              · cases h
              · obtain ⟨y, hy, rfl⟩ := Option.map_eq_some_iff.mp h
                intro p hp
                simp only [List.mem_cons] at hp
                rcases hp with rfl | hp
                · exact hr
                · exact xm_readPats_rows chn file n _ y hy p hp

/-- `readBodies` keeps every sample's name; the PCM it attaches is exactly `len` frames -/
theorem xm_readBodies_name (file : Bytes) : ∀ (l : List (Smp × Nat)) (pos : Nat) (r : List Smp),
    Xm.readBodies file l pos = some r →
    ∀ m ∈ r, ∃ m0 ∈ l, m.name = m0.1.name ∧ (m.pcm = m0.1.pcm ∨ m.pcm.length = m.len * frameLen m.flg)
  | [], pos, r, h => by
    simp only [Xm.readBodies, Option.some.injEq] at h
    subst h; intro m hm; cases hm
  | (m0, raw) :: ms, pos, r, h => by
    unfold Xm.readBodies at h
    simp only at h
    split at h
    · obtain ⟨r', hr', rfl⟩ := Option.map_eq_some_iff.mp h
      intro m hm
      simp only [List.mem_cons] at hm
      rcases hm with rfl | hm
      · exact ⟨(m, raw), List.mem_cons_self, rfl, Or.inl rfl⟩
      · obtain ⟨q, hq, e⟩ := xm_readBodies_name file ms _ r' hr' m hm
        exact ⟨q, List.mem_cons_of_mem _ hq, e⟩
    · split at h
      · cases h
      · split at h
        · cases h
        · rename_i hfit
          rcases hls : loopSanity m0.len m0.lps m0.lpe m0.flg with ⟨a, b, c⟩
          rw [hls] at h
          obtain ⟨r', hr', rfl⟩ := Option.map_eq_some_iff.mp h
          intro m hm
          simp only [List.mem_cons] at hm
          rcases hm with rfl | hm
          · refine ⟨(m0, raw), List.mem_cons_self, rfl, Or.inr ?_⟩
            have hc : frameBytes c = frameBytes m0.flg := by
              have := frameBytes_loopSanity m0.len m0.lps m0.lpe m0.flg
              rw [hls] at this; exact this
            show (Xm.loadPcm m0.flg m0.len _).length = m0.len * frameBytes c
            rw [hc]
            refine xm_loadPcm_length _ _ _ ?_
            rw [List.length_take, List.length_drop]; omega
          · obtain ⟨q, hq, e⟩ := xm_readBodies_name file ms _ r' hr' m hm
            exact ⟨q, List.mem_cons_of_mem _ hq, e⟩

theorem xm_hdrSmp_name (h : Xm.SmpHdr) : (Xm.hdrSmp h).name.length ≤ 22 ∧ (Xm.hdrSmp h).pcm = [] := by
  unfold Xm.hdrSmp
  exact ⟨length_adjust_copyAdjust_le 22 h.name, rfl⟩

/-- instrument and sample names of `load_instruments`: at most 22 characters; sample PCM: exactly `len` frames -/
theorem xm_readIns_names (file : Bytes) : ∀ (n pos sid : Nat) (x : List Ins × List Smp),
    Xm.readIns file n pos sid = some x → (∀ i ∈ x.1, i.name.length ≤ 22) ∧
      (∀ m ∈ x.2, m.name.length ≤ 22 ∧ (m.pcm = [] ∨ m.pcm.length = m.len * frameLen m.flg))
  | 0, pos, sid, x, h => by
    simp only [Xm.readIns, Option.some.injEq] at h
    subst h
    exact ⟨fun i hi => (by cases hi), fun m hm => (by cases hm)⟩
  | n + 1, pos, sid, x, h => by
    unfold Xm.readIns at h
    simp (config := { maxSteps := 2000000 }) only [ite_eq_some, Option.map_eq_some_iff, reduceCtorEq, and_false,
      false_or] at h
    have hname := length_adjust_copyAdjust_le 22
        (List.take 22 (List.drop 4 (padTo 33 (List.take 33 (List.drop pos file)))))
    rcases h with ⟨-, h⟩ | ⟨-, -, -, -, h⟩
    · cases h
      refine ⟨fun i hi => ?_, fun m hm => (by cases hm)⟩
      rw [List.eq_of_mem_replicate hi]
      exact Nat.zero_le _
    · rcases h with ⟨-, -, y, hy, rfl⟩ | ⟨-, -, -, -, -, -, h⟩
      · obtain ⟨r1, r2⟩ := xm_readIns_names file n _ sid y hy
        refine ⟨fun i hi => ?_, r2⟩
        simp only [List.mem_cons] at hi
        rcases hi with rfl | hi
        · dsimp only; exact hname
        · exact r1 i hi
      · split at h
        · cases h
        · rename_i smps hb
          simp only [ite_eq_some, Option.map_eq_some_iff, reduceCtorEq, and_false, false_or] at h
          obtain ⟨-, y, hy, rfl⟩ := h
          obtain ⟨r1, r2⟩ := xm_readIns_names file n _ _ y hy
          refine ⟨fun i hi => ?_, fun m hm => ?_⟩
          · simp only [List.mem_cons] at hi
            rcases hi with rfl | hi
            · dsimp only; exact hname
            · exact r1 i hi
          · simp only [List.mem_append] at hm
            rcases hm with hm | hm
            · obtain ⟨q, hq, e, e2⟩ := xm_readBodies_name file _ _ _ hb m hm
              obtain ⟨hd, _, rfl⟩ := List.mem_map.mp hq
              dsimp only at e e2
              rw [e, (xm_hdrSmp_name hd).2] at *
              exact ⟨(xm_hdrSmp_name hd).1, e2⟩
            · exact r2 m hm

/-- **XM**: every song the reader returns meets `SongOk` -/
theorem xm_read_songOk (b : Bytes) (s : Song) (h : Xm.read b = some s) : SongOk s := by
  unfold Xm.read at h
  simp only [Option.bind_eq_bind, Option.bind_none] at h
  simp only [Option.bind_eq_some_iff, ite_eq_some, reduceCtorEq, and_false, false_or] at h
  obtain ⟨-, -, -, -, -, -, -, -, -, ps, hps, is, his, h⟩ := h
  cases h
  obtain ⟨n1, n2⟩ := xm_readIns_names _ _ _ _ _ his
  refine ⟨?_, ?_, ?_, ?_⟩
  · intro p hp
    simp only [List.mem_append, List.mem_singleton] at hp
    rcases hp with hp | rfl
    · exact xm_readPats_rows _ _ _ _ _ hps p hp
    · show 1 ≤ 64; omega
  · have h1 := length_adjustString_le (Fmt.cstr (List.take 20 (List.drop 17 b)))
    have h2 := length_cstr_le (List.take 20 (List.drop 17 b))
    have h3 : (List.take 20 (List.drop 17 b)).length ≤ 20 := by rw [List.length_take]; omega
    have : Gen.Limits.xmpNameSize = 64 := rfl
    show (Fmt.adjustString (Fmt.cstr (List.take 20 (List.drop 17 b)))).length < _
    omega
  · intro x hx
    have := n1 x hx
    omega
  · intro m hm
    obtain ⟨m1, hm1, rfl⟩ := List.mem_map.mp hm
    rw [name_obsLoop]
    have := (n2 m1 hm1).1
    omega

/-- **XM**: … and `PcmOk` -/
theorem xm_read_pcmOk (b : Bytes) (s : Song) (h : Xm.read b = some s) : PcmOk s := by
  unfold Xm.read at h
  simp only [Option.bind_eq_bind, Option.bind_none] at h
  simp only [Option.bind_eq_some_iff, ite_eq_some, reduceCtorEq, and_false, false_or] at h
  obtain ⟨-, -, -, -, -, -, -, -, -, ps, hps, is, his, h⟩ := h
  cases h
  obtain ⟨n1, n2⟩ := xm_readIns_names _ _ _ _ _ his
  intro m hm
  obtain ⟨m1, hm1, rfl⟩ := List.mem_map.mp hm
  rw [pcm_obsLoop, len_obsLoop, flg_obsLoop]
  exact (n2 m1 hm1).2

end Xmp.LoadPost.Core
