import XmpProofs.MmcmpFrame
import XmpModel.Squeeze
/-!
ARC squeeze (method 4): the Huffman stage of `arc_unpack_huffman_rle90` inverts the encoder for every code tree that
fits the node table, and the whole member decoder inverts RLE90 + Huffman.
-/
namespace Xmp.Container
open Xmp Xmp.Gen.Depackers

/-! ## reading the node table back -/

theorem s16_le16s (v : Int) (h1 : -32768 ≤ v) (h2 : v < 32768) (r : Bytes) : s16 (u16At (le16s v ++ r) 0) = v := by
  unfold le16s
  have hlt : (v % 65536).toNat < 65536 := by omega
  rw [u16At_le16 _ hlt]
  unfold s16
  by_cases hv : 0 ≤ v
  · have : (v % 65536).toNat = v.toNat := by omega
    rw [this]
    have : v.toNat < 32768 := by omega
    simp only [this, if_true]; omega
  · have : ¬ (v % 65536).toNat < 32768 := by omega
    simp only [this, if_false]; omega

theorem le16s_length (v : Int) : (le16s v).length = 2 := rfl

def sqEnc (e : Int × Int) : Bytes := le16s e.1 ++ le16s e.2

theorem sqEnc_length (e : Int × Int) : (sqEnc e).length = 4 := rfl

theorem flatMap_sqEnc_length (L : List (Int × Int)) : (L.flatMap sqEnc).length = 4 * L.length := by
  induction L with
  | nil => rfl
  | cons e L ih => simp only [List.flatMap_cons, List.length_append, sqEnc_length, ih, List.length_cons]; omega

def RefOk (e : Int × Int) : Prop := -32768 ≤ e.1 ∧ e.1 < 32768 ∧ -32768 ≤ e.2 ∧ e.2 < 32768

theorem sqNode_spec (hd : Bytes) (L : List (Int × Int)) (rest : Bytes) (hh : hd.length = 2)
    (hok : ∀ e ∈ L, RefOk e) (i : Nat) (hi : i < L.length) :
    sqNode (hd ++ L.flatMap sqEnc ++ rest) i = L[i] := by
  have hsplit : L = L.take i ++ L[i] :: L.drop (i + 1) := by
    rw [List.getElem_cons_drop, List.take_append_drop]
  have hdrop : (hd ++ L.flatMap sqEnc ++ rest).drop (4 * i + 2) =
      le16s L[i].1 ++ (le16s L[i].2 ++ ((L.drop (i + 1)).flatMap sqEnc ++ rest)) := by
    conv => lhs; rw [hsplit]
    rw [List.flatMap_append, List.flatMap_cons]
    have hl : (hd ++ (L.take i).flatMap sqEnc).length = 4 * i + 2 := by
      rw [List.length_append, flatMap_sqEnc_length, List.length_take, hh]; omega
    have : hd ++ ((L.take i).flatMap sqEnc ++ (sqEnc L[i] ++ (L.drop (i + 1)).flatMap sqEnc)) ++ rest =
        (hd ++ (L.take i).flatMap sqEnc) ++ (sqEnc L[i] ++ ((L.drop (i + 1)).flatMap sqEnc ++ rest)) := by
      simp only [List.append_assoc]
    rw [this, List.drop_left' hl]
    simp only [sqEnc, List.append_assoc]
  obtain ⟨h1, h2, h3, h4⟩ := hok L[i] (List.getElem_mem hi)
  unfold sqNode
  have e1 : u16At (hd ++ L.flatMap sqEnc ++ rest) (4 * i + 2) = u16At ((hd ++ L.flatMap sqEnc ++ rest).drop (4 * i + 2)) 0 := by
    have := u16At_drop' (hd ++ L.flatMap sqEnc ++ rest) (4 * i + 2) 0
    rw [Nat.add_zero] at this; exact this
  have e2 : u16At (hd ++ L.flatMap sqEnc ++ rest) (4 * i + 4) = u16At ((hd ++ L.flatMap sqEnc ++ rest).drop (4 * i + 2)) 2 := by
    have := u16At_drop' (hd ++ L.flatMap sqEnc ++ rest) (4 * i + 2) 2
    exact this
  rw [e1, e2, hdrop]
  have e3 : u16At (le16s L[i].1 ++ (le16s L[i].2 ++ ((L.drop (i + 1)).flatMap sqEnc ++ rest))) 2 =
      u16At (le16s L[i].2 ++ ((L.drop (i + 1)).flatMap sqEnc ++ rest)) 0 :=
    u16At_skip (le16s L[i].1) _ 0 2 rfl
  rw [e3, s16_le16s _ h1 h2, s16_le16s _ h3 h4]

theorem sqNodes_spec (hd : Bytes) (L : List (Int × Int)) (rest : Bytes) (hh : hd.length = 2)
    (hok : ∀ e ∈ L, RefOk e) : sqNodes (hd ++ L.flatMap sqEnc ++ rest) L.length = L := by
  apply List.ext_getElem
  · simp [sqNodes]
  · intro i h1 h2
    simp only [sqNodes, List.getElem_map, List.getElem_range]
    exact sqNode_spec hd L rest hh hok i h2

/-! ## trees and their tables -/

def SqTree.isNode : SqTree → Bool
  | .leaf _ => false
  | .node _ _ => true

def SqTree.LeavesLe (m : Nat) : SqTree → Prop
  | .leaf s => s ≤ m
  | .node l r => l.LeavesLe m ∧ r.LeavesLe m

theorem sqFlatten_length (t : SqTree) : ∀ base, (sqFlatten t base).length = t.size := by
  induction t with
  | leaf s => intro _; rfl
  | node l r ihl ihr =>
    intro base
    simp only [sqFlatten, List.length_cons, List.length_append, ihl, ihr, SqTree.size]; omega

theorem sqRef_node_nonneg (t : SqTree) (i : Nat) (h : t.isNode = true) : sqRef t i = (i : Int) := by
  cases t with
  | leaf s => simp [SqTree.isNode] at h
  | node l r => rfl

theorem sqRef_leaf_neg (s i : Nat) : sqRef (.leaf s) i = -((s : Int) + 1) := rfl

/-- every child field of a stored tree: a leaf code, or an index inside the tree's own range above its root -/
theorem sqFlatten_refs (t : SqTree) (m : Nat) (hm : t.LeavesLe m) : ∀ base, ∀ e ∈ sqFlatten t base,
    (-(m : Int) - 1 ≤ e.1 ∧ e.1 < (base + t.size : Nat)) ∧ (-(m : Int) - 1 ≤ e.2 ∧ e.2 < (base + t.size : Nat)) := by
  induction t with
  | leaf s => intro base e he; simp [sqFlatten] at he
  | node l r ihl ihr =>
    intro base e he
    obtain ⟨hl, hr⟩ := hm
    simp only [sqFlatten, List.mem_cons, List.mem_append] at he
    simp only [SqTree.size]
    rcases he with rfl | he | he
    · constructor
      · cases l with
        | leaf s => simp only [sqRef, SqTree.LeavesLe] at hl ⊢; omega
        | node a b => simp only [sqRef, SqTree.size]; omega
      · cases r with
        | leaf s => simp only [sqRef, SqTree.LeavesLe] at hr ⊢; omega
        | node a b => simp only [sqRef, SqTree.size]; omega
    · have := ihl hl (base + 1) e he
      omega
    · have := ihr hr (base + 1 + l.size) e he
      omega

/-- the stored tree as seen through the node array -/
def SubAt (nodes : Array (Int × Int)) : SqTree → Nat → Prop
  | .leaf _, _ => True
  | .node l r, base =>
    nodes[base]? = some (sqRef l (base + 1), sqRef r (base + 1 + l.size)) ∧
    SubAt nodes l (base + 1) ∧ SubAt nodes r (base + 1 + l.size)

theorem subAt_flatten (t : SqTree) : ∀ (pre post : List (Int × Int)),
    SubAt (pre ++ sqFlatten t pre.length ++ post).toArray t pre.length := by
  induction t with
  | leaf s => intro _ _; trivial
  | node l r ihl ihr =>
    intro pre post
    refine ⟨?_, ?_, ?_⟩
    · simp [sqFlatten]
    · have := ihl (pre ++ [(sqRef l (pre.length + 1), sqRef r (pre.length + 1 + l.size))])
        (sqFlatten r (pre.length + 1 + l.size) ++ post)
      simp only [List.length_append, List.length_cons, List.length_nil, Nat.zero_add] at this
      simpa [sqFlatten, List.append_assoc] using this
    · have := ihr (pre ++ (sqRef l (pre.length + 1), sqRef r (pre.length + 1 + l.size)) :: sqFlatten l (pre.length + 1)) post
      simp only [List.length_append, List.length_cons, sqFlatten_length] at this
      have e : pre.length + (l.size + 1) = pre.length + 1 + l.size := by omega
      rw [e] at this
      simpa [sqFlatten, List.append_assoc] using this

/-! ## `arc_huffman_check_tree` accepts every stored tree -/

/-- the stack of the check: sub-trees (all of them nodes) stored at decreasing index ranges, none of them marked -/
def FOk (nodes : Array (Int × Int)) (vis : List Nat) : List (SqTree × Nat) → Prop
  | [] => True
  | (t, b) :: rest =>
    t.isNode = true ∧ SubAt nodes t b ∧ (∀ v ∈ vis, v < b ∨ b + t.size ≤ v) ∧ (∀ x ∈ rest, x.2 + x.1.size ≤ b) ∧
    FOk nodes vis rest

theorem FOk_mark (nodes : Array (Int × Int)) (vis : List Nat) (b : Nat) : ∀ (F : List (SqTree × Nat)),
    FOk nodes vis F → (∀ x ∈ F, x.2 + x.1.size ≤ b) → FOk nodes (b :: vis) F := by
  intro F
  induction F with
  | nil => intro _ _; trivial
  | cons x F ih =>
    intro h hb
    obtain ⟨t, c⟩ := x
    obtain ⟨h1, h2, h3, h4, h5⟩ := h
    refine ⟨h1, h2, ?_, h4, ih h5 (fun y hy => hb y (by simp [hy]))⟩
    intro v hv
    simp only [List.mem_cons] at hv
    rcases hv with rfl | hv
    · right; exact hb (t, c) (by simp)
    · exact h3 v hv

theorem contains_false_of_not_mem (l : List Nat) (a : Nat) (h : a ∉ l) : l.contains a = false := by
  simp [h]

theorem node_size_pos (t : SqTree) (h : t.isNode = true) : 1 ≤ t.size := by
  cases t with
  | leaf s => simp [SqTree.isNode] at h
  | node l r => simp [SqTree.size]; omega

theorem sqCheckGo_ok (nodes : Array (Int × Int)) : ∀ (fuel : Nat) (F : List (SqTree × Nat)) (vis : List Nat),
    FOk nodes vis F → (F.map (fun x => x.1.size)).sum < fuel →
    sqCheckGo nodes fuel (F.map (·.2)) vis = true := by
  intro fuel
  induction fuel with
  | zero => intro F vis _ h; omega
  | succ fuel ih =>
    intro F vis hF hfuel
    cases F with
    | nil => rfl
    | cons x rest =>
      obtain ⟨t, b⟩ := x
      obtain ⟨hn, hsub, hvis, hsorted, hrest⟩ := hF
      cases t with
      | leaf s => simp [SqTree.isNode] at hn
      | node l r =>
        obtain ⟨hnode, hl, hr⟩ := hsub
        have hget : nodes.getD b (0, 0) = (sqRef l (b + 1), sqRef r (b + 1 + l.size)) := by
          simp [Array.getD_eq_getD_getElem?, hnode]
        simp only [List.map_cons, sqCheckGo, hget]
        simp only [List.map_cons, List.sum_cons, SqTree.size] at hfuel
        have hvis' : ∀ v ∈ b :: vis, v ≤ b ∨ b + (1 + l.size + r.size) ≤ v := by
          intro v hv
          simp only [List.mem_cons] at hv
          rcases hv with rfl | hv
          · left; exact Nat.le_refl _
          · have := hvis v hv
            simp only [SqTree.size] at this
            omega
        have hrest' : FOk nodes (b :: vis) rest := FOk_mark nodes vis b rest hrest hsorted
        -- the four shapes of the two children
        cases l with
        | leaf sl =>
          cases r with
          | leaf sr =>
            have c1 : ¬ (sqRef (.leaf sl) (b + 1) ≥ 0 ∧ (b :: vis).contains (sqRef (SqTree.leaf sl) (b + 1)).toNat = true) := by
              simp only [sqRef]; omega
            have c2 : ¬ (sqRef (.leaf sr) (b + 1 + (SqTree.leaf sl).size) ≥ 0 ∧
                (b :: vis).contains (sqRef (SqTree.leaf sr) (b + 1 + (SqTree.leaf sl).size)).toNat = true) := by
              simp only [sqRef]; omega
            have n1 : ¬ sqRef (.leaf sl) (b + 1) ≥ 0 := by simp only [sqRef]; omega
            have n2 : ¬ sqRef (.leaf sr) (b + 1 + (SqTree.leaf sl).size) ≥ 0 := by simp only [sqRef]; omega
            simp only [c1, c2, n1, n2, if_false]
            exact ih rest (b :: vis) hrest' (by simp only [SqTree.size] at hfuel; omega)
          | node ra rb =>
            have c1 : ¬ (sqRef (.leaf sl) (b + 1) ≥ 0 ∧ (b :: vis).contains (sqRef (SqTree.leaf sl) (b + 1)).toNat = true) := by
              simp only [sqRef]; omega
            have n1 : ¬ sqRef (.leaf sl) (b + 1) ≥ 0 := by simp only [sqRef]; omega
            have e2 : sqRef (.node ra rb) (b + 1 + (SqTree.leaf sl).size) = ((b + 1 : Nat) : Int) := by
              simp only [sqRef, SqTree.size, Nat.add_zero]
            have hnot : (b :: vis).contains (b + 1) = false := by
              apply contains_false_of_not_mem
              intro hmem
              have := hvis' (b + 1) hmem
              simp only [SqTree.size] at this
              omega
            simp only [c1, n1, if_false, e2, Int.toNat_natCast, hnot]
            have p2 : ((b + 1 : Nat) : Int) ≥ 0 := by omega
            simp only [p2, true_and, Bool.false_eq_true, if_false, if_true]
            have := ih ((.node ra rb, b + 1) :: rest) (b :: vis) ?_ ?_
            · simpa using this
            · refine ⟨rfl, ?_, ?_, ?_, hrest'⟩
              · simpa [SqTree.size] using hr
              · intro v hv
                have := hvis' v hv
                simp only [SqTree.size] at this ⊢
                omega
              · intro x hx
                have := hsorted x hx
                omega
            · simp only [List.map_cons, List.sum_cons, SqTree.size] at hfuel ⊢; omega
        | node la lb =>
          have e1 : sqRef (.node la lb) (b + 1) = ((b + 1 : Nat) : Int) := rfl
          have hnot1 : (b :: vis).contains (b + 1) = false := by
            apply contains_false_of_not_mem
            intro hmem
            have := hvis' (b + 1) hmem
            simp only [SqTree.size] at this
            omega
          have p1 : ((b + 1 : Nat) : Int) ≥ 0 := by omega
          cases r with
          | leaf sr =>
            have n2 : ¬ sqRef (.leaf sr) (b + 1 + (SqTree.node la lb).size) ≥ 0 := by simp only [sqRef]; omega
            have c2 : ¬ (sqRef (.leaf sr) (b + 1 + (SqTree.node la lb).size) ≥ 0 ∧
                (b :: vis).contains (sqRef (SqTree.leaf sr) (b + 1 + (SqTree.node la lb).size)).toNat = true) := by
              simp only [sqRef]; omega
            simp only [e1, Int.toNat_natCast, hnot1, p1, true_and, Bool.false_eq_true, if_false, if_true, c2, n2]
            have := ih ((.node la lb, b + 1) :: rest) (b :: vis) ?_ ?_
            · simpa using this
            · refine ⟨rfl, hl, ?_, ?_, hrest'⟩
              · intro v hv
                have := hvis' v hv
                simp only [SqTree.size] at this ⊢
                omega
              · intro x hx
                have := hsorted x hx
                omega
            · simp only [List.map_cons, List.sum_cons, SqTree.size] at hfuel ⊢; omega
          | node ra rb =>
            have e2 : sqRef (.node ra rb) (b + 1 + (SqTree.node la lb).size) = ((b + 1 + (SqTree.node la lb).size : Nat) : Int) := rfl
            have hnot2 : (b :: vis).contains (b + 1 + (SqTree.node la lb).size) = false := by
              apply contains_false_of_not_mem
              intro hmem
              have := hvis' _ hmem
              simp only [SqTree.size] at this
              omega
            have p2 : ((b + 1 + (SqTree.node la lb).size : Nat) : Int) ≥ 0 := by omega
            simp only [e1, e2, Int.toNat_natCast, hnot1, hnot2, p1, p2, true_and, Bool.false_eq_true, if_false, if_true]
            have := ih ((.node ra rb, b + 1 + (SqTree.node la lb).size) :: (.node la lb, b + 1) :: rest) (b :: vis) ?_ ?_
            · simpa using this
            · refine ⟨rfl, hr, ?_, ?_, rfl, hl, ?_, ?_, hrest'⟩
              · intro v hv
                have := hvis' v hv
                simp only [SqTree.size] at this ⊢
                omega
              · intro x hx
                simp only [List.mem_cons] at hx
                rcases hx with rfl | hx
                · simp only []; omega
                · have := hsorted x hx
                  omega
              · intro v hv
                have := hvis' v hv
                simp only [SqTree.size] at this ⊢
                omega
              · intro x hx
                have := hsorted x hx
                omega
            · simp only [List.map_cons, List.sum_cons, SqTree.size] at hfuel ⊢; omega

/-! ## code bits -/

theorem bitsToNat_bit (bits : List Bool) : ∀ k, k < bits.length →
    Lzw.bitsToNat bits / 2 ^ k % 2 = if bits.getD k false then 1 else 0 := by
  induction bits with
  | nil => intro k h; simp at h
  | cons b r ih =>
    intro k h
    cases k with
    | zero =>
      simp only [Lzw.bitsToNat, Nat.pow_zero, Nat.div_one, List.getD_cons_zero]
      cases b <;> simp <;> omega
    | succ k =>
      have hk : k < r.length := by simpa using h
      have : Lzw.bitsToNat (b :: r) / 2 ^ (k + 1) = Lzw.bitsToNat r / 2 ^ k := by
        rw [Nat.pow_succ, Nat.mul_comm, ← Nat.div_div_eq_div_mul]
        congr 1
        simp only [Lzw.bitsToNat]
        cases b <;> simp <;> omega
      rw [this, ih k hk]
      simp

theorem sqBit_eq_mmBitAt (l : Bytes) (i : Nat) (hi : i < 8 * l.length) : sqBit l.toArray i = mmBitAt l.toArray i := by
  unfold sqBit mmBitAt
  have hq : i / 8 < l.length := by omega
  have h2 : l.toArray[i / 8]? = some (l[i / 8]'hq) := by simp [hq]
  rw [h2]

theorem sqBit_skip (a b : Bytes) (k : Nat) : sqBit (a ++ b).toArray (8 * a.length + k) = sqBit b.toArray k := by
  unfold sqBit
  have e1 : (8 * a.length + k) / 8 = a.length + k / 8 := by omega
  have e2 : (8 * a.length + k) % 8 = k % 8 := by omega
  rw [e1, e2]
  have : (a ++ b).toArray[a.length + k / 8]? = b.toArray[k / 8]? := by
    simp [List.getElem?_append_right]
  rw [this]

/-- bit `k` of a packed bit list, with anything before and after it -/
theorem sqBit_packed (tab T : Bytes) (bits : List Bool) (k : Nat) (hk : k < bits.length) :
    sqBit (tab ++ Lzw.packBits bits ++ T).toArray (8 * tab.length + k) = if bits.getD k false then 1 else 0 := by
  rw [List.append_assoc, sqBit_skip]
  have hl : k < 8 * (Lzw.packBits bits).length := by rw [Lzw.packBits_length]; omega
  have h1 : sqBit (Lzw.packBits bits ++ T).toArray k = mmBitAt (Lzw.packBits bits ++ T).toArray k :=
    sqBit_eq_mmBitAt _ k (by rw [List.length_append]; omega)
  rw [h1, mmBitAt_append _ T k hl, mmBitAt_spec _ k hl, Lzw.streamNat_packBits]
  exact bitsToNat_bit bits k hk

/-! ## the tree walk on a code -/

theorem sqCode_leaf_le (t : SqTree) (m : Nat) (hm : t.LeavesLe m) (x : Nat) (c : List Bool) (h : sqCode t x = some c) :
    x ≤ m := by
  induction t generalizing c with
  | leaf s =>
    simp only [sqCode] at h
    by_cases e : s = x
    · subst e; exact hm
    · simp [e] at h
  | node l r ihl ihr =>
    obtain ⟨hl, hr⟩ := hm
    simp only [sqCode] at h
    cases hcl : sqCode l x with
    | some c' => exact ihl hl c' hcl
    | none =>
      rw [hcl] at h
      cases hcr : sqCode r x with
      | some c' => exact ihr hr c' hcr
      | none => rw [hcr] at h; simp at h

/-- `arc_huffman_read_bits`: walking from the root of a stored (sub-)tree along the code of `x` delivers `x` -/
theorem sqWalk_code (nodes : Array (Int × Int)) (src : Array UInt8) (x : Nat) : ∀ (t : SqTree) (base : Nat) (c : List Bool)
    (fuel bp d : Nat), t.isNode = true → SubAt nodes t base → sqCode t x = some c →
    (∀ i, i < c.length → sqBit src (bp + i) = if c.getD i false then 1 else 0) →
    bp + c.length ≤ 8 * src.size → c.length ≤ fuel →
    sqWalk nodes src fuel base bp d = some (x, bp + c.length) := by
  intro t
  induction t with
  | leaf s => intro _ _ _ _ _ h; simp [SqTree.isNode] at h
  | node l r ihl ihr =>
    intro base c fuel bp d _ hsub hc hbits hin hfuel
    obtain ⟨hnode, hl, hr⟩ := hsub
    have hget : nodes.getD base (0, 0) = (sqRef l (base + 1), sqRef r (base + 1 + l.size)) := by
      simp [Array.getD_eq_getD_getElem?, hnode]
    simp only [sqCode] at hc
    -- the code has at least one bit
    have hcpos : 1 ≤ c.length := by
      cases hcl : sqCode l x with
      | some c' => rw [hcl] at hc; simp at hc; subst hc; simp
      | none =>
        rw [hcl] at hc
        cases hcr : sqCode r x with
        | some c' => rw [hcr] at hc; simp at hc; subst hc; simp
        | none => rw [hcr] at hc; simp at hc
    obtain ⟨f, rfl⟩ : ∃ f, fuel = f + 1 := ⟨fuel - 1, by omega⟩
    have hnb : ¬ (d ≥ sqLookupBits ∧ bp ≥ 8 * src.size) := by omega
    rw [sqWalk]
    simp only [hnb, if_false, hget]
    have hb0 := hbits 0 (by omega)
    rw [Nat.add_zero] at hb0
    cases hcl : sqCode l x with
    | some c' =>
      rw [hcl] at hc
      simp only [Option.some.injEq] at hc
      subst hc
      simp only [List.getD_cons_zero, Bool.false_eq_true, if_false] at hb0
      simp only [hb0, if_true]
      cases l with
      | leaf s =>
        simp only [sqCode] at hcl
        by_cases e : s = x
        · subst e
          simp only [if_true, Option.some.injEq] at hcl
          subst hcl
          rw [sqRef_leaf_neg]
          have hneg : -((s : Int) + 1) < 0 := by omega
          simp only [hneg, if_true, List.length_cons, List.length_nil]
          have e : (-(-((s : Int) + 1) + 1)).toNat = s := by omega
          rw [e]
        · simp [e] at hcl
      | node la lb =>
        have hnn : ¬ sqRef (SqTree.node la lb) (base + 1) < 0 := by simp only [sqRef]; omega
        simp only [hnn, if_false]
        have e1 : (sqRef (SqTree.node la lb) (base + 1)).toNat = base + 1 := Int.toNat_natCast _
        rw [e1, ihl (base + 1) c' f (bp + 1) (d + 1) rfl hl hcl
          (by intro i hi
              have := hbits (i + 1) (by simp; omega)
              simp only [List.getD_cons_succ] at this
              rw [← this]; congr 1; omega)
          (by simp at hin; omega) (by simp at hfuel; omega)]
        simp only [List.length_cons]
        congr 2; omega
    | none =>
      rw [hcl] at hc
      cases hcr : sqCode r x with
      | none => rw [hcr] at hc; simp at hc
      | some c' =>
        rw [hcr] at hc
        simp only [Option.map_some, Option.some.injEq] at hc
        subst hc
        simp only [List.getD_cons_zero, if_true] at hb0
        have hb1 : ¬ sqBit src bp = 0 := by omega
        simp only [hb1, if_false]
        cases r with
        | leaf s =>
          simp only [sqCode] at hcr
          by_cases e : s = x
          · subst e
            simp only [if_true, Option.some.injEq] at hcr
            subst hcr
            rw [sqRef_leaf_neg]
            have hneg : -((s : Int) + 1) < 0 := by omega
            simp only [hneg, if_true, List.length_cons, List.length_nil]
            have e : (-(-((s : Int) + 1) + 1)).toNat = s := by omega
            rw [e]
          · simp [e] at hcr
        | node ra rb =>
          have hnn : ¬ sqRef (SqTree.node ra rb) (base + 1 + l.size) < 0 := by simp only [sqRef]; omega
          simp only [hnn, if_false]
          have e1 : (sqRef (SqTree.node ra rb) (base + 1 + l.size)).toNat = base + 1 + l.size := Int.toNat_natCast _
          rw [e1, ihr (base + 1 + l.size) c' f (bp + 1) (d + 1) rfl hr hcr
            (by intro i hi
                have := hbits (i + 1) (by simp; omega)
                simp only [List.getD_cons_succ] at this
                rw [← this]; congr 1; omega)
            (by simp at hin; omega) (by simp at hfuel; omega)]
          simp only [List.length_cons]
          congr 2; omega

theorem sqCode_node_pos (t : SqTree) (x : Nat) (c : List Bool) (hn : t.isNode = true) (h : sqCode t x = some c) :
    1 ≤ c.length := by
  cases t with
  | leaf s => simp [SqTree.isNode] at hn
  | node l r =>
    simp only [sqCode] at h
    cases hcl : sqCode l x with
    | some c' => rw [hcl] at h; simp at h; subst h; simp
    | none =>
      rw [hcl] at h
      cases hcr : sqCode r x with
      | some c' => rw [hcr] at h; simp at h; subst h; simp
      | none => rw [hcr] at h; simp at h

theorem getD_mid_append (pre c rest : List Bool) (i : Nat) (hi : i < c.length) :
    (pre ++ (c ++ rest)).getD (pre.length + i) false = c.getD i false := by
  simp [List.getD_eq_getElem?_getD, List.getElem?_append_right, List.getElem?_append_left, hi]

/-! ## the symbol loop on the encoder's stream -/

theorem sqBits_cons (t : SqTree) (x : Nat) (xs : List Nat) (c : List Bool) (h : sqCode t x = some c) :
    sqBits t (x :: xs) = c ++ sqBits t xs := by
  simp [sqBits, h]

theorem sqBits_length_ge (t : SqTree) (hn : t.isNode = true) : ∀ xs : List Nat, (∀ x ∈ xs, (sqCode t x).isSome) →
    xs.length ≤ (sqBits t xs).length := by
  intro xs
  induction xs with
  | nil => intro _; simp
  | cons x xs ih =>
    intro h
    obtain ⟨c, hc⟩ := Option.isSome_iff_exists.mp (h x (by simp))
    rw [sqBits_cons t x xs c hc, List.length_append, List.length_cons]
    have := sqCode_node_pos t x c hn hc
    have := ih (fun y hy => h y (by simp [hy]))
    omega

theorem sqSyms_run (nodes : Array (Int × Int)) (t : SqTree) (tab T : Bytes) (allbits : List Bool)
    (hnode : t.isNode = true) (hsub : SubAt nodes t 0) :
    ∀ (syms : Bytes) (pre : List Bool) (acc : Bytes) (fuel : Nat),
    allbits = pre ++ sqBits t (syms.map (·.toNat) ++ [256]) →
    (∀ b ∈ syms, (sqCode t b.toNat).isSome) → (sqCode t 256).isSome →
    syms.length + 1 ≤ fuel →
    sqSyms nodes (tab ++ Lzw.packBits allbits ++ T).toArray fuel (8 * tab.length + pre.length) acc =
      some (acc.reverse ++ syms) := by
  -- one symbol: the walk from the root
  have hstep : ∀ (x : Nat) (c : List Bool) (pre rest : List Bool), sqCode t x = some c → allbits = pre ++ (c ++ rest) →
      ¬ ((8 * tab.length + pre.length) / 8 ≥ (tab ++ Lzw.packBits allbits ++ T).toArray.size) ∧
      sqWalk nodes (tab ++ Lzw.packBits allbits ++ T).toArray
        (8 * (tab ++ Lzw.packBits allbits ++ T).toArray.size + sqLookupBits + 1) 0 (8 * tab.length + pre.length) 0 =
        some (x, 8 * tab.length + (pre ++ c).length) := by
    intro x c pre rest hc hall
    have hpos := sqCode_node_pos t x c hnode hc
    have hsz : (tab ++ Lzw.packBits allbits ++ T).toArray.size = tab.length + (allbits.length + 7) / 8 + T.length := by
      simp [Lzw.packBits_length]; omega
    have hlen : pre.length + c.length ≤ allbits.length := by rw [hall]; simp
    constructor
    · rw [hsz]; omega
    · have := sqWalk_code nodes (tab ++ Lzw.packBits allbits ++ T).toArray x t 0 c
        (8 * (tab ++ Lzw.packBits allbits ++ T).toArray.size + sqLookupBits + 1) (8 * tab.length + pre.length) 0
        hnode hsub hc
        (by intro i hi
            rw [Nat.add_assoc, sqBit_packed tab T allbits (pre.length + i) (by omega), hall, getD_mid_append pre c rest i hi])
        (by rw [hsz]; omega) (by rw [hsz]; omega)
      rw [this, List.length_append]
      congr 2; omega
  intro syms
  induction syms with
  | nil =>
    intro pre acc fuel hall _ heof hfuel
    obtain ⟨c, hc⟩ := Option.isSome_iff_exists.mp heof
    obtain ⟨f, rfl⟩ : ∃ f, fuel = f + 1 := ⟨fuel - 1, by simp at hfuel; omega⟩
    have hall' : allbits = pre ++ (c ++ []) := by
      rw [hall]; simp [sqBits, hc]
    obtain ⟨h1, h2⟩ := hstep 256 c pre [] hc hall'
    rw [sqSyms]
    simp only [h1, if_false, h2, ge_iff_le, Nat.le_refl, if_true, List.append_nil]
  | cons b r ih =>
    intro pre acc fuel hall hcov heof hfuel
    obtain ⟨c, hc⟩ := Option.isSome_iff_exists.mp (hcov b (by simp))
    obtain ⟨f, rfl⟩ : ∃ f, fuel = f + 1 := ⟨fuel - 1, by simp at hfuel; omega⟩
    have hall' : allbits = pre ++ (c ++ sqBits t (r.map (·.toNat) ++ [256])) := by
      rw [hall, List.map_cons, List.cons_append, sqBits_cons t _ _ c hc]
    obtain ⟨h1, h2⟩ := hstep b.toNat c pre _ hc hall'
    rw [sqSyms]
    have hlt : ¬ b.toNat ≥ 256 := by have := b.toNat_lt; omega
    simp only [h1, if_false, h2, hlt, UInt8.ofNat_toNat]
    rw [ih (pre ++ c) (b :: acc) f (by rw [hall']; simp) (fun y hy => hcov y (by simp [hy])) heof
      (by simp at hfuel; omega)]
    simp

/-! ## `arc_huffman_init` on the encoder's table -/

structure SqTree.Ok (t : SqTree) : Prop where
  root : t.isNode = true
  size : t.size ≤ 256           -- HUFFMAN_TREE_MAX nodes: 257 symbols
  leaves : t.LeavesLe 256

theorem sqTable_eq (t : SqTree) : sqTable t = le16 t.size ++ (sqFlatten t 0).flatMap sqEnc := rfl

theorem sqTable_length (t : SqTree) : (sqTable t).length = 2 + 4 * t.size := by
  rw [sqTable_eq, List.length_append, flatMap_sqEnc_length, sqFlatten_length]; rfl

theorem sqInit_table (t : SqTree) (ht : t.Ok) (rest : Bytes) :
    sqInit (sqTable t ++ rest) = some (sqFlatten t 0).toArray := by
  have hpos := node_size_pos t ht.root
  have hsz := ht.size
  have hrefs := sqFlatten_refs t 256 ht.leaves 0
  have hrefok : ∀ e ∈ sqFlatten t 0, RefOk e := by
    intro e he
    have := hrefs e he
    unfold RefOk; omega
  have hsrc : sqTable t ++ rest = le16 t.size ++ (sqFlatten t 0).flatMap sqEnc ++ rest := by rw [sqTable_eq]
  have hn : u16At (sqTable t ++ rest) 0 = t.size := by
    rw [hsrc, List.append_assoc]; exact u16At_le16 _ (by omega) _
  have hnodes : sqNodes (sqTable t ++ rest) t.size = sqFlatten t 0 := by
    have := sqNodes_spec (le16 t.size) (sqFlatten t 0) rest rfl hrefok
    rw [sqFlatten_length] at this
    rw [hsrc]; exact this
  unfold sqInit sqInitWith
  have c0 : ¬ (sqTable t ++ rest).length < 2 := by rw [List.length_append, sqTable_length]; omega
  have c1 : ¬ (t.size = 0 ∨ (if sqTreeMaxInclusive = true then t.size > sqTreeMax else t.size ≥ sqTreeMax)) := by
    have e1 : sqTreeMaxInclusive = true := rfl
    have e2 : sqTreeMax = 256 := rfl
    rw [e1, e2]; simp only [if_true]; omega
  have c2 : ¬ 2 + 4 * t.size > (sqTable t ++ rest).length := by rw [List.length_append, sqTable_length]; omega
  have c3 : (sqFlatten t 0).any (fun e => decide (e.1 ≥ (t.size : Int) ∨ e.2 ≥ (t.size : Int))) = false := by
    rw [List.any_eq_false]
    intro e he
    have := hrefs e he
    simp only [decide_eq_true_eq]; omega
  have c4 : sqCheckGo (sqFlatten t 0).toArray (2 * t.size + 2) [0] [] = true := by
    have := sqCheckGo_ok (sqFlatten t 0).toArray (2 * t.size + 2) [(t, 0)] []
      ⟨ht.root, by simpa using subAt_flatten t [] [], by intro v hv; simp at hv, by intro x hx; simp at hx, trivial⟩
      (by simp; omega)
    simpa using this
  simp only [c0, hn, c1, c2, hnodes, c3, c4, if_false, Bool.not_true, Bool.false_eq_true]

/-- **Huffman stage: decode ∘ encode = id.**  For every code tree that fits the node table (at most
    `HUFFMAN_TREE_MAX` = 256 nodes — 257 symbols — including exactly 256) and every byte string whose bytes, and the
    end-of-stream symbol, have a leaf: table checks, tree check, lookup/bit-walk and the symbol loop give the bytes back. -/
theorem sqDecode_encode (t : SqTree) (ht : t.Ok) (syms T : Bytes)
    (hcov : ∀ b ∈ syms, (sqCode t b.toNat).isSome) (heof : (sqCode t 256).isSome) :
    sqDecode (sqEncode t syms ++ T) = some syms := by
  unfold sqDecode sqEncode
  rw [List.append_assoc, sqInit_table t ht]
  simp only []
  have hsize : (sqFlatten t 0).toArray.size = t.size := by simp [sqFlatten_length]
  have hsub : SubAt (sqFlatten t 0).toArray t 0 := by simpa using subAt_flatten t [] []
  have hbp : 8 * (2 + 4 * (sqFlatten t 0).toArray.size) = 8 * (sqTable t).length + ([] : List Bool).length := by
    rw [hsize, sqTable_length]; rfl
  rw [hbp, ← List.append_assoc]
  have hcov' : ∀ x ∈ syms.map (·.toNat) ++ [256], (sqCode t x).isSome := by
    intro x hx
    simp only [List.mem_append, List.mem_map, List.mem_singleton] at hx
    rcases hx with ⟨b, hb, rfl⟩ | rfl
    · exact hcov b hb
    · exact heof
  have hbl := sqBits_length_ge t ht.root _ hcov'
  have := sqSyms_run (sqFlatten t 0).toArray t (sqTable t) T (sqBits t (syms.map (·.toNat) ++ [256])) ht.root hsub
    syms [] [] (8 * (sqTable t ++ Lzw.packBits (sqBits t (syms.map (·.toNat) ++ [256])) ++ T).length + 1)
    rfl hcov heof
    (by simp only [List.length_append, Lzw.packBits_length, List.length_map, List.length_cons, List.length_nil] at hbl ⊢
        omega)
  simpa using this

/-! ## RLE90 over the blocks of the window -/

/-- the block decoder without its lenient cases: a literal that meets a full buffer is an error -/
def rleStrict : Bytes → RleSt → Option RleSt
  | [], st => some st
  | b :: src, st =>
    if st.inRle then
      if b = 0 then
        if st.room = 0 then none else rleStrict src ⟨st.room - 1, 0x90 :: st.acc, 0x90, false⟩
      else
        let len := b.toNat - 1
        if len > st.room then none
        else rleStrict src ⟨st.room - len, List.replicate len st.last ++ st.acc, st.last, false⟩
    else if b = 0x90 then rleStrict src ⟨st.room, st.acc, st.last, true⟩
    else if st.room > 0 then rleStrict src ⟨st.room - 1, b :: st.acc, b, false⟩
    else none

theorem rleStrict_append (a b : Bytes) : ∀ st, rleStrict (a ++ b) st = (rleStrict a st).bind (rleStrict b) := by
  induction a with
  | nil => intro st; rfl
  | cons x a ih =>
    intro st
    simp only [List.cons_append, rleStrict]
    split
    · split
      · split
        · rfl
        · exact ih _
      · split
        · rfl
        · exact ih _
    · split
      · exact ih _
      · split
        · exact ih _
        · rfl

theorem rleBlock_of_strict (src : Bytes) : ∀ (st st' : RleSt) (blk : Bool), rleStrict src st = some st' →
    rleBlock src st blk = some st' := by
  induction src with
  | nil => intro st st' blk h; simpa [rleStrict, rleBlock] using h
  | cons x src ih =>
    intro st st' blk h
    simp only [rleStrict] at h
    simp only [rleBlock]
    by_cases h1 : st.inRle = true
    · simp only [h1, if_true] at h ⊢
      by_cases h2 : x = 0
      · simp only [h2, if_true] at h ⊢
        by_cases h3 : st.room = 0
        · simp [h3] at h
        · simp only [h3, if_false] at h ⊢
          exact ih _ _ _ h
      · simp only [h2, if_false] at h ⊢
        by_cases h3 : x.toNat - 1 > st.room
        · simp [h3] at h
        · simp only [h3, if_false] at h ⊢
          exact ih _ _ _ h
    · simp only [h1, Bool.false_eq_true, if_false] at h ⊢
      by_cases h2 : x = 0x90
      · simp only [h2, if_true] at h ⊢
        exact ih _ _ _ h
      · simp only [h2, if_false] at h ⊢
        by_cases h3 : st.room > 0
        · simp only [h3, if_true] at h ⊢
          exact ih _ _ _ h
        · simp [h3] at h

theorem rleBlocks_of_strict : ∀ (cs : List Bytes) (st st' : RleSt), rleStrict cs.flatten st = some st' →
    rleBlocks cs st = some st' := by
  intro cs
  induction cs with
  | nil => intro st st' h; simpa [rleStrict, rleBlocks] using h
  | cons c cs ih =>
    intro st st' h
    rw [List.flatten_cons, rleStrict_append] at h
    cases hm : rleStrict c st with
    | none => rw [hm] at h; simp at h
    | some mid =>
      rw [hm] at h
      simp only [Option.bind_some] at h
      rw [rleBlocks, rleBlock_of_strict c st mid false hm]
      exact ih mid st' h

theorem rleStrict_render (ts : List Tok) : ∀ (room : Nat) (acc : Bytes) (last : UInt8),
    (∀ t ∈ ts, t.Ok) → outLen ts ≤ room →
    ∃ l, rleStrict (render ts) ⟨room, acc, last, false⟩ = some ⟨room - outLen ts, expandGo ts acc last, l, false⟩ := by
  induction ts with
  | nil => intro room acc last _ _; exact ⟨last, by simp [render, rleStrict, expandGo, outLen]⟩
  | cons t ts ih =>
    intro room acc last hok hroom
    have hok' : ∀ t ∈ ts, t.Ok := fun t ht => hok t (by simp [ht])
    have ht : t.Ok := hok t (by simp)
    cases t with
    | lit b =>
      have hb : b ≠ 0x90 := ht
      have hr : outLen ts + 1 ≤ room := by simpa [outLen, Tok.outLen, Nat.add_comm] using hroom
      have hpos : room > 0 := by omega
      obtain ⟨l, hl⟩ := ih (room - 1) (b :: acc) b hok' (by omega)
      refine ⟨l, ?_⟩
      simp only [render, List.flatMap_cons, Tok.render, List.cons_append, List.nil_append] at hl ⊢
      simp only [rleStrict, Bool.false_eq_true, if_false, hb, hpos, if_true, expandGo]
      rw [hl]; simp [outLen, Tok.outLen]; omega
    | lit90 =>
      have hr : outLen ts + 1 ≤ room := by simpa [outLen, Tok.outLen, Nat.add_comm] using hroom
      have hpos : ¬ room = 0 := by omega
      obtain ⟨l, hl⟩ := ih (room - 1) (0x90 :: acc) 0x90 hok' (by omega)
      refine ⟨l, ?_⟩
      simp only [render, List.flatMap_cons, Tok.render, List.cons_append, List.nil_append] at hl ⊢
      simp only [rleStrict, Bool.false_eq_true, if_false, if_true, hpos, expandGo]
      rw [hl]; simp [outLen, Tok.outLen]; omega
    | rep n =>
      have hn : n ≠ 0 := ht
      have hr : outLen ts + (n.toNat - 1) ≤ room := by simpa [outLen, Tok.outLen, Nat.add_comm] using hroom
      have hle : ¬ n.toNat - 1 > room := by omega
      obtain ⟨l, hl⟩ := ih (room - (n.toNat - 1)) (List.replicate (n.toNat - 1) last ++ acc) last hok' (by omega)
      refine ⟨l, ?_⟩
      simp only [render, List.flatMap_cons, Tok.render, List.cons_append, List.nil_append] at hl ⊢
      simp only [rleStrict, Bool.false_eq_true, if_false, if_true, hn, hle, expandGo]
      rw [hl]; simp [outLen, Tok.outLen]; omega

/-- **squeezed members: decode ∘ encode = id** (`arc_unpack_huffman_rle90` on RLE90 tokens + Huffman stage, the output
    window of 8192 bytes handed to the RLE90 stage block by block) -/
theorem unsqueeze_squeeze (t : SqTree) (ht : t.Ok) (ts : List Tok) (hok : ∀ x ∈ ts, x.Ok) (T : Bytes)
    (hcov : ∀ b ∈ render ts, (sqCode t b.toNat).isSome) (heof : (sqCode t 256).isSome) :
    unsqueeze (expand ts).length (squeeze t ts ++ T) = some (expand ts) := by
  unfold unsqueeze squeeze
  rw [sqDecode_encode t ht (render ts) T hcov heof]
  simp only []
  have hl : (expand ts).length = outLen ts := by simp [expand, expandGo_length]
  obtain ⟨l, hs⟩ := rleStrict_render ts (outLen ts) [] 0 hok (Nat.le_refl _)
  have hfl : (Md5.chunksOf arcBufferSize (render ts)).flatten = render ts :=
    Md5.chunksOf_flatten arcBufferSize (by decide) (render ts)
  rw [hl, rleBlocks_of_strict _ _ _ (by rw [hfl]; exact hs)]
  simp [expand]

/-! ## a squeezed member inside an ARC / Spark archive -/

/-- a packed member of method 4 (plain 4 or Spark 0x84) whose data the decoder parameter returns: header fields read
    back, not a marker, not a directory, supported, not excluded, sizes accepted, CRC-16 gate -/
theorem arcReadFuel_hit_m4 (crc : Bytes → UInt16) (dec : Nat → Bytes → Nat → Option Bytes) (fileLen fuel : Nat)
    (m : ArcMember) (cdata data : Bytes) (hm : ArcHdrOk m cdata.length (crc data).toNat data.length)
    (hmeth : m.method % 128 = 4) (hx : excludeMatch m.name = false) (hlim : data.length ≤ depackLimit)
    (hfl : cdata.length ≤ fileLen) (hdec : dec 4 cdata data.length = some data) (tail : Bytes) (level : Nat) :
    arcReadFuel crc dec fileLen (fuel + 1)
      (arcHdrG m cdata.length (crc data).toNat data.length ++ (cdata ++ tail)) level = some data := by
  rw [arcReadFuel, arcReadEntry_hdr m _ _ _ hm]
  have hpk : arcIsPacked m.method = true := by simp [arcIsPacked, arcUnpacked, arcUnpackedOld, hmeth]
  have hend : ¬ (m.method % 128 = arcEndOfArchive ∨ m.method = arc6EndOfDir) := by
    simp only [arcEndOfArchive, arc6EndOfDir]; omega
  have hdir : ∀ us : Nat, arcIsDirectory (ArcEntry.mk m.method m.name cdata.length (crc data).toNat us
      (if m.method ≥ 128 then u32At m.attrs 0 else 0)) = false := by
    intro us
    unfold arcIsDirectory
    simp only [arc6Dir, arcUnpacked]
    have h30 : ¬ m.method = 30 := by omega
    have h130 : ¬ m.method = 128 + 2 := by omega
    simp [h30, h130]
  have hsup : arcSupported.contains (m.method % 128) = true := by rw [hmeth]; decide
  have h1 : ¬ cdata.length > fileLen := by omega
  have h2 : ¬ data.length > depackLimit := by omega
  have h3 : ¬ (cdata ++ tail).length < cdata.length := by simp
  have h4 : ¬ m.method % 128 = arcPacked := by simp only [arcPacked]; omega
  have hend4 : ¬ (4 = arcEndOfArchive ∨ m.method = arc6EndOfDir) := by
    simp only [arcEndOfArchive, arc6EndOfDir]; omega
  have hsup4 : arcSupported.contains 4 = true := by decide
  have h44 : ¬ 4 = arcPacked := by decide
  simp only [hend, hend4, if_false, hdir, hsup, hsup4, hx, hpk, if_true, h1, h2, Bool.not_true, Bool.or_false,
    Bool.false_eq_true, decide_false, h3, List.take_left, h4, h44, hmeth, hdec, ne_eq, not_true_eq_false]

/-- squeezed member behind any excluded files, directory headers and closing markers -/
theorem arcRead_items_squeeze (crc : Bytes → UInt16) (rest : Nat → Bytes → Nat → Option Bytes) (pre : List ArcItem)
    (post : Bytes) (m : ArcMember) (t : SqTree) (ts : List Tok) (level' : Nat)
    (hpre : ∀ x ∈ pre, x.Ok crc) (hlev : arcLevel 0 pre = some level')
    (hm : ArcHdrOk m (squeeze t ts).length (crc (expand ts)).toNat (expand ts).length)
    (hmeth : m.method % 128 = 4) (hx : excludeMatch m.name = false) (hlim : (expand ts).length ≤ depackLimit)
    (ht : t.Ok) (hok : ∀ x ∈ ts, x.Ok)
    (hcov : ∀ b ∈ render ts, (sqCode t b.toNat).isSome) (heof : (sqCode t 256).isSome) :
    arcRead crc (arcDecSq rest)
      (arcItemsBytes crc pre ++ (arcHdrG m (squeeze t ts).length (crc (expand ts)).toNat (expand ts).length ++
        (squeeze t ts ++ post))) = some (expand ts) := by
  unfold arcRead
  have hge : pre.length ≤ (arcItemsBytes crc pre).length := by
    clear hlev
    induction pre with
    | nil => simp [arcItemsBytes]
    | cons x pre ih =>
      have := arcItemBytes_pos crc x
      have := ih (fun y hy => hpre y (by simp [hy]))
      simp only [arcItemsBytes, List.flatMap_cons, List.length_append, List.length_cons] at *
      omega
  obtain ⟨k, hk⟩ : ∃ k, (arcItemsBytes crc pre ++ (arcHdrG m (squeeze t ts).length (crc (expand ts)).toNat
      (expand ts).length ++ (squeeze t ts ++ post))).length + 1 = (k + 1) + pre.length :=
    ⟨(arcItemsBytes crc pre ++ (arcHdrG m (squeeze t ts).length (crc (expand ts)).toNat
      (expand ts).length ++ (squeeze t ts ++ post))).length - pre.length, by simp only [List.length_append]; omega⟩
  rw [hk, arcReadFuel_items crc _ _ pre _ (k + 1) 0 level' hpre hlev]
  have hdec : arcDecSq rest 4 (squeeze t ts) (expand ts).length = some (expand ts) := by
    have := unsqueeze_squeeze t ht ts hok [] hcov heof
    rw [List.append_nil] at this
    simp [arcDecSq, this]
  exact arcReadFuel_hit_m4 crc (arcDecSq rest) _ k m (squeeze t ts) (expand ts) hm hmeth hx hlim
    (by simp only [List.length_append]; omega) hdec post level'

end Xmp.Container
