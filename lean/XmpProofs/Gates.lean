import XmpProofs.Crc
import XmpModel.Gates
/-!
# Helper lemmas for the depacker gates (C09): what acceptance implies, for any decoder
-/
namespace Xmp.Gates
open Xmp Xmp.Crc

theorem gate_gzip (dec : Bytes → Option Bytes) (f out : Bytes) (h : gzipDepack dec f = some out) :
    ∃ p, gzipDataStart f = some p ∧ dec (slice f p (f.length - p - 8)) = some out ∧
      le32 f (f.length - 8) = (crc32A out 0).toNat ∧ sext32 (le32 f (f.length - 4)) = out.length := by
  unfold gzipDepack at h
  split at h
  · exact absurd h (by simp)
  · rename_i p hp
    split at h
    · exact absurd h (by simp)
    · rename_i o ho
      split at h
      · rename_i hg
        have ho' : o = out := by simpa using h
        subst ho'
        unfold gzipGate at hg
        simp only [Bool.and_eq_true, beq_iff_eq] at hg
        exact ⟨p, hp, ho, hg.1, hg.2⟩
      · exact absurd h (by simp)

theorem gate_zip (inflate : Bytes → Nat → Option Bytes) (junk : Bytes) (st : ZipStat) (tail : Option Bytes)
    (out : Bytes) (hc : st.compSize ≠ 0) (h : zipExtract inflate junk st tail = some out) :
    st.crc32 = (crc32A out 0).toNat ∧ st.uncompSize = out.length := by
  unfold zipExtract at h
  have hc' : (st.compSize == 0) = false := by simpa using hc
  simp only [hc', Bool.false_eq_true, if_false] at h
  split at h
  · exact absurd h (by simp)
  split at h
  · exact absurd h (by simp)
  split at h
  · exact absurd h (by simp)
  · rename_i t
    split at h
    · exact absurd h (by simp)
    split at h
    · split at h
      · exact absurd h (by simp)
      · rename_i hlen
        split at h
        · rename_i hcrc
          have : List.take st.uncompSize t = out := by simpa using h
          subst this
          refine ⟨(by have := beq_iff_eq.mp hcrc; exact this.symm), ?_⟩
          simp only [List.length_take]
          omega
        · exact absurd h (by simp)
    · split at h
      · exact absurd h (by simp)
      · rename_i o ho
        split at h
        · exact absurd h (by simp)
        · rename_i hl
          split at h
          · exact absurd h (by simp)
          · rename_i hcrc
            have : o = out := by simpa using h
            subst this
            simp only [bne_iff_ne, ne_eq, Decidable.not_not] at hl hcrc
            exact ⟨hcrc.symm, hl.symm⟩

theorem bz_hc_ne (hc : BitVec 32) : hc ≠ hc + 1 := by
  intro h
  have h1 := congrArg BitVec.toNat h
  rw [BitVec.toNat_add] at h1
  have h2 : BitVec.toNat (1 : BitVec 32) = 1 := by decide
  rw [h2] at h1
  have := hc.isLt
  omega

theorem gate_bz (total : BitVec 32) (acc : Bytes) (blocks : List (BitVec 32 × Bytes)) (sc : BitVec 32) (out : Bytes)
    (h : bzRun total acc blocks sc = some out) :
    (∀ b ∈ blocks, b.1 = bzBlockCrc b.2) ∧ sc = bzStreamCrc total (blocks.map (·.2)) ∧
      out = acc ++ (blocks.map (·.2)).flatten := by
  induction blocks generalizing total acc with
  | nil =>
    simp only [bzRun] at h
    split at h
    · rename_i hs
      simp only [Option.some.injEq] at h
      simp [bzStreamCrc, hs, h]
    · exact absurd h (by simp)
  | cons b rest ih =>
    obtain ⟨hc, d⟩ := b
    simp only [bzRun] at h
    split at h
    · rename_i hne
      split at h
      · rename_i heq
        exact absurd heq (bz_hc_ne hc)
      · exact absurd h (by simp)
    · rename_i heq
      simp only [ne_eq, Decidable.not_not] at heq
      have ⟨h1, h2, h3⟩ := ih _ _ h
      refine ⟨?_, ?_, ?_⟩
      · intro b hb
        rcases List.mem_cons.mp hb with hb | hb
        · subst hb; exact heq.symm
        · exact h1 b hb
      · simpa [bzStreamCrc] using h2
      · simpa [List.append_assoc] using h3

theorem xz_chunks (chunks : List Bytes) (c : BitVec 32) :
    chunks.foldl (fun c d => crc32A d c) c = crc32A chunks.flatten c := by
  induction chunks generalizing c with
  | nil => simp [crc32A, crc32ANoInv, tblLoop]
  | cons d rest ih => simp only [List.foldl, List.flatten_cons]; rw [ih, crc32A_append]

theorem gate_xz (hdr bh : Bytes) (chunks : List Bytes) (check : Nat) (index : Bytes) (icrc : Nat)
    (footer out : Bytes) (h : xzAccept hdr bh chunks check index icrc footer = some out) :
    out = chunks.flatten ∧ check = (crc32A out 0).toNat ∧ xzStreamHeader hdr = some 1 ∧
      xzBlockHeaderOk bh = true ∧ xzIndexOk index icrc = true ∧ xzFooterOk footer index.length 1 = true := by
  unfold xzAccept at h
  split at h
  · rename_i hh
    split at h
    · rename_i hall
      simp only [Bool.and_eq_true] at hall
      obtain ⟨⟨⟨hb, hc⟩, hi⟩, hf⟩ := hall
      have ho : chunks.flatten = out := by simpa using h
      subst ho
      unfold xzBlockCheck at hc
      rw [xz_chunks] at hc
      exact ⟨rfl, (by have := beq_iff_eq.mp hc; exact this.symm), hh, hb, hi, hf⟩
    · exact absurd h (by simp)
  · exact absurd h (by simp)

theorem crc16Gate_eq (out : Bytes) (s : Nat) (h : crc16Gate out s = true) : s = (crc16IBM out 0).toNat := by
  unfold crc16Gate at h; exact beq_iff_eq.mp h

theorem gate_arcLoop (env : ArcEnv) (f out : Bytes) : ∀ fuel pos level,
    arcLoop env f fuel pos level = some out → ∃ p, le16 f (p + 23) = (crc16IBM out 0).toNat := by
  intro fuel
  induction fuel with
  | zero => intro pos level h; simp [arcLoop] at h
  | succ n ih =>
    intro pos level h
    unfold arcLoop at h
    simp only [] at h
    repeat' (split at h)
    all_goals (first
      | exact ih _ _ h
      | (cases h; exact ⟨pos, crc16Gate_eq _ _ (by assumption)⟩)
      | (simp at h))

theorem gate_arc (env : ArcEnv) (f out : Bytes) (h : arcDepack env f = some out) :
    ∃ pos, le16 f (pos + 23) = (crc16IBM out 0).toNat := gate_arcLoop env f out _ _ _ h

theorem arcfsGate_eq (out : Bytes) (s : Nat) (h : arcfsGate out s = true) : s = 0 ∨ s = (crc16IBM out 0).toNat := by
  unfold arcfsGate at h
  simp only [Bool.or_eq_true, beq_iff_eq] at h
  rcases h with h | h
  · exact Or.inl h
  · exact Or.inr (crc16Gate_eq _ _ h)

theorem gate_arcfsLoop (env : ArcEnv) (f out : Bytes) (dofs : Nat) : ∀ n pos,
    arcfsLoop env f dofs n pos = some out → ∃ p, le16 f (p + 26) = 0 ∨ le16 f (p + 26) = (crc16IBM out 0).toNat := by
  intro n
  induction n with
  | zero => intro pos h; simp [arcfsLoop] at h
  | succ n ih =>
    intro pos h
    unfold arcfsLoop at h
    simp only [] at h
    repeat' (split at h)
    all_goals (first
      | exact ih _ h
      | (cases h; exact ⟨pos, arcfsGate_eq _ _ (by assumption)⟩)
      | (simp at h))

theorem gate_arcfs (env : ArcEnv) (f out : Bytes) (h : arcfsDepack env f = some out) :
    ∃ pos, le16 f (pos + 26) = 0 ∨ le16 f (pos + 26) = (crc16IBM out 0).toNat := by
  unfold arcfsDepack at h
  split at h
  · exact absurd h (by simp)
  · exact gate_arcfsLoop env f out _ _ _ h

end Xmp.Gates
