import XmpProofs.Crc
import XmpModel.Gates
/-!
# Helper lemmas for the depacker gates (C09): what acceptance implies, for any decoder
-/
namespace Xmp.Gates
open Xmp Xmp.Crc

theorem gate_gzip (dec : Bytes → Option Bytes) (f out : Bytes) (h : gzipDepack dec f = some out) :
    ∃ p, gzipDataStart f = some p ∧ dec (slice f p (f.length - p - 8)) = some out ∧
      le32 f (f.length - 8) = (crc32A out 0).toNat ∧ sext32 (le32 f (f.length - 4)) = out.length := by
  unfold gzipDepack at h
  split at h
  · exact absurd h (by simp)
  · rename_i p hp
    split at h
    · exact absurd h (by simp)
    · rename_i o ho
      split at h
      · rename_i hg
        have ho' : o = out := by simpa using h
        subst ho'
        unfold gzipGate at hg
        simp only [Bool.and_eq_true, beq_iff_eq] at hg
        exact ⟨p, hp, ho, hg.1, hg.2⟩
      · exact absurd h (by simp)

theorem gate_zip (inflate : Bytes → Nat → Option Bytes) (junk : Bytes) (st : ZipStat) (tail : Option Bytes)
    (out : Bytes) (hc : st.compSize ≠ 0) (h : zipExtract inflate junk st tail = some out) :
    st.crc32 = (crc32A out 0).toNat ∧ st.uncompSize = out.length := by
  unfold zipExtract at h
  have hc' : (st.compSize == 0) = false := by simpa using hc
  simp only [hc', Bool.false_eq_true, if_false] at h
  split at h
  · exact absurd h (by simp)
  split at h
  · exact absurd h (by simp)
  split at h
  · exact absurd h (by simp)
  · rename_i t
    split at h
    · exact absurd h (by simp)
    split at h
    · split at h
      · exact absurd h (by simp)
      · rename_i hlen
        split at h
        · rename_i hcrc
          have : List.take st.uncompSize t = out := by simpa using h
          subst this
          refine ⟨(by have := beq_iff_eq.mp hcrc; exact this.symm), ?_⟩
          simp only [List.length_take]
          omega
        · exact absurd h (by simp)
    · split at h
      · exact absurd h (by simp)
      · rename_i o ho
        split at h
        · exact absurd h (by simp)
        · rename_i hl
          split at h
          · exact absurd h (by simp)
          · rename_i hcrc
            have : o = out := by simpa using h
            subst this
            simp only [bne_iff_ne, ne_eq, Decidable.not_not] at hl hcrc
            exact ⟨hcrc.symm, hl.symm⟩

theorem gate_zip_member (inflate : Bytes → Nat → Option Bytes) (junk : Bytes) (st : ZipStat) (tail : Option Bytes)
    (out : Bytes) (h0 : st.uncompSize ≠ 0) (h1 : st.uncompSize ≠ 0xFFFFFFFF)
    (h : zipMember inflate junk st tail = some out) :
    st.crc32 = (crc32A out 0).toNat ∧ st.uncompSize = out.length := by
  unfold zipMember at h
  split at h
  · rename_i hok
    by_cases hc : st.compSize = 0
    · exfalso
      unfold zipCdirOk at hok
      simp [hc, h0, h1] at hok
    · exact gate_zip inflate junk st tail out hc h
  · simp at h

theorem bz_hc_ne (hc : BitVec 32) : hc ≠ hc + 1 := by
  intro h
  have h1 := congrArg BitVec.toNat h
  rw [BitVec.toNat_add] at h1
  have h2 : BitVec.toNat (1 : BitVec 32) = 1 := by decide
  rw [h2] at h1
  have := hc.isLt
  omega

theorem gate_bz (total : BitVec 32) (acc : Bytes) (blocks : List (BitVec 32 × Bytes)) (sc : BitVec 32) (out : Bytes)
    (h : bzRun total acc blocks sc = some out) :
    (∀ b ∈ blocks, b.1 = bzBlockCrc b.2) ∧ out = acc ++ (blocks.map (·.2)).flatten ∧
      (Gen.bzStreamCrcDead = false → sc = bzStreamCrc total (blocks.map (·.2))) := by
  induction blocks generalizing total acc with
  | nil =>
    simp only [bzRun] at h
    split at h
    · simp at h
    · rename_i hc
      simp only [Option.some.injEq] at h
      refine ⟨by simp, by simp [h], ?_⟩
      intro hd
      simp only [hd, Bool.not_false, Bool.true_and, decide_eq_true_eq, ne_eq, Decidable.not_not] at hc
      simpa [bzStreamCrc] using hc
  | cons b rest ih =>
    obtain ⟨hc, d⟩ := b
    simp only [bzRun] at h
    split at h
    · rename_i hne
      split at h
      · rename_i heq
        exact absurd heq (bz_hc_ne hc)
      · exact absurd h (by simp)
    · rename_i heq
      simp only [ne_eq, Decidable.not_not] at heq
      have ⟨h1, h3, h4⟩ := ih _ _ h
      refine ⟨?_, ?_, ?_⟩
      · intro b hb
        rcases List.mem_cons.mp hb with hb | hb
        · subst hb; exact heq.symm
        · exact h1 b hb
      · simpa [List.append_assoc] using h3
      · intro hd; simpa [bzStreamCrc] using h4 hd

/-- while the comparison is dead code the stored stream CRC has no influence on the verdict -/
theorem bz_stream_crc_ignored (hd : Gen.bzStreamCrcDead = true) (total : BitVec 32) (acc : Bytes)
    (blocks : List (BitVec 32 × Bytes)) (sc sc' : BitVec 32) :
    bzRun total acc blocks sc = bzRun total acc blocks sc' := by
  induction blocks generalizing total acc with
  | nil => simp [bzRun, hd]
  | cons b rest ih =>
    obtain ⟨hc, d⟩ := b
    simp only [bzRun]
    split
    · rfl
    · exact ih _ _

theorem xz_chunks (chunks : List Bytes) (c : BitVec 32) :
    chunks.foldl (fun c d => crc32A d c) c = crc32A chunks.flatten c := by
  induction chunks generalizing c with
  | nil => simp [crc32A, crc32ANoInv, tblLoop]
  | cons d rest ih => simp only [List.foldl, List.flatten_cons]; rw [ih, crc32A_append]

theorem gate_xz (hdr bh : Bytes) (chunks : List Bytes) (check : Nat) (index : Bytes) (icrc : Nat)
    (footer out : Bytes) (h : xzAccept hdr bh chunks check index icrc footer = some out) :
    out = chunks.flatten ∧ check = (crc32A out 0).toNat ∧ xzStreamHeader hdr = some 1 ∧
      xzBlockHeaderOk bh = true ∧ xzIndexOk index icrc = true ∧ xzFooterOk footer index.length 1 = true := by
  unfold xzAccept at h
  split at h
  · rename_i hh
    split at h
    · rename_i hall
      simp only [Bool.and_eq_true] at hall
      obtain ⟨⟨⟨hb, hc⟩, hi⟩, hf⟩ := hall
      have ho : chunks.flatten = out := by simpa using h
      subst ho
      unfold xzBlockCheck at hc
      rw [xz_chunks] at hc
      exact ⟨rfl, (by have := beq_iff_eq.mp hc; exact this.symm), hh, hb, hi, hf⟩
    · exact absurd h (by simp)
  · exact absurd h (by simp)

theorem crc16Gate_eq (out : Bytes) (s : Nat) (h : crc16Gate out s = true) : s = (crc16IBM out 0).toNat := by
  unfold crc16Gate at h; exact beq_iff_eq.mp h

theorem gate_arcLoop (env : ArcEnv) (f out : Bytes) : ∀ fuel pos level,
    arcLoop env f fuel pos level = some out → ∃ p, le16 f (p + 23) = (crc16IBM out 0).toNat := by
  intro fuel
  induction fuel with
  | zero => intro pos level h; simp [arcLoop] at h
  | succ n ih =>
    intro pos level h
    unfold arcLoop at h
    simp only [] at h
    repeat' (split at h)
    all_goals (first
      | exact ih _ _ h
      | (cases h; exact ⟨pos, crc16Gate_eq _ _ (by assumption)⟩)
      | (simp at h))

theorem gate_arc (env : ArcEnv) (f out : Bytes) (h : arcDepack env f = some out) :
    ∃ pos, le16 f (pos + 23) = (crc16IBM out 0).toNat := gate_arcLoop env f out _ _ _ h

theorem arcfsGate_eq (out : Bytes) (s : Nat) (h : arcfsGate out s = true) : s = 0 ∨ s = (crc16IBM out 0).toNat := by
  unfold arcfsGate at h
  simp only [Bool.or_eq_true, beq_iff_eq] at h
  rcases h with h | h
  · exact Or.inl h
  · exact Or.inr (crc16Gate_eq _ _ h)

theorem gate_arcfsLoop (env : ArcEnv) (f out : Bytes) (dofs : Nat) : ∀ n pos,
    arcfsLoop env f dofs n pos = some out → ∃ p, le16 f (p + 26) = 0 ∨ le16 f (p + 26) = (crc16IBM out 0).toNat := by
  intro n
  induction n with
  | zero => intro pos h; simp [arcfsLoop] at h
  | succ n ih =>
    intro pos h
    unfold arcfsLoop at h
    simp only [] at h
    repeat' (split at h)
    all_goals (first
      | exact ih _ h
      | (cases h; exact ⟨pos, arcfsGate_eq _ _ (by assumption)⟩)
      | (simp at h))

theorem gate_arcfs (env : ArcEnv) (f out : Bytes) (h : arcfsDepack env f = some out) :
    ∃ pos, le16 f (pos + 26) = 0 ∨ le16 f (pos + 26) = (crc16IBM out 0).toNat := by
  unfold arcfsDepack at h
  split at h
  · exact absurd h (by simp)
  · exact gate_arcfsLoop env f out _ _ _ h

/-- entry at `pos` passed its header CRC -/
def LzxHdrOk (f : Bytes) (pos : Nat) : Prop :=
  le32 f (pos + 26) = lzxHeaderCrc (slice f pos 31) (slice f (pos + 31) (u8 f (pos + 30)))
        (slice f (pos + 31 + u8 f (pos + 30)) (u8 f (pos + 14)))

def SelOk (f : Bytes) (mg : LzxMerge) : Prop :=
  ∀ o s c, mg.sel = some (o, s, c) → ∃ pos, c = le32 f (pos + 22) ∧ LzxHdrOk f pos

theorem lzxGate_eq (out : Bytes) (s : Nat) (h : lzxGate out s = true) : s = (crc32A out 0).toNat := by
  unfold lzxGate at h; exact beq_iff_eq.mp h

theorem gate_lzxExtract (env : LzxEnv) (f out : Bytes) (dpos csize method : Nat) (mg : LzxMerge)
    (hs : SelOk f mg) (h : lzxExtract env f dpos csize method mg = some out) :
    ∃ pos, le32 f (pos + 22) = (crc32A out 0).toNat ∧ LzxHdrOk f pos := by
  unfold lzxExtract at h
  split at h
  · simp at h
  · rename_i sofs ssize scrc hsel
    obtain ⟨pos, hc, hh⟩ := hs _ _ _ hsel
    simp only [] at h
    repeat' (split at h)
    all_goals (first
      | (cases h; exact ⟨pos, hc ▸ lzxGate_eq _ _ (by assumption), hh⟩)
      | (simp at h))

theorem selOk_empty (f : Bytes) : SelOk f {} := by
  intro o s c h; simp at h

/-- the selection after `lzx_check_entry` is the old one, none, or this entry's (only if not `bad`) -/
theorem checkEntry_sel (limit : Nat) (mg : LzxMerge) (bad : Bool) (usize csize method flags dcrc : Nat) :
    let r := lzxCheckEntry limit mg bad usize csize method flags dcrc
    r.1.sel = mg.sel ∨ r.1.sel = none ∨ (∃ x, r.1.sel = some (x, usize, dcrc) ∧ bad = false) := by
  intro r
  have hr : r = lzxCheckEntry limit mg bad usize csize method flags dcrc := rfl
  clear_value r
  unfold lzxCheckEntry at hr
  simp only [] at hr
  cases bad <;> simp only [Bool.false_eq_true, if_false, if_true, Bool.not_false, Bool.not_true, Bool.true_and, Bool.false_and] at hr
  all_goals (repeat' (split at hr))
  all_goals (subst hr; simp)

theorem selOk_check (f : Bytes) (limit : Nat) (mg : LzxMerge) (bad : Bool) (pos csize method flags : Nat)
    (hs : SelOk f mg) (hb : bad = false → LzxHdrOk f pos) :
    SelOk f (lzxCheckEntry limit mg bad (le32 f (pos + 2)) csize method flags (le32 f (pos + 22))).1 := by
  intro o s c hsel
  rcases checkEntry_sel limit mg bad (le32 f (pos + 2)) csize method flags (le32 f (pos + 22)) with h | h | ⟨x, h, hbad⟩
  · rw [h] at hsel; exact hs o s c hsel
  · rw [h] at hsel; simp at hsel
  · rw [h] at hsel
    simp only [Option.some.injEq, Prod.mk.injEq] at hsel
    exact ⟨pos, hsel.2.2.symm, hb hbad⟩

theorem gate_lzxLoop (env : LzxEnv) (f out : Bytes) : ∀ fuel pos mg, SelOk f mg →
    lzxLoop env f fuel pos mg = some out → ∃ p, le32 f (p + 22) = (crc32A out 0).toNat ∧ LzxHdrOk f p := by
  intro fuel
  induction fuel with
  | zero => intro pos mg _ h; simp [lzxLoop] at h
  | succ n ih =>
    intro pos mg hs h
    unfold lzxLoop at h
    simp only [] at h
    split at h
    · simp at h
    split at h
    · simp at h
    have hsel := selOk_check f env.limit mg (lzxEntryBad env f pos) pos (le32 f (pos + 6)) (u8 f (pos + 11))
      (u8 f (pos + 12)) hs (by
        intro hb
        unfold lzxEntryBad at hb
        simp only [Bool.or_eq_false_iff, bne_eq_false_iff_eq] at hb
        exact hb.1.1.1.1.1)
    split at h
    · exact gate_lzxExtract env f out _ _ _ _ hsel h
    · exact ih _ _ hsel h

theorem gate_lzx (env : LzxEnv) (f out : Bytes) (h : lzxDepack env f = some out) :
    ∃ pos, le32 f (pos + 22) = (crc32A out 0).toNat ∧
      le32 f (pos + 26) = lzxHeaderCrc (slice f pos 31) (slice f (pos + 31) (u8 f (pos + 30)))
        (slice f (pos + 31 + u8 f (pos + 30)) (u8 f (pos + 14))) := by
  unfold lzxDepack at h
  split at h
  · simp at h
  split at h
  · simp at h
  exact gate_lzxLoop env f out _ _ _ (selOk_empty f) h


end Xmp.Gates
