import XmpProofs.Crc
import XmpModel.Gates
/-!
# Helper lemmas for the depacker gates (C09): what acceptance implies, for any decoder
-/
namespace Xmp.Gates
open Xmp Xmp.Crc

theorem gate_gzip (dec : Bytes → Option Bytes) (f out : Bytes) (h : gzipDepack dec f = some out) :
    ∃ p, gzipDataStart f = some p ∧ dec (slice f p (f.length - p - 8)) = some out ∧
      le32 f (f.length - 8) = (crc32A out 0).toNat ∧ sext32 (le32 f (f.length - 4)) = out.length := by
  unfold gzipDepack at h
  split at h
  · exact absurd h (by simp)
  · rename_i p hp
    split at h
    · exact absurd h (by simp)
    · rename_i o ho
      split at h
      · rename_i hg
        have ho' : o = out := by simpa using h
        subst ho'
        unfold gzipGate at hg
        simp only [Bool.and_eq_true, beq_iff_eq] at hg
        exact ⟨p, hp, ho, hg.1, hg.2⟩
      · exact absurd h (by simp)

theorem gate_zip (inflate : Bytes → Nat → Option Bytes) (junk : Bytes) (st : ZipStat) (tail : Option Bytes)
    (out : Bytes) (hc : st.compSize ≠ 0) (h : zipExtract inflate junk st tail = some out) :
    st.crc32 = (crc32A out 0).toNat ∧ st.uncompSize = out.length := by
  unfold zipExtract at h
  have hc' : (st.compSize == 0) = false := by simpa using hc
  simp only [hc', Bool.false_eq_true, if_false] at h
  split at h
  · exact absurd h (by simp)
  split at h
  · exact absurd h (by simp)
  split at h
  · exact absurd h (by simp)
  · rename_i t
    split at h
    · exact absurd h (by simp)
    split at h
    · split at h
      · exact absurd h (by simp)
      · rename_i hlen
        split at h
        · rename_i hcrc
          have : List.take st.uncompSize t = out := by simpa using h
          subst this
          refine ⟨(by have := beq_iff_eq.mp hcrc; exact this.symm), ?_⟩
          simp only [List.length_take]
          omega
        · exact absurd h (by simp)
    · split at h
      · exact absurd h (by simp)
      · rename_i o ho
        split at h
        · exact absurd h (by simp)
        · rename_i hl
          split at h
          · exact absurd h (by simp)
          · rename_i hcrc
            have : o = out := by simpa using h
            subst this
            simp only [bne_iff_ne, ne_eq, Decidable.not_not] at hl hcrc
            exact ⟨hcrc.symm, hl.symm⟩

theorem gate_zip_member (inflate : Bytes → Nat → Option Bytes) (junk : Bytes) (st : ZipStat) (tail : Option Bytes)
    (out : Bytes) (h0 : st.uncompSize ≠ 0) (h1 : st.uncompSize ≠ 0xFFFFFFFF)
    (h : zipMember inflate junk st tail = some out) :
    st.crc32 = (crc32A out 0).toNat ∧ st.uncompSize = out.length := by
  unfold zipMember at h
  split at h
  · rename_i hok
    by_cases hc : st.compSize = 0
    · exfalso
      unfold zipCdirOk at hok
      simp [hc, h0, h1] at hok
    · exact gate_zip inflate junk st tail out hc h
  · simp at h

theorem bz_hc_ne (hc : BitVec 32) : hc ≠ hc + 1 := by
  intro h
  have h1 := congrArg BitVec.toNat h
  rw [BitVec.toNat_add] at h1
  have h2 : BitVec.toNat (1 : BitVec 32) = 1 := by decide
  rw [h2] at h1
  have := hc.isLt
  omega

theorem gate_bz (total : BitVec 32) (acc : Bytes) (blocks : List (BitVec 32 × Bytes)) (sc : BitVec 32) (out : Bytes)
    (h : bzRun total acc blocks sc = some out) :
    (∀ b ∈ blocks, b.1 = bzBlockCrc b.2) ∧ out = acc ++ (blocks.map (·.2)).flatten ∧
      (Gen.bzStreamCrcDead = false → sc = bzStreamCrc total (blocks.map (·.2))) := by
  induction blocks generalizing total acc with
  | nil =>
    simp only [bzRun] at h
    split at h
    · simp at h
    · rename_i hc
      simp only [Option.some.injEq] at h
      refine ⟨by simp, by simp [h], ?_⟩
      intro hd
      simp only [hd, Bool.not_false, Bool.true_and, decide_eq_true_eq, ne_eq, Decidable.not_not] at hc
      simpa [bzStreamCrc] using hc
  | cons b rest ih =>
    obtain ⟨hc, d⟩ := b
    simp only [bzRun] at h
    split at h
    · rename_i hne
      split at h
      · rename_i heq
        exact absurd heq (bz_hc_ne hc)
      · exact absurd h (by simp)
    · rename_i heq
      simp only [ne_eq, Decidable.not_not] at heq
      have ⟨h1, h3, h4⟩ := ih _ _ h
      refine ⟨?_, ?_, ?_⟩
      · intro b hb
        rcases List.mem_cons.mp hb with hb | hb
        · subst hb; exact heq.symm
        · exact h1 b hb
      · simpa [List.append_assoc] using h3
      · intro hd; simpa [bzStreamCrc] using h4 hd

/-- while the comparison is dead code the stored stream CRC has no influence on the verdict -/
theorem bz_stream_crc_ignored (hd : Gen.bzStreamCrcDead = true) (total : BitVec 32) (acc : Bytes)
    (blocks : List (BitVec 32 × Bytes)) (sc sc' : BitVec 32) :
    bzRun total acc blocks sc = bzRun total acc blocks sc' := by
  induction blocks generalizing total acc with
  | nil => simp [bzRun, hd]
  | cons b rest ih =>
    obtain ⟨hc, d⟩ := b
    simp only [bzRun]
    split
    · rfl
    · exact ih _ _

/-! ### bzip2: the combination rule `total' = rotl(total, 1) ^ block` -/
theorem xor_cancel_left {w} (a d d' : BitVec w) (h : a ^^^ d = a ^^^ d') : d = d' := by
  have := congrArg (a ^^^ ·) h
  simpa [← BitVec.xor_assoc] using this

theorem xor_cancel_right {w} (a a' d : BitVec w) (h : a ^^^ d = a' ^^^ d) : a = a' := by
  have := congrArg (· ^^^ d) h
  simpa [BitVec.xor_assoc] using this

theorem rotl1_inj (t t' : BitVec 32) (h : (t <<< 1 ||| t >>> 31) = (t' <<< 1 ||| t' >>> 31)) : t = t' := by
  apply BitVec.eq_of_getLsbD_eq
  intro j hj
  by_cases h31 : j = 31
  · subst h31
    have := congrArg (fun x => x.getLsbD 0) h
    simpa using this
  · have := congrArg (fun x => x.getLsbD (j + 1)) h
    have hj1 : j + 1 < 32 := by omega
    have e1 : t.getLsbD (31 + (j + 1)) = false := BitVec.getLsbD_of_ge _ _ (by omega)
    have e2 : t'.getLsbD (31 + (j + 1)) = false := BitVec.getLsbD_of_ge _ _ (by omega)
    simp [hj1, e1, e2] at this
    simpa [BitVec.getLsbD_eq_getElem hj] using this

/-- the combination rule is injective in the block CRC … -/
theorem bzCombine_inj_data (t d d' : BitVec 32) (h : bzCombine t d = bzCombine t d') : d = d' :=
  xor_cancel_left _ d d' h

/-- … and in the running total (a rotation is a bijection) -/
theorem bzCombine_inj_total (t t' d : BitVec 32) (h : bzCombine t d = bzCombine t' d) : t = t' :=
  rotl1_inj t t' (xor_cancel_right _ _ d h)

theorem bzStreamCrc_inj_total (ds : List Bytes) (t t' : BitVec 32) (h : bzStreamCrc t ds = bzStreamCrc t' ds) : t = t' := by
  induction ds generalizing t t' with
  | nil => simpa [bzStreamCrc] using h
  | cons d rest ih =>
    simp only [bzStreamCrc] at h
    exact bzCombine_inj_total _ _ _ (ih _ _ h)

theorem bzStreamCrc_append (A B : List Bytes) (t : BitVec 32) :
    bzStreamCrc t (A ++ B) = bzStreamCrc (bzStreamCrc t A) B := by
  induction A generalizing t with
  | nil => simp [bzStreamCrc]
  | cons a rest ih => simp only [List.cons_append, bzStreamCrc]; exact ih _

/-- **one changed block changes the stream CRC**: whatever precedes and follows -/
theorem bzStreamCrc_single (t : BitVec 32) (A C : List Bytes) (d d' : Bytes) (h : bzBlockCrc d ≠ bzBlockCrc d') :
    bzStreamCrc t (A ++ d :: C) ≠ bzStreamCrc t (A ++ d' :: C) := by
  intro e
  rw [bzStreamCrc_append, bzStreamCrc_append] at e
  simp only [bzStreamCrc] at e
  exact h (bzCombine_inj_data _ _ _ (bzStreamCrc_inj_total C _ _ e))

theorem xz_chunks (chunks : List Bytes) (c : BitVec 32) :
    chunks.foldl (fun c d => crc32A d c) c = crc32A chunks.flatten c := by
  induction chunks generalizing c with
  | nil => simp [crc32A, crc32ANoInv, tblLoop]
  | cons d rest ih => simp only [List.foldl, List.flatten_cons]; rw [ih, crc32A_append]

theorem gate_xz (hdr bh : Bytes) (chunks : List Bytes) (check : Nat) (index : Bytes) (icrc : Nat)
    (footer out : Bytes) (h : xzAccept hdr bh chunks check index icrc footer = some out) :
    out = chunks.flatten ∧ check = (crc32A out 0).toNat ∧ xzStreamHeader hdr = some 1 ∧
      xzBlockHeaderOk bh = true ∧ xzIndexOk index icrc = true ∧ xzFooterOk footer index.length 1 = true := by
  unfold xzAccept at h
  split at h
  · rename_i hh
    split at h
    · rename_i hall
      simp only [Bool.and_eq_true] at hall
      obtain ⟨⟨⟨hb, hc⟩, hi⟩, hf⟩ := hall
      have ho : chunks.flatten = out := by simpa using h
      subst ho
      unfold xzBlockCheck at hc
      rw [xz_chunks] at hc
      exact ⟨rfl, (by have := beq_iff_eq.mp hc; exact this.symm), hh, hb, hi, hf⟩
    · exact absurd h (by simp)
  · exact absurd h (by simp)

theorem crc16Gate_eq (out : Bytes) (s : Nat) (h : crc16Gate out s = true) : s = (crc16IBM out 0).toNat := by
  unfold crc16Gate at h; exact beq_iff_eq.mp h

theorem gate_arcLoop (env : ArcEnv) (f out : Bytes) : ∀ fuel pos level,
    arcLoop env f fuel pos level = some out → ∃ p, le16 f (p + 23) = (crc16IBM out 0).toNat := by
  intro fuel
  induction fuel with
  | zero => intro pos level h; simp [arcLoop] at h
  | succ n ih =>
    intro pos level h
    unfold arcLoop at h
    simp only [] at h
    repeat' (split at h)
    all_goals (first
      | exact ih _ _ h
      | (cases h; exact ⟨pos, crc16Gate_eq _ _ (by assumption)⟩)
      | (simp at h))

theorem gate_arc (env : ArcEnv) (f out : Bytes) (h : arcDepack env f = some out) :
    ∃ pos, le16 f (pos + 23) = (crc16IBM out 0).toNat := gate_arcLoop env f out _ _ _ h

theorem arcfsGate_eq (out : Bytes) (s : Nat) (h : arcfsGate out s = true) : s = 0 ∨ s = (crc16IBM out 0).toNat := by
  unfold arcfsGate at h
  simp only [Bool.or_eq_true, beq_iff_eq] at h
  rcases h with h | h
  · exact Or.inl h
  · exact Or.inr (crc16Gate_eq _ _ h)

theorem gate_arcfsLoop (env : ArcEnv) (f out : Bytes) (dofs : Nat) : ∀ n pos,
    arcfsLoop env f dofs n pos = some out → ∃ p, le16 f (p + 26) = 0 ∨ le16 f (p + 26) = (crc16IBM out 0).toNat := by
  intro n
  induction n with
  | zero => intro pos h; simp [arcfsLoop] at h
  | succ n ih =>
    intro pos h
    unfold arcfsLoop at h
    simp only [] at h
    repeat' (split at h)
    all_goals (first
      | exact ih _ h
      | (cases h; exact ⟨pos, arcfsGate_eq _ _ (by assumption)⟩)
      | (simp at h))

theorem gate_arcfs (env : ArcEnv) (f out : Bytes) (h : arcfsDepack env f = some out) :
    ∃ pos, le16 f (pos + 26) = 0 ∨ le16 f (pos + 26) = (crc16IBM out 0).toNat := by
  unfold arcfsDepack at h
  split at h
  · exact absurd h (by simp)
  · exact gate_arcfsLoop env f out _ _ _ h

/-- entry at `pos` passed its header CRC -/
def LzxHdrOk (f : Bytes) (pos : Nat) : Prop :=
  le32 f (pos + 26) = lzxHeaderCrc (slice f pos 31) (slice f (pos + 31) (u8 f (pos + 30)))
        (slice f (pos + 31 + u8 f (pos + 30)) (u8 f (pos + 14)))

def SelOk (f : Bytes) (mg : LzxMerge) : Prop :=
  ∀ o s c, mg.sel = some (o, s, c) → ∃ pos, c = le32 f (pos + 22) ∧ LzxHdrOk f pos

theorem lzxGate_eq (out : Bytes) (s : Nat) (h : lzxGate out s = true) : s = (crc32A out 0).toNat := by
  unfold lzxGate at h; exact beq_iff_eq.mp h

theorem gate_lzxExtract (env : LzxEnv) (f out : Bytes) (dpos csize method : Nat) (mg : LzxMerge)
    (hs : SelOk f mg) (h : lzxExtract env f dpos csize method mg = some out) :
    ∃ pos, le32 f (pos + 22) = (crc32A out 0).toNat ∧ LzxHdrOk f pos := by
  unfold lzxExtract at h
  split at h
  · simp at h
  · rename_i sofs ssize scrc hsel
    obtain ⟨pos, hc, hh⟩ := hs _ _ _ hsel
    simp only [] at h
    repeat' (split at h)
    all_goals (first
      | (cases h; exact ⟨pos, hc ▸ lzxGate_eq _ _ (by assumption), hh⟩)
      | (simp at h))

theorem selOk_empty (f : Bytes) : SelOk f {} := by
  intro o s c h; simp at h

/-- the selection after `lzx_check_entry` is the old one, none, or this entry's (only if not `bad`) -/
theorem checkEntry_sel (limit : Nat) (mg : LzxMerge) (bad : Bool) (usize csize method flags dcrc : Nat) :
    let r := lzxCheckEntry limit mg bad usize csize method flags dcrc
    r.1.sel = mg.sel ∨ r.1.sel = none ∨ (∃ x, r.1.sel = some (x, usize, dcrc) ∧ bad = false) := by
  intro r
  have hr : r = lzxCheckEntry limit mg bad usize csize method flags dcrc := rfl
  clear_value r
  unfold lzxCheckEntry at hr
  simp only [] at hr
  cases bad <;> simp only [Bool.false_eq_true, if_false, if_true, Bool.not_false, Bool.not_true, Bool.true_and, Bool.false_and] at hr
  all_goals (repeat' (split at hr))
  all_goals (subst hr; simp)

theorem selOk_check (f : Bytes) (limit : Nat) (mg : LzxMerge) (bad : Bool) (pos csize method flags : Nat)
    (hs : SelOk f mg) (hb : bad = false → LzxHdrOk f pos) :
    SelOk f (lzxCheckEntry limit mg bad (le32 f (pos + 2)) csize method flags (le32 f (pos + 22))).1 := by
  intro o s c hsel
  rcases checkEntry_sel limit mg bad (le32 f (pos + 2)) csize method flags (le32 f (pos + 22)) with h | h | ⟨x, h, hbad⟩
  · rw [h] at hsel; exact hs o s c hsel
  · rw [h] at hsel; simp at hsel
  · rw [h] at hsel
    simp only [Option.some.injEq, Prod.mk.injEq] at hsel
    exact ⟨pos, hsel.2.2.symm, hb hbad⟩

theorem gate_lzxLoop (env : LzxEnv) (f out : Bytes) : ∀ fuel pos mg, SelOk f mg →
    lzxLoop env f fuel pos mg = some out → ∃ p, le32 f (p + 22) = (crc32A out 0).toNat ∧ LzxHdrOk f p := by
  intro fuel
  induction fuel with
  | zero => intro pos mg _ h; simp [lzxLoop] at h
  | succ n ih =>
    intro pos mg hs h
    unfold lzxLoop at h
    simp only [] at h
    split at h
    · simp at h
    split at h
    · simp at h
    have hsel := selOk_check f env.limit mg (lzxEntryBad env f pos) pos (le32 f (pos + 6)) (u8 f (pos + 11))
      (u8 f (pos + 12)) hs (by
        intro hb
        unfold lzxEntryBad at hb
        simp only [Bool.or_eq_false_iff, bne_eq_false_iff_eq] at hb
        exact hb.1.1.1.1.1)
    split at h
    · exact gate_lzxExtract env f out _ _ _ _ hsel h
    · exact ih _ _ hsel h

theorem gate_lzx (env : LzxEnv) (f out : Bytes) (h : lzxDepack env f = some out) :
    ∃ pos, le32 f (pos + 22) = (crc32A out 0).toNat ∧
      le32 f (pos + 26) = lzxHeaderCrc (slice f pos 31) (slice f (pos + 31) (u8 f (pos + 30)))
        (slice f (pos + 31 + u8 f (pos + 30)) (u8 f (pos + 14))) := by
  unfold lzxDepack at h
  split at h
  · simp at h
  split at h
  · simp at h
  exact gate_lzxLoop env f out _ _ _ (selOk_empty f) h


/-! ### xz container, byte level -/
theorem gate_xzStreamHeader (h : Bytes) (ct : Nat) (hh : xzStreamHeader h = some ct) :
    slice h 0 6 = [0xfd, 0x37, 0x7a, 0x58, 0x5a, 0x00] ∧ (crc32A (slice h 6 2) 0).toNat = le32 h 8 ∧
      u8 h 6 = 0 ∧ ct = u8 h 7 ∧ ct ≤ 15 := by
  unfold xzStreamHeader at hh
  repeat' (split at hh)
  all_goals (first
    | (simp at hh; done)
    | (simp only [Option.some.injEq] at hh; subst hh
       simp only [ne_eq, Decidable.not_not] at *
       refine ⟨by assumption, by assumption, by assumption, by trivial, by omega⟩))

theorem gate_xzBlockHeaderAt (f : Bytes) (p : Nat) (h : XzBlockHdr) (hh : xzBlockHeaderAt f p = some h) :
    h.size = (u8 f p + 1) * 4 ∧ p + h.size ≤ f.length ∧
      (crc32A (slice f p (h.size - 4)) 0).toNat = le32 f (p + (h.size - 4)) := by
  unfold xzBlockHeaderAt at hh
  simp only [] at hh
  repeat' (split at hh)
  all_goals (first
    | (simp at hh; done)
    | (simp only [Option.some.injEq] at hh; subst hh
       simp only [ne_eq, Decidable.not_not] at *
       refine ⟨by trivial, by omega, by assumption⟩))

/-- what an accepted Block satisfies -/
structure XzBlkOk (lz : Nat → Bytes → Option (Nat × List Bytes)) (ct : Nat) (f : Bytes) (b : XzBlk) : Prop where
  hdr : xzBlockHeaderAt f b.pos = some b.hdr
  dec : lz b.hdr.props (f.drop (b.pos + b.hdr.size)) = some (b.consumed, b.chunks)
  comp : xzSizeOk b.hdr.comp b.consumed = true
  uncomp : xzSizeOk b.hdr.uncomp b.chunks.flatten.length = true
  pad : (slice f (b.pos + b.hdr.size + b.consumed) ((4 - b.consumed % 4) % 4)).any (· != 0) = false
  cpos : b.checkPos = b.pos + b.hdr.size + b.consumed + (4 - b.consumed % 4) % 4
  check : ct = 1 → le32 f b.checkPos = (crc32A b.chunks.flatten 0).toNat
  next : b.next = b.checkPos + (if ct = 1 then 4 else xzCheckSize ct)
  fits : b.next ≤ f.length

theorem sum_length_eq_flatten (cs : List Bytes) : (cs.map List.length).sum = cs.flatten.length := by
  simp [List.length_flatten]

theorem gate_xzBlockAt (lz : Nat → Bytes → Option (Nat × List Bytes)) (ct : Nat) (f : Bytes) (p : Nat) (b : XzBlk)
    (h : xzBlockAt lz ct f p = some b) : b.pos = p ∧ XzBlkOk lz ct f b := by
  unfold xzBlockAt at h
  split at h
  · simp at h
  rename_i hd hhd
  simp only [] at h
  split at h
  · simp at h
  rename_i c chunks hlz
  repeat' (split at h)
  all_goals (first
    | (simp at h; done)
    | (simp only [Option.some.injEq] at h; subst h
       simp only [ne_eq, Decidable.not_not, Bool.not_eq_true, Bool.not_eq_eq_eq_not, Bool.not_true,
         beq_iff_eq, Nat.not_lt, sum_length_eq_flatten] at *
       refine ⟨by trivial, ?_⟩
       constructor <;> first
         | assumption
         | trivial
         | (intro _; rw [← xz_chunks]; symm; assumption)
         | (intro hct; omega)
         | (simp_all; done)
         | omega))

theorem gate_xzBlocks (lz : Nat → Bytes → Option (Nat × List Bytes)) (ct : Nat) (f : Bytes) :
    ∀ fuel p ip bs, xzBlocks lz ct f fuel p = some (ip, bs) →
      ip < f.length ∧ u8 f ip = 0 ∧ (∀ b ∈ bs, XzBlkOk lz ct f b) := by
  intro fuel
  induction fuel with
  | zero => intro p ip bs h; simp [xzBlocks] at h
  | succ n ih =>
    intro p ip bs h
    unfold xzBlocks at h
    split at h
    · simp at h
    rename_i hlen
    split at h
    · rename_i hz
      simp only [Option.some.injEq, Prod.mk.injEq] at h
      obtain ⟨h1, h2⟩ := h
      subst h1; subst h2
      exact ⟨by omega, by simpa using hz, by simp⟩
    split at h
    · simp at h
    rename_i b hb
    split at h
    · simp at h
    rename_i ip' bs' hrec
    simp only [Option.some.injEq, Prod.mk.injEq] at h
    obtain ⟨h1, h2⟩ := h
    subst h1; subst h2
    obtain ⟨r1, r2, r3⟩ := ih _ _ _ hrec
    refine ⟨r1, r2, ?_⟩
    intro x hx
    rcases List.mem_cons.mp hx with hx | hx
    · subst hx; exact (gate_xzBlockAt lz ct f p x hb).2
    · exact r3 x hx

/-- what an accepted Index satisfies (`fp` = offset of the Stream Footer) -/
structure XzIndexOk (f : Bytes) (ip count : Nat) (bh : XzHash) (fp : Nat) : Prop where
  count : ∃ q r, xzVli f (ip + 1) f.length = some (count, q) ∧ xzIndexRecords f count q {} = some (r, bh) ∧
            r ≤ fp - 4 ∧ fp - 4 < r + 4 ∧ (slice f r (fp - 4 - r)).any (· != 0) = false
  aligned : (fp - 4 - ip) % 4 = 0
  lt : ip + 4 < fp
  crc : (crc32A (slice f ip (fp - 4 - ip)) 0).toNat = le32 f (fp - 4)
  fits : fp ≤ f.length

theorem xzVliGo_pos (f : Bytes) (limit : Nat) : ∀ fuel p sh acc v q, xzVliGo f limit fuel p sh acc = some (v, q) → p < q := by
  intro fuel
  induction fuel with
  | zero => intro p sh acc v q h; simp [xzVliGo] at h
  | succ n ih =>
    intro p sh acc v q h
    unfold xzVliGo at h
    simp only [] at h
    repeat' (split at h)
    all_goals (first
      | (simp at h; done)
      | (simp only [Option.some.injEq, Prod.mk.injEq] at h; omega)
      | (have := ih _ _ _ _ _ h; omega))

theorem xzVli_pos (f : Bytes) (p limit v q : Nat) (h : xzVli f p limit = some (v, q)) : p < q :=
  xzVliGo_pos f limit 9 p 0 0 v q h

theorem xzIndexRecords_pos (f : Bytes) : ∀ n p h r ih, xzIndexRecords f n p h = some (r, ih) → p ≤ r := by
  intro n
  induction n with
  | zero => intro p h r ih hh; simp [xzIndexRecords] at hh; omega
  | succ n ihn =>
    intro p h r ih hh
    unfold xzIndexRecords at hh
    split at hh
    · simp at hh
    rename_i unp q h1
    split at hh
    · simp at hh
    rename_i unc r' h2
    have := ihn _ _ _ _ hh
    have := xzVli_pos _ _ _ _ _ h1
    have := xzVli_pos _ _ _ _ _ h2
    omega

theorem gate_xzIndexAt (f : Bytes) (ip count : Nat) (bh : XzHash) (fp : Nat)
    (h : xzIndexAt f ip count bh = some fp) : XzIndexOk f ip count bh fp := by
  unfold xzIndexAt at h
  split at h
  · simp at h
  rename_i cnt q hq
  split at h
  · simp at h
  rename_i hcnt
  split at h
  · simp at h
  rename_i r ih hr
  simp only [] at h
  repeat' (split at h)
  all_goals (first | (simp at h; done) | skip)
  simp only [Option.some.injEq] at h
  simp only [ne_eq, Decidable.not_not, Nat.not_lt, Bool.not_eq_true] at *
  subst hcnt
  rename_i hih _ hcrc
  subst hih
  have hq' := xzVli_pos _ _ _ _ _ hq
  have hr' := xzIndexRecords_pos _ _ _ _ _ _ hr
  have e : fp - 4 = r + (4 - (r - ip) % 4) % 4 := by omega
  constructor
  · refine ⟨q, r, hq, hr, by omega, by omega, ?_⟩
    have e2 : fp - 4 - r = (4 - (r - ip) % 4) % 4 := by omega
    rw [e2]; assumption
  · omega
  · omega
  · rw [e]
    exact hcrc
  · omega

/-- what an accepted xz file satisfies -/
structure XzParseOk (lz : Nat → Bytes → Option (Nat × List Bytes)) (f : Bytes) (P : XzParse) : Prop where
  len : 12 ≤ f.length
  header : xzStreamHeader f = some P.ct
  blocks : ∀ b ∈ P.blocks, XzBlkOk lz P.ct f b
  indicator : u8 f P.indexPos = 0
  index : XzIndexOk f P.indexPos P.blocks.length (xzBlocksHash P.ct P.blocks) P.footerPos
  footer : xzFooterOk (slice f P.footerPos 12) (P.footerPos - 4 - P.indexPos) P.ct = true
  fits : P.footerPos + 12 ≤ f.length

theorem gate_xzParse (lz : Nat → Bytes → Option (Nat × List Bytes)) (f : Bytes) (P : XzParse)
    (h : xzParse lz f = some P) : XzParseOk lz f P := by
  unfold xzParse at h
  split at h
  · simp at h
  rename_i hlen
  split at h
  · simp at h
  rename_i ct hct
  split at h
  · simp at h
  rename_i ip bs hbs
  split at h
  · simp at h
  rename_i fp hfp
  split at h
  · simp at h
  rename_i hfit
  split at h
  · rename_i hft
    simp only [Option.some.injEq] at h
    subst h
    obtain ⟨_, b2, b3⟩ := gate_xzBlocks lz ct f _ _ _ _ hbs
    exact ⟨by omega, hct, b3, b2, gate_xzIndexAt f ip bs.length _ fp hfp, hft, by show fp + 12 ≤ f.length; omega⟩
  · simp at h

theorem gate_xzDepack (lz : Nat → Bytes → Option (Nat × List Bytes)) (f out : Bytes)
    (h : xzDepack lz f = some out) : ∃ P, xzParse lz f = some P ∧ out = P.output ∧ XzParseOk lz f P := by
  unfold xzDepack at h
  cases hp : xzParse lz f with
  | none => simp [hp] at h
  | some P =>
    simp only [hp, Option.map_some, Option.some.injEq] at h
    exact ⟨P, rfl, h.symm, gate_xzParse lz f P hp⟩

/-- slices of a 12-byte slice -/
theorem u8_slice (f : Bytes) (p n i : Nat) (h : i < n) : u8 (slice f p n) i = u8 f (p + i) := by
  unfold u8 slice
  simp [List.getD_eq_getElem?_getD, h, List.getElem?_drop]

theorem le32_slice (f : Bytes) (p n i : Nat) (h : i + 3 < n) : le32 (slice f p n) i = le32 f (p + i) := by
  unfold le32
  rw [u8_slice _ _ _ _ (by omega), u8_slice _ _ _ _ (by omega), u8_slice _ _ _ _ (by omega), u8_slice _ _ _ _ (by omega)]
  simp [Nat.add_assoc]

theorem slice_slice (f : Bytes) (p n i m : Nat) (h : i + m ≤ n) : slice (slice f p n) i m = slice f (p + i) m := by
  unfold slice
  rw [List.drop_take, List.take_take, List.drop_drop]
  congr 1
  omega

/-- the Stream Footer test in terms of the file -/
theorem xzFooterOk_file (f : Bytes) (fp isz ct : Nat) (h : xzFooterOk (slice f fp 12) isz ct = true) :
    slice f (fp + 10) 2 = [0x59, 0x5a] ∧ (crc32A (slice f (fp + 4) 6) 0).toNat = le32 f fp ∧
      isz / 4 = le32 f (fp + 4) ∧ u8 f (fp + 8) = 0 ∧ u8 f (fp + 9) = ct := by
  unfold xzFooterOk at h
  simp only [Bool.and_eq_true, beq_iff_eq] at h
  obtain ⟨⟨⟨⟨h1, h2⟩, h3⟩, h4⟩, h5⟩ := h
  rw [slice_slice _ _ _ _ _ (by omega)] at h1 h2
  rw [le32_slice _ _ _ _ (by omega)] at h2 h3
  rw [u8_slice _ _ _ _ (by omega)] at h4 h5
  exact ⟨h1, by simpa using h2, by simpa using h3, h4, h5⟩


/-! ### zip, the whole reader -/
/-- what `mz_zip_reader_read_central_dir` established for the record at `p` -/
structure ZipRecSane (f : Bytes) (p : Nat) : Prop where
  sig : le32 f p = 0x02014b50
  sizes : le32 f (p + 20) ≠ 0xFFFFFFFF → le32 f (p + 24) ≠ 0xFFFFFFFF → le32 f (p + 24) ≠ 0 → le32 f (p + 20) ≠ 0

theorem gate_zipCdirRecord (f : Bytes) (thisDisk p n : Nat) (hasExt : Bool) (r : Nat × Bool)
    (h : zipCdirRecord f thisDisk p n hasExt = some r) : ZipRecSane f p := by
  unfold zipCdirRecord at h
  simp only [] at h
  split at h
  · simp at h
  rename_i h0
  split at h
  · simp at h
  split at h
  · simp at h
  rename_i hs
  simp only [Bool.or_eq_true, bne_iff_ne, ne_eq, decide_eq_true_eq, not_or, Decidable.not_not, Nat.not_lt] at h0
  refine ⟨h0.2, ?_⟩
  intro a b c d
  apply hs
  simp [b, c, d]

theorem gate_zipCdirLoop (f : Bytes) (thisDisk : Nat) : ∀ k p n hasExt l,
    zipCdirLoop f thisDisk k p n hasExt = some l → ∀ q ∈ l, ZipRecSane f q := by
  intro k
  induction k with
  | zero => intro p n he l h; simp [zipCdirLoop] at h; subst h; simp
  | succ k ih =>
    intro p n he l h
    unfold zipCdirLoop at h
    split at h
    · simp at h
    rename_i tot he' hr
    split at h
    · simp at h
    rename_i l' hl
    simp only [Option.some.injEq] at h
    subst h
    intro q hq
    rcases List.mem_cons.mp hq with hq | hq
    · subst hq; exact gate_zipCdirRecord _ _ _ _ _ _ hr
    · exact ih _ _ _ _ hl q hq

theorem gate_zipOpen (f : Bytes) (l : List Nat) (h : zipOpen f = some l) : ∀ q ∈ l, ZipRecSane f q := by
  unfold zipOpen at h
  split at h
  · simp at h
  repeat' (split at h)
  all_goals (first | (simp at h; done) | exact gate_zipCdirLoop _ _ _ _ _ _ _ h)

theorem gate_zipSelect (env : ZipEnv) (f : Bytes) : ∀ (l : List Nat) (p : Nat) (st : ZipStat) (lho : Nat),
    zipSelect env f l = some (p, st, lho) →
      p ∈ l ∧ zipStat f p = some (st, lho) ∧ zipIsDir f p = false ∧ zipSupported f p = true ∧ env.excl (zipName f p) = false := by
  intro l
  induction l with
  | nil => intro p st lho h; simp [zipSelect] at h
  | cons a rest ih =>
    intro p st lho h
    unfold zipSelect at h
    split at h
    · obtain ⟨h1, h2⟩ := ih _ _ _ h
      exact ⟨List.mem_cons_of_mem _ h1, h2⟩
    · rename_i hc
      split at h
      · simp at h
      rename_i st' lho' hst
      simp only [Option.some.injEq, Prod.mk.injEq] at h
      obtain ⟨h1, h2, h3⟩ := h
      subst h1; subst h2; subst h3
      simp only [Bool.or_eq_true, Bool.not_eq_true', not_or, Bool.not_eq_true, Bool.not_eq_false] at hc
      exact ⟨List.mem_cons_self, hst, hc.1.1, hc.1.2, hc.2⟩

theorem zipTake64_keep (need : Bool) (cur : Nat) (d : Bytes) (v : Nat) (d' : Bytes)
    (h : zipTake64 need cur d = some (v, d')) (hn : need = false) : v = cur := by
  subst hn
  simp [zipTake64] at h
  exact h.1.symm

/-- the stat's CRC-32 is the central-directory field; sizes are the 32-bit fields unless those hold
    the zip64 escape value -/
theorem zipStat_fields (f : Bytes) (p : Nat) (st : ZipStat) (lho : Nat) (h : zipStat f p = some (st, lho)) :
    st.crc32 = le32 f (p + 16) ∧ st.method = le16 f (p + 10) ∧ st.bitFlag = le16 f (p + 8) ∧
    (le32 f (p + 20) ≠ 0xFFFFFFFF → st.compSize = le32 f (p + 20)) ∧
    (le32 f (p + 24) ≠ 0xFFFFFFFF → st.uncompSize = le32 f (p + 24)) := by
  unfold zipStat at h
  simp only [] at h
  split at h
  · split at h
    · simp at h
    · simp only [Option.some.injEq, Prod.mk.injEq] at h
      obtain ⟨h1, _⟩ := h
      subst h1
      simp
    · rename_i d hd
      split at h
      · simp at h
      rename_i u d1 hu
      split at h
      · simp at h
      rename_i c d2 hc
      split at h
      · simp at h
      rename_i l d3 hl
      simp only [Option.some.injEq, Prod.mk.injEq] at h
      obtain ⟨h1, _⟩ := h
      subst h1
      refine ⟨rfl, rfl, rfl, ?_, ?_⟩
      · intro hne
        exact zipTake64_keep _ _ _ _ _ hc (by simpa using hne)
      · intro hne
        exact zipTake64_keep _ _ _ _ _ hu (by simpa using hne)
  · simp only [Option.some.injEq, Prod.mk.injEq] at h
    obtain ⟨h1, _⟩ := h
    subst h1
    simp

theorem zipExtract_junk (inflate : Bytes → Nat → Option Bytes) (junk : Bytes) (st : ZipStat) (tail : Option Bytes)
    (out : Bytes) (h : zipExtract inflate junk st tail = some out) (hc : st.compSize = 0) : out = junk := by
  unfold zipExtract at h
  simp [hc] at h
  exact h.symm

/-- **zip, whole reader.** -/
theorem gate_zipDepack (env : ZipEnv) (f out : Bytes) (h : zipDepack env f = some out) :
    ∃ p st lho, zipStat f p = some (st, lho) ∧ ZipRecSane f p ∧ st.crc32 = le32 f (p + 16) ∧
      zipIsDir f p = false ∧ zipSupported f p = true ∧ env.excl (zipName f p) = false ∧
      (st.compSize ≠ 0 → st.crc32 = (crc32A out 0).toNat ∧ st.uncompSize = out.length) ∧
      (st.compSize = 0 → out = env.junk st.uncompSize) ∧
      (le32 f (p + 20) ≠ 0xFFFFFFFF → st.compSize = le32 f (p + 20)) ∧
      (le32 f (p + 24) ≠ 0xFFFFFFFF → st.uncompSize = le32 f (p + 24)) := by
  unfold zipDepack at h
  split at h
  · simp at h
  rename_i offs ho
  split at h
  · simp at h
  rename_i p st lho hsel
  obtain ⟨hm, hst, hd, hsu, hex⟩ := gate_zipSelect env f offs p st lho hsel
  obtain ⟨c1, _, _, c4, c5⟩ := zipStat_fields f p st lho hst
  exact ⟨p, st, lho, hst, gate_zipOpen f offs ho p hm, c1, hd, hsu, hex,
    fun hc => gate_zip _ _ _ _ _ hc h, fun hc => zipExtract_junk _ _ _ _ _ h hc, c4, c5⟩

theorem u8_of_drop (f : Bytes) (p : Nat) (a : UInt8) (k : Nat) (l : Bytes)
    (h : f.drop p = l) (hk : l[k]? = some a) : u8 f (p + k) = a.toNat := by
  unfold u8
  have : f[p + k]? = some a := by
    rw [← hk, ← h, List.getElem?_drop]
  simp [List.getD_eq_getElem?_getD, this]

theorem zipScanUp_sound (f : Bytes) : ∀ (l : Bytes) (p hi : Nat) (best : Option Nat) (r : Nat),
    f.drop p = l → (∀ b, best = some b → le32 f b = 0x06054b50 ∧ b ≤ hi) →
    zipScanUp l p hi best = some r → le32 f r = 0x06054b50 ∧ r ≤ hi := by
  intro l
  induction l with
  | nil => intro p hi best r _ hb h; simp [zipScanUp] at h; exact hb r h
  | cons a t ih =>
    intro p hi best r hd hb h
    match t, hd, h with
    | b :: c :: d :: rest, hd, h =>
      unfold zipScanUp at h
      split at h
      · exact hb r h
      · rename_i hle
        refine ih (p + 1) hi _ r ?_ ?_ h
        · rw [← List.drop_drop, hd]; rfl
        · intro x hx
          split at hx
          · rename_i hm
            simp only [Option.some.injEq] at hx
            subst hx
            simp only [Bool.and_eq_true, beq_iff_eq] at hm
            obtain ⟨⟨⟨ha, hb'⟩, hc⟩, hdd⟩ := hm
            refine ⟨?_, by omega⟩
            unfold le32
            have e0 := u8_of_drop f p a 0 _ hd (by simp)
            have e1 := u8_of_drop f p b 1 _ hd (by simp)
            have e2 := u8_of_drop f p c 2 _ hd (by simp)
            have e3 := u8_of_drop f p d 3 _ hd (by simp)
            simp only [Nat.add_zero] at e0
            rw [e0, e1, e2, e3, ha, hb', hc, hdd]
            decide
          · exact hb x hx
    | [], _, h => simp [zipScanUp] at h; exact hb r h
    | [_], _, h => simp [zipScanUp] at h; exact hb r h
    | [_, _], _, h => simp [zipScanUp] at h; exact hb r h

/-- the End Of Central Directory record found by the scan: signature present, 22 bytes fit -/
theorem zipFindEocd_sound (f : Bytes) (e : Nat) (h : zipFindEocd f = some e) :
    le32 f e = 0x06054b50 ∧ e + 22 ≤ f.length := by
  unfold zipFindEocd at h
  split at h
  · simp at h
  rename_i hl
  have := zipScanUp_sound f _ _ _ none e rfl (by simp) h
  exact ⟨this.1, by omega⟩

theorem zipOpen_eocd (f : Bytes) (l : List Nat) (h : zipOpen f = some l) : ∃ e, zipFindEocd f = some e := by
  unfold zipOpen at h
  split at h
  · simp at h
  rename_i E hE
  unfold zipEocd at hE
  split at hE
  · simp at hE
  · rename_i e he; exact ⟨e, he⟩

theorem zipDepack_open (env : ZipEnv) (f out : Bytes) (h : zipDepack env f = some out) : ∃ l, zipOpen f = some l := by
  unfold zipDepack at h
  split at h
  · simp at h
  · rename_i l hl; exact ⟨l, hl⟩

/-- the Records of the Index as a list `(Unpadded Size, Uncompressed Size)` -/
def xzRecs (f : Bytes) : Nat → Nat → Option (List (Nat × Nat))
  | 0, _ => some []
  | n + 1, p =>
    match xzVli f p f.length with
    | none => none
    | some (unp, q) =>
      match xzVli f q f.length with
      | none => none
      | some (unc, r) =>
        match xzRecs f n r with
        | none => none
        | some l => some ((unp, unc) :: l)

theorem xzIndexRecords_sums (f : Bytes) : ∀ n p h r h', xzIndexRecords f n p h = some (r, h') →
    ∃ recs, xzRecs f n p = some recs ∧ recs.length = n ∧
      h'.unpadded % 2 ^ 64 = (h.unpadded + (recs.map (·.1)).sum) % 2 ^ 64 ∧
      h'.uncompressed % 2 ^ 64 = (h.uncompressed + (recs.map (·.2)).sum) % 2 ^ 64 := by
  intro n
  induction n with
  | zero =>
    intro p h r h' hh
    simp only [xzIndexRecords, Option.some.injEq, Prod.mk.injEq] at hh
    obtain ⟨_, rfl⟩ := hh
    exact ⟨[], rfl, rfl, by simp, by simp⟩
  | succ n ih =>
    intro p h r h' hh
    unfold xzIndexRecords at hh
    split at hh
    · simp at hh
    rename_i unp q h1
    split at hh
    · simp at hh
    rename_i unc r' h2
    obtain ⟨recs, e1, e2, e3, e4⟩ := ih _ _ _ _ hh
    refine ⟨(unp, unc) :: recs, ?_, by simp [e2], ?_, ?_⟩
    · unfold xzRecs; simp [h1, h2, e1]
    · rw [e3]; simp only [xzHashUpd, List.map_cons, List.sum_cons]; omega
    · rw [e4]; simp only [xzHashUpd, List.map_cons, List.sum_cons]; omega

theorem xzBlocksHash_sums (ct : Nat) (bs : List XzBlk) (h : XzHash) :
    let r := bs.foldl (fun h b => xzHashUpd h (b.hdr.size + b.consumed + xzCheckSize ct) (b.chunks.map List.length).sum) h
    r.unpadded % 2 ^ 64 = (h.unpadded + (bs.map (fun b => b.hdr.size + b.consumed + xzCheckSize ct)).sum) % 2 ^ 64 ∧
    r.uncompressed % 2 ^ 64 = (h.uncompressed + (bs.map (fun b => b.chunks.flatten.length)).sum) % 2 ^ 64 := by
  induction bs generalizing h with
  | nil => simp
  | cons b rest ih =>
    simp only [List.foldl_cons, List.map_cons, List.sum_cons]
    obtain ⟨a1, a2⟩ := ih (xzHashUpd h (b.hdr.size + b.consumed + xzCheckSize ct) (b.chunks.map List.length).sum)
    refine ⟨?_, ?_⟩
    · rw [a1]; simp only [xzHashUpd]; omega
    · rw [a2]; simp only [xzHashUpd, sum_length_eq_flatten]; omega

theorem output_length (P : XzParse) : P.output.length = (P.blocks.map (fun b => b.chunks.flatten.length)).sum := by
  unfold XzParse.output
  simp [List.length_flatten, List.map_map, Function.comp_def]

/-! ### member selection: the first selected member decides -/

/-- `decrunch_zip` skips this central-directory record -/
def zipSkips (env : ZipEnv) (f : Bytes) (p : Nat) : Bool :=
  zipIsDir f p || !zipSupported f p || env.excl (zipName f p)

theorem zipSelect_first (env : ZipEnv) (f : Bytes) (pre post : List Nat) (p : Nat)
    (hpre : ∀ q ∈ pre, zipSkips env f q = true) (hp : zipSkips env f p = false) :
    zipSelect env f (pre ++ p :: post) =
      (match zipStat f p with
       | none => none
       | some (st, lho) => some (p, st, lho)) := by
  induction pre with
  | nil =>
    simp only [List.nil_append]
    unfold zipSelect
    unfold zipSkips at hp
    simp only [hp, Bool.false_eq_true, if_false]
    cases zipStat f p with
    | none => rfl
    | some x => rfl
  | cons a rest ih =>
    simp only [List.cons_append]
    unfold zipSelect
    have ha := hpre a (by simp)
    unfold zipSkips at ha
    simp only [ha, if_true]
    exact ih (fun q hq => hpre q (List.mem_cons_of_mem _ hq))

theorem zipDepack_first (env : ZipEnv) (f : Bytes) (pre post : List Nat) (p : Nat)
    (ho : zipOpen f = some (pre ++ p :: post))
    (hpre : ∀ q ∈ pre, zipSkips env f q = true) (hp : zipSkips env f p = false) :
    zipDepack env f =
      (match zipStat f p with
       | none => none
       | some (st, lho) => zipExtract env.inflate (env.junk st.uncompSize) st (zipTail f st lho)) := by
  unfold zipDepack
  simp only [ho, zipSelect_first env f pre post p hpre hp]
  cases zipStat f p with
  | none => rfl
  | some x => obtain ⟨st, lho⟩ := x; rfl

/-- the ARC entry at `pos` is one `arc_read` tries to extract (not end marker, not a directory, not skipped) -/
structure ArcSelected (env : ArcEnv) (f : Bytes) (pos : Nat) : Prop where
  fits2 : pos + 2 ≤ f.length
  magic : u8 f pos = 0x1a
  hlen : 2 < arcHeaderLength (u8 f (pos + 1))
  fitsH : pos + arcHeaderLength (u8 f (pos + 1)) ≤ f.length
  notDir : (u8 f (pos + 1) == 30 || (u8 f (pos + 1) == 0x82 &&
      (if arcIsSpark (u8 f (pos + 1)) then le32 f (pos + arcHeaderLength (u8 f (pos + 1)) - 12) else 0) / 256 == 0xfffddc)) = false
  taken : (!arcSupported (u8 f (pos + 1)) || le32 f (pos + 15) > f.length ||
      (if arcIsPacked (u8 f (pos + 1)) then le32 f (pos + 25) else le32 f (pos + 15)) > env.limit ||
      env.excl (cstr (slice f (pos + 2) 12))) = false

/-- extraction + CRC-16 verdict for the entry at `pos` -/
def arcExtractAt (env : ArcEnv) (f : Bytes) (pos : Nat) : Option Bytes :=
  let method := u8 f (pos + 1)
  let hlen := arcHeaderLength method
  let csize := le32 f (pos + 15)
  let usize := if arcIsPacked method then le32 f (pos + 25) else csize
  if f.length < pos + hlen + csize then none else
  let inp := slice f (pos + hlen) csize
  match (if arcIsPacked method then env.unpack method 0 inp usize else some inp) with
  | none => none
  | some out => if crc16Gate out (le16 f (pos + 23)) then some out else none

theorem arcLoop_selected (env : ArcEnv) (f : Bytes) (fuel pos level : Nat) (h : ArcSelected env f pos) :
    arcLoop env f (fuel + 1) pos level = arcExtractAt env f pos := by
  obtain ⟨h1, h2, h3, h4, h5, h6⟩ := h
  unfold arcLoop arcExtractAt
  simp only []
  have e1 : ¬ f.length < pos + 2 := by omega
  have e3 : ¬ arcHeaderLength (u8 f (pos + 1)) ≤ 2 := by omega
  have e4 : ¬ f.length < pos + arcHeaderLength (u8 f (pos + 1)) := by omega
  simp only [e1, h2, e3, e4, h5, h6, if_false, ne_eq, not_true_eq_false, Bool.false_eq_true]
  split
  · rfl
  · split <;> (rename_i heq; simp only [heq])

/-- the ArcFS entry at `pos` is one `arcfs_read` tries to extract -/
structure ArcfsSelected (env : ArcEnv) (f : Bytes) (dofs pos : Nat) : Prop where
  fits : pos + 36 ≤ f.length
  notEnd : ((u8 f pos &&& 0x7f) == 0) = false
  notDir : ((u8 f pos &&& 0x7f) == 1 || u8 f (pos + 35) / 128 == 1) = false
  inData : ¬ (le32 f (pos + 32) % 2 ^ 31 ≥ f.length - dofs)
  csize : ¬ ((if (u8 f pos &&& 0x7f) == 2 then le32 f (pos + 12) else le32 f (pos + 28)) >
              f.length - (dofs + le32 f (pos + 32) % 2 ^ 31))
  usize : ¬ (le32 f (pos + 12) > env.limit)
  supported : arcSupported (u8 f pos &&& 0x7f) = true
  notExcl : env.excl (cstr (slice f (pos + 1) 11)) = false

def arcfsExtractAt (env : ArcEnv) (f : Bytes) (dofs pos : Nat) : Option Bytes :=
  let method := u8 f pos &&& 0x7f
  let usize := le32 f (pos + 12)
  let csize := if method == 2 then usize else le32 f (pos + 28)
  let inp := slice f (dofs + le32 f (pos + 32) % 2 ^ 31) csize
  match (if method != 2 then env.unpack method (u8 f (pos + 25)) inp usize else some inp) with
  | none => none
  | some out => if arcfsGate out (le16 f (pos + 26)) then some out else none

theorem arcfsLoop_selected (env : ArcEnv) (f : Bytes) (dofs n pos : Nat) (h : ArcfsSelected env f dofs pos) :
    arcfsLoop env f dofs (n + 1) pos = arcfsExtractAt env f dofs pos := by
  obtain ⟨h1, h2, h3, h4, h5, h6, h7, h8⟩ := h
  unfold arcfsLoop arcfsExtractAt
  simp only []
  have e1 : ¬ f.length < pos + 36 := by omega
  simp only [e1, h2, h3, h4, h5, h6, h7, h8, if_false, Bool.false_eq_true, Bool.not_true]
  split <;> (rename_i heq; simp only [heq])

/-- position of the data of the LZX entry at `pos` -/
def lzxDataPos (f : Bytes) (pos : Nat) : Nat := pos + 31 + u8 f (pos + 30) + u8 f (pos + 14)

/-- the entry at `pos` with merge state `mg` as `lzx_check_entry` sees it -/
def lzxEntryCheck (env : LzxEnv) (f : Bytes) (pos : Nat) (mg : LzxMerge) : LzxMerge × Bool :=
  lzxCheckEntry env.limit mg (lzxEntryBad env f pos) (le32 f (pos + 2)) (le32 f (pos + 6)) (u8 f (pos + 11))
    (u8 f (pos + 12)) (le32 f (pos + 22))

theorem lzxLoop_selected (env : LzxEnv) (f : Bytes) (fuel pos : Nat) (mg : LzxMerge)
    (h1 : pos + 31 ≤ f.length) (h2 : lzxDataPos f pos ≤ f.length) (h3 : (lzxEntryCheck env f pos mg).2 = true) :
    lzxLoop env f (fuel + 1) pos mg =
      lzxExtract env f (lzxDataPos f pos) (le32 f (pos + 6)) (u8 f (pos + 11)) (lzxEntryCheck env f pos mg).1 := by
  unfold lzxLoop
  unfold lzxDataPos at h2
  unfold lzxEntryCheck at h3
  simp only []
  have e1 : ¬ f.length < pos + 31 := by omega
  have e2 : ¬ f.length < pos + 31 + u8 f (pos + 30) + u8 f (pos + 14) := by omega
  simp only [e1, e2, h3, if_false, if_true]
  rfl

end Xmp.Gates
