import XmpModel.Downmix
import XmpModel.Gen.SeqWriters
import XmpModel.C13Timeline
/-!
Helper lemmas for C13 (model `XmpModel.Downmix`): ranges of the clamps, the
stored words, shifts composed, the xor form of the mid-scale offset, buffer
lengths, and the facts over the generated tables (`Gen.MixerConsts`,
`Gen.SeqWriters`).
-/
namespace Xmp.Downmix
open Xmp.Gen.MixerConsts

/-! ### xor with the top bit = adding the mid-scale offset modulo 2^(n+1) -/

theorem xor_top_aux (n v : Nat) (h : v < 2 ^ n) : v ^^^ 2 ^ n = v + 2 ^ n := by
  have e := Nat.two_pow_add_eq_or_of_lt h 1
  rw [Nat.mul_one] at e
  rw [Nat.add_comm, e]
  apply Nat.eq_of_testBit_eq
  intro i
  rw [Nat.testBit_xor, Nat.testBit_or, Nat.testBit_two_pow]
  by_cases hi : n = i
  · subst hi
    simp [Nat.testBit_lt_two_pow h]
  · simp [hi]

theorem xor_top (n w : Nat) (h : w < 2 ^ (n + 1)) : w ^^^ 2 ^ n = (w + 2 ^ n) % 2 ^ (n + 1) := by
  by_cases hw : w < 2 ^ n
  · rw [xor_top_aux n w hw, Nat.mod_eq_of_lt]
    rw [Nat.pow_succ]; omega
  · have : w = (w - 2 ^ n) + 2 ^ n := by omega
    have hv : w - 2 ^ n < 2 ^ n := by rw [Nat.pow_succ] at h; omega
    generalize w - 2 ^ n = v at *
    subst this
    rw [← xor_top_aux n v hv, Nat.xor_assoc, Nat.xor_self, Nat.xor_zero]
    rw [xor_top_aux n v hv]
    rw [Nat.pow_succ]
    have e2 : v + 2 ^ n + 2 ^ n = v + 1 * (2 ^ n * 2) := by omega
    rw [e2, Nat.add_mul_mod_self_right, Nat.mod_eq_of_lt]
    omega

/-! ### per-sample facts -/

theorem clip16_range (v : Int) : -32768 ≤ clip16 v ∧ clip16 v ≤ 32767 := by
  simp only [clip16, lim16Hi, lim16Lo]
  by_cases h1 : v > 32767 <;> by_cases h2 : v < -32768 <;> simp only [h1, h2, if_true, if_false] <;> omega

theorem clip8_range (v : Int) : -128 ≤ clip8 v ∧ clip8 v ≤ 127 := by
  simp only [clip8, lim8Hi, lim8Lo]
  by_cases h1 : v > 127 <;> by_cases h2 : v < -128 <;> simp only [h1, h2, if_true, if_false] <;> omega

theorem word16_wrapS (v : Int) : word 16 (wrapS 16 v) = (v % 65536).toNat := by
  simp only [word, wrapS, Nat.reduceSub, Int.reducePow]
  congr 1
  omega

theorem word8_wrapS (v : Int) : word 8 (wrapS 8 v) = (v % 256).toNat := by
  simp only [word, wrapS, Nat.reduceSub, Int.reducePow]
  congr 1
  omega

/-- unsigned 16-bit word = signed value + 32768, exactly -/
theorem word16_unsigned (amp : Nat) (x : Int) :
    (word 16 (d16 amp 0x8000 x) : Int) = d16 amp 0 x + 32768 := by
  have r := clip16_range (pre16 amp x)
  simp only [d16]
  rw [if_pos (by decide), if_neg (by decide), word16_wrapS]
  generalize clip16 (pre16 amp x) = s at *
  omega

theorem word8_unsigned (amp : Nat) (x : Int) :
    (word 8 (d8 amp 0x80 x) : Int) = d8 amp 0 x + 128 := by
  have r := clip8_range (pre8 amp x)
  simp only [d8]
  rw [if_pos (by decide), if_neg (by decide), word8_wrapS]
  generalize clip8 (pre8 amp x) = s at *
  omega

theorem pre8_eq (amp : Nat) (h : amp ≤ downmixShift) (x : Int) : pre8 amp x = pre16 amp x >>> 8 := by
  simp only [pre8, pre16, shift8, shift16]
  rw [← Int.shiftRight_add]
  congr 1
  omega

theorem clip8_shift (v : Int) : clip8 (v >>> 8) = clip16 v >>> 8 := by
  simp only [clip8, clip16, lim8Hi, lim8Lo, lim16Hi, lim16Lo, Int.shiftRight_eq_div_pow, Nat.reducePow, Int.cast_ofNat_Int]
  by_cases h1 : v > 32767 <;> by_cases h2 : v < -32768 <;>
    by_cases h3 : v / 256 > 127 <;> by_cases h4 : v / 256 < -128 <;>
    simp only [h1, h2, h3, h4, if_true, if_false] <;> omega

theorem d8_high_byte (amp : Nat) (h : amp ≤ downmixShift) (x : Int) : d8 amp 0 x = d16 amp 0 x >>> 8 := by
  simp only [d8, d16]
  rw [if_neg (by decide), if_neg (by decide), pre8_eq amp h, clip8_shift]


theorem d16_zero (amp : Nat) (x : Int) : d16 amp 0 x = clip16 (pre16 amp x) := by
  simp only [d16]; rw [if_neg (by decide)]
theorem d8_zero (amp : Nat) (x : Int) : d8 amp 0 x = clip8 (pre8 amp x) := by
  simp only [d8]; rw [if_neg (by decide)]

/-- unsigned 8-bit = high byte of unsigned 16-bit -/
theorem word8_high_byte (amp : Nat) (h : amp ≤ downmixShift) (x : Int) :
    word 8 (d8 amp 0x80 x) = word 16 (d16 amp 0x8000 x) / 256 := by
  have a := word8_unsigned amp x
  have b := word16_unsigned amp x
  have c := d8_high_byte amp h x
  have r := clip16_range (pre16 amp x)
  have e : d16 amp 0 x = clip16 (pre16 amp x) := by simp only [d16]; rw [if_neg (by decide)]
  rw [e] at b c
  rw [c] at a
  simp only [Int.shiftRight_eq_div_pow, Nat.reducePow, Int.cast_ofNat_Int] at a
  generalize clip16 (pre16 amp x) = s at *
  omega

/-- pre-clip value: one more amplification step = the accumulator doubled -/
theorem pre16_succ (amp : Nat) (h : amp + 1 ≤ downmixShift) (x : Int) :
    pre16 (amp + 1) x = pre16 amp (2 * x) := by
  simp only [pre16, shift16]
  have e : downmixShift - amp = (downmixShift - (amp + 1)) + 1 := by omega
  rw [e]
  simp only [Int.shiftRight_eq_div_pow]
  rw [Nat.pow_succ, Int.natCast_mul]
  have e2 : ((2 : Nat) : Int) = 2 := rfl
  rw [e2, Int.mul_comm 2 x, Int.mul_ediv_mul_of_pos_left _ _ (by decide)]

/-- … equivalently: halving the louder pre-clip value (floor) gives the quieter one -/
theorem pre16_half (amp : Nat) (h : amp + 1 ≤ downmixShift) (x : Int) :
    pre16 (amp + 1) x >>> 1 = pre16 amp x := by
  simp only [pre16, shift16]
  rw [← Int.shiftRight_add]
  congr 1
  omega

theorem pre8_succ (amp : Nat) (h : amp + 1 ≤ downmixShift + 8) (x : Int) :
    pre8 (amp + 1) x = pre8 amp (2 * x) := by
  simp only [pre8, shift8]
  have e : downmixShift + 8 - amp = (downmixShift + 8 - (amp + 1)) + 1 := by omega
  rw [e]
  simp only [Int.shiftRight_eq_div_pow]
  rw [Nat.pow_succ, Int.natCast_mul]
  have e2 : ((2 : Nat) : Int) = 2 := rfl
  rw [e2, Int.mul_comm 2 x, Int.mul_ediv_mul_of_pos_left _ _ (by decide)]

theorem pre8_half (amp : Nat) (h : amp + 1 ≤ downmixShift + 8) (x : Int) :
    pre8 (amp + 1) x >>> 1 = pre8 amp x := by
  simp only [pre8, shift8]
  rw [← Int.shiftRight_add]
  congr 1
  omega

theorem clip16_id (p : Int) (h1 : -32768 ≤ p) (h2 : p ≤ 32767) : clip16 p = p := by
  simp only [clip16, lim16Hi, lim16Lo]
  have h1' : ¬ p > 32767 := by omega
  have h2' : ¬ p < -32768 := by omega
  simp only [h1', h2', if_false]

theorem clip16_inner (p : Int) (h : -32768 < clip16 p ∧ clip16 p < 32767) : -32768 < p ∧ p < 32767 := by
  simp only [clip16, lim16Hi, lim16Lo] at h
  by_cases h1 : p > 32767 <;> by_cases h2 : p < -32768 <;> simp only [h1, h2, if_true, if_false] at h <;> omega

/-- observable form: where the louder 16-bit output is not clipped, the quieter one is exactly its half -/
theorem d16_half (amp : Nat) (h : amp + 1 ≤ downmixShift) (x : Int)
    (hu : lim16Lo < d16 (amp + 1) 0 x ∧ d16 (amp + 1) 0 x < lim16Hi) :
    d16 amp 0 x = d16 (amp + 1) 0 x >>> 1 := by
  have e := pre16_half amp h x
  simp only [d16_zero, lim16Lo, lim16Hi] at *
  rw [← e]
  clear e
  generalize pre16 (amp + 1) x = p at *
  have hp := clip16_inner p hu
  rw [clip16_id p (by omega) (by omega)]
  simp only [Int.shiftRight_eq_div_pow, Nat.reducePow, Int.cast_ofNat_Int]
  rw [clip16_id]  <;> omega

/-- … and where it is clipped, the quieter one is at least half of full scale -/
theorem d16_half_clipped (amp : Nat) (h : amp + 1 ≤ downmixShift) (x : Int) :
    (d16 (amp + 1) 0 x = lim16Hi → d16 amp 0 x ≥ 16383) ∧ (d16 (amp + 1) 0 x = lim16Lo → d16 amp 0 x ≤ -16384) := by
  have e := pre16_half amp h x
  simp only [d16_zero, lim16Lo, lim16Hi] at *
  rw [← e]
  clear e
  generalize pre16 (amp + 1) x = p at *
  simp only [clip16, lim16Hi, lim16Lo, Int.shiftRight_eq_div_pow, Nat.reducePow, Int.cast_ofNat_Int]
  by_cases h1 : p > 32767 <;> by_cases h2 : p < -32768 <;>
    by_cases h3 : p / 2 > 32767 <;> by_cases h4 : p / 2 < -32768 <;>
    simp only [h1, h2, h3, h4, if_true, if_false] <;> omega


theorem clip8_id (p : Int) (h1 : -128 ≤ p) (h2 : p ≤ 127) : clip8 p = p := by
  simp only [clip8, lim8Hi, lim8Lo]
  have h1' : ¬ p > 127 := by omega
  have h2' : ¬ p < -128 := by omega
  simp only [h1', h2', if_false]

theorem clip8_inner (p : Int) (h : -128 < clip8 p ∧ clip8 p < 127) : -128 < p ∧ p < 127 := by
  simp only [clip8, lim8Hi, lim8Lo] at h
  by_cases h1 : p > 127 <;> by_cases h2 : p < -128 <;> simp only [h1, h2, if_true, if_false] at h <;> omega

theorem d8_half (amp : Nat) (h : amp + 1 ≤ downmixShift + 8) (x : Int)
    (hu : lim8Lo < d8 (amp + 1) 0 x ∧ d8 (amp + 1) 0 x < lim8Hi) :
    d8 amp 0 x = d8 (amp + 1) 0 x >>> 1 := by
  have e := pre8_half amp h x
  simp only [d8_zero, lim8Lo, lim8Hi] at *
  rw [← e]
  clear e
  generalize pre8 (amp + 1) x = p at *
  have hp := clip8_inner p hu
  rw [clip8_id p (by omega) (by omega)]
  simp only [Int.shiftRight_eq_div_pow, Nat.reducePow, Int.cast_ofNat_Int]
  rw [clip8_id] <;> omega

theorem d8_half_clipped (amp : Nat) (h : amp + 1 ≤ downmixShift + 8) (x : Int) :
    (d8 (amp + 1) 0 x = lim8Hi → d8 amp 0 x ≥ 63) ∧ (d8 (amp + 1) 0 x = lim8Lo → d8 amp 0 x ≤ -64) := by
  have e := pre8_half amp h x
  simp only [d8_zero, lim8Lo, lim8Hi] at *
  rw [← e]
  clear e
  generalize pre8 (amp + 1) x = p at *
  simp only [clip8, lim8Hi, lim8Lo, Int.shiftRight_eq_div_pow, Nat.reducePow, Int.cast_ofNat_Int]
  by_cases h1 : p > 127 <;> by_cases h2 : p < -128 <;>
    by_cases h3 : p / 2 > 127 <;> by_cases h4 : p / 2 < -128 <;>
    simp only [h1, h2, h3, h4, if_true, if_false] <;> omega

theorem word16_lt (v : Int) : word 16 v < 65536 := by
  simp only [word, Int.reducePow]; omega
theorem word8_lt (v : Int) : word 8 v < 256 := by
  simp only [word, Int.reducePow]; omega

/-- signed and unsigned renderings differ exactly in the top bit of the stored word -/
theorem word16_xor (amp : Nat) (x : Int) :
    word 16 (d16 amp 0x8000 x) = word 16 (d16 amp 0 x) ^^^ 0x8000 := by
  have a := word16_unsigned amp x
  have r := clip16_range (pre16 amp x)
  rw [d16_zero] at a ⊢
  have e := xor_top 15 (word 16 (clip16 (pre16 amp x))) (word16_lt _)
  simp only [Nat.reducePow, Nat.reduceAdd] at e
  rw [e]
  generalize word 16 (d16 amp 0x8000 x) = u at *
  generalize hs : clip16 (pre16 amp x) = s at *
  simp only [word, Int.reducePow]
  omega

theorem word8_xor (amp : Nat) (x : Int) :
    word 8 (d8 amp 0x80 x) = word 8 (d8 amp 0 x) ^^^ 0x80 := by
  have a := word8_unsigned amp x
  have r := clip8_range (pre8 amp x)
  rw [d8_zero] at a ⊢
  have e := xor_top 7 (word 8 (clip8 (pre8 amp x))) (word8_lt _)
  simp only [Nat.reducePow, Nat.reduceAdd] at e
  rw [e]
  generalize word 8 (d8 amp 0x80 x) = u at *
  generalize hs : clip8 (pre8 amp x) = s at *
  simp only [word, Int.reducePow]
  omega

/-- signed 8-bit word = high byte of the signed 16-bit word -/
theorem word8_high_byte_signed (amp : Nat) (h : amp ≤ downmixShift) (x : Int) :
    word 8 (d8 amp 0 x) = word 16 (d16 amp 0 x) / 256 := by
  rw [d8_high_byte amp h x]
  have r := clip16_range (pre16 amp x)
  rw [d16_zero]
  generalize clip16 (pre16 amp x) = s at *
  simp only [word, Int.reducePow, Int.shiftRight_eq_div_pow, Nat.reducePow, Int.cast_ofNat_Int]
  omega

/-! ### buffers -/

/-- the cap on the tick size leaves room for 4 bytes per frame (16-bit stereo) inside
`XMP_MAX_FRAMESIZE` bytes; both constants are regenerated from the C -/
theorem cap_fits : 0 < ticksizeCap ∧ ticksizeCap * 4 ≤ maxFramesize := by decide

theorem prepareTicksize_le (t : Int) : prepareTicksize t ≤ ticksizeCap := by
  unfold prepareTicksize
  split
  · exact Nat.le_refl _
  · rename_i h
    omega

theorem frameSamples_eq (f : Fmt) (ts : Nat) (h : ts ≤ ticksizeCap) :
    frameSamples f ts = if f.mono then ts else ts * 2 := by
  unfold frameSamples
  have hc := cap_fits.2
  generalize maxFramesize = M at *
  generalize ticksizeCap = C at *
  cases f.mono <;> simp only [Bool.false_eq_true, if_false, if_true] <;> split <;> omega

theorem frameSamples_le (f : Fmt) (ts : Nat) : frameSamples f ts ≤ maxFramesize := by
  unfold frameSamples
  cases f.mono <;> simp only [Bool.false_eq_true, if_false, if_true] <;> split <;> omega

theorem renderSamples_length (f : Fmt) (ts amp : Nat) (buf : List Int) (h : frameSamples f ts ≤ buf.length) :
    (renderSamples f ts amp buf).length = frameSamples f ts := by
  unfold renderSamples downmix8 downmix16
  split <;> simp only [List.length_map, List.length_take] <;> omega

theorem length_flatMap_const {α β : Type} (g : α → List β) (k : Nat) (hg : ∀ a, (g a).length = k) :
    ∀ l : List α, (l.flatMap g).length = l.length * k
  | [] => by simp
  | a :: l => by
    simp only [List.flatMap_cons, List.length_append, List.length_cons, hg a, length_flatMap_const g k hg l]
    rw [Nat.add_mul, Nat.one_mul, Nat.add_comm]

theorem renderBytes_length (f : Fmt) (ts amp : Nat) (buf : List Int) (h : frameSamples f ts ≤ buf.length) :
    (renderBytes f ts amp buf).length = frameSamples f ts * (if f.bits8 then 1 else 2) := by
  unfold renderBytes
  split
  · rw [length_flatMap_const byte8 1 (fun _ => rfl), renderSamples_length f ts amp buf h]
  · rw [length_flatMap_const le16 2 (fun _ => rfl), renderSamples_length f ts amp buf h]

/-! ### timeline: non-interference of the configuration -/

section
variable {K X Cfg Ctl : Type}

theorem run_kernel_indep (m : Machine K X Cfg Ctl) :
    ∀ (cs cs' : List (Cfg × Ctl)) (s s' : K × X),
      cs.map Prod.snd = cs'.map Prod.snd → s.1 = s'.1 →
      (m.run cs s).map Prod.fst = (m.run cs' s').map Prod.fst
  | [], [], _, _, _, _ => rfl
  | [], _ :: _, _, _, h, _ => by simp at h
  | _ :: _, [], _, _, h, _ => by simp at h
  | c :: cs, c' :: cs', s, s', h, hk => by
    simp only [List.map_cons, List.cons.injEq] at h
    have hstep : (m.step c s).1 = (m.step c' s').1 := by
      simp only [Machine.step, h.1, hk]
    simp only [Machine.run, List.map_cons, hstep]
    congr 1
    exact run_kernel_indep m cs cs' _ _ h.2 hstep

end

/-! ### facts over the generated tables -/

/-- the shift expressions recognised in the C agree with the model's (vacuous if not recognised) -/
theorem shifts_match_code :
    (∀ v, shift8Amp0 = some v → (shift8 0 : Int) = v) ∧ (∀ v, shift8Amp1 = some v → (shift8 1 : Int) = v) ∧
    (∀ v, shift16Amp0 = some v → (shift16 0 : Int) = v) ∧ (∀ v, shift16Amp1 = some v → (shift16 1 : Int) = v) := by
  decide

/-- the offsets passed at the call site agree with the model's `offsOf` -/
theorem offsets_match_code :
    (∀ v, offs8Unsigned = some v → offsOf ⟨true, true, false⟩ = v) ∧
    (∀ v, offs16Unsigned = some v → offsOf ⟨false, true, false⟩ = v) := by
  decide

/-- the guard of `libxmp_mixer_prepare` assigns the bound it tests (vacuous if not recognised) -/
theorem cap_assigned_is_guard :
    (∀ v, ticksizeCapGuard = some v → (ticksizeCap : Int) = v) ∧
    (∀ v, ticksizeCapAssigned = some v → (ticksizeCap : Int) = v) := by
  decide

/-- the amplification values the API lets through keep both shifts non-negative
(`x >> negative` would be undefined behaviour) -/
theorem amp_range_safe : ∀ v, ampMax = some v → v ≤ (downmixShift : Int) := by
  decide

/-- the format flags are three distinct single bits (so `Fmt.ofNat` decodes all 8 formats) -/
theorem fmt_bits_distinct :
    (List.range 8).map (fun n => Fmt.ofNat n) =
      [⟨false, false, false⟩, ⟨true, false, false⟩, ⟨false, true, false⟩, ⟨true, true, false⟩,
       ⟨false, false, true⟩, ⟨true, false, true⟩, ⟨false, true, true⟩, ⟨true, true, true⟩] := by
  decide

/-- the 8-bit limits are the high bytes of the 16-bit limits -/
theorem limits_consistent : lim8Hi = lim16Hi >>> 8 ∧ lim8Lo = lim16Lo >>> 8 ∧
    lim16Hi = 2 ^ 15 - 1 ∧ lim16Lo = -(2 ^ 15) := by
  decide

open Xmp.Gen.SeqWriters in
/-- files holding the sample mixers, the soft mixer and the filters -/
def mixerFile (f : String) : Bool := f ∈ ["mixer.c", "mix_all.c", "mix_paula.c", "filter.c"]

open Xmp.Gen.SeqWriters in
/-- **No statement that may write a sequencer-kernel field lies in a mixer file**, and none lies in a
function reachable from `libxmp_mixer_softmixer` (which includes what it calls in virtual.c / smix.c). -/
theorem seqWriters_outside_mixer :
    ∀ w ∈ writers, mixerFile w.file = false ∧ (w.file, w.func) ∉ softmixerReach := by
  decide

open Xmp.Gen.SeqWriters in
/-- the scan saw the mixer files and found writers elsewhere (the list is not trivially empty) -/
theorem seqWriters_scan_sane :
    "mixer.c" ∈ scannedFiles ∧ "player.c" ∈ scannedFiles ∧
    (writers.any fun w => w.file == "player.c" && w.func == "xmp_play_frame" && w.field == "p.frame") = true ∧
    (softmixerReach.any fun r => r.2 == "downmix_int_16bit") = true := by
  decide

/-! ### monotone, saturating, sign-preserving (every accumulator value, every amplification) -/

theorem shr_mono (x y : Int) (n : Nat) (h : x ≤ y) : x >>> n ≤ y >>> n := by
  rw [Int.shiftRight_eq_div_pow, Int.shiftRight_eq_div_pow]
  exact Int.ediv_le_ediv (Int.natCast_pos.mpr (Nat.two_pow_pos n)) h

theorem clip16_mono (v w : Int) (h : v ≤ w) : clip16 v ≤ clip16 w := by
  simp only [clip16, lim16Hi, lim16Lo]
  by_cases h1 : v > 32767 <;> by_cases h2 : v < -32768 <;> by_cases h3 : w > 32767 <;> by_cases h4 : w < -32768 <;>
    simp only [h1, h2, h3, h4, if_true, if_false] <;> omega

theorem clip8_mono (v w : Int) (h : v ≤ w) : clip8 v ≤ clip8 w := by
  simp only [clip8, lim8Hi, lim8Lo]
  by_cases h1 : v > 127 <;> by_cases h2 : v < -128 <;> by_cases h3 : w > 127 <;> by_cases h4 : w < -128 <;>
    simp only [h1, h2, h3, h4, if_true, if_false] <;> omega

theorem d16_mono (amp : Nat) (x y : Int) (h : x ≤ y) : d16 amp 0 x ≤ d16 amp 0 y := by
  rw [d16_zero, d16_zero]; exact clip16_mono _ _ (shr_mono x y _ h)

theorem d8_mono (amp : Nat) (x y : Int) (h : x ≤ y) : d8 amp 0 x ≤ d8 amp 0 y := by
  rw [d8_zero, d8_zero]; exact clip8_mono _ _ (shr_mono x y _ h)

/-- `x >> n` compared with a threshold: floor division -/
theorem shr_ge_iff (x : Int) (n : Nat) (t : Int) : t ≤ x >>> n ↔ t * 2 ^ n ≤ x := by
  have hd : (0 : Int) < ((2 ^ n : Nat) : Int) := Int.natCast_pos.mpr (Nat.two_pow_pos n)
  have e : ((2 ^ n : Nat) : Int) = (2 : Int) ^ n := by simp
  rw [Int.shiftRight_eq_div_pow, Int.le_ediv_iff_mul_le hd, e]

theorem shr_lt_iff (x : Int) (n : Nat) (t : Int) : x >>> n < t ↔ x < t * 2 ^ n := by
  have := shr_ge_iff x n t
  omega

theorem clip16_eq (v : Int) : clip16 v = max lim16Lo (min lim16Hi v) := by
  simp only [clip16, lim16Hi, lim16Lo]
  by_cases h1 : v > 32767 <;> by_cases h2 : v < -32768 <;> simp only [h1, h2, if_true, if_false] <;> omega

theorem clip8_eq (v : Int) : clip8 v = max lim8Lo (min lim8Hi v) := by
  simp only [clip8, lim8Hi, lim8Lo]
  by_cases h1 : v > 127 <;> by_cases h2 : v < -128 <;> simp only [h1, h2, if_true, if_false] <;> omega

theorem clip16_neg_iff (v : Int) : clip16 v < 0 ↔ v < 0 := by
  simp only [clip16, lim16Hi, lim16Lo]
  by_cases h1 : v > 32767 <;> by_cases h2 : v < -32768 <;> simp only [h1, h2, if_true, if_false] <;> omega

theorem clip8_neg_iff (v : Int) : clip8 v < 0 ↔ v < 0 := by
  simp only [clip8, lim8Hi, lim8Lo]
  by_cases h1 : v > 127 <;> by_cases h2 : v < -128 <;> simp only [h1, h2, if_true, if_false] <;> omega

theorem shr_neg_iff (x : Int) (n : Nat) : x >>> n < 0 ↔ x < 0 := by
  have := shr_lt_iff x n 0
  simpa using this

end Xmp.Downmix

/-! ### xmp_set_tempo_factor: the bound in the code is the cap of libxmp_mixer_prepare, a constant -/
namespace Xmp.C13Timeline
open Xmp.Gen.MixerConsts

/-- The translator recognised in `xmp_set_tempo_factor` the test `ticksize < 0 || ticksize > (CAP)` with a
*constant* `CAP` equal to the cap of `libxmp_mixer_prepare` (`XMP_MAX_FRAMESIZE / 4`), the scaling `val *= 10`,
and that the tested tick size is `libxmp_mixer_get_ticksize(s->freq, val, m->rrate, p->bpm)` in a function that
does not mention the output format.  (Fails to re-check when the code's bound becomes format dependent.) -/
theorem tempo_factor_shape :
    tempoFactorCap = some (ticksizeCap : Int) ∧ tempoFactorScale = some 10 ∧ tempoFactorArgs = some 1 := by decide

/-- The translator recognised that in `xmp_play_frame` the per-tick channel update runs for *every* virtual channel,
unconditionally (`for (i = 0; i < p->virt.virt_channels; i++) play_channel(ctx, i);`, no other call of `play_channel`),
and that the body of `xmp_play_frame` before `libxmp_mixer_softmixer` mentions none of the volume / output settings
(`master_vol`, `smix_vol`, `channel_mute`, `channel_vol`, `amplify`, `mix`, `interp`, `format`, `freq`, `dsp`, `numvoc`).
(Fails to re-check when a shortcut for inaudible channels makes the tick path depend on a volume setting.) -/
theorem tick_path_config_free : tickLoopUnconditional = some 1 ∧ playFrameConfigReads = some [] := by decide

theorem getTicksize_range (freq : Int) (tf rrate : D) (bpm : Int) :
    getTicksize freq tf rrate bpm = -1 ∨ 2 ^ anticlickShift ≤ getTicksize freq tf rrate bpm := by
  unfold getTicksize
  split
  · exact Or.inl rfl
  · simp only
    split
    · exact Or.inl rfl
    · split
      · exact Or.inr (Int.le_refl _)
      · exact Or.inr (by omega)

end Xmp.C13Timeline
