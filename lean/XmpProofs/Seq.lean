import XmpModel.Seq
/-! Helper lemmas for the sequencer-kernel invariants (C16). -/
namespace Xmp.Seq

def WF (m : SeqMod) : Prop := wfB m = true

theorem allBelow_spec {n : Nat} {f : Int → Bool} (h : allBelow n f = true) (i : Int) (h0 : 0 ≤ i)
    (h1 : i < n) : f i = true := by
  unfold allBelow at h
  rw [List.all_eq_true] at h
  have := h i.toNat (by rw [List.mem_range]; omega)
  have e : ((i.toNat : Nat) : Int) = i := by omega
  rwa [e] at this

structure WFacts (m : SeqMod) : Prop where
  len : 0 < m.len ∧ m.len ≤ 256
  pat : 0 ≤ m.pat
  rst : 0 ≤ m.rst ∧ m.rst < m.len
  numSeq : 1 ≤ m.numSeq
  xo : ∀ o, 0 ≤ o → o < 256 → 0 ≤ m.xo o ∧ m.xo o ≤ 255
  rows : ∀ p, 0 ≤ p → p < m.pat → 1 ≤ m.rowsOf p
  entry : ∀ s, 0 ≤ s → s < m.numSeq → 0 ≤ m.entryOf s ∧ m.entryOf s < m.len
  seqCtl : ∀ o, 0 ≤ o → o < m.len → geti m.seqCtl o = 0xff ∨ (0 ≤ geti m.seqCtl o ∧ geti m.seqCtl o < m.numSeq)
  info : ∀ o, 0 ≤ o → o < m.len → m.xo o < m.pat →
    1 ≤ geti m.oBpm o ∧ 0 ≤ geti m.oSpeed o ∧ geti m.oSpeed o ≤ 255 ∧ st26ok (geti m.oSt26 o) = true
  startSpeed : skipInvalid m 257 0 ≥ m.len ∨ 1 ≤ geti m.oSpeed (skipInvalid m 257 0)

theorem WF.facts {m : SeqMod} (h : WF m) : WFacts m := by
  unfold WF wfB wfSongB wfStartSpeedB at h
  simp only [Bool.and_eq_true, decide_eq_true_eq, Bool.or_eq_true] at h
  obtain ⟨⟨⟨⟨⟨⟨⟨⟨⟨⟨⟨⟨⟨⟨⟨⟨h1, h2⟩, h3⟩, _h4⟩, h5⟩, h5b⟩, _h6⟩, _h7⟩, _h8⟩, h9⟩, _h10⟩, hxo⟩, hrows⟩, hentry⟩, hsc⟩, hinfo⟩, hstart⟩ := h
  refine ⟨⟨h1, h2⟩, h3, ⟨h5, h5b⟩, h9, ?_, ?_, ?_, ?_, ?_, hstart⟩
  · intro o a b
    have := allBelow_spec hxo o a (by omega)
    simpa using this
  · intro p a b
    have := allBelow_spec hrows p a (by omega)
    simpa using this
  · intro s a b
    have := allBelow_spec hentry s a (by omega)
    simpa using this
  · intro o a b
    have := allBelow_spec hsc o a (by omega)
    simpa using this
  · intro o a b c
    have := allBelow_spec hinfo o a (by omega)
    simp only [Bool.or_eq_true, decide_eq_true_eq, Bool.and_eq_true] at this
    rcases this with h | h
    · omega
    · exact ⟨h.1.1.1, h.1.1.2, h.1.2, h.2⟩


/-! ## Invariants -/

/-- Range invariant that holds at every API boundary (after start, after every frame, after
every position-control call) — everything except the two clauses about `row < rows`. -/
structure Core (m : SeqMod) (s : St) : Prop where
  seq : 0 ≤ s.sequence ∧ s.sequence < m.numSeq
  ord : 0 ≤ s.ord ∧ s.ord < m.len
  ordPat : m.xo s.ord < m.pat
  pos : -2 ≤ s.pos ∧ s.pos < m.len
  row : 0 ≤ s.row
  speed : 1 ≤ s.speed ∧ s.speed ≤ 255
  bpm : 1 ≤ s.bpm
  ftBpm : 1 ≤ s.ftBpm
  st26 : st26ok s.st26 = true
  jump : -1 ≤ s.jump
  jumpline : 0 ≤ s.jumpline

/-- `f->num_rows` is the row count of the pattern being played. -/
def Fresh (m : SeqMod) (s : St) : Prop := s.numRows = m.rowsOf (m.xo s.ord)

/-- the row part of the invariant: the row is inside the current pattern and `f->num_rows` is
fresh (only `next_order` and `xmp_set_row` write it, together with `p->ord`) -/
structure RowInv (m : SeqMod) (s : St) : Prop where
  rowLt : s.row < m.rowsOf (m.xo s.ord)
  numOk : Fresh m s

/-- what holds after every successful frame, except `row < rows` -/
structure FInvCore (m : SeqMod) (s : St) : Prop where
  core : Core m s
  posOrd : s.pos = s.ord

/-- what the effect stages may write -/
structure EffOk (e : Eff) : Prop where
  jump : ∀ v, e.jump = some v → -1 ≤ v
  jumpline : ∀ v, e.jumpline = some v → 0 ≤ v
  speed : ∀ v, e.speed = some v → 1 ≤ v ∧ v ≤ 255
  bpm : ∀ v, e.bpm = some v → 1 ≤ v
  st26 : ∀ v, e.st26 = some v → st26ok v = true

theorem st26ok_spec {v : Int} (h : st26ok v = true) :
    v = 0 ∨ (0 < v ∧ v < 0x20000 ∧ v % 256 ≠ 0 ∧ (v / 256) % 256 ≠ 0) := by
  unfold st26ok at h
  simp only [Bool.or_eq_true, beq_iff_eq, Bool.and_eq_true, decide_eq_true_eq] at h
  rcases h with h | h
  · left; exact h
  · right; exact ⟨h.1.1.1, h.1.1.2, h.1.2, h.2⟩

theorem st26ok_of {v : Int} (h : v = 0 ∨ (0 < v ∧ v < 0x20000 ∧ v % 256 ≠ 0 ∧ (v / 256) % 256 ≠ 0)) :
    st26ok v = true := by
  unfold st26ok
  simp only [Bool.or_eq_true, beq_iff_eq, Bool.and_eq_true, decide_eq_true_eq]
  rcases h with h | h
  · left; exact h
  · right; exact ⟨⟨⟨h.1, h.2.1⟩, h.2.2.1⟩, h.2.2.2⟩

/-! ## next_order -/

theorem nextOrderLoop_spec {m : SeqMod} (w : WFacts m) {seq : Int} (hs0 : 0 ≤ seq) (hs1 : seq < m.numSeq) :
    ∀ (fuel : Nat) (ord : Int) (rg : Bool) (o : Int) (rg' : Bool), -1 ≤ ord →
      nextOrderLoop m seq fuel ord rg = some (o, rg') → 0 ≤ o ∧ o < m.len ∧ m.xo o < m.pat := by
  intro fuel
  induction fuel with
  | zero => intro ord rg o rg' _ h; simp [nextOrderLoop] at h
  | succ n ih =>
    intro ord rg o rg' hord h
    unfold nextOrderLoop at h
    simp only at h
    have he := w.entry seq hs0 hs1
    generalize hr : (if ord + 1 ≥ m.len ∨ (m.marker && decide (ord + 1 < m.len) && decide (m.xo (ord + 1) = 0xff)) = true then
        if m.rst > m.len ∨ m.xo m.rst ≥ m.pat ∨ ord + 1 < m.entryOf seq then (m.entryOf seq, true)
        else if geti m.seqCtl m.rst = seq then (m.rst, true) else (m.entryOf seq, true)
      else (ord + 1, rg)) = r at h
    have hr1 : 0 ≤ r.1 ∧ r.1 < m.len := by
      rw [← hr]
      split
      · split
        · exact he
        · split
          · exact w.rst
          · exact he
      · rename_i hc
        simp only [not_or] at hc
        constructor <;> simp only <;> omega
    split at h
    · exact ih r.1 r.2 o rg' (by omega) h
    · rename_i hp
      simp only [Option.some.injEq] at h
      subst h
      exact ⟨hr1.1, hr1.2, by simp only at hp; omega⟩


/-- the fields `next_order` leaves alone -/
def SameAux (s s' : St) : Prop :=
  s'.sequence = s.sequence ∧ s'.speed = s.speed ∧ s'.bpm = s.bpm ∧ s'.ftBpm = s.ftBpm ∧ s'.st26 = s.st26 ∧
  s'.jump = s.jump ∧ s'.loopCount = s.loopCount

theorem nextOrder_spec {m : SeqMod} (w : WFacts m) {s s' : St} (hs : 0 ≤ s.sequence ∧ s.sequence < m.numSeq)
    (hord : -1 ≤ s.ord) (hjl : 0 ≤ s.jumpline) (h : nextOrder m s = some s') :
    (0 ≤ s'.ord ∧ s'.ord < m.len) ∧ m.xo s'.ord < m.pat ∧ s'.pos = s'.ord ∧ Fresh m s' ∧
    (0 ≤ s'.row ∧ s'.row < s'.numRows) ∧ s'.jumpline = 0 ∧ s'.frame = 0 ∧ SameAux s s' := by
  unfold nextOrder at h
  split at h
  · simp at h
  · rename_i ord rg heq
    have sp := nextOrderLoop_spec w hs.1 hs.2 _ _ _ _ _ hord heq
    simp only [Option.some.injEq] at h
    subst h
    have hx := w.xo ord sp.1 (by have := w.len; omega)
    have hrows := w.rows (m.xo ord) hx.1 sp.2.2
    refine ⟨⟨sp.1, sp.2.1⟩, sp.2.2, rfl, rfl, ?_, rfl, rfl, ?_⟩
    · simp only
      split <;> omega
    · simp [SameAux]

theorem checkEnd_same (m : SeqMod) (s : St) :
    (checkEnd m s).ord = s.ord ∧ (checkEnd m s).pos = s.pos ∧ (checkEnd m s).row = s.row ∧
    (checkEnd m s).frame = s.frame ∧ (checkEnd m s).speed = s.speed ∧ (checkEnd m s).bpm = s.bpm ∧
    (checkEnd m s).st26 = s.st26 ∧ (checkEnd m s).sequence = s.sequence ∧ (checkEnd m s).jump = s.jump ∧
    (checkEnd m s).jumpline = s.jumpline ∧ (checkEnd m s).numRows = s.numRows ∧ (checkEnd m s).ftBpm = s.ftBpm ∧
    (checkEnd m s).pbreak = s.pbreak ∧ (checkEnd m s).delay = s.delay ∧ (checkEnd m s).loopDest = s.loopDest ∧
    (checkEnd m s).rowdelay = s.rowdelay ∧ (checkEnd m s).gvol = s.gvol ∧ s.loopCount ≤ (checkEnd m s).loopCount := by
  unfold checkEnd
  split
  · split <;> simp <;> omega
  · simp

/-- Playing state: no reposition pending. -/
structure Playing (m : SeqMod) (s : St) : Prop where
  core : Core m s
  posOrd : s.pos = s.ord

theorem core_of_nextOrder {m : SeqMod} (w : WFacts m) {s s' : St} (hs : 0 ≤ s.sequence ∧ s.sequence < m.numSeq)
    (hord : -1 ≤ s.ord) (hjl : 0 ≤ s.jumpline) (hsp : 1 ≤ s.speed ∧ s.speed ≤ 255) (hb : 1 ≤ s.bpm)
    (hf : 1 ≤ s.ftBpm) (h26 : st26ok s.st26 = true) (hj : -1 ≤ s.jump) (h : nextOrder m s = some s') :
    Playing m s' ∧ Fresh m s' ∧ s'.row < s'.numRows ∧ s'.loopCount = s.loopCount ∧ s'.frame = 0 := by
  have sp := nextOrder_spec w hs hord hjl h
  obtain ⟨ho, hp, hpo, hfr, hrow, hjl', hfm, a1, a2, a3, a4, a5, a6, a7⟩ := sp
  refine ⟨⟨⟨by omega, ho, hp, by omega, hrow.1, by omega, by omega, by omega, by rw [a5]; exact h26, by omega, by omega⟩, hpo⟩,
    hfr, hrow.2, a7, hfm⟩

/-- `next_row` from a playing state. -/
theorem nextRow_spec {m : SeqMod} (w : WFacts m) {s s' : St} (hp : Playing m s) (h : nextRow m s = some s') :
    Playing m s' ∧ s'.frame = 0 ∧ s'.loopCount = s.loopCount ∧
    (Fresh m s → Fresh m s' ∧ s'.row < s'.numRows) := by
  have c := hp.core
  unfold nextRow at h
  simp only at h
  split at h
  · -- pattern break
    split at h
    · rename_i hj
      have := core_of_nextOrder (s := { s with frame := 0, delay := 0, pbreak := 0, ord := s.jump - 1, jump := -1 }) w c.seq
        (by simp only; have := c.jump; omega) c.jumpline c.speed c.bpm c.ftBpm c.st26 (by simp) h
      exact ⟨this.1, this.2.2.2.2, this.2.2.2.1, fun _ => ⟨this.2.1, this.2.2.1⟩⟩
    · have := core_of_nextOrder (s := { s with frame := 0, delay := 0, pbreak := 0 }) w c.seq
        (by simp only; have := c.ord; omega) c.jumpline c.speed c.bpm c.ftBpm c.st26 c.jump h
      exact ⟨this.1, this.2.2.2.2, this.2.2.2.1, fun _ => ⟨this.2.1, this.2.2.1⟩⟩
  · -- plain row advance
    generalize hs1 : (if s.rowdelay = 0 then { s with frame := 0, delay := 0, row := s.row + 1 }
        else { s with frame := 0, delay := 0, rowdelay := s.rowdelay - 1 } : St) = s1 at h
    have e1 : s1.ord = s.ord ∧ s1.pos = s.pos ∧ s1.sequence = s.sequence ∧ s1.speed = s.speed ∧ s1.bpm = s.bpm ∧
        s1.ftBpm = s.ftBpm ∧ s1.st26 = s.st26 ∧ s1.jump = s.jump ∧ s1.jumpline = s.jumpline ∧ s1.numRows = s.numRows ∧
        s1.loopCount = s.loopCount ∧ s1.frame = 0 ∧ 0 ≤ s1.row := by
      rw [← hs1]; split <;> simp <;> have := c.row <;> omega
    generalize hs2 : (if s1.loopDest ≥ 0 then { s1 with row := s1.loopDest, loopDest := -1 } else s1 : St) = s2 at h
    have e2 : s2.ord = s.ord ∧ s2.pos = s.pos ∧ s2.sequence = s.sequence ∧ s2.speed = s.speed ∧ s2.bpm = s.bpm ∧
        s2.ftBpm = s.ftBpm ∧ s2.st26 = s.st26 ∧ s2.jump = s.jump ∧ s2.jumpline = s.jumpline ∧ s2.numRows = s.numRows ∧
        s2.loopCount = s.loopCount ∧ s2.frame = 0 ∧ 0 ≤ s2.row := by
      rw [← hs2]
      split
      · rename_i hl
        simp only
        refine ⟨e1.1, e1.2.1, e1.2.2.1, e1.2.2.2.1, e1.2.2.2.2.1, e1.2.2.2.2.2.1, e1.2.2.2.2.2.2.1, e1.2.2.2.2.2.2.2.1,
          e1.2.2.2.2.2.2.2.2.1, e1.2.2.2.2.2.2.2.2.2.1, e1.2.2.2.2.2.2.2.2.2.2.1, e1.2.2.2.2.2.2.2.2.2.2.2.1, by omega⟩
      · exact e1
    obtain ⟨o1, o2, o3, o4, o5, o6, o7, o8, o9, o10, o11, o12, o13⟩ := e2
    split at h
    · have := core_of_nextOrder (s := s2) w (by rw [o3]; exact c.seq) (by rw [o1]; have := c.ord; omega)
        (by rw [o9]; exact c.jumpline) (by rw [o4]; exact c.speed) (by rw [o5]; exact c.bpm) (by rw [o6]; exact c.ftBpm)
        (by rw [o7]; exact c.st26) (by rw [o8]; exact c.jump) h
      exact ⟨this.1, this.2.2.2.2, by rw [this.2.2.2.1, o11], fun _ => ⟨this.2.1, this.2.2.1⟩⟩
    · rename_i hlt
      simp only [Option.some.injEq] at h
      subst h
      refine ⟨⟨⟨by rw [o3]; exact c.seq, by rw [o1]; exact c.ord, by rw [o1]; exact c.ordPat, by rw [o2]; exact c.pos, o13,
        by rw [o4]; exact c.speed, by rw [o5]; exact c.bpm, by rw [o6]; exact c.ftBpm, by rw [o7]; exact c.st26,
        by rw [o8]; exact c.jump, by rw [o9]; exact c.jumpline⟩, by rw [o1, o2]; exact hp.posOrd⟩, o12, o11, ?_⟩
      intro hf
      unfold Fresh at hf ⊢
      rw [o1, o10]
      exact ⟨hf, by omega⟩


theorem playing_checkEnd {m : SeqMod} {s : St} (hp : Playing m s) : Playing m (checkEnd m s) := by
  obtain ⟨e1, e2, e3, e4, e5, e6, e7, e8, e9, e10, e11, e12, _⟩ := checkEnd_same m s
  have c := hp.core
  exact ⟨⟨by rw [e8]; exact c.seq, by rw [e1]; exact c.ord, by rw [e1]; exact c.ordPat, by rw [e2]; exact c.pos,
    by rw [e3]; exact c.row, by rw [e5]; exact c.speed, by rw [e6]; exact c.bpm, by rw [e12]; exact c.ftBpm,
    by rw [e7]; exact c.st26, by rw [e9]; exact c.jump, by rw [e10]; exact c.jumpline⟩, by rw [e1, e2]; exact hp.posOrd⟩

theorem fresh_checkEnd {m : SeqMod} {s : St} (h : Fresh m s ∧ s.row < s.numRows) :
    Fresh m (checkEnd m s) ∧ (checkEnd m s).row < (checkEnd m s).numRows := by
  obtain ⟨e1, _, e3, _, _, _, _, _, _, _, e11, _⟩ := checkEnd_same m s
  unfold Fresh at *
  rw [e1, e3, e11]; exact h

theorem updateFromOrdInfo_spec {m : SeqMod} (w : WFacts m) {s : St} (hp : Playing m s) :
    Playing m (updateFromOrdInfo m s) ∧ (updateFromOrdInfo m s).numRows = s.numRows ∧
    (updateFromOrdInfo m s).row = s.row ∧ (updateFromOrdInfo m s).ord = s.ord ∧
    (updateFromOrdInfo m s).loopCount = s.loopCount ∧ (updateFromOrdInfo m s).frame = s.frame := by
  have c := hp.core
  have i := w.info s.ord c.ord.1 c.ord.2 c.ordPat
  refine ⟨⟨⟨c.seq, c.ord, c.ordPat, c.pos, c.row, ?_, i.1, i.1, i.2.2.2, c.jump, c.jumpline⟩, hp.posOrd⟩, rfl, rfl, rfl, rfl, rfl⟩
  simp only [updateFromOrdInfo]
  split
  · omega
  · exact c.speed

theorem kernelPre_spec {m : SeqMod} (w : WFacts m) {s s' : St} (hc : Core m s) (h : kernelPre m s = .ok s') :
    Playing m s' ∧ s.loopCount ≤ s'.loopCount ∧ (RowInv m s → Fresh m s' ∧ s'.row < s'.numRows) := by
  unfold kernelPre at h
  split at h
  · simp at h
  split at h
  · simp at h
  split at h
  · -- reposition
    split at h
    · simp at h
    split at h
    · simp at h
    · rename_i s2 heq
      simp only [Res.ok.injEq] at h
      subst h
      have he := w.entry s.sequence hc.seq.1 hc.seq.2
      have := core_of_nextOrder w (s := reposPrep m s) hc.seq (by simp only [reposPrep]; split <;> omega) (by simp [reposPrep])
        hc.speed hc.bpm hc.ftBpm hc.st26 (by simp [reposPrep]) heq
      obtain ⟨p2, f2, r2, l2, _⟩ := this
      obtain ⟨p3, n3, r3, o3, l3, _⟩ := updateFromOrdInfo_spec w p2
      refine ⟨p3, by rw [l3, l2]; simp [reposPrep], fun _ => ?_⟩
      unfold Fresh at *
      rw [n3, r3, o3]; exact ⟨f2, r2⟩
  · -- tick / row advance
    rename_i hpo
    have hpo : s.pos = s.ord := by omega
    have hp1 : Playing m { s with frame := s.frame + 1 } :=
      ⟨⟨hc.seq, hc.ord, hc.ordPat, hc.pos, hc.row, hc.speed, hc.bpm, hc.ftBpm, hc.st26, hc.jump, hc.jumpline⟩, hpo⟩
    simp only at h
    split at h
    · split at h
      · split at h
        · simp at h
        · rename_i s2 heq
          split at h
          · simp at h
          · rename_i s3 heq3
            simp only [Res.ok.injEq] at h
            subst h
            obtain ⟨p2, _, l2, fr2⟩ := nextRow_spec w hp1 heq
            obtain ⟨p3, _, l3, fr3⟩ := nextRow_spec w (playing_checkEnd p2) heq3
            have hl := (checkEnd_same m s2).2.2.2.2.2.2.2.2.2.2.2.2.2.2.2.2.2
            refine ⟨p3, by rw [l3]; simp only at l2; omega, fun ri => ?_⟩
            have f2 := fr2 ri.numOk
            exact fr3 (fresh_checkEnd f2).1
      · split at h
        · simp at h
        · rename_i s2 heq
          simp only [Res.ok.injEq] at h
          subst h
          obtain ⟨p2, _, l2, fr2⟩ := nextRow_spec w hp1 heq
          exact ⟨p2, by rw [l2]; simp, fun ri => fr2 ri.numOk⟩
    · simp only [Res.ok.injEq] at h
      subst h
      refine ⟨hp1, by simp, fun ri => ?_⟩
      have := ri.numOk
      unfold Fresh at *
      exact ⟨this, by simp only; rw [this]; exact ri.rowLt⟩


theorem kernelStep_spec {m : SeqMod} (w : WFacts m) {s s' : St} (hc : Core m s) (h : kernelStep m s = .ok s') :
    Playing m s' ∧ s.loopCount ≤ s'.loopCount ∧ (RowInv m s → Fresh m s' ∧ s'.row < s'.numRows) := by
  unfold kernelStep at h
  split at h
  · rename_i s1 heq
    obtain ⟨p1, l1, f1⟩ := kernelPre_spec w hc heq
    simp only [Res.ok.injEq] at h
    subst h
    split
    · have hl := (checkEnd_same m s1).2.2.2.2.2.2.2.2.2.2.2.2.2.2.2.2.2
      exact ⟨playing_checkEnd p1, by omega, fun ri => fresh_checkEnd (f1 ri)⟩
    · exact ⟨p1, l1, f1⟩
  · rename_i hne
    exact absurd h (hne s')

/-- kernel-owned fields agree -/
def KSame (s s' : St) : Prop :=
  s'.ord = s.ord ∧ s'.pos = s.pos ∧ s'.row = s.row ∧ s'.numRows = s.numRows ∧ s'.loopCount = s.loopCount ∧
  s'.sequence = s.sequence

theorem playing_of_same {m : SeqMod} {s s' : St} (hp : Playing m s) (k : KSame s s')
    (h1 : 1 ≤ s'.speed ∧ s'.speed ≤ 255) (h2 : 1 ≤ s'.bpm) (h3 : 1 ≤ s'.ftBpm) (h4 : st26ok s'.st26 = true)
    (h5 : -1 ≤ s'.jump) (h6 : 0 ≤ s'.jumpline) : Playing m s' := by
  obtain ⟨k1, k2, k3, _, _, k6⟩ := k
  have c := hp.core
  exact ⟨⟨by rw [k6]; exact c.seq, by rw [k1]; exact c.ord, by rw [k1]; exact c.ordPat, by rw [k2]; exact c.pos,
    by rw [k3]; exact c.row, h1, h2, h3, h4, h5, h6⟩, by rw [k1, k2]; exact hp.posOrd⟩

theorem applyEff_spec {m : SeqMod} {s : St} {e : Eff} (hp : Playing m s) (he : EffOk e) :
    Playing m (applyEff s e) ∧ KSame s (applyEff s e) ∧ (applyEff s e).frame = s.frame := by
  have c := hp.core
  refine ⟨playing_of_same hp ⟨rfl, rfl, rfl, rfl, rfl, rfl⟩ ?_ ?_ c.ftBpm ?_ ?_ ?_, ⟨rfl, rfl, rfl, rfl, rfl, rfl⟩, rfl⟩
  · simp only [applyEff]
    cases hsp : e.speed with
    | none => exact c.speed
    | some v => exact he.speed v hsp
  · simp only [applyEff]
    cases hsp : e.bpm with
    | none => exact c.bpm
    | some v => exact he.bpm v hsp
  · simp only [applyEff]
    cases hsp : e.st26 with
    | none => exact c.st26
    | some v => exact he.st26 v hsp
  · simp only [applyEff]
    cases hsp : e.jump with
    | none => exact c.jump
    | some v => exact he.jump v hsp
  · simp only [applyEff]
    cases hsp : e.jumpline with
    | none => exact c.jumpline
    | some v => exact he.jumpline v hsp

theorem st26Step_spec {m : SeqMod} {s : St} (hp : Playing m s) :
    Playing m (st26Step s) ∧ KSame s (st26Step s) := by
  have c := hp.core
  unfold st26Step
  split
  · rename_i hne
    have h := st26ok_spec c.st26
    rcases h with h | ⟨h1, h2, h3, h4⟩
    · exact absurd h hne
    · refine ⟨playing_of_same hp ⟨rfl, rfl, rfl, rfl, rfl, rfl⟩ ?_ c.bpm c.ftBpm ?_ c.jump c.jumpline, ⟨rfl, rfl, rfl, rfl, rfl, rfl⟩⟩
      · simp only
        split <;> omega
      · apply st26ok_of
        right
        simp only
        split <;> omega
  · exact ⟨hp, ⟨rfl, rfl, rfl, rfl, rfl, rfl⟩⟩

/-- **Frame invariant** (all clauses except `row < rows`, which is `playFrame_row`). -/
theorem playFrame_core {m : SeqMod} (w : WFacts m) {s s' : St} {eA eB : Eff} (hc : Core m s) (ha : EffOk eA)
    (hb : EffOk eB) (h : playFrame m s eA eB = .ok s') :
    Playing m s' ∧ s'.ftBpm = s'.bpm ∧ s.loopCount ≤ s'.loopCount ∧
    (RowInv m s → Fresh m s' ∧ s'.row < s'.numRows) := by
  unfold playFrame at h
  split at h
  · rename_i s1 heq
    obtain ⟨p1, l1, f1⟩ := kernelStep_spec w hc heq
    simp only [Res.ok.injEq] at h
    generalize hs2 : (if s1.frame = 0 then st26Step (applyEff s1 eA) else s1) = s2 at h
    have p2 : Playing m s2 ∧ KSame s1 s2 := by
      rw [← hs2]
      split
      · obtain ⟨pa, ka, _⟩ := applyEff_spec p1 ha
        obtain ⟨pb, kb⟩ := st26Step_spec pa
        refine ⟨pb, ?_⟩
        unfold KSame at *
        omega
      · exact ⟨p1, ⟨rfl, rfl, rfl, rfl, rfl, rfl⟩⟩
    obtain ⟨p3, k3, _⟩ := applyEff_spec p2.1 hb
    have k13 : KSame s1 (applyEff s2 eB) := by
      have := p2.2
      unfold KSame at *
      omega
    subst h
    have c3 := p3.core
    refine ⟨playing_of_same p3 ⟨rfl, rfl, rfl, rfl, rfl, rfl⟩ c3.speed c3.bpm c3.bpm c3.st26 c3.jump c3.jumpline, rfl, ?_, ?_⟩
    · have := k13.2.2.2.2.1
      simp only
      omega
    · intro ri
      have := f1 ri
      obtain ⟨k1, _, k3', k4, _, _⟩ := k13
      unfold Fresh at *
      simp only
      rw [k1, k3', k4]; exact this
  · rename_i hne
    exact absurd h (hne s')

/-! ## start-up and position control -/

theorem skipInvalid_spec (m : SeqMod) : ∀ (fuel : Nat) (o : Int), 0 ≤ o → (m.len - o).toNat < fuel →
    0 ≤ skipInvalid m fuel o ∧ (skipInvalid m fuel o < m.len → m.xo (skipInvalid m fuel o) < m.pat) := by
  intro fuel
  induction fuel with
  | zero => intro o _ h; omega
  | succ n ih =>
    intro o ho hf
    unfold skipInvalid
    split
    · rename_i hc
      exact ih (o + 1) (by omega) (by omega)
    · rename_i hc
      exact ⟨ho, fun hl => by omega⟩

theorem skipMarker_nonneg (m : SeqMod) (start dir : Int) (hs : 0 ≤ start) : ∀ (fuel : Nat) (pos : Int), 0 ≤ pos →
    0 ≤ skipMarker m start dir fuel pos := by
  intro fuel
  induction fuel with
  | zero => intro pos h; simpa [skipMarker] using h
  | succ n ih =>
    intro pos hp
    unfold skipMarker
    split
    · split
      · split
        · exact ih _ (by omega)
        · exact hp
      · split
        · omega
        · exact ih _ (by omega)
    · exact hp

theorem skipNoPat_nonneg (m : SeqMod) : ∀ (fuel : Nat) (pos : Int), 0 ≤ pos → 0 ≤ skipNoPat m fuel pos := by
  intro fuel
  induction fuel with
  | zero => intro pos h; simpa [skipNoPat] using h
  | succ n ih =>
    intro pos hp
    unfold skipNoPat
    split
    · exact ih _ (by omega)
    · exact hp

/-- fields that `set_position` never writes -/
def CSame (s s' : St) : Prop :=
  s'.ord = s.ord ∧ s'.row = s.row ∧ s'.speed = s.speed ∧ s'.bpm = s.bpm ∧ s'.ftBpm = s.ftBpm ∧ s'.st26 = s.st26 ∧
  s'.loopCount = s.loopCount ∧ s'.frame = s.frame

theorem spBlock_spec {m : SeqMod} {s1 s2 : St} {seq pos' : Int} (h : spBlock m s1 seq pos' = some s2) :
    CSame s1 s2 ∧ s2.sequence = s1.sequence ∧ s2.pos = s1.pos ∧ s2.jump = s1.jump ∧
    (s2.jumpline = s1.jumpline ∨ s2.jumpline = 0) ∧ s2.numRows = s1.numRows := by
  unfold spBlock at h
  simp only at h
  generalize (if pos' < m.len then m.xo pos' else 0xff) = patv at h ⊢
  by_cases h1 : patv < m.pat
  · simp only [h1, if_true] at h
    by_cases h2 : m.marker = true ∧ patv = 0xff
    · simp [h2] at h
    · simp only [h2, if_false] at h
      by_cases h3 : pos' > geti m.scanOrd seq
      · simp only [h3, if_true, Option.some.injEq] at h; subst h
        exact ⟨⟨rfl, rfl, rfl, rfl, rfl, rfl, rfl, rfl⟩, rfl, rfl, rfl, Or.inl rfl, rfl⟩
      · simp only [h3, if_false, Option.some.injEq] at h; subst h
        exact ⟨⟨rfl, rfl, rfl, rfl, rfl, rfl, rfl, rfl⟩, rfl, rfl, rfl, Or.inr rfl, rfl⟩
  · simp only [h1, if_false, Option.some.injEq] at h; subst h
    exact ⟨⟨rfl, rfl, rfl, rfl, rfl, rfl, rfl, rfl⟩, rfl, rfl, rfl, Or.inl rfl, rfl⟩

theorem spCommit_spec (m : SeqMod) (s2 : St) (pos' : Int) :
    CSame s2 (spCommit m s2 pos') ∧ (spCommit m s2 pos').sequence = s2.sequence ∧
    (spCommit m s2 pos').numRows = s2.numRows ∧
    ((pos' < m.len ∧ (spCommit m s2 pos').pos = (if pos' = 0 then -1 else pos') ∧ (spCommit m s2 pos').jump = -1 ∧
        (spCommit m s2 pos').jumpline = 0) ∨
     (¬ pos' < m.len ∧ spCommit m s2 pos' = s2)) := by
  by_cases h : pos' < m.len
  · have e : spCommit m s2 pos' = resetFlow { s2 with pos := if pos' = 0 then -1 else pos' } := by
      unfold spCommit; rw [if_pos h]
    rw [e]
    exact ⟨⟨rfl, rfl, rfl, rfl, rfl, rfl, rfl, rfl⟩, rfl, rfl, Or.inl ⟨h, rfl, rfl, rfl⟩⟩
  · have e : spCommit m s2 pos' = s2 := by
      unfold spCommit; rw [if_neg h]
    rw [e]
    exact ⟨⟨rfl, rfl, rfl, rfl, rfl, rfl, rfl, rfl⟩, rfl, rfl, Or.inr ⟨h, rfl⟩⟩

theorem core_of_csame {m : SeqMod} {s s' : St} (hc : Core m s) (k : CSame s s')
    (h1 : 0 ≤ s'.sequence ∧ s'.sequence < m.numSeq) (h2 : -2 ≤ s'.pos ∧ s'.pos < m.len) (h3 : -1 ≤ s'.jump)
    (h4 : 0 ≤ s'.jumpline) : Core m s' := by
  obtain ⟨k1, k2, k3, k4, k5, k6, _, _⟩ := k
  exact ⟨h1, by rw [k1]; exact hc.ord, by rw [k1]; exact hc.ordPat, h2, by rw [k2]; exact hc.row, by rw [k3]; exact hc.speed,
    by rw [k4]; exact hc.bpm, by rw [k5]; exact hc.ftBpm, by rw [k6]; exact hc.st26, h3, h4⟩

theorem csame_trans {a b c : St} (h1 : CSame a b) (h2 : CSame b c) : CSame a c := by
  unfold CSame at *; omega

theorem spTarget_spec (m : SeqMod) (seq pos dir : Int) (hs : 0 ≤ m.entryOf seq) (hp : 0 ≤ pos) :
    0 ≤ spTarget m seq pos dir := by
  unfold spTarget
  simp only
  have h1 := skipMarker_nonneg m (m.entryOf seq) dir hs 258 pos hp
  split
  · exact skipNoPat_nonneg m 258 _ h1
  · exact h1

theorem spMove_spec {m : SeqMod} {s1 : St} (hc1 : Core m s1) (seq pos' dir : Int) (_hseq : s1.sequence = seq)
    (hp'ge : 0 ≤ pos') (r : St) (hr : spMove m s1 seq pos' dir = r) :
    Core m r ∧ CSame s1 r ∧ r.numRows = s1.numRows := by
  unfold spMove at hr
  simp only at hr
  by_cases hrel : dir ≠ 0 ∧ (pos' ≥ m.len ∨ (m.marker = true ∧ (if pos' < m.len then m.xo pos' else 0xff) = 0xff) ∨
      geti m.seqCtl pos' ≠ seq)
  · rw [if_pos hrel] at hr; subst hr
    exact ⟨hc1, ⟨rfl, rfl, rfl, rfl, rfl, rfl, rfl, rfl⟩, rfl⟩
  rw [if_neg hrel] at hr
  generalize hs1b : ({ s1 with endPoint := if pos' > geti m.scanOrd seq then 0 else geti m.scanNum seq } : St) = s1b at hr
  have e1b : CSame s1 s1b ∧ s1b.sequence = s1.sequence ∧ s1b.pos = s1.pos ∧ s1b.jump = s1.jump ∧
      s1b.jumpline = s1.jumpline ∧ s1b.numRows = s1.numRows := by
    subst hs1b; exact ⟨⟨rfl, rfl, rfl, rfl, rfl, rfl, rfl, rfl⟩, rfl, rfl, rfl, rfl, rfl⟩
  obtain ⟨d1, d2, d3, d4, d5, d6⟩ := e1b
  have hc1b : Core m s1b := core_of_csame hc1 d1 (by rw [d2]; exact hc1.seq) (by rw [d3]; exact hc1.pos)
    (by rw [d4]; exact hc1.jump) (by rw [d5]; exact hc1.jumpline)
  split at hr
  · subst hr
    exact ⟨hc1b, d1, d6⟩
  · rename_i s2 hb
    obtain ⟨b1, b2, b3, b4, b5, b6⟩ := spBlock_spec hb
    obtain ⟨c1, c2, c3, c4⟩ := spCommit_spec m s2 pos'
    rw [hr] at c1 c2 c3 c4
    have k : CSame s1 r := csame_trans d1 (csame_trans b1 c1)
    refine ⟨?_, k, by rw [c3, b6, d6]⟩
    apply core_of_csame hc1 k
    · rw [c2, b2, d2]; exact hc1.seq
    · rcases c4 with ⟨hl, hp, _, _⟩ | ⟨_, he⟩
      · rw [hp]; split <;> omega
      · rw [he, b3, d3]; exact hc1.pos
    · rcases c4 with ⟨_, _, hj, _⟩ | ⟨_, he⟩
      · omega
      · rw [he, b4, d4]; exact hc1.jump
    · rcases c4 with ⟨_, _, _, hj⟩ | ⟨_, he⟩
      · omega
      · rw [he]; have := hc1.jumpline; omega

/-- `set_position` keeps the range invariant; it never writes ord/row/loop counter/num_rows. -/
theorem setPosition_spec {m : SeqMod} (w : WFacts m) {s : St} (hc : Core m s) (pos dir : Int) (hpos : -1 ≤ pos)
    (hd : dir = 0 → 0 ≤ pos ∧ pos < m.len) (r : St) (hr : setPosition m s pos dir = r) :
    Core m r ∧ CSame s r ∧ r.numRows = s.numRows := by
  unfold setPosition at hr
  simp only at hr
  generalize hq : (if dir = 0 then geti m.seqCtl pos else s.sequence) = q at hr
  by_cases hff : q = 0xff
  · rw [if_pos hff] at hr; subst hr
    exact ⟨hc, ⟨rfl, rfl, rfl, rfl, rfl, rfl, rfl, rfl⟩, rfl⟩
  rw [if_neg hff] at hr
  by_cases hneg : q < 0
  · rw [if_pos hneg] at hr; subst hr
    exact ⟨hc, ⟨rfl, rfl, rfl, rfl, rfl, rfl, rfl, rfl⟩, rfl⟩
  rw [if_neg hneg] at hr
  have hq2 : q < m.numSeq := by
    rw [← hq]; rw [← hq] at hff hneg
    split
    · rename_i h0
      have := w.seqCtl pos (hd h0).1 (hd h0).2
      simp only [h0, if_true] at hff hneg
      omega
    · exact hc.seq.2
  have hst := w.entry q (by omega) hq2
  generalize hs1 : ({ s with sequence := q } : St) = s1 at hr
  have e1 : CSame s s1 ∧ s1.sequence = q ∧ s1.pos = s.pos ∧ s1.jump = s.jump ∧ s1.jumpline = s.jumpline ∧
      s1.numRows = s.numRows := by
    subst hs1; exact ⟨⟨rfl, rfl, rfl, rfl, rfl, rfl, rfl, rfl⟩, rfl, rfl, rfl, rfl, rfl⟩
  obtain ⟨a1, a2, a3, a4, a5, a6⟩ := e1
  have hc1 : Core m s1 := core_of_csame hc a1 (by rw [a2]; exact ⟨by omega, hq2⟩) (by rw [a3]; exact hc.pos)
    (by rw [a4]; exact hc.jump) (by rw [a5]; exact hc.jumpline)
  by_cases hin : 0 ≤ pos ∧ pos < m.len
  · rw [if_pos hin] at hr
    have t1 := spTarget_spec m q pos dir hst.1 hin.1
    obtain ⟨r1, r2, r3⟩ := spMove_spec hc1 q (spTarget m q pos dir) dir a2 t1 r hr
    exact ⟨r1, csame_trans a1 r2, by rw [r3, a6]⟩
  · rw [if_neg hin] at hr
    obtain ⟨c1, c2, c3, c4⟩ := spCommit_spec m s1 pos
    rw [hr] at c1 c2 c3 c4
    have k : CSame s r := csame_trans a1 c1
    refine ⟨?_, k, by rw [c3, a6]⟩
    apply core_of_csame hc k
    · rw [c2, a2]; exact ⟨by omega, hq2⟩
    · rcases c4 with ⟨hl, hp, _, _⟩ | ⟨_, he⟩
      · rw [hp]; split <;> omega
      · rw [he, a3]; exact hc.pos
    · rcases c4 with ⟨_, _, hj, _⟩ | ⟨_, he⟩
      · omega
      · rw [he, a4]; exact hc.jump
    · rcases c4 with ⟨_, _, _, hj⟩ | ⟨_, he⟩
      · omega
      · rw [he, a5]; exact hc.jumpline

theorem start_spec {m : SeqMod} (w : WFacts m) {speed0 : Int} {s : St} (h : start m speed0 = some s) :
    Core m s ∧ RowInv m s ∧ s.loopCount = 0 := by
  unfold start at h
  simp only at h
  split at h
  · simp at h
  · rename_i hlt
    simp only [Option.some.injEq] at h
    subst h
    have sk := skipInvalid_spec m 257 0 (by omega) (by have := w.len; omega)
    have hss := w.startSpeed
    generalize skipInvalid m 257 0 = o at *
    have ho : 0 ≤ o ∧ o < m.len := ⟨sk.1, by omega⟩
    have hp := sk.2 ho.2
    have i := w.info o ho.1 ho.2 hp
    have hx := w.xo o ho.1 (by have := w.len; omega)
    have hrows := w.rows (m.xo o) hx.1 hp
    have hsp : 1 ≤ geti m.oSpeed o := by
      rcases hss with h | h
      · omega
      · exact h
    refine ⟨⟨?_, ho, hp, ?_, ?_, ?_, i.1, i.1, i.2.2.2, ?_, ?_⟩, ⟨?_, ?_⟩, rfl⟩
    · simp only [resetFlow, updateFromOrdInfo]; have := w.numSeq; omega
    · simp only [resetFlow, updateFromOrdInfo]; have := w.len; omega
    · simp [resetFlow, updateFromOrdInfo]
    · simp only [resetFlow, updateFromOrdInfo]
      split <;> omega
    · simp [resetFlow]
    · simp [resetFlow]
    · simp only [resetFlow, updateFromOrdInfo]; omega
    · rfl

theorem seekLoop_nonneg (m : SeqMod) (s : St) (t : Int) : ∀ (n : Nat) (i : Int), seekLoop m s t n = some i → 0 ≤ i := by
  intro n
  induction n with
  | zero => intro i h; simp [seekLoop] at h
  | succ k ih =>
    intro i h
    unfold seekLoop at h
    simp only at h
    split at h
    · exact ih i h
    · split at h
      · exact ih i h
      · split at h
        · simp only [Option.some.injEq] at h; omega
        · exact ih i h

/-- every position-control call (any argument, accepted or refused) keeps both invariants -/
theorem ctl_spec {m : SeqMod} (w : WFacts m) {s : St} (hc : Core m s) (c : Ctl) :
    Core m (ctl m s c) ∧ (RowInv m s → RowInv m (ctl m s c)) := by
  have sp : ∀ pos dir, -1 ≤ pos → (dir = 0 → 0 ≤ pos ∧ pos < m.len) →
      Core m (setPosition m s pos dir) ∧ (RowInv m s → RowInv m (setPosition m s pos dir)) := by
    intro pos dir h1 h2
    obtain ⟨a, b, c⟩ := setPosition_spec w hc pos dir h1 h2 _ rfl
    refine ⟨a, fun ri => ⟨?_, ?_⟩⟩
    · rw [b.1, b.2.1]; exact ri.rowLt
    · have := ri.numOk; unfold Fresh at *; rw [c, b.1]; exact this
  have he := w.entry s.sequence hc.seq.1 hc.seq.2
  cases c with
  | setPos p =>
    simp only [ctl, apiSetPosition]
    split
    · exact ⟨hc, fun r => r⟩
    · exact sp p 0 (by omega) (fun _ => by omega)
  | next =>
    simp only [ctl, nextPosition]
    split
    · exact sp (s.pos + 1) 1 (by have := hc.pos; omega) (fun h => by omega)
    · exact ⟨hc, fun r => r⟩
  | prev =>
    simp only [ctl, prevPosition]
    split
    · exact sp (-1) (-1) (by omega) (fun h => by omega)
    · split
      · exact sp (s.pos - 1) (-1) (by omega) (fun h => by omega)
      · exact ⟨hc, fun r => r⟩
  | setRow r =>
    have hp := hc.pos
    have hl := w.len
    have e : (if s.pos < 0 ∨ s.pos ≥ m.len then 0 else s.pos) = (if s.pos < 0 then 0 else s.pos) := by
      split <;> split <;> omega
    simp only [ctl, apiSetRow, e]
    generalize hp1 : (if s.pos < 0 then 0 else s.pos) = p1
    have hp1r : 0 ≤ p1 ∧ p1 < m.len := by rw [← hp1]; split <;> omega
    by_cases hg : m.xo p1 ≥ m.pat ∨ r < 0 ∨ r ≥ m.rowsOf (m.xo p1)
    · rw [if_pos hg]
      exact ⟨hc, fun r => r⟩
    · rw [if_neg hg]
      simp only [not_or, Int.not_lt, ge_iff_le, Int.not_le] at hg
      simp only [Option.getD_some]
      exact ⟨⟨hc.seq, hp1r, hg.1, ⟨by simp only; omega, hp1r.2⟩, hg.2.1, hc.speed, hc.bpm, hc.ftBpm, hc.st26, hc.jump, hc.jumpline⟩,
        fun _ => ⟨hg.2.2, rfl⟩⟩
  | seek t =>
    simp only [ctl, seekTime]
    split
    · rename_i i hi
      exact sp i 1 (by have := seekLoop_nonneg m s t _ i hi; omega) (fun h => by omega)
    · simp only [apiSetPosition]
      split
      · exact ⟨hc, fun r => r⟩
      · exact sp 0 0 (by omega) (fun _ => by have := w.len; omega)
  | stop =>
    simp only [ctl, stopModule]
    exact ⟨⟨hc.seq, hc.ord, hc.ordPat, ⟨by simp only; omega, by have := w.len; simp only; omega⟩, hc.row, hc.speed, hc.bpm,
      hc.ftBpm, hc.st26, hc.jump, hc.jumpline⟩, fun ri => ⟨ri.rowLt, ri.numOk⟩⟩
  | restart =>
    simp only [ctl, restartModule, resetFlow]
    exact ⟨⟨hc.seq, hc.ord, hc.ordPat, ⟨by simp only; omega, by have := w.len; simp only; omega⟩, hc.row, hc.speed, hc.bpm,
      hc.ftBpm, hc.st26, by simp only; omega, by simp only; omega⟩, fun ri => ⟨ri.rowLt, ri.numOk⟩⟩
  | bufReset =>
    simp only [ctl, bufferReset]
    exact ⟨⟨hc.seq, hc.ord, hc.ordPat, hc.pos, hc.row, hc.speed, hc.bpm,
      hc.ftBpm, hc.st26, hc.jump, hc.jumpline⟩, fun ri => ⟨ri.rowLt, ri.numOk⟩⟩

  | rescan =>
    simp only [ctl, rescanFix]
    have hn := w.numSeq
    refine ⟨⟨?_, hc.ord, hc.ordPat, hc.pos, hc.row, hc.speed, hc.bpm, hc.ftBpm, hc.st26, hc.jump, hc.jumpline⟩,
      fun ri => ⟨ri.rowLt, ri.numOk⟩⟩
    simp only
    split
    · omega
    · exact hc.seq

/-- the part of the module a rescan (mode / timing switch) leaves alone: the order list, the
patterns and their lengths -/
structure SameSong (m m' : SeqMod) : Prop where
  len : m'.len = m.len
  pat : m'.pat = m.pat
  xxo : m'.xxo = m.xxo
  rows : m'.rows = m.rows

/-- **mode switch**: the boundary invariant survives the replacement of every scan-derived table
(sequences, entry points, sequence labels, order info, marker quirk, restart handling) by those
of ANY well-formed rescan of the same song, with the sequence fix-up of `xmp_set_player`. -/
theorem rescan_spec {m m' : SeqMod} (w' : WFacts m') (ss : SameSong m m') {s : St} (hc : Core m s) :
    Core m' (rescanFix m' s) ∧ (RowInv m s → RowInv m' (rescanFix m' s)) := by
  have hn := w'.numSeq
  have exo : ∀ o, m'.xo o = m.xo o := fun o => by unfold SeqMod.xo; rw [ss.xxo]
  have ero : ∀ p, m'.rowsOf p = m.rowsOf p := fun p => by unfold SeqMod.rowsOf; rw [ss.rows]
  refine ⟨⟨?_, by rw [ss.len]; exact hc.ord, by rw [ss.pat]; show m'.xo s.ord < m.pat; rw [exo]; exact hc.ordPat,
    by rw [ss.len]; exact hc.pos, hc.row, hc.speed, hc.bpm, hc.ftBpm, hc.st26, hc.jump, hc.jumpline⟩, fun ri => ⟨?_, ?_⟩⟩
  · simp only [rescanFix]
    split
    · omega
    · rename_i h; have := hc.seq; omega
  · show s.row < m'.rowsOf (m'.xo s.ord)
    rw [exo, ero]; exact ri.rowLt
  · have := ri.numOk
    unfold Fresh at *
    show s.numRows = m'.rowsOf (m'.xo s.ord)
    rw [exo, ero]; exact this

/-! ## Termination of the order-skipping loop of `next_order` -/

/-- the loader's order-list guarantee in the form `next_order` needs (`Seq.ordWfB`, evaluated on
every module played) -/
def OrdWF (m : SeqMod) : Prop := ordWfB m = true

/-- `xxo[j]` is the 0xff end marker of a marker module -/
def EndMark (m : SeqMod) (j : Int) : Prop := m.marker = true ∧ m.xo j = 0xff

/-- the `(p->ord, reset_gvol)` pair one iteration of the loop body computes before the
`while (mod->xxo[p->ord] >= mod->pat)` test -/
def orderStep (m : SeqMod) (seq ord : Int) (rg : Bool) : Int × Bool :=
  let ord1 := ord + 1
  let mark := m.marker && decide (ord1 < m.len) && decide (m.xo ord1 = 0xff)
  if ord1 ≥ m.len ∨ mark = true then
    if m.rst > m.len ∨ m.xo m.rst ≥ m.pat ∨ ord1 < m.entryOf seq then (m.entryOf seq, true)
    else if geti m.seqCtl m.rst = seq then (m.rst, true)
    else (m.entryOf seq, true)
  else (ord1, rg)

theorem nextOrderLoop_succ (m : SeqMod) (seq : Int) (fuel : Nat) (ord : Int) (rg : Bool) :
    nextOrderLoop m seq (fuel + 1) ord rg =
      if m.xo (orderStep m seq ord rg).1 ≥ m.pat then
        nextOrderLoop m seq fuel (orderStep m seq ord rg).1 (orderStep m seq ord rg).2
      else some (orderStep m seq ord rg) := rfl

/-- the three ways one iteration can move `p->ord`: plain advance, wrap to the entry point,
wrap to the restart position -/
theorem orderStep_cases (m : SeqMod) (seq ord : Int) (rg : Bool) :
    ((orderStep m seq ord rg) = (ord + 1, rg) ∧ ord + 1 < m.len ∧ ¬ EndMark m (ord + 1)) ∨
    ((ord + 1 ≥ m.len ∨ EndMark m (ord + 1)) ∧ (orderStep m seq ord rg).1 = m.entryOf seq ∧
      (m.rst > m.len ∨ m.xo m.rst ≥ m.pat ∨ ord + 1 < m.entryOf seq ∨ geti m.seqCtl m.rst ≠ seq)) ∨
    ((ord + 1 ≥ m.len ∨ EndMark m (ord + 1)) ∧ (orderStep m seq ord rg).1 = m.rst ∧
      m.rst ≤ m.len ∧ m.xo m.rst < m.pat ∧ m.entryOf seq ≤ ord + 1 ∧ geti m.seqCtl m.rst = seq) := by
  unfold orderStep EndMark
  simp only [Bool.and_eq_true, decide_eq_true_eq]
  by_cases hw : ord + 1 ≥ m.len ∨ ((m.marker = true ∧ ord + 1 < m.len) ∧ m.xo (ord + 1) = 0xff)
  · have hw' : ord + 1 ≥ m.len ∨ (m.marker = true ∧ m.xo (ord + 1) = 0xff) := by
      rcases hw with h | ⟨⟨a, _⟩, c⟩
      · exact Or.inl h
      · exact Or.inr ⟨a, c⟩
    rw [if_pos hw]
    by_cases h1 : m.rst > m.len ∨ m.xo m.rst ≥ m.pat ∨ ord + 1 < m.entryOf seq
    · rw [if_pos h1]
      right; left
      refine ⟨hw', rfl, ?_⟩
      rcases h1 with h | h | h
      · exact Or.inl h
      · exact Or.inr (Or.inl h)
      · exact Or.inr (Or.inr (Or.inl h))
    · rw [if_neg h1]
      simp only [not_or] at h1
      by_cases h2 : geti m.seqCtl m.rst = seq
      · rw [if_pos h2]
        right; right
        exact ⟨hw', rfl, by omega, by omega, by omega, h2⟩
      · rw [if_neg h2]
        right; left
        exact ⟨hw', rfl, Or.inr (Or.inr (Or.inr h2))⟩
  · rw [if_neg hw]
    left
    simp only [not_or] at hw
    refine ⟨rfl, by omega, ?_⟩
    intro ⟨a, c⟩
    exact hw.2 ⟨⟨a, by omega⟩, c⟩

/-- generic termination argument: a measure that is positive on `P` and strictly decreases on
every iteration that does not leave the loop bounds the number of iterations -/
theorem nextOrderLoop_isSome_of_measure (m : SeqMod) (seq : Int) (μ : Int → Int) (P : Int → Prop)
    (hpos : ∀ ord, P ord → 1 ≤ μ ord)
    (hstep : ∀ ord rg, P ord → m.xo (orderStep m seq ord rg).1 ≥ m.pat →
      P (orderStep m seq ord rg).1 ∧ μ (orderStep m seq ord rg).1 < μ ord) :
    ∀ (fuel : Nat) (ord : Int) (rg : Bool), P ord → μ ord ≤ fuel →
      (nextOrderLoop m seq fuel ord rg).isSome = true := by
  intro fuel
  induction fuel with
  | zero => intro ord rg hp hm; have := hpos ord hp; omega
  | succ n ih =>
    intro ord rg hp hm
    rw [nextOrderLoop_succ]
    split
    · rename_i hc
      obtain ⟨p', lt⟩ := hstep ord rg hp hc
      exact ih _ _ p' (by omega)
    · rfl

theorem reachFrom_spec (m : SeqMod) : ∀ (fuel : Nat) (o : Int), reachFrom m fuel o = true →
    ∃ v, o ≤ v ∧ v < m.len ∧ m.xo v < m.pat ∧ ¬ EndMark m v ∧
      ∀ j, o ≤ j → j < v → m.xo j ≥ m.pat ∧ ¬ EndMark m j := by
  intro fuel
  induction fuel with
  | zero => intro o h; simp [reachFrom] at h
  | succ n ih =>
    intro o h
    unfold reachFrom at h
    split at h
    · simp at h
    · split at h
      · simp at h
      · rename_i hl hm
        split at h
        · rename_i hv
          exact ⟨o, by omega, by omega, hv, hm, fun j h1 h2 => by omega⟩
        · rename_i hv
          obtain ⟨v, a, b, c, d, e⟩ := ih (o + 1) h
          refine ⟨v, by omega, b, c, d, fun j h1 h2 => ?_⟩
          by_cases hj : j = o
          · subst hj; exact ⟨by omega, hm⟩
          · exact e j (by omega) h2

/-- a sequence whose wrap target is a restart position holding a pattern: at most
`max (len - ord) 1` iterations -/
theorem nextOrderLoop_isSome_rst {m : SeqMod} {seq : Int} (he : 0 ≤ m.entryOf seq ∧ m.entryOf seq < m.len)
    (hr : rstOkB m seq = true) (fuel : Nat) (ord : Int) (rg : Bool) (hord : -1 ≤ ord)
    (hf : (if m.len - ord ≥ 1 then m.len - ord else 1) ≤ fuel) :
    (nextOrderLoop m seq fuel ord rg).isSome = true := by
  unfold rstOkB at hr
  simp only [Bool.and_eq_true, decide_eq_true_eq] at hr
  obtain ⟨⟨r1, r2⟩, r3⟩ := hr
  apply nextOrderLoop_isSome_of_measure m seq (fun o => if m.len - o ≥ 1 then m.len - o else 1) (fun o => -1 ≤ o)
  · intro o _; (try simp only); split <;> omega
  · intro o rg' ho hc
    rcases orderStep_cases m seq o rg' with ⟨e, a, _⟩ | ⟨_, e, c⟩ | ⟨_, e, _, c, _⟩
    · rw [e]; simp only
      refine ⟨by omega, ?_⟩
      split <;> split <;> omega
    · rw [e]; (try simp only)
      have : o + 1 < m.entryOf seq := by omega
      refine ⟨by omega, ?_⟩
      split <;> split <;> omega
    · rw [e] at hc; omega
  · exact hord
  · exact hf

/-- a sequence whose entry point reaches an order `v` holding a pattern: at most `len` iterations -/
theorem nextOrderLoop_isSome_reach {m : SeqMod} {seq : Int} (he : 0 ≤ m.entryOf seq) {v : Int}
    (h1 : m.entryOf seq ≤ v) (h2 : v < m.len) (h3 : m.xo v < m.pat) (h4 : m.entryOf seq < v → ¬ EndMark m v)
    (h5 : ∀ j, m.entryOf seq < j → j < v → m.xo j ≥ m.pat ∧ ¬ EndMark m j)
    (fuel : Nat) (ord : Int) (rg : Bool) (hord : -1 ≤ ord)
    (hf : (if ord < v then v - ord else (if m.len - ord ≥ 1 then m.len - ord else 1) + (v - m.entryOf seq)) ≤ fuel) :
    (nextOrderLoop m seq fuel ord rg).isSome = true := by
  apply nextOrderLoop_isSome_of_measure m seq
    (fun o => if o < v then v - o else (if m.len - o ≥ 1 then m.len - o else 1) + (v - m.entryOf seq)) (fun o => -1 ≤ o)
  · intro o _; (try simp only); split <;> (try split) <;> omega
  · intro o rg' ho hc
    rcases orderStep_cases m seq o rg' with ⟨e, a, b⟩ | ⟨w, e, _⟩ | ⟨_, e, _, c, _⟩
    · rw [e] at hc ⊢; simp only at hc ⊢
      have hne : o + 1 ≠ v := by intro h; rw [h] at hc; omega
      refine ⟨by omega, ?_⟩
      split <;> split <;> (try split) <;> (try split) <;> omega
    · rw [e] at hc ⊢; (try simp only)
      have hne : m.entryOf seq ≠ v := by intro h; rw [h] at hc; omega
      have hlt : m.entryOf seq < v := by omega
      have hlow : o < m.entryOf seq ∨ v ≤ o := by
        refine Classical.byContradiction fun hn => ?_
        have hb : m.entryOf seq ≤ o ∧ o < v := by omega
        rcases w with w | w
        · omega
        · by_cases hv : o + 1 = v
          · rw [hv] at w; exact h4 hlt w
          · exact (h5 (o + 1) (by omega) (by omega)).2 w
      refine ⟨by omega, ?_⟩
      rw [if_pos hlt]
      split <;> (try split) <;> omega
    · rw [e] at hc; omega
  · exact hord
  · exact hf

/-- **Termination of `next_order`'s loop**: for a well-formed module whose sequences can reach a
pattern (`OrdWF`), from any `p->ord ≥ -1` (any jump target, any pending position) and any real
sequence, `len + 1` iterations suffice: the loop leaves through its own `while` condition. -/
theorem nextOrderLoop_terminates {m : SeqMod} (w : WFacts m) (ow : OrdWF m) {seq : Int} (hs0 : 0 ≤ seq)
    (hs1 : seq < m.numSeq) (ord : Int) (rg : Bool) (hord : -1 ≤ ord) (fuel : Nat) (hf : m.len + 1 ≤ fuel) :
    (nextOrderLoop m seq fuel ord rg).isSome = true := by
  have he := w.entry seq hs0 hs1
  have hl := w.len
  unfold OrdWF ordWfB at ow
  have hq := allBelow_spec ow seq hs0 (by omega)
  simp only [Bool.or_eq_true, decide_eq_true_eq] at hq
  rcases hq with (hq | hq) | hq
  · apply nextOrderLoop_isSome_rst he hq fuel ord rg hord
    split <;> omega
  · apply nextOrderLoop_isSome_reach he.1 (v := m.entryOf seq) (by omega) he.2 hq (by omega) (by intro j a b; omega)
      fuel ord rg hord
    split <;> (try split) <;> omega
  · obtain ⟨v, a, b, c, d, e⟩ := reachFrom_spec m 256 _ hq
    apply nextOrderLoop_isSome_reach he.1 (v := v) (by omega) b c (fun _ => d) (fun j x y => e j (by omega) y)
      fuel ord rg hord
    split <;> (try split) <;> omega

/-- more fuel never changes the result -/
theorem nextOrderLoop_mono (m : SeqMod) (seq : Int) : ∀ (fuel : Nat) (ord : Int) (rg : Bool) (r : Int × Bool) (k : Nat),
    nextOrderLoop m seq fuel ord rg = some r → nextOrderLoop m seq (fuel + k) ord rg = some r := by
  intro fuel
  induction fuel with
  | zero => intro ord rg r k h; simp [nextOrderLoop] at h
  | succ n ih =>
    intro ord rg r k h
    rw [show n + 1 + k = (n + k) + 1 by omega, nextOrderLoop_succ]
    rw [nextOrderLoop_succ] at h
    split
    · rename_i hc; rw [if_pos hc] at h; exact ih _ _ r k h
    · rename_i hc; rw [if_neg hc] at h; exact h

theorem orderFuel_ge {m : SeqMod} (w : WFacts m) : m.len + 1 ≤ (orderFuel : Nat) := by
  have := w.len; simp only [orderFuel]; omega

/-- `next_order` returns (model: is not `none`) -/
theorem nextOrder_isSome {m : SeqMod} (w : WFacts m) (ow : OrdWF m) {s : St}
    (hs : 0 ≤ s.sequence ∧ s.sequence < m.numSeq) (hord : -1 ≤ s.ord) : (nextOrder m s).isSome = true := by
  have h := nextOrderLoop_terminates w ow hs.1 hs.2 s.ord false hord orderFuel (orderFuel_ge w)
  unfold nextOrder
  cases hq : nextOrderLoop m s.sequence orderFuel s.ord false with
  | none => rw [hq] at h; simp at h
  | some r => rfl

/-- `next_row` returns from a playing state -/
theorem nextRow_isSome {m : SeqMod} (w : WFacts m) (ow : OrdWF m) {s : St} (hp : Playing m s) :
    (nextRow m s).isSome = true := by
  have c := hp.core
  unfold nextRow
  simp only
  split
  · split
    · rename_i hj
      exact nextOrder_isSome w ow (s := { s with frame := 0, delay := 0, pbreak := 0, ord := s.jump - 1, jump := -1 })
        c.seq (by simp only; have := c.jump; omega)
    · exact nextOrder_isSome w ow (s := { s with frame := 0, delay := 0, pbreak := 0 }) c.seq
        (by simp only; have := c.ord; omega)
  · generalize hs1 : (if s.rowdelay = 0 then { s with frame := 0, delay := 0, row := s.row + 1 }
        else { s with frame := 0, delay := 0, rowdelay := s.rowdelay - 1 } : St) = s1
    have e1 : s1.ord = s.ord ∧ s1.sequence = s.sequence := by rw [← hs1]; split <;> simp
    generalize hs2 : (if s1.loopDest ≥ 0 then { s1 with row := s1.loopDest, loopDest := -1 } else s1 : St) = s2
    have e2 : s2.ord = s.ord ∧ s2.sequence = s.sequence := by
      rw [← hs2]; split
      · exact e1
      · exact e1
    split
    · exact nextOrder_isSome w ow (by rw [e2.2]; exact c.seq) (by rw [e2.1]; have := c.ord; omega)
    · rfl

/-- **No frame hangs**: from any state satisfying the boundary invariant the kernel part of
`xmp_play_frame` returns. -/
theorem kernelPre_returns {m : SeqMod} (w : WFacts m) (ow : OrdWF m) {s : St} (hc : Core m s) :
    kernelPre m s ≠ .diverge := by
  intro h
  unfold kernelPre at h
  split at h
  · simp at h
  split at h
  · simp at h
  split at h
  · split at h
    · simp at h
    split at h
    · rename_i heq
      have he := w.entry s.sequence hc.seq.1 hc.seq.2
      have := nextOrder_isSome w ow (s := reposPrep m s) hc.seq (by simp only [reposPrep]; split <;> omega)
      rw [heq] at this; simp at this
    · simp at h
  · rename_i hpo
    have hpo : s.pos = s.ord := by omega
    have hp1 : Playing m { s with frame := s.frame + 1 } :=
      ⟨⟨hc.seq, hc.ord, hc.ordPat, hc.pos, hc.row, hc.speed, hc.bpm, hc.ftBpm, hc.st26, hc.jump, hc.jumpline⟩, hpo⟩
    simp only at h
    split at h
    · split at h
      · split at h
        · rename_i heq
          have := nextRow_isSome w ow hp1
          rw [heq] at this; simp at this
        · rename_i s2 heq
          split at h
          · rename_i heq3
            obtain ⟨p2, _⟩ := nextRow_spec w hp1 heq
            have := nextRow_isSome w ow (playing_checkEnd p2)
            rw [heq3] at this; simp at this
          · simp at h
      · split at h
        · rename_i heq
          have := nextRow_isSome w ow hp1
          rw [heq] at this; simp at this
        · simp at h
    · simp at h

theorem playFrame_returns {m : SeqMod} (w : WFacts m) (ow : OrdWF m) {s : St} (hc : Core m s) (eA eB : Eff) :
    playFrame m s eA eB ≠ .diverge := by
  have hk := kernelPre_returns w ow hc
  intro h
  unfold playFrame kernelStep at h
  cases hq : kernelPre m s with
  | ok s1 => rw [hq] at h; simp at h
  | fin => rw [hq] at h; simp at h
  | diverge => exact hk hq

/-- when `xmp_play_frame` returns `-XMP_END` (state untouched): exactly the C's three early returns -/
theorem playFrame_fin_iff {m : SeqMod} (w : WFacts m) (ow : OrdWF m) {s : St} (hc : Core m s) (eA eB : Eff) :
    playFrame m s eA eB = .fin ↔ (EndMark m s.ord ∨ (s.ord ≠ s.pos ∧ s.pos = -2)) := by
  have hk := kernelPre_returns w ow hc
  have hl : ¬ m.len ≤ 0 := by have := w.len; omega
  have key : kernelPre m s = .fin ↔ (EndMark m s.ord ∨ (s.ord ≠ s.pos ∧ s.pos = -2)) := by
    unfold EndMark
    constructor
    · intro h
      unfold kernelPre at h
      rw [if_neg hl] at h
      by_cases h1 : m.marker = true ∧ m.xo s.ord = 0xff
      · exact Or.inl h1
      · rw [if_neg h1] at h
        by_cases h2 : s.ord ≠ s.pos
        · rw [if_pos h2] at h
          by_cases h3 : s.pos = -2
          · exact Or.inr ⟨h2, h3⟩
          · rw [if_neg h3] at h
            split at h <;> simp at h
        · rw [if_neg h2] at h
          simp only at h
          split at h
          · split at h
            · split at h
              · simp at h
              · split at h <;> simp at h
            · split at h <;> simp at h
          · simp at h
    · intro h
      unfold kernelPre
      rw [if_neg hl]
      rcases h with h | ⟨h2, h3⟩
      · rw [if_pos h]
      · by_cases h1 : m.marker = true ∧ m.xo s.ord = 0xff
        · rw [if_pos h1]
        · rw [if_neg h1, if_pos h2, if_pos h3]
  rw [← key]
  unfold playFrame kernelStep
  cases hq : kernelPre m s with
  | ok s1 => simp
  | fin => simp
  | diverge => exact absurd hq hk

end Xmp.Seq
