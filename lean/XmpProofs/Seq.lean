import XmpModel.Seq
/-! Helper lemmas for the sequencer-kernel invariants (C16). -/
namespace Xmp.Seq

def WF (m : SeqMod) : Prop := wfB m = true

theorem allBelow_spec {n : Nat} {f : Int → Bool} (h : allBelow n f = true) (i : Int) (h0 : 0 ≤ i)
    (h1 : i < n) : f i = true := by
  unfold allBelow at h
  rw [List.all_eq_true] at h
  have := h i.toNat (by rw [List.mem_range]; omega)
  have e : ((i.toNat : Nat) : Int) = i := by omega
  rwa [e] at this

structure WFacts (m : SeqMod) : Prop where
  len : 0 < m.len ∧ m.len ≤ 256
  pat : 0 ≤ m.pat
  rst : 0 ≤ m.rst ∧ m.rst < m.len
  numSeq : 1 ≤ m.numSeq
  xo : ∀ o, 0 ≤ o → o < 256 → 0 ≤ m.xo o ∧ m.xo o ≤ 255
  rows : ∀ p, 0 ≤ p → p < m.pat → 1 ≤ m.rowsOf p
  entry : ∀ s, 0 ≤ s → s < m.numSeq → 0 ≤ m.entryOf s ∧ m.entryOf s < m.len
  seqCtl : ∀ o, 0 ≤ o → o < m.len → geti m.seqCtl o = 0xff ∨ (0 ≤ geti m.seqCtl o ∧ geti m.seqCtl o < m.numSeq)
  info : ∀ o, 0 ≤ o → o < m.len → m.xo o < m.pat →
    1 ≤ geti m.oBpm o ∧ 0 ≤ geti m.oSpeed o ∧ geti m.oSpeed o ≤ 255 ∧ st26ok (geti m.oSt26 o) = true
  startSpeed : skipInvalid m 257 0 ≥ m.len ∨ 1 ≤ geti m.oSpeed (skipInvalid m 257 0)

theorem WF.facts {m : SeqMod} (h : WF m) : WFacts m := by
  unfold WF wfB at h
  simp only [Bool.and_eq_true, decide_eq_true_eq, Bool.or_eq_true, beq_iff_eq] at h
  obtain ⟨⟨⟨⟨⟨⟨⟨⟨⟨⟨⟨⟨⟨⟨⟨⟨h1, h2⟩, h3⟩, _h4⟩, h5⟩, h5b⟩, _h6⟩, _h7⟩, _h8⟩, h9⟩, _h10⟩, hxo⟩, hrows⟩, hentry⟩, hsc⟩, hinfo⟩, hstart⟩ := h
  refine ⟨⟨h1, h2⟩, h3, ⟨h5, h5b⟩, h9, ?_, ?_, ?_, ?_, ?_, hstart⟩
  · intro o a b
    have := allBelow_spec hxo o a (by omega)
    simpa using this
  · intro p a b
    have := allBelow_spec hrows p a (by omega)
    simpa using this
  · intro s a b
    have := allBelow_spec hentry s a (by omega)
    simpa using this
  · intro o a b
    have := allBelow_spec hsc o a (by omega)
    simpa using this
  · intro o a b c
    have := allBelow_spec hinfo o a (by omega)
    simp only [Bool.or_eq_true, decide_eq_true_eq, Bool.and_eq_true] at this
    rcases this with h | h
    · omega
    · exact ⟨h.1.1.1, h.1.1.2, h.1.2, h.2⟩

end Xmp.Seq
