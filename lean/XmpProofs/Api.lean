import XmpModel.ApiSpec
/-!
Helper lemmas for C05: per-call refinement of the documented contract (`Spec.ok`) by the model of
the C (`step`), absence of modelled faults, and preservation of the context invariant.
-/
namespace Xmp.Api
open Xmp.Api.Gen

/-- Invariant of a context between API calls. -/
def ApiInv (s : State) : Prop :=
  (s.st = 0 ∨ s.st = 1 ∨ s.st = 2) ∧ s.mute.length = 64 ∧ s.vol.length = 64 ∧
  0 ≤ s.sxChn ∧ s.sxChn ≤ 64 ∧ 0 ≤ s.sxIns ∧ s.sxIns ≤ 255 ∧ (s.sxAlive = false → s.sxChn = 0 ∧ s.sxIns = 0) ∧
  (1 ≤ s.st → 0 ≤ s.chn ∧ s.chn ≤ 64 ∧ 0 ≤ s.len ∧ s.len ≤ 256 ∧ 0 ≤ s.ins ∧ s.ins ≤ 255 ∧ 0 ≤ s.mode ∧ s.mode ≤ 10) ∧
  (s.st = 2 → s.chn + s.sxChn ≤ 64) ∧
  0 ≤ s.voices ∧ 0 ≤ s.defpan ∧ s.defpan ≤ 100 ∧
  (s.st = 2 → 0 ≤ s.amp ∧ s.amp ≤ 3 ∧ -100 ≤ s.mix ∧ s.mix ≤ 100 ∧ 0 ≤ s.interp ∧ s.interp ≤ 2 ∧
              0 ≤ s.volume ∧ s.volume ≤ 200 ∧ 0 ≤ s.smixVol ∧ s.smixVol ≤ 200)

/-- The cells in which the current code is known to leave the documented contract:
    `xmp_next_position` / `xmp_set_position` return the internal restart marker `p->pos = -1`
    (or the stop marker −2) instead of a position index. -/
def deviates (s : State) (c : Call) (e : Env) : Bool :=
  s.st == 2 && e.newPos < 0 &&
    (match c with
     | .nextPos => true
     | .setPos p => 0 ≤ p && p < s.len
     | _ => false)

attribute [local simp] ERR_STATE ERR_INVALID ERR_INTERNAL ERR_SYSTEM ERR_FORMAT inRange isOneOf unchanged posIndex
  flagBitsKnown loadErrors testResults

macro "api_auto" : tactic => `(tactic| (
  simp [step, setPlayer, getPlayer, startPlayer, loadModule, release, endPlayer, smixPlay,
        Spec.ok, Spec.cell, Spec.setPlayer, Spec.getPlayer, Spec.smixPlay, Cell.ok, Obs.withModule, Obs.started,
        Obs.startFailed, EnvOk, deviates, State.init] at *
  repeat' split
  all_goals (simp_all <;> try omega)))

theorem st_cases {s : State} (hi : ApiInv s) : s.st = 0 ∨ s.st = 1 ∨ s.st = 2 := hi.1

theorem refines_setPlayer (s : State) (e : Env) (parm val : Int) :
    Spec.ok s.toObs (.setPlayer parm val) e (step s (.setPlayer parm val) e).ret
      (step s (.setPlayer parm val) e).state.toObs = true ∧ (step s (.setPlayer parm val) e).fault = false := by
  by_cases h0 : parm = 0
  · subst h0; api_auto
  by_cases h1 : parm = 1
  · subst h1; api_auto
  by_cases h2 : parm = 2
  · subst h2; api_auto
  by_cases h3 : parm = 3
  · subst h3; api_auto
  by_cases h4 : parm = 4
  · subst h4; api_auto
  by_cases h5 : parm = 5
  · subst h5; api_auto
  by_cases h6 : parm = 6
  · subst h6; api_auto
  by_cases h7 : parm = 7
  · subst h7; api_auto
  by_cases h8 : parm = 8
  · subst h8; api_auto
  by_cases h9 : parm = 9
  · subst h9; api_auto
  by_cases h10 : parm = 10
  · subst h10; api_auto
  by_cases h11 : parm = 11
  · subst h11; api_auto
  by_cases h12 : parm = 12
  · subst h12; api_auto
  by_cases h13 : parm = 13
  · subst h13; api_auto
  api_auto

theorem refines_getPlayer (s : State) (e : Env) (parm : Int) (he : EnvOk s (.getPlayer parm) e = true) :
    Spec.ok s.toObs (.getPlayer parm) e (step s (.getPlayer parm) e).ret
      (step s (.getPlayer parm) e).state.toObs = true ∧ (step s (.getPlayer parm) e).fault = false := by
  by_cases h0 : parm = 0
  · subst h0; api_auto
  by_cases h1 : parm = 1
  · subst h1; api_auto
  by_cases h2 : parm = 2
  · subst h2; api_auto
  by_cases h3 : parm = 3
  · subst h3; api_auto
  by_cases h4 : parm = 4
  · subst h4; api_auto
  by_cases h5 : parm = 5
  · subst h5; api_auto
  by_cases h6 : parm = 6
  · subst h6; api_auto
  by_cases h7 : parm = 7
  · subst h7; api_auto
  by_cases h8 : parm = 8
  · subst h8; api_auto
  by_cases h9 : parm = 9
  · subst h9; api_auto
  by_cases h10 : parm = 10
  · subst h10; api_auto
  by_cases h11 : parm = 11
  · subst h11; api_auto
  by_cases h12 : parm = 12
  · subst h12; api_auto
  by_cases h13 : parm = 13
  · subst h13; api_auto
  api_auto

theorem refines_recreate (s : State) (e : Env)  (hi : ApiInv s) (he : EnvOk s .recreate e = true)
    (hd : deviates s .recreate e = false) :
    Spec.ok s.toObs .recreate e (step s .recreate e).ret (step s .recreate e).state.toObs = true
      ∧ (step s .recreate e).fault = false := by
  unfold ApiInv at hi; api_auto

theorem refines_version (s : State) (e : Env)  (hi : ApiInv s) (he : EnvOk s .version e = true)
    (hd : deviates s .version e = false) :
    Spec.ok s.toObs .version e (step s .version e).ret (step s .version e).state.toObs = true
      ∧ (step s .version e).fault = false := by
  unfold ApiInv at hi; api_auto

theorem refines_getFormatList (s : State) (e : Env)  (hi : ApiInv s) (he : EnvOk s .getFormatList e = true)
    (hd : deviates s .getFormatList e = false) :
    Spec.ok s.toObs .getFormatList e (step s .getFormatList e).ret (step s .getFormatList e).state.toObs = true
      ∧ (step s .getFormatList e).fault = false := by
  unfold ApiInv at hi; api_auto

theorem refines_syserrno (s : State) (e : Env)  (hi : ApiInv s) (he : EnvOk s .syserrno e = true)
    (hd : deviates s .syserrno e = false) :
    Spec.ok s.toObs .syserrno e (step s .syserrno e).ret (step s .syserrno e).state.toObs = true
      ∧ (step s .syserrno e).fault = false := by
  unfold ApiInv at hi; api_auto

theorem refines_testModule (s : State) (e : Env) (k : LoadKind) (hi : ApiInv s) (he : EnvOk s (.testModule k) e = true)
    (hd : deviates s (.testModule k) e = false) :
    Spec.ok s.toObs (.testModule k) e (step s (.testModule k) e).ret (step s (.testModule k) e).state.toObs = true
      ∧ (step s (.testModule k) e).fault = false := by
  unfold ApiInv at hi; api_auto

theorem refines_load (s : State) (e : Env) (k : LoadKind) (size : Int) (hi : ApiInv s) (he : EnvOk s (.load k size) e = true)
    (hd : deviates s (.load k size) e = false) :
    Spec.ok s.toObs (.load k size) e (step s (.load k size) e).ret (step s (.load k size) e).state.toObs = true
      ∧ (step s (.load k size) e).fault = false := by
  unfold ApiInv at hi; api_auto

theorem refines_release (s : State) (e : Env)  (hi : ApiInv s) (he : EnvOk s .release e = true)
    (hd : deviates s .release e = false) :
    Spec.ok s.toObs .release e (step s .release e).ret (step s .release e).state.toObs = true
      ∧ (step s .release e).fault = false := by
  unfold ApiInv at hi; api_auto

theorem refines_scan (s : State) (e : Env)  (hi : ApiInv s) (he : EnvOk s .scan e = true)
    (hd : deviates s .scan e = false) :
    Spec.ok s.toObs .scan e (step s .scan e).ret (step s .scan e).state.toObs = true
      ∧ (step s .scan e).fault = false := by
  unfold ApiInv at hi; api_auto

theorem refines_getModuleInfo (s : State) (e : Env)  (hi : ApiInv s) (he : EnvOk s .getModuleInfo e = true)
    (hd : deviates s .getModuleInfo e = false) :
    Spec.ok s.toObs .getModuleInfo e (step s .getModuleInfo e).ret (step s .getModuleInfo e).state.toObs = true
      ∧ (step s .getModuleInfo e).fault = false := by
  unfold ApiInv at hi; api_auto

theorem refines_getFrameInfo (s : State) (e : Env)  (hi : ApiInv s) (he : EnvOk s .getFrameInfo e = true)
    (hd : deviates s .getFrameInfo e = false) :
    Spec.ok s.toObs .getFrameInfo e (step s .getFrameInfo e).ret (step s .getFrameInfo e).state.toObs = true
      ∧ (step s .getFrameInfo e).fault = false := by
  unfold ApiInv at hi; api_auto

theorem refines_start (s : State) (e : Env) (rate : Int) (format : Int) (hi : ApiInv s) (he : EnvOk s (.start rate format) e = true)
    (hd : deviates s (.start rate format) e = false) :
    Spec.ok s.toObs (.start rate format) e (step s (.start rate format) e).ret (step s (.start rate format) e).state.toObs = true
      ∧ (step s (.start rate format) e).fault = false := by
  unfold ApiInv at hi; api_auto

theorem refines_playFrame (s : State) (e : Env)  (hi : ApiInv s) (he : EnvOk s .playFrame e = true)
    (hd : deviates s .playFrame e = false) :
    Spec.ok s.toObs .playFrame e (step s .playFrame e).ret (step s .playFrame e).state.toObs = true
      ∧ (step s .playFrame e).fault = false := by
  unfold ApiInv at hi; api_auto

theorem refines_playBuffer (s : State) (e : Env) (null : Bool) (size : Int) (loop : Int) (hi : ApiInv s) (he : EnvOk s (.playBuffer null size loop) e = true)
    (hd : deviates s (.playBuffer null size loop) e = false) :
    Spec.ok s.toObs (.playBuffer null size loop) e (step s (.playBuffer null size loop) e).ret (step s (.playBuffer null size loop) e).state.toObs = true
      ∧ (step s (.playBuffer null size loop) e).fault = false := by
  unfold ApiInv at hi; api_auto

theorem refines_endPlayer (s : State) (e : Env)  (hi : ApiInv s) (he : EnvOk s .endPlayer e = true)
    (hd : deviates s .endPlayer e = false) :
    Spec.ok s.toObs .endPlayer e (step s .endPlayer e).ret (step s .endPlayer e).state.toObs = true
      ∧ (step s .endPlayer e).fault = false := by
  unfold ApiInv at hi; api_auto

theorem refines_nextPos (s : State) (e : Env)  (hi : ApiInv s) (he : EnvOk s .nextPos e = true)
    (hd : deviates s .nextPos e = false) :
    Spec.ok s.toObs .nextPos e (step s .nextPos e).ret (step s .nextPos e).state.toObs = true
      ∧ (step s .nextPos e).fault = false := by
  unfold ApiInv at hi; api_auto

theorem refines_prevPos (s : State) (e : Env)  (hi : ApiInv s) (he : EnvOk s .prevPos e = true)
    (hd : deviates s .prevPos e = false) :
    Spec.ok s.toObs .prevPos e (step s .prevPos e).ret (step s .prevPos e).state.toObs = true
      ∧ (step s .prevPos e).fault = false := by
  unfold ApiInv at hi; api_auto

theorem refines_setPos (s : State) (e : Env) (pos : Int) (hi : ApiInv s) (he : EnvOk s (.setPos pos) e = true)
    (hd : deviates s (.setPos pos) e = false) :
    Spec.ok s.toObs (.setPos pos) e (step s (.setPos pos) e).ret (step s (.setPos pos) e).state.toObs = true
      ∧ (step s (.setPos pos) e).fault = false := by
  unfold ApiInv at hi; api_auto

theorem refines_setRow (s : State) (e : Env) (row : Int) (hi : ApiInv s) (he : EnvOk s (.setRow row) e = true)
    (hd : deviates s (.setRow row) e = false) :
    Spec.ok s.toObs (.setRow row) e (step s (.setRow row) e).ret (step s (.setRow row) e).state.toObs = true
      ∧ (step s (.setRow row) e).fault = false := by
  unfold ApiInv at hi; api_auto

theorem refines_setTempo (s : State) (e : Env) (positive : Bool) (hi : ApiInv s) (he : EnvOk s (.setTempo positive) e = true)
    (hd : deviates s (.setTempo positive) e = false) :
    Spec.ok s.toObs (.setTempo positive) e (step s (.setTempo positive) e).ret (step s (.setTempo positive) e).state.toObs = true
      ∧ (step s (.setTempo positive) e).fault = false := by
  unfold ApiInv at hi; api_auto

theorem refines_stop (s : State) (e : Env)  (hi : ApiInv s) (he : EnvOk s .stop e = true)
    (hd : deviates s .stop e = false) :
    Spec.ok s.toObs .stop e (step s .stop e).ret (step s .stop e).state.toObs = true
      ∧ (step s .stop e).fault = false := by
  unfold ApiInv at hi; api_auto

theorem refines_restart (s : State) (e : Env)  (hi : ApiInv s) (he : EnvOk s .restart e = true)
    (hd : deviates s .restart e = false) :
    Spec.ok s.toObs .restart e (step s .restart e).ret (step s .restart e).state.toObs = true
      ∧ (step s .restart e).fault = false := by
  unfold ApiInv at hi; api_auto

theorem refines_seekTime (s : State) (e : Env) (t : Int) (hi : ApiInv s) (he : EnvOk s (.seekTime t) e = true)
    (hd : deviates s (.seekTime t) e = false) :
    Spec.ok s.toObs (.seekTime t) e (step s (.seekTime t) e).ret (step s (.seekTime t) e).state.toObs = true
      ∧ (step s (.seekTime t) e).fault = false := by
  unfold ApiInv at hi; api_auto

theorem refines_chanVol (s : State) (e : Env) (chn : Int) (vol : Int) (hi : ApiInv s) (he : EnvOk s (.chanVol chn vol) e = true)
    (hd : deviates s (.chanVol chn vol) e = false) :
    Spec.ok s.toObs (.chanVol chn vol) e (step s (.chanVol chn vol) e).ret (step s (.chanVol chn vol) e).state.toObs = true
      ∧ (step s (.chanVol chn vol) e).fault = false := by
  unfold ApiInv at hi; api_auto

theorem refines_inject (s : State) (e : Env) (chn : Int) (hi : ApiInv s) (he : EnvOk s (.inject chn) e = true)
    (hd : deviates s (.inject chn) e = false) :
    Spec.ok s.toObs (.inject chn) e (step s (.inject chn) e).ret (step s (.inject chn) e).state.toObs = true
      ∧ (step s (.inject chn) e).fault = false := by
  unfold ApiInv at hi; api_auto

theorem refines_setInsPath (s : State) (e : Env) (null : Bool) (hi : ApiInv s) (he : EnvOk s (.setInsPath null) e = true)
    (hd : deviates s (.setInsPath null) e = false) :
    Spec.ok s.toObs (.setInsPath null) e (step s (.setInsPath null) e).ret (step s (.setInsPath null) e).state.toObs = true
      ∧ (step s (.setInsPath null) e).fault = false := by
  unfold ApiInv at hi; api_auto

theorem refines_startSmix (s : State) (e : Env) (chn : Int) (smp : Int) (hi : ApiInv s) (he : EnvOk s (.startSmix chn smp) e = true)
    (hd : deviates s (.startSmix chn smp) e = false) :
    Spec.ok s.toObs (.startSmix chn smp) e (step s (.startSmix chn smp) e).ret (step s (.startSmix chn smp) e).state.toObs = true
      ∧ (step s (.startSmix chn smp) e).fault = false := by
  unfold ApiInv at hi; api_auto

theorem refines_smixPlayIns (s : State) (e : Env) (ins : Int) (note : Int) (vol : Int) (chn : Int) (hi : ApiInv s) (he : EnvOk s (.smixPlayIns ins note vol chn) e = true)
    (hd : deviates s (.smixPlayIns ins note vol chn) e = false) :
    Spec.ok s.toObs (.smixPlayIns ins note vol chn) e (step s (.smixPlayIns ins note vol chn) e).ret (step s (.smixPlayIns ins note vol chn) e).state.toObs = true
      ∧ (step s (.smixPlayIns ins note vol chn) e).fault = false := by
  unfold ApiInv at hi; api_auto

theorem refines_smixPlaySmp (s : State) (e : Env) (ins : Int) (note : Int) (vol : Int) (chn : Int) (hi : ApiInv s) (he : EnvOk s (.smixPlaySmp ins note vol chn) e = true)
    (hd : deviates s (.smixPlaySmp ins note vol chn) e = false) :
    Spec.ok s.toObs (.smixPlaySmp ins note vol chn) e (step s (.smixPlaySmp ins note vol chn) e).ret (step s (.smixPlaySmp ins note vol chn) e).state.toObs = true
      ∧ (step s (.smixPlaySmp ins note vol chn) e).fault = false := by
  unfold ApiInv at hi; api_auto

theorem refines_smixPan (s : State) (e : Env) (chn : Int) (pan : Int) (hi : ApiInv s) (he : EnvOk s (.smixPan chn pan) e = true)
    (hd : deviates s (.smixPan chn pan) e = false) :
    Spec.ok s.toObs (.smixPan chn pan) e (step s (.smixPan chn pan) e).ret (step s (.smixPan chn pan) e).state.toObs = true
      ∧ (step s (.smixPan chn pan) e).fault = false := by
  unfold ApiInv at hi; api_auto

theorem refines_smixLoad (s : State) (e : Env) (num : Int) (file : Int) (hi : ApiInv s) (he : EnvOk s (.smixLoad num file) e = true)
    (hd : deviates s (.smixLoad num file) e = false) :
    Spec.ok s.toObs (.smixLoad num file) e (step s (.smixLoad num file) e).ret (step s (.smixLoad num file) e).state.toObs = true
      ∧ (step s (.smixLoad num file) e).fault = false := by
  unfold ApiInv at hi; api_auto

theorem refines_smixRelease (s : State) (e : Env) (num : Int) (hi : ApiInv s) (he : EnvOk s (.smixRelease num) e = true)
    (hd : deviates s (.smixRelease num) e = false) :
    Spec.ok s.toObs (.smixRelease num) e (step s (.smixRelease num) e).ret (step s (.smixRelease num) e).state.toObs = true
      ∧ (step s (.smixRelease num) e).fault = false := by
  unfold ApiInv at hi; api_auto

theorem refines_endSmix (s : State) (e : Env)  (hi : ApiInv s) (he : EnvOk s .endSmix e = true)
    (hd : deviates s .endSmix e = false) :
    Spec.ok s.toObs .endSmix e (step s .endSmix e).ret (step s .endSmix e).state.toObs = true
      ∧ (step s .endSmix e).fault = false := by
  unfold ApiInv at hi; api_auto

theorem refines_chanMute (s : State) (e : Env) (chn status : Int) :
    Spec.ok s.toObs (.chanMute chn status) e (step s (.chanMute chn status) e).ret
      (step s (.chanMute chn status) e).state.toObs = true ∧ (step s (.chanMute chn status) e).fault = false := by
  simp only [step]
  split
  · simp_all [Spec.ok, Spec.cell, Cell.ok]
  · split
    · simp_all [Spec.ok, Spec.cell, Cell.ok]
    · rename_i h1 h2
      have hc : ¬ (chn < 0 ∨ 64 ≤ chn) := by simpa using h2
      have hs : ¬ s.st < 2 := by simpa using h1
      split
      · rename_i h3
        simp only [Spec.ok, Spec.cell, Cell.ok]
        by_cases hs2 : status = 2
        · subst hs2; simp [hc, hs]
        · have : ¬ status = 0 := by omega
          have : ¬ status = 1 := by omega
          have : ¬ status = -1 := by omega
          simp [hc, hs, *]
      · split
        · rename_i h3 h4
          simp only [Spec.ok, Spec.cell, Cell.ok]
          have : status = 0 ∨ status = 1 := by omega
          rcases this with h | h <;> subst h <;> simp [hc, hs]
        · rename_i h3 h4
          simp only [Spec.ok, Spec.cell, Cell.ok]
          by_cases hs2 : status = -1
          · subst hs2; simp [hc, hs]
          · have : ¬ status = 0 := by omega
            have : ¬ status = 1 := by omega
            have : ¬ status = 2 := by omega
            have : status < -1 := by omega
            simp [hc, hs, *]

/-- **Refinement**: outside the known deviating cells, every modelled call returns what the documented
    table allows, has exactly the documented effect, and performs no out-of-bounds access. -/
theorem refines (s : State) (c : Call) (e : Env) (hi : ApiInv s) (he : EnvOk s c e = true)
    (hd : deviates s c e = false) :
    Spec.ok s.toObs c e (step s c e).ret (step s c e).state.toObs = true ∧ (step s c e).fault = false := by
  cases c with
  | setPlayer p v => exact refines_setPlayer s e p v
  | getPlayer p => exact refines_getPlayer s e p he
  | chanMute chn status => exact refines_chanMute s e chn status
  | recreate  => exact refines_recreate s e  hi he hd
  | version  => exact refines_version s e  hi he hd
  | getFormatList  => exact refines_getFormatList s e  hi he hd
  | syserrno  => exact refines_syserrno s e  hi he hd
  | testModule k => exact refines_testModule s e k hi he hd
  | load k size => exact refines_load s e k size hi he hd
  | release  => exact refines_release s e  hi he hd
  | scan  => exact refines_scan s e  hi he hd
  | getModuleInfo  => exact refines_getModuleInfo s e  hi he hd
  | getFrameInfo  => exact refines_getFrameInfo s e  hi he hd
  | start rate format => exact refines_start s e rate format hi he hd
  | playFrame  => exact refines_playFrame s e  hi he hd
  | playBuffer null size loop => exact refines_playBuffer s e null size loop hi he hd
  | endPlayer  => exact refines_endPlayer s e  hi he hd
  | nextPos  => exact refines_nextPos s e  hi he hd
  | prevPos  => exact refines_prevPos s e  hi he hd
  | setPos pos => exact refines_setPos s e pos hi he hd
  | setRow row => exact refines_setRow s e row hi he hd
  | setTempo positive => exact refines_setTempo s e positive hi he hd
  | stop  => exact refines_stop s e  hi he hd
  | restart  => exact refines_restart s e  hi he hd
  | seekTime t => exact refines_seekTime s e t hi he hd
  | chanVol chn vol => exact refines_chanVol s e chn vol hi he hd
  | inject chn => exact refines_inject s e chn hi he hd
  | setInsPath null => exact refines_setInsPath s e null hi he hd
  | startSmix chn smp => exact refines_startSmix s e chn smp hi he hd
  | smixPlayIns ins note vol chn => exact refines_smixPlayIns s e ins note vol chn hi he hd
  | smixPlaySmp ins note vol chn => exact refines_smixPlaySmp s e ins note vol chn hi he hd
  | smixPan chn pan => exact refines_smixPan s e chn pan hi he hd
  | smixLoad num file => exact refines_smixLoad s e num file hi he hd
  | smixRelease num => exact refines_smixRelease s e num hi he hd
  | endSmix  => exact refines_endSmix s e  hi he hd

/-! ## The invariant is preserved by every call (also in the deviating cells) -/

@[simp] theorem length_setAt (l : List Int) (i v : Int) : (setAt l i v).length = l.length := by simp [setAt]
@[simp] theorem length_startMute (c : Int) (x : List Int) : (startMute c x).length = 64 := by simp [startMute]

macro "inv_auto" : tactic => `(tactic| (
  unfold ApiInv at *
  simp [step, setPlayer, startPlayer, loadModule, release, endPlayer, smixPlay, EnvOk, State.init] at *
  repeat' split
  all_goals (simp_all <;> try omega)))

theorem inv_recreate (s : State) (e : Env)  (hi : ApiInv s) (he : EnvOk s .recreate e = true) :
    ApiInv (step s .recreate e).state := by
  inv_auto

theorem inv_version (s : State) (e : Env)  (hi : ApiInv s) (he : EnvOk s .version e = true) :
    ApiInv (step s .version e).state := by
  inv_auto

theorem inv_getFormatList (s : State) (e : Env)  (hi : ApiInv s) (he : EnvOk s .getFormatList e = true) :
    ApiInv (step s .getFormatList e).state := by
  inv_auto

theorem inv_syserrno (s : State) (e : Env)  (hi : ApiInv s) (he : EnvOk s .syserrno e = true) :
    ApiInv (step s .syserrno e).state := by
  inv_auto

theorem inv_testModule (s : State) (e : Env) (k : LoadKind) (hi : ApiInv s) (he : EnvOk s (.testModule k) e = true) :
    ApiInv (step s (.testModule k) e).state := by
  inv_auto

theorem inv_load (s : State) (e : Env) (k : LoadKind) (size : Int) (hi : ApiInv s) (he : EnvOk s (.load k size) e = true) :
    ApiInv (step s (.load k size) e).state := by
  inv_auto

theorem inv_release (s : State) (e : Env)  (hi : ApiInv s) (he : EnvOk s .release e = true) :
    ApiInv (step s .release e).state := by
  inv_auto

theorem inv_scan (s : State) (e : Env)  (hi : ApiInv s) (he : EnvOk s .scan e = true) :
    ApiInv (step s .scan e).state := by
  inv_auto

theorem inv_getModuleInfo (s : State) (e : Env)  (hi : ApiInv s) (he : EnvOk s .getModuleInfo e = true) :
    ApiInv (step s .getModuleInfo e).state := by
  inv_auto

theorem inv_getFrameInfo (s : State) (e : Env)  (hi : ApiInv s) (he : EnvOk s .getFrameInfo e = true) :
    ApiInv (step s .getFrameInfo e).state := by
  inv_auto

theorem inv_start (s : State) (e : Env) (rate : Int) (format : Int) (hi : ApiInv s) (he : EnvOk s (.start rate format) e = true) :
    ApiInv (step s (.start rate format) e).state := by
  inv_auto

theorem inv_playFrame (s : State) (e : Env)  (hi : ApiInv s) (he : EnvOk s .playFrame e = true) :
    ApiInv (step s .playFrame e).state := by
  inv_auto

theorem inv_playBuffer (s : State) (e : Env) (null : Bool) (size : Int) (loop : Int) (hi : ApiInv s) (he : EnvOk s (.playBuffer null size loop) e = true) :
    ApiInv (step s (.playBuffer null size loop) e).state := by
  inv_auto

theorem inv_endPlayer (s : State) (e : Env)  (hi : ApiInv s) (he : EnvOk s .endPlayer e = true) :
    ApiInv (step s .endPlayer e).state := by
  inv_auto

theorem inv_nextPos (s : State) (e : Env)  (hi : ApiInv s) (he : EnvOk s .nextPos e = true) :
    ApiInv (step s .nextPos e).state := by
  inv_auto

theorem inv_prevPos (s : State) (e : Env)  (hi : ApiInv s) (he : EnvOk s .prevPos e = true) :
    ApiInv (step s .prevPos e).state := by
  inv_auto

theorem inv_setPos (s : State) (e : Env) (pos : Int) (hi : ApiInv s) (he : EnvOk s (.setPos pos) e = true) :
    ApiInv (step s (.setPos pos) e).state := by
  inv_auto

theorem inv_setRow (s : State) (e : Env) (row : Int) (hi : ApiInv s) (he : EnvOk s (.setRow row) e = true) :
    ApiInv (step s (.setRow row) e).state := by
  inv_auto

theorem inv_setTempo (s : State) (e : Env) (positive : Bool) (hi : ApiInv s) (he : EnvOk s (.setTempo positive) e = true) :
    ApiInv (step s (.setTempo positive) e).state := by
  inv_auto

theorem inv_stop (s : State) (e : Env)  (hi : ApiInv s) (he : EnvOk s .stop e = true) :
    ApiInv (step s .stop e).state := by
  inv_auto

theorem inv_restart (s : State) (e : Env)  (hi : ApiInv s) (he : EnvOk s .restart e = true) :
    ApiInv (step s .restart e).state := by
  inv_auto

theorem inv_seekTime (s : State) (e : Env) (t : Int) (hi : ApiInv s) (he : EnvOk s (.seekTime t) e = true) :
    ApiInv (step s (.seekTime t) e).state := by
  inv_auto

theorem inv_chanMute (s : State) (e : Env) (chn : Int) (status : Int) (hi : ApiInv s) (he : EnvOk s (.chanMute chn status) e = true) :
    ApiInv (step s (.chanMute chn status) e).state := by
  inv_auto

theorem inv_chanVol (s : State) (e : Env) (chn : Int) (vol : Int) (hi : ApiInv s) (he : EnvOk s (.chanVol chn vol) e = true) :
    ApiInv (step s (.chanVol chn vol) e).state := by
  inv_auto

theorem inv_inject (s : State) (e : Env) (chn : Int) (hi : ApiInv s) (he : EnvOk s (.inject chn) e = true) :
    ApiInv (step s (.inject chn) e).state := by
  inv_auto

theorem inv_getPlayer (s : State) (e : Env) (parm : Int) (hi : ApiInv s) (he : EnvOk s (.getPlayer parm) e = true) :
    ApiInv (step s (.getPlayer parm) e).state := by
  inv_auto

theorem inv_setInsPath (s : State) (e : Env) (null : Bool) (hi : ApiInv s) (he : EnvOk s (.setInsPath null) e = true) :
    ApiInv (step s (.setInsPath null) e).state := by
  inv_auto

theorem inv_startSmix (s : State) (e : Env) (chn : Int) (smp : Int) (hi : ApiInv s) (he : EnvOk s (.startSmix chn smp) e = true) :
    ApiInv (step s (.startSmix chn smp) e).state := by
  inv_auto

theorem inv_smixPlayIns (s : State) (e : Env) (ins : Int) (note : Int) (vol : Int) (chn : Int) (hi : ApiInv s) (he : EnvOk s (.smixPlayIns ins note vol chn) e = true) :
    ApiInv (step s (.smixPlayIns ins note vol chn) e).state := by
  inv_auto

theorem inv_smixPlaySmp (s : State) (e : Env) (ins : Int) (note : Int) (vol : Int) (chn : Int) (hi : ApiInv s) (he : EnvOk s (.smixPlaySmp ins note vol chn) e = true) :
    ApiInv (step s (.smixPlaySmp ins note vol chn) e).state := by
  inv_auto

theorem inv_smixPan (s : State) (e : Env) (chn : Int) (pan : Int) (hi : ApiInv s) (he : EnvOk s (.smixPan chn pan) e = true) :
    ApiInv (step s (.smixPan chn pan) e).state := by
  inv_auto

theorem inv_smixLoad (s : State) (e : Env) (num : Int) (file : Int) (hi : ApiInv s) (he : EnvOk s (.smixLoad num file) e = true) :
    ApiInv (step s (.smixLoad num file) e).state := by
  inv_auto

theorem inv_smixRelease (s : State) (e : Env) (num : Int) (hi : ApiInv s) (he : EnvOk s (.smixRelease num) e = true) :
    ApiInv (step s (.smixRelease num) e).state := by
  inv_auto

theorem inv_endSmix (s : State) (e : Env)  (hi : ApiInv s) (he : EnvOk s .endSmix e = true) :
    ApiInv (step s .endSmix e).state := by
  inv_auto

theorem inv_setPlayer (s : State) (e : Env) (parm val : Int) (hi : ApiInv s) :
    ApiInv (step s (.setPlayer parm val) e).state := by
  by_cases h0 : parm = 0
  · subst h0; inv_auto
  by_cases h1 : parm = 1
  · subst h1; inv_auto
  by_cases h2 : parm = 2
  · subst h2; inv_auto
  by_cases h3 : parm = 3
  · subst h3; inv_auto
  by_cases h4 : parm = 4
  · subst h4; inv_auto
  by_cases h5 : parm = 5
  · subst h5; inv_auto
  by_cases h6 : parm = 6
  · subst h6; inv_auto
  by_cases h7 : parm = 7
  · subst h7; inv_auto
  by_cases h8 : parm = 8
  · subst h8; inv_auto
  by_cases h9 : parm = 9
  · subst h9; inv_auto
  by_cases h10 : parm = 10
  · subst h10; inv_auto
  by_cases h11 : parm = 11
  · subst h11; inv_auto
  by_cases h12 : parm = 12
  · subst h12; inv_auto
  by_cases h13 : parm = 13
  · subst h13; inv_auto
  inv_auto

theorem inv_step (s : State) (c : Call) (e : Env) (hi : ApiInv s) (he : EnvOk s c e = true) :
    ApiInv (step s c e).state := by
  cases c with
  | setPlayer p v => exact inv_setPlayer s e p v hi
  | recreate  => exact inv_recreate s e  hi he
  | version  => exact inv_version s e  hi he
  | getFormatList  => exact inv_getFormatList s e  hi he
  | syserrno  => exact inv_syserrno s e  hi he
  | testModule k => exact inv_testModule s e k hi he
  | load k size => exact inv_load s e k size hi he
  | release  => exact inv_release s e  hi he
  | scan  => exact inv_scan s e  hi he
  | getModuleInfo  => exact inv_getModuleInfo s e  hi he
  | getFrameInfo  => exact inv_getFrameInfo s e  hi he
  | start rate format => exact inv_start s e rate format hi he
  | playFrame  => exact inv_playFrame s e  hi he
  | playBuffer null size loop => exact inv_playBuffer s e null size loop hi he
  | endPlayer  => exact inv_endPlayer s e  hi he
  | nextPos  => exact inv_nextPos s e  hi he
  | prevPos  => exact inv_prevPos s e  hi he
  | setPos pos => exact inv_setPos s e pos hi he
  | setRow row => exact inv_setRow s e row hi he
  | setTempo positive => exact inv_setTempo s e positive hi he
  | stop  => exact inv_stop s e  hi he
  | restart  => exact inv_restart s e  hi he
  | seekTime t => exact inv_seekTime s e t hi he
  | chanMute chn status => exact inv_chanMute s e chn status hi he
  | chanVol chn vol => exact inv_chanVol s e chn vol hi he
  | inject chn => exact inv_inject s e chn hi he
  | getPlayer parm => exact inv_getPlayer s e parm hi he
  | setInsPath null => exact inv_setInsPath s e null hi he
  | startSmix chn smp => exact inv_startSmix s e chn smp hi he
  | smixPlayIns ins note vol chn => exact inv_smixPlayIns s e ins note vol chn hi he
  | smixPlaySmp ins note vol chn => exact inv_smixPlaySmp s e ins note vol chn hi he
  | smixPan chn pan => exact inv_smixPan s e chn pan hi he
  | smixLoad num file => exact inv_smixLoad s e num file hi he
  | smixRelease num => exact inv_smixRelease s e num hi he
  | endSmix  => exact inv_endSmix s e  hi he

end Xmp.Api
