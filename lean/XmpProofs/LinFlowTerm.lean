import XmpProofs.LinFlow
/-! Termination of the scan's order loop (C18_scan_terminates): measure
`(#orders whose row 0 is unvisited)·514 + (514 − orders_since_last_valid)`. -/
namespace Xmp.LinFlow

/-- the `bpm < XMP_MIN_BPM` clamp at the top of the row loop -/
def clampBpm (st : ScanSt) : ScanSt := { st with bpm := if st.bpm < 20 then 20 else st.bpm }

/-- the row loop stops at a row: runaway guard, or row already scanned -/
theorem scanRows_cons_stop (ord : Nat) (fx : Fx) (rest : List Fx) (row : Nat) (st0 : ScanSt)
    (h : st0.rowCountTotal > rowLimit ∨ cntAt st0.cnt ord row ≠ 0) :
    ∃ s r, scanRows ord (fx :: rest) row st0 = .endMod s r ∧ s.cnt = st0.cnt ∧ s.ctl = st0.ctl ∧ s.info = st0.info := by
  rw [scanRows]
  simp only []
  by_cases hg : st0.rowCountTotal > rowLimit
  · rw [if_pos hg]; exact ⟨_, _, rfl, rfl, rfl, rfl⟩
  · rw [if_neg hg]
    have hv : cntAt st0.cnt ord row ≠ 0 := by
      rcases h with h | h
      · exact absurd h hg
      · exact h
    rw [if_pos hv]; exact ⟨_, _, rfl, rfl, rfl, rfl⟩

theorem scanRows_cons_visited (ord : Nat) (fx : Fx) (rest : List Fx) (row : Nat) (st0 : ScanSt)
    (h : cntAt st0.cnt ord row ≠ 0) : ∃ s r, scanRows ord (fx :: rest) row st0 = .endMod s r := by
  obtain ⟨s, r, h1, _⟩ := scanRows_cons_stop ord fx rest row st0 (Or.inr h)
  exact ⟨s, r, h1⟩

theorem scanRows_cons_fresh' (ord : Nat) (fx : Fx) (rest : List Fx) (row : Nat) (st0 : ScanSt)
    (h : cntAt st0.cnt ord row = 0) (hg : st0.rowCountTotal ≤ rowLimit) :
    scanRows ord (fx :: rest) row st0 =
      match fx with
        | .jump j => .done (visitStep ord row (.jump j) (clampBpm st0)) (some j)
        | _ => scanRows ord rest (row + 1) (visitStep ord row fx (clampBpm st0)) := by
  have hg' : ¬ st0.rowCountTotal > rowLimit := by omega
  rw [scanRows]
  simp only []
  rw [if_neg hg', if_neg (by intro hh; exact hh h)]
  cases fx <;> rfl

theorem scanRows_done_mono (ord : Nat) : ∀ (fxs : List Fx) (row : Nat) (st st' : ScanSt) (o2 : Option Nat),
    scanRows ord fxs row st = .done st' o2 →
    st'.cnt.length = st.cnt.length ∧ (∀ o, (st'.cnt.getD o []).length = (st.cnt.getD o []).length) ∧
    (∀ o r, cntAt st.cnt o r ≠ 0 → cntAt st'.cnt o r ≠ 0) ∧
    (fxs = [] → st' = st) ∧ (fxs ≠ [] → st'.osv = 0) ∧
    (fxs ≠ [] → ord < st.cnt.length → row < (st.cnt.getD ord []).length → cntAt st'.cnt ord row ≠ 0) := by
  intro fxs
  induction fxs with
  | nil =>
    intro row st st' o2 h
    simp [scanRows] at h
    rw [← h.1]; simp
  | cons fx tl ih =>
    intro row st st' o2 h
    by_cases hv : st.rowCountTotal > rowLimit ∨ cntAt st.cnt ord row ≠ 0
    · obtain ⟨s, r, he, _⟩ := scanRows_cons_stop ord fx tl row st hv
      rw [he] at h; cases h
    · have hv0 : cntAt st.cnt ord row = 0 := by
        by_cases h0 : cntAt st.cnt ord row = 0
        · exact h0
        · exact absurd (Or.inr h0) hv
      have hg0 : st.rowCountTotal ≤ rowLimit := by
        by_cases h0 : st.rowCountTotal > rowLimit
        · exact absurd (Or.inl h0) hv
        · omega
      rw [scanRows_cons_fresh' ord fx tl row st hv0 hg0] at h
      have hc : (clampBpm st).cnt = st.cnt := rfl
      have key : ∀ vs : ScanSt, vs = visitStep ord row fx (clampBpm st) →
          vs.cnt.length = st.cnt.length ∧ (∀ o, (vs.cnt.getD o []).length = (st.cnt.getD o []).length) ∧
          (∀ o r, cntAt st.cnt o r ≠ 0 → cntAt vs.cnt o r ≠ 0) ∧
          (ord < st.cnt.length → row < (st.cnt.getD ord []).length → cntAt vs.cnt ord row ≠ 0) ∧ vs.osv = 0 := by
        intro vs hvs
        subst hvs
        obtain ⟨f1, f2, f3, f4⟩ := visitStep_cnt_facts ord row fx (clampBpm st)
        exact ⟨by rw [f1, hc], fun o => by rw [f2, hc], fun o r hne => f3 o r (by rw [hc]; exact hne),
          fun h1 h2 => f4 (by rw [hc]; exact h1) (by rw [hc]; exact h2), visitStep_osv ..⟩
      obtain ⟨k1, k2, k3, k4, k5⟩ := key _ rfl
      cases fx with
      | jump j =>
        simp only at h
        cases h
        exact ⟨k1, k2, k3, (fun hh => by cases hh), fun _ => k5, fun _ h1 h2 => k4 h1 h2⟩
      | none | speed _ | tempo _ | delay _ | rowdelay _ =>
        simp only at h
        obtain ⟨i1, i2, i3, i4, i5, _⟩ := ih _ _ _ _ h
        refine ⟨by rw [i1, k1], fun o => by rw [i2, k2], fun o r hne => i3 o r (k3 o r hne),
          (fun hh => by cases hh), fun _ => ?_, fun _ h1 h2 => i3 _ _ (k4 h1 h2)⟩
        by_cases htl : tl = []
        · rw [i4 htl]; exact k5
        · exact i5 htl


theorem filter_length_le {α} (l : List α) (p q : α → Bool) (hsub : ∀ x, q x = true → p x = true) :
    (l.filter q).length ≤ (l.filter p).length := by
  induction l with
  | nil => simp
  | cons x xs ih =>
    simp only [List.filter_cons]
    cases hq : q x <;> cases hp : p x <;> simp <;> try omega
    have := hsub x hq; rw [hp] at this; cases this

theorem filter_length_lt {α} (l : List α) (p q : α → Bool) (hsub : ∀ x, q x = true → p x = true)
    (a : α) (ha : a ∈ l) (hpa : p a = true) (hqa : q a = false) :
    (l.filter q).length < (l.filter p).length := by
  induction l with
  | nil => simp at ha
  | cons x xs ih =>
    simp only [List.filter_cons]
    rcases List.mem_cons.mp ha with h | h
    · subst h
      simp only [hpa, hqa, if_true]
      have := filter_length_le xs p q hsub
      simp; omega
    · have := ih h
      cases hq : q x <;> cases hp : p x <;> simp <;> try omega
      have := hsub x hq; rw [hp] at this; cases this

/-- number of orders whose first row was never scanned -/
def unvisited (m : LinMod) (c : List (List Nat)) : Nat :=
  ((List.range m.len).filter fun o => decide (cntAt c o 0 = 0)).length

def CntInv (m : LinMod) (c : List (List Nat)) : Prop :=
  c.length = m.len ∧ ∀ o, o < m.len → 0 < (c.getD o []).length

theorem unvisited_le (m : LinMod) (c : List (List Nat)) : unvisited m c ≤ m.len := by
  unfold unvisited
  have := List.length_filter_le (fun o => decide (cntAt c o 0 = 0)) (List.range m.len)
  simpa using this

theorem restartOrd_lt (m : LinMod) (ep chain : Nat) (ctl : List Nat) (em : Option Nat) (hrst : m.rst < m.len)
    (hep : ep < m.len) : restartOrd m ep chain ctl em < m.len := by
  unfold restartOrd
  split
  · exact hep
  · split
    · exact hrst
    · exact hep

theorem recordInfo_cnt (ep ord : Nat) (st : ScanSt) : (recordInfo ep ord st).cnt = st.cnt := by
  unfold recordInfo; simp only []; split <;> (split <;> rfl)
theorem recordInfo_osv (ep ord : Nat) (st : ScanSt) : (recordInfo ep ord st).osv = st.osv := by
  unfold recordInfo; simp only []; split <;> (split <;> rfl)

theorem fuel_arith (A B k fuel : Nat) (h5 : B + 514 ≤ A) (h2 : A + k ≤ fuel + 1) (hk : 2 ≤ k) :
    B + 514 ≤ fuel := by omega

theorem scanOrders_fuel (m : LinMod) (ep chain : Nat) (hrst : m.rst < m.len) (hep : ep < m.len) :
    ∀ (fuel nord : Nat) (st : ScanSt), CntInv m st.cnt → st.osv ≤ 513 →
      unvisited m st.cnt * 514 + (514 - st.osv) ≤ fuel → scanOrders m ep chain fuel nord st ≠ .noFuel := by
  intro fuel
  induction fuel with
  | zero => intro nord st _ h1 h2; omega
  | succ fuel ih =>
    intro nord st hinv hosv hfuel
    rw [scanOrders]
    split
    · simp
    · rename_i hosv2
      extract_lets st1 wrapped ord pat isEnd skipTo st2 st3
      have hord : ord < m.len := by
        simp only [ord, wrapped]
        by_cases hw : nord ≥ m.len
        · simp only [hw, decide_true, if_true]; exact restartOrd_lt m ep chain _ _ hrst hep
        · simp [hw]; omega
      have h1cnt : st1.cnt = st.cnt := rfl
      have h1osv : st1.osv = st.osv + 1 := rfl
      split
      · simp
      · split
        · split
          · apply ih
            · rw [h1cnt]; exact hinv
            · rw [h1osv]; omega
            · rw [h1cnt, h1osv]; omega
          · simp
        · have h2cnt : st2.cnt = st.cnt := rfl
          have h2osv : st2.osv = st.osv + 1 := rfl
          split
          · apply ih
            · rw [h2cnt]; exact hinv
            · rw [h2osv]; omega
            · rw [h2cnt, h2osv]; omega
          · split
            · simp
            · rename_i hfresh
              have h3cnt : st3.cnt = st.cnt := by show (recordInfo ep ord st2).cnt = _; rw [recordInfo_cnt]
              have h3osv : st3.osv = st.osv + 1 := by show (recordInfo ep ord st2).osv = _; rw [recordInfo_osv]
              split
              · simp
              · rename_i st' ord2 hrows
                obtain ⟨m1, m2, m3, m4, m5, m6⟩ := scanRows_done_mono ord _ 0 st3 st' ord2 hrows
                apply ih
                · show CntInv m st'.cnt
                  refine ⟨by rw [m1, h3cnt]; exact hinv.1, fun o ho => by rw [m2, h3cnt]; exact hinv.2 o ho⟩
                · show st'.osv ≤ 513
                  by_cases hnil : m.rowsOf pat = []
                  · rw [m4 hnil, h3osv]; omega
                  · rw [m5 hnil]; omega
                · show unvisited m st'.cnt * 514 + (514 - st'.osv) ≤ fuel
                  by_cases hnil : m.rowsOf pat = []
                  · rw [m4 hnil, h3cnt, h3osv]; omega
                  · rw [m5 hnil]
                    have hf0 : cntAt st.cnt ord 0 = 0 := by
                      have : ¬ cntAt st2.cnt ord 0 ≠ 0 := hfresh
                      rw [h2cnt] at this; simpa using this
                    have hvis : cntAt st'.cnt ord 0 ≠ 0 :=
                      m6 hnil (by rw [h3cnt, hinv.1]; exact hord) (by rw [h3cnt]; exact hinv.2 ord hord)
                    have hlt : unvisited m st'.cnt < unvisited m st.cnt := by
                      unfold unvisited
                      apply filter_length_lt _ _ _ _ ord
                      · simp; exact hord
                      · simp [hf0]
                      · simp [hvis]
                      · intro x hx
                        simp at hx ⊢
                        by_cases hne : cntAt st.cnt x 0 = 0
                        · exact hne
                        · exact absurd hx (m3 x 0 (by rw [h3cnt]; exact hne))
                    have h5 : unvisited m st'.cnt * 514 + 514 ≤ unvisited m st.cnt * 514 := by
                      have := Nat.mul_le_mul_right 514 (Nat.succ_le_of_lt hlt)
                      rwa [Nat.succ_mul] at this
                    have hk : 2 ≤ 514 - st.osv := by omega
                    exact fuel_arith _ _ _ _ h5 hfuel hk


theorem initCnt_inv (m : LinMod) : CntInv m (initCnt m) := by
  refine ⟨by simp [initCnt, LinMod.len], ?_⟩
  intro o ho
  have ho' : o < m.xxo.length := ho
  simp only [initCnt, List.getD_eq_getElem?_getD, List.getElem?_map, List.getElem?_eq_getElem ho', Option.map_some,
    Option.getD_some, List.length_replicate]
  split <;> omega

/-- The fuelled outer loop of the scan never runs out of `scanFuel m = (len+1)·514 + 1`. -/
theorem scanModule_fuelOut (m : LinMod) (ep chain : Nat) (ctl : List Nat) (info : List OrdInfo)
    (hrst : m.rst < m.len) (hep : ep < m.len) :
    (scanModule m ep chain ctl info).fuelOut = false := by
  unfold scanModule
  extract_lets st0
  have h := scanOrders_fuel m ep chain hrst hep (scanFuel m) ep st0 (initCnt_inv m) (by show (0 : Nat) ≤ 513; omega)
    (by
      show unvisited m (initCnt m) * 514 + (514 - 0) ≤ scanFuel m
      have := unvisited_le m (initCnt m)
      unfold scanFuel; omega)
  split
  · rename_i heq; exact absurd heq h
  · split <;> rfl

end Xmp.LinFlow
