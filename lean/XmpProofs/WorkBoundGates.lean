import XmpProofs.WorkBound
import XmpProofs.Gates
/-!
# Work bounds of the container walkers modelled in `XmpModel.Gates` (C02)

ARC/Spark, ArcFS, LZX, xz (VLI, block loop, Index records), zip (EOCD window, zip64 extra walk,
central directory loop), gzip header.  For each: the step function is the owning model
(`…_eq_run`), every continuing iteration moves forward (`…_progress`), the loop ends within
`bytes / k + 1` iterations and the owning model's fuel is never what ends it (`…_work`).
-/
namespace Xmp.Work
open Xmp Xmp.Gates

/-! ## ARC -/

theorem arcLoop_eq_run (env : ArcEnv) (f : Bytes) : ∀ fuel pos level,
    arcLoop env f fuel pos level = (run (arcStep env f) fuel (pos, level)).outD none := by
  intro fuel
  induction fuel with
  | zero => intros; rfl
  | succ n ih =>
    intro pos level
    rw [run_outD_succ]
    simp only [arcLoop, arcStep]
    walk_eq ih

theorem arcHeaderLength_ge (m : Nat) : 2 ≤ arcHeaderLength m := by
  unfold arcHeaderLength; repeat' split
  all_goals omega

/-- **progress**: an iteration of `arc_read` that continues has read a header inside the file and
moves the position forward by at least 2 bytes — no entry (end marker, directory, skipped member with
any declared compressed size) makes the walk stay in place or go back -/
theorem arcStep_progress (env : ArcEnv) (f : Bytes) (s s' : Nat × Nat) (h : (arcStep env f s).succ? = some s') :
    s.1 + 2 ≤ f.length ∧ s.1 + 2 ≤ s'.1 := by
  have hl := arcHeaderLength_ge (u8 f (s.1 + 1))
  unfold arcStep at h
  simp only [] at h
  repeat' split at h
  all_goals (simp only [Out.succ?, Option.some.injEq, reduceCtorEq] at h)
  all_goals (subst h; simp only; omega)

theorem arc_work_from (env : ArcEnv) (f : Bytes) (pos level fuel : Nat) (hf : (f.length - pos) / 2 < fuel) :
    EndsWithin (arcStep env f) fuel (pos, level) ((f.length - pos) / 2 + 1) :=
  run_bounded (arcStep env f) (fun _ => True) (fun s => f.length - s.1) 2 (by decide)
    (fun s s' _ h => ⟨trivial, by have := arcStep_progress env f s s' h; omega⟩) fuel (pos, level) trivial hf

/-- **ARC work bound**: `arc_read` ends by itself within `|file|/2 + 1` entry-loop iterations, and the fuel
`|file| + 1` of the model `arcDepack` is never what stops it -/
theorem arc_work (env : ArcEnv) (f : Bytes) :
    EndsWithin (arcStep env f) (f.length + 1) (0, 0) (f.length / 2 + 1) ∧
    arcDepack env f = (run (arcStep env f) (f.length + 1) (0, 0)).outD none :=
  ⟨by have := arc_work_from env f 0 0 (f.length + 1) (by simp; omega); simpa using this,
   arcLoop_eq_run env f _ 0 0⟩

/-- the same environment with the decoder refused above the ceiling -/
def _root_.Xmp.Gates.ArcEnv.capped (env : ArcEnv) : ArcEnv :=
  { env with unpack := fun m w i u => if u ≤ env.limit then env.unpack m w i u else none }

theorem arcStep_capped (env : ArcEnv) (f : Bytes) (s : Nat × Nat) : arcStep env.capped f s = arcStep env f s := by
  simp only [arcStep, ArcEnv.capped]
  repeat' (first | rfl | refine ite_congr rfl (fun _ => ?_) (fun _ => ?_))
  all_goals (by_cases hp : arcIsPacked (u8 f (s.1 + 1)) = true <;> simp_all)

/-- **ARC output ceiling**: `arc_unpack` is never asked for more than `limit` bytes — guarding the decoder
with the ceiling changes nothing, for any archive -/
theorem arcDepack_capped (env : ArcEnv) (f : Bytes) : arcDepack env.capped f = arcDepack env f := by
  rw [(arc_work env f).2, (arc_work env.capped f).2, funext (arcStep_capped env f)]

/-- what `arc_read` returns is a slice of the file (stored members) or what the decoder produced for a
request of at most `limit` bytes -/
theorem arcLoop_out (env : ArcEnv) (f out : Bytes) : ∀ fuel pos level, arcLoop env f fuel pos level = some out →
    out.length ≤ f.length ∨ ∃ m w i u, u ≤ env.limit ∧ env.unpack m w i u = some out := by
  intro fuel
  induction fuel with
  | zero => intro _ _ h; simp [arcLoop] at h
  | succ n ih =>
    intro pos level h
    unfold arcLoop at h
    simp only [] at h
    repeat' split at h
    all_goals first
      | exact ih _ _ h
      | (simp at h; done)
      | skip
    all_goals (simp only [Option.some.injEq] at h; subst h; rename_i hq _)
    all_goals first
      | (simp only [Option.some.injEq] at hq; subst hq; left; simp [slice]; omega)
      | (right; exact ⟨_, _, _, _, by first | (simp_all; done) | (simp_all; omega), hq⟩)

/-! ## LZX -/

theorem lzxLoop_eq_run (env : LzxEnv) (f : Bytes) : ∀ fuel pos mg,
    lzxLoop env f fuel pos mg = (run (lzxStep env f) fuel (pos, mg)).outD none := by
  intro fuel
  induction fuel with
  | zero => intros; rfl
  | succ n ih =>
    intro pos mg
    rw [run_outD_succ]
    simp only [lzxLoop, lzxStep]
    walk_eq ih

/-- **progress**: a continuing iteration of `lzx_read` has a whole 31-byte entry header inside the file
and moves at least 31 bytes forward, whatever sizes the entry declares -/
theorem lzxStep_progress (env : LzxEnv) (f : Bytes) (s s' : Nat × LzxMerge) (h : (lzxStep env f s).succ? = some s') :
    s.1 + 31 ≤ f.length ∧ s.1 + 31 ≤ s'.1 := by
  unfold lzxStep at h
  simp only [] at h
  repeat' split at h
  all_goals (simp only [Out.succ?, Option.some.injEq, reduceCtorEq] at h)
  all_goals (subst h; simp only; omega)

theorem lzx_work_from (env : LzxEnv) (f : Bytes) (pos : Nat) (mg : LzxMerge) (fuel : Nat) (hf : (f.length - pos) / 31 < fuel) :
    EndsWithin (lzxStep env f) fuel (pos, mg) ((f.length - pos) / 31 + 1) :=
  run_bounded (lzxStep env f) (fun _ => True) (fun s => f.length - s.1) 31 (by decide)
    (fun s s' _ h => ⟨trivial, by have := lzxStep_progress env f s s' h; omega⟩) fuel (pos, mg) trivial hf

/-- **LZX work bound**: the entry loop of `lzx_read` ends by itself within `(|file| - 10)/31 + 1` iterations;
the model's fuel `|file| + 1` never stops it -/
theorem lzx_work (env : LzxEnv) (f : Bytes) :
    EndsWithin (lzxStep env f) (f.length + 1) (10, {}) ((f.length - 10) / 31 + 1) ∧
    (10 ≤ f.length → slice f 0 3 = [0x4c, 0x5a, 0x58] →
      lzxDepack env f = (run (lzxStep env f) (f.length + 1) (10, {})).outD none) := by
  refine ⟨lzx_work_from env f 10 {} (f.length + 1) (by omega), ?_⟩
  intro h1 h2
  unfold lzxDepack
  rw [if_neg (by omega), if_neg (by simp [h2])]
  exact lzxLoop_eq_run env f _ 10 {}

/-- **LZX output ceiling**: the running total of a merged group and the size of a single entry never exceed
`limit` when an extraction is started -/
theorem lzxCheckEntry_total (limit : Nat) (mg : LzxMerge) (bad : Bool) (usize csize method flags dcrc : Nat)
    (hbad : usize > limit → bad = true)
    (h : (lzxCheckEntry limit mg bad usize csize method flags dcrc).2 = true) :
    (lzxCheckEntry limit mg bad usize csize method flags dcrc).1.total ≤ limit := by
  unfold lzxCheckEntry at h ⊢
  simp only [] at h ⊢
  repeat' split at h
  all_goals (try (simp at h; done))
  all_goals (repeat' split)
  all_goals (simp_all <;> omega)

/-! ## ArcFS -/

/-- the entry count of an accepted ArcFS header is backed by bytes of the file: 36 bytes per entry between
the 96-byte header and the data area -/
theorem arcfs_count_le (f : Bytes) (el dofs : Nat) (h : arcfsHeader f = some (el, dofs)) :
    96 + el / 36 * 36 ≤ f.length ∧ el / 36 ≤ (f.length - 96) / 36 := by
  unfold arcfsHeader at h
  simp only [] at h
  repeat' split at h
  all_goals (try (simp at h; done))
  simp only [Option.some.injEq, Prod.mk.injEq] at h
  obtain ⟨h1, h2⟩ := h
  subst h1; subst h2
  simp only [Bool.or_eq_true, decide_eq_true_eq, not_or, Nat.not_lt] at *
  omega

theorem arcfsLoop_eq_run (env : ArcEnv) (f : Bytes) (dofs : Nat) : ∀ fuel n pos, n < fuel →
    arcfsLoop env f dofs n pos = (run (arcfsStep env f dofs) fuel (n, pos)).outD none := by
  intro fuel
  induction fuel with
  | zero => intro n pos h; omega
  | succ m ih =>
    intro n pos hn
    rw [run_outD_fold]
    cases n with
    | zero => rfl
    | succ n =>
      have ih' : ∀ pos', arcfsLoop env f dofs n pos' = (run (arcfsStep env f dofs) m (n, pos')).outD none :=
        fun pos' => ih n pos' (by omega)
      clear ih
      simp only [arcfsLoop, arcfsStep, apply_ite (Out.fold none (run (arcfsStep env f dofs) m)), Out.fold_done,
        Out.fold_next, ← ih']
      walk_congr

theorem arcfsStep_progress (env : ArcEnv) (f : Bytes) (dofs : Nat) (s s' : Nat × Nat)
    (h : (arcfsStep env f dofs s).succ? = some s') :
    s'.1 + 1 = s.1 ∧ s.2 + 36 ≤ f.length ∧ s'.2 = s.2 + 36 := by
  obtain ⟨n, pos⟩ := s
  cases n with
  | zero => simp [arcfsStep, Out.succ?] at h
  | succ n =>
    simp only [arcfsStep] at h
    repeat' split at h
    all_goals (simp only [Out.succ?, Option.some.injEq, reduceCtorEq] at h)
    all_goals (subst h; simp only; refine ⟨trivial, ?_, trivial⟩; omega)

/-- **ArcFS work bound**: the entry loop runs at most `min(entries, bytes/36) + 1` times; with the header
test that is at most `(|file| - 96)/36 + 1` whatever `entries_length` declares -/
theorem arcfs_work (env : ArcEnv) (f : Bytes) (el dofs : Nat) (h : arcfsHeader f = some (el, dofs)) :
    EndsWithin (arcfsStep env f dofs) (el / 36 + 1) (el / 36, 96) ((f.length - 96) / 36 + 1) ∧
    arcfsDepack env f = (run (arcfsStep env f dofs) (el / 36 + 1) (el / 36, 96)).outD none := by
  constructor
  · have hb := run_bounded (arcfsStep env f dofs) (fun _ => True) (fun s => s.1) 1 (by decide)
      (fun s s' _ hs => ⟨trivial, by have := arcfsStep_progress env f dofs s s' hs; omega⟩)
      (el / 36 + 1) (el / 36, 96) trivial (by simp)
    exact hb.mono (Nat.le_refl _) (by have := (arcfs_count_le f el dofs h).2; simp; omega)
  · unfold arcfsDepack
    rw [h]
    exact arcfsLoop_eq_run env f dofs _ _ 96 (by omega)

theorem arcfsStep_capped (env : ArcEnv) (f : Bytes) (dofs : Nat) (s : Nat × Nat) :
    arcfsStep env.capped f dofs s = arcfsStep env f dofs s := by
  obtain ⟨n, pos⟩ := s
  cases n with
  | zero => rfl
  | succ n =>
    simp only [arcfsStep, ArcEnv.capped]
    repeat' (first | rfl | refine ite_congr rfl (fun _ => ?_) (fun _ => ?_))
    all_goals simp_all

/-- **ArcFS output ceiling**: the decoder is never asked for more than `limit` bytes -/
theorem arcfsDepack_capped (env : ArcEnv) (f : Bytes) : arcfsDepack env.capped f = arcfsDepack env f := by
  cases h : arcfsHeader f with
  | none => simp [arcfsDepack, h]
  | some r =>
    obtain ⟨el, dofs⟩ := r
    rw [(arcfs_work env f el dofs h).2, (arcfs_work env.capped f el dofs h).2, funext (arcfsStep_capped env f dofs)]

end Xmp.Work
