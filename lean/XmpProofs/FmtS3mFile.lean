import XmpProofs.FmtS3m
import XmpProofs.FmtPcm
/-!
# Whole-file round trip of the S3M codec (`Xmp.Fmt.S3m.read (write s o) = some s`)

The file is `head · instrument headers · pattern blobs · sample blobs`, every part a multiple of 16
bytes; the reader follows 16-bit / 24-bit paragraph pointers (`bs.drop (16 * pp)`).  The proof locates
every blob by induction over the blob lists with a generalised prefix.
-/
namespace Xmp.Fmt
open Xmp

/-! ## generic list / byte lemmas -/

theorem drop_add_left {α : Type} {a : List α} {n : Nat} (h : a.length = n) (k : Nat) (b : List α) :
    (a ++ b).drop (n + k) = b.drop k := by
  rw [← List.drop_drop, List.drop_left' h]

theorem rd16le_le16 {n : Nat} (h : n < 65536) : rd16le (le16 n) = n := by
  simp only [le16, rd16le, u8_toNat]; omega

theorem rd32le_le32 {n : Nat} (h : n < 4294967296) : rd32le (le32 n) = n := by
  simp only [le32, rd32le, u8_toNat]; omega

theorem le16_length (n : Nat) : (le16 n).length = 2 := rfl
theorem le32_length (n : Nat) : (le32 n).length = 4 := rfl

theorem decodeN_le16 (ps : List Nat) (h : ∀ p ∈ ps, p < 65536) (rest : Bytes) :
    decodeN 2 rd16le ps.length (ps.flatMap le16 ++ rest) = ps := by
  induction ps with
  | nil => rfl
  | cons p ps ih =>
    simp only [List.length_cons, decodeN, List.flatMap_cons, List.append_assoc]
    rw [List.take_left' (le16_length p), List.drop_left' (le16_length p), rd16le_le16 (h p (by simp)),
      ih (fun q hq => h q (by simp [hq]))]

theorem flatMap_le16_length (ps : List Nat) : (ps.flatMap le16).length = 2 * ps.length := by
  induction ps with
  | nil => rfl
  | cons p ps ih => simp only [List.flatMap_cons, List.length_append, le16_length, ih, List.length_cons]; omega

theorem pad16_eq (b : Bytes) : pad16 b = b ++ List.replicate ((16 - b.length % 16) % 16) 0 := rfl

theorem pad16_length_mod (b : Bytes) : (pad16 b).length % 16 = 0 := by
  simp only [pad16, List.length_append, List.length_replicate]; omega

theorem pad16_length (b : Bytes) : (pad16 b).length = (b.length + 15) / 16 * 16 := by
  simp only [pad16, List.length_append, List.length_replicate]; omega

theorem pad16_length_ge (b : Bytes) : b.length ≤ (pad16 b).length := by
  simp [pad16]

/-- `fixSpd` / `fixBpm` on in-range header bytes -/
theorem fixSpd_byte {n : Nat} (h1 : 1 ≤ n) (h2 : n ≤ 255) : fixSpd (u8 n).toNat = n := by
  rw [u8_toNat_lt (by omega)]; unfold fixSpd
  rw [if_neg (by omega)]

theorem fixBpm_byte {n : Nat} (h1 : 20 ≤ n) (h2 : n ≤ 255) : fixBpm (u8 n).toNat = n := by
  rw [u8_toNat_lt (by omega)]; unfold fixBpm
  rw [if_neg (by omega), if_neg (by omega)]

/-- flags drawn from {16-bit, loop, stereo}: the loop-sanity step leaves them alone -/
theorem flags_s3m_facts : ∀ flg < 256, flg &&& (FLOOP ||| FSTEREO ||| F16BIT) = flg →
    flg &&& FBIDIR = 0 ∧ flg &&& FSLOOP = 0 ∧
    (flg &&& FLOOP = 0 → flg &&& (0xffff - (FLOOP ||| FBIDIR)) = flg) ∧
    ((if flg &&& FLOOP ≠ 0 then 1 else 0) + (if flg &&& FSTEREO ≠ 0 then 2 else 0) + (if flg &&& F16BIT ≠ 0 then 4 else 0) < 8) ∧
    (if flg &&& FLOOP ≠ 0 then FLOOP else 0) + (if flg &&& FSTEREO ≠ 0 then FSTEREO else 0) +
      (if flg &&& F16BIT ≠ 0 then F16BIT else 0) = flg := by
  decide +kernel

theorem flagsOk_lt {a flg : Nat} (ha : a < 256) (h : flg &&& a = flg) : flg < 256 := by
  rw [← h]; exact Nat.lt_of_le_of_lt Nat.and_le_right ha

end Xmp.Fmt

namespace Xmp.Fmt.S3m
open Xmp Xmp.Fmt

/-! ## sample header codec -/

def volOf (x : Ins) : Nat := (x.subs.headD { sid := 0, vol := 0, pan := 0x80, xpo := 0, fin := 0 }).vol
def flOf (m : Smp) : Nat := (if m.flg &&& FLOOP ≠ 0 then 1 else 0) + (if m.flg &&& FSTEREO ≠ 0 then 2 else 0) +
            (if m.flg &&& F16BIT ≠ 0 then 4 else 0)
def magicOf (m : Smp) : Bytes := if m.len = 0 then [0, 0, 0, 0] else str "SCRS"

theorem magicOf_length (m : Smp) : (magicOf m).length = 4 := by
  unfold magicOf; split
  · rfl
  · decide +kernel

theorem encSmpHdr_eq (x : Ins) (m : Smp) (seg c2 : Nat) :
    encSmpHdr x m seg c2 =
      ([u8 (if m.len = 0 then 0 else 1), 0, 0, 0, 0, 0, 0, 0, 0, 0, 0, 0, 0, u8 (seg / 65536),
        u8 (seg % 65536 % 256), u8 (seg % 65536 / 256)] ++ le32 m.len ++ le32 m.lps ++ le32 m.lpe ++
        [u8 (volOf x), 0, 0, u8 (flOf m)] ++ le32 c2 ++ [0, 0, 0, 0, 0, 0, 0, 0, 0, 0, 0, 0]) ++
      (padTo 28 x.name ++ magicOf m) := by
  simp [encSmpHdr, volOf, flOf, magicOf, le16, List.replicate]

theorem decSmpHdr_enc (x : Ins) (m : Smp) (seg c2 : Nat) :
    decSmpHdr (encSmpHdr x m seg c2) =
      { typ := (u8 (if m.len = 0 then 0 else 1)).toNat,
        seg := (u8 (seg % 65536 % 256)).toNat + (u8 (seg % 65536 / 256)).toNat * 256 + (u8 (seg / 65536)).toNat * 65536,
        len := rd32le (le32 m.len), lps := rd32le (le32 m.lps), lpe := rd32le (le32 m.lpe),
        vol := (u8 (volOf x)).toNat, pack := 0, flags := (u8 (flOf m)).toNat,
        name := padTo 28 x.name, magic := magicOf m } := by
  rw [encSmpHdr_eq]
  have hn := padTo_length 28 x.name
  have hm := magicOf_length m
  simp [decSmpHdr, le32, rd16le, List.take_left' hn, List.drop_left' hn, List.take_of_length_le (Nat.le_of_eq hm)]

theorem encSmpHdr_length (x : Ins) (m : Smp) (seg c2 : Nat) : (encSmpHdr x m seg c2).length = 80 := by
  rw [encSmpHdr_eq]; simp [le32, padTo_length, magicOf_length]

def hdrFlgN (flags : Nat) : Nat :=
  (if flags % 2 = 1 then FLOOP else 0) + (if flags / 2 % 2 = 1 then FSTEREO else 0) +
  (if flags / 4 % 2 = 1 then F16BIT else 0)
def flOfN (flg : Nat) : Nat := (if flg &&& FLOOP ≠ 0 then 1 else 0) + (if flg &&& FSTEREO ≠ 0 then 2 else 0) +
            (if flg &&& F16BIT ≠ 0 then 4 else 0)

theorem hdrFlg_eq (h : SmpHdr) : hdrFlg h = hdrFlgN h.flags := rfl
theorem flOf_eq (m : Smp) : flOf m = flOfN m.flg := rfl

theorem flags_codec : ∀ flg < 256, flg &&& (FLOOP ||| FSTEREO ||| F16BIT) = flg →
    hdrFlgN (flOfN flg) = flg ∧ flOfN flg < 8 := by
  decide +kernel

theorem subsOk_cases {i : Nat} {l : List Sub} (h : SubsOk i l) :
    ∃ sub, l = [sub] ∧ sub.sid = i ∧ sub.vol ≤ 64 ∧ sub.pan = 0x80 ∧ sub.xpo = 0 ∧ sub.fin = 0 := by
  match l, h with
  | [sub], h => exact ⟨sub, rfl, h⟩

theorem volOf_le {i : Nat} {x : Ins} {m : Smp} (h : SlotOk i x m) : volOf x ≤ 64 := by
  obtain ⟨-, -, -, -, -, -, -, -, hcase⟩ := h
  by_cases hl : m.len = 0
  · rw [if_pos hl] at hcase
    simp [volOf, hcase.1]
  · rw [if_neg hl] at hcase
    obtain ⟨sub, hs, -, h2, -⟩ := subsOk_cases hcase.1
    simp [volOf, hs, h2]

/-- loop points of a well-formed slot -/
theorem slot_loop {i : Nat} {x : Ins} {m : Smp} (h : SlotOk i x m) :
    m.lps ≤ m.len ∧ m.lpe ≤ m.len ∧ m.len ≤ 0x100000 ∧
    ((m.flg &&& FLOOP = 0 ∧ m.lps = 0 ∧ m.lpe = 0) ∨ (m.flg &&& FLOOP ≠ 0 ∧ m.len ≠ 0 ∧ m.lps < m.lpe ∧ m.lpe ≤ m.len)) := by
  obtain ⟨-, -, -, -, -, -, hlen, -, hcase⟩ := h
  by_cases hl : m.len = 0
  · rw [if_pos hl] at hcase
    obtain ⟨-, h1, h2, h3⟩ := hcase
    refine ⟨by omega, by omega, hlen, Or.inl ⟨by rw [h3]; rfl, h1, h2⟩⟩
  · rw [if_neg hl] at hcase
    obtain ⟨-, hcase⟩ := hcase
    by_cases hf : m.flg &&& FLOOP ≠ 0
    · rw [if_pos hf] at hcase
      exact ⟨by omega, by omega, hlen, Or.inr ⟨hf, hl, hcase.1, hcase.2⟩⟩
    · rw [if_neg hf] at hcase
      exact ⟨by omega, by omega, hlen, Or.inl ⟨by simpa using hf, hcase.1, hcase.2⟩⟩

theorem slot_flags {i : Nat} {x : Ins} {m : Smp} (h : SlotOk i x m) :
    m.flg < 256 ∧ m.flg &&& (FLOOP ||| FSTEREO ||| F16BIT) = m.flg := by
  have hf : m.flg &&& (FLOOP ||| FSTEREO ||| F16BIT) = m.flg := h.2.2.2.2.2.1
  exact ⟨flagsOk_lt (by decide) hf, hf⟩

/-- the header the reader sees for slot `(x, m)` whose PCM lies at paragraph `seg` -/
theorem rawHdr_norm {i : Nat} {x : Ins} {m : Smp} (h : SlotOk i x m) (seg c2 : Nat) (hseg : seg < 0x1000000) :
    decSmpHdr (encSmpHdr x m seg c2) =
      { typ := if m.len = 0 then 0 else 1, seg := seg, len := m.len, lps := m.lps, lpe := m.lpe,
        vol := volOf x, pack := 0, flags := flOf m, name := padTo 28 x.name, magic := magicOf m } := by
  have hv := volOf_le h
  obtain ⟨h1, h2, h3, -⟩ := slot_loop h
  obtain ⟨hf1, hf2⟩ := slot_flags h
  have hfl := (flags_codec m.flg hf1 hf2).2
  rw [← flOf_eq] at hfl
  rw [decSmpHdr_enc, rd32le_le32 (by omega), rd32le_le32 (by omega), rd32le_le32 (by omega),
    u8_toNat_lt (by omega : volOf x < 256), u8_toNat_lt (by omega : flOf m < 256)]
  have e1 : (u8 (if m.len = 0 then 0 else 1)).toNat = if m.len = 0 then 0 else 1 := by split <;> rfl
  have e2 : (u8 (seg % 65536 % 256)).toNat + (u8 (seg % 65536 / 256)).toNat * 256 + (u8 (seg / 65536)).toNat * 65536 = seg := by
    simp only [u8_toNat]; omega
  rw [e1, e2]

/-! ## PCM -/

theorem frameBytes_pos (flg : Nat) : 1 ≤ frameBytes flg := by
  unfold frameBytes; split <;> split <;> omega

theorem storePcm_length (u : Bool) (flg len : Nat) (pcm : Bytes) (h : pcm.length = len * frameBytes flg) :
    (storePcm u flg len pcm).length = pcm.length := by
  have hb := toBlocks_length flg len pcm h
  unfold storePcm
  simp only
  split
  · rw [signFlip_length _ _ _ (pcm_even flg len _ (hb.trans h)), hb]
  · exact hb

/-- **S3M sample storage codec** (signed / unsigned, 8 / 16 bit, mono / stereo blocks) -/
theorem loadPcm_storePcm (u : Bool) (flg len : Nat) (pcm : Bytes) (h : pcm.length = len * frameBytes flg) :
    loadPcm u flg len (storePcm u flg len pcm) = pcm := by
  have hb := toBlocks_length flg len pcm h
  unfold loadPcm storePcm
  cases u
  · simp only [Bool.false_eq_true, if_false]
    exact fromBlocks_toBlocks flg len pcm h
  · simp only [if_true]
    rw [signFlip_involutive _ _ _ (pcm_even flg len _ (hb.trans h))]
    exact fromBlocks_toBlocks flg len pcm h

/-! ## one slot -/

theorem hdrIns_slot {i : Nat} {x : Ins} {m : Smp} (h : SlotOk i x m) (typ seg lps lpe pack flags : Nat) (magic : Bytes) :
    hdrIns i { typ := typ, seg := seg, len := m.len, lps := lps, lpe := lpe, vol := volOf x, pack := pack,
               flags := flags, name := padTo 28 x.name, magic := magic } = x := by
  obtain ⟨hname, hkm, -, -, -, -, -, -, hcase⟩ := h
  cases x with
  | mk name subs keymap =>
  simp only at hname hkm hcase
  subst hkm
  simp only [hdrIns, copyAdjust_padTo hname, adjustString_self hname]
  by_cases hl : m.len = 0
  · rw [if_pos hl] at hcase
    simp [hl, hcase.1]
  · rw [if_neg hl] at hcase
    obtain ⟨sub, rfl, h1, h2, h3, h4, h5⟩ := subsOk_cases hcase.1
    rw [if_pos (by omega)]
    cases sub with
    | mk sid vol pan xpo fin =>
    simp only at h1 h2 h3 h4 h5
    subst h1 h3 h4 h5
    rfl

theorem hdrSmp_slot {i : Nat} {x : Ins} {m : Smp} (h : SlotOk i x m) (file : Bytes) (u : Bool) (seg typ vol pack : Nat)
    (name magic : Bytes)
    (hloc : m.len ≠ 0 → ∃ rest, file.drop (16 * seg) = storePcm u m.flg m.len m.pcm ++ rest) :
    hdrSmp file u { typ := typ, seg := seg, len := m.len, lps := m.lps, lpe := m.lpe, vol := vol, pack := pack,
                    flags := flOf m, name := name, magic := magic } = some m := by
  obtain ⟨hl1, hl2, hl3, hloop⟩ := slot_loop h
  obtain ⟨hf1, hf2⟩ := slot_flags h
  have hflg : hdrFlgN (flOfN m.flg) = m.flg := (flags_codec m.flg hf1 hf2).1
  obtain ⟨hbid, hslp, hclr, -, -⟩ := flags_s3m_facts m.flg hf1 hf2
  obtain ⟨-, -, hmn, hsus, hsue, -, -, hpcm, hcase⟩ := h
  unfold hdrSmp
  simp only [hdrFlg_eq, flOf_eq, hflg]
  by_cases hl : m.len = 0
  · rw [if_pos hl] at hcase
    obtain ⟨-, h1, h2, h3⟩ := hcase
    rw [if_pos hl]
    have hp : m.pcm = [] := List.eq_nil_of_length_eq_zero (by rw [hpcm, hl]; simp)
    cases m
    simp_all
  · rw [if_neg hl]
    obtain ⟨rest, hr⟩ := hloc hl
    have hS := storePcm_length u m.flg m.len m.pcm hpcm
    have hpos : 0 < m.len * frameBytes m.flg := Nat.mul_pos (by omega) (frameBytes_pos _)
    have hfl : 16 * seg + m.len * frameBytes m.flg ≤ file.length := by
      have := congrArg List.length hr
      rw [List.length_drop, List.length_append, hS, hpcm] at this
      omega
    rw [if_neg (by omega)]
    have htake : (file.drop (16 * seg)).take (m.len * frameBytes m.flg) = storePcm u m.flg m.len m.pcm := by
      rw [hr, List.take_left' (by rw [hS, hpcm])]
    rw [htake, loadPcm_storePcm u m.flg m.len m.pcm hpcm]
    have hls : loopSanity m.len m.lps m.lpe m.flg = (m.lps, m.lpe, m.flg) := by
      unfold loopSanity
      rcases hloop with ⟨a, b, c⟩ | ⟨a, b, c, d⟩
      · rw [b, c]
        simp only [show ¬ (0 > m.len) by omega, if_false, show (0 ≥ m.len ∨ 0 ≥ 0) by omega, if_true, hclr a]
      · simp only [show ¬ (m.lpe > m.len) by omega, if_false, show ¬ (m.lps ≥ m.len ∨ m.lps ≥ m.lpe) by omega, hbid]
        simp
    rw [hls]
    cases m
    simp_all

theorem obsLoop_slot {i : Nat} {x : Ins} {m : Smp} (h : SlotOk i x m) : obsLoop m = m := by
  obtain ⟨-, -, -, hloop⟩ := slot_loop h
  obtain ⟨hf1, hf2⟩ := slot_flags h
  obtain ⟨-, hslp, -, -, -⟩ := flags_s3m_facts m.flg hf1 hf2
  obtain ⟨-, -, -, hsus, hsue, -⟩ := h
  cases m with
  | mk name len lps lpe flg sus sue pcm =>
  simp only at hsus hsue hloop hslp
  subst hsus hsue
  unfold obsLoop
  rcases hloop with ⟨a, rfl, rfl⟩ | ⟨a, -⟩ <;> simp [a, hslp]

/-! ## all slots -/

/-- parapointers of consecutive 80-byte headers -/
def insParas (b : Nat) : Nat → List Nat
  | 0 => []
  | n + 1 => b :: insParas (b + 5) n

theorem insParas_eq (b n : Nat) : (List.range n).map (fun i => b + 5 * i) = insParas b n := by
  induction n generalizing b with
  | zero => rfl
  | succ n ih =>
    rw [List.range_succ_eq_map, List.map_cons, List.map_map, insParas, ← ih (b + 5)]
    congr 1
    apply List.map_congr_left
    intro k _
    simp only [Function.comp]; omega

theorem insParas_length (b n : Nat) : (insParas b n).length = n := by
  induction n generalizing b with
  | zero => rfl
  | succ n ih => simp [insParas, ih]

theorem insParas_lt (b n : Nat) : ∀ p ∈ insParas b n, p < b + 5 * n := by
  induction n generalizing b with
  | zero => simp [insParas]
  | succ n ih =>
    intro p hp
    simp only [insParas, List.mem_cons] at hp
    rcases hp with rfl | hp
    · omega
    · have := ih (b + 5) p hp; omega

/-- where the sample bodies are in `file` (paragraph `seg` of each slot) -/
def Located (file : Bytes) (u : Bool) : List Smp → List Nat → Prop
  | m :: ms, seg :: segs =>
    (m.len ≠ 0 → ∃ rest, file.drop (16 * seg) = storePcm u m.flg m.len m.pcm ++ rest) ∧ seg < 0x1000000 ∧
    Located file u ms segs
  | [], [] => True
  | _, _ => False

theorem readIns_step (file : Bytes) (u : Bool) (pp : Nat) (rest : List Nat) (i : Nat) (x : Ins) (m : Smp)
    (seg c2 : Nat) (tail : Bytes) (hs : SlotOk i x m) (hseg : seg < 0x1000000)
    (hloc : m.len ≠ 0 → ∃ r, file.drop (16 * seg) = storePcm u m.flg m.len m.pcm ++ r)
    (hfile : file.drop (16 * pp) = encSmpHdr x m seg c2 ++ tail) :
    readIns file u (pp :: rest) i = (readIns file u rest (i + 1)).map ((x, m) :: ·) := by
  have hb : (file.drop (16 * pp)).take 80 = encSmpHdr x m seg c2 := by
    rw [hfile, List.take_left' (encSmpHdr_length _ _ _ _)]
  obtain ⟨h1, h2, h3, hloop⟩ := slot_loop hs
  conv => lhs; unfold readIns
  simp only [hb, encSmpHdr_length, Nat.lt_irrefl, if_false, rawHdr_norm hs seg c2 hseg]
  have a1 : ¬ ((if m.len = 0 then 0 else 1) ≥ 2) := by split <;> omega
  have a2 : ¬ (m.len > 0x10000000) := by omega
  have a3 : ¬ (m.lps ≥ 0x80000000 ∨ m.lpe ≥ 0x80000000) := by omega
  have a4 : ¬ ((if m.len = 0 then 0 else 1) = 1 ∧ magicOf m ≠ str "SCRS") := by
    unfold magicOf
    by_cases hl : m.len = 0 <;> simp [hl]
  simp only [a1, a2, a3, a4, if_false, show ¬ (0 = 4) by omega]
  rw [hdrSmp_slot hs file u seg _ _ _ _ _ hloc, hdrIns_slot hs]

theorem slotsOk_cons {i : Nat} {x : Ins} {xs : List Ins} {m : Smp} {ms : List Smp} :
    SlotsOk i (x :: xs) (m :: ms) ↔ SlotOk i x m ∧ SlotsOk (i + 1) xs ms := by
  simp [SlotsOk]

theorem slotsOk_length {i : Nat} {xs : List Ins} {ms : List Smp} (h : SlotsOk i xs ms) :
    xs.length = ms.length := by
  induction xs generalizing i ms with
  | nil => cases ms with
    | nil => rfl
    | cons m ms => simp [SlotsOk] at h
  | cons x xs ih => cases ms with
    | nil => simp [SlotsOk] at h
    | cons m ms => simp [ih (slotsOk_cons.1 h).2]

theorem readIns_rt (o : Opts) (file : Bytes) (u : Bool) (xs : List Ins) (ms : List Smp) (segs : List Nat) (i b : Nat)
    (pre post : Bytes) (hpre : pre.length = 16 * b) (hs : SlotsOk i xs ms) (hloc : Located file u ms segs)
    (hfile : file = pre ++ (encSmpHdrs o xs ms segs i ++ post)) :
    readIns file u (insParas b xs.length) i = some (xs.zip ms) := by
  induction xs generalizing ms segs i b pre with
  | nil => simp [insParas, readIns]
  | cons x xs ih =>
    cases ms with
    | nil => simp [SlotsOk] at hs
    | cons m ms =>
    cases segs with
    | nil => simp [Located] at hloc
    | cons seg segs =>
    obtain ⟨hs1, hs2⟩ := slotsOk_cons.1 hs
    obtain ⟨hl1, hl2, hl3⟩ := hloc
    simp only [encSmpHdrs, List.append_assoc] at hfile
    simp only [List.length_cons, insParas]
    have hdrop : file.drop (16 * b) =
        encSmpHdr x m (if m.len = 0 then 0 else seg) (o.c2spd i) ++ (encSmpHdrs o xs ms segs (i + 1) ++ post) := by
      rw [hfile, List.drop_left' hpre]
    have hseg' : (if m.len = 0 then 0 else seg) < 0x1000000 := by split <;> omega
    have hloc' : m.len ≠ 0 → ∃ r, file.drop (16 * (if m.len = 0 then 0 else seg)) = storePcm u m.flg m.len m.pcm ++ r := by
      intro hl; rw [if_neg hl]; exact hl1 hl
    rw [readIns_step file u b _ i x m _ _ _ hs1 hseg' hloc' hdrop]
    rw [ih ms segs (i + 1) (b + 5) (pre ++ encSmpHdr x m (if m.len = 0 then 0 else seg) (o.c2spd i))
      (by rw [List.length_append, hpre, encSmpHdr_length]; omega) hs2 hl3
      (by rw [hfile, List.append_assoc])]
    simp

/-! ## locating the blobs -/

theorem smpBlob_mod (o : Opts) (m : Smp) : (smpBlob o m).length % 16 = 0 := pad16_length_mod _

theorem located_blobs (o : Opts) (file : Bytes) (ms : List Smp) (base : Nat) (pre post : Bytes)
    (hpre : pre.length = 16 * base) (hfile : file = pre ++ ((ms.map (smpBlob o)).flatten ++ post))
    (hseg : ∀ seg ∈ parasOf base (ms.map (smpBlob o)), seg < 0x1000000) :
    Located file (decide (o.ffi ≠ 1)) ms (parasOf base (ms.map (smpBlob o))) := by
  induction ms generalizing base pre with
  | nil => simp [parasOf, Located]
  | cons m ms ih =>
    simp only [List.map_cons, parasOf, Located]
    simp only [List.map_cons, List.flatten_cons, List.append_assoc] at hfile
    simp only [List.map_cons, parasOf, List.mem_cons, forall_eq_or_imp] at hseg
    refine ⟨fun _ => ⟨List.replicate ((16 - (storePcm (decide (o.ffi ≠ 1)) m.flg m.len m.pcm).length % 16) % 16) 0 ++
        ((ms.map (smpBlob o)).flatten ++ post), ?_⟩, hseg.1, ?_⟩
    · rw [hfile, List.drop_left' hpre]
      simp only [smpBlob, pad16_eq, List.append_assoc]
    · have hm := smpBlob_mod o m
      exact ih (base + (smpBlob o m).length / 16) (pre ++ smpBlob o m)
        (by rw [List.length_append, hpre]; omega) (by rw [hfile, List.append_assoc]) hseg.2

/-! ## patterns -/

/-- what the reader does with one pattern parapointer -/
def rdPat (chn : Nat) (bs : Bytes) (pp : Nat) : Option Pat :=
  if pp = 0 then some { rows := 64, cells := List.replicate (64 * chn) {} } else unpack chn (bs.drop (16 * pp))

theorem emptyPat_eq {chn : Nat} {p : Pat} (hp : PatOk chn p) (he : isEmptyPat p = true) :
    p = { rows := 64, cells := List.replicate (64 * chn) {} } := by
  obtain ⟨hr, hl, -⟩ := hp
  cases p with
  | mk rows cells =>
  simp only at hr hl
  subst hr
  congr 1
  rw [List.eq_replicate_iff]
  refine ⟨hl, fun c hc => ?_⟩
  simp only [isEmptyPat, List.all_eq_true, Bool.and_eq_true, decide_eq_true_eq] at he
  obtain ⟨⟨a, b⟩, d⟩ := he c hc
  cases c; simp_all

theorem patBlob_mod (chn : Nat) (o : Opts) (p : Pat) (ci : Nat) : (patBlob chn o p ci).length % 16 = 0 := by
  unfold patBlob; split
  · rfl
  · exact pad16_length_mod _

theorem pats_rt (chn : Nat) (hc : 1 ≤ chn ∧ chn ≤ 32) (o : Opts) (file : Bytes) (ps : List Pat)
    (hps : ∀ p ∈ ps, PatOk chn p) (ci base : Nat) (hbase : 1 ≤ base) (pre post : Bytes)
    (hpre : pre.length = 16 * base) (hfile : file = pre ++ ((patBlobs chn o ps ci).flatten ++ post)) :
    (patParasOf base (patBlobs chn o ps ci)).mapM (rdPat chn file) = some ps := by
  induction ps generalizing ci base pre with
  | nil => simp [patBlobs, patParasOf]
  | cons p ps ih =>
    have hp := hps p (by simp)
    simp only [patBlobs, List.flatten_cons, List.append_assoc] at hfile
    have hm := patBlob_mod chn o p ci
    have ih' := ih (fun q hq => hps q (by simp [hq])) (ci + p.cells.length) (base + (patBlob chn o p ci).length / 16)
      (by omega) (pre ++ patBlob chn o p ci) (by rw [List.length_append, hpre]; omega)
      (by rw [hfile, List.append_assoc])
    simp only [patBlobs, patParasOf, List.mapM_cons, ih']
    by_cases he : (o.nullEmpty && isEmptyPat p) = true
    · have hb : patBlob chn o p ci = [] := by unfold patBlob; rw [if_pos he]
      have hpe := emptyPat_eq hp (by simp only [Bool.and_eq_true] at he; exact he.2)
      simp only [hb, List.isEmpty_nil, if_true, rdPat]
      rw [← hpe]; rfl
    · have hb : patBlob chn o p ci =
          pad16 (le16 ((pack chn p o.force o.fx ci).length + 2) ++ pack chn p o.force o.fx ci) := by
        unfold patBlob; rw [if_neg he]
      have hne : (patBlob chn o p ci).isEmpty = false := by
        rw [hb, pad16_eq]; simp [le16]
      have hb0 : ¬ base = 0 := by omega
      simp only [hne, Bool.false_eq_true, if_false, rdPat, hb0]
      rw [hfile, List.drop_left' hpre, hb, pad16_eq]
      simp only [List.append_assoc]
      have := unpack_pack chn p o.force o.fx ci hc hp
        (List.replicate ((16 - (le16 ((pack chn p o.force o.fx ci).length + 2) ++ pack chn p o.force o.fx ci).length % 16) % 16) 0 ++
          ((patBlobs chn o ps (ci + p.cells.length)).flatten ++ post))
      simp only [List.append_assoc] at this
      rw [this]; rfl

/-! ## header -/

def chsetOf (s : Module) (o : Opts) : Bytes := (List.range 32).map fun k => if k < s.chn then o.chset k else 0xff

theorem str_scrm : str "SCRM" = [83, 67, 82, 77] := by decide +kernel

theorem fileHdr_eq (s : Module) (o : Opts) :
    fileHdr s o = padTo 28 s.name ++
      ([0x1a, 16, 0, 0, u8 (s.orders.length % 256), u8 (s.orders.length / 256), u8 (s.ins.length % 256), u8 (s.ins.length / 256),
        u8 (s.pats.length % 256), u8 (s.pats.length / 256), u8 (o.flags % 256), u8 (o.flags / 256), u8 (o.cwt % 256), u8 (o.cwt / 256),
        u8 (o.ffi % 256), u8 (o.ffi / 256), 83, 67, 82, 77, o.gv, u8 s.spd, u8 s.bpm, o.mv, 0, (if o.pan.isSome then 0xfc else 0),
        0, 0, 0, 0, 0, 0, 0, 0, 0, 0] ++ chsetOf s o) := by
  simp [fileHdr, chsetOf, le16, str_scrm, List.replicate]

theorem chsetOf_length (s : Module) (o : Opts) : (chsetOf s o).length = 32 := by simp [chsetOf]

theorem fileHdr_length (s : Module) (o : Opts) : (fileHdr s o).length = 96 := by
  rw [fileHdr_eq]; simp [padTo_length, chsetOf_length]

theorem fileHdr_fields (s : Module) (o : Opts) :
    ((fileHdr s o).drop 44).take 4 = str "SCRM" ∧ (fileHdr s o).getD 29 0 = 0x10 ∧
    rd16le (((fileHdr s o).drop 32).take 2) = (u8 (s.orders.length % 256)).toNat + (u8 (s.orders.length / 256)).toNat * 256 ∧
    rd16le (((fileHdr s o).drop 34).take 2) = (u8 (s.ins.length % 256)).toNat + (u8 (s.ins.length / 256)).toNat * 256 ∧
    rd16le (((fileHdr s o).drop 36).take 2) = (u8 (s.pats.length % 256)).toNat + (u8 (s.pats.length / 256)).toNat * 256 ∧
    rd16le (((fileHdr s o).drop 42).take 2) = (u8 (o.ffi % 256)).toNat + (u8 (o.ffi / 256)).toNat * 256 ∧
    (fileHdr s o).drop 64 = chsetOf s o ∧ (fileHdr s o).take 28 = padTo 28 s.name ∧
    (fileHdr s o).getD 49 0 = u8 s.spd ∧ (fileHdr s o).getD 50 0 = u8 s.bpm := by
  have hn := padTo_length 28 s.name
  rw [fileHdr_eq, str_scrm]
  refine ⟨?_, ?_, ?_, ?_, ?_, ?_, ?_, ?_, ?_, ?_⟩
  · rw [drop_add_left hn 16]; rfl
  · rw [List.getD_eq_getElem?_getD, List.getElem?_append_right (by omega), hn]; rfl
  · rw [drop_add_left hn 4]; rfl
  · rw [drop_add_left hn 6]; rfl
  · rw [drop_add_left hn 8]; rfl
  · rw [drop_add_left hn 14]; rfl
  · rw [drop_add_left hn 36]; rfl
  · rw [List.take_left' hn]
  · rw [List.getD_eq_getElem?_getD, List.getElem?_append_right (by omega), hn]; rfl
  · rw [List.getD_eq_getElem?_getD, List.getElem?_append_right (by omega), hn]; rfl

/-! ### channel count -/

def chStep (m : Nat) (ci : UInt8 × Nat) : Nat := if ci.1 ≠ 0xff then ci.2 + 1 else m

theorem chnCount_eq (b : Bytes) : chnCount b = (b.zipIdx).foldl chStep 0 := rfl

theorem chfold_off (l : Bytes) (j m : Nat) (h : ∀ c ∈ l, c = 0xff) : (l.zipIdx j).foldl chStep m = m := by
  induction l generalizing j m with
  | nil => rfl
  | cons c l ih =>
    simp only [List.zipIdx_cons, List.foldl_cons, chStep, h c (by simp), ne_eq, not_true_eq_false, if_false]
    exact ih (j + 1) m (fun c hc => h c (by simp [hc]))

theorem chfold_on (l : Bytes) (j m : Nat) (h : ∀ c ∈ l, c ≠ 0xff) (hne : l ≠ []) :
    (l.zipIdx j).foldl chStep m = j + l.length := by
  induction l generalizing j m with
  | nil => exact absurd rfl hne
  | cons c l ih =>
    simp only [List.zipIdx_cons, List.foldl_cons, chStep, h c (by simp), ne_eq, not_false_eq_true, if_true]
    cases l with
    | nil => simp
    | cons c' r =>
      rw [ih (j + 1) (j + 1) (fun c hc => h c (by simp [hc])) (by simp)]
      simp only [List.length_cons]; omega

theorem chsetOf_split (s : Module) (o : Opts) (h32 : s.chn ≤ 32) :
    chsetOf s o = (List.range s.chn).map o.chset ++ List.replicate (32 - s.chn) 0xff := by
  apply List.ext_getElem
  · simp [chsetOf]; omega
  · intro i h1 h2
    simp only [chsetOf, List.getElem_map, List.getElem_range, List.getElem_append, List.length_map, List.length_range,
      List.getElem_replicate]
    split <;> rfl

theorem chnCount_chset (s : Module) (o : Opts) (hc : 1 ≤ s.chn ∧ s.chn ≤ 32)
    (hf : ∀ k ∈ List.range s.chn, o.chset k ≠ 0xff) : chnCount (chsetOf s o) = s.chn := by
  rw [chnCount_eq, chsetOf_split s o hc.2, List.zipIdx_append, List.foldl_append]
  rw [chfold_off _ _ _ (by intro c hc; exact (List.mem_replicate.1 hc).2)]
  rw [chfold_on _ 0 0 (by intro c hc; simp only [List.mem_map] at hc; obtain ⟨k, hk, rfl⟩ := hc; exact hf k hk)
    (by intro h; have := congrArg List.length h; simp at this; omega)]
  simp

/-! ### order list -/

def ordStep (m : Nat) (o : UInt8) : Nat := if o.toNat < 0xfe ∧ o.toNat + 1 > m then o.toNat + 1 else m

theorem patCount_eq (ords : Bytes) (patnum : Nat) :
    patCount ords patnum = if ords.foldl ordStep 0 > patnum then patnum else ords.foldl ordStep 0 := rfl

theorem ordfold_le (ords : Bytes) (m : Nat) (h : m ≤ 0xfe) : ords.foldl ordStep m ≤ 0xfe := by
  induction ords generalizing m with
  | nil => exact h
  | cons o os ih =>
    simp only [List.foldl_cons]
    apply ih
    unfold ordStep; split <;> omega

theorem patCount_le (ords : Bytes) (patnum : Nat) : patCount ords patnum ≤ 0xfe := by
  have := ordfold_le ords 0 (by omega)
  rw [patCount_eq]; split <;> omega

/-- the first real order entry of a playable list -/
theorem playable_first {ords : Bytes} (h : playable ords = true) : ∃ x ∈ ords, x.toNat < 0xfe ∧
    ∃ r, ords.dropWhile (· == 0xfe) = x :: r := by
  unfold playable at h
  split at h
  · next x r hd =>
    refine ⟨x, ?_, by simpa using h, r, hd⟩
    have : x ∈ ords.dropWhile (· == 0xfe) := by rw [hd]; simp
    exact (List.dropWhile_sublist _).subset this
  · cases h

theorem startsAtPattern_of {ords : Bytes} {pat : Nat} (hp : playable ords = true)
    (ho : ∀ x ∈ ords, x.toNat < pat ∨ x.toNat ≥ 0xfe) : startsAtPattern pat ords = true := by
  obtain ⟨x, hx, hlt, r, hd⟩ := playable_first hp
  unfold startsAtPattern
  rw [hd]
  have := ho x hx
  simp only [decide_eq_true_eq]; omega

/-- a scan that reaches a stored pattern names one -/
theorem startsValid_exists {ords : Bytes} {pat : Nat} (h : startsValid pat ords = true) : ∃ x ∈ ords, x.toNat < pat := by
  unfold startsValid at h
  split at h
  · next x r hd =>
    refine ⟨x, ?_, by simpa using h⟩
    have : x ∈ ords.dropWhile (fun o => decide (o.toNat ≥ pat ∧ o.toNat ≠ 0xff)) := by rw [hd]; simp
    exact (List.dropWhile_sublist _).subset this
  · cases h

theorem scanStarts_of {ords : Bytes} {pat : Nat} (h : startsValid pat ords = true) : scanStarts pat ords = true := by
  unfold scanStarts; rw [h, Bool.or_true]

/-- `libxmp_prepare_scan` keeps the order list when some entry names a stored pattern -/
theorem fixOrders_of {ords : Bytes} {pat : Nat} (ho : ∃ x ∈ ords, x.toNat < pat) : fixOrders pat ords = ords := by
  obtain ⟨x, hx, hlt⟩ := ho
  unfold fixOrders
  have : ords.all (fun o => decide (o.toNat ≥ pat)) = false := by
    rw [List.all_eq_false]
    refine ⟨x, hx, ?_⟩
    simp only [decide_eq_true_eq]; omega
  rw [this]; rfl

/-! ## the reader on a file whose parts are known -/

theorem read_eq_some {bs hdr ords r1 ib r2 pb r3 : Bytes} {ordnum insnum patnum ffi : Nat}
    {pats : List Pat} {sl : List (Ins × Smp)}
    (hlen : ¬ bs.length < 96) (hhdr : bs.take 96 = hdr)
    (hmagic : (hdr.drop 44).take 4 = str "SCRM") (h29 : hdr.getD 29 0 = 0x10)
    (hord : rd16le ((hdr.drop 32).take 2) = ordnum) (hins : rd16le ((hdr.drop 34).take 2) = insnum)
    (hpat : rd16le ((hdr.drop 36).take 2) = patnum) (hffi : rd16le ((hdr.drop 42).take 2) = ffi)
    (hffi12 : ffi = 1 ∨ ffi = 2) (hlim : ordnum ≤ 255 ∧ insnum ≤ 255 ∧ patnum ≤ 255)
    (h1 : takeN ordnum (bs.drop 96) = some (ords, r1))
    (hpc : patCount ords patnum ≠ 0) (hstart : scanStarts (patCount ords patnum) ords = true)
    (h2 : takeN (2 * insnum) r1 = some (ib, r2)) (h3 : takeN (2 * patnum) r2 = some (pb, r3))
    (hpats : ((decodeN 2 rd16le patnum pb).take (patCount ords patnum)).mapM (rdPat (chnCount (hdr.drop 64)) bs) = some pats)
    (hsl : readIns bs (decide (ffi ≠ 1)) (decodeN 2 rd16le insnum ib) 0 = some sl) :
    read bs = some { name := adjustString (copyAdjust 28 (hdr.take 28)), chn := chnCount (hdr.drop 64),
                     orders := fixOrders (patCount ords patnum) ords, pats := pats, ins := sl.map (·.1),
                     smps := sl.map (obsLoop ·.2), spd := fixSpd (hdr.getD 49 0).toNat,
                     bpm := fixBpm (hdr.getD 50 0).toNat } := by
  have c1 : ¬ (ffi ≠ 1 ∧ ffi ≠ 2) := by omega
  have c2 : ¬ (ordnum > 255 ∨ insnum > 255 ∨ patnum > 255) := by omega
  unfold rdPat at hpats
  unfold read
  simp only [hlen, hhdr, hmagic, h29, hord, hins, hpat, hffi, c1, c2, h1, hpc, hstart, h2, h3, hpats, hsl,
    Option.bind_eq_bind, Option.bind_some, if_false, ne_eq, not_true_eq_false, Bool.not_true, Bool.false_eq_true,
    Option.bind_none]

/-! ## sizes of the parts -/

theorem patBlobs_length (chn : Nat) (o : Opts) (ps : List Pat) (ci : Nat) : (patBlobs chn o ps ci).length = ps.length := by
  induction ps generalizing ci with
  | nil => rfl
  | cons p ps ih => simp [patBlobs, ih]

theorem patParasOf_length (base : Nat) (bs : List Bytes) : (patParasOf base bs).length = bs.length := by
  induction bs generalizing base with
  | nil => rfl
  | cons b bs ih => simp [patParasOf, ih]

theorem parasOf_length (base : Nat) (bs : List Bytes) : (parasOf base bs).length = bs.length := by
  induction bs generalizing base with
  | nil => rfl
  | cons b bs ih => simp [parasOf, ih]

theorem patParas_length (s : Module) (o : Opts) : (patParas s o).length = s.pats.length := by
  unfold patParas; rw [patParasOf_length, patBlobs_length]

theorem smpParas_length (s : Module) (o : Opts) : (smpParas s o).length = s.smps.length := by
  unfold smpParas; rw [parasOf_length, List.length_map]

theorem flatten_length_paras (bs : List Bytes) (h : ∀ b ∈ bs, b.length % 16 = 0) :
    bs.flatten.length = 16 * (bs.map (·.length / 16)).sum := by
  induction bs with
  | nil => rfl
  | cons b bs ih =>
    have := h b (by simp)
    simp only [List.flatten_cons, List.length_append, List.map_cons, List.sum_cons, ih (fun c hc => h c (by simp [hc]))]
    omega

theorem patBlobs_mod (chn : Nat) (o : Opts) (ps : List Pat) (ci : Nat) : ∀ b ∈ patBlobs chn o ps ci, b.length % 16 = 0 := by
  induction ps generalizing ci with
  | nil => simp [patBlobs]
  | cons p ps ih =>
    intro b hb
    simp only [patBlobs, List.mem_cons] at hb
    rcases hb with rfl | hb
    · exact patBlob_mod _ _ _ _
    · exact ih _ b hb

theorem encSmpHdrs_length (o : Opts) (xs : List Ins) (ms : List Smp) (segs : List Nat) (i : Nat)
    (h1 : xs.length = ms.length) (h2 : segs.length = ms.length) : (encSmpHdrs o xs ms segs i).length = 80 * xs.length := by
  induction xs generalizing ms segs i with
  | nil => simp [encSmpHdrs]
  | cons x xs ih =>
    cases ms with
    | nil => simp at h1
    | cons m ms =>
    cases segs with
    | nil => simp at h2
    | cons seg segs =>
      simp only [encSmpHdrs, List.length_append, encSmpHdr_length, List.length_cons,
        ih ms segs (i + 1) (by simpa using h1) (by simpa using h2)]
      omega

theorem insTable_eq (b n : Nat) : (List.range n).flatMap (fun i => le16 (b + 5 * i)) = (insParas b n).flatMap le16 := by
  rw [← insParas_eq, List.flatMap_map]

theorem zip_fst {i : Nat} {xs : List Ins} {ms : List Smp} (h : SlotsOk i xs ms) : (xs.zip ms).map (·.1) = xs := by
  induction xs generalizing i ms with
  | nil => simp
  | cons x xs ih => cases ms with
    | nil => simp [SlotsOk] at h
    | cons m ms => simp [ih (slotsOk_cons.1 h).2]

theorem zip_snd_obs {i : Nat} {xs : List Ins} {ms : List Smp} (h : SlotsOk i xs ms) :
    (xs.zip ms).map (fun p => obsLoop p.2) = ms := by
  induction xs generalizing i ms with
  | nil => cases ms with
    | nil => rfl
    | cons m ms => simp [SlotsOk] at h
  | cons x xs ih => cases ms with
    | nil => simp [SlotsOk] at h
    | cons m ms =>
      obtain ⟨h1, h2⟩ := slotsOk_cons.1 h
      simp [obsLoop_slot h1, ih h2]

/-! ## the theorem -/

/-- **S3M whole-file round trip**: every well-formed song, written with any writer options (signed/unsigned
PCM, pan table, redundant `what` flags, effect bytes, empty patterns stored or not), is read back exactly. -/
theorem roundtrip (s : Module) (o : Opts) (h : WellFormed s o) : read (write s o) = some s := by
  obtain ⟨hname, hplay, hchn, hffi, hchset, hnord, hnins, ⟨hnpat1, hpc⟩, hpats, hslots, hspd, hbpm, -, hpp, hsp⟩ := h
  have hords := startsValid_exists hplay
  have hnpat : s.pats.length ≤ 254 := by rw [← hpc]; exact patCount_le _ _
  have hlen := slotsOk_length hslots
  obtain ⟨f1, f2, f3, f4, f5, f6, f7, f8, f9, f10⟩ := fileHdr_fields s o
  -- the parts
  generalize hT1 : (List.range s.ins.length).flatMap (fun i => le16 (basePara s o + 5 * i)) = T1
  generalize hT2 : (patParas s o).flatMap le16 = T2
  generalize hIH : encSmpHdrs o s.ins s.smps (smpParas s o) 0 = IH
  generalize hPB : (patBlobs s.chn o s.pats 0).flatten = PB
  generalize hSB : (s.smps.map (smpBlob o)).flatten = SB
  have hT1l : T1.length = 2 * s.ins.length := by
    rw [← hT1, insTable_eq, flatMap_le16_length, insParas_length]
  have hT2l : T2.length = 2 * s.pats.length := by
    rw [← hT2, flatMap_le16_length, patParas_length]
  have hIHl : IH.length = 80 * s.ins.length := by
    rw [← hIH, encSmpHdrs_length o _ _ _ _ hlen (smpParas_length s o)]
  have hPBl : PB.length = 16 * ((patBlobs s.chn o s.pats 0).map (·.length / 16)).sum := by
    rw [← hPB]; exact flatten_length_paras _ (patBlobs_mod _ _ _ _)
  generalize hpad : List.replicate ((16 - (fileHdr s o ++ (s.orders ++ (T1 ++ (T2 ++ panBytes o)))).length % 16) % 16) (0 : UInt8) = pad
  have hw : write s o = fileHdr s o ++ (s.orders ++ (T1 ++ (T2 ++ (panBytes o ++ (pad ++ (IH ++ (PB ++ SB))))))) := by
    simp only [write, hT1, hT2, hIH, hPB, hSB, pad16_eq, hpad, List.append_assoc]
  have hheadl : (fileHdr s o ++ (s.orders ++ (T1 ++ (T2 ++ (panBytes o ++ pad))))).length = 16 * basePara s o := by
    have := pad16_length (fileHdr s o ++ (s.orders ++ (T1 ++ (T2 ++ panBytes o))))
    rw [pad16_eq, hpad] at this
    simp only [List.append_assoc] at this
    rw [this]
    simp only [List.length_append, fileHdr_length, hT1l, hT2l, basePara]
    omega
  have hbase6 : 6 ≤ basePara s o := by unfold basePara; omega
  have hbaseub : basePara s o ≤ 100 := by
    have : (panBytes o).length ≤ 32 := by
      unfold panBytes; split
      · rw [padTo_length]; exact Nat.le_refl _
      · simp
    unfold basePara; omega
  -- reader steps
  have g0 : ¬ (write s o).length < 96 := by
    rw [hw, List.length_append, fileHdr_length]; omega
  have g1 : (write s o).take 96 = fileHdr s o := by rw [hw, List.take_left' (fileHdr_length s o)]
  have g2 : (write s o).drop 96 = s.orders ++ (T1 ++ (T2 ++ (panBytes o ++ (pad ++ (IH ++ (PB ++ SB)))))) := by
    rw [hw, List.drop_left' (fileHdr_length s o)]
  have e1 : (u8 (s.orders.length % 256)).toNat + (u8 (s.orders.length / 256)).toNat * 256 = s.orders.length := by
    simp only [u8_toNat]; omega
  have e2 : (u8 (s.ins.length % 256)).toNat + (u8 (s.ins.length / 256)).toNat * 256 = s.ins.length := by
    simp only [u8_toNat]; omega
  have e3 : (u8 (s.pats.length % 256)).toNat + (u8 (s.pats.length / 256)).toNat * 256 = s.pats.length := by
    simp only [u8_toNat]; omega
  have e4 : (u8 (o.ffi % 256)).toNat + (u8 (o.ffi / 256)).toNat * 256 = o.ffi := by
    simp only [u8_toNat]; omega
  have t1 := takeN_append (T1 ++ (T2 ++ (panBytes o ++ (pad ++ (IH ++ (PB ++ SB)))))) (rfl : s.orders.length = s.orders.length)
  have t2 := takeN_append (T2 ++ (panBytes o ++ (pad ++ (IH ++ (PB ++ SB))))) hT1l
  have t3 := takeN_append (panBytes o ++ (pad ++ (IH ++ (PB ++ SB)))) hT2l
  rw [← g2] at t1
  have d1 : decodeN 2 rd16le s.ins.length T1 = insParas (basePara s o) s.ins.length := by
    have := decodeN_le16 (insParas (basePara s o) s.ins.length)
      (fun p hp => by have := insParas_lt _ _ p hp; omega) []
    rwa [List.append_nil, insParas_length, ← insTable_eq, hT1] at this
  have d2 : decodeN 2 rd16le s.pats.length T2 = patParas s o := by
    have := decodeN_le16 (patParas s o) hpp []
    rwa [List.append_nil, patParas_length, hT2] at this
  have hchnc : chnCount ((fileHdr s o).drop 64) = s.chn := by rw [f7]; exact chnCount_chset s o hchn hchset
  -- patterns
  have p1 : ((decodeN 2 rd16le s.pats.length T2).take (patCount s.orders s.pats.length)).mapM
      (rdPat (chnCount ((fileHdr s o).drop 64)) (write s o)) = some s.pats := by
    rw [d2, hpc, hchnc, List.take_of_length_le (by rw [patParas_length]; exact Nat.le_refl _)]
    unfold patParas patBase
    refine pats_rt s.chn hchn o (write s o) s.pats hpats 0 _ (by omega)
      (fileHdr s o ++ (s.orders ++ (T1 ++ (T2 ++ (panBytes o ++ pad)))) ++ IH) SB ?_ ?_
    · rw [List.length_append, hheadl, hIHl]; omega
    · rw [hw, hPB]; simp only [List.append_assoc]
  -- samples
  have l1 : Located (write s o) (decide (o.ffi ≠ 1)) s.smps (smpParas s o) := by
    unfold smpParas smpBase patBase
    refine located_blobs o (write s o) s.smps _
      (fileHdr s o ++ (s.orders ++ (T1 ++ (T2 ++ (panBytes o ++ pad)))) ++ IH ++ PB) [] ?_ ?_ hsp
    · rw [List.length_append, List.length_append, hheadl, hIHl, hPBl]; omega
    · rw [hw, hSB]; simp only [List.append_assoc, List.append_nil]
  have s1 : readIns (write s o) (decide (o.ffi ≠ 1)) (decodeN 2 rd16le s.ins.length T1) 0 = some (s.ins.zip s.smps) := by
    rw [d1]
    exact readIns_rt o (write s o) _ s.ins s.smps (smpParas s o) 0 (basePara s o)
      (fileHdr s o ++ (s.orders ++ (T1 ++ (T2 ++ (panBytes o ++ pad))))) (PB ++ SB) hheadl hslots l1
      (by rw [hw, hIH]; simp only [List.append_assoc])
  have key := read_eq_some g0 g1 f1 f2 (f3.trans e1) (f4.trans e2) (f5.trans e3) (f6.trans e4) hffi
    ⟨hnord, hnins, by omega⟩ t1 (by rw [hpc]; omega)
    (by rw [hpc]; exact scanStarts_of hplay) t2 t3 p1 s1
  rw [key, f8, f9, f10, hchnc, hpc, copyAdjust_padTo hname, adjustString_self hname, fixOrders_of hords,
    zip_fst hslots, zip_snd_obs hslots, fixSpd_byte hspd.1 hspd.2, fixBpm_byte hbpm.1 hbpm.2]

end Xmp.Fmt.S3m
