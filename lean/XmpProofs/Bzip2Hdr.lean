import XmpModel.Bzip2
import XmpProofs.Bzip2Bits
/-!
# bzip2: the fields of `read_block_header` read back what the block writer `encodeBlock` puts

symbol bitmap, selector list, code lengths.
-/
namespace Xmp.Bzip2
open Xmp

/-! ## a bit list as a number -/

def bitsVal (acc : Nat) (bs : Bits) : Nat := bs.foldl (fun a b => 2 * a + b.toNat) acc

theorem getBitsAux_bits (rest : Bits) : ∀ (bs : Bits) (acc : Nat),
    getBitsAux bs.length acc (bs ++ rest) = .ok (bitsVal acc bs, rest)
  | [], acc => by simp [getBitsAux, bitsVal]
  | b :: bs, acc => by
    simp only [List.length_cons, List.cons_append, getBitsAux]
    rw [getBitsAux_bits rest bs]; rfl

theorem getBits_bits (bs rest : Bits) (n : Nat) (h : bs.length = n) :
    getBits n (bs ++ rest) = .ok (bitsVal 0 bs, rest) := by
  subst h; exact getBitsAux_bits rest bs 0

theorem bitsVal_testBit : ∀ (bs : Bits) (acc k : Nat),
    (bitsVal acc bs).testBit k = if k < bs.length then bs.getD (bs.length - 1 - k) false else acc.testBit (k - bs.length)
  | [], acc, k => by simp [bitsVal]
  | b :: t, acc, k => by
    show (bitsVal (2 * acc + b.toNat) t).testBit k = _
    rw [bitsVal_testBit t]
    simp only [List.length_cons]
    by_cases h1 : k < t.length
    · rw [if_pos h1, if_pos (by omega)]
      have : t.length + 1 - 1 - k = (t.length - 1 - k) + 1 := by omega
      rw [this, List.getD_cons_succ]
    · rw [if_neg h1]
      by_cases h2 : k = t.length
      · subst h2
        rw [if_pos (by omega)]
        have : t.length + 1 - 1 - t.length = 0 := by omega
        rw [this, Nat.sub_self, List.getD_cons_zero]
        cases b <;> simp [Nat.testBit, Nat.add_mod]
      · rw [if_neg (by omega)]
        obtain ⟨d, hd⟩ : ∃ d, k - t.length = d + 1 := ⟨k - t.length - 1, by omega⟩
        rw [hd, Nat.testBit_succ]
        have : (2 * acc + b.toNat) / 2 = acc := by cases b <;> simp <;> omega
        rw [this]; congr 1; omega

/-! ## the symbol bitmap -/

theorem filterMap_congr' {α β : Type} (f g : α → Option β) : ∀ (l : List α), (∀ a ∈ l, f a = g a) →
    l.filterMap f = l.filterMap g
  | [], _ => rfl
  | a :: t, h => by
    simp only [List.filterMap_cons, h a List.mem_cons_self,
      filterMap_congr' f g t (fun b hb => h b (List.mem_cons_of_mem _ hb))]

theorem flatMap_congr' {α β : Type} (f g : α → List β) : ∀ (l : List α), (∀ a ∈ l, f a = g a) →
    l.flatMap f = l.flatMap g
  | [], _ => rfl
  | a :: t, h => by
    simp only [List.flatMap_cons, h a List.mem_cons_self,
      flatMap_congr' f g t (fun b hb => h b (List.mem_cons_of_mem _ hb))]

/-- byte values of row `i` (16 consecutive values) that satisfy `has` -/
def rowBytes (has : Nat → Bool) (i : Nat) : List UInt8 :=
  (List.range 16).filterMap (fun j => if has (16 * i + j) then some (UInt8.ofNat (16 * i + j)) else none)

def rowBits (has : Nat → Bool) (i : Nat) : Bits := (List.range 16).map (fun j => has (16 * i + j))

theorem rowSyms_rowBits (has : Nat → Bool) (i : Nat) : rowSyms i (bitsVal 0 (rowBits has i)) = rowBytes has i := by
  unfold rowSyms rowBytes
  apply filterMap_congr'
  intro j hj
  have hj' : j < 16 := List.mem_range.mp hj
  have hl : (rowBits has i).length = 16 := by simp [rowBits]
  have hg : (rowBits has i).getD j false = has (16 * i + j) := by
    unfold rowBits
    rw [List.getD_eq_getElem?_getD, List.getElem?_map, List.getElem?_range hj']; rfl
  have e : (bitsVal 0 (rowBits has i)).testBit (15 - j) = has (16 * i + j) := by
    rw [bitsVal_testBit, hl, if_pos (by omega), show 16 - 1 - (15 - j) = j by omega, hg]
  rw [e]

theorem rowBytes_of_not_any (has : Nat → Bool) (i : Nat) (h : (List.range 16).any (fun j => has (16 * i + j)) = false) :
    rowBytes has i = [] := by
  unfold rowBytes
  rw [List.filterMap_eq_nil_iff]
  intro j hj
  have := (List.any_eq_false.mp h) j hj
  simp [this]

theorem readSymMapGo_rows (has : Nat → Bool) (hh : Nat) (rest : Bits) : ∀ (rows : List Nat),
    (∀ i ∈ rows, hh.testBit (15 - i) = (List.range 16).any (fun j => has (16 * i + j))) →
    readSymMapGo hh rows
      (rows.flatMap (fun i => if (List.range 16).any (fun j => has (16 * i + j)) then rowBits has i else []) ++ rest) =
      .ok (rows.flatMap (rowBytes has), rest)
  | [], _ => by simp [readSymMapGo]
  | i :: rows, h => by
    have hi := h i List.mem_cons_self
    have ih := readSymMapGo_rows has hh rest rows (fun k hk => h k (List.mem_cons_of_mem _ hk))
    simp only [readSymMapGo, List.flatMap_cons, hi]
    cases hu : (List.range 16).any (fun j => has (16 * i + j))
    · simp only [Bool.false_eq_true, if_false, List.nil_append]
      rw [ih, rowBytes_of_not_any has i hu]; rfl
    · simp only [if_true, List.append_assoc]
      rw [getBits_bits (rowBits has i) _ 16 (by simp [rowBits])]
      simp only [ih, rowSyms_rowBits]

theorem range256 : List.range 256 = (List.range 16).flatMap (fun i => (List.range 16).map (fun j => 16 * i + j)) := by
  decide +kernel

theorem filterMap_ite {α β : Type} (p : α → Bool) (f : α → β) (l : List α) :
    l.filterMap (fun a => if p a then some (f a) else none) = (l.filter p).map f := by
  induction l with
  | nil => rfl
  | cons a t ih =>
    simp only [List.filterMap_cons, List.filter_cons]
    cases p a <;> simp [ih]

/-- the table `symToByte` written as a bitmap and read back -/
theorem readSymMap_symMapBits (P : UInt8 → Bool) (rest : Bits) :
    readSymMap (symMapBits (((List.range 256).map UInt8.ofNat).filter P) ++ rest) =
      .ok (((List.range 256).map UInt8.ofNat).filter P, rest) := by
  generalize hused : ((List.range 256).map UInt8.ofNat).filter P = used
  -- membership test of the writer
  let has : Nat → Bool := fun v => used.contains (UInt8.ofNat v)
  have hhas : ∀ v, v < 256 → has v = P (UInt8.ofNat v) := by
    intro v hv
    show used.contains (UInt8.ofNat v) = P (UInt8.ofNat v)
    rw [← hused]
    cases hp : P (UInt8.ofNat v)
    · rw [List.contains_eq_mem]
      simp [hp]
    · rw [List.contains_eq_mem]
      simp only [List.mem_filter, List.mem_map, List.mem_range, decide_eq_true_eq]
      exact ⟨⟨v, hv, rfl⟩, hp⟩
  have hbits : symMapBits used = (List.range 16).map (fun i => (List.range 16).any (fun j => has (16 * i + j))) ++
      (List.range 16).flatMap (fun i => if (List.range 16).any (fun j => has (16 * i + j)) then rowBits has i else []) := rfl
  unfold readSymMap
  rw [hbits, List.append_assoc, getBits_bits _ _ 16 (by simp)]
  simp only
  rw [readSymMapGo_rows has _ rest (List.range 16)]
  · congr 2
    rw [← hused, range256, List.map_flatMap, List.filter_flatMap]
    apply flatMap_congr'
    intro i hi
    have hi' : i < 16 := List.mem_range.mp hi
    unfold rowBytes
    rw [filterMap_ite, List.map_map, List.filter_map]
    congr 1
    apply List.filter_congr
    intro j hj
    have hj' : j < 16 := List.mem_range.mp hj
    exact hhas _ (by omega)
  · intro i hi
    have hi' : i < 16 := List.mem_range.mp hi
    rw [bitsVal_testBit]
    simp only [List.length_map, List.length_range]
    rw [if_pos (by omega)]
    have : 16 - 1 - (15 - i) = i := by omega
    rw [this, List.getD_eq_getElem?_getD, List.getElem?_map, List.getElem?_range hi']; rfl

/-! ## selectors (all zero) and flat code lengths -/

theorem readSelectors_zeros (gc : Nat) (hgc : 1 ≤ gc) (h : Nat) (t : List Nat) (rest : Bits) :
    ∀ (n : Nat) (acc : Array Nat),
      readSelectors gc n (h :: t) acc (List.replicate n false ++ rest) =
        .ok ((acc.toList ++ List.replicate n h).toArray, rest)
  | 0, acc => by simp [readSelectors]
  | n + 1, acc => by
    simp only [List.replicate_succ, List.cons_append, readSelectors, readUnary]
    rw [if_neg (by omega)]
    simp only [List.getD_cons_zero, List.eraseIdx_cons_zero]
    rw [readSelectors_zeros gc hgc h t rest n (acc.push h)]
    simp

theorem readLenDelta_zero (hh : Nat) (h1 : 1 ≤ hh) (h20 : hh ≤ 20) (b2 : Bool) (rest : Bits) :
    readLenDelta hh (false :: b2 :: rest) = .ok (hh, b2 :: rest) := by
  unfold readLenDelta
  rw [if_neg (by simp [Gen.maxHufCodeBits]; omega)]
  simp

theorem readLengths_flat (hh : Nat) (h1 : 1 ≤ hh) (h20 : hh ≤ 20) : ∀ (n : Nat) (rest : Bits), rest ≠ [] →
    readLengths n hh (List.replicate n false ++ rest) = .ok (List.replicate n hh, rest)
  | 0, rest, _ => by simp [readLengths]
  | n + 1, rest, hne => by
    have hne' : List.replicate n false ++ rest ≠ [] := by
      intro e; exact hne (List.append_eq_nil_iff.mp e).2
    obtain ⟨b2, r2, e2⟩ := List.exists_cons_of_ne_nil hne'
    simp only [List.replicate_succ, List.cons_append, readLengths]
    rw [e2, readLenDelta_zero hh h1 h20, ← e2]
    simp only [readLengths_flat hh h1 h20 n rest hne]

theorem readGroups_flat2 (sc : Nat) (rest : Bits) (hne : rest ≠ []) :
    readGroups sc 2 (flatLengthsBits sc ++ (flatLengthsBits sc ++ rest)) =
      .ok ([mkGroup (List.replicate sc flatLen), mkGroup (List.replicate sc flatLen)], rest) := by
  have h9 : flatLen < 2 ^ 5 := by decide
  have hne2 : flatLengthsBits sc ++ rest ≠ [] := by
    intro e; exact hne (List.append_eq_nil_iff.mp e).2
  unfold flatLengthsBits at *
  simp only [readGroups, List.append_assoc]
  rw [getBits_putBits 5 flatLen h9]
  simp only
  rw [readLengths_flat flatLen (by decide) (by decide) sc _ (by simpa using hne2)]
  simp only
  rw [getBits_putBits 5 flatLen h9]
  simp only
  rw [readLengths_flat flatLen (by decide) (by decide) sc _ hne]

end Xmp.Bzip2
