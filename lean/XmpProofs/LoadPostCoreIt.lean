import XmpProofs.LoadPostCore
import XmpProofs.LoadPostCorePcm
/-!
# C03 × C19 — every song `It.read` returns satisfies `SongOk`
-/
namespace Xmp.LoadPost.Core
open Xmp Xmp.Fmt

theorem it_fixName_le (b : Bytes) : (It.fixName b).length ≤ 25 := by
  unfold It.fixName
  exact length_adjust_copyAdjust_le 25 _

theorem it_susFix_name (m : Smp) : (It.susFix m).name = m.name := by
  unfold It.susFix
  simp only
  split <;> split <;> rfl

/-- `load_it_sample` in the model leaves the sample name empty (the callers fill it) -/
theorem it_loadSmpCore_name (file : Bytes) (h : It.SmpHdr) (m : Smp) (hm : It.loadSmpCore file h = some m) :
    m.name = [] := by
  unfold It.loadSmpCore at hm
  simp (config := { maxSteps := 2000000 }) only [ite_eq_some, reduceCtorEq, and_false, false_or,
    Option.some.injEq] at hm
  obtain ⟨-, hm⟩ := hm
  rcases hm with ⟨-, -, -, hm⟩ | ⟨-, hm⟩
  · rcases hm with ⟨-, -, hm⟩ | ⟨-, -, hm⟩
    · split at hm
      · cases hm
      · cases hm; rw [it_susFix_name]
    · rw [← hm, it_susFix_name]
  · rw [← hm, it_susFix_name]

/-! ### PCM: exactly `len` frames -/

theorem it_decBlock_length (c : It.Sex.Cfg) (it215 : Bool) : ∀ (f n : Nat) (st : It.Sex.St) (s : List Bool) (xs : List Nat),
    It.Sex.decBlock c it215 f n st s = some xs → xs.length = n
  | 0, n, st, s, xs, h => by
    unfold It.Sex.decBlock at h
    split at h
    · cases h; rename_i h0; rw [h0]; rfl
    · cases h
  | f + 1, 0, st, s, xs, h => by
    unfold It.Sex.decBlock at h
    cases h; rfl
  | f + 1, n + 1, st, s, xs, h => by
    unfold It.Sex.decBlock at h
    split at h
    · cases h
    · exact it_decBlock_length c it215 f (n + 1) _ _ xs h
    · obtain ⟨ys, hys, rfl⟩ := Option.map_eq_some_iff.mp h
      rw [List.length_cons, it_decBlock_length c it215 f n _ _ ys hys]

theorem it_decChan_length (c : It.Sex.Cfg) (it215 : Bool) : ∀ (f len : Nat) (bs : Bytes) (x : List Nat × Bytes),
    It.Sex.decChan c it215 f len bs = some x → x.1.length = len
  | 0, len, bs, x, h => by
    unfold It.Sex.decChan at h
    cases h
  | f + 1, len, bs, x, h => by
    unfold It.Sex.decChan at h
    simp only at h
    split at h
    · cases h; rename_i h0; rw [h0]; rfl
    · split at h
      · cases h
      · split at h
        · cases h
        · split at h
          · cases h
          · rename_i xs hxs
            obtain ⟨y, hy, rfl⟩ := Option.map_eq_some_iff.mp h
            have h1 := it_decBlock_length c it215 _ _ _ _ xs hxs
            have h2 := it_decChan_length c it215 f _ _ y hy
            simp only [List.length_append, h1, h2]
            split <;> omega

theorem it_valsBytes_length (is16 : Bool) (v : List Nat) :
    (It.Sex.valsBytes is16 v).length = v.length * (if is16 = true then 2 else 1) := by
  unfold It.Sex.valsBytes
  cases is16
  · simp
  · simp only [if_true, unwords_length]; omega

theorem it_decompress_length (flg len : Nat) (it215 : Bool) (stream raw : Bytes)
    (h : It.Sex.decompress flg len it215 stream = some raw) : raw.length = len * frameBytes flg := by
  unfold It.Sex.decompress at h
  simp only at h
  have hcb : (if decide (flg &&& F16BIT ≠ 0) = true then 2 else 1) = chanBytes flg := by
    unfold chanBytes
    by_cases hc : flg &&& F16BIT ≠ 0 <;> simp [hc]
  rw [frameBytes_eq]
  split at h
  · cases h
  · rename_i l rest hl
    have e1 := it_decChan_length _ _ _ _ _ _ hl
    dsimp only at e1
    split at h
    · rename_i hs
      split at h
      · cases h
      · rename_i r rest2 hr
        have e2 := it_decChan_length _ _ _ _ _ _ hr
        dsimp only at e2
        cases h
        rw [List.length_append, it_valsBytes_length, it_valsBytes_length, e1, e2, hcb, if_pos hs]
        rw [Nat.mul_comm (chanBytes flg) 2, ← Nat.mul_assoc, Nat.mul_comm len 2, Nat.mul_assoc]; omega
    · rename_i hs
      cases h
      rw [it_valsBytes_length, e1, hcb, if_neg hs, Nat.mul_one]

theorem it_susFix_spec (m : Smp) :
    (It.susFix m).len = m.len ∧ (It.susFix m).pcm = m.pcm ∧ frameBytes (It.susFix m).flg = frameBytes m.flg := by
  unfold It.susFix
  simp only
  split <;> split
  all_goals dsimp only
  all_goals refine ⟨rfl, rfl, ?_⟩
  all_goals first
    | rfl
    | (refine frameBytes_and _ _ ?_ ?_ <;> decide)

theorem frameBytes_ite_and (c : Prop) [Decidable c] (x k : Nat) (h1 : k &&& F16BIT = F16BIT) (h2 : k &&& FSTEREO = FSTEREO) :
    frameBytes (if c then x &&& k else x) = frameBytes x := by
  split
  · exact frameBytes_and x k h1 h2
  · rfl

/-- the tail of `load_it_sample` (`fin` in the model): the flag chain keeps the frame size -/
theorem it_fin_pcm (m0 : Smp) (F : Nat) (hp : m0.pcm.length = m0.len * frameBytes F)
    (hf : frameBytes m0.flg = frameBytes F) :
    (It.susFix m0).pcm.length = (It.susFix m0).len * frameLen (It.susFix m0).flg := by
  obtain ⟨e1, e2, e3⟩ := it_susFix_spec m0
  unfold frameLen
  rw [e1, e2, e3, hf, hp]

theorem it_loadSmpCore_pcm (file : Bytes) (h : It.SmpHdr) (m : Smp) (hm : It.loadSmpCore file h = some m) :
    m.pcm = [] ∨ m.pcm.length = m.len * frameLen m.flg := by
  unfold It.loadSmpCore at hm
  simp (config := { maxSteps := 2000000 }) only [ite_eq_some, reduceCtorEq, and_false, false_or,
    Option.some.injEq] at hm
  obtain ⟨-, hm⟩ := hm
  have hflag : ∀ (c : Prop) [Decidable c] (c2 : Nat → Prop) [DecidablePred c2],
      frameBytes (if c2 (loopSanity h.len h.lps h.lpe (if c then It.hdrFlg h &&& (65535 - FLOOP) else It.hdrFlg h)).2.2
        then (loopSanity h.len h.lps h.lpe (if c then It.hdrFlg h &&& (65535 - FLOOP) else It.hdrFlg h)).2.2 &&& (65535 - FSBIDIR)
        else (loopSanity h.len h.lps h.lpe (if c then It.hdrFlg h &&& (65535 - FLOOP) else It.hdrFlg h)).2.2)
      = frameBytes (It.hdrFlg h) := by
    intro c _ c2 _
    rw [frameBytes_ite_and _ _ _ (by decide) (by decide), frameBytes_loopSanity,
      frameBytes_ite_and _ _ _ (by decide) (by decide)]
  rcases hm with ⟨-, -, -, hm⟩ | ⟨-, hm⟩
  · rcases hm with ⟨-, -, hm⟩ | ⟨-, hfit, hm⟩
    · split at hm
      · cases hm
      · rename_i raw hraw
        have e := Option.some.inj hm
        rw [← e]
        right
        refine it_fin_pcm _ (It.hdrFlg h) ?_ ?_
        · dsimp only
          exact s3m_loadPcm_length _ _ _ _ (it_decompress_length _ _ _ _ _ hraw)
        · dsimp only
          exact hflag _ (fun f2 => f2 &&& FSBIDIR ≠ 0 ∧ f2 &&& FSLOOP = 0)
    · rw [← hm]
      right
      refine it_fin_pcm _ (It.hdrFlg h) ?_ ?_
      · dsimp only
        refine s3m_loadPcm_length _ _ _ _ ?_
        rw [List.length_take, List.length_drop]; omega
      · dsimp only
        exact hflag _ (fun f2 => f2 &&& FSBIDIR ≠ 0 ∧ f2 &&& FSLOOP = 0)
  · rw [← hm]
    left
    exact (it_susFix_spec _).2.1

theorem it_smpModeIns_name (i : Nat) (h : It.SmpHdr) : (It.smpModeIns i h).name.length ≤ 25 := by
  unfold It.smpModeIns
  dsimp only
  exact it_fixName_le _

theorem it_readSmps_names (file : Bytes) : ∀ (pps : List Nat) (i : Nat) (r : List (Ins × Smp)),
    It.readSmps file pps i = some r →
    ∀ p ∈ r, p.1.name.length ≤ 25 ∧ p.2.name = [] ∧ (p.2.pcm = [] ∨ p.2.pcm.length = p.2.len * frameLen p.2.flg)
  | [], i, r, h => by
    simp only [It.readSmps, Option.some.injEq] at h
    subst h; intro p hp; cases hp
  | pp :: rest, i, r, h => by
    unfold It.readSmps at h
    simp only at h
    split at h
    · cases h
    · split at h
      · cases h
      · rename_i q hq
        obtain ⟨r', hr', rfl⟩ := Option.map_eq_some_iff.mp h
        intro p hp
        simp only [List.mem_cons] at hp
        rcases hp with rfl | hp
        · unfold It.loadSmp at hq
          simp only at hq
          split at hq
          · cases hq; dsimp only [It.emptySmp]; exact ⟨Nat.zero_le _, rfl, Or.inl rfl⟩
          · obtain ⟨m, hm, rfl⟩ := Option.map_eq_some_iff.mp hq
            dsimp only
            exact ⟨it_smpModeIns_name _ _, it_loadSmpCore_name _ _ _ hm, it_loadSmpCore_pcm _ _ _ hm⟩
        · exact it_readSmps_names file rest (i + 1) r' hr' p hp

theorem it_readInsHdr_name (isNew : Bool) (file : Bytes) (pp : Nat) (x : It.InsHdr)
    (h : It.readInsHdr isNew file pp = some x) : x.name.length ≤ 25 := by
  unfold It.readInsHdr at h
  simp only [ite_eq_some, reduceCtorEq, and_false, false_or, Option.some.injEq] at h
  obtain ⟨-, -, -, h⟩ := h
  rw [← h]
  dsimp only
  exact it_fixName_le _

theorem it_readInsHdrs_names (isNew : Bool) (file : Bytes) : ∀ (pps : List Nat) (r : List It.InsHdr),
    It.readInsHdrs isNew file pps = some r → ∀ x ∈ r, x.name.length ≤ 25
  | [], r, h => by
    simp only [It.readInsHdrs, Option.some.injEq] at h
    subst h; intro p hp; cases hp
  | pp :: rest, r, h => by
    unfold It.readInsHdrs at h
    split at h
    · cases h
    · rename_i x hx
      obtain ⟨r', hr', rfl⟩ := Option.map_eq_some_iff.mp h
      intro y hy
      simp only [List.mem_cons] at hy
      rcases hy with rfl | hy
      · exact it_readInsHdr_name _ _ _ _ hx
      · exact it_readInsHdrs_names isNew file rest r' hr' y hy

theorem it_readSmpsI_names (file : Bytes) : ∀ (pps : List Nat) (r : List (Option (Nat × Nat) × Smp)),
    It.readSmpsI file pps = some r →
    ∀ p ∈ r, p.2.name.length ≤ 25 ∧ (p.2.pcm = [] ∨ p.2.pcm.length = p.2.len * frameLen p.2.flg)
  | [], r, h => by
    simp only [It.readSmpsI, Option.some.injEq] at h
    subst h; intro p hp; cases hp
  | pp :: rest, r, h => by
    unfold It.readSmpsI at h
    simp only at h
    split at h
    · cases h
    · split at h
      · obtain ⟨r', hr', rfl⟩ := Option.map_eq_some_iff.mp h
        intro p hp
        simp only [List.mem_cons] at hp
        rcases hp with rfl | hp
        · dsimp only [It.emptySmp]; exact ⟨Nat.zero_le _, Or.inl rfl⟩
        · exact it_readSmpsI_names file rest r' hr' p hp
      · split at h
        · cases h
        · rename_i m hm
          obtain ⟨r', hr', rfl⟩ := Option.map_eq_some_iff.mp h
          intro p hp
          simp only [List.mem_cons] at hp
          rcases hp with rfl | hp
          · dsimp only
            exact ⟨it_fixName_le _, it_loadSmpCore_pcm _ _ _ hm⟩
          · exact it_readSmpsI_names file rest r' hr' p hp

theorem it_readInsMode_names (file : Bytes) (cmwt : Nat) (ppIns ppSmp : List Nat) (x : List Ins × List Smp)
    (h : It.readInsMode file cmwt ppIns ppSmp = some x) :
    (∀ i ∈ x.1, i.name.length ≤ 25) ∧
      (∀ m ∈ x.2, m.name.length ≤ 25 ∧ (m.pcm = [] ∨ m.pcm.length = m.len * frameLen m.flg)) := by
  unfold It.readInsMode at h
  split at h
  · cases h
  · rename_i hs hhs
    split at h
    · cases h
    · rename_i sl hsl
      cases h
      refine ⟨fun i hi => ?_, fun m hm => ?_⟩
      · obtain ⟨hd, hhd, rfl⟩ := List.mem_map.mp hi
        dsimp only [It.mkIns]
        exact it_readInsHdrs_names _ _ _ _ hhs hd hhd
      · obtain ⟨p, hp, rfl⟩ := List.mem_map.mp hm
        exact it_readSmpsI_names _ _ _ hsl p hp

/-- instruments and samples, instrument mode or sample mode -/
theorem it_insSmps_spec (b : Bytes) (is : List Ins × List Smp)
    (his : (rd16le (List.take 2 (List.drop 44 b)) / 4 % 2 = 1 ∧
        It.readInsMode b (rd16le (List.take 2 (List.drop 42 b)))
          (decodeN 4 rd32le (rd16le (List.take 2 (List.drop 34 b))) (List.drop (192 + rd16le (List.take 2 (List.drop 32 b))) b))
          (decodeN 4 rd32le (rd16le (List.take 2 (List.drop 36 b)))
            (List.drop (192 + rd16le (List.take 2 (List.drop 32 b)) + 4 * rd16le (List.take 2 (List.drop 34 b))) b)) = some is) ∨
      (¬ rd16le (List.take 2 (List.drop 44 b)) / 4 % 2 = 1 ∧
        Option.map (fun sl => (List.map (fun x => x.fst) sl, List.map (fun x => x.snd) sl))
          (It.readSmps b (decodeN 4 rd32le (rd16le (List.take 2 (List.drop 36 b)))
            (List.drop (192 + rd16le (List.take 2 (List.drop 32 b)) + 4 * rd16le (List.take 2 (List.drop 34 b))) b)) 0) = some is)) :
    (∀ i ∈ is.1, i.name.length ≤ 25) ∧
      (∀ m ∈ is.2, m.name.length ≤ 25 ∧ (m.pcm = [] ∨ m.pcm.length = m.len * frameLen m.flg)) := by
  rcases his with ⟨-, his⟩ | ⟨-, his⟩
  · exact it_readInsMode_names _ _ _ _ _ his
  · obtain ⟨sl, hsl, rfl⟩ := Option.map_eq_some_iff.mp his
    have := it_readSmps_names _ _ _ _ hsl
    refine ⟨fun i hi => ?_, fun m hm => ?_⟩
    · obtain ⟨p, hp, rfl⟩ := List.mem_map.mp hi
      exact (this p hp).1
    · obtain ⟨p, hp, rfl⟩ := List.mem_map.mp hm
      refine ⟨?_, (this p hp).2.2⟩
      rw [(this p hp).2.1]; exact Nat.zero_le _

/-- **IT**: every song the reader returns meets `SongOk` -/
theorem it_read_songOk (b : Bytes) (s : Song) (h : It.read b = some s) : SongOk s := by
  unfold It.read at h
  simp only [Option.bind_eq_bind, Option.bind_none] at h
  simp only [Option.bind_eq_some_iff, ite_eq_some, reduceCtorEq, and_false, false_or] at h
  obtain ⟨-, -, -, -, -, -, -, -, is, his, blocks, hbl, h⟩ := h
  cases h
  have hnames := it_insSmps_spec _ _ his
  refine ⟨?_, ?_, ?_, ?_⟩
  · intro p hp
    obtain ⟨blk, hblk, rfl⟩ := List.mem_map.mp hp
    obtain ⟨pp, _, hpp⟩ := mapM_some_mem _ _ _ hbl blk hblk
    cases blk with
    | none => show 1 ≤ 64; omega
    | some rd =>
      obtain ⟨rows, d⟩ := rd
      show 1 ≤ rows
      split at hpp
      · cases hpp
      · split at hpp
        · cases hpp
        · rename_i rows' d' _
          split at hpp
          · cases hpp
          · simp only [Option.some.injEq] at hpp
            split at hpp
            · cases hpp
            · simp only [Option.some.injEq, Prod.mk.injEq] at hpp
              omega
  · have h1 := length_adjustString_le (Fmt.cstr (List.take 26 (List.drop 4 b)))
    have h2 := length_cstr_le (List.take 26 (List.drop 4 b))
    have h3 : (List.take 26 (List.drop 4 b)).length ≤ 26 := by rw [List.length_take]; omega
    have : Gen.Limits.xmpNameSize = 64 := rfl
    show (Fmt.adjustString (Fmt.cstr (List.take 26 (List.drop 4 b)))).length < _
    omega
  · intro x hx
    have := hnames.1 x hx
    omega
  · intro m hm
    obtain ⟨m1, hm1, rfl⟩ := List.mem_map.mp hm
    rw [name_obsLoop]
    have := (hnames.2 m1 hm1).1
    omega

/-- **IT**: … and `PcmOk` (plain and IT 2.14 / 2.15 compressed samples) -/
theorem it_read_pcmOk (b : Bytes) (s : Song) (h : It.read b = some s) : PcmOk s := by
  unfold It.read at h
  simp only [Option.bind_eq_bind, Option.bind_none] at h
  simp only [Option.bind_eq_some_iff, ite_eq_some, reduceCtorEq, and_false, false_or] at h
  obtain ⟨-, -, -, -, -, -, -, -, is, his, blocks, hbl, h⟩ := h
  cases h
  have hnames := it_insSmps_spec _ _ his
  intro m hm
  obtain ⟨m1, hm1, rfl⟩ := List.mem_map.mp hm
  rw [pcm_obsLoop, len_obsLoop, flg_obsLoop]
  exact (hnames.2 m1 hm1).2

end Xmp.LoadPost.Core
