import XmpProofs.LoadPostCore
import XmpProofs.LoadPostCorePcm
/-!
# C03 × C19 — every song `S3m.read` returns satisfies `SongOk`
-/
namespace Xmp.LoadPost.Core
open Xmp Xmp.Fmt

theorem s3m_unpack_rows (chn : Nat) (bs : Bytes) (p : Pat) (h : S3m.unpack chn bs = some p) : p.rows = 64 := by
  unfold S3m.unpack at h
  split at h
  · cases h
  · obtain ⟨r, _, rfl⟩ := Option.map_eq_some_iff.mp h
    rfl

/-- every slot `readIns` returns was decoded from some 80-byte header `h` of the file -/
theorem s3m_readIns_spec (file : Bytes) (u : Bool) : ∀ (pps : List Nat) (i : Nat) (r : List (Ins × Smp)),
    S3m.readIns file u pps i = some r → ∀ p ∈ r, ∃ j h, p.1 = S3m.hdrIns j h ∧ S3m.hdrSmp file u h = some p.2
  | [], i, r, h => by
    simp only [S3m.readIns, Option.some.injEq] at h
    subst h; intro p hp; cases hp
  | pp :: rest, i, r, h => by
    unfold S3m.readIns at h
    simp only at h
    split at h
    · cases h
    · split at h
      · cases h
      · split at h
        · cases h
        · split at h
          · cases h
          · split at h
            · cases h
            · split at h
              · cases h
              · split at h
                · cases h
                · rename_i m hm
                  obtain ⟨r', hr', rfl⟩ := Option.map_eq_some_iff.mp h
                  intro p hp
                  simp only [List.mem_cons] at hp
                  rcases hp with rfl | hp
                  · exact ⟨i, _, rfl, hm⟩
                  · exact s3m_readIns_spec file u rest (i + 1) r' hr' p hp

theorem s3m_hdrSmp_name (file : Bytes) (u : Bool) (h : S3m.SmpHdr) (m : Smp) (hm : S3m.hdrSmp file u h = some m) :
    m.name = [] := by
  unfold S3m.hdrSmp at hm
  simp only at hm
  split at hm
  · cases hm; rfl
  · split at hm
    · cases hm
    · cases hm; rfl

theorem length_take_drop_of_le (file : Bytes) (off n : Nat) (h : off + n ≤ file.length) :
    ((file.drop off).take n).length = n := by
  rw [List.length_take, List.length_drop]; omega

/-- the PCM attached to a sample is exactly `len` frames -/
theorem s3m_hdrSmp_pcm (file : Bytes) (u : Bool) (h : S3m.SmpHdr) (m : Smp) (hm : S3m.hdrSmp file u h = some m) :
    m.pcm = [] ∨ m.pcm.length = m.len * frameLen m.flg := by
  unfold S3m.hdrSmp at hm
  simp only at hm
  split at hm
  · cases hm; left; rfl
  · split at hm
    · cases hm
    · rename_i hlen hfit
      rcases hls : loopSanity h.len h.lps h.lpe (S3m.hdrFlg h) with ⟨a, b, c⟩
      rw [hls] at hm
      cases hm
      right
      have hc : frameBytes c = frameBytes (S3m.hdrFlg h) := by
        have := frameBytes_loopSanity h.len h.lps h.lpe (S3m.hdrFlg h)
        rw [hls] at this; exact this
      show (S3m.loadPcm u (S3m.hdrFlg h) h.len _).length = h.len * frameBytes c
      rw [hc]
      exact s3m_loadPcm_length u _ _ _ (length_take_drop_of_le _ _ _ (by omega))

/-- **S3M**: every song the reader returns meets `SongOk` -/
theorem s3m_read_songOk (b : Bytes) (s : Song) (h : S3m.read b = some s) : SongOk s := by
  unfold S3m.read at h
  simp only [Option.bind_eq_bind, Option.bind_none] at h
  simp only [Option.bind_eq_some_iff, ite_eq_some, reduceCtorEq, and_false, false_or] at h
  obtain ⟨-, -, -, -, -, a, ha, -, -, a1, h1, a2, h2, pats, hp, sl, hsl, h⟩ := h
  cases h
  refine ⟨?_, ?_, ?_, ?_⟩
  · intro p hpm
    obtain ⟨pp, _, hpp⟩ := mapM_some_mem _ _ _ hp p hpm
    split at hpp
    · cases hpp; show 1 ≤ 64; omega
    · have := s3m_unpack_rows _ _ _ hpp
      omega
  · have := length_adjust_copyAdjust_le 28 (List.take 28 (List.take 96 b))
    have : Gen.Limits.xmpNameSize = 64 := rfl
    show (Fmt.adjustString (copyAdjust 28 (List.take 28 (List.take 96 b)))).length < _
    omega
  · intro x hx
    obtain ⟨p, hp1, rfl⟩ := List.mem_map.mp hx
    obtain ⟨j, hd, e1, _⟩ := s3m_readIns_spec _ _ _ _ _ hsl p hp1
    rw [e1]
    have := length_adjust_copyAdjust_le 28 hd.name
    show (Fmt.adjustString (copyAdjust 28 hd.name)).length < 32
    omega
  · intro m hm
    obtain ⟨p, hp1, rfl⟩ := List.mem_map.mp hm
    obtain ⟨j, hd, _, e2⟩ := s3m_readIns_spec _ _ _ _ _ hsl p hp1
    rw [name_obsLoop, s3m_hdrSmp_name _ _ _ _ e2]
    decide

/-- **S3M**: … and `PcmOk` -/
theorem s3m_read_pcmOk (b : Bytes) (s : Song) (h : S3m.read b = some s) : PcmOk s := by
  unfold S3m.read at h
  simp only [Option.bind_eq_bind, Option.bind_none] at h
  simp only [Option.bind_eq_some_iff, ite_eq_some, reduceCtorEq, and_false, false_or] at h
  obtain ⟨-, -, -, -, -, a, ha, -, -, a1, h1, a2, h2, pats, hp, sl, hsl, h⟩ := h
  cases h
  intro m hm
  obtain ⟨p, hp1, rfl⟩ := List.mem_map.mp hm
  obtain ⟨j, hd, _, e2⟩ := s3m_readIns_spec _ _ _ _ _ hsl p hp1
  rw [pcm_obsLoop, len_obsLoop, flg_obsLoop]
  exact s3m_hdrSmp_pcm _ _ _ _ e2

end Xmp.LoadPost.Core
