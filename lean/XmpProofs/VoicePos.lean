import XmpModel.VoicePos
import XmpProofs.MixWindow
/-! Invariant of the per-voice position bookkeeping of the software mixer
(model: XmpModel/VoicePos.lean).  Core Lean only. -/
namespace Xmp.VoicePos
open Xmp.MixWindow

/-- What `libxmp_load_sample` (loop sanity check, C20_loop) and the sustain-loop
clamp of `libxmp_load_epilogue` guarantee about a sample. -/
structure SmpOk (s : Smp) : Prop where
  len0 : 0 ≤ s.len
  lp : s.loop = true → 0 ≤ s.lps ∧ s.lps < s.lpe ∧ s.lpe ≤ s.len
  sp : s.isMod = true → s.sloop = true → 0 ≤ s.sus ∧ s.sus < s.sue ∧ s.sue ≤ s.len

/-- `SmpOk` is guaranteed (and needed) only for samples that have data: the ones
`libxmp_load_sample` really loaded, re-checked by `libxmp_load_epilogue`.  A sample
without data (`xxs->data == NULL`: empty, skipped, past EOF) keeps the raw loop
points of the file; a voice playing it has `vi->sptr == NULL` and never reaches a
kernel or the wrap-around patching. -/
def SmpOkD (s : Smp) : Prop := s.hasData = true → SmpOk s

/-- Side conditions on the per-tick constants: positive denominator, positive
step (`step >= 0.001` is tested before the segment loop), `bidir_adjust >= 0`,
a queued sample that has data is well formed, and the tick prologue has the upper
clamp. -/
structure EnvOk (env : Env) : Prop where
  D0 : 0 < env.D
  sn0 : 0 < env.sn
  adj0 : 0 ≤ env.adj
  q : ∀ s, env.qsmp = some s → SmpOkD s
  clamp : env.clampHi = true

/-- **The voice invariant** that holds at the top of every iteration of the
segment loop: the sample is well formed, `start/end/BIDIR` are what
`adjust_voice_end` computes from the current flags, a forward voice is at a
non-negative position and a reversed voice at most one frame past the sample. -/
structure Inv (env : Env) (v : Voice) : Prop where
  smp : SmpOk v.smp
  cons : adjustVoiceEnd v = v
  fwd : v.rev = false → 0 ≤ v.pos
  bwd : v.rev = true → v.pos ≤ (v.smp.len + 1) * env.D

/-- The invariant as far as it is claimed: for voices whose sample has data. -/
def DInv (env : Env) (v : Voice) : Prop := v.smp.hasData = true → Inv env v

theorem smpOk_iff (s : Smp) : smpOk s = true ↔ SmpOk s := by
  obtain ⟨len,lps,lpe,sus,sue,loop,lbidir,lfull,sloop,sbidir,isMod,synth,hasData⟩ := s
  constructor
  · intro h
    cases loop <;> cases isMod <;> cases sloop <;> simp [smpOk] at h <;>
      refine ⟨?_, ?_, ?_⟩ <;> (try simp) <;> (try omega)
  · intro ⟨h0, hl, hs⟩
    cases loop <;> cases isMod <;> cases sloop <;> simp [smpOk] at * <;> omega

theorem voiceInv_iff (env : Env) (v : Voice) : voiceInv env v = true ↔ Inv env v := by
  constructor
  · intro h
    simp only [voiceInv, Bool.and_eq_true, Bool.or_eq_true, decide_eq_true_eq, Bool.not_eq_true'] at h
    obtain ⟨⟨⟨h1, h2⟩, h3⟩, h4⟩ := h
    refine ⟨(smpOk_iff _).1 h1, h2, ?_, ?_⟩
    · intro hr; rcases h3 with h3 | h3
      · rw [hr] at h3; cases h3
      · exact h3
    · intro hr; rcases h4 with h4 | h4
      · rw [hr] at h4; cases h4
      · exact h4
  · intro ⟨h1, h2, h3, h4⟩
    simp only [voiceInv, Bool.and_eq_true, Bool.or_eq_true, decide_eq_true_eq, Bool.not_eq_true']
    refine ⟨⟨⟨(smpOk_iff _).2 h1, h2⟩, ?_⟩, ?_⟩
    · cases hr : v.rev
      · exact Or.inr (h3 hr)
      · exact Or.inl rfl
    · cases hr : v.rev
      · exact Or.inl rfl
      · exact Or.inr (h4 hr)

/-! ### `adjust_voice_end` -/

theorem adjust_fields (v : Voice) :
    (adjustVoiceEnd v).smp = v.smp ∧ (adjustVoiceEnd v).pos = v.pos ∧
    (adjustVoiceEnd v).release = v.release ∧ (adjustVoiceEnd v).sloopf = v.sloopf ∧
    (adjustVoiceEnd v).rev = v.rev ∧ (adjustVoiceEnd v).queued = v.queued ∧
    (adjustVoiceEnd v).paused = v.paused ∧ (adjustVoiceEnd v).active = v.active := by
  unfold adjustVoiceEnd
  split
  · simp
  · split
    · split <;> simp
    · simp

theorem adjust_bounds (v : Voice) (h : SmpOk v.smp) :
    0 ≤ (adjustVoiceEnd v).start ∧ (adjustVoiceEnd v).start ≤ (adjustVoiceEnd v).end_ ∧
    (adjustVoiceEnd v).end_ ≤ v.smp.len := by
  obtain ⟨h0, hl, hs⟩ := h
  obtain ⟨⟨len,lps,lpe,sus,sue,loop,lbidir,lfull,sloop,sbidir,isMod,synth,hasData⟩,pos,start,end_,release,sloopf,rev,bidir,queued,paused,active⟩ := v
  cases loop <;> cases isMod <;> cases sloop <;> cases release <;> cases lfull <;> cases sloopf <;>
    simp [adjustVoiceEnd, susActive] at * <;> omega

theorem adjust_idem (v : Voice) : adjustVoiceEnd (adjustVoiceEnd v) = adjustVoiceEnd v := by
  obtain ⟨⟨len,lps,lpe,sus,sue,loop,lbidir,lfull,sloop,sbidir,isMod,synth,hasData⟩,pos,start,end_,release,sloopf,rev,bidir,queued,paused,active⟩ := v
  cases loop <;> cases isMod <;> cases sloop <;> cases release <;> cases lfull <;> cases sloopf <;>
    simp [adjustVoiceEnd, susActive]

/-- `adjust_voice_end` only reads the sample, VOICE_RELEASE and SAMPLE_LOOP and
only writes start/end/BIDIR. -/
theorem adjust_congr (v w : Voice) (h1 : w.smp = v.smp) (h2 : w.release = v.release)
    (h3 : w.sloopf = v.sloopf) (h4 : w.start = v.start) (h5 : w.end_ = v.end_) (h6 : w.bidir = v.bidir)
    (hc : adjustVoiceEnd v = v) : adjustVoiceEnd w = w := by
  obtain ⟨⟨len,lps,lpe,sus,sue,loop,lbidir,lfull,sloop,sbidir,isMod,synth,hasData⟩,pos,start,end_,release,sloopf,rev,bidir,queued,paused,active⟩ := v
  obtain ⟨smp',pos',start',end_',release',sloopf',rev',bidir',queued',paused',active'⟩ := w
  simp only at h1 h2 h3 h4 h5 h6
  subst h1 h2 h3 h4 h5 h6
  cases loop <;> cases isMod <;> cases sloop <;> cases release' <;> cases lfull <;> cases sloopf' <;>
    simp [adjustVoiceEnd, susActive] at * <;> simp [hc]

theorem cons_bounds (v : Voice) (h : SmpOk v.smp) (hc : adjustVoiceEnd v = v) :
    0 ≤ v.start ∧ v.start ≤ v.end_ ∧ v.end_ ≤ v.smp.len := by
  have := adjust_bounds v h
  rw [hc] at this
  exact this

/-! ### `loop_reposition` -/

/-- The `loop_changed` half of `loop_reposition` on a consistent voice: the loop
start stays, the end can only move down (LOOP_FULL: `len` → `lpe`), the result
is consistent again. -/
theorem lrBase_props (v : Voice) (h : SmpOk v.smp) (hc : adjustVoiceEnd v = v) :
    (lrBase v).smp = v.smp ∧ (lrBase v).pos = v.pos ∧ (lrBase v).rev = v.rev ∧
    (lrBase v).release = v.release ∧ (lrBase v).queued = v.queued ∧ (lrBase v).paused = v.paused ∧
    (lrBase v).active = v.active ∧ (lrBase v).sloopf = true ∧
    (lrBase v).start = v.start ∧ (lrBase v).end_ ≤ v.end_ ∧ (lrBase v).start ≤ (lrBase v).end_ ∧
    adjustVoiceEnd (lrBase v) = lrBase v := by
  obtain ⟨h0, hl, hs⟩ := h
  obtain ⟨⟨len,lps,lpe,sus,sue,loop,lbidir,lfull,sloop,sbidir,isMod,synth,hasData⟩,pos,start,end_,release,sloopf,rev,bidir,queued,paused,active⟩ := v
  cases loop <;> cases isMod <;> cases sloop <;> cases release <;> cases lfull <;> cases sloopf <;>
    simp [lrBase, adjustVoiceEnd, susActive] at * <;>
    (try (repeat' apply And.intro)) <;> (first | omega | simp_all)

theorem lrMove_fields (env : Env) (v : Voice) :
    (lrMove env v).smp = v.smp ∧ (lrMove env v).release = v.release ∧ (lrMove env v).sloopf = v.sloopf ∧
    (lrMove env v).start = v.start ∧ (lrMove env v).end_ = v.end_ ∧ (lrMove env v).bidir = v.bidir ∧
    (lrMove env v).queued = v.queued ∧ (lrMove env v).paused = v.paused ∧ (lrMove env v).active = v.active := by
  unfold lrMove
  split
  · split <;> simp
  · simp only []
    split <;> simp

theorem clampHi_fields (D : Int) (v : Voice) :
    (clampHi D v).smp = v.smp ∧ (clampHi D v).release = v.release ∧ (clampHi D v).sloopf = v.sloopf ∧
    (clampHi D v).start = v.start ∧ (clampHi D v).end_ = v.end_ ∧ (clampHi D v).bidir = v.bidir ∧
    (clampHi D v).rev = v.rev ∧
    (clampHi D v).queued = v.queued ∧ (clampHi D v).paused = v.paused ∧ (clampHi D v).active = v.active := by
  unfold clampHi
  split <;> simp

theorem clampHi_pos (D : Int) (v : Voice) :
    (clampHi D v).pos ≤ (v.smp.len + 1) * D ∧ (clampHi D v).pos ≤ v.pos ∧
    (∀ x, x ≤ v.pos → x ≤ (v.smp.len + 1) * D → x ≤ (clampHi D v).pos) := by
  unfold clampHi
  split
  · rename_i h
    refine ⟨Int.le_refl _, Int.le_of_lt h, fun x _ h2 => h2⟩
  · rename_i h
    refine ⟨Int.not_lt.mp h, Int.le_refl _, fun x h1 _ => h1⟩

theorem lrMove_cases (env : Env) (w : Voice) :
    (w.bidir = false ∧ w.rev = false ∧ (lrMove env w).rev = false ∧
      (lrMove env w).pos = w.pos - (w.end_ - w.start) * env.D) ∨
    (w.bidir = false ∧ w.rev = true ∧ (lrMove env w).rev = true ∧
      (lrMove env w).pos = w.pos + (w.end_ - w.start) * env.D) ∨
    (w.bidir = true ∧ w.rev = false ∧ (lrMove env w).rev = true ∧
      (lrMove env w).pos = (w.end_ * 2 - env.adj) * env.D - w.pos) ∨
    (w.bidir = true ∧ w.rev = true ∧ (lrMove env w).rev = false ∧
      (lrMove env w).pos = (w.start * 2) * env.D - w.pos) := by
  cases hb : w.bidir <;> cases hr : w.rev <;> simp [lrMove, hb, hr]

theorem mulD_le {a b D : Int} (hD : 0 < D) (h : a ≤ b) : a * D ≤ b * D :=
  Int.mul_le_mul_of_nonneg_right h (Int.le_of_lt hD)

/-- **`loop_reposition` establishes the invariant** whenever it is called on a
consistent voice that has reached the end of its segment (forward: `pos ≥ end`,
reverse: `pos ≤ start`) — the only situations in which the segment loop and
`libxmp_mixer_voicepos` call it. -/
theorem inv_loopReposition (env : Env) (v : Voice) (he : EnvOk env) (hs : SmpOk v.smp)
    (hc : adjustVoiceEnd v = v)
    (hat : (v.rev = false ∧ v.end_ * env.D ≤ v.pos) ∨ (v.rev = true ∧ v.pos ≤ v.start * env.D)) :
    Inv env (loopReposition env v).1 := by
  obtain ⟨b1, b2, b3, b4, b5, b6, b7, b8, b9, b10, b11, b12⟩ := lrBase_props v hs hc
  obtain ⟨c0, c1, c2⟩ := cons_bounds v hs hc
  have hD := he.D0
  have hadj := he.adj0
  simp only [loopReposition]
  generalize lrBase v = w at *
  obtain ⟨m1, m2, m3, m4, m5, m6, m7, m8, m9⟩ := lrMove_fields env w
  obtain ⟨k1, k2, k3, k4, k5, k6, k7, k8, k9, k10⟩ := clampHi_fields env.D (lrMove env w)
  obtain ⟨k11, k12, k13⟩ := clampHi_pos env.D (lrMove env w)
  have hsmp : (clampHi env.D (lrMove env w)).smp = v.smp := by rw [k1, m1, b1]
  have hlen : (0:Int) ≤ (v.smp.len + 1) * env.D := by
    have := mulD_le hD (show (0:Int) ≤ v.smp.len + 1 by have := hs.len0; omega)
    simpa using this
  rw [m1, b1] at k11 k13
  refine ⟨by rw [hsmp]; exact hs, ?_, ?_, ?_⟩
  · apply adjust_congr w _ (by rw [k1, m1]) (by rw [k2, m2]) (by rw [k3, m3]) (by rw [k4, m4]) (by rw [k5, m5])
      (by rw [k6, m6]) b12
  · -- forward after the call: pos ≥ 0
    intro hr
    rw [k7] at hr
    apply k13 _ _ hlen
    have e1 := mulD_le hD c0
    have e2 := mulD_le hD b11
    have e3 := mulD_le hD b10
    rw [b9] at e2
    simp only [Int.zero_mul] at e1
    rcases lrMove_cases env w with ⟨_, hrv, _, hp⟩ | ⟨_, _, hr', _⟩ | ⟨_, _, hr', _⟩ | ⟨_, hrv, _, hp⟩
    · rw [hp, Int.sub_mul, b2, b9]
      rw [b3] at hrv
      rcases hat with ⟨_, hat⟩ | ⟨hat, _⟩
      · omega
      · rw [hat] at hrv; cases hrv
    · rw [hr'] at hr; cases hr
    · rw [hr'] at hr; cases hr
    · rw [hp, b2, b9, Int.mul_right_comm]
      rw [b3] at hrv
      rcases hat with ⟨hat, _⟩ | ⟨_, hat⟩
      · rw [hat] at hrv; cases hrv
      · omega
  · intro _
    rw [hsmp]
    exact k11

theorem lrBase_fields (v : Voice) :
    (lrBase v).smp = v.smp ∧ (lrBase v).release = v.release := by
  unfold lrBase
  split
  · exact ⟨rfl, rfl⟩
  · have := adjust_fields { v with sloopf := true }
    exact ⟨this.1, this.2.2.1⟩

theorem loopReposition_fields (env : Env) (v : Voice) :
    (loopReposition env v).1.smp = v.smp ∧ (loopReposition env v).1.release = v.release := by
  obtain ⟨k1, k2, _⟩ := clampHi_fields env.D (lrMove env (lrBase v))
  obtain ⟨m1, m2, _⟩ := lrMove_fields env (lrBase v)
  obtain ⟨b1, b2⟩ := lrBase_fields v
  simp only [loopReposition]
  exact ⟨by rw [k1, m1, b1], by rw [k2, m2, b2]⟩

/-! ### position-setting entry points -/

theorem voiceposCore_fields (env : Env) (v : Voice) (p : Int) :
    (voiceposCore env v p).smp = v.smp ∧ (voiceposCore env v p).release = v.release := by
  unfold voiceposCore
  split
  · exact ⟨rfl, rfl⟩
  · have a := adjust_fields { v with pos := p }
    simp only []
    split
    · split
      · have l := loopReposition_fields env { adjustVoiceEnd { v with pos := p } with
            pos := (adjustVoiceEnd { v with pos := p }).end_ * env.D }
        exact ⟨by rw [l.1]; exact a.1, by rw [l.2]; exact a.2.2.1⟩
      · exact ⟨a.1, a.2.2.1⟩
    · split
      · exact ⟨a.1, a.2.2.1⟩
      · exact ⟨a.1, a.2.2.1⟩

theorem hotswap_fields (env : Env) (v : Voice) (s : Smp) :
    (hotswap env v s).smp = s ∧ (hotswap env v s).release = v.release := by
  unfold hotswap setpatch
  exact ⟨(voiceposCore_fields env _ 0).1, (voiceposCore_fields env _ 0).2⟩

/-- A consistent voice with a well-formed sample at a non-negative position
satisfies the invariant after the upper clamp. -/
theorem inv_clampHi_of (env : Env) (v : Voice) (he : EnvOk env) (hs : SmpOk v.smp)
    (hc : adjustVoiceEnd v = v) (hp : 0 ≤ v.pos) : Inv env (clampHi env.D v) := by
  obtain ⟨k1, k2, k3, k4, k5, k6, k7, k8, k9, k10⟩ := clampHi_fields env.D v
  obtain ⟨k11, k12, k13⟩ := clampHi_pos env.D v
  have hlen : (0:Int) ≤ (v.smp.len + 1) * env.D := by
    have := mulD_le he.D0 (show (0:Int) ≤ v.smp.len + 1 by have := hs.len0; omega)
    simpa using this
  refine ⟨by rw [k1]; exact hs, adjust_congr v _ k1 k2 k3 k4 k5 k6 hc, fun _ => k13 0 hp hlen, fun _ => ?_⟩
  rw [k1]; exact k11

/-- The state a queued sample swap produces (`hotswap_sample`,
`get_current_sample`, `vi->pos = vi->start`). -/
theorem inv_swap (env : Env) (v : Voice) (s : Smp) (he : EnvOk env) (hs : SmpOk s) :
    Inv env { adjustVoiceEnd (hotswap env v s) with pos := (adjustVoiceEnd (hotswap env v s)).start * env.D } ∧
    0 ≤ (adjustVoiceEnd (hotswap env v s)).start * env.D := by
  have hf := hotswap_fields env v s
  generalize hotswap env v s = h at *
  have a := adjust_fields h
  have hs' : SmpOk h.smp := by rw [hf.1]; exact hs
  obtain ⟨b0, b1, b2⟩ := adjust_bounds h hs'
  have hD := he.D0
  have e0 := mulD_le hD b0
  simp only [Int.zero_mul] at e0
  refine ⟨⟨by simp only []; rw [a.1]; exact hs', ?_, fun _ => e0, fun _ => ?_⟩, e0⟩
  · exact adjust_congr (adjustVoiceEnd h) _ rfl rfl rfl rfl rfl rfl (adjust_idem h)
  · simp only []
    rw [a.1]
    apply mulD_le hD
    omega

/-- **The tick prologue establishes the invariant** from *any* voice state
(whatever position the effects, `xmp_set_position`, sample swaps … left behind),
for every voice whose sample has data. -/
theorem inv_tickStart (env : Env) (v w : Voice) (he : EnvOk env) (hs : SmpOkD v.smp)
    (h : tickStart env v = some w) : DInv env w := by
  unfold tickStart at h
  simp only [he.clamp, if_true] at h
  generalize hv1 : (if v.pos < 0 then { v with pos := 0 } else v) = v1 at h
  have h1 : v1.smp = v.smp ∧ 0 ≤ v1.pos := by
    rw [← hv1]; split
    · exact ⟨rfl, Int.le_refl _⟩
    · rename_i hn; exact ⟨rfl, Int.not_lt.mp hn⟩
  split at h
  · rename_i r hr
    cases h
  · rename_i r u hr
    cases h
    split at hr
    · split at hr
      · cases hr
      · split at hr
        · cases hr
        · rename_i s hq
          cases hr
          intro hd
          have hsm : (clampHi env.D { adjustVoiceEnd (hotswap env v1 s) with
              pos := (adjustVoiceEnd (hotswap env v1 s)).start * env.D }).smp = s := by
            rw [(clampHi_fields env.D _).1]
            show (adjustVoiceEnd (hotswap env v1 s)).smp = s
            rw [(adjust_fields _).1, (hotswap_fields env v1 s).1]
          rw [hsm] at hd
          have := inv_swap env v1 s he (he.q s hq hd)
          exact inv_clampHi_of env _ he this.1.smp this.1.cons this.2
    · cases hr
      intro hd
      have a := adjust_fields v1
      have hsm : (clampHi env.D (adjustVoiceEnd v1)).smp = v.smp := by
        rw [(clampHi_fields env.D _).1, a.1, h1.1]
      rw [hsm] at hd
      apply inv_clampHi_of env _ he
      · rw [a.1, h1.1]; exact hs hd
      · exact adjust_idem v1
      · rw [a.2.1]; exact h1.2

/-! ### the segment loop -/

/-- `ceil(a/b)` for positive `a`, `b`: the defining inequalities. -/
theorem ceilDiv_spec (a b : Int) (ha : 0 < a) (hb : 0 < b) :
    (ceilDiv a b - 1) * b < a ∧ a ≤ ceilDiv a b * b ∧ 1 ≤ ceilDiv a b := by
  unfold ceilDiv
  have h1 := Int.mul_ediv_add_emod (a + b - 1) b
  have h2 := Int.emod_nonneg (a + b - 1) (Int.ne_of_gt hb)
  have h3 := Int.emod_lt_of_pos (a + b - 1) hb
  generalize (a + b - 1) / b = c at *
  generalize (a + b - 1) % b = r at *
  rw [Int.mul_comm] at h1
  have hc : 1 ≤ c := by
    apply Int.not_lt.mp
    intro hlt
    have := Int.mul_le_mul_of_nonneg_right (show c ≤ 0 by omega) (Int.le_of_lt hb)
    simp only [Int.zero_mul] at this
    omega
  refine ⟨?_, by omega, hc⟩
  rw [Int.sub_mul, Int.one_mul]; omega

theorem natMul_le {n c : Int} {b : Int} (hb : 0 ≤ b) (h : n ≤ c) : n * b ≤ c * b :=
  Int.mul_le_mul_of_nonneg_right h hb

/-- What `samples` satisfies in the forward branch. -/
theorem samplesOf_fwd (env : Env) (v : Voice) (size n : Nat) (he : EnvOk env) (hr : v.rev = false)
    (h : samplesOf env v size = some n) :
    n ≤ size ∧ v.pos < v.end_ * env.D ∧ ((n : Int) - 1) * env.sn < v.end_ * env.D - v.pos ∧
    (n < size → v.end_ * env.D ≤ v.pos + (n : Int) * env.sn) ∧ (0 < size → 0 < n) := by
  unfold samplesOf at h
  simp only [hr, Bool.not_false, if_true] at h
  split at h
  · cases h
  · rename_i hlt
    have hlt := Int.not_le.mp hlt
    injection h with h
    have hsn := he.sn0
    obtain ⟨c1, c2, c3⟩ := ceilDiv_spec (v.end_ * env.D - v.pos) env.sn (by omega) hsn
    generalize ceilDiv (v.end_ * env.D - v.pos) env.sn = c at *
    have hcn : ((c.toNat : Nat) : Int) = c := Int.toNat_of_nonneg (by omega)
    have hn : (n : Int) ≤ c := by omega
    have m1 := natMul_le (Int.le_of_lt hsn) (show (n : Int) - 1 ≤ c - 1 by omega)
    refine ⟨by omega, hlt, by omega, ?_, by omega⟩
    intro hns
    have : (n : Int) = c := by omega
    rw [this]; omega

/-- … and in the reverse branch. -/
theorem samplesOf_rev (env : Env) (v : Voice) (size n : Nat) (he : EnvOk env) (hr : v.rev = true)
    (h : samplesOf env v size = some n) :
    n ≤ size ∧ v.start * env.D < v.pos ∧ ((n : Int) - 1) * env.sn < v.pos - v.start * env.D ∧
    (n < size → v.pos - (n : Int) * env.sn ≤ v.start * env.D) ∧ (0 < size → 0 < n) := by
  unfold samplesOf at h
  simp only [hr, Bool.not_true] at h
  split at h
  · rename_i hf; cases hf
  · split at h
    · cases h
    · rename_i hlt
      have hlt := Int.not_le.mp hlt
      injection h with h
      have hsn := he.sn0
      obtain ⟨c1, c2, c3⟩ := ceilDiv_spec (v.pos - v.start * env.D) env.sn (by omega) hsn
      generalize ceilDiv (v.pos - v.start * env.D) env.sn = c at *
      have hcn : ((c.toNat : Nat) : Int) = c := Int.toNat_of_nonneg (by omega)
      have hn : (n : Int) ≤ c := by omega
      have m1 := natMul_le (Int.le_of_lt hsn) (show (n : Int) - 1 ≤ c - 1 by omega)
      refine ⟨by omega, hlt, by omega, ?_, by omega⟩
      intro hns
      have : (n : Int) = c := by omega
      rw [this]; omega

theorem samplesOf_none (env : Env) (v : Voice) (size : Nat) (h : samplesOf env v size = none) :
    atEnd env v = true := by
  unfold samplesOf at h
  unfold atEnd
  cases hr : v.rev <;> simp only [hr, Bool.not_false, Bool.not_true, if_true] at h ⊢
  · split at h
    · rename_i hge; simp [hge]
    · cases h
  · split at h
    · rename_i hf; cases hf
    · split at h
      · rename_i hge; simp [hge]
      · cases h

theorem atEnd_hat (env : Env) (v : Voice) (h : atEnd env v = true) :
    (v.rev = false ∧ v.end_ * env.D ≤ v.pos) ∨ (v.rev = true ∧ v.pos ≤ v.start * env.D) := by
  unfold atEnd at h
  cases hr : v.rev <;> simp [hr] at h
  · exact Or.inl ⟨rfl, h⟩
  · exact Or.inr ⟨rfl, h⟩

/-- The decision part of an iteration re-establishes the invariant whenever the
loop continues: the only continuing paths are a queued-sample swap and
`loop_reposition`, and the latter is only reached at the end of a segment. -/
theorem inv_segDecide (env : Env) (u v' : Voice) (size usmp size' usmp' : Nat) (he : EnvOk env)
    (hu : u.smp.hasData = true → SmpOk u.smp ∧ adjustVoiceEnd u = u)
    (hfull : 0 < size → atEnd env u = true)
    (h : segDecide env u size usmp = .cont v' size' usmp') : DInv env v' ∧ size' = size ∧ usmp' = usmp ∧ 0 < size' := by
  unfold segDecide at h
  split at h
  · cases h
  · split at h
    · rename_i hcond
      have hend : atEnd env u = true := by
        by_cases hz : 0 < size
        · exact hfull hz
        · simp only [Bool.or_eq_true, decide_eq_true_eq] at hcond
          rcases hcond with hcond | hcond
          · exact absurd hcond hz
          · exact hcond
      split at h
      · split at h
        · cases h
        · rename_i s hq
          split at h
          · cases h
          · simp only [] at h
            split at h
            · rename_i hz
              injection h with h1 h2 h3
              subst h1 h2 h3
              refine ⟨?_, rfl, rfl, hz⟩
              intro hd
              have hsm : (adjustVoiceEnd (hotswap env u s)).smp = s := by
                rw [(adjust_fields _).1, (hotswap_fields env u s).1]
              have hd' : s.hasData = true := by rw [← hsm]; exact hd
              exact (inv_swap env u s he (he.q s hq hd')).1
            · cases h
      · simp only [] at h
        split at h
        · rename_i hz
          injection h with h1 h2 h3
          subst h1 h2 h3
          refine ⟨?_, rfl, rfl, hz⟩
          intro hd
          rw [(loopReposition_fields env u).1] at hd
          obtain ⟨hs, hc⟩ := hu hd
          exact inv_loopReposition env u he hs hc (atEnd_hat env u hend)
        · cases h
    · cases h

theorem segMove_fields (env : Env) (v : Voice) (n : Nat) :
    (segMove env v n).smp = v.smp ∧ (segMove env v n).release = v.release ∧ (segMove env v n).sloopf = v.sloopf ∧
    (segMove env v n).start = v.start ∧ (segMove env v n).end_ = v.end_ ∧ (segMove env v n).bidir = v.bidir ∧
    (segMove env v n).rev = v.rev := by
  unfold segMove
  split <;> simp

/-- **Every iteration of the segment loop preserves the invariant** (for voices
whose sample has data — also across a queued swap from or to a sample without
data), keeps `0 < size' ≤ size` and strictly decreases `size + usmp`. -/
theorem inv_segStep (env : Env) (v v' : Voice) (size usmp size' usmp' : Nat) (he : EnvOk env)
    (hinv : DInv env v) (hsz : 0 < size) (h : segStep env v size usmp = .cont v' size' usmp') :
    DInv env v' ∧ 0 < size' ∧ size' ≤ size ∧ usmp' ≤ usmp ∧ size' + usmp' < size + usmp := by
  unfold segStep at h
  split at h
  · rename_i hn
    split at h
    · cases h
    · rename_i hus
      unfold segAfter at h
      have hmv : segMove env v 0 = v := by
        unfold segMove; split <;> simp
      rw [hmv] at h
      have hend := samplesOf_none env v size hn
      obtain ⟨a, b, c, d⟩ := inv_segDecide env v v' (size - 0) (usmp - 1) size' usmp' he
        (fun hd => ⟨(hinv hd).smp, (hinv hd).cons⟩) (fun _ => hend) h
      exact ⟨a, d, by omega, by omega, by omega⟩
  · rename_i n hn
    unfold segAfter at h
    obtain ⟨f1, f2, f3, f4, f5, f6, f7⟩ := segMove_fields env v n
    have hfull : 0 < size - n → atEnd env (segMove env v n) = true := by
      intro hz
      unfold atEnd
      rw [f7, f4, f5]
      cases hr : v.rev
      · obtain ⟨s1, s2, s3, s4, _⟩ := samplesOf_fwd env v size n he hr hn
        have := s4 (by omega)
        have hp : (segMove env v n).pos = v.pos + (n : Int) * env.sn := by
          unfold segMove; simp [hr]
        simp [hp]; omega
      · obtain ⟨s1, s2, s3, s4, _⟩ := samplesOf_rev env v size n he hr hn
        have := s4 (by omega)
        have hp : (segMove env v n).pos = v.pos - (n : Int) * env.sn := by
          unfold segMove; simp [hr]
        simp [hp]; omega
    obtain ⟨a, b, c, d⟩ := inv_segDecide env (segMove env v n) v' (size - n) usmp size' usmp' he
      (fun hd => by
        rw [f1] at hd
        exact ⟨by rw [f1]; exact (hinv hd).smp, adjust_congr v _ f1 f2 f3 f4 f5 f6 (hinv hd).cons⟩) hfull h
    have hpos : 0 < n := by
      cases hr : v.rev
      · exact (samplesOf_fwd env v size n he hr hn).2.2.2.2 hsz
      · exact (samplesOf_rev env v size n he hr hn).2.2.2.2 hsz
    exact ⟨a, d, by omega, by omega, by omega⟩

end Xmp.VoicePos
