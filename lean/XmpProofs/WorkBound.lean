import XmpModel.WorkBound
/-!
# Generic facts about counted loops (C02): a loop whose every continuing iteration lowers a
measure by at least `k` ends within `measure / k + 1` iterations, and more fuel never changes it
-/
namespace Xmp.Work
open Xmp

theorem run_outD_succ {σ ρ : Type} (step : σ → Out σ ρ) (fuel : Nat) (s : σ) (d : ρ) :
    (run step (fuel + 1) s).outD d =
      match step s with
      | .done r => r
      | .next s' => (run step fuel s').outD d
      | .wrap s' k => ((run step fuel s').res.map k).getD d := by
  simp only [run]
  cases step s <;> rfl

theorem div_step {a b k : Nat} (hk : 0 < k) (h : b + k ≤ a) : b / k + 1 ≤ a / k := by
  have h1 : (b + k) / k = b / k + 1 := Nat.add_div_right b hk
  have h2 : (b + k) / k ≤ a / k := Nat.div_le_div_right h
  omega

/-- **the progress principle**: `Inv` holds initially and is kept by continuing iterations; every
continuing iteration from a state satisfying `Inv` lowers `μ` by at least `k > 0`.  Then with any
fuel above `μ s / k` the loop ends by itself, within `μ s / k + 1` iterations. -/
theorem run_bounded {σ ρ : Type} (step : σ → Out σ ρ) (Inv : σ → Prop) (μ : σ → Nat) (k : Nat) (hk : 0 < k)
    (hprog : ∀ s s', Inv s → (step s).succ? = some s' → Inv s' ∧ μ s' + k ≤ μ s) :
    ∀ fuel s, Inv s → μ s / k < fuel → EndsWithin step fuel s (μ s / k + 1) := by
  intro fuel
  induction fuel with
  | zero => intro s _ h; exact absurd h (Nat.not_lt_zero _)
  | succ n ih =>
    intro s hi h
    unfold EndsWithin
    simp only [run]
    cases hs : step s with
    | done r => simp
    | next s' =>
      have hp := hprog s s' hi (by simp [hs, Out.succ?])
      have hd := div_step hk hp.2
      have := ih s' hp.1 (by omega)
      unfold EndsWithin at this
      simp only
      exact ⟨this.1, by omega⟩
    | wrap s' g =>
      have hp := hprog s s' hi (by simp [hs, Out.succ?])
      have hd := div_step hk hp.2
      have := ih s' hp.1 (by omega)
      unfold EndsWithin at this
      simp only [Option.isSome_map]
      exact ⟨this.1, by omega⟩

/-- a loop that ended by itself gives the same answer and iteration count with any larger fuel -/
theorem run_stable {σ ρ : Type} (step : σ → Out σ ρ) : ∀ fuel s, (run step fuel s).res.isSome = true →
    ∀ fuel', fuel ≤ fuel' → run step fuel' s = run step fuel s := by
  intro fuel
  induction fuel with
  | zero => intro s h; simp [run] at h
  | succ n ih =>
    intro s h fuel' hle
    obtain ⟨m, rfl⟩ : ∃ m, fuel' = m + 1 := ⟨fuel' - 1, by omega⟩
    simp only [run] at h ⊢
    cases hs : step s with
    | done r => rfl
    | next s' =>
      rw [hs] at h
      simp only at h ⊢
      rw [ih s' h m (by omega)]
    | wrap s' g =>
      rw [hs] at h
      simp only [Option.isSome_map] at h ⊢
      rw [ih s' h m (by omega)]

theorem EndsWithin.mono {σ ρ : Type} {step : σ → Out σ ρ} {fuel fuel' : Nat} {s : σ} {n n' : Nat}
    (h : EndsWithin step fuel s n) (hf : fuel ≤ fuel') (hn : n ≤ n') : EndsWithin step fuel' s n' := by
  unfold EndsWithin at *
  rw [run_stable step fuel s h.1 fuel' hf]
  exact ⟨h.1, by omega⟩

/-- what the owning model returns after one more iteration, as a function of that iteration's outcome -/
def Out.fold {σ ρ : Type} (d : ρ) (r : σ → Run ρ) : Out σ ρ → ρ
  | .done x => x
  | .next s' => (r s').outD d
  | .wrap s' k => ((r s').res.map k).getD d

theorem run_outD_fold {σ ρ : Type} (step : σ → Out σ ρ) (fuel : Nat) (s : σ) (d : ρ) :
    (run step (fuel + 1) s).outD d = Out.fold d (run step fuel) (step s) := by
  simp only [run]
  cases step s <;> rfl

@[simp] theorem Out.fold_done {σ ρ : Type} (d : ρ) (r : σ → Run ρ) (x : ρ) : Out.fold d r (.done x) = x := rfl
@[simp] theorem Out.fold_next {σ ρ : Type} (d : ρ) (r : σ → Run ρ) (s : σ) : Out.fold d r (.next s) = (r s).outD d := rfl
@[simp] theorem Out.fold_wrap {σ ρ : Type} (d : ρ) (r : σ → Run ρ) (s : σ) (k : ρ → ρ) :
    Out.fold d r (.wrap s k) = ((r s).res.map k).getD d := rfl

/-- proves `model fuel args = (run step fuel state).outD d` in the successor case of an induction on the fuel:
    both sides have the same `if`/`match` skeleton, the leaves are `rfl` or the induction hypothesis -/
macro "walk_eq " ih:ident : tactic =>
  `(tactic| ((repeat' (first | rfl | exact $ih _ | exact $ih _ _ | exact $ih _ _ _ | exact $ih _ _ _ _ | split)) <;>
             (clear $ih; simp_all)))

/-- after `rw [run_outD_fold]; simp only [model, step, apply_ite (Out.fold …), Out.fold_done, Out.fold_next, ← ih]`:
    walks down the common `if` skeleton by congruence; leaves are syntactically equal up to matcher names -/
macro "walk_congr" : tactic =>
  `(tactic| (repeat' (first | rfl | refine ite_congr rfl (fun _ => ?_) (fun _ => ?_))))

end Xmp.Work
