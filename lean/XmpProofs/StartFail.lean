import XmpModel.StartFail
import XmpProofs.Reset
import XmpProofs.Resource
/-! Lemmas about the context image after a failing `xmp_start_player` (`XmpModel.StartFail`):
which members it can change, and when the idle invariant of C06 (`Reset.WF`) survives. -/
namespace Xmp.StartFail
open Xmp.Reset Xmp.Gen.CtxFields
open Xmp.Resource (Site Action StartCfg)

/-! ## the release actions -/

theorem cleanup_closed (l : List Action) : ∀ (s : Ctx) (f : Field),
    cleanup l s f = match nuller f with
      | some a => if a ∈ l then cst 0 else s f
      | none => s f := by
  induction l with
  | nil => intro s f; cases h : nuller f <;> simp [cleanup]
  | cons a l ih =>
    intro s f
    have := ih (cleanupStep s a) f
    simp only [cleanup, List.foldl_cons] at this ⊢
    rw [this]
    cases h : nuller f with
    | none => simp [cleanupStep, h]
    | some b =>
      simp only [cleanupStep, h, Option.some.injEq, List.mem_cons]
      by_cases hb : b = a
      · subst hb; simp
      · by_cases hl : b ∈ l <;> simp [hb, hl]

theorem cleanup_frame (l : List Action) (s : Ctx) (f : Field) (h : nuller f = none) : cleanup l s f = s f := by
  rw [cleanup_closed, h]

theorem cleanup_hit (l : List Action) (s : Ctx) (f : Field) (a : Action) (h : nuller f = some a) (hm : a ∈ l) :
    cleanup l s f = cst 0 := by
  rw [cleanup_closed, h]; simp [hm]

/-- a member that is already NULL / 0 stays so -/
theorem cleanup_zero (l : List Action) (s : Ctx) (f : Field) (h : s f = cst 0) : cleanup l s f = cst 0 := by
  rw [cleanup_closed]
  cases nuller f with
  | none => exact h
  | some a => by_cases hm : a ∈ l <;> simp [hm, h]

theorem nuller_written : ∀ f, (nuller f).isSome = true → (StartWrites f || MixerWrites f) = true := by
  intro f hf; cases f <;> first | rfl | exact absurd hf (by decide)

theorem nuller_frame (f : Field) (hsw : StartWrites f = false) (hmw : MixerWrites f = false) : nuller f = none := by
  cases h : nuller f with
  | none => rfl
  | some a =>
    have := nuller_written f (by rw [h]; rfl)
    simp [hsw, hmw] at this

/-! ## the frame: what a failing start cannot touch -/

theorem writtenBefore_sub (site : Site) : ∀ f, WrittenBefore site f = true → StartWrites f = true := by
  intro f hf
  cases site <;> cases f <;> first | rfl | exact absurd hf (by decide)

theorem endPlayer_frame (s : Ctx) (f : Field) (hsw : StartWrites f = false) (hmw : MixerWrites f = false) :
    endPlayer s f = s f := by
  unfold endPlayer
  split
  · rfl
  · cases f <;> first | rfl | exact absurd hsw (by decide) | exact absurd hmw (by decide)

theorem norm_frame (s : Ctx) (f : Field) (hsw : StartWrites f = false) (hmw : MixerWrites f = false) :
    (if s .state 0 > K.XMP_STATE_LOADED then endPlayer s else s) f = s f := by
  split
  · exact endPlayer_frame s f hsw hmw
  · rfl

theorem mixerOn_frame (X : Ext) (r fm : Int) (s : Ctx) (f : Field) (hmw : MixerWrites f = false) :
    mixerOn X r fm s f = s f := by
  cases f <;> first | rfl | exact absurd hmw (by decide)

theorem failVal_frame (site : Site) (second vfr : Bool) (s1 m full : Ctx) (f : Field)
    (hsw : StartWrites f = false) (hmw : MixerWrites f = false) (hm : m f = s1 f) :
    failVal site second vfr s1 m full f = s1 f := by
  cases site <;> cases f <;> first
    | exact absurd hsw (by decide)
    | exact absurd hmw (by decide)
    | rfl
    | exact hm

theorem atFailure_frame (X : Ext) (r fm : Int) (site : Site) (second vfr : Bool) (s0 : Ctx) (f : Field)
    (hsw : StartWrites f = false) (hmw : MixerWrites f = false) :
    atFailure X r fm site second vfr s0 f = s0 f := by
  have hn := norm_frame s0 f hsw hmw
  unfold atFailure
  rw [failVal_frame site second vfr _ _ _ f hsw hmw (mixerOn_frame X r fm _ f hmw)]
  exact hn

/-- **Frame.**  Whatever the unwinding table, a failing xmp_start_player leaves every member alone that
the success path (`xmp_start_player` + `libxmp_mixer_on`) does not write. -/
theorem failedStart_frame (cfg : StartCfg) (X : Ext) (r fm : Int) (site : Site) (second vfr : Bool) (s0 : Ctx) (f : Field)
    (hsw : StartWrites f = false) (hmw : MixerWrites f = false) :
    failedStart cfg X r fm site second vfr s0 f = s0 f := by
  unfold failedStart
  rw [cleanup_frame _ _ f (nuller_frame f hsw hmw)]
  exact atFailure_frame X r fm site second vfr s0 f hsw hmw

theorem persistent_frame : ∀ f, Persistent f = true → StartWrites f = false ∧ MixerWrites f = false := by
  intro f hf; cases f <;> first | exact ⟨rfl, rfl⟩ | exact absurd hf (by decide)

theorem partial_frame : ∀ f, PartialField f = true → StartWrites f = false ∧ MixerWrites f = false := by
  intro f hf; cases f <;> first | exact ⟨rfl, rfl⟩ | exact absurd hf (by decide)

/-- members of `B` (what the next start needs) that a start writes: only `mod->len` and `p->scan` -/
theorem B_written : ∀ f, B f = true → (StartWrites f || MixerWrites f) = true → f = .m_mod_len ∨ f = .p_scan := by
  intro f hb hw
  cases f <;> first
    | exact Or.inl rfl
    | exact Or.inr rfl
    | exact absurd hb (by decide)
    | exact absurd hw (by decide)

theorem startLen_mixerOn (X : Ext) (r fm : Int) (s : Ctx) : startLen (mixerOn X r fm s) = startLen s := rfl

theorem startLen_norm (s : Ctx) : startLen (if s .state 0 > K.XMP_STATE_LOADED then endPlayer s else s) = startLen s := by
  have h1 : (if s .state 0 > K.XMP_STATE_LOADED then endPlayer s else s) .m_mod_len = s .m_mod_len := by
    split
    · unfold endPlayer; split <;> rfl
    · rfl
  have h2 := norm_frame s .m_mod_xxo rfl rfl
  have h3 := norm_frame s .m_mod_pat rfl rfl
  unfold startLen
  rw [h1, h2, h3]

/-- on a module with a playable order the start does not change `mod->len` / `p->scan`: the two members
of `B` it writes keep their values through a failure at any site -/
theorem atFailure_len_scan (X : Ext) (r fm : Int) (site : Site) (second vfr : Bool) (s0 : Ctx)
    (hlen : s0 .m_mod_len = cst (startLen s0)) (hne : startLen s0 ≠ 0) :
    atFailure X r fm site second vfr s0 .m_mod_len = s0 .m_mod_len ∧
    atFailure X r fm site second vfr s0 .p_scan = s0 .p_scan := by
  have hn1 := norm_frame s0 .m_mod_len
  have hsl : startLen (mixerOn X r fm (if s0 .state 0 > K.XMP_STATE_LOADED then endPlayer s0 else s0)) = startLen s0 := by
    rw [startLen_mixerOn, startLen_norm]
  have hsc : (if s0 .state 0 > K.XMP_STATE_LOADED then endPlayer s0 else s0) .p_scan = s0 .p_scan := by
    split
    · unfold endPlayer; split <;> rfl
    · rfl
  have hml : (if s0 .state 0 > K.XMP_STATE_LOADED then endPlayer s0 else s0) .m_mod_len = s0 .m_mod_len := by
    split
    · unfold endPlayer; split <;> rfl
    · rfl
  have hfull : startCore X (mixerOn X r fm (if s0 .state 0 > K.XMP_STATE_LOADED then endPlayer s0 else s0)) .m_mod_len
      = s0 .m_mod_len := by
    simp only [startCore, startWrite, startIn, hsl]
    exact hlen.symm
  have hfsc : startCore X (mixerOn X r fm (if s0 .state 0 > K.XMP_STATE_LOADED then endPlayer s0 else s0)) .p_scan
      = s0 .p_scan := by
    simp only [startCore, startWrite, startIn, hsl, hne, if_false]
    exact hsc
  unfold atFailure
  cases site
  · exact ⟨hml, hsc⟩
  all_goals exact ⟨hfull, hfsc⟩

/-- **What the next start needs is intact.** -/
theorem failedStart_agreeB (cfg : StartCfg) (X : Ext) (r fm : Int) (site : Site) (second vfr : Bool) (s0 : Ctx)
    (hlen : s0 .m_mod_len = cst (startLen s0)) (hne : startLen s0 ≠ 0) :
    AgreeOn B s0 (failedStart cfg X r fm site second vfr s0) := by
  intro f hb
  by_cases hw : (StartWrites f || MixerWrites f) = true
  · have hn : nuller f = none := by
      rcases B_written f hb hw with h | h <;> subst h <;> rfl
    unfold failedStart
    rw [cleanup_frame _ _ f hn]
    obtain ⟨a, b⟩ := atFailure_len_scan X r fm site second vfr s0 hlen hne
    rcases B_written f hb hw with h | h <;> subst h
    · exact a.symm
    · exact b.symm
  · simp only [Bool.or_eq_true, not_or, Bool.not_eq_true] at hw
    exact (failedStart_frame cfg X r fm site second vfr s0 f hw.1 hw.2).symm

theorem failedStart_partial (cfg : StartCfg) (X : Ext) (r fm : Int) (site : Site) (second vfr : Bool) (s0 : Ctx) :
    PartialAgree s0 (failedStart cfg X r fm site second vfr s0) := by
  intro f i hf _
  obtain ⟨a, b⟩ := partial_frame f hf
  rw [failedStart_frame cfg X r fm site second vfr s0 f a b]

theorem failedStart_persistent (cfg : StartCfg) (X : Ext) (r fm : Int) (site : Site) (second vfr : Bool) (s0 : Ctx) :
    AgreeOn Persistent s0 (failedStart cfg X r fm site second vfr s0) := by
  intro f hf
  obtain ⟨a, b⟩ := persistent_frame f hf
  rw [failedStart_frame cfg X r fm site second vfr s0 f a b]

/-! ## the idle invariant -/

theorem norm_idle (s : Ctx) (hw : WF s) (f : Field) (hf : IdleField f = true) :
    (if s .state 0 > K.XMP_STATE_LOADED then endPlayer s else s) f = cst 0 := by
  split
  · next h =>
    apply endPlayer_idle s _ f hf
    simp only [K.XMP_STATE_LOADED, K.XMP_STATE_PLAYING] at *; omega
  · next h =>
    apply hw.idle _ f hf
    simp only [K.XMP_STATE_LOADED, K.XMP_STATE_PLAYING] at *; omega

theorem failedStart_state (cfg : StartCfg) (X : Ext) (r fm : Int) (site : Site) (second vfr : Bool) (s0 : Ctx) :
    failedStart cfg X r fm site second vfr s0 .state
      = (if s0 .state 0 > K.XMP_STATE_LOADED then endPlayer s0 else s0) .state := by
  unfold failedStart
  rw [cleanup_frame _ _ .state rfl]
  unfold atFailure
  cases site <;> rfl

theorem norm_state_lt (s : Ctx) : (if s .state 0 > K.XMP_STATE_LOADED then endPlayer s else s) .state 0 < K.XMP_STATE_PLAYING := by
  split
  · next h =>
    unfold endPlayer
    split
    · next h2 => exact h2
    · simp [cst, K.XMP_STATE_LOADED, K.XMP_STATE_PLAYING]
  · next h => simp only [K.XMP_STATE_LOADED, K.XMP_STATE_PLAYING] at *; omega

/-- **The context after a failed start is a well-formed idle context** whenever the decidable condition
`idleAfter` holds for the failing site (evaluated on the generated table on every run). -/
theorem failedStart_wf (cfg : StartCfg) (X : Ext) (r fm : Int) (site : Site) (second vfr : Bool) (s0 : Ctx)
    (hw : WF s0) (hid : idleAfter cfg site vfr = true) : WF (failedStart cfg X r fm site second vfr s0) := by
  simp only [idleAfter, Bool.and_eq_true, Bool.or_eq_true, beq_iff_eq, bne_iff_ne, ne_eq, List.contains_iff_mem] at hid
  obtain ⟨⟨h1, h2⟩, h3⟩ := hid
  constructor
  · intro _ f hf
    have hs1 := norm_idle s0 hw
    unfold failedStart atFailure
    simp only
    -- the four idle members
    cases f <;> first
      | exact absurd hf (by decide)
      | skip
    · -- p_xc_data
      cases site
      · exact cleanup_zero _ _ _ (hs1 .p_xc_data rfl)
      · exact cleanup_zero _ _ _ (hs1 .p_xc_data rfl)
      · exact cleanup_zero _ _ _ (hs1 .p_xc_data rfl)
      · exact cleanup_zero _ _ _ rfl
      · rcases h2 with h | h
        · exact absurd rfl h
        · exact cleanup_hit _ _ _ .xcData rfl h
    · -- p_virt_virt_channels
      cases site
      · exact cleanup_zero _ _ _ (hs1 .p_virt_virt_channels rfl)
      · rcases h3 with (h | h) | h
        · exact absurd h (by decide)
        · exact cleanup_hit _ _ _ .virtOff rfl h
        · have hv : vfr = true := h.2
          subst hv
          exact cleanup_zero _ _ _ rfl
      all_goals
        rcases h3 with (h | h) | h
        · exact absurd h (by decide)
        · exact cleanup_hit _ _ _ .virtOff rfl h
        · exact absurd h.1 (by decide)
    · -- p_virt_virt_used
      cases site
      · exact cleanup_zero _ _ _ (hs1 .p_virt_virt_used rfl)
      · cases vfr
        · exact cleanup_zero _ _ _ (hs1 .p_virt_virt_used rfl)
        · exact cleanup_zero _ _ _ rfl
      all_goals exact cleanup_zero _ _ _ rfl
    · -- s_buffer
      cases site
      · exact cleanup_zero _ _ _ rfl
      all_goals
        rcases h1 with h | h
        · exact absurd h (by decide)
        · exact cleanup_hit _ _ _ .mixerOff rfl h
  · intro hst
    rw [failedStart_state] at hst
    rw [failedStart_frame cfg X r fm site second vfr s0 .m_xtra rfl rfl]
    apply hw.xtra
    by_cases hp : s0 .state 0 > K.XMP_STATE_LOADED
    · rw [if_pos hp] at hst
      unfold endPlayer at hst
      split at hst
      · next h2 => simp only [K.XMP_STATE_LOADED, K.XMP_STATE_PLAYING] at *; omega
      · simp [cst, K.XMP_STATE_LOADED, K.XMP_STATE_UNLOADED] at hst
    · rw [if_neg hp] at hst
      exact hst

end Xmp.StartFail
