import XmpModel.Bzip2
/-!
# bzip2: bit reader against bit writer, byte packing
-/
namespace Xmp.Bzip2
open Xmp

theorem getBitsAux_putBits (rest : Bits) : ∀ (n acc v : Nat),
    getBitsAux n acc (putBits n v ++ rest) = .ok (acc * 2 ^ n + v % 2 ^ n, rest)
  | 0, acc, v => by simp [getBitsAux, putBits, Nat.mod_one]
  | n + 1, acc, v => by
    simp only [putBits, List.cons_append, getBitsAux]
    rw [getBitsAux_putBits rest n]
    congr 2
    have h : v % 2 ^ (n + 1) = 2 ^ n * (v.testBit n).toNat + v % 2 ^ n := by
      rw [Nat.toNat_testBit, Nat.mod_pow_succ]; omega
    rw [h, Nat.pow_succ]
    generalize 2 ^ n = P
    generalize (v.testBit n).toNat = b
    generalize v % P = r
    rw [Nat.add_mul, Nat.mul_comm P b]
    have : acc * (P * 2) = 2 * acc * P := by rw [Nat.mul_comm P 2, ← Nat.mul_assoc, Nat.mul_comm acc 2]
    omega

theorem getBits_putBits (n v : Nat) (hv : v < 2 ^ n) (rest : Bits) :
    getBits n (putBits n v ++ rest) = .ok (v, rest) := by
  unfold getBits
  rw [getBitsAux_putBits, Nat.mod_eq_of_lt hv]; simp

theorem putBits_length : ∀ (n v : Nat), (putBits n v).length = n
  | 0, _ => rfl
  | n + 1, v => by simp [putBits, putBits_length n v]

/-! ## bytes ↔ bits -/

theorem toBits_cons (b : UInt8) (f : Bytes) : toBits (b :: f) = byteBits b ++ toBits f := by
  simp [toBits]

theorem toBits_nil : toBits [] = [] := rfl

theorem byteBits_packByte8 : ∀ (b0 b1 b2 b3 b4 b5 b6 b7 : Bool),
    byteBits (packByte [b0, b1, b2, b3, b4, b5, b6, b7]) = [b0, b1, b2, b3, b4, b5, b6, b7] := by
  decide

theorem byteBits_packByte (c : Bits) (h : c.length = 8) : byteBits (packByte c) = c := by
  match c, h with
  | [b0, b1, b2, b3, b4, b5, b6, b7], _ => exact byteBits_packByte8 b0 b1 b2 b3 b4 b5 b6 b7

theorem packBits_nil (fuel : Nat) : packBits fuel [] = [] := by
  cases fuel <;> rfl

/-- packing pads the last byte with zero bits -/
theorem toBits_packBits : ∀ (fuel : Nat) (bits : Bits), bits.length ≤ 8 * fuel →
    ∃ pad, toBits (packBits fuel bits) = bits ++ List.replicate pad false
  | 0, bits, h => by
    have : bits = [] := List.eq_nil_of_length_eq_zero (by omega)
    subst this
    exact ⟨0, rfl⟩
  | fuel + 1, [], _ => ⟨0, rfl⟩
  | fuel + 1, b0 :: rest, h => by
    simp only [packBits, toBits_cons]
    by_cases h8 : 8 ≤ (b0 :: rest).length
    · have hl : ((b0 :: rest).take 8).length = 8 := by rw [List.length_take]; omega
      obtain ⟨pad, ih⟩ := toBits_packBits fuel ((b0 :: rest).drop 8) (by rw [List.length_drop]; omega)
      refine ⟨pad, ?_⟩
      rw [hl, Nat.sub_self, List.replicate_zero, List.append_nil, byteBits_packByte _ hl, ih, ← List.append_assoc,
        List.take_append_drop]
    · have hl : ((b0 :: rest).take 8).length = (b0 :: rest).length := by rw [List.length_take]; omega
      have ht : (b0 :: rest).take 8 = b0 :: rest := List.take_of_length_le (by omega)
      have hd : (b0 :: rest).drop 8 = [] := List.drop_of_length_le (by omega)
      refine ⟨8 - (b0 :: rest).length, ?_⟩
      rw [hd, packBits_nil, toBits_nil, List.append_nil, ht,
        byteBits_packByte _ (by rw [List.length_append, List.length_replicate]; omega)]

end Xmp.Bzip2
