import XmpModel.Fx
import XmpProofs.Seq
/-! Helper lemmas for the flow-effect model (C16): every modelled write of an effect stage keeps
the variables the kernel reads inside the range `Seq.EffOk` asks for. -/
namespace Xmp.Fx
open Xmp.Gen.PlayerConsts Xmp.Seq

/-- What label `fx_s3m_bpm` needs from the time factor: the tempo minimum it clamps to is at
least 1 and does not vanish when it is stored in the byte `fxp`.  With `CLAMP(min_bpm, 1, 255)` in
the code (`bpmClamp = some (1, 255)`) this holds for every time factor (`envOk_of_clamp`); without
it, it fails for `time_factor < 0.25` and for `time_factor` in `[127.75, 128.25)`, … (`EnvOk`
refuted: `envOk_counterexamples`). -/
def EnvOk (env : Env) : Prop := 1 ≤ env.minBpmEff ∧ env.minBpmEff % 256 ≠ 0

/-- with `CLAMP(min_bpm, lo, hi)`, `1 ≤ lo ≤ hi ≤ 255`, in the code the requirement holds for every time factor -/
theorem envOk_of_clamp {env : Env} {lo hi : Int} (h : env.bpmClamp = some (lo, hi)) (h1 : 1 ≤ lo) (h2 : lo ≤ hi) (h3 : hi ≤ 255) :
    EnvOk env := by
  unfold EnvOk Env.minBpmEff
  rw [h]
  simp only
  split
  · omega
  · split <;> omega

/-- the code as generated from /repo has that clamp (since /repo 694de7b): `EnvOk` holds for every
environment built with the generated constant (the default of `Env.bpmClamp`), whatever the time
factor -/
theorem envOk_generated {env : Env} (h : env.bpmClamp = s3mBpmClamp) : EnvOk env := by
  unfold s3mBpmClamp at h
  exact envOk_of_clamp h (by decide) (by decide) (by decide)

/-- the five clauses of `Seq.EffOk`/`Seq.Core` on a flow record -/
structure FlowOk (f : Flow) : Prop where
  speed : 1 ≤ f.speed ∧ f.speed ≤ 255
  bpm : 1 ≤ f.bpm
  st26 : st26ok f.st26 = true
  jump : -1 ≤ f.jump
  jumpline : 0 ≤ f.jumpline

/-- the variables of `FlowOk` other than `jumpline` agree -/
def SameTempo (f g : Flow) : Prop :=
  g.speed = f.speed ∧ g.bpm = f.bpm ∧ g.st26 = f.st26 ∧ g.jump = f.jump

theorem flowOk_of_same {f g : Flow} (h : FlowOk f) (s : SameTempo f g) (j : 0 ≤ g.jumpline) : FlowOk g := by
  obtain ⟨a, b, c, d⟩ := s
  exact ⟨by rw [a]; exact h.speed, by rw [b]; exact h.bpm, by rw [c]; exact h.st26, by rw [d]; exact h.jump, j⟩

/-- the five variables of `FlowOk` agree -/
def Keeps (f g : Flow) : Prop :=
  g.speed = f.speed ∧ g.bpm = f.bpm ∧ g.st26 = f.st26 ∧ g.jump = f.jump ∧ g.jumpline = f.jumpline

theorem Keeps.refl (f : Flow) : Keeps f f := ⟨rfl, rfl, rfl, rfl, rfl⟩

theorem keeps_ite {f a b : Flow} {c : Prop} [Decidable c] (ha : Keeps f a) (hb : Keeps f b) : Keeps f (if c then a else b) := by
  split <;> assumption

theorem keeps_setLoopAt {f g : Flow} (h : Keeps f g) (chn : Int) (l : Loop) : Keeps f (g.setLoopAt chn l) := by
  unfold Flow.setLoopAt
  split
  · exact h
  · exact h

theorem keeps_setStart {f g : Flow} (env : Env) (h : Keeps f g) (chn v : Int) : Keeps f (setStart env g chn v) := by
  unfold setStart
  split
  · exact h
  · exact keeps_setLoopAt h _ _

theorem keeps_setCount {f g : Flow} (env : Env) (h : Keeps f g) (chn v : Int) : Keeps f (setCount env g chn v) := by
  unfold setCount
  split
  · exact h
  · exact keeps_setLoopAt h _ _

theorem keeps_loopDest {f g : Flow} (h : Keeps f g) (v : Int) : Keeps f { g with loopDest := v } := h
theorem keeps_loopActive {f g : Flow} (h : Keeps f g) (v : Int) : Keeps f { g with loopActive := v } := h
theorem keeps_loopParam {f g : Flow} (h : Keeps f g) (v : Int) : Keeps f { g with loopParam := v } := h

theorem keeps_loopCountDown {f g : Flow} (env : Env) (h : Keeps f g) (chn row start1 count : Int) :
    Keeps f (loopCountDown env g chn row start1 count) := by
  unfold loopCountDown
  split
  · exact keeps_loopDest (keeps_setCount env h _ _) _
  · simp only
    apply keeps_loopActive
    apply keeps_ite
    · apply keeps_loopDest
      exact keeps_ite (keeps_setStart env (keeps_setCount env h _ _) _ _) (keeps_setCount env h _ _)
    · exact keeps_ite (keeps_setStart env (keeps_setCount env h _ _) _ _) (keeps_setCount env h _ _)

theorem keeps_loopJump {f g : Flow} (env : Env) (h : Keeps f g) (chn row fxp : Int) : Keeps f (loopJump env g chn row fxp) := by
  unfold loopJump
  simp only
  have h1 : Keeps f (if curStart env g chn < 0 then setStart env g chn (startFixed env g chn row) else g) :=
    keeps_ite (keeps_setStart env h _ _) h
  generalize (if curStart env g chn < 0 then setStart env g chn (startFixed env g chn row) else g) = f1 at h1 ⊢
  split
  · exact keeps_loopCountDown env h1 _ _ _ _
  · split
    · exact h1
    · exact keeps_setCount env h1 chn fxp

/-- `libxmp_process_pattern_loop` writes only the loop bookkeeping, `loop_dest` and (FT2) the
break row, which becomes the current row. -/
theorem patternLoop_same (env : Env) (f : Flow) (chn row fxp : Int) :
    SameTempo f (patternLoop env f chn row fxp) ∧
    ((patternLoop env f chn row fxp).jumpline = f.jumpline ∨ (patternLoop env f chn row fxp).jumpline = row) := by
  unfold patternLoop
  split
  · exact ⟨⟨rfl, rfl, rfl, rfl⟩, Or.inl rfl⟩
  · have h0 : Keeps f { f with loopParam := fxp } := Keeps.refl f
    split
    · unfold loopMark
      split
      · exact ⟨⟨rfl, rfl, rfl, rfl⟩, Or.inl rfl⟩
      · have k := keeps_setStart env h0 chn row
        split
        · exact ⟨⟨k.1, k.2.1, k.2.2.1, k.2.2.2.1⟩, Or.inr rfl⟩
        · exact ⟨⟨k.1, k.2.1, k.2.2.1, k.2.2.2.1⟩, Or.inl k.2.2.2.2⟩
    · have k := keeps_loopJump env h0 chn row fxp
      exact ⟨⟨k.1, k.2.1, k.2.2.1, k.2.2.2.1⟩, Or.inl k.2.2.2.2⟩

theorem patternLoop_ok {env : Env} {f : Flow} (h : FlowOk f) (chn row fxp : Int) (hr : 0 ≤ row) :
    FlowOk (patternLoop env f chn row fxp) := by
  obtain ⟨a, b⟩ := patternLoop_same env f chn row fxp
  refine flowOk_of_same h a ?_
  have := h.jumpline
  rcases b with b | b <;> omega

theorem s3mSpeed_ok {f : Flow} (h : FlowOk f) {p : Int} (hp : 0 ≤ p ∧ p ≤ 255) : FlowOk (s3mSpeed f p) := by
  unfold s3mSpeed
  split
  · exact ⟨by simp only; omega, h.bpm, st26ok_of (Or.inl rfl), h.jump, h.jumpline⟩
  · exact h

theorem s3mBpm_ok {env : Env} (he : EnvOk env) {f : Flow} (h : FlowOk f) {p : Int} (hp : 0 ≤ p) :
    FlowOk (s3mBpm env f p) := by
  unfold s3mBpm
  refine ⟨h.speed, ?_, h.st26, h.jump, h.jumpline⟩
  simp only
  obtain ⟨e1, e2⟩ := he
  split
  · have := Int.emod_nonneg env.minBpmEff (by omega : (256 : Int) ≠ 0)
    omega
  · omega

theorem pattDelay_ok {env : Env} {f : Flow} (h : FlowOk f) (p : Int) : FlowOk (pattDelay env f p) := by
  unfold pattDelay
  split
  · exact ⟨h.speed, h.bpm, h.st26, h.jump, h.jumpline⟩
  · exact h

theorem st26ok_two {h l : Int} (hh : 1 ≤ h ∧ h ≤ 15) (hl : 1 ≤ l ∧ l ≤ 15) : st26ok (h * 256 + l) = true := by
  apply st26ok_of
  right
  have e1 : (h * 256 + l) % 256 = l := by omega
  have e2 : (h * 256 + l) / 256 = h := by omega
  refine ⟨by omega, by omega, by rw [e1]; omega, by rw [e2]; omega⟩

theorem iceSpeed_ok {f : Flow} (h : FlowOk f) {p : Int} (hp : 0 ≤ p ∧ p ≤ 255) : FlowOk (iceSpeed f p) := by
  unfold iceSpeed msn lsn
  generalize hH : p / 16 = H
  generalize hL : p % 16 = L
  have bH : 0 ≤ H ∧ H ≤ 15 := by omega
  have bL : 0 ≤ L ∧ L ≤ 15 := by omega
  split
  · rename_i hne
    have hnz : H ≠ 0 ∨ L ≠ 0 := by omega
    split
    · exact ⟨h.speed, h.bpm, st26ok_two (by omega) (by omega), h.jump, h.jumpline⟩
    · refine ⟨h.speed, h.bpm, ?_, h.jump, h.jumpline⟩
      simp only
      split
      · exact st26ok_two (by omega) (by omega)
      · exact st26ok_two (by omega) (by omega)
  · exact h

theorem effectMemoryS3m_byte (env : Env) {fxp : Int} (volMem : Int) (hp : 0 ≤ fxp ∧ fxp ≤ 255) :
    0 ≤ (effectMemoryS3m env fxp volMem).1 ∧ (effectMemoryS3m env fxp volMem).1 ≤ 255 := by
  unfold effectMemoryS3m
  split
  · split
    · have := Int.emod_nonneg volMem (by omega : (256 : Int) ≠ 0)
      have := Int.emod_lt_of_pos volMem (by omega : (0 : Int) < 256)
      simp only; omega
    · exact hp
  · exact hp

/-! ### FAR tempo effects -/

theorem farShiftLoop_count : ∀ (n : Nat) (d t k : Int), k ≤ (farShiftLoop n d t k).2 ∧ (farShiftLoop n d t k).2 ≤ k + n := by
  intro n
  induction n with
  | zero => intro d t k; simp [farShiftLoop]
  | succ n ih =>
    intro d t k
    unfold farShiftLoop
    split
    · have := ih (d / 2) (t * 2) (k + 1)
      omega
    · simp only; omega

theorem farNewTempo_range {tempo : Int} {r : Int × Int} (h : farNewTempo tempo = some r) :
    (4 ≤ r.1 ∧ r.1 ≤ 37) ∧ minBpm ≤ r.2 := by
  unfold farNewTempo at h
  split at h
  · cases h
  · simp only [Option.some.injEq] at h
    have c := farShiftLoop_count 32 ((Int.tdiv farPitClock tempo) % 4294967296) tempo 0
    subst h
    refine ⟨?_, ?_⟩
    · simp only; split <;> omega
    · simp only; split <;> omega

theorem farOldTempo_range (base fine1 : Int) : (farOldTempo base fine1).1 = 16 ∧ minBpm ≤ (farOldTempo base fine1).2 := by
  unfold farOldTempo
  have e : (4 : Int) * 2 ^ farOldTempoShift.toNat = 16 := by decide
  refine ⟨e, ?_⟩
  simp only
  split <;> omega

/-- `libxmp_far_translate_tempo`, when it returns 0, gives a speed in 4..37 and a tempo of at least
`XMP_MIN_BPM` — for EVERY mode, fine change, coarse and fine tempo, negative tempos included. -/
theorem farTranslate_range (mode fc coarse fine : Int) {r : Int × Int}
    (h : (farTranslate mode fc coarse fine).2 = some r) : (4 ≤ r.1 ∧ r.1 ≤ 37) ∧ minBpm ≤ r.2 := by
  unfold farTranslate at h
  split at h
  · cases h
  · simp only at h
    split at h
    · exact farNewTempo_range h
    · simp only [Option.some.injEq] at h
      subst h
      have := farOldTempo_range (farTempos.getD coarse.toNat 0) (farFineClamp fc (farTempos.getD coarse.toNat 0) fine)
      omega

theorem farUpdate_ok {f : Flow} (h : FlowOk f) (fc : Int) : FlowOk (farUpdate f fc) := by
  unfold farUpdate
  have hmb : (1 : Int) ≤ minBpm := by decide
  split
  · rename_i r heq
    have q := farTranslate_range _ _ _ _ heq
    exact ⟨by simp only; omega, by simp only; omega, h.st26, h.jump, h.jumpline⟩
  · exact ⟨h.speed, h.bpm, h.st26, h.jump, h.jumpline⟩

theorem farTempoFx_ok {f : Flow} (h : FlowOk f) (fxt fxp : Int) : FlowOk (farTempoFx f fxt fxp) := by
  have k : ∀ g : Flow, g.speed = f.speed → g.bpm = f.bpm → g.st26 = f.st26 → g.jump = f.jump → g.jumpline = f.jumpline → FlowOk g :=
    fun g a b c d e => ⟨by rw [a]; exact h.speed, by rw [b]; exact h.bpm, by rw [c]; exact h.st26, by rw [d]; exact h.jump,
      by rw [e]; exact h.jumpline⟩
  unfold farTempoFx
  split
  · refine farUpdate_ok ?_ _
    split <;> exact k _ rfl rfl rfl rfl rfl
  · split
    · refine farUpdate_ok ?_ _; exact k _ rfl rfl rfl rfl rfl
    · split
      · refine farUpdate_ok ?_ _; exact k _ rfl rfl rfl rfl rfl
      · refine farUpdate_ok ?_ _; exact k _ rfl rfl rfl rfl rfl

/-- **FxRange, one call**: `libxmp_process_fx` with any effect number, a parameter byte, any
channel, any ST3 effect memory and any pattern-loop bookkeeping keeps speed in 1..255, tempo ≥ 1,
`st26_speed` well-formed, `jump ≥ -1`, `jumpline ≥ 0`. -/
theorem processFx_ok {env : Env} (he : EnvOk env) {ord row : Int} (chn volMem fxt : Int) {fxp : Int} {f f' : Flow} {vm : Int}
    (ho : 0 ≤ ord) (hr : 0 ≤ row) (hp : 0 ≤ fxp ∧ fxp ≤ 255) (h : FlowOk f)
    (hq : processFx env ord row chn volMem fxt fxp f = some (f', vm)) : FlowOk f' := by
  have hm := effectMemoryS3m_byte env volMem hp
  have hl : 0 ≤ lsn (effectMemoryS3m env fxp volMem).1 ∧ lsn (effectMemoryS3m env fxp volMem).1 ≤ 255 := by
    unfold lsn; omega
  unfold processFx at hq
  by_cases c1 : fxt = fxJump
  · rw [if_pos c1] at hq
    cases hq; exact ⟨h.speed, h.bpm, h.st26, by simp only; omega, by simp only; omega⟩
  rw [if_neg c1] at hq
  by_cases c2 : fxt = fxBreak
  · rw [if_pos c2] at hq
    cases hq; exact ⟨h.speed, h.bpm, h.st26, h.jump, by simp only [msn, lsn]; omega⟩
  rw [if_neg c2] at hq
  by_cases c3 : fxt = fxExtended
  · rw [if_pos c3] at hq
    split at hq
    · cases hq; exact patternLoop_ok h _ _ _ hr
    · split at hq
      · cases hq; exact pattDelay_ok h _
      · cases hq; exact h
  rw [if_neg c3] at hq
  by_cases c4 : fxt = fxSpeed
  · rw [if_pos c4] at hq
    split at hq
    · cases hq; exact s3mSpeed_ok h hp
    · split at hq
      · cases hq; exact s3mSpeed_ok h hp
      · cases hq; exact s3mBpm_ok he h hp.1
  rw [if_neg c4] at hq
  by_cases c5 : fxt = fxPattDelay
  · rw [if_pos c5] at hq
    cases hq; exact pattDelay_ok h _
  rw [if_neg c5] at hq
  by_cases c6 : fxt = fxS3mSpeed
  · rw [if_pos c6] at hq
    cases hq; exact s3mSpeed_ok h hm
  rw [if_neg c6] at hq
  by_cases c7 : fxt = fxS3mBpm
  · rw [if_pos c7] at hq
    cases hq; exact s3mBpm_ok he h hp.1
  rw [if_neg c7] at hq
  by_cases c8 : fxt = fxItBpm
  · rw [if_pos c8] at hq
    split at hq
    · cases hq; exact h
    · cases hq
      refine ⟨h.speed, ?_, h.st26, h.jump, h.jumpline⟩
      have hmb : (1 : Int) ≤ minBpm := by decide
      show 1 ≤ if fxp < minBpm then minBpm else fxp
      by_cases hlt : fxp < minBpm
      · rw [if_pos hlt]; exact hmb
      · rw [if_neg hlt]; omega
  rw [if_neg c8] at hq
  by_cases c9 : fxt = fxItRowdelay
  · rw [if_pos c9] at hq
    split at hq
    · cases hq; exact ⟨h.speed, h.bpm, h.st26, h.jump, h.jumpline⟩
    · cases hq; exact h
  rw [if_neg c9] at hq
  by_cases c10 : fxt = fxItBreak
  · rw [if_pos c10] at hq
    split at hq
    · cases hq; exact ⟨h.speed, h.bpm, h.st26, h.jump, by simp only; omega⟩
    · cases hq; exact h
  rw [if_neg c10] at hq
  by_cases c11 : fxt = fxGlobalvol
  · rw [if_pos c11] at hq
    cases hq; exact ⟨h.speed, h.bpm, h.st26, h.jump, h.jumpline⟩
  rw [if_neg c11] at hq
  by_cases c12 : fxt = fxIceSpeed
  · rw [if_pos c12] at hq
    cases hq; exact iceSpeed_ok h hp
  rw [if_neg c12] at hq
  by_cases c13 : fxt = fxSpeedCp
  · rw [if_pos c13] at hq
    cases hq; exact s3mSpeed_ok h hp
  rw [if_neg c13] at hq
  by_cases c14 : fxt = fxUltTempo
  · rw [if_pos c14] at hq
    split at hq
    · cases hq
      have h6 : FlowOk { f with speed := 6, st26 := 0 } :=
        ⟨by simp only; omega, h.bpm, st26ok_of (Or.inl rfl), h.jump, h.jumpline⟩
      exact s3mBpm_ok he h6 (by omega)
    · split at hq
      · cases hq; exact s3mSpeed_ok h hp
      · cases hq; exact s3mBpm_ok he h hp.1
  rw [if_neg c14] at hq
  by_cases c15 : fxt = fxLineJump
  · rw [if_pos c15] at hq
    cases hq
    refine ⟨?_, ?_, ?_, ?_, by simp only; omega⟩
    · simp only; split <;> exact h.speed
    · simp only; split <;> exact h.bpm
    · simp only; split <;> exact h.st26
    · simp only
      split
      · simp only; omega
      · exact h.jump
  rw [if_neg c15] at hq
  split at hq
  · cases hq; exact farTempoFx_ok h _ _
  · cases hq; exact h

theorem cdSpeed1_ok {f : Flow} (h : FlowOk f) (t : Int) {p : Int} (hp : 0 ≤ p ∧ p ≤ 255) : FlowOk (cdSpeed1 t p f) := by
  unfold cdSpeed1
  split
  · exact ⟨by simp only; omega, h.bpm, h.st26, h.jump, h.jumpline⟩
  · exact h

theorem checkDelaySpeed_ok {f : Flow} (h : FlowOk f) {e : Ev} (h1 : 0 ≤ e.fxp ∧ e.fxp ≤ 255) (h2 : 0 ≤ e.f2p ∧ e.f2p ≤ 255) :
    FlowOk (checkDelaySpeed e f) :=
  cdSpeed1_ok (cdSpeed1_ok h _ h1) _ h2

theorem tempoSlideStep_ok {f : Flow} (h : FlowOk f) (d : Int) : FlowOk (tempoSlideStep f d) := by
  unfold tempoSlideStep
  refine ⟨h.speed, ?_, h.st26, h.jump, h.jumpline⟩
  simp only
  split
  · omega
  · split <;> omega

/-! ### events, rows -/

/-- the parameters of an event are bytes -/
def EvOk (e : Ev) : Prop := (0 ≤ e.fxp ∧ e.fxp ≤ 255) ∧ (0 ≤ e.f2p ∧ e.f2p ≤ 255)

theorem readEvent_ok {env : Env} (he : EnvOk env) {ord row : Int} (frame chn volMem : Int) {e : Ev} {f f' : Flow} {vm : Int}
    (ho : 0 ≤ ord) (hr : 0 ≤ row) (hev : EvOk e) (h : FlowOk f)
    (hq : readEvent env ord row frame chn volMem e f = some (f', vm)) : FlowOk f' := by
  unfold readEvent at hq
  split at hq
  · cases hq; exact h
  simp only at hq
  split at hq
  · cases hq
  · rename_i f1 vm1 h1
    by_cases hit : env.readEvent = readEventIt
    · simp only [hit, if_true] at h1 hq
      exact processFx_ok he chn vm1 _ ho hr hev.2 (processFx_ok he chn volMem _ ho hr hev.1 h h1) hq
    · simp only [hit, if_false] at h1 hq
      exact processFx_ok he chn vm1 _ ho hr hev.1 (processFx_ok he chn volMem _ ho hr hev.2 h h1) hq

theorem readRowChan_ok {env : Env} (he : EnvOk env) {ord row : Int} (frame chn volMem : Int) {e : Ev} {f f' : Flow}
    (ho : 0 ≤ ord) (hr : 0 ≤ row) (hev : EvOk e) (h : FlowOk f)
    (hq : readRowChan env ord row frame chn volMem e f = some f') : FlowOk f' := by
  unfold readRowChan at hq
  have hc := checkDelaySpeed_ok h hev.1 hev.2
  simp only at hq
  split at hq
  · cases hq; exact hc
  · split at hq
    · cases hre : readEvent env ord row frame chn volMem e (checkDelaySpeed e f) with
      | none => rw [hre] at hq; cases hq
      | some r =>
        obtain ⟨f1, vm⟩ := r
        rw [hre] at hq
        simp only [Option.map_some, Option.some.injEq] at hq
        subst hq
        exact readEvent_ok he frame chn volMem ho hr hev hc hre
    · cases hq; exact hc

/-- **FxRange, one row**: `read_row` over any events keeps the range. -/
theorem readRow_ok {env : Env} (he : EnvOk env) {ord row : Int} (frame : Int) (ho : 0 ≤ ord) (hr : 0 ≤ row) :
    ∀ (chans : List (Ev × Int)) (chn : Int) (f f' : Flow), (∀ c ∈ chans, EvOk c.1) → FlowOk f →
      readRow env ord row frame chn chans f = some f' → FlowOk f' := by
  intro chans
  induction chans with
  | nil => intro chn f f' _ h hq; simp only [readRow, Option.some.injEq] at hq; subst hq; exact h
  | cons c rest ih =>
    intro chn f f' hev h hq
    obtain ⟨e, vm⟩ := c
    unfold readRow at hq
    split at hq
    · cases hq
    · rename_i f1 h1
      exact ih (chn + 1) f1 f' (fun c hc => hev c (List.mem_cons_of_mem _ hc))
        (readRowChan_ok he frame chn vm ho hr (hev (e, vm) (List.mem_cons_self ..)) h h1) hq

/-! ### the sequencer state -/

/-- the clauses of `FlowOk` on a sequencer state, with `ord`, `row` non-negative -/
structure StOk (s : St) : Prop where
  speed : 1 ≤ s.speed ∧ s.speed ≤ 255
  bpm : 1 ≤ s.bpm
  st26 : st26ok s.st26 = true
  jump : -1 ≤ s.jump
  jumpline : 0 ≤ s.jumpline
  ord : 0 ≤ s.ord
  row : 0 ≤ s.row

theorem StOk.of_playing {m : SeqMod} {s : St} (hp : Playing m s) : StOk s :=
  ⟨hp.core.speed, hp.core.bpm, hp.core.st26, hp.core.jump, hp.core.jumpline, hp.core.ord.1, hp.core.row⟩

/-- the kernel-owned fields agree -/
def KFix (s s' : St) : Prop :=
  s'.ord = s.ord ∧ s'.pos = s.pos ∧ s'.row = s.row ∧ s'.frame = s.frame ∧ s'.loopCount = s.loopCount ∧
  s'.sequence = s.sequence ∧ s'.numRows = s.numRows ∧ s'.endPoint = s.endPoint ∧ s'.ftBpm = s.ftBpm

theorem KFix.refl (s : St) : KFix s s := ⟨rfl, rfl, rfl, rfl, rfl, rfl, rfl, rfl, rfl⟩

theorem KFix.trans {a b c : St} (h1 : KFix a b) (h2 : KFix b c) : KFix a c := by
  unfold KFix at *; omega

theorem toFlow_ok {s : St} (h : StOk s) (x : Extras) : FlowOk (toFlow s x) :=
  ⟨h.speed, h.bpm, h.st26, h.jump, h.jumpline⟩

theorem ofFlow_ok {s : St} (h : StOk s) {f : Flow} (hf : FlowOk f) : StOk (ofFlow s f) ∧ KFix s (ofFlow s f) :=
  ⟨⟨hf.speed, hf.bpm, hf.st26, hf.jump, hf.jumpline, h.ord, h.row⟩, ⟨rfl, rfl, rfl, rfl, rfl, rfl, rfl, rfl, rfl⟩⟩

/-- `Fx.st26StepFlow` is `Seq.st26Step` seen through the link functions -/
theorem st26StepFlow_eq (s : St) (x : Extras) : ofFlow s (st26StepFlow (toFlow s x)) = st26Step s := by
  obtain ⟨ord, pos, row, frame, speed, bpm, gvol, st26, loopCount, sequence, pbreak, jump, delay, jumpline, loopDest, rowdelay,
    numRows, endPoint, ftBpm⟩ := s
  unfold st26StepFlow st26Step
  by_cases h : st26 ≠ 0
  · have h' : (toFlow ⟨ord, pos, row, frame, speed, bpm, gvol, st26, loopCount, sequence, pbreak, jump, delay, jumpline, loopDest,
        rowdelay, numRows, endPoint, ftBpm⟩ x).st26 ≠ 0 := h
    rw [if_pos h', if_pos h]; rfl
  · have h' : ¬ (toFlow ⟨ord, pos, row, frame, speed, bpm, gvol, st26, loopCount, sequence, pbreak, jump, delay, jumpline, loopDest,
        rowdelay, numRows, endPoint, ftBpm⟩ x).st26 ≠ 0 := h
    rw [if_neg h', if_neg h]; rfl

/-- side conditions of a primitive write: parameters are bytes (FAR modules and their tempo effects
included: they are modelled); a write by unmodelled code (`raw`, not needed for libxmp's player)
stays inside `Seq.EffOk` -/
def PrimOk (_env : Env) : Prim → Prop
  | .fx _ _ _ _ fxp => 0 ≤ fxp ∧ fxp ≤ 255
  | .row _ chans => ∀ c ∈ chans, EvOk c.1
  | .cdSpeed e => EvOk e
  | .tempoSlide _ => True
  | .gvol _ => True
  | .raw e => EffOk e

theorem applyEff_stOk {s : St} (h : StOk s) {e : Eff} (he : EffOk e) : StOk (applyEff s e) ∧ KFix s (applyEff s e) := by
  refine ⟨⟨?_, ?_, ?_, ?_, ?_, h.ord, h.row⟩, ⟨rfl, rfl, rfl, rfl, rfl, rfl, rfl, rfl, rfl⟩⟩
  · simp only [applyEff]
    cases hsp : e.speed with
    | none => exact h.speed
    | some v => exact he.speed v hsp
  · simp only [applyEff]
    cases hsp : e.bpm with
    | none => exact h.bpm
    | some v => exact he.bpm v hsp
  · simp only [applyEff]
    cases hsp : e.st26 with
    | none => exact h.st26
    | some v => exact he.st26 v hsp
  · simp only [applyEff]
    cases hsp : e.jump with
    | none => exact h.jump
    | some v => exact he.jump v hsp
  · simp only [applyEff]
    cases hsp : e.jumpline with
    | none => exact h.jumpline
    | some v => exact he.jumpline v hsp

/-- **FxRange, one write** on the sequencer state -/
theorem applyPrim_ok {env : Env} (he : EnvOk env) {s : St} (h : StOk s) {p : Prim} (hp : PrimOk env p) :
    StOk (applyPrim env s p) ∧ KFix s (applyPrim env s p) := by
  cases p with
  | fx x chn volMem fxt fxp =>
    simp only [applyPrim]
    cases hq : processFx env s.ord s.row chn volMem fxt fxp (toFlow s x) with
    | none => exact ⟨h, KFix.refl s⟩
    | some r =>
      obtain ⟨f, vm⟩ := r
      exact ofFlow_ok h (processFx_ok he chn volMem fxt h.ord h.row hp (toFlow_ok h x) hq)
  | row x chans =>
    simp only [applyPrim]
    cases hq : readRow env s.ord s.row s.frame 0 chans (toFlow s x) with
    | none => exact ⟨h, KFix.refl s⟩
    | some f => exact ofFlow_ok h (readRow_ok he s.frame h.ord h.row chans 0 _ f hp (toFlow_ok h x) hq)
  | cdSpeed e => exact ofFlow_ok h (checkDelaySpeed_ok (toFlow_ok h {}) hp.1 hp.2)
  | tempoSlide d => exact ofFlow_ok h (tempoSlideStep_ok (toFlow_ok h {}) d)
  | gvol v => exact ⟨⟨h.speed, h.bpm, h.st26, h.jump, h.jumpline, h.ord, h.row⟩, ⟨rfl, rfl, rfl, rfl, rfl, rfl, rfl, rfl, rfl⟩⟩
  | raw e => exact applyEff_stOk h hp

def PrimsOk (env : Env) (ps : List Prim) : Prop := ∀ p ∈ ps, PrimOk env p

theorem runPrims_ok {env : Env} (he : EnvOk env) : ∀ (ps : List Prim) (s : St), StOk s → PrimsOk env ps →
    StOk (runPrims env s ps) ∧ KFix s (runPrims env s ps) := by
  intro ps
  induction ps with
  | nil => intro s h _; exact ⟨h, KFix.refl s⟩
  | cons p rest ih =>
    intro s h hp
    obtain ⟨a, b⟩ := applyPrim_ok he h (hp p (List.mem_cons_self ..))
    obtain ⟨c, d⟩ := ih (applyPrim env s p) a (fun q hq => hp q (List.mem_cons_of_mem _ hq))
    exact ⟨c, KFix.trans b d⟩

theorem effOfSt_ok {s : St} (h : StOk s) : EffOk (effOfSt s) := by
  refine ⟨?_, ?_, ?_, ?_, ?_⟩ <;> intro v hv <;> simp only [effOfSt, Option.some.injEq] at hv <;> subst hv
  · exact h.jump
  · exact h.jumpline
  · exact h.speed
  · exact h.bpm
  · exact h.st26

theorem noEff_ok : EffOk noEff := by
  refine ⟨?_, ?_, ?_, ?_, ?_⟩ <;> intro v hv <;> simp [noEff] at hv

/-- overwriting every effect-owned variable of `s` with its value in `s'` gives `s'` when the
kernel-owned ones agree -/
theorem applyEff_effOfSt {s s' : St} (k : KFix s s') : applyEff s (effOfSt s') = s' := by
  obtain ⟨k1, k2, k3, k4, k5, k6, k7, k8, k9⟩ := k
  cases s; cases s'
  simp only [applyEff, effOfSt, Option.getD_some] at *
  subst k1 k2 k3 k4 k5 k6 k7 k8 k9
  rfl

/-- **the effect stages as sequences of modelled writes are instances of the abstract stages**:
a frame whose effect stages perform the writes `psA` / `psB` is a frame of `Seq.playFrame` for
effect outcomes that satisfy `Seq.EffOk`. -/
theorem playFrameFx_eq {m : SeqMod} (w : WFacts m) {env : Env} (he : EnvOk env) {s : St} (hc : Core m s) {psA psB : List Prim}
    (hA : PrimsOk env psA) (hB : PrimsOk env psB) :
    ∃ eA eB, EffOk eA ∧ EffOk eB ∧ playFrameFx m env s psA psB = playFrame m s eA eB := by
  unfold playFrameFx playFrame
  cases hk : kernelStep m s with
  | fin => exact ⟨noEff, noEff, noEff_ok, noEff_ok, rfl⟩
  | diverge => exact ⟨noEff, noEff, noEff_ok, noEff_ok, rfl⟩
  | ok s1 =>
    obtain ⟨p1, _, _⟩ := kernelStep_spec w hc hk
    obtain ⟨a1, a2⟩ := runPrims_ok he psA s1 (StOk.of_playing p1) hA
    by_cases hf : s1.frame = 0
    · -- first tick of a row: stage A runs, then the ST2.6 step
      have pA : Playing m (applyEff s1 (effOfSt (runPrims env s1 psA))) := (applyEff_spec p1 (effOfSt_ok a1)).1
      rw [applyEff_effOfSt a2] at pA
      obtain ⟨p2, _⟩ := st26Step_spec pA
      obtain ⟨b1, b2⟩ := runPrims_ok he psB _ (StOk.of_playing p2) hB
      refine ⟨effOfSt (runPrims env s1 psA), effOfSt (runPrims env (st26Step (runPrims env s1 psA)) psB),
        effOfSt_ok a1, effOfSt_ok b1, ?_⟩
      simp only [hf, if_true]
      rw [applyEff_effOfSt a2, applyEff_effOfSt b2]
    · obtain ⟨b1, b2⟩ := runPrims_ok he psB s1 (StOk.of_playing p1) hB
      refine ⟨noEff, effOfSt (runPrims env s1 psB), noEff_ok, effOfSt_ok b1, ?_⟩
      simp only [hf, if_false]
      rw [applyEff_effOfSt b2]

end Xmp.Fx
