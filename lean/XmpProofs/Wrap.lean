import XmpModel.Wrap
/-! Helper lemmas for C15 (`XmpProps/C15.lean`): pointwise characterisation of the memory
primitives of `XmpModel.Wrap`, the restore lemma for two backed-up blocks, the frame of the
patch loops and the invariant of the softmixer control skeleton. Core Lean only. -/
set_option linter.unusedSectionVars false
namespace Xmp.Wrap
variable {α : Type} [Inhabited α]

theorem length_setI (m : List α) (i : Int) (v : α) : (setI m i v).length = m.length := by
  unfold setI; split <;> simp

theorem getI_setI_ne (m : List α) (i k : Int) (v : α) (h : k ≠ i) : getI (setI m i v) k = getI m k := by
  unfold getI setI
  by_cases hk : 0 ≤ k
  · by_cases hi : 0 ≤ i
    · have : i.toNat ≠ k.toNat := by omega
      simp [hk, hi, List.getD_eq_getElem?_getD, List.getElem?_set_ne this]
    · simp [hk, hi]
  · simp [hk]

theorem getI_setI_eq (m : List α) (i : Int) (v : α) (h0 : 0 ≤ i) (h1 : i < m.length) :
    getI (setI m i v) i = v := by
  unfold getI setI
  have : i.toNat < m.length := by omega
  simp [h0, List.getD_eq_getElem?_getD, this]

theorem ext_getI {a b : List α} (hl : a.length = b.length)
    (h : ∀ k : Nat, k < a.length → getI a (k : Int) = getI b (k : Int)) : a = b := by
  apply List.ext_getElem hl
  intro i h1 h2
  have := h i h1
  simp [getI, List.getD_eq_getElem?_getD, h1, h2] at this
  exact this

theorem length_copyIn (vals : List α) (m : List α) (off : Int) : (copyIn m off vals).length = m.length := by
  induction vals generalizing m off with
  | nil => rfl
  | cons v vs ih => simp [copyIn, ih, length_setI]

theorem getI_copyIn (vals : List α) (m : List α) (off k : Int) (hk0 : 0 ≤ k) (hk1 : k < m.length) :
    getI (copyIn m off vals) k =
      if off ≤ k ∧ k < off + vals.length then vals.getD (k - off).toNat default else getI m k := by
  induction vals generalizing m off with
  | nil =>
    have : ¬ (off ≤ k ∧ k < off + (([] : List α).length : Int)) := by simp only [List.length_nil]; omega
    rw [if_neg this]; rfl
  | cons v vs ih =>
    simp only [copyIn]
    rw [ih (setI m off v) (off + 1) (by rw [length_setI]; exact hk1)]
    by_cases hko : k = off
    · subst hko
      have h1 : ¬ (k + 1 ≤ k ∧ k < k + 1 + (vs.length : Int)) := by omega
      have h2 : (k ≤ k ∧ k < k + ((v :: vs).length : Int)) := by simp; omega
      rw [if_neg h1, if_pos h2, getI_setI_eq m k v hk0 hk1]
      simp
    · rw [getI_setI_ne m off k v hko]
      by_cases hc : off + 1 ≤ k ∧ k < off + 1 + (vs.length : Int)
      · have h2 : (off ≤ k ∧ k < off + ((v :: vs).length : Int)) := by simp; omega
        rw [if_pos hc, if_pos h2]
        have : (k - off).toNat = (k - (off + 1)).toNat + 1 := by omega
        rw [this]; simp
      · have h2 : ¬ (off ≤ k ∧ k < off + ((v :: vs).length : Int)) := by simp; omega
        rw [if_neg hc, if_neg h2]

theorem length_copyOut (m : List α) (off : Int) (n : Nat) : (copyOut m off n).length = n := by
  simp [copyOut]

theorem getD_copyOut (m : List α) (off : Int) (n j : Nat) (h : j < n) :
    (copyOut m off n).getD j default = getI m (off + (j : Int)) := by
  simp [copyOut, List.getD_eq_getElem?_getD, h]

theorem length_patchLoop (idx : Nat → Int) (val : List α → Nat → α) (is : List Nat) (m : List α) :
    (patchLoop idx val is m).length = m.length := by
  induction is generalizing m with
  | nil => rfl
  | cons i is ih => simp [patchLoop, ih, length_setI]

theorem getI_patchLoop_frame (idx : Nat → Int) (val : List α → Nat → α) (is : List Nat) (m : List α) (k : Int)
    (h : ∀ i ∈ is, idx i ≠ k) : getI (patchLoop idx val is m) k = getI m k := by
  induction is generalizing m with
  | nil => rfl
  | cons i is ih =>
    simp only [patchLoop]
    rw [ih _ (fun j hj => h j (List.mem_cons_of_mem _ hj))]
    exact getI_setI_ne m (idx i) k _ (fun e => h i (List.mem_cons_self) e.symm)

/-- Writing the backups of two blocks of `m` back into any memory that agrees with `m`
outside the two blocks gives `m` again (the blocks may overlap). -/
theorem restore_blocks (m m' : List α) (hl : m'.length = m.length) (s e : Int) (p q : Nat)
    (hframe : ∀ k : Int, ¬ (s ≤ k ∧ k < s + p) → ¬ (e ≤ k ∧ k < e + q) → getI m' k = getI m k) :
    copyIn (copyIn m' s (copyOut m s p)) e (copyOut m e q) = m := by
  apply ext_getI
  · rw [length_copyIn, length_copyIn, hl]
  · intro k hk
    rw [length_copyIn, length_copyIn] at hk
    rw [getI_copyIn _ _ _ _ (by omega) (by rw [length_copyIn]; omega)]
    rw [length_copyOut]
    by_cases h2 : e ≤ (k : Int) ∧ (k : Int) < e + q
    · rw [if_pos h2, getD_copyOut m e q _ (by omega)]
      congr 1; omega
    · rw [if_neg h2, getI_copyIn _ _ _ _ (by omega) (by omega), length_copyOut]
      by_cases h1 : s ≤ (k : Int) ∧ (k : Int) < s + p
      · rw [if_pos h1, getD_copyOut m s p _ (by omega)]
        congr 1; omega
      · rw [if_neg h1]
        exact hframe k h1 h2

theorem length_patchPrologue (bidir : Bool) (s e : Int) (n : Nat) (m : List α) :
    (patchPrologue bidir s e n m).length = m.length := length_patchLoop _ _ _ _

theorem length_patchEpilogue (bidir : Bool) (s e : Int) (n : Nat) (m : List α) :
    (patchEpilogue bidir s e n m).length = m.length := length_patchLoop _ _ _ _

theorem frame_patchPrologue (bidir : Bool) (s e : Int) (n : Nat) (m : List α) (k : Int)
    (h : ¬ (s - n ≤ k ∧ k < s)) : getI (patchPrologue bidir s e n m) k = getI m k := by
  apply getI_patchLoop_frame
  intro i hi
  have := List.mem_range.mp hi
  omega

theorem frame_patchEpilogue (bidir : Bool) (s e : Int) (n : Nat) (m : List α) (k : Int)
    (h : ¬ (e ≤ k ∧ k < e + n)) : getI (patchEpilogue bidir s e n m) k = getI m k := by
  apply getI_patchLoop_frame
  intro i hi
  have := List.mem_range.mp hi
  omega

/-- The inactive result of `init_sample_wraparound`. -/
theorem initWrap_inactive (c : Consts) (nearest : Bool) (base : Nat) (vi : Voice) (xxs : SampleHdr) (m : List α)
    (h : (vi.sptrNull || nearest || !xxs.loop) = true) :
    initWrap c nearest base vi xxs m = ({ active := false }, m) := by
  simp only [initWrap, h, if_true]

theorem resetWrap_inactive (base : Nat) (ld : LoopData α) (m : List α) (h : ld.active = false) :
    resetWrap base ld m = m := by
  simp [resetWrap, h]

/-- `reset_sample_wraparound` undoes `init_sample_wraparound` (one sample allocation). -/
theorem resetWrap_initWrap (c : Consts) (nearest : Bool) (base : Nat) (vi : Voice) (xxs : SampleHdr) (m : List α) :
    resetWrap base (initWrap c nearest base vi xxs m).1 (initWrap c nearest base vi xxs m).2 = m := by
  by_cases h : (vi.sptrNull || nearest || !xxs.loop) = true
  · rw [initWrap_inactive c nearest base vi xxs m h]
    exact resetWrap_inactive _ _ _ rfl
  · simp only [initWrap, h, resetWrap]
    simp only [Bool.false_eq_true, if_false, Bool.not_true]
    generalize hsh : (if xxs.stereo then (2 : Nat) else 1) = sh
    generalize hs : ((base : Int) + vi.start * (sh : Int)) = s
    generalize he : ((base : Int) + vi.end * (sh : Int)) = e
    apply restore_blocks
    · rw [length_patchEpilogue]; split
      · rfl
      · rw [length_patchPrologue]
    · intro k h1 h2
      rw [frame_patchEpilogue _ _ _ _ _ _ h2]
      split
      · rfl
      · exact frame_patchPrologue _ _ _ _ _ _ (by omega)

theorem initWrap_length (c : Consts) (nearest : Bool) (base : Nat) (vi : Voice) (xxs : SampleHdr) (m : List α) :
    (initWrap c nearest base vi xxs m).2.length = m.length := by
  by_cases h : (vi.sptrNull || nearest || !xxs.loop) = true
  · rw [initWrap_inactive c nearest base vi xxs m h]
  · simp only [initWrap, h]
    simp only [Bool.false_eq_true, if_false]
    rw [length_patchEpilogue]; split
    · rfl
    · rw [length_patchPrologue]

/-- Outside the prologue and epilogue blocks recorded in `loop_data` the memory is untouched. -/
theorem initWrap_frame (c : Consts) (nearest : Bool) (base : Nat) (vi : Voice) (xxs : SampleHdr) (m : List α) (k : Int)
    (h : ¬ inRegion base (initWrap c nearest base vi xxs m).1 k) :
    getI (initWrap c nearest base vi xxs m).2 k = getI m k := by
  by_cases h0 : (vi.sptrNull || nearest || !xxs.loop) = true
  · rw [initWrap_inactive c nearest base vi xxs m h0]
  · simp only [initWrap, h0, inRegion] at h ⊢
    simp only [Bool.false_eq_true, if_false, true_and] at h ⊢
    rw [frame_patchEpilogue _ _ _ _ _ _ (by omega)]
    split
    · rfl
    · exact frame_patchPrologue _ _ _ _ _ _ (by omega)

theorem initWrap_smp (c : Consts) (nearest : Bool) (base : Nat) (vi : Voice) (xxs : SampleHdr) (m : List α)
    (h : (initWrap c nearest base vi xxs m).1.active = true) : (initWrap c nearest base vi xxs m).1.smp = vi.smp := by
  by_cases h0 : (vi.sptrNull || nearest || !xxs.loop) = true
  · rw [initWrap_inactive c nearest base vi xxs m h0] at h; simp at h
  · simp only [initWrap, h0]; simp

theorem initWrap_inactive_mem (c : Consts) (nearest : Bool) (base : Nat) (vi : Voice) (xxs : SampleHdr) (m : List α)
    (h : (initWrap c nearest base vi xxs m).1.active = false) : (initWrap c nearest base vi xxs m).2 = m := by
  by_cases h0 : (vi.sptrNull || nearest || !xxs.loop) = true
  · rw [initWrap_inactive c nearest base vi xxs m h0]
  · simp only [initWrap, h0] at h; simp at h

/-! ### sample table -/

theorem set_self_of_getElem? (mem : Mem α) (i : Nat) (s : Sample α) (h : mem[i]? = some s) : mem.set i s = mem := by
  obtain ⟨hi, hs⟩ := List.getElem?_eq_some_iff.mp h
  subst hs
  exact List.set_getElem_self hi

theorem resetWrapM_inactive (ld : LoopData α) (mem : Mem α) (h : ld.active = false) : resetWrapM ld mem = mem := by
  unfold resetWrapM Mem.modify
  split
  · rename_i s hs
    simp only [resetWrap_inactive _ _ _ h]
    exact set_self_of_getElem? mem _ s hs
  · rfl

/-- `reset_sample_wraparound` undoes `init_sample_wraparound` on the whole sample table. -/
theorem resetWrapM_initWrapM (c : Consts) (nearest : Bool) (vi : Voice) (xxs : SampleHdr) (mem : Mem α) :
    resetWrapM (initWrapM c nearest vi xxs mem).1 (initWrapM c nearest vi xxs mem).2 = mem := by
  unfold initWrapM
  split
  · rename_i s hs
    simp only
    by_cases ha : (initWrap c nearest s.base vi xxs s.data).1.active = true
    · have hsmp := initWrap_smp c nearest s.base vi xxs s.data ha
      have hi : vi.smp < mem.length := (List.getElem?_eq_some_iff.mp hs).1
      unfold resetWrapM Mem.modify
      rw [hsmp, List.getElem?_set_self hi]
      simp only [List.set_set, resetWrap_initWrap]
      exact set_self_of_getElem? mem _ s hs
    · have ha' : (initWrap c nearest s.base vi xxs s.data).1.active = false := by simpa using ha
      rw [resetWrapM_inactive _ _ ha', initWrap_inactive_mem _ _ _ _ _ _ ha']
      exact set_self_of_getElem? mem _ s hs
  · exact resetWrapM_inactive _ _ rfl

/-! ### control skeleton -/

/-- Invariant of a voice iteration between `init` and the final `reset`: loop data and sample table are
exactly what `init_sample_wraparound` makes of the *original* table for the voice's current parameters
(“active ∧ d = patch d₀ ∧ backup = d₀|regions”, or inactive ∧ d = d₀), and so was every table a kernel saw. -/
def SkelInv (c : Consts) (nearest : Bool) (mem0 : Mem α) (st : VState α) : Prop :=
  st.ld = (initWrapM c nearest st.vi st.xxs mem0).1 ∧ st.mem = (initWrapM c nearest st.vi st.xxs mem0).2 ∧
  ∀ e ∈ st.seen, e.2.2 = (initWrapM c nearest e.1 e.2.1 mem0).2

theorem SkelInv.reset {c : Consts} {nearest : Bool} {mem0 : Mem α} {st : VState α} (h : SkelInv c nearest mem0 st) :
    resetWrapM st.ld st.mem = mem0 := by
  rw [h.1, h.2.1]; exact resetWrapM_initWrapM _ _ _ _ _

theorem runInner_inv (c : Consts) (nearest : Bool) (mem0 : Mem α) (steps : List Step) (st : VState α)
    (h : SkelInv c nearest mem0 st) : SkelInv c nearest mem0 (runInner c nearest steps st) := by
  induction steps generalizing st with
  | nil => exact h
  | cons stp rest ih =>
    cases stp with
    | usmpBreak => exact h
    | oneShotEnd => exact h
    | swapStop => exact h
    | reposition => exact ih st h
    | mix =>
      apply ih
      refine ⟨h.1, h.2.1, ?_⟩
      intro e he
      rcases List.mem_append.mp he with he | he
      · exact h.2.2 e he
      · simp only [List.mem_singleton] at he; subst he; exact h.2.1
    | hotswap vi' xxs' =>
      apply ih
      simp only [h.reset]
      exact ⟨rfl, rfl, h.2.2⟩
    | loopChange vi' =>
      apply ih
      simp only [h.reset]
      exact ⟨rfl, rfl, h.2.2⟩
/-! ### invert-loop -/

theorem invloopCore_spec (table : List Nat) (resetPos : Bool) (st : InvState) (lps len : Int) (canStore : Bool)
    (hpos : 0 ≤ st.pos) :
    0 ≤ (invloopCore table resetPos st lps len canStore).1.pos ∧
    ∀ i, (invloopCore table resetPos st lps len canStore).2 = some i → 0 ≤ len ∧ (1 ≤ len → lps ≤ i ∧ i < lps + len) := by
  unfold invloopCore
  generalize hc : st.count + ((table.getD st.speed 0 : Nat) : Int) = count
  generalize hp0 : (if resetPos then (0 : Int) else st.pos) = pos0
  have hp0' : 0 ≤ pos0 := by subst hp0; split <;> omega
  simp only
  split
  · split
    · exact ⟨hp0', by simp⟩
    · rename_i hlen
      refine ⟨by simp only; split <;> omega, ?_⟩
      intro i hi
      cases canStore
      · simp at hi
      · simp only [if_true, Option.some.injEq] at hi
        refine ⟨by omega, ?_⟩
        intro h1; subst hi
        split <;> omega
  · exact ⟨hp0', by simp⟩

/-- the counter stays in `[0, 128)` when no table entry exceeds 128 -/
theorem invloopCore_count (table : List Nat) (resetPos : Bool) (st : InvState) (lps len : Int) (canStore : Bool)
    (ht : table.getD st.speed 0 ≤ 128) (h0 : 0 ≤ st.count) (h1 : st.count < 128) :
    0 ≤ (invloopCore table resetPos st lps len canStore).1.count ∧
    (invloopCore table resetPos st lps len canStore).1.count < 128 := by
  unfold invloopCore
  simp only
  split
  · split <;> simp
  · simp only; omega

/-! ### channel / voice agreement -/

theorem cvStep_coherent (s : ChanVoice) (t : CVStep) (h : s.coherent = true) : (cvStep s t).coherent = true := by
  obtain ⟨cs, mp, vs, q, qs, pa⟩ := s
  cases t <;> cases mp <;> cases q <;> cases pa <;>
    simp [cvStep, ChanVoice.coherent] at h ⊢ <;> (try omega) <;> (try (split <;> simp_all)) <;> (try omega)

/-! ### C integer fields -/

theorem CInt.wrap_id (t : CInt) (v : Int) (hb : 0 < t.bits) (hnn : 0 ≤ v) (h1 : v ≤ t.max) : t.wrap v = v := by
  unfold CInt.wrap CInt.max at *
  have hp : (0 : Int) < 2 ^ t.bits := Int.pow_pos (by decide)
  have h2 : (2 : Int) ^ t.bits = 2 * 2 ^ (t.bits - 1) := by
    have : t.bits = (t.bits - 1) + 1 := by omega
    conv => lhs; rw [this, Int.pow_succ]
    omega
  cases hs : t.signed <;> simp only [hs, if_true, if_false, Bool.false_and, Bool.true_and, Bool.false_eq_true] at *
  · rw [Int.emod_eq_of_lt hnn (by omega)]
  · have hlt : v < 2 ^ t.bits := by omega
    rw [Int.emod_eq_of_lt hnn hlt]
    simp only [decide_eq_true_eq]
    split
    · omega
    · rfl

theorem invloopCoreW_eq (w : InvWidths) (table : List Nat) (resetPos : Bool) (st : InvState) (lps len : Int) (canStore : Bool)
    (hcb : 0 < w.count.bits) (hpb : 0 < w.pos.bits)
    (hc0 : 0 ≤ st.count) (hc1 : st.count + (table.getD st.speed 0 : Nat) ≤ w.count.max)
    (hp0 : 0 ≤ st.pos) (hp1 : st.pos + 1 ≤ w.pos.max) :
    invloopCoreW w table resetPos st lps len canStore = invloopCore table resetPos st lps len canStore := by
  unfold invloopCoreW invloopCore
  rw [CInt.wrap_id w.count _ hcb (by omega) hc1]
  have : w.pos.wrap ((if resetPos then 0 else st.pos) + 1) = (if resetPos then 0 else st.pos) + 1 := by
    apply CInt.wrap_id _ _ hpb <;> split <;> omega
  simp only [this]

theorem invloopCore_pos_lt (table : List Nat) (resetPos : Bool) (st : InvState) (lps len : Int) (canStore : Bool) (B : Int)
    (hB : 0 < B) (hp : st.pos < B) (hlen : len ≤ B) :
    (invloopCore table resetPos st lps len canStore).1.pos < B := by
  unfold invloopCore
  simp only
  split
  · split
    · simp only; split <;> omega
    · simp only; split <;> split <;> omega
  · simp only; split <;> omega

end Xmp.Wrap
