import XmpModel.Virt
/-!
# C16 (voice part): the bookkeeping invariant of virtual.c

`VInv` is established by `virtOn` and preserved by every table-changing operation of the
model `XmpModel/Virt.lean`; it implies `0 ≤ virtUsed ≤ maxvoc ≤ virtChannels`.

Main results: `VInv.bounds`, `virtOn_inv`, `virtReset_inv`, `resetVoice_inv`, `resetChannel_inv`,
`setVol_inv`, `allocVoice_inv` (`allocVoice_good` for the general case with the weaker `VInvX`),
`setPatch_inv` (precondition `SetPatchOk`; the free background slot for the NNA relocation is obtained
by pigeonhole, `exists_free_background`), `pastNoteCut_inv`, `OpOk`, `step_inv`, `RunOk`, `run_inv`,
`run_consts`, `run_bounds`, the decidable checker `vinvB` with `vinvB_sound` / `vinvB_iff`,
and concrete witnesses (`demoOps`).
-/
namespace Xmp.Virt
open Xmp.Gen.PlayerConsts
set_option linter.unusedSimpArgs false
set_option linter.unusedVariables false

/-! ## primitive lemmas about the accessors -/

@[simp] theorem setVoice_numTracks (s : VState) (i v) : (s.setVoice i v).numTracks = s.numTracks := by
  unfold VState.setVoice; split <;> rfl
@[simp] theorem setVoice_virtChannels (s : VState) (i v) : (s.setVoice i v).virtChannels = s.virtChannels := by
  unfold VState.setVoice; split <;> rfl
@[simp] theorem setVoice_maxvoc (s : VState) (i v) : (s.setVoice i v).maxvoc = s.maxvoc := by
  unfold VState.setVoice; split <;> rfl
@[simp] theorem setVoice_virtUsed (s : VState) (i v) : (s.setVoice i v).virtUsed = s.virtUsed := by
  unfold VState.setVoice; split <;> rfl
@[simp] theorem setVoice_chans (s : VState) (i v) : (s.setVoice i v).chans = s.chans := by
  unfold VState.setVoice; split <;> rfl
@[simp] theorem setVoice_voices_length (s : VState) (i v) : (s.setVoice i v).voices.length = s.voices.length := by
  unfold VState.setVoice; split <;> simp

@[simp] theorem setChan_numTracks (s : VState) (i v) : (s.setChan i v).numTracks = s.numTracks := by
  unfold VState.setChan; split <;> rfl
@[simp] theorem setChan_virtChannels (s : VState) (i v) : (s.setChan i v).virtChannels = s.virtChannels := by
  unfold VState.setChan; split <;> rfl
@[simp] theorem setChan_maxvoc (s : VState) (i v) : (s.setChan i v).maxvoc = s.maxvoc := by
  unfold VState.setChan; split <;> rfl
@[simp] theorem setChan_virtUsed (s : VState) (i v) : (s.setChan i v).virtUsed = s.virtUsed := by
  unfold VState.setChan; split <;> rfl
@[simp] theorem setChan_voices (s : VState) (i v) : (s.setChan i v).voices = s.voices := by
  unfold VState.setChan; split <;> rfl
@[simp] theorem setChan_chans_length (s : VState) (i v) : (s.setChan i v).chans.length = s.chans.length := by
  unfold VState.setChan; split <;> simp

@[simp] theorem chan_setVoice (s : VState) (i v c) : (s.setVoice i v).chan c = s.chan c := by
  simp [VState.chan]
@[simp] theorem voice_setChan (s : VState) (c x i) : (s.setChan c x).voice i = s.voice i := by
  simp [VState.voice]

theorem voice_setVoice (s : VState) (i v j) :
    (s.setVoice i v).voice j = if j = i ∧ 0 ≤ i ∧ i < s.voices.length then v else s.voice j := by
  unfold VState.setVoice VState.voice
  by_cases hi : i < 0
  · simp [hi]; intro h1 h2; omega
  · by_cases hj : j < 0
    · simp [hj]; intro h; omega
    · simp only [hi, hj, if_false, List.getD_eq_getElem?_getD, List.getElem?_set]
      by_cases e : j = i
      · subst e
        by_cases hl : j.toNat < s.voices.length
        · have : j < s.voices.length := by omega
          simp [hl, this]; omega
        · have : ¬ j < s.voices.length := by omega
          simp [hl, this]
      · have : ¬ i.toNat = j.toNat := by omega
        simp [e, this]

theorem chan_setChan (s : VState) (i v j) :
    (s.setChan i v).chan j = if j = i ∧ 0 ≤ i ∧ i < s.chans.length then v else s.chan j := by
  unfold VState.setChan VState.chan
  by_cases hi : i < 0
  · simp [hi]; intro h1 h2; omega
  · by_cases hj : j < 0
    · simp [hj]; intro h; omega
    · simp only [hi, hj, if_false, List.getD_eq_getElem?_getD, List.getElem?_set]
      by_cases e : j = i
      · subst e
        by_cases hl : j.toNat < s.chans.length
        · have : j < s.chans.length := by omega
          simp [hl, this]; omega
        · have : ¬ j < s.chans.length := by omega
          simp [hl, this]
      · have : ¬ i.toNat = j.toNat := by omega
        simp [e, this]

@[simp] theorem voice_withUsed (s : VState) (x i) : ({ s with virtUsed := x } : VState).voice i = s.voice i := rfl
@[simp] theorem chan_withUsed (s : VState) (x i) : ({ s with virtUsed := x } : VState).chan i = s.chan i := rfl

theorem voice_eq_getElem (s : VState) (i : Int) (h0 : 0 ≤ i) (h : i.toNat < s.voices.length) :
    s.voice i = s.voices[i.toNat] := by
  unfold VState.voice
  have : ¬ i < 0 := by omega
  simp [this, List.getD_eq_getElem?_getD, h]

/-! ## counting -/

theorem countP_set_int {α} (p : α → Bool) (l : List α) (i : Nat) (a : α) (h : i < l.length) :
    ((l.set i a).countP p : Int) = l.countP p - (if p l[i] then 1 else 0) + (if p a then 1 else 0) := by
  rw [List.countP_set h]
  have hpos : p l[i] = true → 0 < l.countP p := fun hp =>
    List.countP_pos_iff.2 ⟨l[i], List.getElem_mem h, hp⟩
  by_cases hp : p l[i] = true
  · have := hpos hp
    simp only [hp, if_true]
    split <;> omega
  · have hp' : p l[i] = false := by simpa using hp
    simp only [hp', Bool.false_eq_true, if_false]
    split <;> simp

theorem usedCount_setVoice (s : VState) (i : Int) (v : Voice) (h0 : 0 ≤ i) (h : i < s.voices.length) :
    (usedCount (s.setVoice i v) : Int) =
      usedCount s - (if (s.voice i).chn ≠ -1 then 1 else 0) + (if v.chn ≠ -1 then 1 else 0) := by
  have hn : i.toNat < s.voices.length := by omega
  have hi : ¬ i < 0 := by omega
  rw [voice_eq_getElem s i h0 hn]
  unfold usedCount VState.setVoice
  simp only [hi, if_false]
  rw [countP_set_int _ _ _ _ hn]
  simp

theorem rootCount_setVoice (s : VState) (i : Int) (v : Voice) (c : Int) (h0 : 0 ≤ i) (h : i < s.voices.length) :
    (rootCount (s.setVoice i v) c : Int) =
      rootCount s c - (if (s.voice i).root = c then 1 else 0) + (if v.root = c then 1 else 0) := by
  have hn : i.toNat < s.voices.length := by omega
  have hi : ¬ i < 0 := by omega
  rw [voice_eq_getElem s i h0 hn]
  unfold rootCount VState.setVoice
  simp only [hi, if_false]
  rw [countP_set_int _ _ _ _ hn]
  simp

theorem usedCount_setVoice' (s : VState) (i : Int) (v : Voice) :
    (usedCount (s.setVoice i v) : Int) = if 0 ≤ i ∧ i < s.voices.length then
      (usedCount s : Int) - (if (s.voice i).chn ≠ -1 then 1 else 0) + (if v.chn ≠ -1 then 1 else 0)
      else (usedCount s : Int) := by
  split
  · rename_i h; exact usedCount_setVoice s i v h.1 h.2
  · rename_i h
    unfold VState.setVoice
    split
    · rfl
    · have : s.voices.length ≤ i.toNat := by omega
      simp [usedCount, List.set_eq_of_length_le this]

theorem rootCount_setVoice' (s : VState) (i : Int) (v : Voice) (c : Int) :
    (rootCount (s.setVoice i v) c : Int) = if 0 ≤ i ∧ i < s.voices.length then
      (rootCount s c : Int) - (if (s.voice i).root = c then 1 else 0) + (if v.root = c then 1 else 0)
      else (rootCount s c : Int) := by
  split
  · rename_i h; exact rootCount_setVoice s i v c h.1 h.2
  · rename_i h
    unfold VState.setVoice
    split
    · rfl
    · have : s.voices.length ≤ i.toNat := by omega
      simp [rootCount, List.set_eq_of_length_le this]

@[simp] theorem usedCount_setChan (s : VState) (c x) : usedCount (s.setChan c x) = usedCount s := by
  simp [usedCount]
@[simp] theorem rootCount_setChan (s : VState) (c x d) : rootCount (s.setChan c x) d = rootCount s d := by
  simp [rootCount]
@[simp] theorem usedCount_withUsed (s : VState) (x) : usedCount ({ s with virtUsed := x } : VState) = usedCount s := rfl
@[simp] theorem rootCount_withUsed (s : VState) (x d) : rootCount ({ s with virtUsed := x } : VState) d = rootCount s d := rfl

/-! ## the invariant -/

structure VInv (s : VState) : Prop where
  maxvoc_nonneg : 0 ≤ s.maxvoc
  len_voices : s.voices.length = s.maxvoc.toNat
  len_chans : s.chans.length = s.virtChannels.toNat
  tracks : 0 ≤ s.numTracks ∧ s.numTracks ≤ s.virtChannels
  maxvoc_le : s.maxvoc ≤ s.virtChannels
  voice_ok : ∀ i, 0 ≤ i → i < s.maxvoc →
    ((s.voice i).chn = -1 ∧ (s.voice i).root = -1) ∨
    (0 ≤ (s.voice i).chn ∧ (s.voice i).chn < s.virtChannels ∧
     0 ≤ (s.voice i).root ∧ (s.voice i).root < s.virtChannels ∧ (s.chan (s.voice i).chn).map = i)
  chan_ok : ∀ c, 0 ≤ c → c < s.virtChannels →
    (s.chan c).map = -1 ∨
    (0 ≤ (s.chan c).map ∧ (s.chan c).map < s.maxvoc ∧ (s.voice (s.chan c).map).chn = c)
  used_eq : s.virtUsed = usedCount s
  count_eq : ∀ c, 0 ≤ c → c < s.virtChannels → (s.chan c).count = rootCount s c

theorem resetVoice_inv {s : VState} (h : VInv s) (voc : Int)
    (ok : voc < 0 ∨ voc ≥ s.maxvoc ∨ (s.voice voc).chn ≠ -1) : VInv (resetVoice s voc) := by
  unfold resetVoice
  split
  · exact h
  · rename_i hr
    have hv := h.voice_ok voc (by omega) (by omega)
    have hlv := h.len_voices
    have hlc := h.len_chans
    have hm := h.maxvoc_nonneg
    have ht := h.tracks
    have hin : (s.voice voc).chn ≠ -1 := by omega
    constructor
    · simpa using h.maxvoc_nonneg
    · simpa using h.len_voices
    · simpa using h.len_chans
    · simpa using h.tracks
    · simpa using h.maxvoc_le
    · intro i hi0 hi1
      simp only [setVoice_maxvoc, setChan_maxvoc] at hi1
      have := h.voice_ok i hi0 hi1
      simp [voice_setVoice, chan_setChan, freeVoiceV]
      grind
    · intro c hc0 hc1
      simp only [setVoice_virtChannels, setChan_virtChannels] at hc1
      have := h.chan_ok c hc0 hc1
      simp [voice_setVoice, chan_setChan, freeVoiceV]
      grind
    · have := h.used_eq
      simp [usedCount_setVoice', voice_setVoice, chan_setChan, freeVoiceV]
      grind
    · intro c hc0 hc1
      simp only [setVoice_virtChannels, setChan_virtChannels] at hc1
      have := h.count_eq c hc0 hc1
      simp [rootCount_setVoice', voice_setVoice, chan_setChan, freeVoiceV]
      grind


macro "vnorm" : tactic =>
  `(tactic| ((try simp only [voice_withUsed, chan_withUsed, usedCount_withUsed, rootCount_withUsed]);
             simp [usedCount_setVoice', rootCount_setVoice', voice_setVoice, chan_setChan, freeVoiceV]))

/-- overwriting a voice without changing `chn`/`root` -/
theorem setVoice_same_inv {s : VState} (h : VInv s) (i : Int) (v : Voice)
    (hc : v.chn = (s.voice i).chn) (hr : v.root = (s.voice i).root) : VInv (s.setVoice i v) := by
  have hlv := h.len_voices
  have hlc := h.len_chans
  have hm := h.maxvoc_nonneg
  constructor
  · simpa using h.maxvoc_nonneg
  · simpa using h.len_voices
  · simpa using h.len_chans
  · simpa using h.tracks
  · simpa using h.maxvoc_le
  · intro j hj0 hj1
    simp only [setVoice_maxvoc] at hj1
    have := h.voice_ok j hj0 hj1
    vnorm
    grind
  · intro c hc0 hc1
    simp only [setVoice_virtChannels] at hc1
    have := h.chan_ok c hc0 hc1
    vnorm
    grind
  · have := h.used_eq
    vnorm
    grind
  · intro c hc0 hc1
    simp only [setVoice_virtChannels] at hc1
    have := h.count_eq c hc0 hc1
    vnorm
    grind

theorem VInv.bounds {s : VState} (h : VInv s) :
    0 ≤ s.virtUsed ∧ s.virtUsed ≤ s.maxvoc ∧ s.maxvoc ≤ s.virtChannels := by
  have h1 := h.used_eq
  have h2 : usedCount s ≤ s.voices.length := List.countP_le_length
  have h3 := h.len_voices
  have h4 := h.maxvoc_nonneg
  have h5 := h.maxvoc_le
  omega

theorem voice_replicate (s : VState) (n : Nat) (h : s.voices = List.replicate n freeVoiceV) (i : Int) :
    s.voice i = freeVoiceV := by
  unfold VState.voice
  split
  · rfl
  · simp [h, List.getD_eq_getElem?_getD, List.getElem?_replicate]
    split <;> rfl

theorem chan_replicate (s : VState) (n : Nat) (h : s.chans = List.replicate n freeChan) (i : Int) :
    s.chan i = freeChan := by
  unfold VState.chan
  split
  · rfl
  · simp [h, List.getD_eq_getElem?_getD, List.getElem?_replicate]
    split <;> rfl

/-- a state with all-free tables satisfies the invariant -/
theorem fresh_inv (s : VState) (h0 : 0 ≤ s.maxvoc) (ht : 0 ≤ s.numTracks ∧ s.numTracks ≤ s.virtChannels)
    (hm : s.maxvoc ≤ s.virtChannels) (hu : s.virtUsed = 0)
    (hv : s.voices = List.replicate s.maxvoc.toNat freeVoiceV)
    (hc : s.chans = List.replicate s.virtChannels.toNat freeChan) : VInv s := by
  constructor
  · exact h0
  · simp [hv]
  · simp [hc]
  · exact ht
  · exact hm
  · intro i _ _
    left
    rw [voice_replicate s _ hv]; simp [freeVoiceV]
  · intro c _ _
    left
    rw [chan_replicate s _ hc]; simp [freeChan]
  · simp [hu, usedCount, hv, List.countP_replicate, freeVoiceV]
  · intro c _ _
    rw [chan_replicate s _ hc]
    simp [rootCount, hv, List.countP_replicate, freeVoiceV, freeChan]
    split <;> omega

theorem virtOn_inv (numTracks numvoc : Int) (q : Bool) (h1 : 0 ≤ numTracks) (h2 : 0 ≤ numvoc) :
    VInv (virtOn numTracks numvoc q) := by
  apply fresh_inv <;> simp only [virtOn, numvoices] <;> (try rfl) <;> cases q <;> simp <;> (repeat' split) <;> omega

theorem virtReset_inv {s : VState} (h : VInv s) : VInv (virtReset s) := by
  unfold virtReset
  split
  · exact h
  · apply fresh_inv
    · exact h.maxvoc_nonneg
    · exact h.tracks
    · exact h.maxvoc_le
    · rfl
    · rfl
    · rfl


theorem mapVirt_spec {s : VState} (h : VInv s) (chn : Int) :
    mapVirtChannel s chn < 0 ∨
    (0 ≤ mapVirtChannel s chn ∧ mapVirtChannel s chn < s.maxvoc ∧ 0 ≤ chn ∧ chn < s.virtChannels ∧
      (s.chan chn).map = mapVirtChannel s chn ∧ (s.voice (mapVirtChannel s chn)).chn = chn) := by
  unfold mapVirtChannel
  split
  · left; omega
  · rename_i hc
    simp only []
    split
    · left; omega
    · rename_i hv
      right
      have := h.chan_ok chn (by omega) (by omega)
      grind

theorem resetChannel_eq {s : VState} (h : VInv s) (chn : Int) :
    resetChannel s chn = if mapVirtChannel s chn < 0 then s else resetVoice s (mapVirtChannel s chn) := by
  unfold resetChannel
  simp only []
  rcases mapVirt_spec h chn with hm | ⟨h0, h1, h2, h3, h4, h5⟩
  · simp [hm]
  · have : ¬ mapVirtChannel s chn < 0 := by omega
    simp only [this, if_false]
    unfold resetVoice
    have : ¬ (mapVirtChannel s chn < 0 ∨ mapVirtChannel s chn ≥ s.maxvoc) := by omega
    simp only [this, if_false, h5]

theorem resetChannel_inv {s : VState} (h : VInv s) (chn : Int) : VInv (resetChannel s chn) := by
  rw [resetChannel_eq h]
  split
  · exact h
  · rcases mapVirt_spec h chn with hm | ⟨h0, h1, h2, h3, h4, h5⟩
    · omega
    · apply resetVoice_inv h
      right; right; omega

theorem setVol_inv {s : VState} (h : VInv s) (chn vol : Int) (muted : Bool) : VInv (setVol s chn vol muted) := by
  unfold setVol
  simp only []
  generalize (if muted = true then 0 else vol) = vol'
  split
  · exact h
  · rcases mapVirt_spec h chn with hm | ⟨h0, h1, h2, h3, h4, h5⟩
    · omega
    · have h1' := setVoice_same_inv h (mapVirtChannel s chn)
        { s.voice (mapVirtChannel s chn) with vol := vol' } rfl rfl
      split
      · apply resetVoice_inv h1'
        right; right
        have hl := h.len_voices
        simp only [voice_setVoice]
        grind
      · exact h1'

theorem checkDct_inv {s : VState} (h : VInv s) (i chn ins smp key nna dct dca : Int)
    (hi0 : 0 ≤ i) (hi1 : i < s.maxvoc) (hc : 0 ≤ chn) :
    VInv (checkDct s i chn ins smp key nna dct dca) := by
  unfold checkDct
  simp only []
  have hl := h.len_voices
  have hv := h.voice_ok i hi0 hi1
  split
  · rename_i hroot
    have hin : (s.voice i).chn ≠ -1 := by omega
    split
    · exact resetVoice_inv h i (by right; right; exact hin)
    · split
      · split
        · exact setVoice_same_inv h i _ rfl rfl
        · split
          · split
            · exact setVoice_same_inv h i _ rfl rfl
            · exact setVoice_same_inv h i _ rfl rfl
          · refine resetVoice_inv (s := s.setVoice i { s.voice i with act := nna })
              (setVoice_same_inv h i _ rfl rfl) i ?_
            right; right
            simp only [voice_setVoice]
            grind
      · exact setVoice_same_inv h i _ rfl rfl
  · exact h

theorem checkDct_consts (s : VState) (i chn ins smp key nna dct dca : Int) :
    (checkDct s i chn ins smp key nna dct dca).maxvoc = s.maxvoc ∧
    (checkDct s i chn ins smp key nna dct dca).virtChannels = s.virtChannels ∧
    (checkDct s i chn ins smp key nna dct dca).numTracks = s.numTracks := by
  unfold checkDct resetVoice
  simp only []
  repeat' split
  all_goals simp


/-- same table geometry -/
def SameConsts (s t : VState) : Prop :=
  t.maxvoc = s.maxvoc ∧ t.virtChannels = s.virtChannels ∧ t.numTracks = s.numTracks

theorem resetVoice_consts (s : VState) (voc : Int) : SameConsts s (resetVoice s voc) := by
  unfold resetVoice SameConsts
  split <;> simp

theorem checkDctAll_inv (chn ins smp key nna dct dca : Int) (hc : 0 ≤ chn) (n : Nat) :
    ∀ (s : VState) (i : Int), VInv s → 0 ≤ i → i + n ≤ s.maxvoc →
      VInv (checkDctAll s chn ins smp key nna dct dca n i) ∧
      SameConsts s (checkDctAll s chn ins smp key nna dct dca n i) := by
  induction n with
  | zero => intro s i h _ _; unfold checkDctAll; exact ⟨h, rfl, rfl, rfl⟩
  | succ n ih =>
    intro s i h hi0 hin
    unfold checkDctAll
    have h1 := checkDct_inv h i chn ins smp key nna dct dca hi0 (by omega) hc
    have c1 := checkDct_consts s i chn ins smp key nna dct dca
    have := ih (checkDct s i chn ins smp key nna dct dca) (i + 1) h1 (by omega) (by rw [c1.1]; omega)
    refine ⟨this.1, ?_⟩
    unfold SameConsts at *
    omega

theorem pastNoteCut_inv' (chn : Int) (n : Nat) :
    ∀ (s : VState) (c : Int), VInv s →
      VInv (pastNoteCut s chn n c) ∧ SameConsts s (pastNoteCut s chn n c) := by
  induction n with
  | zero => intro s c h; unfold pastNoteCut; exact ⟨h, rfl, rfl, rfl⟩
  | succ n ih =>
    intro s c h
    unfold pastNoteCut
    simp only []
    split
    · rename_i hv
      rcases mapVirt_spec h c with hm | ⟨h0, h1, h2, h3, h4, h5⟩
      · omega
      · have h1 := resetVoice_inv h (mapVirtChannel s c) (by right; right; omega)
        have c1 := resetVoice_consts s (mapVirtChannel s c)
        have := ih _ (c + 1) h1
        refine ⟨this.1, ?_⟩
        unfold SameConsts at *
        omega
    · exact ih s (c + 1) h

theorem pastNoteCut_inv {s : VState} (h : VInv s) (chn : Int) (n : Nat) (c : Int) :
    VInv (pastNoteCut s chn n c) := (pastNoteCut_inv' chn n s c h).1


/-! ## alloc_voice -/

theorem firstFree_spec (l : List Voice) : ∀ k : Int,
    k ≤ firstFree l k ∧ firstFree l k ≤ k + l.length ∧
    (firstFree l k < k + l.length → (l.getD (firstFree l k - k).toNat freeVoiceV).chn = -1) := by
  induction l with
  | nil => intro k; simp [firstFree]
  | cons v rest ih =>
    intro k
    unfold firstFree
    split
    · rename_i hv
      simp [hv]; omega
    · have := ih (k + 1)
      refine ⟨by omega, by simp only [List.length_cons]; omega, ?_⟩
      intro hlt
      have e : (firstFree rest (k + 1) - k).toNat = (firstFree rest (k + 1) - (k + 1)).toNat + 1 := by omega
      rw [e, List.getD_cons_succ]
      apply this.2.2
      simp only [List.length_cons] at hlt
      omega

theorem quietest_spec (nt : Int) (l : List Voice) : ∀ (i num vol : Int),
    quietest nt l i num vol = num ∨
    (i ≤ quietest nt l i num vol ∧ quietest nt l i num vol < i + l.length ∧
      (l.getD (quietest nt l i num vol - i).toNat freeVoiceV).chn ≥ nt) := by
  induction l with
  | nil => intro i num vol; simp [quietest]
  | cons v rest ih =>
    intro i num vol
    unfold quietest
    have shift : ∀ r : Int, i + 1 ≤ r →
        (v :: rest).getD (r - i).toNat freeVoiceV = rest.getD (r - (i + 1)).toNat freeVoiceV := by
      intro r hr
      have e : (r - i).toNat = (r - (i + 1)).toNat + 1 := by omega
      rw [e, List.getD_cons_succ]
    split
    · rename_i hv
      rcases ih (i + 1) i v.vol with h | ⟨h1, h2, h3⟩
      · right
        rw [h]
        simp
        exact ⟨by omega, hv.1⟩
      · right
        refine ⟨by omega, by simp only [List.length_cons]; omega, ?_⟩
        rw [shift _ h1]; exact h3
    · rcases ih (i + 1) num vol with h | ⟨h1, h2, h3⟩
      · left; exact h
      · right
        refine ⟨by omega, by simp only [List.length_cons]; omega, ?_⟩
        rw [shift _ h1]; exact h3


/-- `VInv` except that voice `ex` (in use) need not be the one its channel maps to:
the state between `alloc_voice` and the NNA relocation in `libxmp_virt_setpatch`. -/
structure VInvX (s : VState) (ex : Int) : Prop where
  maxvoc_nonneg : 0 ≤ s.maxvoc
  len_voices : s.voices.length = s.maxvoc.toNat
  len_chans : s.chans.length = s.virtChannels.toNat
  tracks : 0 ≤ s.numTracks ∧ s.numTracks ≤ s.virtChannels
  maxvoc_le : s.maxvoc ≤ s.virtChannels
  voice_ok : ∀ i, 0 ≤ i → i < s.maxvoc →
    ((s.voice i).chn = -1 ∧ (s.voice i).root = -1) ∨
    (0 ≤ (s.voice i).chn ∧ (s.voice i).chn < s.virtChannels ∧
     0 ≤ (s.voice i).root ∧ (s.voice i).root < s.virtChannels ∧ (i ≠ ex → (s.chan (s.voice i).chn).map = i))
  chan_ok : ∀ c, 0 ≤ c → c < s.virtChannels →
    (s.chan c).map = -1 ∨
    (0 ≤ (s.chan c).map ∧ (s.chan c).map < s.maxvoc ∧ (s.voice (s.chan c).map).chn = c)
  used_eq : s.virtUsed = usedCount s
  count_eq : ∀ c, 0 ≤ c → c < s.virtChannels → (s.chan c).count = rootCount s c

theorem VInvX.toInv {s : VState} {ex : Int} (h : VInvX s ex)
    (hex : ex < 0 ∨ ex ≥ s.maxvoc ∨ (s.voice ex).chn = -1 ∨ (s.chan (s.voice ex).chn).map = ex) : VInv s := by
  refine ⟨h.maxvoc_nonneg, h.len_voices, h.len_chans, h.tracks, h.maxvoc_le, ?_, h.chan_ok, h.used_eq, h.count_eq⟩
  intro i hi0 hi1
  have := h.voice_ok i hi0 hi1
  grind

/-- `{ s with virtUsed := x }` as an opaque step (keeps `simp` from eta-expanding states) -/
def VState.withUsed (s : VState) (x : Int) : VState := { s with virtUsed := x }

@[simp] theorem withUsed_numTracks (s : VState) (x) : (s.withUsed x).numTracks = s.numTracks := rfl
@[simp] theorem withUsed_virtChannels (s : VState) (x) : (s.withUsed x).virtChannels = s.virtChannels := rfl
@[simp] theorem withUsed_maxvoc (s : VState) (x) : (s.withUsed x).maxvoc = s.maxvoc := rfl
@[simp] theorem withUsed_virtUsed (s : VState) (x) : (s.withUsed x).virtUsed = x := rfl
@[simp] theorem withUsed_voices (s : VState) (x) : (s.withUsed x).voices = s.voices := rfl
@[simp] theorem withUsed_chans (s : VState) (x) : (s.withUsed x).chans = s.chans := rfl
@[simp] theorem withUsed_voice (s : VState) (x i) : (s.withUsed x).voice i = s.voice i := rfl
@[simp] theorem withUsed_chan (s : VState) (x i) : (s.withUsed x).chan i = s.chan i := rfl
@[simp] theorem withUsed_usedCount (s : VState) (x) : usedCount (s.withUsed x) = usedCount s := rfl
@[simp] theorem withUsed_rootCount (s : VState) (x c) : rootCount (s.withUsed x) c = rootCount s c := rfl

/-- the part of `alloc_voice` after the voice index is known -/
def allocTail (s1 : VState) (i chn : Int) : VState × Int :=
  if i ≥ 0 then
    let s2 := s1.setChan chn { s1.chan chn with count := (s1.chan chn).count + 1 }
    let s3 := s2.withUsed (s2.virtUsed + 1)
    let s4 := s3.setVoice i { s3.voice i with chn := chn, root := chn }
    (s4.setChan chn { s4.chan chn with map := i }, i)
  else (s1, i)

/-- the table updates of `free_voice` for the stolen voice `num` -/
def unmap (s : VState) (num : Int) : VState :=
  let vi := s.voice num
  let s1 := s.setChan vi.chn { s.chan vi.chn with map := -1 }
  let s2 := s1.setChan vi.root { s1.chan vi.root with count := (s1.chan vi.root).count - 1 }
  s2.withUsed (s2.virtUsed - 1)

theorem freeVoice_eq (s : VState) :
    freeVoice s = if quietest s.numTracks s.voices 0 (-1) intMax ≥ 0
      then (unmap s (quietest s.numTracks s.voices 0 (-1) intMax), quietest s.numTracks s.voices 0 (-1) intMax)
      else (s, quietest s.numTracks s.voices 0 (-1) intMax) := rfl

theorem allocVoice_eq (s : VState) (chn : Int) :
    allocVoice s chn = if firstFree s.voices 0 = s.maxvoc then allocTail (freeVoice s).1 (freeVoice s).2 chn
      else allocTail s (firstFree s.voices 0) chn := by
  unfold allocVoice
  by_cases h : firstFree s.voices 0 = s.maxvoc
  · simp only [h, if_true]; rfl
  · simp only [h, if_false]; rfl

/-- what `alloc_voice` guarantees when it succeeds (`r` = its result), `s` = state before -/
def AllocGood (s : VState) (chn : Int) (r : VState × Int) : Prop :=
  0 ≤ r.2 ∧ r.2 < s.maxvoc ∧ VInvX r.1 (s.chan chn).map ∧ SameConsts s r.1 ∧
  (r.1.chan chn).map = r.2 ∧ (r.1.voice r.2).chn = chn ∧ r.2 ≠ (s.chan chn).map ∧
  r.1.voice (s.chan chn).map = s.voice (s.chan chn).map

theorem quietest_range (s : VState) (hl : s.voices.length = s.maxvoc.toNat) :
    quietest s.numTracks s.voices 0 (-1) intMax = -1 ∨
    (0 ≤ quietest s.numTracks s.voices 0 (-1) intMax ∧ quietest s.numTracks s.voices 0 (-1) intMax < s.maxvoc ∧
      (s.voice (quietest s.numTracks s.voices 0 (-1) intMax)).chn ≥ s.numTracks) := by
  rcases quietest_spec s.numTracks s.voices 0 (-1) intMax with h | ⟨h1, h2, h3⟩
  · left; exact h
  · right
    refine ⟨h1, by omega, ?_⟩
    unfold VState.voice
    have : ¬ quietest s.numTracks s.voices 0 (-1) intMax < 0 := by omega
    simp only [this, if_false]
    simpa using h3

theorem allocTail_steal {s : VState} (h : VInv s) (chn num : Int) (h0 : 0 ≤ chn) (h1 : chn < s.numTracks)
    (hn0 : 0 ≤ num) (hn1 : num < s.maxvoc) (hnc : (s.voice num).chn ≥ s.numTracks) :
    AllocGood s chn (allocTail (unmap s num) num chn) := by
  have hlv := h.len_voices
  have hlc := h.len_chans
  have hm := h.maxvoc_nonneg
  have ht := h.tracks
  have hml := h.maxvoc_le
  have hvn := h.voice_ok num hn0 hn1
  have hcc := h.chan_ok chn h0 (by omega)
  unfold allocTail AllocGood unmap
  simp only [ge_iff_le, hn0, if_true]
  refine ⟨trivial, hn1, ?_, ?_, ?_, ?_, ?_, ?_⟩
  · constructor
    · simpa using h.maxvoc_nonneg
    · simpa using h.len_voices
    · simpa using h.len_chans
    · simpa using h.tracks
    · simpa using h.maxvoc_le
    · intro j hj0 hj1
      simp only [setVoice_maxvoc, setChan_maxvoc, withUsed_maxvoc] at hj1
      have := h.voice_ok j hj0 hj1
      vnorm
      grind
    · intro c hc0 hc1
      simp only [setVoice_virtChannels, setChan_virtChannels, withUsed_virtChannels] at hc1
      have := h.chan_ok c hc0 hc1
      vnorm
      grind
    · have := h.used_eq
      vnorm
      grind
    · intro c hc0 hc1
      simp only [setVoice_virtChannels, setChan_virtChannels, withUsed_virtChannels] at hc1
      have := h.count_eq c hc0 hc1
      vnorm
      grind
  · simp [SameConsts]
  · vnorm; grind
  · vnorm; grind
  · grind
  · vnorm; grind


theorem allocTail_free {s : VState} (h : VInv s) (chn i : Int) (h0 : 0 ≤ chn) (h1 : chn < s.virtChannels)
    (hn0 : 0 ≤ i) (hn1 : i < s.maxvoc) (hnc : (s.voice i).chn = -1) :
    AllocGood s chn (allocTail s i chn) := by
  have hlv := h.len_voices
  have hlc := h.len_chans
  have hm := h.maxvoc_nonneg
  have ht := h.tracks
  have hml := h.maxvoc_le
  have hvn := h.voice_ok i hn0 hn1
  have hcc := h.chan_ok chn h0 (by omega)
  unfold allocTail AllocGood
  simp only [ge_iff_le, hn0, if_true]
  refine ⟨trivial, hn1, ?_, ?_, ?_, ?_, ?_, ?_⟩
  · constructor
    · simpa using h.maxvoc_nonneg
    · simpa using h.len_voices
    · simpa using h.len_chans
    · simpa using h.tracks
    · simpa using h.maxvoc_le
    · intro j hj0 hj1
      simp only [setVoice_maxvoc, setChan_maxvoc, withUsed_maxvoc] at hj1
      have := h.voice_ok j hj0 hj1
      vnorm
      grind
    · intro c hc0 hc1
      simp only [setVoice_virtChannels, setChan_virtChannels, withUsed_virtChannels] at hc1
      have := h.chan_ok c hc0 hc1
      vnorm
      grind
    · have := h.used_eq
      vnorm
      grind
    · intro c hc0 hc1
      simp only [setVoice_virtChannels, setChan_virtChannels, withUsed_virtChannels] at hc1
      have := h.count_eq c hc0 hc1
      vnorm
      grind
  · simp [SameConsts]
  · vnorm; grind
  · vnorm; grind
  · grind
  · vnorm; grind

/-- `alloc_voice` on a foreground channel: either it fails and leaves the state untouched, or `AllocGood`. -/
theorem allocVoice_good {s : VState} (h : VInv s) (chn : Int) (h0 : 0 ≤ chn) (h1 : chn < s.numTracks) :
    ((allocVoice s chn).2 < 0 ∧ (allocVoice s chn).1 = s) ∨ AllocGood s chn (allocVoice s chn) := by
  have hlv := h.len_voices
  have hm := h.maxvoc_nonneg
  have ht := h.tracks
  rw [allocVoice_eq]
  split
  · rw [freeVoice_eq]
    rcases quietest_range s hlv with hq | ⟨q0, q1, q2⟩
    · left
      have : ¬ quietest s.numTracks s.voices 0 (-1) intMax ≥ 0 := by omega
      simp only [this, if_false, allocTail, and_true]
      rw [hq]; decide
    · right
      simp only [ge_iff_le, q0, if_true]
      exact allocTail_steal h chn _ h0 h1 q0 q1 q2
  · rename_i hne
    right
    have ff := firstFree_spec s.voices 0
    have f0 : 0 ≤ firstFree s.voices 0 := by omega
    have f1 : firstFree s.voices 0 < s.maxvoc := by omega
    apply allocTail_free h chn _ h0 (by omega) f0 f1
    have := ff.2.2 (by omega)
    unfold VState.voice
    have hn : ¬ firstFree s.voices 0 < 0 := by omega
    simp only [hn, if_false]
    simpa using this

theorem allocVoice_inv {s : VState} (h : VInv s) (chn : Int) (h0 : 0 ≤ chn) (h1 : chn < s.numTracks)
    (hfree : (s.chan chn).map = -1) : VInv (allocVoice s chn).1 := by
  rcases allocVoice_good h chn h0 h1 with ⟨_, e⟩ | g
  · rw [e]; exact h
  · obtain ⟨_, _, hx, _⟩ := g
    rw [hfree] at hx
    exact hx.toInv (by left; omega)


/-! ## the NNA relocation -/

theorem relocTarget_spec (s : VState) : ∀ (n : Nat) (c d : Int), c ≤ d → d < s.virtChannels →
    ¬ (s.chan d).map > -1 → d - c + 1 ≤ n →
    c ≤ relocTarget s n c ∧ relocTarget s n c < s.virtChannels ∧ ¬ (s.chan (relocTarget s n c)).map > -1 := by
  intro n
  induction n with
  | zero => intro c d h1 h2 h3 h4; omega
  | succ n ih =>
    intro c d h1 h2 h3 h4
    unfold relocTarget
    have : c < s.virtChannels := by omega
    simp only [this, if_true]
    split
    · rename_i hm
      have hne : c ≠ d := by intro e; subst e; exact h3 hm
      have := ih (c + 1) d (by omega) h2 h3 (by omega)
      omega
    · rename_i hm
      exact ⟨by omega, this, hm⟩

theorem countP_split {α} (p q r : α → Bool) (l : List α)
    (h : ∀ x ∈ l, (r x = true ↔ (p x = true ∨ q x = true)) ∧ ¬ (p x = true ∧ q x = true)) :
    l.countP r = l.countP p + l.countP q := by
  induction l with
  | nil => simp
  | cons a l ih =>
    have ha := h a (List.mem_cons_self)
    have := ih (fun x hx => h x (List.mem_cons_of_mem _ hx))
    simp only [List.countP_cons, this]
    cases hp : p a <;> cases hq : q a <;> cases hr : r a <;> simp_all <;> omega

theorem countP_lt_length {α} (p : α → Bool) (l : List α) (x : α) (hx : x ∈ l) (hp : p x = false) :
    l.countP p < l.length := by
  have h1 : l.countP p ≤ l.length := List.countP_le_length
  have h2 : l.countP p ≠ l.length := by
    intro e
    have := (List.countP_eq_length.1 e) x hx
    simp [hp] at this
  omega

/-- `k` distinct channel numbers `nt .. nt+k-1` each carried by some voice: at least `k` voices there -/
theorem count_chn_range (l : List Voice) (nt : Int) : ∀ k : Nat,
    (∀ j : Nat, j < k → ∃ v ∈ l, v.chn = nt + j) →
    k ≤ l.countP (fun v => decide (nt ≤ v.chn ∧ v.chn < nt + k)) := by
  intro k
  induction k with
  | zero => intro _; omega
  | succ k ih =>
    intro h
    have h1 := ih (fun j hj => h j (by omega))
    have h2 : 0 < l.countP (fun v => decide (v.chn = nt + k)) := by
      apply List.countP_pos_iff.2
      obtain ⟨v, hv, e⟩ := h k (by omega)
      exact ⟨v, hv, by simpa using e⟩
    have := countP_split (fun v => decide (nt ≤ v.chn ∧ v.chn < nt + k)) (fun v => decide (v.chn = nt + k))
      (fun v => decide (nt ≤ v.chn ∧ v.chn < nt + (k + 1 : Nat))) l (by
        intro x _
        simp only [decide_eq_true_eq]
        constructor
        · constructor
          · intro hh; omega
          · intro hh; omega
        · intro hh; omega)
    omega

theorem voice_mem (s : VState) (i : Int) (h0 : 0 ≤ i) (h1 : i < s.voices.length) : s.voice i ∈ s.voices := by
  rw [voice_eq_getElem s i h0 (by omega)]
  exact List.getElem_mem _

/-- pigeonhole: with at least as many background channels as voices and one voice sitting on a
foreground channel (or free), some background channel is unmapped. -/
theorem exists_free_background {s : VState} {ex : Int} (h : VInvX s ex)
    (hq : s.maxvoc ≤ s.virtChannels - s.numTracks)
    (i : Int) (hi0 : 0 ≤ i) (hi1 : i < s.maxvoc) (hfg : (s.voice i).chn < s.numTracks) :
    ∃ c, s.numTracks ≤ c ∧ c < s.virtChannels ∧ (s.chan c).map = -1 := by
  have hlv := h.len_voices
  have hm := h.maxvoc_nonneg
  have ht := h.tracks
  apply Classical.byContradiction
  intro hno
  have hall : ∀ c, s.numTracks ≤ c → c < s.virtChannels →
      0 ≤ (s.chan c).map ∧ (s.chan c).map < s.maxvoc ∧ (s.voice (s.chan c).map).chn = c := by
    intro c hc0 hc1
    rcases h.chan_ok c (by omega) hc1 with hm1 | hok
    · exact absurd ⟨c, hc0, hc1, hm1⟩ hno
    · exact hok
  have hk := count_chn_range s.voices s.numTracks (s.virtChannels - s.numTracks).toNat (by
    intro j hj
    have := hall (s.numTracks + j) (by omega) (by omega)
    exact ⟨_, voice_mem s _ this.1 (by omega), this.2.2⟩)
  have hle : s.voices.countP (fun v => decide (s.numTracks ≤ v.chn ∧ v.chn < s.numTracks + ((s.virtChannels - s.numTracks).toNat : Int)))
      ≤ s.voices.countP (fun v => decide (s.numTracks ≤ v.chn)) := by
    apply List.countP_mono_left
    intro x _ hx
    simp only [decide_eq_true_eq] at hx ⊢
    exact hx.1
  have hlt := countP_lt_length (fun v => decide (s.numTracks ≤ v.chn)) s.voices (s.voice i)
    (voice_mem s i hi0 (by omega)) (by simp; omega)
  omega


/-- moving the displaced voice `voc` to a free background channel `c` restores the invariant -/
theorem reloc_inv {s : VState} {voc : Int} (hx : VInvX s voc) (hv0 : 0 ≤ voc) (hv1 : voc < s.maxvoc)
    (hin : (s.voice voc).chn ≠ -1) (hnm : (s.chan (s.voice voc).chn).map ≠ voc)
    (c : Int) (hc0 : s.numTracks ≤ c) (hc1 : c < s.virtChannels) (hfree : (s.chan c).map = -1) :
    VInv ((s.setVoice voc { s.voice voc with chn := c }).setChan c
      { (s.setVoice voc { s.voice voc with chn := c }).chan c with map := voc }) := by
  have hlv := hx.len_voices
  have hlc := hx.len_chans
  have hm := hx.maxvoc_nonneg
  have ht := hx.tracks
  have hml := hx.maxvoc_le
  have hvv := hx.voice_ok voc hv0 hv1
  constructor
  · simpa using hx.maxvoc_nonneg
  · simpa using hx.len_voices
  · simpa using hx.len_chans
  · simpa using hx.tracks
  · simpa using hx.maxvoc_le
  · intro j hj0 hj1
    simp only [setVoice_maxvoc, setChan_maxvoc] at hj1
    have := hx.voice_ok j hj0 hj1
    vnorm
    grind
  · intro d hd0 hd1
    simp only [setVoice_virtChannels, setChan_virtChannels] at hd1
    have := hx.chan_ok d hd0 hd1
    vnorm
    grind
  · have := hx.used_eq
    vnorm
    grind
  · intro d hd0 hd1
    simp only [setVoice_virtChannels, setChan_virtChannels] at hd1
    have := hx.count_eq d hd0 hd1
    vnorm
    grind


/-! ## libxmp_virt_setpatch -/

/-- the voice selection of `setPatch` (its local `r`) -/
def patchCore (s : VState) (chn : Int) : Option (VState × Int × Int) :=
  let voc := (s.chan chn).map
  if voc > -1 then
    if (s.voice voc).act ≠ 0 ∧ (setpatchRelocNeedsSlots = false ∨ s.virtChannels > s.numTracks) then
      let (s1, vfree) := allocVoice s chn
      if vfree < 0 then none else
      let c := relocTarget s1 (s1.virtChannels - s1.numTracks + 1).toNat s1.numTracks
      let s2 := s1.setVoice voc { s1.voice voc with chn := c }
      let s3 := s2.setChan c { s2.chan c with map := voc }
      some (s3, vfree, c)
    else some (s, voc, chn)
  else
    let (s1, v) := allocVoice s chn
    if v < 0 then none else some (s1, v, chn)

/-- the state after the `check_dct` loop of `setPatch` -/
def preDct (s0 : VState) (chn ins smp0 key nna dct dca : Int) : VState :=
  if dct ≠ 0 then checkDctAll s0 chn ins (if ins < 0 then -1 else smp0) key nna dct dca s0.maxvoc.toNat 0 else s0

theorem setPatch_eq (s0 : VState) (chn ins smp0 key nna dct dca : Int) :
    setPatch s0 chn ins smp0 key nna dct dca =
      if chn < 0 ∨ chn ≥ s0.virtChannels then (s0, -1) else
      let smp := if ins < 0 then -1 else smp0
      match patchCore (preDct s0 chn ins smp0 key nna dct dca) chn with
      | none => (preDct s0 chn ins smp0 key nna dct dca, -1)
      | some (s1, v, c) =>
        if smp < 0 then (resetVoice s1 v, c)
        else (s1.setVoice v { s1.voice v with smp := smp, vol := 0, ins := ins, act := nna, key := key }, c) := rfl

/-- does `setPatch` take the NNA relocation branch in state `s` (after the DCT loop)? -/
def RelocTaken (s : VState) (chn : Int) : Prop :=
  (s.chan chn).map > -1 ∧ ((s.voice (s.chan chn).map).act ≠ 0 ∧ (setpatchRelocNeedsSlots = false ∨ s.virtChannels > s.numTracks))

instance (s : VState) (chn : Int) : Decidable (RelocTaken s chn) := by unfold RelocTaken; infer_instance

theorem patchCore_good {s : VState} (h : VInv s) (chn : Int) (h0 : 0 ≤ chn) (h1 : chn < s.numTracks)
    (hq : s.maxvoc ≤ s.virtChannels - s.numTracks ∨ ¬ RelocTaken s chn)
    (s' : VState) (v c' : Int) (hr : patchCore s chn = some (s', v, c')) :
    VInv s' ∧ SameConsts s s' ∧ (v < 0 ∨ v ≥ s'.maxvoc ∨ (s'.voice v).chn ≠ -1) := by
  have ht := h.tracks
  have hcc := h.chan_ok chn h0 (by omega)
  unfold patchCore at hr
  simp only [] at hr
  split at hr
  · rename_i hvoc
    have hcc : 0 ≤ (s.chan chn).map ∧ (s.chan chn).map < s.maxvoc ∧ (s.voice (s.chan chn).map).chn = chn := by
      omega
    split at hr
    · rename_i hact
      have hq : s.maxvoc ≤ s.virtChannels - s.numTracks := by
        rcases hq with hq | hq
        · exact hq
        · exact absurd ⟨hvoc, hact⟩ hq
      rcases allocVoice_good h chn h0 h1 with ⟨hneg, _⟩ | g
      · have : (allocVoice s chn).2 < 0 := hneg
        simp only [this, if_true] at hr
        cases hr
      · obtain ⟨g0, g1, gx, gc, gmap, gchn, gne, gvoc⟩ := g
        generalize allocVoice s chn = r at *
        obtain ⟨s1, vfree⟩ := r
        simp only at g0 g1 gx gc gmap gchn gne gvoc hr
        have : ¬ vfree < 0 := by omega
        simp only [this, if_false] at hr
        obtain ⟨c1, c2, c3⟩ := gc
        obtain ⟨d, hd0, hd1, hdm⟩ := exists_free_background gx (by omega) vfree g0 (by omega) (by omega)
        have rs := relocTarget_spec s1 (s1.virtChannels - s1.numTracks + 1).toNat s1.numTracks d hd0 hd1
          (by omega) (by omega)
        generalize relocTarget s1 (s1.virtChannels - s1.numTracks + 1).toNat s1.numTracks = c at *
        have hcfree : (s1.chan c).map = -1 := by
          have := gx.chan_ok c (by omega) rs.2.1
          omega
        have hv1 : (s1.voice (s.chan chn).map).chn = chn := by rw [gvoc]; exact hcc.2.2
        have hinv := reloc_inv gx hcc.1 (by omega) (by omega) (by rw [hv1, gmap]; exact gne) c rs.1 rs.2.1 hcfree
        simp only [Option.some.injEq, Prod.mk.injEq] at hr
        obtain ⟨e1, e2, e3⟩ := hr
        subst e1 e2 e3
        refine ⟨hinv, by simp [SameConsts, c1, c2, c3], ?_⟩
        right; right
        have hlv := gx.len_voices
        vnorm
        grind
    · simp only [Option.some.injEq, Prod.mk.injEq] at hr
      obtain ⟨e1, e2, e3⟩ := hr
      subst e1 e2 e3
      exact ⟨h, ⟨rfl, rfl, rfl⟩, by omega⟩
  · rename_i hvoc
    have hfree : (s.chan chn).map = -1 := by omega
    rcases allocVoice_good h chn h0 h1 with ⟨hneg, _⟩ | g
    · have : (allocVoice s chn).2 < 0 := hneg
      simp only [this, if_true] at hr
      cases hr
    · obtain ⟨g0, g1, gx, gc, gmap, gchn, gne, gvoc⟩ := g
      generalize allocVoice s chn = r at *
      obtain ⟨s1, v1⟩ := r
      simp only at g0 g1 gx gc gmap gchn gne gvoc hr
      have : ¬ v1 < 0 := by omega
      simp only [this, if_false] at hr
      simp only [Option.some.injEq, Prod.mk.injEq] at hr
      obtain ⟨e1, e2, e3⟩ := hr
      subst e1 e2 e3
      rw [hfree] at gx
      obtain ⟨c1, c2, c3⟩ := gc
      exact ⟨gx.toInv (by left; omega), ⟨c1, c2, c3⟩, by omega⟩


theorem preDct_inv {s0 : VState} (h : VInv s0) (chn ins smp0 key nna dct dca : Int) (hc : 0 ≤ chn) :
    VInv (preDct s0 chn ins smp0 key nna dct dca) ∧ SameConsts s0 (preDct s0 chn ins smp0 key nna dct dca) := by
  unfold preDct
  split
  · exact checkDctAll_inv chn ins _ key nna dct dca hc _ s0 0 h (by omega) (by have := h.maxvoc_nonneg; omega)
  · exact ⟨h, rfl, rfl, rfl⟩

/-- precondition of `setPatch`: a foreground channel, and either the virtual-channel geometry of
`QUIRK_VIRTUAL` (at least as many background channels as voices) or the NNA relocation is not taken. -/
def SetPatchOk (s : VState) (chn ins smp key nna dct dca : Int) : Prop :=
  chn < s.numTracks ∧
  (s.maxvoc ≤ s.virtChannels - s.numTracks ∨ ¬ RelocTaken (preDct s chn ins smp key nna dct dca) chn)

theorem setPatch_inv' {s : VState} (h : VInv s) (chn ins smp key nna dct dca : Int)
    (ok : SetPatchOk s chn ins smp key nna dct dca) :
    VInv (setPatch s chn ins smp key nna dct dca).1 ∧ SameConsts s (setPatch s chn ins smp key nna dct dca).1 := by
  rw [setPatch_eq]
  split
  · exact ⟨h, rfl, rfl, rfl⟩
  · rename_i hr
    have h0 : 0 ≤ chn := by omega
    obtain ⟨hp, cp1, cp2, cp3⟩ := preDct_inv h chn ins smp key nna dct dca h0
    simp only []
    generalize (if ins < 0 then (-1 : Int) else smp) = smp'
    split
    · exact ⟨hp, cp1, cp2, cp3⟩
    · rename_i s1 v c heq
      obtain ⟨hi, ⟨d1, d2, d3⟩, hv⟩ := patchCore_good hp chn h0 (by rw [cp3]; exact ok.1)
        (by rw [cp1, cp2, cp3]; exact ok.2) s1 v c heq
      split
      · have r := resetVoice_consts s1 v
        refine ⟨resetVoice_inv hi v hv, ?_⟩
        unfold SameConsts at *
        simp only []
        omega
      · refine ⟨setVoice_same_inv hi v _ rfl rfl, ?_⟩
        simp [SameConsts]
        omega

theorem setPatch_inv {s : VState} (h : VInv s) (chn ins smp key nna dct dca : Int)
    (ok : SetPatchOk s chn ins smp key nna dct dca) : VInv (setPatch s chn ins smp key nna dct dca).1 :=
  (setPatch_inv' h chn ins smp key nna dct dca ok).1

/-- the relocation branch is never taken when there is no duplicate check and the mapped voice is not in
an NNA action (non-virtual modules: `act` is always 0) -/
theorem not_relocTaken_of_act {s : VState} (chn ins smp key nna dca : Int)
    (hact : (s.voice (s.chan chn).map).act = 0) : ¬ RelocTaken (preDct s chn ins smp key nna 0 dca) chn := by
  unfold preDct RelocTaken
  simp [hact]

/-- with `QUIRK_VIRTUAL`, `virtOn` provides as many background channels as voices -/
theorem virtOn_quirk (numTracks numvoc : Int) (h2 : 0 ≤ numvoc) :
    (virtOn numTracks numvoc true).maxvoc ≤
      (virtOn numTracks numvoc true).virtChannels - (virtOn numTracks numvoc true).numTracks := by
  simp [virtOn, numvoices]
  repeat' split
  all_goals omega

/-! ## field-only operations: `setnna`, `setsmp`, `queuepatch` on a mapped channel -/

theorem setNna_inv {s : VState} (h : VInv s) (chn nna : Int) (q : Bool) : VInv (setNna s chn nna q) := by
  unfold setNna
  split
  · exact h
  · simp only
    split
    · exact h
    · exact setVoice_same_inv h _ _ rfl rfl

theorem setNna_consts (s : VState) (chn nna : Int) (q : Bool) : SameConsts s (setNna s chn nna q) := by
  unfold setNna SameConsts
  split
  · exact ⟨rfl, rfl, rfl⟩
  · simp only; split <;> simp

theorem setSmp_inv {s : VState} (h : VInv s) (chn smp : Int) : VInv (setSmp s chn smp) := by
  unfold setSmp
  simp only
  split
  · exact h
  · split
    · exact h
    · exact setVoice_same_inv h _ _ rfl rfl

theorem setSmp_consts (s : VState) (chn smp : Int) : SameConsts s (setSmp s chn smp) := by
  unfold setSmp SameConsts
  simp only
  split
  · exact ⟨rfl, rfl, rfl⟩
  · split <;> simp

theorem queueIns_inv {s : VState} (h : VInv s) (chn ins : Int) : VInv (queueIns s chn ins) := by
  unfold queueIns
  split
  · exact h
  · simp only
    split
    · exact setVoice_same_inv h _ _ rfl rfl
    · exact h

theorem queueIns_consts (s : VState) (chn ins : Int) : SameConsts s (queueIns s chn ins) := by
  unfold queueIns SameConsts
  split
  · exact ⟨rfl, rfl, rfl⟩
  · simp only; split <;> simp

/-- the field-only operations do what their names say and nothing else: the voice↔channel maps,
`virt_used` and the counts are untouched -/
theorem fieldOps_tables (s : VState) (chn x : Int) (q : Bool) :
    (setNna s chn x q).chans = s.chans ∧ (setNna s chn x q).virtUsed = s.virtUsed ∧
    (setSmp s chn x).chans = s.chans ∧ (setSmp s chn x).virtUsed = s.virtUsed ∧
    (queueIns s chn x).chans = s.chans ∧ (queueIns s chn x).virtUsed = s.virtUsed := by
  refine ⟨?_, ?_, ?_, ?_, ?_, ?_⟩
  · unfold setNna; split
    · rfl
    · simp only; split <;> simp
  · unfold setNna; split
    · rfl
    · simp only; split <;> simp
  · unfold setSmp; simp only; split
    · rfl
    · split <;> simp
  · unfold setSmp; simp only; split
    · rfl
    · split <;> simp
  · unfold queueIns; split
    · rfl
    · simp only; split <;> simp
  · unfold queueIns; split
    · rfl
    · simp only; split <;> simp

/-! ## steps and runs -/

/-- per-operation preconditions (evaluated by the harness at every spied call) -/
def OpOk (s : VState) : Op → Prop
  | .reset => True
  | .resetVoice voc => voc < 0 ∨ voc ≥ s.maxvoc ∨ (s.voice voc).chn ≠ -1
  | .resetChannel _ => True
  | .setVol _ _ _ => True
  | .setPatch c i sm k n d a => SetPatchOk s c i sm k n d a
  | .pastNoteCut _ => True
  | .pastNoteOther _ _ => True
  | .setNna _ _ _ => True
  | .setSmp _ _ => True
  | .queueIns _ _ => True

theorem step_inv' {s : VState} {op : Op} (h : VInv s) (ok : OpOk s op) :
    VInv (step s op) ∧ SameConsts s (step s op) := by
  cases op with
  | reset =>
    refine ⟨virtReset_inv h, ?_⟩
    simp only [step, virtReset, SameConsts]; split <;> simp
  | resetVoice v => exact ⟨resetVoice_inv h v ok, resetVoice_consts s v⟩
  | resetChannel c =>
    refine ⟨resetChannel_inv h c, ?_⟩
    simp only [step]
    rw [resetChannel_eq h]
    split
    · exact ⟨rfl, rfl, rfl⟩
    · exact resetVoice_consts _ _
  | setVol c v m =>
    refine ⟨setVol_inv h c v m, ?_⟩
    simp only [step, setVol]
    generalize (if m = true then 0 else v) = vol'
    split
    · exact ⟨rfl, rfl, rfl⟩
    · split
      · have := resetVoice_consts (s.setVoice (mapVirtChannel s c)
          { s.voice (mapVirtChannel s c) with vol := vol' }) (mapVirtChannel s c)
        simpa [SameConsts] using this
      · simp [SameConsts]
  | setPatch c i sm k n d a => exact setPatch_inv' h c i sm k n d a ok
  | pastNoteCut c => exact pastNoteCut_inv' c _ s _ h
  | pastNoteOther c a => exact ⟨h, rfl, rfl, rfl⟩
  | setNna c n q => exact ⟨setNna_inv h c n q, setNna_consts s c n q⟩
  | setSmp c sm => exact ⟨setSmp_inv h c sm, setSmp_consts s c sm⟩
  | queueIns c i => exact ⟨queueIns_inv h c i, queueIns_consts s c i⟩

theorem step_inv {s : VState} {op : Op} (h : VInv s) (ok : OpOk s op) : VInv (step s op) :=
  (step_inv' h ok).1

/-- every op of the history satisfies its precondition in the state where it runs -/
def RunOk : VState → List Op → Prop
  | _, [] => True
  | s, op :: rest => OpOk s op ∧ RunOk (step s op) rest

theorem run_inv {s : VState} (h : VInv s) : ∀ (ops : List Op), RunOk s ops → VInv (ops.foldl step s) := by
  intro ops
  induction ops generalizing s with
  | nil => intro _; exact h
  | cons op rest ih =>
    intro ok
    exact ih (step_inv h ok.1) ok.2

/-- the table geometry never changes -/
theorem run_consts {s : VState} (h : VInv s) : ∀ (ops : List Op), RunOk s ops → SameConsts s (ops.foldl step s) := by
  intro ops
  induction ops generalizing s with
  | nil => intro _; exact ⟨rfl, rfl, rfl⟩
  | cons op rest ih =>
    intro ok
    have a := step_inv' h ok.1
    have b := ih a.1 ok.2
    simp only [List.foldl_cons]
    unfold SameConsts at *
    omega

theorem run_bounds {s : VState} (h : VInv s) (ops : List Op) (ok : RunOk s ops) :
    0 ≤ (ops.foldl step s).virtUsed ∧ (ops.foldl step s).virtUsed ≤ (ops.foldl step s).maxvoc ∧
    (ops.foldl step s).maxvoc ≤ (ops.foldl step s).virtChannels := (run_inv h ops ok).bounds


/-! ## executable checker and a non-vacuity witness -/

/-- `VInv` with the quantifiers bounded over `Nat` (decidable) -/
def VInvD (s : VState) : Prop :=
  0 ≤ s.maxvoc ∧ s.voices.length = s.maxvoc.toNat ∧ s.chans.length = s.virtChannels.toNat ∧
  (0 ≤ s.numTracks ∧ s.numTracks ≤ s.virtChannels) ∧ s.maxvoc ≤ s.virtChannels ∧
  (∀ n : Nat, n < s.maxvoc.toNat →
    ((s.voice n).chn = -1 ∧ (s.voice n).root = -1) ∨
    (0 ≤ (s.voice n).chn ∧ (s.voice n).chn < s.virtChannels ∧
     0 ≤ (s.voice n).root ∧ (s.voice n).root < s.virtChannels ∧ (s.chan (s.voice n).chn).map = n)) ∧
  (∀ n : Nat, n < s.virtChannels.toNat →
    (s.chan n).map = -1 ∨
    (0 ≤ (s.chan n).map ∧ (s.chan n).map < s.maxvoc ∧ (s.voice (s.chan n).map).chn = n)) ∧
  s.virtUsed = usedCount s ∧
  (∀ n : Nat, n < s.virtChannels.toNat → (s.chan n).count = rootCount s n)

instance (s : VState) : Decidable (VInvD s) := by unfold VInvD; infer_instance

/-- Bool-valued invariant checker -/
def vinvB (s : VState) : Bool := decide (VInvD s)

theorem VInvD.sound {s : VState} (h : VInvD s) : VInv s := by
  obtain ⟨h1, h2, h3, h4, h5, h6, h7, h8, h9⟩ := h
  refine ⟨h1, h2, h3, h4, h5, ?_, ?_, h8, ?_⟩
  · intro i hi0 hi1
    have := h6 i.toNat (by omega)
    rwa [Int.toNat_of_nonneg hi0] at this
  · intro c hc0 hc1
    have := h7 c.toNat (by omega)
    rwa [Int.toNat_of_nonneg hc0] at this
  · intro c hc0 hc1
    have := h9 c.toNat (by omega)
    rwa [Int.toNat_of_nonneg hc0] at this

theorem vinvB_sound {s : VState} (h : vinvB s = true) : VInv s :=
  VInvD.sound (of_decide_eq_true h)

theorem VInv.toD {s : VState} (h : VInv s) : VInvD s := by
  refine ⟨h.maxvoc_nonneg, h.len_voices, h.len_chans, h.tracks, h.maxvoc_le, ?_, ?_, h.used_eq, ?_⟩
  · intro n hn; exact h.voice_ok n (by omega) (by omega)
  · intro n hn; exact h.chan_ok n (by omega) (by omega)
  · intro n hn; exact h.count_eq n (by omega) (by omega)

/-- the checker is complete as well: it decides `VInv` -/
theorem vinvB_iff (s : VState) : vinvB s = true ↔ VInv s :=
  ⟨vinvB_sound, fun h => decide_eq_true h.toD⟩

instance (s : VState) (op : Op) : Decidable (OpOk s op) := by
  cases op <;> simp only [OpOk, SetPatchOk] <;> infer_instance

instance : (s : VState) → (ops : List Op) → Decidable (RunOk s ops)
  | _, [] => isTrue trivial
  | s, op :: rest =>
    have := instDecidableRunOk (step s op) rest
    by unfold RunOk; infer_instance

/-- a small virtual-channel history: 2 tracks, 3 voices; the second `setPatch` on channel 0 finds
voice 0 in NNA action 1 and relocates it to background channel 2; `setVol 2 0` then releases it. -/
def demoOps : List Op :=
  [.setPatch 0 1 1 60 1 0 0, .setPatch 0 1 1 62 1 0 0, .setPatch 1 2 0 50 2 0 0, .setVol 2 0 false,
   .resetChannel 1]

example : RelocTaken (step (virtOn 2 3 true) (.setPatch 0 1 1 60 1 0 0)) 0 := by decide
example : ((demoOps.take 3).foldl step (virtOn 2 3 true)).virtUsed = 3 := by decide
example : (((demoOps.take 2).foldl step (virtOn 2 3 true)).voice 0).chn = 2 := by decide
example : VInv (demoOps.foldl step (virtOn 2 3 true)) := vinvB_sound (by decide)
example : VInv ((demoOps.take 2).foldl step (virtOn 2 3 true)) := vinvB_sound (by decide)
example : RunOk (virtOn 2 3 true) demoOps := by decide
example : VInv (demoOps.foldl step (virtOn 2 3 true)) :=
  run_inv (virtOn_inv 2 3 true (by decide) (by decide)) demoOps (by decide)
/-- the precondition of `resetVoice` is needed: resetting a free voice breaks the invariant -/
example : ¬ VInv (resetVoice (virtOn 2 3 true) 0) := fun h => absurd ((vinvB_iff _).2 h) (by decide)

end Xmp.Virt
