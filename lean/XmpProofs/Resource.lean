import XmpModel.Resource
namespace Xmp.Resource

/-- multiset inclusion of block lists -/
def Sub (a b : List Tok) : Prop := ∀ t, a.count t ≤ b.count t

/-- everything but the heap ledger is unchanged -/
def SameEnv (w w' : World) : Prop :=
  w'.closed = w.closed ∧ w'.tempFiles = w.tempFiles ∧ w'.openFds = w.openFds

theorem free_none (w : World) : w.free none = w := rfl

theorem free_live {w : World} {t : Tok} (h : t ∈ w.live) :
    (w.free (some t)) = { w with live := w.live.erase t } := by
  simp [World.free, h]

theorem count_pos_of_sub_cons {t : Tok} {ts l : List Tok} (h : Sub (t :: ts) l) : t ∈ l := by
  have := h t
  simp at this
  exact List.count_pos_iff.mp (by omega)

theorem freeAll_spec (ps : List (Option Tok)) : ∀ (w : World), Sub (ptrs ps) w.live →
    (freeAll ps w).bad = w.bad ∧ (freeAll ps w).oracle = w.oracle ∧ (freeAll ps w).nalloc = w.nalloc ∧
    SameEnv w (freeAll ps w) ∧
    ∀ u, (freeAll ps w).live.count u + (ptrs ps).count u = w.live.count u := by
  induction ps with
  | nil => intro w _; simp [freeAll, ptrs, SameEnv]
  | cons p ps ih =>
    intro w h
    cases p with
    | none =>
      have := ih w (by simpa [ptrs] using h)
      simpa [freeAll, World.free, ptrs] using this
    | some t =>
      have hm : t ∈ w.live := count_pos_of_sub_cons (ts := ptrs ps) (by simpa [ptrs] using h)
      have hsub : Sub (ptrs ps) (w.free (some t)).live := by
        intro u
        have := h u
        simp [ptrs, List.count_cons] at this
        rw [free_live hm]
        simp only [List.count_erase]
        simp [ptrs]
        split <;> simp_all <;> omega
      have := ih (w.free (some t)) hsub
      obtain ⟨a, b, c, d, e⟩ := this
      rw [free_live hm] at a b c d e
      refine ⟨?_, ?_, ?_, ?_, ?_⟩
      · simpa [freeAll, free_live hm] using a
      · simpa [freeAll, free_live hm] using b
      · simpa [freeAll, free_live hm] using c
      · simpa [freeAll, SameEnv, free_live hm] using d
      · intro u
        have e' := e u
        have hu := h u
        have hp : 0 < w.live.count t := List.count_pos_iff.mpr hm
        simp only [freeAll, free_live hm]
        simp only [ptrs, List.filterMap_cons, id, List.count_cons, List.count_erase] at e' hu ⊢
        by_cases htu : t = u
        · subst htu
          simp only [beq_self_eq_true, if_true] at e' hu ⊢
          omega
        · have : (t == u) = false := by simpa using htu
          simp only [this] at e' hu ⊢
          simp only [Bool.false_eq_true, if_false] at e' hu ⊢
          omega
end Xmp.Resource
