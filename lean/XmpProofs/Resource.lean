import XmpModel.Resource
namespace Xmp.Resource

/-- multiset inclusion of block lists -/
def Sub (a b : List Tok) : Prop := ∀ t, a.count t ≤ b.count t

/-- everything but the heap ledger is unchanged -/
def SameEnv (w w' : World) : Prop :=
  w'.closed = w.closed ∧ w'.tempFiles = w.tempFiles ∧ w'.openFds = w.openFds

theorem free_none (w : World) : w.free none = w := rfl

theorem free_live {w : World} {t : Tok} (h : t ∈ w.live) :
    (w.free (some t)) = { w with live := w.live.erase t } := by
  simp [World.free, h]

theorem count_pos_of_sub_cons {t : Tok} {ts l : List Tok} (h : Sub (t :: ts) l) : t ∈ l := by
  have := h t
  simp at this
  exact List.count_pos_iff.mp (by omega)

theorem freeAll_spec (ps : List (Option Tok)) : ∀ (w : World), Sub (ptrs ps) w.live →
    (freeAll ps w).bad = w.bad ∧ (freeAll ps w).oracle = w.oracle ∧ (freeAll ps w).nalloc = w.nalloc ∧
    SameEnv w (freeAll ps w) ∧
    ∀ u, (freeAll ps w).live.count u + (ptrs ps).count u = w.live.count u := by
  induction ps with
  | nil => intro w _; simp [freeAll, ptrs, SameEnv]
  | cons p ps ih =>
    intro w h
    cases p with
    | none =>
      have := ih w (by simpa [ptrs] using h)
      simpa [freeAll, World.free, ptrs] using this
    | some t =>
      have hm : t ∈ w.live := count_pos_of_sub_cons (ts := ptrs ps) (by simpa [ptrs] using h)
      have hsub : Sub (ptrs ps) (w.free (some t)).live := by
        intro u
        have := h u
        simp [ptrs, List.count_cons] at this
        rw [free_live hm]
        simp only [List.count_erase]
        simp [ptrs]
        split <;> simp_all <;> omega
      have := ih (w.free (some t)) hsub
      obtain ⟨a, b, c, d, e⟩ := this
      rw [free_live hm] at a b c d e
      refine ⟨?_, ?_, ?_, ?_, ?_⟩
      · simpa [freeAll, free_live hm] using a
      · simpa [freeAll, free_live hm] using b
      · simpa [freeAll, free_live hm] using c
      · simpa [freeAll, SameEnv, free_live hm] using d
      · intro u
        have e' := e u
        have hu := h u
        have hp : 0 < w.live.count t := List.count_pos_iff.mpr hm
        simp only [freeAll, free_live hm]
        simp only [ptrs, List.filterMap_cons, id, List.count_cons, List.count_erase] at e' hu ⊢
        by_cases htu : t = u
        · subst htu
          simp only [beq_self_eq_true, if_true] at e' hu ⊢
          omega
        · have : (t == u) = false := by simpa using htu
          simp only [this] at e' hu ⊢
          simp only [Bool.false_eq_true, if_false] at e' hu ⊢
          omega

/-- outcome of one allocator call -/
theorem alloc_cases (w : World) (t : Tok) :
    (w.alloc t = (none, { w with oracle := w.oracle.tail, nalloc := w.nalloc + 1 })) ∨
    (w.alloc t = (some t, { w with oracle := w.oracle.tail, nalloc := w.nalloc + 1, live := t :: w.live })) := by
  unfold World.alloc
  cases w.oracle.headD true <;> simp

theorem free_head (w : World) (t : Tok) (l : List Tok) (h : w.live = t :: l) :
    w.free (some t) = { w with live := l } := by
  simp [World.free, h]

theorem makeTempFile_spec (cfg : TempCfg) (hs : cfg.Sound = true) (sys : TempSys) (w : World) :
    let r := makeTempFile cfg sys w
    r.2.2.bad = w.bad ∧ r.2.2.closed = w.closed ∧
    ((r.1 = true ∧ r.2.1 = some ⟨.tempName, 0⟩ ∧ r.2.2.live = ⟨.tempName, 0⟩ :: w.live ∧
        r.2.2.tempFiles = w.tempFiles + 1 ∧ r.2.2.openFds = w.openFds + 1) ∨
     (r.1 = false ∧ r.2.1 = none ∧ r.2.2.live = w.live ∧ r.2.2.tempFiles = w.tempFiles ∧ r.2.2.openFds = w.openFds)) := by
  simp only [TempCfg.Sound, Bool.and_eq_true, Bool.or_eq_true, decide_eq_true_eq] at hs
  obtain ⟨⟨h1, h2⟩, h3⟩ := hs
  obtain ⟨mk, fdo⟩ := sys
  unfold makeTempFile
  rcases alloc_cases w ⟨.tempName, 0⟩ with ha | ha <;> rw [ha]
  · simp [h1, doTActions]
  · cases mk <;> cases fdo <;> rcases h3 with h3 | h3 <;>
      simp [h2, h3, doTActions, doTAction, World.free]

theorem decrunchCommand_spec (cfg : TempCfg) (hs : cfg.Sound = true) (sys : HelperSys) (x : Hio) (w : World)
    (L : List Tok) (hx : x.type = .file ∧ x.noclose = false ∧ x.h = ⟨.hio, 0⟩) (hl : w.live = x.h :: L)
    (hfd : 1 ≤ w.openFds) :
    let r := decrunchCommand cfg sys x w
    let wf := unlinkTempFile r.2.2.1 (hioClose {} r.2.1 r.2.2.2)
    wf.live = L ∧ wf.tempFiles = w.tempFiles ∧ wf.openFds = w.openFds - 1 ∧ wf.bad = w.bad := by
  obtain ⟨h, ty, nc, st, inn, bf⟩ := x
  obtain ⟨rfl, rfl, rfl⟩ := hx
  simp only at hl
  unfold decrunchCommand
  have hm := makeTempFile_spec cfg hs sys.toTempSys w
  generalize makeTempFile cfg sys.toTempSys w = r at hm
  obtain ⟨ok, name, w3⟩ := r
  obtain ⟨hb, hc, hm⟩ := hm
  simp only at hb hc hm
  rcases hm with ⟨rfl, rfl, hl3, ht, hf⟩ | ⟨rfl, rfl, hl3, ht, hf⟩
  · cases hex : sys.execOk <;> cases hsk : sys.seekOk <;> cases hsz : sys.sizeOk <;>
      simp [hioReopenFile, hioCloseInternal, World.fcloseOwned, hioClose, unlinkTempFile, World.free, hl, hl3, ht, hf, hb,
        List.erase_cons] <;> omega
  · simp [hioClose, hioCloseInternal, World.fcloseOwned, unlinkTempFile, World.free, hl, hl3, ht, hf, hb]

theorem tempfile_atomic (cfg : TempCfg) (hs : cfg.Sound = true) (sys : HelperSys) (loadRc : Int) (w : World) :
    let r := pathOpWithHelper cfg sys loadRc w
    r.2.tempFiles = w.tempFiles ∧ r.2.openFds = w.openFds ∧ r.2.bad = w.bad ∧ r.2.live = w.live := by
  unfold pathOpWithHelper hioOpenPath
  rcases alloc_cases w ⟨.hio, 0⟩ with ha | ha <;> rw [ha]
  · simp
  · simp only [Bool.not_true, Bool.false_eq_true, if_false, if_true]
    have := decrunchCommand_spec cfg hs sys { h := ⟨.hio, 0⟩, type := .file, noclose := false, stream := .ownedFile }
      { w with oracle := w.oracle.tail, nalloc := w.nalloc + 1, live := ⟨.hio, 0⟩ :: w.live, openFds := w.openFds + 1 }
      w.live ⟨rfl, rfl, rfl⟩ rfl (by simp)
    simp only at this
    obtain ⟨a, b, c, d⟩ := this
    exact ⟨b, by simpa using c, d, a⟩


theorem freeAll_append (a b : List (Option Tok)) (w : World) : freeAll (a ++ b) w = freeAll b (freeAll a w) := by
  induction a generalizing w with
  | nil => rfl
  | cons p ps ih => simp [freeAll, ih]

theorem free_eq_freeAll (p : Option Tok) (w : World) : w.free p = freeAll [p] w := rfl

theorem ptrs_append (a b : List (Option Tok)) : ptrs (a ++ b) = ptrs a ++ ptrs b := by
  simp [ptrs, List.filterMap_append]

/-- release order of one pointer table -/
def tableOrder (t : Table) : List (Option Tok) := if t.ptr.isSome then t.entries ++ [t.ptr] else []

theorem freeTable_eq (t : Table) (w : World) : freeTable t w = freeAll (tableOrder t) w := by
  unfold freeTable tableOrder
  cases h : t.ptr with
  | none => simp [freeAll]
  | some p => simp [freeAll_append, freeAll]

def insOrder : List (Option Tok) → List (Option Tok) → List (Option Tok)
  | s :: ss, e :: es => s :: e :: insOrder ss es
  | s :: ss, [] => s :: insOrder ss []
  | [], es => es

theorem freeIns_eq (ss es : List (Option Tok)) (w : World) : freeIns ss es w = freeAll (insOrder ss es) w := by
  induction ss generalizing es w with
  | nil => simp [freeIns, insOrder]
  | cons s ss ih =>
    cases es with
    | nil => simp [freeIns, insOrder, freeAll, ih]
    | cons e es => simp [freeIns, insOrder, freeAll, ih]

@[simp] theorem ptrs_nil : ptrs [] = [] := rfl
@[simp] theorem ptrs_cons_none (l : List (Option Tok)) : ptrs (none :: l) = ptrs l := rfl
@[simp] theorem ptrs_cons_some (t : Tok) (l : List (Option Tok)) : ptrs (some t :: l) = t :: ptrs l := rfl

theorem count_ptrs_insOrder (ss es : List (Option Tok)) (u : Tok) :
    (ptrs (insOrder ss es)).count u = (ptrs ss).count u + (ptrs es).count u := by
  induction ss generalizing es with
  | nil => simp [insOrder]
  | cons s ss ih =>
    cases es with
    | nil =>
      have := ih []
      cases s <;> simp_all [insOrder, List.count_cons] <;> omega
    | cons e es =>
      have := ih es
      cases s <;> cases e <;> simp_all [insOrder, List.count_cons] <;> omega

def extraOrder : ModExtra → List (Option Tok)
  | .none => []
  | .flat p => [some p]
  | .med p v wv => tableOrder v ++ tableOrder wv ++ [some p]

theorem releaseModExtra_eq (e : ModExtra) (w : World) : releaseModExtra e w = freeAll (extraOrder e) w := by
  cases e with
  | none => rfl
  | flat p => rfl
  | med p v wv => simp [releaseModExtra, extraOrder, freeTable_eq, freeAll_append, freeAll]

/-- release order of the module part of xmp_release_module -/
def moduleOrder (m : Module) : List (Option Tok) :=
  extraOrder m.extra ++ tableOrder m.xxt ++ tableOrder m.xxp
    ++ (if m.xxi.isSome then insOrder m.subs m.insExtras ++ [m.xxi] else [])
    ++ tableOrder m.xxs ++ [m.xtra, m.midi] ++ tableOrder m.scanCnt ++ [m.scan, m.comment, m.dirname, m.basename]

/-- release order of xmp_end_player -/
def playerOrder (p : Player) : List (Option Tok) :=
  p.chanExtra ++ p.paula ++ [p.voiceArray, p.virtChannel, p.xcData, p.flowLoop, p.buffer, p.buf32]

theorem endPlayer_eq (c : Ctx) (w : World) (hp : c.state = .playing) (hv : c.player.voiceArray.isSome ∨ c.player.paula = []) :
    endPlayer c w = ({ state := .loaded, player := { maxvoc := 0, virtChannels := 0 } }, freeAll (playerOrder c.player) w) := by
  unfold endPlayer
  have hne : ¬ (c.player.voiceArray = none ∧ ¬ c.player.paula = []) := by
    rcases hv with h | h
    · cases hva : c.player.voiceArray <;> simp_all
    · simp [h]
  simp [hp, virtOff, mixerOff, playerOrder, freeAll_append, freeAll, hne]

theorem releaseModule_world (c : MCtx) (w : World) :
    (releaseModule c w).2 = freeAll (moduleOrder c.module) (endPlayer c.toCtx w).2 := by
  unfold releaseModule moduleOrder
  cases hx : c.module.xxi <;>
    simp [releaseModExtra_eq, freeTable_eq, freeIns_eq, freeAll_append, freeAll, hx]



theorem ptrs_all_none (l : List (Option Tok)) (h : l.all Option.isNone = true) : ptrs l = [] := by
  induction l with
  | nil => rfl
  | cons a l ih =>
    cases a with
    | none =>
      simp only [List.all_cons, Option.isNone_none, Bool.true_and] at h
      simpa using ih h
    | some t => simp at h

theorem count_tableOrder (t : Table) (h : t.wf = true) (u : Tok) :
    (ptrs (tableOrder t)).count u = t.toks.count u := by
  unfold tableOrder Table.toks
  cases hp : t.ptr with
  | none =>
    have : t.entries.all Option.isNone = true := by simpa [Table.wf, hp] using h
    simp [ptrs_all_none _ this]
  | some p =>
    simp [ptrs_append, List.count_append, List.count_cons]

theorem count_extraOrder (e : ModExtra) (h : e.wf = true) (u : Tok) :
    (ptrs (extraOrder e)).count u = e.toks.count u := by
  cases e with
  | none => simp [extraOrder, ModExtra.toks]
  | flat p => simp [extraOrder, ModExtra.toks]
  | med p v wv =>
    simp only [ModExtra.wf, Bool.and_eq_true] at h
    have h1 := count_tableOrder v h.1 u
    have h2 := count_tableOrder wv h.2 u
    simp only [extraOrder, ModExtra.toks, ptrs_append, List.count_append, List.count_cons, h1, h2, ptrs_cons_some, ptrs_nil]
    simp

theorem count_playerOrder (p : Player) (u : Tok) : (ptrs (playerOrder p)).count u = p.toks.count u := by
  unfold playerOrder Player.toks
  simp only [ptrs_append, List.count_append]
  cases p.voiceArray <;> cases p.virtChannel <;> cases p.xcData <;> cases p.flowLoop <;> cases p.buffer <;> cases p.buf32 <;>
    simp [List.count_cons] <;> omega

theorem count_moduleOrder (m : Module) (h : m.wf = true) (u : Tok) :
    (ptrs (moduleOrder m)).count u = m.toks.count u := by
  simp only [Module.wf, Bool.and_eq_true, Bool.or_eq_true] at h
  obtain ⟨⟨⟨⟨⟨h1, h2⟩, h3⟩, h4⟩, h5⟩, h6⟩ := h
  have e1 := count_tableOrder m.xxt h1 u
  have e2 := count_tableOrder m.xxp h2 u
  have e3 := count_tableOrder m.xxs h3 u
  have e4 := count_tableOrder m.scanCnt h4 u
  have e5 := count_extraOrder m.extra h5 u
  have e6 := count_ptrs_insOrder m.subs m.insExtras u
  unfold moduleOrder Module.toks
  simp only [ptrs_append, List.count_append, e1, e2, e3, e4, e5]
  cases hx : m.xxi with
  | none =>
    have hall : (m.subs ++ m.insExtras).all Option.isNone = true := by simpa [hx] using h6
    have := ptrs_all_none _ hall
    rw [ptrs_append] at this
    have hs : ptrs m.subs = [] := List.append_eq_nil_iff.mp this |>.1
    have he : ptrs m.insExtras = [] := List.append_eq_nil_iff.mp this |>.2
    cases m.xtra <;> cases m.midi <;> cases m.scan <;> cases m.comment <;> cases m.dirname <;> cases m.basename <;>
      simp [List.count_cons, hs, he] <;> omega
  | some x =>
    cases m.xtra <;> cases m.midi <;> cases m.scan <;> cases m.comment <;> cases m.dirname <;> cases m.basename <;>
      simp [ptrs_append, List.count_append, e6, List.count_cons] <;> omega



theorem release_total (c : MCtx) (w : World) (hwf : c.module.wf = true)
    (hpl : c.state = .playing → (c.player.voiceArray.isSome ∨ c.player.paula = []))
    (hnp : c.state ≠ .playing → c.player.toks = [])
    (hown : Sub c.toks w.live) :
    let r := releaseModule c w
    r.2.bad = w.bad ∧ (∀ u, r.2.live.count u + c.toks.count u = w.live.count u)
      ∧ r.1.module = {} ∧ r.1.state = .unloaded ∧ r.1.player.toks = [] ∧ SameEnv w r.2 := by
  intro r
  have hr2 : r.2 = freeAll (moduleOrder c.module) (endPlayer c.toCtx w).2 := releaseModule_world c w
  have hr1 : r.1 = { state := .unloaded, player := (endPlayer c.toCtx w).1.player, module := {} } := rfl
  by_cases hp : c.state = .playing
  · have he := endPlayer_eq c.toCtx w hp (hpl hp)
    rw [he] at hr2 hr1
    simp only at hr2 hr1
    rw [← freeAll_append] at hr2
    have hcount : ∀ u, (ptrs (playerOrder c.player ++ moduleOrder c.module)).count u = c.toks.count u := by
      intro u
      rw [ptrs_append, List.count_append, count_playerOrder, count_moduleOrder _ hwf]
      simp [MCtx.toks, List.count_append]
    have hsub : Sub (ptrs (playerOrder c.player ++ moduleOrder c.module)) w.live := by
      intro u; rw [hcount u]; exact hown u
    obtain ⟨a, _, _, d, e⟩ := freeAll_spec _ w hsub
    rw [hr2, hr1]
    refine ⟨a, ?_, rfl, rfl, ?_, d⟩
    · intro u; rw [← hcount u]; exact e u
    · simp [Player.toks]
  · have he : endPlayer c.toCtx w = (c.toCtx, w) := by simp [endPlayer, hp]
    rw [he] at hr2 hr1
    simp only at hr2 hr1
    have hpt := hnp hp
    have hcount : ∀ u, (ptrs (moduleOrder c.module)).count u = c.toks.count u := by
      intro u
      rw [count_moduleOrder _ hwf]
      simp [MCtx.toks, hpt]
    have hsub : Sub (ptrs (moduleOrder c.module)) w.live := by
      intro u; rw [hcount u]; exact hown u
    obtain ⟨a, _, _, d, e⟩ := freeAll_spec _ w hsub
    rw [hr2, hr1]
    refine ⟨a, ?_, rfl, rfl, hpt, d⟩
    intro u; rw [← hcount u]; exact e u



/-- the live heap is exactly the frame `B` plus the blocks the player fields point to -/
def Owns (p : Player) (w : World) (B : List Tok) : Prop := ∀ u, w.live.count u = B.count u + p.toks.count u

theorem free_fields (p p' : Player) (w : World) (B : List Tok) (fs : List (Option Tok)) (hO : Owns p w B)
    (hsplit : ∀ u, p.toks.count u = p'.toks.count u + (ptrs fs).count u) :
    Owns p' (freeAll fs w) B ∧ (freeAll fs w).bad = w.bad := by
  have hsub : Sub (ptrs fs) w.live := by
    intro u; have := hO u; have := hsplit u; omega
  obtain ⟨a, _, _, _, e⟩ := freeAll_spec fs w hsub
  refine ⟨?_, a⟩
  intro u
  have := e u; have := hO u; have := hsplit u
  omega

theorem ptrs_map_none (l : List (Option Tok)) : ptrs (l.map fun _ => none) = [] := by
  induction l with
  | nil => rfl
  | cons a l ih => simpa using ih

/-- concretisation of the abstract unwinding state -/
def Rel (a : Abs) (p : Player) : Prop :=
  (a.mixer = false → p.buffer = none ∧ p.buf32 = none) ∧
  (a.virt = false → p.voiceArray = none ∧ p.virtChannel = none ∧ ptrs p.paula = []) ∧
  (a.flow = false → p.flowLoop = none) ∧
  (a.xc = false → p.xcData = none) ∧
  (a.extras = false → ptrs p.chanExtra = []) ∧
  (a.vaOk = true → (p.voiceArray.isSome ∨ p.paula = [])) ∧
  (a.xcOk = true → (p.xcData.isSome ∨ p.chanExtra = []))

theorem toks_count (p : Player) (u : Tok) :
    p.toks.count u = (ptrs [p.buffer, p.buf32, p.voiceArray]).count u + (ptrs p.paula).count u
      + (ptrs [p.virtChannel, p.flowLoop, p.xcData]).count u + (ptrs p.chanExtra).count u := by
  simp [Player.toks, List.count_append]
  omega

theorem doAction_step (act : Action) (a a' : Abs) (p : Player) (w : World) (B : List Tok)
    (hstep : absStep act a = some a') (hR : Rel a p) (hO : Owns p w B) :
    Rel a' (doAction act p w).1 ∧ Owns (doAction act p w).1 (doAction act p w).2 B ∧ (doAction act p w).2.bad = w.bad := by
  obtain ⟨r1, r2, r3, r4, r5, r6, r7⟩ := hR
  cases act with
  | unknown => simp [absStep] at hstep
  | mixerOff =>
    simp only [absStep, Option.some.injEq] at hstep
    subst hstep
    have hw : (doAction .mixerOff p w).2 = freeAll [p.buffer, p.buf32] w := rfl
    have hp : (doAction .mixerOff p w).1 = { p with buffer := none, buf32 := none } := rfl
    rw [hw, hp]
    have := free_fields p { p with buffer := none, buf32 := none } w B [p.buffer, p.buf32] hO (by
      intro u; rw [toks_count, toks_count]
      cases p.buffer <;> cases p.buf32 <;> cases p.voiceArray <;> simp [List.count_cons] <;> omega)
    refine ⟨⟨?_, ?_, ?_, ?_, ?_, ?_, ?_⟩, this.1, this.2⟩ <;> simp_all
  | flowLoop =>
    simp only [absStep, Option.some.injEq] at hstep
    subst hstep
    have hw : (doAction .flowLoop p w).2 = freeAll [p.flowLoop] w := rfl
    have hp : (doAction .flowLoop p w).1 = { p with flowLoop := none } := rfl
    rw [hw, hp]
    have := free_fields p { p with flowLoop := none } w B [p.flowLoop] hO (by
      intro u; rw [toks_count, toks_count]
      cases p.flowLoop <;> cases p.virtChannel <;> cases p.xcData <;> simp [List.count_cons] <;> omega)
    refine ⟨⟨?_, ?_, ?_, ?_, ?_, ?_, ?_⟩, this.1, this.2⟩ <;> simp_all
  | xcData =>
    simp only [absStep] at hstep
    split at hstep
    · simp at hstep
    · rename_i hex
      simp only [Option.some.injEq] at hstep
      subst hstep
      have hex' : a.extras = false := by simpa using hex
      have hce := r5 hex'
      have hw : (doAction .xcData p w).2 = freeAll [p.xcData] w := rfl
      have hp : (doAction .xcData p w).1 = { p with xcData := none, chanExtra := [] } := rfl
      rw [hw, hp]
      have := free_fields p { p with xcData := none, chanExtra := [] } w B [p.xcData] hO (by
        intro u; rw [toks_count, toks_count]
        cases p.flowLoop <;> cases p.virtChannel <;> cases p.xcData <;> simp [List.count_cons, hce] <;> omega)
      refine ⟨⟨?_, ?_, ?_, ?_, ?_, ?_, ?_⟩, this.1, this.2⟩ <;> simp_all
  | virtOff =>
    simp only [absStep] at hstep
    split at hstep
    · rename_i hva
      simp only [Option.some.injEq] at hstep
      subst hstep
      simp only [Bool.and_eq_true, Bool.not_eq_true'] at hva
      have hok := r6 hva.1
      have hce := r5 hva.2
      have hne : ¬ (p.voiceArray = none ∧ ¬ p.paula = []) := by
        rcases hok with h | h
        · cases hv : p.voiceArray <;> simp_all
        · simp [h]
      have hw : (doAction .virtOff p w).2 = freeAll (p.paula ++ [p.voiceArray, p.virtChannel]) w := by
        simp [doAction, virtOff, hne, freeAll_append, freeAll]
      have hp : (doAction .virtOff p w).1 =
          { p with voiceArray := none, paula := [], virtChannel := none, maxvoc := 0, virtChannels := 0, chanExtra := [] } := rfl
      rw [hw, hp]
      have := free_fields p { p with voiceArray := none, paula := [], virtChannel := none, maxvoc := 0, virtChannels := 0, chanExtra := [] }
        w B (p.paula ++ [p.voiceArray, p.virtChannel]) hO (by
        intro u; rw [toks_count, toks_count, ptrs_append, List.count_append]
        cases p.flowLoop <;> cases p.virtChannel <;> cases p.xcData <;> cases p.buffer <;> cases p.buf32 <;>
          cases p.voiceArray <;> simp [List.count_cons, hce] <;> omega)
      refine ⟨⟨?_, ?_, ?_, ?_, ?_, ?_, ?_⟩, this.1, this.2⟩ <;> simp_all
    · simp at hstep
  | chanExtras =>
    simp only [absStep] at hstep
    split at hstep
    · rename_i hxc
      simp only [Option.some.injEq] at hstep
      subst hstep
      have hok := r7 hxc
      have hne : ¬ (p.xcData = none ∧ ¬ p.chanExtra = []) := by
        rcases hok with h | h
        · cases hv : p.xcData <;> simp_all
        · simp [h]
      have hw : (doAction .chanExtras p w).2 = freeAll p.chanExtra w := by
        simp [doAction, hne]
      have hp : (doAction .chanExtras p w).1 = { p with chanExtra := p.chanExtra.map fun _ => none } := rfl
      rw [hw, hp]
      have := free_fields p { p with chanExtra := p.chanExtra.map fun _ => none } w B p.chanExtra hO (by
        intro u; rw [toks_count, toks_count]
        simp [ptrs_map_none])
      refine ⟨⟨?_, ?_, ?_, ?_, ?_, ?_, ?_⟩, this.1, this.2⟩ <;> simp_all [ptrs_map_none]
    · simp at hstep



theorem doActions_run (l : List Action) : ∀ (a f : Abs) (p : Player) (w : World) (B : List Tok),
    absRun l a = some f → Rel a p → Owns p w B →
    Rel f (doActions l p w).1 ∧ Owns (doActions l p w).1 (doActions l p w).2 B ∧ (doActions l p w).2.bad = w.bad := by
  induction l with
  | nil =>
    intro a f p w B h hR hO
    simp only [absRun, Option.some.injEq] at h
    subst h
    exact ⟨hR, hO, rfl⟩
  | cons act l ih =>
    intro a f p w B h hR hO
    simp only [absRun] at h
    cases hs : absStep act a with
    | none => simp [hs] at h
    | some a' =>
      simp only [hs] at h
      obtain ⟨h1, h2, h3⟩ := doAction_step act a a' p w B hs hR hO
      obtain ⟨g1, g2, g3⟩ := ih a' f _ _ B h h1 h2
      refine ⟨g1, g2, ?_⟩
      simp only [doActions]
      rw [g3, h3]

theorem ptrs_replicate_none (n : Nat) : ptrs (List.replicate n none) = [] := by
  induction n with
  | zero => rfl
  | succ n ih => simpa [List.replicate_succ] using ih

theorem allocLoop_spec (k : Kind) : ∀ (n i : Nat) (w : World),
    (allocLoop k n i w).2.2.bad = w.bad ∧
    ∀ u, (allocLoop k n i w).2.2.live.count u = w.live.count u + (ptrs (allocLoop k n i w).1).count u := by
  intro n
  induction n with
  | zero => intro i w; simp [allocLoop]
  | succ n ih =>
    intro i w
    unfold allocLoop
    rcases alloc_cases w ⟨k, i⟩ with ha | ha <;> rw [ha]
    · simp [ptrs_replicate_none]
    · obtain ⟨b, c⟩ := ih (i + 1) { w with oracle := w.oracle.tail, nalloc := w.nalloc + 1, live := ⟨k, i⟩ :: w.live }
      refine ⟨by simpa using b, ?_⟩
      intro u
      have := c u
      simp only [ptrs_cons_some, List.count_cons] at this ⊢
      omega

/-- a released player owns nothing -/
theorem released_toks (f : Abs) (p : Player) (hf : f.released = true) (hR : Rel f p) : p.toks = [] := by
  simp only [Abs.released, Bool.and_eq_true, Bool.not_eq_true'] at hf
  obtain ⟨⟨⟨⟨m, v⟩, fl⟩, x⟩, e⟩ := hf
  obtain ⟨r1, r2, r3, r4, r5, _, _⟩ := hR
  obtain ⟨a1, a2⟩ := r1 m
  obtain ⟨b1, b2, b3⟩ := r2 v
  simp [Player.toks, a1, a2, b1, b2, b3, r3 fl, r4 x, r5 e]

/-- failure exit: with a sound table everything is released and the code is negative -/
theorem startFail_spec (cfg : StartCfg) (site : Site) (hs : cfg.soundAt site = true) (code : Int) (hc : code < 0)
    (c : Ctx) (p : Player) (w : World) (B : List Tok) (hR : Rel site.entry p) (hO : Owns p w B) :
    let r := startFail cfg site code c p w
    r.1 < 0 ∧ r.2.2.bad = w.bad ∧ r.2.1.state = c.state ∧ r.2.1.player.toks = [] ∧
      (∀ u, r.2.2.live.count u = B.count u) := by
  simp only [StartCfg.soundAt, Bool.and_eq_true] at hs
  obtain ⟨hneg, hrun⟩ := hs
  cases hf : absRun (cfg.cleanup site) site.entry with
  | none => simp [hf] at hrun
  | some f =>
    simp only [hf] at hrun
    obtain ⟨g1, g2, g3⟩ := doActions_run _ _ f p w B hf hR hO
    have ht := released_toks f _ hrun g1
    simp only [startFail, hneg, if_true]
    refine ⟨hc, g3, trivial, ht, ?_⟩
    intro u
    have := g2 u
    simp only [ht, List.count_nil, Nat.add_zero] at this
    exact this



theorem owns_empty (w : World) : Owns {} w w.live := by
  intro u; simp [Player.toks]

theorem alloc_owns (p p' : Player) (w : World) (B : List Tok) (t : Tok) (hO : Owns p w B)
    (h : ∀ u, p'.toks.count u = p.toks.count u + [t].count u) :
    Owns p' { w with oracle := w.oracle.tail, nalloc := w.nalloc + 1, live := t :: w.live } B := by
  intro u
  have := hO u; have := h u
  simp only [List.count_cons, List.count_nil] at *
  omega

theorem toks_count' (p : Player) (u : Tok) :
    p.toks.count u = (ptrs [p.buffer]).count u + (ptrs [p.buf32]).count u + (ptrs [p.voiceArray]).count u
      + (ptrs p.paula).count u + (ptrs [p.virtChannel]).count u + (ptrs [p.flowLoop]).count u
      + (ptrs [p.xcData]).count u + (ptrs p.chanExtra).count u := by
  rw [toks_count]
  cases p.buffer <;> cases p.buf32 <;> cases p.voiceArray <;> cases p.virtChannel <;> cases p.flowLoop <;> cases p.xcData <;>
    simp [List.count_cons] <;> omega

/-- a player that owns nothing has NULL pointers everywhere (counts and table lengths may be stale) -/
theorem toks_nil (p : Player) (h : p.toks = []) :
    p.buffer = none ∧ p.buf32 = none ∧ p.voiceArray = none ∧ p.virtChannel = none ∧ p.flowLoop = none ∧
    p.xcData = none ∧ ptrs p.paula = [] ∧ ptrs p.chanExtra = [] := by
  unfold Player.toks at h
  simp only [List.append_eq_nil_iff] at h
  obtain ⟨⟨⟨h1, h2⟩, h3⟩, h4⟩ := h
  cases hb : p.buffer <;> cases hb2 : p.buf32 <;> cases hv : p.voiceArray <;> cases hc : p.virtChannel <;>
    cases hf : p.flowLoop <;> cases hx : p.xcData <;> simp_all

theorem owns_nil (p : Player) (w : World) (h : p.toks = []) : Owns p w w.live := by
  intro u; simp [h]

theorem mixerOn_spec (p : Player) (w : World) (B : List Tok) (hO : Owns p w B)
    (hb : p.buffer = none) (hb2 : p.buf32 = none) :
    let r := mixerOn p w
    r.2.2.bad = w.bad ∧ Owns r.2.1 r.2.2 B ∧
    (r.1 < 0 → r.2.1 = p) ∧
    (¬ r.1 < 0 → r.2.1 = { p with buffer := some ⟨.mixBuffer, 0⟩, buf32 := some ⟨.mixBuf32, 0⟩ }) := by
  have hpe : ({ p with buffer := none, buf32 := none } : Player) = p := by
    cases p; simp_all
  have hpe1 : ({ p with buffer := none } : Player) = p := by
    cases p; simp_all
  unfold mixerOn
  rcases alloc_cases w ⟨.mixBuffer, 0⟩ with ha | ha <;> rw [ha]
  · refine ⟨rfl, ?_, ?_, ?_⟩
    · simp only [hpe1]; exact hO
    · intro _; exact hpe1
    · intro h; simp at h
  · simp only
    generalize hw1 : ({ w with oracle := w.oracle.tail, nalloc := w.nalloc + 1, live := ⟨.mixBuffer, 0⟩ :: w.live } : World) = w1
    have hl1 : w1.live = ⟨.mixBuffer, 0⟩ :: w.live := by subst hw1; rfl
    have hb1 : w1.bad = w.bad := by subst hw1; rfl
    rcases alloc_cases w1 ⟨.mixBuf32, 0⟩ with hc2 | hc2 <;> rw [hc2]
    · refine ⟨?_, ?_, ?_, ?_⟩
      · simp [World.free, hl1, hb1]
      · simp only [hpe]; intro u; have := hO u; simp [World.free, hl1]; exact this
      · intro _; exact hpe
      · intro h; simp at h
    · refine ⟨by simp [hb1], ?_, ?_, ?_⟩
      · intro u; have := hO u
        rw [toks_count'] at this ⊢
        simp [hl1, List.count_cons, hb, hb2] at this ⊢; omega
      · intro h; simp at h
      · intro _; rfl



theorem ptrs_ite_chan (b : Bool) (n : Nat) : ptrs (if b then List.replicate n none else []) = [] := by
  cases b <;> simp [ptrs_replicate_none]

theorem virtOn_spec (pp : StartParams) (p : Player) (w : World) (B : List Tok) (hO : Owns p w B)
    (hva : p.voiceArray = none) (hvc : p.virtChannel = none) (hpa : ptrs p.paula = []) (hce : ptrs p.chanExtra = []) :
    let r := virtOn pp p w
    r.2.2.bad = w.bad ∧ Owns r.2.1 r.2.2 B ∧ r.2.1.buffer = p.buffer ∧ r.2.1.buf32 = p.buf32 ∧
      r.2.1.flowLoop = p.flowLoop ∧ r.2.1.xcData = p.xcData ∧ ptrs r.2.1.chanExtra = [] ∧
      (r.1 < 0 → r.2.1.voiceArray = none ∧ r.2.1.virtChannel = none ∧ ptrs r.2.1.paula = []) ∧
      (¬ r.1 < 0 → r.2.1.voiceArray.isSome = true) := by
  unfold virtOn
  generalize hp1 : virtInit pp p = p1
  have f1 : p1.buffer = p.buffer ∧ p1.buf32 = p.buf32 ∧ p1.flowLoop = p.flowLoop ∧ p1.xcData = p.xcData ∧
      p1.voiceArray = none ∧ p1.virtChannel = none ∧ ptrs p1.paula = [] ∧ ptrs p1.chanExtra = [] := by
    subst hp1; simp [virtInit, hva, hvc, ptrs_replicate_none, ptrs_ite_chan]
  obtain ⟨e1, e2, e3, e4, e5, e6, e7, e8⟩ := f1
  have hO1 : Owns p1 w B := by
    intro u; have := hO u
    rw [toks_count'] at this ⊢
    simp only [e1, e2, e3, e4, e5, e6, e7, e8, hva, hvc, hpa, hce] at this ⊢
    exact this
  unfold virtAlloc
  rcases alloc_cases w ⟨.voiceArray, 0⟩ with ha | ha <;> rw [ha]
  · simp only
    refine ⟨trivial, ?_, e1, e2, e3, e4, e8, ?_, ?_⟩
    · intro u; have := hO1 u
      rw [toks_count'] at this ⊢
      simpa [e5] using this
    · intro _; exact ⟨trivial, e6, e7⟩
    · intro h; simp at h
  · simp only
    generalize hw1 : ({ w with oracle := w.oracle.tail, nalloc := w.nalloc + 1, live := ⟨.voiceArray, 0⟩ :: w.live } : World) = w1
    have hl1 : ∀ u, w1.live.count u = w.live.count u + [(⟨.voiceArray, 0⟩ : Tok)].count u := by
      subst hw1; intro u; simp [List.count_cons]
    have hb1 : w1.bad = w.bad := by subst hw1; rfl
    generalize hr : (if pp.amiga = true then allocLoop .paula pp.maxvoc 0 w1 else (List.replicate pp.maxvoc none, true, w1)) = r
    have hrs : r.2.2.bad = w1.bad ∧ ∀ u, r.2.2.live.count u = w1.live.count u + (ptrs r.1).count u := by
      subst hr
      cases pp.amiga
      · simp [ptrs_replicate_none]
      · simpa using allocLoop_spec .paula pp.maxvoc 0 w1
    obtain ⟨hrb, hrl⟩ := hrs
    -- the player that owns the voice array and the Paula states
    have hO2 : Owns { p1 with voiceArray := some ⟨.voiceArray, 0⟩, paula := r.1 } r.2.2 B := by
      intro u
      have := hO1 u; have := hrl u; have := hl1 u
      rw [toks_count'] at *
      simp only [e5, e7] at *
      simp [List.count_cons] at *
      omega
    cases hok : r.2.1
    · -- err2 after a failed Paula allocation
      simp only [Bool.false_eq_true, if_false]
      have := free_fields _ { p1 with voiceArray := none } r.2.2 B (r.1 ++ [some ⟨.voiceArray, 0⟩]) hO2 (by
        intro u; rw [toks_count', toks_count', ptrs_append, List.count_append]
        simp [e7, List.count_cons]; omega)
      rw [freeAll_append] at this
      refine ⟨by rw [show ((freeAll r.1 r.2.2).free (some ⟨.voiceArray, 0⟩)) = freeAll [some ⟨.voiceArray, 0⟩] (freeAll r.1 r.2.2) from rfl, this.2, hrb, hb1],
        this.1, e1, e2, e3, e4, e8, ?_, ?_⟩
      · intro _; exact ⟨trivial, e6, e7⟩
      · intro h; simp at h
    · simp only [if_true]
      rcases alloc_cases r.2.2 ⟨.virtChannel, 0⟩ with hc | hc <;> rw [hc]
      · -- err2 after a failed virt_channel allocation
        simp only
        generalize hw3 : ({ r.2.2 with oracle := r.2.2.oracle.tail, nalloc := r.2.2.nalloc + 1 } : World) = w3
        have hO3 : Owns { p1 with voiceArray := some ⟨.voiceArray, 0⟩, paula := r.1 } w3 B := by
          subst hw3; exact hO2
        have hb3 : w3.bad = r.2.2.bad := by subst hw3; rfl
        have := free_fields _ { p1 with voiceArray := none, virtChannel := none } w3 B (r.1 ++ [some ⟨.voiceArray, 0⟩]) hO3 (by
          intro u; rw [toks_count', toks_count', ptrs_append, List.count_append]
          simp [e7, e6, List.count_cons]; omega)
        rw [freeAll_append] at this
        refine ⟨by rw [show ((freeAll r.1 w3).free (some ⟨.voiceArray, 0⟩)) = freeAll [some ⟨.voiceArray, 0⟩] (freeAll r.1 w3) from rfl, this.2, hb3, hrb, hb1],
          this.1, e1, e2, e3, e4, e8, ?_, ?_⟩
        · intro _; exact ⟨trivial, trivial, e7⟩
        · intro h; simp at h
      · simp only
        refine ⟨by simp [hrb, hb1], ?_, e1, e2, e3, e4, e8, ?_, ?_⟩
        · intro u
          have := hO2 u
          rw [toks_count'] at this ⊢
          simp [e6, List.count_cons] at this ⊢
          omega
        · intro h; simp at h
        · intro _; rfl



/-- xmp_start_player after a successful libxmp_mixer_on: `p` owns the two mixer buffers (and nothing
else), `B` is the frame -/
theorem startTail_spec (cfg : StartCfg) (hs : cfg.Sound = true) (pp : StartParams) (c : Ctx) (p : Player) (w : World)
    (B : List Tok) (hO : Owns p w B) (hva : p.voiceArray = none) (hvc : p.virtChannel = none)
    (hfl : p.flowLoop = none) (hxc : p.xcData = none) (hpa : ptrs p.paula = []) (hce : ptrs p.chanExtra = []) :
    let r := startTail cfg pp c p w
    r.2.2.bad = w.bad ∧
    (r.1 < 0 → r.2.1.state = c.state ∧ r.2.1.player.toks = [] ∧ ∀ u, r.2.2.live.count u = B.count u) ∧
    (¬ r.1 < 0 → r.1 = 0 ∧ r.2.1.state = .playing ∧ Owns r.2.1.player r.2.2 B ∧
      r.2.1.player.voiceArray.isSome = true ∧ r.2.1.player.xcData.isSome = true) := by
  simp only [StartCfg.Sound, allSites, List.all_cons, List.all_nil, Bool.and_true, Bool.and_eq_true] at hs
  obtain ⟨_, s2, s3, s4, s5⟩ := hs
  unfold startTail
  simp only
  obtain ⟨vb, vO, v1, v2, v3, v4, v5, vfail, vok⟩ := virtOn_spec pp p w B hO hva hvc hpa hce
  generalize virtOn pp p w = r2 at vb vO v1 v2 v3 v4 v5 vfail vok
  have v3' : r2.2.1.flowLoop = none := by rw [v3, hfl]
  have v4' : r2.2.1.xcData = none := by rw [v4, hxc]
  by_cases h2 : r2.1 < 0
  · simp only [h2, if_true]
    obtain ⟨f1, f2, f3⟩ := vfail h2
    have hR : Rel Site.virtOn.entry r2.2.1 := by
      simp [Rel, Site.entry, f1, f2, f3, v3', v4', v5]
    obtain ⟨a, b, c', d, e⟩ := startFail_spec cfg .virtOn s2 errInternal (by decide) c
      r2.2.1 r2.2.2 B hR vO
    refine ⟨by rw [b, vb], fun _ => ⟨c', d, e⟩, fun h => absurd a h⟩
  · simp only [h2, if_false]
    have hva' := vok h2
    rcases alloc_cases r2.2.2 ⟨.flowLoop, 0⟩ with ha | ha <;> rw [ha] <;> simp only
    · -- f->loop fails
      have hO3 : Owns { r2.2.1 with flowLoop := none } { r2.2.2 with oracle := r2.2.2.oracle.tail, nalloc := r2.2.2.nalloc + 1 } B := by
        intro u; have := vO u; rw [toks_count'] at this ⊢; simpa [v3'] using this
      have hR : Rel Site.flowLoop.entry { r2.2.1 with flowLoop := none } := by
        simp [Rel, Site.entry, v4', v5, hva']
      obtain ⟨a, b, c', d, e⟩ := startFail_spec cfg .flowLoop s3 errSystem (by decide) c
        _ _ B hR hO3
      refine ⟨by rw [b]; simp [vb], fun _ => ⟨c', d, e⟩, fun h => absurd a h⟩
    · have hO3 : Owns { r2.2.1 with flowLoop := some ⟨.flowLoop, 0⟩ }
          { r2.2.2 with oracle := r2.2.2.oracle.tail, nalloc := r2.2.2.nalloc + 1, live := ⟨.flowLoop, 0⟩ :: r2.2.2.live } B := by
        intro u; have := vO u; rw [toks_count'] at this ⊢
        simp [v3', List.count_cons] at this ⊢; omega
      generalize hw3 : ({ r2.2.2 with oracle := r2.2.2.oracle.tail, nalloc := r2.2.2.nalloc + 1, live := ⟨.flowLoop, 0⟩ :: r2.2.2.live } : World) = w3 at hO3 ⊢
      have hb3 : w3.bad = w.bad := by subst hw3; simp [vb]
      have g1 : r2.2.1.xcData = none := v4'
      have g2 : ptrs r2.2.1.chanExtra = [] := v5
      have g3 : r2.2.1.voiceArray.isSome = true := hva'
      rcases alloc_cases w3 ⟨.xcData, 0⟩ with hx | hx <;> rw [hx] <;> simp only
      · -- xc_data fails
        have hO4 : Owns { r2.2.1 with flowLoop := some ⟨.flowLoop, 0⟩, xcData := none }
            { w3 with oracle := w3.oracle.tail, nalloc := w3.nalloc + 1 } B := by
          intro u; have := hO3 u; rw [toks_count'] at this ⊢; simpa [g1] using this
        have hR : Rel Site.xcData.entry { r2.2.1 with flowLoop := some ⟨.flowLoop, 0⟩, xcData := none } := by
          simp [Rel, Site.entry, g2, g3]
        obtain ⟨a, b, c', d, e⟩ := startFail_spec cfg .xcData s4 errSystem (by decide) c
          _ _ B hR hO4
        refine ⟨by rw [b]; simp [hb3], fun _ => ⟨c', d, e⟩, fun h => absurd a h⟩
      · have hO4 : Owns { r2.2.1 with flowLoop := some ⟨.flowLoop, 0⟩, xcData := some ⟨.xcData, 0⟩ }
            { w3 with oracle := w3.oracle.tail, nalloc := w3.nalloc + 1, live := ⟨.xcData, 0⟩ :: w3.live } B := by
          intro u; have := hO3 u; rw [toks_count'] at this ⊢
          simp [g1, List.count_cons] at this ⊢; omega
        generalize hw4 : ({ w3 with oracle := w3.oracle.tail, nalloc := w3.nalloc + 1, live := ⟨.xcData, 0⟩ :: w3.live } : World) = w4 at hO4 ⊢
        have hb4 : w4.bad = w.bad := by subst hw4; simp [hb3]
        generalize hr : (if pp.extras = true then allocLoop .chanExtra pp.virtch 0 w4 else (List.replicate pp.virtch none, true, w4)) = r
        have hrs : r.2.2.bad = w4.bad ∧ ∀ u, r.2.2.live.count u = w4.live.count u + (ptrs r.1).count u := by
          subst hr
          cases pp.extras
          · simp [ptrs_replicate_none]
          · simpa using allocLoop_spec .chanExtra pp.virtch 0 w4
        obtain ⟨hrb, hrl⟩ := hrs
        have hO5 : Owns { r2.2.1 with flowLoop := some ⟨.flowLoop, 0⟩, xcData := some ⟨.xcData, 0⟩, chanExtra := r.1 } r.2.2 B := by
          intro u; have := hO4 u; have := hrl u; rw [toks_count'] at *
          simp [g2] at *; omega
        cases hok : r.2.1
        · simp only [Bool.false_eq_true, if_false]
          have hR : Rel Site.chanExtras.entry
              { r2.2.1 with flowLoop := some ⟨.flowLoop, 0⟩, xcData := some ⟨.xcData, 0⟩, chanExtra := r.1 } := by
            simp [Rel, Site.entry, g3]
          obtain ⟨a, b, c', d, e⟩ := startFail_spec cfg .chanExtras s5 errSystem (by decide) c
            _ _ B hR hO5
          refine ⟨by rw [b, hrb, hb4], fun _ => ⟨c', d, e⟩, fun h => absurd a h⟩
        · simp only [if_true]
          refine ⟨by rw [hrb, hb4], fun h => by simp at h, fun _ => ⟨trivial, trivial, hO5, g3, rfl⟩⟩

/-- **xmp_start_player from any LOADED context that owns no player block** - the fresh context after a
load, or the residue of any number of failed starts (stale `maxvoc` / `virt_channels`, stale table
lengths): same guarantees as from the fresh one -/
theorem start_atomic_gen (cfg : StartCfg) (hs : cfg.Sound = true) (pp : StartParams) (c : Ctx) (w : World)
    (hst : c.state = .loaded) (hp : c.player.toks = []) :
    let r := startPlayer cfg pp true c w
    r.2.2.bad = w.bad ∧
    (r.1 < 0 → r.2.1.state = .loaded ∧ r.2.1.player.toks = [] ∧ ∀ u, r.2.2.live.count u = w.live.count u) ∧
    (¬ r.1 < 0 → r.1 = 0 ∧ r.2.1.state = .playing ∧ Owns r.2.1.player r.2.2 w.live ∧
      r.2.1.player.voiceArray.isSome = true ∧ r.2.1.player.xcData.isSome = true) := by
  have hs' := hs
  simp only [StartCfg.Sound, allSites, List.all_cons, List.all_nil, Bool.and_true, Bool.and_eq_true] at hs'
  obtain ⟨s1, _⟩ := hs'
  obtain ⟨n1, n2, n3, n4, n5, n6, n7, n8⟩ := toks_nil _ hp
  unfold startPlayer
  simp only [Bool.not_true, Bool.false_eq_true, if_false, hst, reduceCtorEq]
  cases hsm : pp.smixOk
  · simp only [Bool.not_false, if_true]
    refine ⟨by first | rfl | trivial, fun _ => ⟨by first | exact hst | trivial, hp, fun _ => by first | rfl | trivial⟩,
      fun h => absurd (by decide : errInvalid < 0) h⟩
  simp only [Bool.not_true, Bool.false_eq_true, if_false]
  have hend : endPlayer c w = (c, w) := by
    simp [endPlayer, hst]
  rw [hend]
  simp only
  obtain ⟨mb, mO, mfail, mok⟩ := mixerOn_spec c.player w w.live (owns_nil _ _ hp) n1 n2
  generalize mixerOn c.player w = r1 at mb mO mfail mok
  by_cases h1 : r1.1 < 0
  · simp only [h1, if_true]
    have hR : Rel Site.mixerOn.entry r1.2.1 := by
      rw [mfail h1]
      simp [Rel, Site.entry, n1, n2, n3, n4, n5, n6, n7, n8]
    obtain ⟨a, b, c', d, e⟩ := startFail_spec cfg .mixerOn s1 errInternal (by decide) c
      r1.2.1 r1.2.2 w.live hR mO
    refine ⟨by rw [b, mb], fun _ => ⟨by rw [c', hst], d, e⟩, fun h => absurd a h⟩
  · simp only [h1, if_false]
    have hp1 := mok h1
    obtain ⟨tb, tf, tok⟩ := startTail_spec cfg hs pp c r1.2.1 r1.2.2 w.live mO
      (by rw [hp1]; exact n3) (by rw [hp1]; exact n4) (by rw [hp1]; exact n5) (by rw [hp1]; exact n6)
      (by rw [hp1]; exact n7) (by rw [hp1]; exact n8)
    refine ⟨by rw [tb, mb], fun h => ?_, tok⟩
    obtain ⟨t1, t2, t3⟩ := tf h
    exact ⟨by rw [t1, hst], t2, t3⟩

theorem start_atomic (cfg : StartCfg) (hs : cfg.Sound = true) (pp : StartParams) (w : World) :
    let r := startPlayer cfg pp true { state := .loaded, player := {} } w
    r.2.2.bad = w.bad ∧
    (r.1 < 0 → r.2.1.state = .loaded ∧ r.2.1.player.toks = [] ∧ ∀ u, r.2.2.live.count u = w.live.count u) ∧
    (¬ r.1 < 0 → r.1 = 0 ∧ r.2.1.state = .playing ∧ Owns r.2.1.player r.2.2 w.live) := by
  obtain ⟨a, b, c⟩ := start_atomic_gen cfg hs pp { state := .loaded, player := {} } w rfl rfl
  exact ⟨a, b, fun h => ⟨(c h).1, (c h).2.1, (c h).2.2.1⟩⟩

/-! ### reuse after a failed start, and restart while playing -/

theorem freeAll_null (l : List (Option Tok)) (w : World) (h : ptrs l = []) : freeAll l w = w := by
  induction l generalizing w with
  | nil => rfl
  | cons a l ih =>
    cases a with
    | none => simpa [freeAll, World.free] using ih w (by simpa using h)
    | some t => simp at h

/-- a release action on a player that owns nothing, when the abstract step allows it, does not touch
the world at all -/
theorem doAction_null (act : Action) (a a' : Abs) (p : Player) (w : World)
    (hstep : absStep act a = some a') (hR : Rel a p) (hp : p.toks = []) :
    (doAction act p w).2 = w ∧ (doAction act p w).1.toks = [] ∧ Rel a' (doAction act p w).1 := by
  obtain ⟨n1, n2, n3, n4, n5, n6, n7, n8⟩ := toks_nil _ hp
  have hrel := (doAction_step act a a' p w w.live hstep hR (owns_nil p w hp)).1
  refine ⟨?_, ?_, hrel⟩
  · obtain ⟨r1, r2, r3, r4, r5, r6, r7⟩ := hR
    cases act with
    | unknown => simp [absStep] at hstep
    | mixerOff => simp [doAction, mixerOff, n1, n2, World.free]
    | flowLoop => simp [doAction, n5, World.free]
    | xcData => simp [doAction, n6, World.free]
    | virtOff =>
      simp only [absStep] at hstep
      split at hstep
      · rename_i hva
        simp only [Bool.and_eq_true, Bool.not_eq_true'] at hva
        have hpa : p.paula = [] := by
          rcases r6 hva.1 with h | h
          · simp [n3] at h
          · exact h
        simp [doAction, virtOff, n3, n4, hpa, World.free, freeAll]
      · simp at hstep
    | chanExtras =>
      simp only [absStep] at hstep
      split at hstep
      · rename_i hxc
        have hce : p.chanExtra = [] := by
          rcases r7 hxc with h | h
          · simp [n6] at h
          · exact h
        simp [doAction, hce, freeAll]
      · simp at hstep
  · cases act with
    | unknown => simp [absStep] at hstep
    | mixerOff => simp [doAction, mixerOff, Player.toks, n3, n4, n5, n6, n7, n8]
    | flowLoop => simp [doAction, Player.toks, n1, n2, n3, n4, n6, n7, n8]
    | xcData => simp [doAction, Player.toks, n1, n2, n3, n4, n5, n7]
    | virtOff => simp [doAction, virtOff, Player.toks, n1, n2, n5, n6]
    | chanExtras => simp [doAction, Player.toks, n1, n2, n3, n4, n5, n6, n7, ptrs_map_none]

theorem doActions_null (l : List Action) : ∀ (a f : Abs) (p : Player) (w : World),
    absRun l a = some f → Rel a p → p.toks = [] →
    (doActions l p w).2 = w ∧ (doActions l p w).1.toks = [] := by
  induction l with
  | nil => intro a f p w _ _ hp; exact ⟨rfl, hp⟩
  | cons act l ih =>
    intro a f p w h hR hp
    simp only [absRun] at h
    cases hs : absStep act a with
    | none => simp [hs] at h
    | some a' =>
      simp only [hs] at h
      obtain ⟨h1, h2, h3⟩ := doAction_null act a a' p w hs hR hp
      obtain ⟨g1, g2⟩ := ih a' f _ (doAction act p w).2 h h3 h2
      simp only [doActions]
      exact ⟨by rw [g1, h1], g2⟩

/-- failure exit on a player that owns nothing: the world is untouched -/
theorem startFail_null (cfg : StartCfg) (site : Site) (hs : cfg.soundAt site = true) (code : Int)
    (c : Ctx) (p : Player) (w : World) (hR : Rel site.entry p) (hp : p.toks = []) :
    let r := startFail cfg site code c p w
    r.1 = code ∧ r.2.2 = w ∧ r.2.1.state = c.state ∧ r.2.1.player.toks = [] := by
  simp only [StartCfg.soundAt, Bool.and_eq_true] at hs
  obtain ⟨hneg, hrun⟩ := hs
  cases hf : absRun (cfg.cleanup site) site.entry with
  | none => simp [hf] at hrun
  | some f =>
    obtain ⟨g1, g2⟩ := doActions_null _ _ f p w hf hR hp
    simp only [startFail, hneg, if_true]
    exact ⟨trivial, g1, trivial, g2⟩

theorem startTail_ctx (cfg : StartCfg) (pp : StartParams) (st : State) (p0 q0 p : Player) (w : World) :
    startTail cfg pp { state := st, player := p0 } p w = startTail cfg pp { state := st, player := q0 } p w := rfl

theorem startTail_virtInit (cfg : StartCfg) (pp : StartParams) (c : Ctx) (p q : Player) (w : World)
    (h : virtInit pp p = virtInit pp q) : startTail cfg pp c p w = startTail cfg pp c q w := by
  unfold startTail virtOn
  rw [h]

/-- **Stale residue is invisible.**  xmp_start_player on a LOADED context that owns no player block
(the residue of failed starts: stale `maxvoc`/`virt_channels`, stale table lengths) computes exactly
what it computes on the fresh LOADED context: same return code, same world (ledger, allocator calls,
close log, descriptors - literally equal), same state; the same player when it succeeds and a player
that owns nothing when it fails. -/
theorem start_reuse (cfg : StartCfg) (hs : cfg.Sound = true) (pp : StartParams) (c : Ctx) (w : World)
    (hst : c.state = .loaded) (hp : c.player.toks = []) :
    let a := startPlayer cfg pp true c w
    let b := startPlayer cfg pp true { state := .loaded, player := {} } w
    a.1 = b.1 ∧ a.2.2 = b.2.2 ∧ a.2.1.state = b.2.1.state ∧ a.2.1.player.toks = b.2.1.player.toks ∧
      (¬ a.1 < 0 → a.2.1 = b.2.1) := by
  have hs' := hs
  simp only [StartCfg.Sound, allSites, List.all_cons, List.all_nil, Bool.and_true, Bool.and_eq_true] at hs'
  obtain ⟨s1, _⟩ := hs'
  obtain ⟨n1, n2, n3, n4, n5, n6, n7, n8⟩ := toks_nil _ hp
  obtain ⟨st, pl⟩ := c
  simp only at hst hp n1 n2 n3 n4 n5 n6 n7 n8
  subst hst
  unfold startPlayer
  simp only [Bool.not_true, Bool.false_eq_true, if_false, reduceCtorEq]
  cases hsm : pp.smixOk
  · simp only [Bool.not_false, if_true]
    exact ⟨trivial, trivial, trivial, by rw [hp]; rfl, fun h => absurd (by decide : errInvalid < 0) h⟩
  simp only [Bool.not_true, Bool.false_eq_true, if_false]
  have e1 : endPlayer { state := .loaded, player := pl } w = ({ state := .loaded, player := pl }, w) := by simp [endPlayer]
  have e2 : endPlayer { state := .loaded, player := {} } w = ({ state := .loaded, player := {} }, w) := by simp [endPlayer]
  rw [e1, e2]
  simp only
  have hRp : ∀ q : Player, q.toks = [] → Rel Site.mixerOn.entry q := by
    intro q hq
    obtain ⟨m1, m2, m3, m4, m5, m6, m7, m8⟩ := toks_nil _ hq
    simp [Rel, Site.entry, m1, m2, m3, m4, m5, m6, m7, m8]
  unfold mixerOn
  rcases alloc_cases w ⟨.mixBuffer, 0⟩ with ha | ha <;> rw [ha] <;> simp only
  · -- first buffer fails
    have hq1 : ({ pl with buffer := none } : Player).toks = [] := by
      simp [Player.toks, n2, n3, n4, n5, n6, n7, n8]
    obtain ⟨a1, a2, a3, a4⟩ := startFail_null cfg .mixerOn s1 errInternal { state := .loaded, player := pl } _
      { w with oracle := w.oracle.tail, nalloc := w.nalloc + 1 } (hRp _ hq1) hq1
    obtain ⟨b1, b2, b3, b4⟩ := startFail_null cfg .mixerOn s1 errInternal { state := .loaded, player := {} }
      ({ ({} : Player) with buffer := none }) { w with oracle := w.oracle.tail, nalloc := w.nalloc + 1 } (hRp _ rfl) rfl
    simp only [show ((-1 : Int) < 0) from by decide, if_true]
    refine ⟨by rw [a1, b1], by rw [a2, b2], by rw [a3, b3], by rw [a4, b4], fun h => ?_⟩
    rw [a1] at h
    exact absurd (by decide : errInternal < 0) h
  · generalize hw1 : ({ w with oracle := w.oracle.tail, nalloc := w.nalloc + 1, live := ⟨.mixBuffer, 0⟩ :: w.live } : World) = w1
    rcases alloc_cases w1 ⟨.mixBuf32, 0⟩ with hb | hb <;> rw [hb] <;> simp only
    · have hq1 : ({ pl with buffer := none, buf32 := none } : Player).toks = [] := by
        simp [Player.toks, n3, n4, n5, n6, n7, n8]
      obtain ⟨a1, a2, a3, a4⟩ := startFail_null cfg .mixerOn s1 errInternal { state := .loaded, player := pl } _
        (({ w1 with oracle := w1.oracle.tail, nalloc := w1.nalloc + 1 } : World).free (some ⟨.mixBuffer, 0⟩)) (hRp _ hq1) hq1
      obtain ⟨b1, b2, b3, b4⟩ := startFail_null cfg .mixerOn s1 errInternal { state := .loaded, player := {} }
        ({ ({} : Player) with buffer := none, buf32 := none })
        (({ w1 with oracle := w1.oracle.tail, nalloc := w1.nalloc + 1 } : World).free (some ⟨.mixBuffer, 0⟩)) (hRp _ rfl) rfl
      simp only [show ((-1 : Int) < 0) from by decide, if_true]
      refine ⟨by rw [a1, b1], by rw [a2, b2], by rw [a3, b3], by rw [a4, b4], fun h => ?_⟩
      rw [a1] at h
      exact absurd (by decide : errInternal < 0) h
    · simp only [show ¬ ((0 : Int) < 0) from by decide, if_false]
      have hv : ∀ pp : StartParams, virtInit pp { pl with buffer := some ⟨.mixBuffer, 0⟩, buf32 := some ⟨.mixBuf32, 0⟩ }
          = virtInit pp { ({} : Player) with buffer := some ⟨.mixBuffer, 0⟩, buf32 := some ⟨.mixBuf32, 0⟩ } := by
        intro pp
        simp [virtInit, n3, n4, n5, n6]
      rw [startTail_virtInit cfg pp _ _ _ _ (hv pp), startTail_ctx cfg pp .loaded pl {}]
      exact ⟨rfl, rfl, rfl, rfl, fun _ => rfl⟩

/-- xmp_start_player while PLAYING = xmp_end_player, then xmp_start_player on the fresh LOADED context -/
theorem startPlayer_playing (cfg : StartCfg) (pp : StartParams) (c : Ctx) (w : World) (hp : c.state = .playing)
    (hv : c.player.voiceArray.isSome ∨ c.player.paula = []) (hsm : pp.smixOk = true) :
    startPlayer cfg pp true c w
      = startPlayer cfg pp true { state := .loaded, player := {} } (freeAll (playerOrder c.player) w) := by
  unfold startPlayer
  simp only [Bool.not_true, Bool.false_eq_true, if_false, hp, hsm, reduceCtorEq]
  rw [endPlayer_eq c w hp hv]
  have e2 : ∀ w', endPlayer { state := .loaded, player := {} } w' = ({ state := .loaded, player := {} }, w') := by
    intro w'; simp [endPlayer]
  rw [e2]

/-- **xmp_start_player on a PLAYING context is atomic.**  The implicit xmp_end_player releases the old
player; a failing allocation afterwards leaves state LOADED (the valid earlier state), no player block
and a ledger that is the old one minus exactly the old player's blocks; success leaves state PLAYING and
a ledger where the old player's blocks are replaced by the new ones. -/
theorem restart_atomic (cfg : StartCfg) (hs : cfg.Sound = true) (pp : StartParams) (c : Ctx) (w : World)
    (hp : c.state = .playing) (hv : c.player.voiceArray.isSome ∨ c.player.paula = [])
    (hsm : pp.smixOk = true) (B : List Tok) (hO : Owns c.player w B) :
    let r := startPlayer cfg pp true c w
    r.2.2.bad = w.bad ∧
    (r.1 < 0 → r.2.1.state = .loaded ∧ r.2.1.player.toks = [] ∧ ∀ u, r.2.2.live.count u = B.count u) ∧
    (¬ r.1 < 0 → r.1 = 0 ∧ r.2.1.state = .playing ∧ Owns r.2.1.player r.2.2 B ∧
      r.2.1.player.voiceArray.isSome = true ∧ r.2.1.player.xcData.isSome = true) := by
  rw [startPlayer_playing cfg pp c w hp hv hsm]
  have hsub : Sub (ptrs (playerOrder c.player)) w.live := by
    intro u; rw [count_playerOrder]; have := hO u; omega
  obtain ⟨fa, _, _, _, fe⟩ := freeAll_spec (playerOrder c.player) w hsub
  have hB : ∀ u, (freeAll (playerOrder c.player) w).live.count u = B.count u := by
    intro u; have := fe u; rw [count_playerOrder] at this; have := hO u; omega
  obtain ⟨a, b, c'⟩ := start_atomic_gen cfg hs pp { state := .loaded, player := {} } (freeAll (playerOrder c.player) w) rfl rfl
  refine ⟨by rw [a, fa], fun h => ?_, fun h => ?_⟩
  · obtain ⟨b1, b2, b3⟩ := b h
    exact ⟨b1, b2, fun u => by rw [b3 u, hB u]⟩
  · obtain ⟨c1, c2, c3, c4, c5⟩ := c' h
    refine ⟨c1, c2, ?_, c4, c5⟩
    intro u; rw [c3 u, hB u]



/-- invariant of an open handle `x` in world `w` relative to a frame: `L` the other live blocks,
`F` the other open descriptors, `c0`/`k0` the final close counts of the caller's FILE / the callback,
`b0` the invalid-operation count -/
structure HInv (cb : Callbacks) (x : Hio) (w : World) (L : List Tok) (F c0 k0 b0 : Nat) : Prop where
  live : ∀ u, w.live.count u = L.count u + [x.h].count u + (ptrs [x.inner]).count u + (ptrs [x.buf]).count u
  fds : w.openFds = F + (if x.type = .file ∧ x.noclose = false then 1 else 0)
  tfile : x.type = .file → x.inner = none ∧ x.buf = none
  tcb : x.type = .cb → x.inner.isSome = true ∧ x.buf = none
  own : x.type = .file → x.noclose = false → (x.stream = .ownedFile ∨ x.stream = .tempFile)
  caller : w.closed.count .callerFile = c0
  cbk : w.closed.count .callback + (if x.type = .cb ∧ cb.hasClose = true then 1 else 0) = k0
  bad : w.bad = b0

/-- hio_close_internal under the invariant: releases inner blocks / descriptor / callback -/
theorem closeInternal_spec (cb : Callbacks) (x : Hio) (w : World) (L : List Tok) (F c0 k0 b0 : Nat)
    (h : HInv cb x w L F c0 k0 b0) :
    let w' := hioCloseInternal cb x w
    (∀ u, w'.live.count u = L.count u + [x.h].count u) ∧ w'.openFds = F ∧
    w'.closed.count .callerFile = c0 ∧ w'.closed.count .callback = k0 ∧ w'.bad = b0 := by
  obtain ⟨hl, hf, ht, hc, ho, hca, hk, hb⟩ := h
  obtain ⟨xh, xty, xnc, xst, xin, xbf⟩ := x
  simp only at hl hf ht hc ho hk
  unfold hioCloseInternal
  simp only
  cases hty : xty
  · -- file
    obtain ⟨i0, b0'⟩ := ht hty
    cases hn : xnc
    · have hs := ho hty hn
      simp only [hty, hn, World.fcloseOwned, Bool.false_eq_true, if_false]
      refine ⟨?_, ?_, ?_, ?_, hb⟩
      · intro u; have := hl u; simpa [i0, b0'] using this
      · simp [hty, hn] at hf; omega
      · rcases hs with hs | hs <;> simp [hs, List.count_cons, hca]
      · simp [hty] at hk
        rcases hs with hs | hs <;> simp [hs, List.count_cons, hk]
    · simp only [hty, hn, if_true]
      refine ⟨?_, ?_, hca, ?_, hb⟩
      · intro u; have := hl u; simpa [i0, b0'] using this
      · simpa [hty, hn] using hf
      · simpa [hty] using hk
  · -- mem: free buf then the MFILE
    simp only [hty]
    have hsub : Sub (ptrs [xbf, xin]) w.live := by
      intro u; have := hl u
      cases xbf <;> cases xin <;>
        simp only [ptrs_cons_some, ptrs_cons_none, ptrs_nil, List.count_cons, List.count_nil] at this ⊢ <;> omega
    obtain ⟨a, _, _, d, e⟩ := freeAll_spec [xbf, xin] w hsub
    have hw : (w.free xbf).free xin = freeAll [xbf, xin] w := rfl
    rw [hw]
    obtain ⟨d1, d2, d3⟩ := d
    refine ⟨?_, ?_, ?_, ?_, by rw [a, hb]⟩
    · intro u; have h1 := e u; have h2 := hl u
      cases xbf <;> cases xin <;>
        simp only [ptrs_cons_some, ptrs_cons_none, ptrs_nil, List.count_cons, List.count_nil] at h1 h2 ⊢ <;> omega
    · rw [d3]; simpa [hty] using hf
    · rw [d1]; exact hca
    · rw [d1]; simpa [hty] using hk
  · -- callbacks
    obtain ⟨i0, b0'⟩ := hc hty
    cases hin : xin with
    | none => simp [hin] at i0
    | some f =>
      simp only [hty, cbclose]
      have hmem : f ∈ (if cb.hasClose = true then w.close .callback else w).live := by
        have := hl f
        cases cb.hasClose <;> simp [World.close, hin, b0', List.count_cons] at this ⊢ <;>
          exact List.count_pos_iff.mp (by omega)
      rw [free_live hmem]
      refine ⟨?_, ?_, ?_, ?_, ?_⟩
      · intro u; have := hl u
        have hp : 0 < w.live.count f := by have := hl f; simp [hin, List.count_cons] at this; omega
        cases cb.hasClose <;> simp [World.close, hin, b0', List.count_cons, List.count_erase] at this ⊢ <;>
          (by_cases hfu : f = u <;> simp_all <;> omega)
      · cases cb.hasClose <;> simpa [World.close, hty] using hf
      · cases cb.hasClose <;> simpa [World.close, List.count_cons] using hca
      · cases hh : cb.hasClose <;> simp [World.close, List.count_cons, hty, hh] at hk ⊢ <;> omega
      · cases cb.hasClose <;> simpa [World.close] using hb



theorem HInv.frame {cb : Callbacks} {x : Hio} {w w' : World} {L : List Tok} {F c0 k0 b0 : Nat}
    (h : HInv cb x w L F c0 k0 b0) (hl : w'.live = w.live) (hf : w'.openFds = w.openFds)
    (hc : w'.closed = w.closed) (hb : w'.bad = w.bad) : HInv cb x w' L F c0 k0 b0 := by
  obtain ⟨a1, a2, a3, a4, a5, a6, a7, a8⟩ := h
  exact ⟨by rw [hl]; exact a1, by rw [hf]; exact a2, a3, a4, a5, by rw [hc]; exact a6, by rw [hc]; exact a7,
    by rw [hb]; exact a8⟩

theorem reopenSeq_inv (cb : Callbacks) : ∀ (rs : List (Bool × Bool)) (x : Hio) (w : World) (L : List Tok)
    (F c0 k0 b0 : Nat), HInv cb x w L F c0 k0 b0 →
    HInv cb (reopenSeq cb rs x w).1 (reopenSeq cb rs x w).2 L F c0 k0 b0 := by
  intro rs
  induction rs with
  | nil => intro x w L F c0 k0 b0 h; exact h
  | cons r rs ih =>
    intro x w L F c0 k0 b0 h
    obtain ⟨toMem, ok⟩ := r
    unfold reopenSeq
    cases toMem
    · -- external helper: the temp FILE is open
      simp only [Bool.false_eq_true, if_false]
      generalize hw1 : ({ w with openFds := w.openFds + 1 } : World) = w1
      have h1 : HInv cb x w1 L (F + 1) c0 k0 b0 := by
        subst hw1
        obtain ⟨a1, a2, a3, a4, a5, a6, a7, a8⟩ := h
        exact ⟨a1, by simp only; omega, a3, a4, a5, a6, a7, a8⟩
      unfold hioReopenFile
      cases ok
      · simp only [Bool.not_false, if_true, Int.reduceNeg, Int.reduceLT]
        obtain ⟨a1, a2, a3, a4, a5, a6, a7, a8⟩ := h1
        refine ⟨a1, ?_, a3, a4, a5, ?_, ?_, a8⟩
        · simp only [World.fcloseOwned]; omega
        · simpa [World.fcloseOwned, List.count_cons] using a6
        · simpa [World.fcloseOwned, List.count_cons] using a7
      · simp only [Bool.not_true, Bool.false_eq_true, if_false, Int.lt_irrefl]
        obtain ⟨c1, c2, c3, c4, c5⟩ := closeInternal_spec cb x w1 L (F + 1) c0 k0 b0 h1
        apply ih
        refine ⟨?_, ?_, ?_, ?_, ?_, c3, ?_, c5⟩
        · intro u; simpa using c1 u
        · simpa using c2
        · intro _; exact ⟨rfl, rfl⟩
        · intro hh; simp at hh
        · intro _ _; exact Or.inr rfl
        · simpa using c4
    · -- internal depacker
      simp only [if_true]
      rcases alloc_cases w ⟨.depackBuf, rs.length⟩ with ha | ha <;> rw [ha]
      · exact h.frame rfl rfl rfl rfl
      · simp only
        generalize hw1 : ({ w with oracle := w.oracle.tail, nalloc := w.nalloc + 1, live := ⟨.depackBuf, rs.length⟩ :: w.live } : World) = w1
        have hl1 : w1.live = ⟨.depackBuf, rs.length⟩ :: w.live := by subst hw1; rfl
        have hback : HInv cb x (w1.free (some ⟨.depackBuf, rs.length⟩)) L F c0 k0 b0 := by
          rw [free_head w1 _ _ hl1]
          subst hw1
          exact h.frame rfl rfl rfl rfl
        cases ok
        · simpa using hback
        · simp only [Bool.not_true, Bool.false_eq_true, if_false]
          unfold hioReopenMem
          rcases alloc_cases w1 ⟨.mfile, 1⟩ with hb | hb <;> rw [hb]
          · simp only [Int.reduceNeg, Int.reduceLT, if_true]
            have : ({ w1 with oracle := w1.oracle.tail, nalloc := w1.nalloc + 1 } : World).free (some ⟨.depackBuf, rs.length⟩)
                = { (w1.free (some ⟨.depackBuf, rs.length⟩)) with oracle := w1.oracle.tail, nalloc := w1.nalloc + 1 } := by
              simp [World.free, hl1]
            rw [this]
            exact hback.frame rfl rfl rfl rfl
          · simp only [Int.lt_irrefl, if_false]
            generalize hw2 : ({ w1 with oracle := w1.oracle.tail, nalloc := w1.nalloc + 1, live := ⟨.mfile, 1⟩ :: w1.live } : World) = w2
            have h2 : HInv cb x w2 (⟨.mfile, 1⟩ :: ⟨.depackBuf, rs.length⟩ :: L) F c0 k0 b0 := by
              subst hw2; subst hw1
              obtain ⟨a1, a2, a3, a4, a5, a6, a7, a8⟩ := h
              refine ⟨?_, a2, a3, a4, a5, a6, a7, a8⟩
              intro u; have := a1 u
              simp only [List.count_cons] at this ⊢
              omega
            obtain ⟨c1, c2, c3, c4, c5⟩ := closeInternal_spec cb x w2 _ F c0 k0 b0 h2
            apply ih
            refine ⟨?_, ?_, ?_, ?_, ?_, c3, ?_, c5⟩
            · intro u; have := c1 u
              simp only [ptrs_cons_some, ptrs_nil, List.count_cons, List.count_nil] at this ⊢
              omega
            · simpa using c2
            · intro hh; simp at hh
            · intro hh; simp at hh
            · intro hh; simp at hh
            · simpa using c4



/-- hio_close under the invariant: everything the handle held is released -/
theorem hioClose_spec (cb : Callbacks) (x : Hio) (w : World) (L : List Tok) (F c0 k0 b0 : Nat)
    (h : HInv cb x w L F c0 k0 b0) :
    let w' := hioClose cb x w
    (∀ u, w'.live.count u = L.count u) ∧ w'.openFds = F ∧
    w'.closed.count .callerFile = c0 ∧ w'.closed.count .callback = k0 ∧ w'.bad = b0 := by
  obtain ⟨c1, c2, c3, c4, c5⟩ := closeInternal_spec cb x w L F c0 k0 b0 h
  unfold hioClose
  generalize hioCloseInternal cb x w = w1 at c1 c2 c3 c4 c5
  have hm : x.h ∈ w1.live := by
    have := c1 x.h
    simp only [List.count_cons, List.count_nil, beq_self_eq_true, if_true] at this
    exact List.count_pos_iff.mp (by omega)
  rw [free_live hm]
  refine ⟨?_, c2, c3, c4, c5⟩
  intro u
  have := c1 u
  have hp : 0 < w1.live.count x.h := List.count_pos_iff.mpr hm
  simp only [List.count_erase, List.count_cons, List.count_nil] at this ⊢
  by_cases hxu : x.h = u
  · subst hxu; simp at this ⊢; omega
  · have : (x.h == u) = false := by simpa using hxu
    simp [this] at *
    omega

/-- every entry point establishes the invariant (or fails having closed the callback) -/
theorem openEntry_spec (e : Entry) (cb : Callbacks) (sizeOk : Bool) (w : World) :
    let r := openEntry e cb sizeOk w
    let k0 := w.closed.count .callback + (if e = .cb ∧ cb.hasClose = true then 1 else 0)
    match r.1 with
    | some x => HInv cb x r.2 w.live w.openFds (w.closed.count .callerFile) k0 w.bad
    | none => r.2.live = w.live ∧ r.2.openFds = w.openFds ∧ r.2.closed.count .callerFile = w.closed.count .callerFile ∧
        r.2.closed.count .callback = k0 ∧ r.2.bad = w.bad := by
  unfold openEntry
  cases e
  · -- path
    unfold hioOpenPath
    rcases alloc_cases w ⟨.hio, 0⟩ with ha | ha <;> rw [ha]
    · simp
    · cases sizeOk
      · simp [World.fcloseOwned, World.free, List.count_cons]
      · simp only [Bool.not_true, Bool.false_eq_true, if_false, if_true]
        refine ⟨?_, ?_, ?_, ?_, ?_, rfl, ?_, rfl⟩ <;> simp [List.count_cons]
  · -- mem
    unfold hioOpenMem
    rcases alloc_cases w ⟨.hio, 0⟩ with ha | ha <;> rw [ha]
    · simp
    · simp only
      generalize hw1 : ({ w with oracle := w.oracle.tail, nalloc := w.nalloc + 1, live := ⟨.hio, 0⟩ :: w.live } : World) = w1
      have h1 : w1.live = ⟨.hio, 0⟩ :: w.live ∧ w1.bad = w.bad ∧ w1.closed = w.closed ∧ w1.openFds = w.openFds := by
        subst hw1; simp
      obtain ⟨l1, b1, c1, f1⟩ := h1
      rcases alloc_cases w1 ⟨.mfile, 0⟩ with hb | hb <;> rw [hb]
      · simp [World.free, l1, b1, c1, f1]
      · simp only
        refine ⟨?_, ?_, ?_, ?_, ?_, ?_, ?_, ?_⟩ <;> simp [l1, b1, c1, f1, List.count_cons]
  · -- file
    unfold hioOpenFile
    rcases alloc_cases w ⟨.hio, 0⟩ with ha | ha <;> rw [ha]
    · simp
    · cases sizeOk
      · simp [World.free]
      · simp only [if_true]
        refine ⟨?_, ?_, ?_, ?_, ?_, rfl, ?_, rfl⟩ <;> simp [List.count_cons]
  · -- callbacks
    obtain ⟨valid, hasClose, szOk⟩ := cb
    unfold hioOpenCallbacks cbopen
    cases valid
    · cases hasClose <;> simp [World.close, List.count_cons]
    · simp only [Bool.not_true, Bool.false_eq_true, if_false]
      rcases alloc_cases w ⟨.cbfile, 0⟩ with ha | ha <;> rw [ha]
      · cases hasClose <;> simp [World.close, List.count_cons]
      · simp only
        generalize hw1 : ({ w with oracle := w.oracle.tail, nalloc := w.nalloc + 1, live := ⟨.cbfile, 0⟩ :: w.live } : World) = w1
        have h1 : w1.live = ⟨.cbfile, 0⟩ :: w.live ∧ w1.bad = w.bad ∧ w1.closed = w.closed ∧ w1.openFds = w.openFds := by
          subst hw1; simp
        obtain ⟨l1, b1, c1, f1⟩ := h1
        rcases alloc_cases w1 ⟨.hio, 0⟩ with hb | hb <;> rw [hb]
        · cases hasClose <;> simp [cbclose, World.close, World.free, l1, b1, c1, f1, List.count_cons]
        · cases szOk
          · cases hasClose <;>
              simp [cbclose, World.close, World.free, l1, b1, c1, f1, List.count_cons, List.erase_cons]
          · simp only [if_true]
            refine ⟨?_, ?_, ?_, ?_, ?_, ?_, ?_, ?_⟩ <;> simp [l1, b1, c1, f1, List.count_cons]
            intro u; omega

theorem stream_ownership (e : Entry) (cb : Callbacks) (sizeOk : Bool) (rs : List (Bool × Bool)) (w : World) :
    let r := streamLife e cb sizeOk rs w
    (r.2.closed.count .callerFile = w.closed.count .callerFile) ∧
    (r.2.closed.count .callback = w.closed.count .callback + (if e = .cb ∧ cb.hasClose = true then 1 else 0)) ∧
    r.2.openFds = w.openFds ∧ r.2.bad = w.bad ∧ (∀ u, r.2.live.count u = w.live.count u) := by
  have ho := openEntry_spec e cb sizeOk w
  unfold streamLife
  generalize openEntry e cb sizeOk w = r at ho
  obtain ⟨ox, w1⟩ := r
  cases ox with
  | none =>
    simp only at ho ⊢
    obtain ⟨a, b, c, d, f⟩ := ho
    exact ⟨c, d, b, f, fun u => by rw [a]⟩
  | some x =>
    simp only at ho ⊢
    have hi := reopenSeq_inv cb rs x w1 _ _ _ _ _ ho
    obtain ⟨c1, c2, c3, c4, c5⟩ := hioClose_spec cb _ _ _ _ _ _ _ hi
    exact ⟨c3, c4, c2, c5, c1⟩


end Xmp.Resource
