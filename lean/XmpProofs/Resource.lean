import XmpModel.Resource
namespace Xmp.Resource

/-- multiset inclusion of block lists -/
def Sub (a b : List Tok) : Prop := ∀ t, a.count t ≤ b.count t

/-- everything but the heap ledger is unchanged -/
def SameEnv (w w' : World) : Prop :=
  w'.closed = w.closed ∧ w'.tempFiles = w.tempFiles ∧ w'.openFds = w.openFds

theorem free_none (w : World) : w.free none = w := rfl

theorem free_live {w : World} {t : Tok} (h : t ∈ w.live) :
    (w.free (some t)) = { w with live := w.live.erase t } := by
  simp [World.free, h]

theorem count_pos_of_sub_cons {t : Tok} {ts l : List Tok} (h : Sub (t :: ts) l) : t ∈ l := by
  have := h t
  simp at this
  exact List.count_pos_iff.mp (by omega)

theorem freeAll_spec (ps : List (Option Tok)) : ∀ (w : World), Sub (ptrs ps) w.live →
    (freeAll ps w).bad = w.bad ∧ (freeAll ps w).oracle = w.oracle ∧ (freeAll ps w).nalloc = w.nalloc ∧
    SameEnv w (freeAll ps w) ∧
    ∀ u, (freeAll ps w).live.count u + (ptrs ps).count u = w.live.count u := by
  induction ps with
  | nil => intro w _; simp [freeAll, ptrs, SameEnv]
  | cons p ps ih =>
    intro w h
    cases p with
    | none =>
      have := ih w (by simpa [ptrs] using h)
      simpa [freeAll, World.free, ptrs] using this
    | some t =>
      have hm : t ∈ w.live := count_pos_of_sub_cons (ts := ptrs ps) (by simpa [ptrs] using h)
      have hsub : Sub (ptrs ps) (w.free (some t)).live := by
        intro u
        have := h u
        simp [ptrs, List.count_cons] at this
        rw [free_live hm]
        simp only [List.count_erase]
        simp [ptrs]
        split <;> simp_all <;> omega
      have := ih (w.free (some t)) hsub
      obtain ⟨a, b, c, d, e⟩ := this
      rw [free_live hm] at a b c d e
      refine ⟨?_, ?_, ?_, ?_, ?_⟩
      · simpa [freeAll, free_live hm] using a
      · simpa [freeAll, free_live hm] using b
      · simpa [freeAll, free_live hm] using c
      · simpa [freeAll, SameEnv, free_live hm] using d
      · intro u
        have e' := e u
        have hu := h u
        have hp : 0 < w.live.count t := List.count_pos_iff.mpr hm
        simp only [freeAll, free_live hm]
        simp only [ptrs, List.filterMap_cons, id, List.count_cons, List.count_erase] at e' hu ⊢
        by_cases htu : t = u
        · subst htu
          simp only [beq_self_eq_true, if_true] at e' hu ⊢
          omega
        · have : (t == u) = false := by simpa using htu
          simp only [this] at e' hu ⊢
          simp only [Bool.false_eq_true, if_false] at e' hu ⊢
          omega

/-- outcome of one allocator call -/
theorem alloc_cases (w : World) (t : Tok) :
    (w.alloc t = (none, { w with oracle := w.oracle.tail, nalloc := w.nalloc + 1 })) ∨
    (w.alloc t = (some t, { w with oracle := w.oracle.tail, nalloc := w.nalloc + 1, live := t :: w.live })) := by
  unfold World.alloc
  cases w.oracle.headD true <;> simp

theorem free_head (w : World) (t : Tok) (l : List Tok) (h : w.live = t :: l) :
    w.free (some t) = { w with live := l } := by
  simp [World.free, h]

theorem makeTempFile_spec (cfg : TempCfg) (hs : cfg.Sound = true) (sys : TempSys) (w : World) :
    let r := makeTempFile cfg sys w
    r.2.2.bad = w.bad ∧ r.2.2.closed = w.closed ∧
    ((r.1 = true ∧ r.2.1 = some ⟨.tempName, 0⟩ ∧ r.2.2.live = ⟨.tempName, 0⟩ :: w.live ∧
        r.2.2.tempFiles = w.tempFiles + 1 ∧ r.2.2.openFds = w.openFds + 1) ∨
     (r.1 = false ∧ r.2.1 = none ∧ r.2.2.live = w.live ∧ r.2.2.tempFiles = w.tempFiles ∧ r.2.2.openFds = w.openFds)) := by
  simp only [TempCfg.Sound, Bool.and_eq_true, Bool.or_eq_true, decide_eq_true_eq] at hs
  obtain ⟨⟨h1, h2⟩, h3⟩ := hs
  obtain ⟨mk, fdo⟩ := sys
  unfold makeTempFile
  rcases alloc_cases w ⟨.tempName, 0⟩ with ha | ha <;> rw [ha]
  · simp [h1, doTActions]
  · cases mk <;> cases fdo <;> rcases h3 with h3 | h3 <;>
      simp [h2, h3, doTActions, doTAction, World.free]

theorem decrunchCommand_spec (cfg : TempCfg) (hs : cfg.Sound = true) (sys : HelperSys) (x : Hio) (w : World)
    (L : List Tok) (hx : x.type = .file ∧ x.noclose = false ∧ x.h = ⟨.hio, 0⟩) (hl : w.live = x.h :: L)
    (hfd : 1 ≤ w.openFds) :
    let r := decrunchCommand cfg sys x w
    let wf := unlinkTempFile r.2.2.1 (hioClose {} r.2.1 r.2.2.2)
    wf.live = L ∧ wf.tempFiles = w.tempFiles ∧ wf.openFds = w.openFds - 1 ∧ wf.bad = w.bad := by
  obtain ⟨h, ty, nc, st, inn, bf⟩ := x
  obtain ⟨rfl, rfl, rfl⟩ := hx
  simp only at hl
  unfold decrunchCommand
  have hm := makeTempFile_spec cfg hs sys.toTempSys w
  generalize makeTempFile cfg sys.toTempSys w = r at hm
  obtain ⟨ok, name, w3⟩ := r
  obtain ⟨hb, hc, hm⟩ := hm
  simp only at hb hc hm
  rcases hm with ⟨rfl, rfl, hl3, ht, hf⟩ | ⟨rfl, rfl, hl3, ht, hf⟩
  · cases hex : sys.execOk <;> cases hsk : sys.seekOk <;> cases hsz : sys.sizeOk <;>
      simp [hioReopenFile, hioCloseInternal, World.fcloseOwned, hioClose, unlinkTempFile, World.free, hl, hl3, ht, hf, hb,
        List.erase_cons] <;> omega
  · simp [hioClose, hioCloseInternal, World.fcloseOwned, unlinkTempFile, World.free, hl, hl3, ht, hf, hb]

theorem tempfile_atomic (cfg : TempCfg) (hs : cfg.Sound = true) (sys : HelperSys) (loadRc : Int) (w : World) :
    let r := pathOpWithHelper cfg sys loadRc w
    r.2.tempFiles = w.tempFiles ∧ r.2.openFds = w.openFds ∧ r.2.bad = w.bad ∧ r.2.live = w.live := by
  unfold pathOpWithHelper hioOpenPath
  rcases alloc_cases w ⟨.hio, 0⟩ with ha | ha <;> rw [ha]
  · simp
  · simp only [Bool.not_true, Bool.false_eq_true, if_false, if_true]
    have := decrunchCommand_spec cfg hs sys { h := ⟨.hio, 0⟩, type := .file, noclose := false, stream := .ownedFile }
      { w with oracle := w.oracle.tail, nalloc := w.nalloc + 1, live := ⟨.hio, 0⟩ :: w.live, openFds := w.openFds + 1 }
      w.live ⟨rfl, rfl, rfl⟩ rfl (by simp)
    simp only at this
    obtain ⟨a, b, c, d⟩ := this
    exact ⟨b, by simpa using c, d, a⟩


theorem freeAll_append (a b : List (Option Tok)) (w : World) : freeAll (a ++ b) w = freeAll b (freeAll a w) := by
  induction a generalizing w with
  | nil => rfl
  | cons p ps ih => simp [freeAll, ih]

theorem free_eq_freeAll (p : Option Tok) (w : World) : w.free p = freeAll [p] w := rfl

theorem ptrs_append (a b : List (Option Tok)) : ptrs (a ++ b) = ptrs a ++ ptrs b := by
  simp [ptrs, List.filterMap_append]

/-- release order of one pointer table -/
def tableOrder (t : Table) : List (Option Tok) := if t.ptr.isSome then t.entries ++ [t.ptr] else []

theorem freeTable_eq (t : Table) (w : World) : freeTable t w = freeAll (tableOrder t) w := by
  unfold freeTable tableOrder
  cases h : t.ptr with
  | none => simp [freeAll]
  | some p => simp [freeAll_append, freeAll]

def insOrder : List (Option Tok) → List (Option Tok) → List (Option Tok)
  | s :: ss, e :: es => s :: e :: insOrder ss es
  | s :: ss, [] => s :: insOrder ss []
  | [], e :: es => e :: insOrder [] es
  | [], [] => []

theorem freeIns_eq (ss es : List (Option Tok)) (w : World) : freeIns ss es w = freeAll (insOrder ss es) w := by
  induction ss generalizing es w with
  | nil =>
    induction es generalizing w with
    | nil => simp [freeIns, insOrder, freeAll]
    | cons e es ih => simp [freeIns, insOrder, freeAll, ih]
  | cons s ss ih =>
    cases es with
    | nil => simp [freeIns, insOrder, freeAll, ih]
    | cons e es => simp [freeIns, insOrder, freeAll, ih]

@[simp] theorem ptrs_nil : ptrs [] = [] := rfl
@[simp] theorem ptrs_cons_none (l : List (Option Tok)) : ptrs (none :: l) = ptrs l := rfl
@[simp] theorem ptrs_cons_some (t : Tok) (l : List (Option Tok)) : ptrs (some t :: l) = t :: ptrs l := rfl

theorem count_ptrs_insOrder (ss es : List (Option Tok)) (u : Tok) :
    (ptrs (insOrder ss es)).count u = (ptrs ss).count u + (ptrs es).count u := by
  induction ss generalizing es with
  | nil =>
    induction es with
    | nil => simp [insOrder]
    | cons e es ih =>
      cases e <;> simp_all [insOrder, List.count_cons] <;> omega
  | cons s ss ih =>
    cases es with
    | nil =>
      have := ih []
      cases s <;> simp_all [insOrder, List.count_cons] <;> omega
    | cons e es =>
      have := ih es
      cases s <;> cases e <;> simp_all [insOrder, List.count_cons] <;> omega

def extraOrder : ModExtra → List (Option Tok)
  | .none => []
  | .flat p => [some p]
  | .med p v wv => tableOrder v ++ tableOrder wv ++ [some p]

theorem releaseModExtra_eq (e : ModExtra) (w : World) : releaseModExtra e w = freeAll (extraOrder e) w := by
  cases e with
  | none => rfl
  | flat p => rfl
  | med p v wv => simp [releaseModExtra, extraOrder, freeTable_eq, freeAll_append, freeAll]

/-- release order of the module part of xmp_release_module -/
def moduleOrder (m : Module) : List (Option Tok) :=
  extraOrder m.extra ++ tableOrder m.xxt ++ tableOrder m.xxp
    ++ (if m.xxi.isSome then insOrder m.subs m.insExtras ++ [m.xxi] else [])
    ++ tableOrder m.xxs ++ [m.xtra, m.midi] ++ tableOrder m.scanCnt ++ [m.scan, m.comment, m.dirname, m.basename]

/-- release order of xmp_end_player -/
def playerOrder (p : Player) : List (Option Tok) :=
  p.chanExtra ++ p.paula ++ [p.voiceArray, p.virtChannel, p.xcData, p.flowLoop, p.buffer, p.buf32]

theorem endPlayer_eq (c : Ctx) (w : World) (hp : c.state = .playing) (hv : c.player.voiceArray.isSome ∨ c.player.paula = []) :
    endPlayer c w = ({ state := .loaded, player := { maxvoc := 0, virtChannels := 0 } }, freeAll (playerOrder c.player) w) := by
  unfold endPlayer
  have hne : ¬ (c.player.voiceArray = none ∧ ¬ c.player.paula = []) := by
    rcases hv with h | h
    · cases hva : c.player.voiceArray <;> simp_all
    · simp [h]
  simp [hp, virtOff, mixerOff, playerOrder, freeAll_append, freeAll, hne]

theorem releaseModule_world (c : MCtx) (w : World) :
    (releaseModule c w).2 = freeAll (moduleOrder c.module) (endPlayer c.toCtx w).2 := by
  unfold releaseModule moduleOrder
  cases hx : c.module.xxi <;>
    simp [releaseModExtra_eq, freeTable_eq, freeIns_eq, freeAll_append, freeAll, hx]



theorem ptrs_all_none (l : List (Option Tok)) (h : l.all Option.isNone = true) : ptrs l = [] := by
  induction l with
  | nil => rfl
  | cons a l ih =>
    cases a with
    | none =>
      simp only [List.all_cons, Option.isNone_none, Bool.true_and] at h
      simpa using ih h
    | some t => simp at h

theorem count_tableOrder (t : Table) (h : t.wf = true) (u : Tok) :
    (ptrs (tableOrder t)).count u = t.toks.count u := by
  unfold tableOrder Table.toks
  cases hp : t.ptr with
  | none =>
    have : t.entries.all Option.isNone = true := by simpa [Table.wf, hp] using h
    simp [ptrs_all_none _ this]
  | some p =>
    simp [ptrs_append, List.count_append, List.count_cons]

theorem count_extraOrder (e : ModExtra) (h : e.wf = true) (u : Tok) :
    (ptrs (extraOrder e)).count u = e.toks.count u := by
  cases e with
  | none => simp [extraOrder, ModExtra.toks]
  | flat p => simp [extraOrder, ModExtra.toks]
  | med p v wv =>
    simp only [ModExtra.wf, Bool.and_eq_true] at h
    have h1 := count_tableOrder v h.1 u
    have h2 := count_tableOrder wv h.2 u
    simp only [extraOrder, ModExtra.toks, ptrs_append, List.count_append, List.count_cons, h1, h2, ptrs_cons_some, ptrs_nil]
    simp

theorem count_playerOrder (p : Player) (u : Tok) : (ptrs (playerOrder p)).count u = p.toks.count u := by
  unfold playerOrder Player.toks
  simp only [ptrs_append, List.count_append]
  cases p.voiceArray <;> cases p.virtChannel <;> cases p.xcData <;> cases p.flowLoop <;> cases p.buffer <;> cases p.buf32 <;>
    simp [List.count_cons] <;> omega

theorem count_moduleOrder (m : Module) (h : m.wf = true) (u : Tok) :
    (ptrs (moduleOrder m)).count u = m.toks.count u := by
  simp only [Module.wf, Bool.and_eq_true, Bool.or_eq_true] at h
  obtain ⟨⟨⟨⟨⟨h1, h2⟩, h3⟩, h4⟩, h5⟩, h6⟩ := h
  have e1 := count_tableOrder m.xxt h1 u
  have e2 := count_tableOrder m.xxp h2 u
  have e3 := count_tableOrder m.xxs h3 u
  have e4 := count_tableOrder m.scanCnt h4 u
  have e5 := count_extraOrder m.extra h5 u
  have e6 := count_ptrs_insOrder m.subs m.insExtras u
  unfold moduleOrder Module.toks
  simp only [ptrs_append, List.count_append, e1, e2, e3, e4, e5]
  cases hx : m.xxi with
  | none =>
    have hall : (m.subs ++ m.insExtras).all Option.isNone = true := by simpa [hx] using h6
    have := ptrs_all_none _ hall
    rw [ptrs_append] at this
    have hs : ptrs m.subs = [] := List.append_eq_nil_iff.mp this |>.1
    have he : ptrs m.insExtras = [] := List.append_eq_nil_iff.mp this |>.2
    cases m.xtra <;> cases m.midi <;> cases m.scan <;> cases m.comment <;> cases m.dirname <;> cases m.basename <;>
      simp [List.count_cons, hs, he] <;> omega
  | some x =>
    cases m.xtra <;> cases m.midi <;> cases m.scan <;> cases m.comment <;> cases m.dirname <;> cases m.basename <;>
      simp [ptrs_append, List.count_append, e6, List.count_cons] <;> omega



theorem release_total (c : MCtx) (w : World) (hwf : c.module.wf = true)
    (hpl : c.state = .playing → (c.player.voiceArray.isSome ∨ c.player.paula = []))
    (hnp : c.state ≠ .playing → c.player.toks = [])
    (hown : Sub c.toks w.live) :
    let r := releaseModule c w
    r.2.bad = w.bad ∧ (∀ u, r.2.live.count u + c.toks.count u = w.live.count u)
      ∧ r.1.module = {} ∧ r.1.state = .unloaded ∧ r.1.player.toks = [] ∧ SameEnv w r.2 := by
  intro r
  have hr2 : r.2 = freeAll (moduleOrder c.module) (endPlayer c.toCtx w).2 := releaseModule_world c w
  have hr1 : r.1 = { state := .unloaded, player := (endPlayer c.toCtx w).1.player, module := {} } := rfl
  by_cases hp : c.state = .playing
  · have he := endPlayer_eq c.toCtx w hp (hpl hp)
    rw [he] at hr2 hr1
    simp only at hr2 hr1
    rw [← freeAll_append] at hr2
    have hcount : ∀ u, (ptrs (playerOrder c.player ++ moduleOrder c.module)).count u = c.toks.count u := by
      intro u
      rw [ptrs_append, List.count_append, count_playerOrder, count_moduleOrder _ hwf]
      simp [MCtx.toks, List.count_append]
    have hsub : Sub (ptrs (playerOrder c.player ++ moduleOrder c.module)) w.live := by
      intro u; rw [hcount u]; exact hown u
    obtain ⟨a, _, _, d, e⟩ := freeAll_spec _ w hsub
    rw [hr2, hr1]
    refine ⟨a, ?_, rfl, rfl, ?_, d⟩
    · intro u; rw [← hcount u]; exact e u
    · simp [Player.toks]
  · have he : endPlayer c.toCtx w = (c.toCtx, w) := by simp [endPlayer, hp]
    rw [he] at hr2 hr1
    simp only at hr2 hr1
    have hpt := hnp hp
    have hcount : ∀ u, (ptrs (moduleOrder c.module)).count u = c.toks.count u := by
      intro u
      rw [count_moduleOrder _ hwf]
      simp [MCtx.toks, hpt]
    have hsub : Sub (ptrs (moduleOrder c.module)) w.live := by
      intro u; rw [hcount u]; exact hown u
    obtain ⟨a, _, _, d, e⟩ := freeAll_spec _ w hsub
    rw [hr2, hr1]
    refine ⟨a, ?_, rfl, rfl, hpt, d⟩
    intro u; rw [← hcount u]; exact e u


end Xmp.Resource
