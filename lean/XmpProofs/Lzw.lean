import XmpModel.Lzw
/-!
Helper lemmas for the compress(1) LZW model (`XmpModel.Lzw`): bit packing, the `input()` macro,
the string table, and the round trip `unlzw (lzwEncode …) = some p`.
-/
namespace Xmp.Lzw
open Xmp

/-! ## bits -/

/-- little-endian value of a byte string -/
def streamNat : Bytes → Nat
  | [] => 0
  | b :: r => b.toNat + 256 * streamNat r

theorem bitsToNat_append (a b : List Bool) : bitsToNat (a ++ b) = bitsToNat a + 2 ^ a.length * bitsToNat b := by
  induction a with
  | nil => simp [bitsToNat]
  | cons x a ih =>
    simp only [List.cons_append, bitsToNat, ih, List.length_cons, Nat.pow_succ]
    rw [Nat.mul_add, Nat.mul_comm (2 ^ a.length) 2, Nat.mul_assoc]
    omega

theorem bitsToNat_lt (a : List Bool) : bitsToNat a < 2 ^ a.length := by
  induction a with
  | nil => simp [bitsToNat]
  | cons x a ih =>
    simp only [bitsToNat, List.length_cons, Nat.pow_succ]
    split <;> omega

theorem natToBits_length (n c : Nat) : (natToBits n c).length = n := by
  induction n generalizing c with
  | zero => rfl
  | succ n ih => simp [natToBits, ih]

theorem bitsToNat_natToBits (n c : Nat) : bitsToNat (natToBits n c) = c % 2 ^ n := by
  induction n generalizing c with
  | zero => simp [natToBits, bitsToNat, Nat.mod_one]
  | succ n ih =>
    simp only [natToBits, bitsToNat, ih, Nat.pow_succ]
    have h2 : c % (2 ^ n * 2) = c % 2 + 2 * (c / 2 % 2 ^ n) := by
      rw [Nat.mul_comm, Nat.mod_mul]
    rw [h2]
    rcases Nat.mod_two_eq_zero_or_one c with h | h <;> simp [h]

theorem bitsToNat_take_drop (l : List Bool) (m : Nat) :
    bitsToNat l = bitsToNat (l.take m) + 2 ^ m * bitsToNat (l.drop m) := by
  by_cases h : m ≤ l.length
  · have := bitsToNat_append (l.take m) (l.drop m)
    rw [List.take_append_drop, List.length_take, Nat.min_eq_left h] at this
    exact this
  · have h' : l.length ≤ m := by omega
    rw [List.take_of_length_le h', List.drop_of_length_le h']
    simp [bitsToNat]

theorem streamNat_packGo (k : Nat) (l : List Bool) : streamNat (packGo k l) = bitsToNat (l.take (8 * k)) := by
  induction k generalizing l with
  | zero => simp [packGo, streamNat, bitsToNat]
  | succ k ih =>
    simp only [packGo, streamNat, ih]
    have hlt : bitsToNat (l.take 8) < 256 := by
      have := bitsToNat_lt (l.take 8)
      have h8 : (l.take 8).length ≤ 8 := by simp [List.length_take]; omega
      have : 2 ^ (l.take 8).length ≤ 2 ^ 8 := Nat.pow_le_pow_right (by decide) h8
      omega
    rw [UInt8.toNat_ofNat', Nat.mod_eq_of_lt hlt]
    rw [bitsToNat_take_drop (l.take (8 * (k + 1))) 8]
    rw [List.take_take, List.drop_take]
    have e1 : min 8 (8 * (k + 1)) = 8 := by omega
    have e2 : 8 * (k + 1) - 8 = 8 * k := by omega
    rw [e1, e2]

theorem streamNat_packBits (bits : List Bool) : streamNat (packBits bits) = bitsToNat bits := by
  unfold packBits
  rw [streamNat_packGo, List.take_of_length_le (by omega)]

theorem packGo_length (k : Nat) (l : List Bool) : (packGo k l).length = k := by
  induction k generalizing l with
  | zero => rfl
  | succ k ih => simp [packGo, ih]

theorem packBits_length (bits : List Bool) : (packBits bits).length = (bits.length + 7) / 8 := by
  unfold packBits; exact packGo_length _ _

/-- reading `n` bits behind a prefix gives back the value written there -/
theorem read_at (pre post : List Bool) (n c : Nat) (hc : c < 2 ^ n) :
    bitsToNat (pre ++ natToBits n c ++ post) / 2 ^ pre.length % 2 ^ n = c := by
  rw [List.append_assoc, bitsToNat_append, bitsToNat_append, natToBits_length, bitsToNat_natToBits,
    Nat.mod_eq_of_lt hc]
  have hp := bitsToNat_lt pre
  have hpos : 0 < 2 ^ pre.length := Nat.pow_pos (by decide)
  rw [Nat.add_mul_div_left _ _ hpos, Nat.div_eq_of_lt hp, Nat.zero_add, Nat.add_mul_mod_self_left,
    Nat.mod_eq_of_lt hc]


/-! ## the `input()` macro -/

theorem streamNat_drop (l : Bytes) (q : Nat) : streamNat l / 256 ^ q = streamNat (l.drop q) := by
  induction q generalizing l with
  | zero => simp
  | succ q ih =>
    cases l with
    | nil => simp [streamNat]
    | cons b r =>
      have hb : b.toNat < 256 := b.toNat_lt
      rw [Nat.pow_succ, Nat.mul_comm, ← Nat.div_div_eq_div_mul]
      simp only [streamNat, List.drop_succ_cons]
      have : (b.toNat + 256 * streamNat r) / 256 = streamNat r := by omega
      rw [this, ih]

theorem streamNat_window (l : Bytes) :
    streamNat l % 2 ^ 24 = (l.getD 0 0).toNat + 256 * (l.getD 1 0).toNat + 65536 * (l.getD 2 0).toNat := by
  match l with
  | [] => simp [streamNat]
  | [x] => have := x.toNat_lt; simp [streamNat]; omega
  | [x, y] => have := x.toNat_lt; have := y.toNat_lt; simp [streamNat]; omega
  | x :: y :: z :: r =>
    have := x.toNat_lt; have := y.toNat_lt; have := z.toNat_lt
    simp [streamNat]; omega

theorem or_window (a b c : Nat) (ha : a < 256) (hb : b < 256) :
    a ||| (b <<< 8) ||| (c <<< 16) = a + 256 * b + 65536 * c := by
  have h1 : b <<< 8 + a = b <<< 8 ||| a := Nat.shiftLeft_add_eq_or_of_lt (by omega) b
  have hlt : b <<< 8 + a < 2 ^ 16 := by rw [Nat.shiftLeft_eq]; omega
  have h2 := Nat.shiftLeft_add_eq_or_of_lt hlt c
  rw [Nat.or_comm a, ← h1, Nat.or_comm, ← h2]
  simp only [Nat.shiftLeft_eq]; omega

theorem byteAt_toArray (l : Bytes) (i : Nat) : byteAt l.toArray i = (l.getD i 0).toNat := by
  simp [byteAt, List.getD_eq_getElem?_getD]

/-- the 24-bit window of the `input()` macro yields bits `o .. o+n-1` of the stream whenever the code fits
    the window (`(o & 7) + n ≤ 24`, i.e. every width up to 17) -/
theorem readCode_spec (l : Bytes) (o n : Nat) (hn : o % 8 + n ≤ 24) :
    readCode l.toArray o n = streamNat l / 2 ^ o % 2 ^ n := by
  unfold readCode
  simp only [byteAt_toArray]
  rw [or_window _ _ _ (UInt8.toNat_lt _) (UInt8.toNat_lt _), Nat.and_two_pow_sub_one_eq_mod,
    Nat.shiftRight_eq_div_pow]
  have hw := streamNat_window (l.drop (o / 8))
  simp only [List.getD_eq_getElem?_getD, List.getElem?_drop, Nat.add_zero] at hw
  simp only [List.getD_eq_getElem?_getD]
  rw [← hw, ← streamNat_drop]
  -- (S / 256^q) % 2^24 / 2^k % 2^n = S / 2^o % 2^n
  have ho : o = 8 * (o / 8) + o % 8 := by omega
  generalize o / 8 = q at *
  generalize o % 8 = k at *
  subst ho
  have e256 : (256 : Nat) ^ q = 2 ^ (8 * q) := by
    rw [show (256 : Nat) = 2 ^ 8 from rfl, ← Nat.pow_mul]
  rw [e256]
  have e24 : (2 : Nat) ^ 24 = 2 ^ k * 2 ^ (24 - k) := by rw [← Nat.pow_add]; congr 1; omega
  rw [e24, Nat.mod_mul_right_div_self, Nat.div_div_eq_div_mul, ← Nat.pow_add]
  have hd : (2 : Nat) ^ n ∣ 2 ^ (24 - k) := Nat.pow_dvd_pow 2 (by omega)
  rw [Nat.mod_mod_of_dvd _ hd]


/-! ## the string table -/

/-- fuel that `chainRev` needs for code `c` when prefixes decrease -/
def need (c : Nat) : Nat := if c < 256 then 1 else c - 254

def ValidCode (tab : Array (Nat × UInt8)) (lo c : Nat) : Prop := c < 256 ∨ (lo ≤ c ∧ c < 256 + tab.size)

/-- every usable entry (code ≥ lo) has a prefix that is a literal or an older usable code -/
def WfTab (tab : Array (Nat × UInt8)) (lo : Nat) : Prop :=
  ∀ i p s, tab[i]? = some (p, s) → lo ≤ 256 + i → (p < 256 ∨ (lo ≤ p ∧ p < 256 + i))

/-- code `c` spells the string `w` (first byte `fin`) in table `tab` -/
def Phr (tab : Array (Nat × UInt8)) (c : Nat) (w : Bytes) (fin : UInt8) : Prop :=
  w.head? = some fin ∧ ∀ fuel, need c ≤ fuel → chainRev tab fuel c = some (w.reverse, fin)

theorem phr_lit (tab : Array (Nat × UInt8)) (c : Nat) (hc : c < 256) :
    Phr tab c [UInt8.ofNat c] (UInt8.ofNat c) := by
  refine ⟨rfl, ?_⟩
  intro fuel hf
  cases fuel with
  | zero => simp [need, hc] at hf
  | succ f => simp [chainRev, hc]

theorem phr_child (tab : Array (Nat × UInt8)) (c pre : Nat) (suf : UInt8) (w : Bytes) (fin : UInt8)
    (hp : Phr tab pre w fin) (hc : 256 ≤ c) (ht : tab[c - 256]? = some (pre, suf)) (hlt : pre < c) :
    Phr tab c (w ++ [suf]) fin := by
  obtain ⟨hh, hf⟩ := hp
  refine ⟨?_, ?_⟩
  · cases w with
    | nil => simp at hh
    | cons x w => simpa using hh
  · intro fuel hfuel
    have hn : need c = c - 254 := by simp [need]; omega
    cases fuel with
    | zero => omega
    | succ f =>
      have hpre : need pre ≤ f := by unfold need; split <;> omega
      have hnc : ¬ c < 256 := by omega
      simp only [chainRev, hnc, if_false, ht, hf f hpre, Option.map_some, List.reverse_append,
        List.reverse_cons, List.reverse_nil, List.nil_append, List.cons_append]

theorem chainRev_push (tab : Array (Nat × UInt8)) (e : Nat × UInt8) (lo : Nat)
    (hwf : WfTab (tab.push e) lo) (fuel : Nat) :
    ∀ c, ValidCode tab lo c → chainRev (tab.push e) fuel c = chainRev tab fuel c := by
  induction fuel with
  | zero => intro c _; rfl
  | succ f ih =>
    intro c hv
    by_cases hc : c < 256
    · simp [chainRev, hc]
    · have hv' : lo ≤ c ∧ c < 256 + tab.size := by
        rcases hv with h | h
        · exact absurd h hc
        · exact h
      have hidx : c - 256 < tab.size := by omega
      have hget : (tab.push e)[c - 256]? = tab[c - 256]? := by
        rw [Array.getElem?_push_lt hidx]; simp [hidx]
      simp only [chainRev, hc, if_false, hget]
      cases hq : tab[c - 256]? with
      | none => rfl
      | some ps =>
        obtain ⟨p, s⟩ := ps
        have hw := hwf (c - 256) p s (by rw [hget, hq]) (by omega)
        have hvp : ValidCode tab lo p := by
          rcases hw with h | ⟨h1, h2⟩
          · exact Or.inl h
          · exact Or.inr ⟨h1, by omega⟩
        simp only [ih p hvp]

theorem phr_of_push (tab : Array (Nat × UInt8)) (e : Nat × UInt8) (lo c : Nat) (w : Bytes) (fin : UInt8)
    (hwf : WfTab (tab.push e) lo) (hv : ValidCode tab lo c) :
    Phr (tab.push e) c w fin ↔ Phr tab c w fin := by
  unfold Phr
  constructor
  · rintro ⟨h1, h2⟩; refine ⟨h1, fun fuel hf => ?_⟩
    rw [← chainRev_push tab e lo hwf fuel c hv]; exact h2 fuel hf
  · rintro ⟨h1, h2⟩; refine ⟨h1, fun fuel hf => ?_⟩
    rw [chainRev_push tab e lo hwf fuel c hv]; exact h2 fuel hf

theorem wfTab_push (tab : Array (Nat × UInt8)) (lo oc : Nat) (b : UInt8) (hwf : WfTab tab lo)
    (hoc : ValidCode tab lo oc) : WfTab (tab.push (oc, b)) lo := by
  intro i p s hget hlo
  by_cases hi : i < tab.size
  · rw [Array.getElem?_push_lt hi] at hget
    exact hwf i p s (by simpa [hi] using hget) hlo
  · by_cases hi2 : i = tab.size
    · subst hi2
      simp at hget
      obtain ⟨rfl, rfl⟩ := hget
      rcases hoc with h | ⟨h1, h2⟩
      · exact Or.inl h
      · exact Or.inr ⟨h1, h2⟩
    · have : (tab.push (oc, b))[i]? = none := by
        simp; omega
      rw [this] at hget; simp at hget

theorem findChild_spec (tab : Array (Nat × UInt8)) (cur : Nat) (b : UInt8) (fuel i c : Nat)
    (h : findChild tab cur b fuel i = some c) :
    ∃ j, c = 256 + j ∧ i ≤ j ∧ tab[j]? = some (cur, b) := by
  induction fuel generalizing i with
  | zero => simp [findChild] at h
  | succ f ih =>
    simp only [findChild] at h
    cases hq : tab[i]? with
    | none => simp [hq] at h
    | some e =>
      simp only [hq] at h
      by_cases he : e.1 = cur ∧ e.2 = b
      · simp only [he, and_self, if_true, Option.some.injEq] at h
        refine ⟨i, h.symm, Nat.le_refl _, ?_⟩
        rw [hq]; obtain ⟨e1, e2⟩ := e; simp at he; simp [he]
      · simp only [he, if_false] at h
        obtain ⟨j, h1, h2, h3⟩ := ih (i + 1) h
        exact ⟨j, h1, by omega, h3⟩

theorem matchGo_spec (tab : Array (Nat × UInt8)) (lo maxLen : Nat) (hlo : 256 ≤ lo) (hwf : WfTab tab lo)
    (rem : Bytes) : ∀ (cur len : Nat) (w : Bytes) (fin : UInt8), Phr tab cur w fin → ValidCode tab lo cur →
    ∃ w', Phr tab (matchGo tab lo maxLen cur len rem).1 w' fin ∧
      ValidCode tab lo (matchGo tab lo maxLen cur len rem).1 ∧
      w' ++ (matchGo tab lo maxLen cur len rem).2 = w ++ rem := by
  induction rem with
  | nil => intro cur len w fin hp hv; exact ⟨w, by simpa [matchGo] using hp, by simpa [matchGo] using hv, by simp [matchGo]⟩
  | cons b rem ih =>
    intro cur len w fin hp hv
    simp only [matchGo]
    by_cases hl : len ≥ maxLen
    · simp only [hl, if_true]; exact ⟨w, hp, hv, rfl⟩
    · simp only [hl, if_false]
      cases hf : findChild tab cur b tab.size (lo - 256) with
      | none => exact ⟨w, hp, hv, rfl⟩
      | some c =>
        obtain ⟨j, hc, hj, hget⟩ := findChild_spec tab cur b _ _ c hf
        have hjs : j < tab.size := by
          rcases Nat.lt_or_ge j tab.size with h | h
          · exact h
          · have : tab[j]? = none := by simp; omega
            rw [this] at hget; simp at hget
        have hw := hwf j cur b hget (by omega)
        have hlt : cur < c := by rcases hw with h | ⟨_, h⟩ <;> omega
        have hp' : Phr tab c (w ++ [b]) fin :=
          phr_child tab c cur b w fin hp (by omega) (by rw [hc]; simpa using hget) hlt
        have hv' : ValidCode tab lo c := Or.inr ⟨by omega, by omega⟩
        obtain ⟨w', h1, h2, h3⟩ := ih c (len + 1) (w ++ [b]) fin hp' hv'
        exact ⟨w', h1, h2, by rw [h3]; simp⟩


/-! ## one code through the decoder -/

theorem need_le_of_valid (tab : Array (Nat × UInt8)) (lo c : Nat) (hv : ValidCode tab lo c) :
    need c ≤ tab.size + 2 := by
  unfold need; rcases hv with h | ⟨_, h⟩ <;> split <;> omega

/-- a phrase code chosen by the encoder in `tabE` (the decoder's table plus the pending entry) makes the
    decoder output exactly that phrase and complete the pending entry — including the KwKwK case -/
theorem decCode_phrase (maxbits : Nat) (bm : Bool) (d : Dec) (lo oc c : Nat) (b fin0 : UInt8) (wprev w : Bytes)
    (hold : d.oldcode = some oc) (hfin : d.finchar = fin0)
    (hwf : WfTab (if 256 + d.tab.size < 2 ^ maxbits then d.tab.push (oc, b) else d.tab) lo)
    (hkw : c = 256 + d.tab.size → ValidCode d.tab lo oc ∧ Phr d.tab oc wprev fin0)
    (hp : Phr (if 256 + d.tab.size < 2 ^ maxbits then d.tab.push (oc, b) else d.tab) c w b)
    (hv : ValidCode (if 256 + d.tab.size < 2 ^ maxbits then d.tab.push (oc, b) else d.tab) lo c)
    (hne : bm = true → c ≠ 256) :
    decCode maxbits bm d c =
      some { w := d.w, tab := (if 256 + d.tab.size < 2 ^ maxbits then d.tab.push (oc, b) else d.tab),
             oldcode := some c, finchar := b, out := w.reverse ++ d.out } := by
  have hclr : ¬ (c = 256 ∧ bm = true) := fun h => hne h.2 h.1
  unfold decCode
  simp only [hold, hclr, if_false]
  by_cases hroom : 256 + d.tab.size < 2 ^ maxbits
  · simp only [hroom, if_true] at hwf hp hv ⊢
    have hsz : (d.tab.push (oc, b)).size = d.tab.size + 1 := by simp
    by_cases hk : c = 256 + d.tab.size
    · -- KwKwK
      obtain ⟨hoc, hprev⟩ := hkw hk
      have hgt : ¬ c > 256 + d.tab.size := by omega
      simp only [hgt, if_false]
      rw [if_pos hk]
      have hneed : need c = c - 254 := by unfold need; split <;> omega
      have h1 := hp.2 (c - 254) (by omega)
      have hfu : c - 254 = (c - 255) + 1 := by omega
      rw [hfu] at h1
      have hnc : ¬ c < 256 := by omega
      have hidx : c - 256 = d.tab.size := by rw [hk]; exact Nat.add_sub_cancel_left _ _
      simp only [chainRev, hnc, if_false, hidx, Array.getElem?_push_size] at h1
      rw [chainRev_push d.tab (oc, b) lo hwf (c - 255) oc hoc] at h1
      have hnoc : need oc ≤ c - 255 := by
        unfold need; rcases hoc with h | ⟨_, h⟩ <;> split <;> omega
      rw [hprev.2 (c - 255) hnoc] at h1
      simp only [Option.map_some, Option.some.injEq, Prod.mk.injEq] at h1
      obtain ⟨h1a, h1b⟩ := h1
      rw [hprev.2 (d.tab.size + 2) (need_le_of_valid d.tab lo oc hoc)]
      simp only [Option.map_some, hfin, h1b, h1a]
    · have hv' : ValidCode d.tab lo c := by
        rcases hv with h | ⟨h1, h2⟩
        · exact Or.inl h
        · exact Or.inr ⟨h1, by rw [hsz] at h2; omega⟩
      have hgt : ¬ c > 256 + d.tab.size := by rcases hv' with h | ⟨_, h⟩ <;> omega
      simp only [hgt, if_false]
      rw [if_neg hk]
      have hp' := (phr_of_push d.tab (oc, b) lo c w b hwf hv').mp hp
      rw [hp'.2 (d.tab.size + 2) (need_le_of_valid d.tab lo c hv')]
  · simp only [hroom, if_false] at hwf hp hv ⊢
    have hgt : ¬ c > 256 + d.tab.size := by rcases hv with h | ⟨_, h⟩ <;> omega
    have hk : ¬ c = 256 + d.tab.size := by rcases hv with h | ⟨_, h⟩ <;> omega
    simp only [hgt, if_false]
    rw [if_neg hk, hp.2 (d.tab.size + 2) (need_le_of_valid d.tab lo c hv)]


/-! ## width state -/

theorem alignUp_ge (rel m : Nat) (hm : 0 < m) : rel ≤ alignUp rel m := by
  unfold alignUp
  split
  · omega
  · have := Nat.mod_lt (rel - 1 + m) hm
    omega

/-- the C expression rounds `posbits` up to the next multiple of `n_bits * 8` -/
theorem alignUp_eq (rel m : Nat) (hm : 0 < m) : alignUp rel m = (rel + m - 1) / m * m := by
  unfold alignUp
  split
  · next h =>
    subst h
    have : (0 + m - 1) / m = 0 := Nat.div_eq_of_lt (by omega)
    rw [this]; simp
  · next h =>
    have e1 : (rel - 1 + m) % m = (rel - 1) % m := Nat.add_mod_right _ _
    have e2 : rel + m - 1 = (rel - 1) + m := by omega
    rw [e1, e2, Nat.add_div_right _ hm, Nat.succ_mul, Nat.mul_comm ((rel - 1) / m) m]
    have := Nat.div_add_mod (rel - 1) m
    have := Nat.mod_lt (rel - 1) hm
    omega

theorem aligned_ge (w : W) (h : w.base ≤ w.pos) (hn : 0 < w.nBits) : w.pos ≤ w.aligned := by
  unfold W.aligned
  have := alignUp_ge (w.pos - w.base) (w.nBits * 8) (by omega)
  omega

structure Winv (maxbits : Nat) (w : W) (fe : Nat) : Prop where
  nlo : 9 ≤ w.nBits
  nhi : w.nBits ≤ 16
  bp : w.base ≤ w.pos
  fem : fe ≤ 2 ^ maxbits
  fe1 : fe ≤ w.maxcode + 1
  mc : (w.maxcode = 2 ^ w.nBits - 1 ∧ w.nBits < maxbits) ∨ (w.maxcode = 2 ^ maxbits ∧ w.nBits = maxbits)

/-- facts about the width state after one code has been emitted / read -/
structure WPost (maxbits : Nat) (w w' : W) (fe c : Nat) (nbits : Nat) : Prop where
  pos : w'.pos = w.pos + nbits
  adv9 : w.pos + 9 ≤ w'.pos
  inv : ∀ fe', fe' ≤ fe + 1 → fe' ≤ 2 ^ maxbits → Winv maxbits w' fe'

theorem two_pow_succ' (n : Nat) : 2 ^ (n + 1) = 2 * 2 ^ n := by rw [Nat.pow_succ]; omega

theorem emitCode_post (maxbits : Nat) (hmb : maxbits ≤ 16) (w : W) (fe c : Nat) (hw : Winv maxbits w fe) :
    WPost maxbits w (emitCode maxbits w fe c).2 fe c (emBits (emitCode maxbits w fe c).1).length ∧
    (c ≤ fe → (c = fe → fe < 2 ^ maxbits) →
      c < 2 ^ ((emitCode maxbits w fe c).2.nBits)) := by
  obtain ⟨nlo, nhi, bp, fem, fe1, mc⟩ := hw
  have hP : 1 ≤ 2 ^ w.nBits := Nat.one_le_two_pow
  unfold emitCode
  by_cases hb : fe > w.maxcode
  · simp only [hb, if_true]
    have hal := aligned_ge w bp (by omega)
    rcases mc with ⟨m1, m2⟩ | ⟨m1, m2⟩
    · have hfe : fe = 2 ^ w.nBits := by omega
      have h2 := two_pow_succ' w.nBits
      refine ⟨⟨?_, ?_, ?_⟩, ?_⟩
      · simp [emBits, natToBits_length, W.bump, W.adv] <;> omega
      · simp [W.bump, W.adv] <;> omega
      · intro fe' h1 h2'
        refine ⟨by simp [W.bump, W.adv] <;> omega, by simp [W.bump, W.adv] <;> omega, by simp [W.bump, W.adv] <;> omega, h2', ?_, ?_⟩
        · simp only [W.bump, W.adv]
          split
          · omega
          · omega
        · simp only [W.bump, W.adv]
          by_cases he : w.nBits + 1 = maxbits
          · simp [he]
          · simp only [he, if_false]; left; exact ⟨trivial, by omega⟩
      · intro h1 h2'
        simp only [W.bump, W.adv]
        by_cases he : w.nBits + 1 = maxbits
        · rw [he]; rcases Nat.lt_or_ge c fe with h | h
          · omega
          · have := h2' (by omega); omega
        · omega
    · omega
  · simp only [hb, if_false]
    refine ⟨⟨?_, ?_, ?_⟩, ?_⟩
    · simp [emBits, natToBits_length, W.adv]
    · simp [W.adv] <;> omega
    · intro fe' h1 h2'
      exact ⟨by simpa [W.adv] using nlo, by simpa [W.adv] using nhi, by simp [W.adv] <;> omega, h2',
        by simp [W.adv] <;> omega, by simpa [W.adv] using mc⟩
    · intro h1 h2'
      simp only [W.adv]
      rcases mc with ⟨m1, m2⟩ | ⟨m1, m2⟩
      · omega
      · rw [m2]; rcases Nat.lt_or_ge c fe with h | h
        · omega
        · have := h2' (by omega); omega


/-! ## the decoder loop on emitted bits -/

structure Stream (body : Bytes) (allbits : List Bool) : Prop where
  val : streamNat body = bitsToNat allbits
  le : allbits.length ≤ 8 * body.length

theorem readCode_at (body : Bytes) (pre post : List Bool) (n c o : Nat) (hs : Stream body (pre ++ natToBits n c ++ post))
    (ho : pre.length = o) (hn : n ≤ 16) (hc : c < 2 ^ n) : readCode body.toArray o n = c := by
  rw [readCode_spec body o n (by have := Nat.mod_lt o (by decide : 0 < 8); omega), hs.val, ← ho]
  exact read_at pre post n c hc

theorem decGo_emit (maxbits : Nat) (hmb : maxbits ≤ 16) (bm : Bool) (body : Bytes) (pre post : List Bool)
    (d : Dec) (c : Nat)
    (hs : Stream body (pre ++ emBits (emitCode maxbits d.w (256 + d.tab.size) c).1 ++ post))
    (hpre : pre.length = d.w.pos) (hw : Winv maxbits d.w (256 + d.tab.size))
    (hc1 : c ≤ 256 + d.tab.size) (hc2 : c = 256 + d.tab.size → 256 + d.tab.size < 2 ^ maxbits)
    (fuel : Nat) (hf : 2 ≤ fuel) :
    ∃ fuel', fuel' < fuel ∧ fuel ≤ fuel' + 2 ∧
      decGo body.toArray maxbits bm fuel d =
        (match decCode maxbits bm { d with w := (emitCode maxbits d.w (256 + d.tab.size) c).2 } c with
         | none => none
         | some d' => decGo body.toArray maxbits bm fuel' d') := by
  obtain ⟨hpost, hcb⟩ := emitCode_post maxbits hmb d.w (256 + d.tab.size) c hw
  have hcb := hcb hc1 hc2
  have hlen := hs.le
  simp only [List.length_append] at hlen
  by_cases hb : 256 + d.tab.size > d.w.maxcode
  · -- width change first
    have hem : emitCode maxbits d.w (256 + d.tab.size) c =
        ([(0, (d.w.bump maxbits).pos - d.w.pos), (c, (d.w.bump maxbits).nBits)], (d.w.bump maxbits).adv) := by
      simp [emitCode, hb]
    rw [hem] at hs hpost hcb hlen ⊢
    have hal := aligned_ge d.w hw.bp (by have := hw.nlo; omega)
    have hbpos : (d.w.bump maxbits).pos = d.w.aligned := rfl
    have hbn : (d.w.bump maxbits).nBits = d.w.nBits + 1 := rfl
    simp only [emBits, List.flatMap_cons, List.flatMap_nil, List.append_nil, List.length_append,
      natToBits_length] at hs hlen
    have hinv := hpost.inv (256 + d.tab.size) (by omega) hw.fem
    have hn16 : d.w.nBits + 1 ≤ 16 := by have := hinv.nhi; simpa [W.adv, W.bump] using this
    obtain ⟨f, rfl⟩ : ∃ f, fuel = f + 2 := ⟨fuel - 2, by omega⟩
    refine ⟨f, by omega, by omega, ?_⟩
    have hstop1 : ¬ d.w.pos + d.w.nBits > 8 * body.toArray.size := by
      simp only [List.size_toArray]; omega
    rw [decGo]
    simp only [hstop1, if_false, hb, if_true]
    have hstop2 : ¬ (d.w.bump maxbits).pos + (d.w.bump maxbits).nBits > 8 * body.toArray.size := by
      simp only [List.size_toArray]; omega
    have hfe2 : ¬ 256 + d.tab.size > (d.w.bump maxbits).maxcode := by
      have := hinv.fe1
      have h3 := hinv.mc
      simp only [W.adv] at this h3
      intro hgt
      have h4 := hpost.inv (256 + d.tab.size + 1) (by omega)
      -- fe ≤ maxcode' is part of the post condition: derive it from fe + 1 ≤ maxcode' + 1 when fe < 2^maxbits,
      -- or from maxcode' = 2^maxbits otherwise
      rcases Nat.lt_or_ge (256 + d.tab.size) (2 ^ maxbits) with hlt | hge
      · have := (h4 (by omega)).fe1; simp only [W.adv] at this; omega
      · have hfem := hw.fem
        rcases h3 with ⟨m1, m2⟩ | ⟨m1, _⟩
        · have : 2 ^ (d.w.bump maxbits).nBits < 2 ^ maxbits := Nat.pow_lt_pow_right (by decide) m2
          have := Nat.one_le_two_pow (n := (d.w.bump maxbits).nBits)
          omega
        · omega
    rw [decGo]
    simp only [hstop2, if_false, hfe2]
    have hrd : readCode body.toArray (d.w.bump maxbits).pos (d.w.bump maxbits).nBits = c := by
      have hs' : Stream body ((pre ++ natToBits ((d.w.bump maxbits).pos - d.w.pos) 0) ++
          natToBits (d.w.bump maxbits).nBits c ++ post) := by
        simpa [List.append_assoc] using hs
      refine readCode_at body _ post _ c _ hs' ?_ (by rw [hbn]; exact hn16) (by simpa [W.adv] using hcb)
      simp [natToBits_length, hpre]; omega
    rw [hrd]
    rfl
  · have hem : emitCode maxbits d.w (256 + d.tab.size) c = ([(c, d.w.nBits)], d.w.adv) := by
      simp [emitCode, hb]
    rw [hem] at hs hpost hcb hlen ⊢
    simp only [emBits, List.flatMap_cons, List.flatMap_nil, List.append_nil, natToBits_length] at hs hlen
    obtain ⟨f, rfl⟩ : ∃ f, fuel = f + 1 := ⟨fuel - 1, by omega⟩
    refine ⟨f, by omega, by omega, ?_⟩
    have hstop1 : ¬ d.w.pos + d.w.nBits > 8 * body.toArray.size := by
      simp only [List.size_toArray]; omega
    rw [decGo]
    simp only [hstop1, if_false, hb]
    have hrd : readCode body.toArray d.w.pos d.w.nBits = c :=
      readCode_at body pre post _ c _ hs hpre hw.nhi (by simpa [W.adv] using hcb)
    rw [hrd]
    rfl


/-! ## one phrase, and the lock-step induction -/

abbrev tabNext (maxbits : Nat) (tab : Array (Nat × UInt8)) (oc : Nat) (b : UInt8) : Array (Nat × UInt8) :=
  if 256 + tab.size < 2 ^ maxbits then tab.push (oc, b) else tab

theorem loCode_ge (bm : Bool) : 256 ≤ loCode bm := by unfold loCode; split <;> omega

theorem decGo_phrase (maxbits : Nat) (h16 : maxbits ≤ 16) (bm : Bool) (body : Bytes) (pre post : List Bool)
    (d : Dec) (oc : Nat) (b fin0 : UInt8) (wprev rem' : Bytes) (maxLen : Nat)
    (hs : Stream body (pre ++ emBits (emitCode maxbits d.w (256 + d.tab.size)
      (matchGo (tabNext maxbits d.tab oc b) (loCode bm) maxLen b.toNat 1 rem').1).1 ++ post))
    (hpre : pre.length = d.w.pos) (hw : Winv maxbits d.w (256 + d.tab.size))
    (hold : d.oldcode = some oc) (hfin : d.finchar = fin0)
    (hwfE : WfTab (tabNext maxbits d.tab oc b) (loCode bm))
    (hkw : (ValidCode d.tab (loCode bm) oc ∧ Phr d.tab oc wprev fin0) ∨ (bm = true ∧ d.tab.size = 0))
    (fuel : Nat) (hf : 2 ≤ fuel) :
    ∃ fuel' w', fuel' < fuel ∧ fuel ≤ fuel' + 2 ∧
      Phr (tabNext maxbits d.tab oc b) (matchGo (tabNext maxbits d.tab oc b) (loCode bm) maxLen b.toNat 1 rem').1 w' b ∧
      ValidCode (tabNext maxbits d.tab oc b) (loCode bm) (matchGo (tabNext maxbits d.tab oc b) (loCode bm) maxLen b.toNat 1 rem').1 ∧
      w' ++ (matchGo (tabNext maxbits d.tab oc b) (loCode bm) maxLen b.toNat 1 rem').2 = b :: rem' ∧
      decGo body.toArray maxbits bm fuel d =
        decGo body.toArray maxbits bm fuel'
          { w := (emitCode maxbits d.w (256 + d.tab.size)
                    (matchGo (tabNext maxbits d.tab oc b) (loCode bm) maxLen b.toNat 1 rem').1).2,
            tab := tabNext maxbits d.tab oc b,
            oldcode := some (matchGo (tabNext maxbits d.tab oc b) (loCode bm) maxLen b.toNat 1 rem').1,
            finchar := b, out := w'.reverse ++ d.out } := by
  have hlit : Phr (tabNext maxbits d.tab oc b) b.toNat [b] b := by
    have := phr_lit (tabNext maxbits d.tab oc b) b.toNat b.toNat_lt
    simpa using this
  obtain ⟨w', hp, hv, happ⟩ := matchGo_spec (tabNext maxbits d.tab oc b) (loCode bm) maxLen (loCode_ge bm) hwfE rem'
    b.toNat 1 [b] b hlit (Or.inl b.toNat_lt)
  generalize hm : matchGo (tabNext maxbits d.tab oc b) (loCode bm) maxLen b.toNat 1 rem' = m at *
  have hsz : (tabNext maxbits d.tab oc b).size ≤ d.tab.size + 1 := by
    unfold tabNext; split <;> simp
  have hc1 : m.1 ≤ 256 + d.tab.size := by rcases hv with h | ⟨_, h⟩ <;> omega
  have hc2 : m.1 = 256 + d.tab.size → 256 + d.tab.size < 2 ^ maxbits := by
    intro he
    rcases Nat.lt_or_ge (256 + d.tab.size) (2 ^ maxbits) with h | h
    · exact h
    · have : tabNext maxbits d.tab oc b = d.tab := by unfold tabNext; rw [if_neg (by omega)]
      rw [this] at hv
      rcases hv with h' | ⟨_, h'⟩ <;> omega
  obtain ⟨fuel', hf1, hf2, heq⟩ := decGo_emit maxbits h16 bm body pre post d m.1 hs hpre hw hc1 hc2 fuel hf
  refine ⟨fuel', w', hf1, hf2, hp, hv, by simpa using happ, ?_⟩
  rw [heq]
  have hne : bm = true → m.1 ≠ 256 := by
    intro hb h256
    rw [h256] at hv
    unfold loCode at hv; simp only [hb, if_true] at hv
    rcases hv with h | ⟨h, _⟩ <;> omega
  have hkw' : m.1 = 256 + d.tab.size → ValidCode d.tab (loCode bm) oc ∧ Phr d.tab oc wprev fin0 := by
    intro he
    rcases hkw with h | ⟨hb, h0⟩
    · exact h
    · exact absurd (by omega) (hne hb)
  have h := decCode_phrase maxbits bm { d with w := (emitCode maxbits d.w (256 + d.tab.size) m.1).2 }
    (loCode bm) oc m.1 b fin0 wprev w' hold hfin hwfE hkw' hp hv hne
  rw [h]


theorem emBits_append (a b : List (Nat × Nat)) : emBits (a ++ b) = emBits a ++ emBits b := by
  simp [emBits, List.flatMap_append]

theorem decGo_stop (maxbits : Nat) (bm : Bool) (body : Bytes) (d : Dec) (pre : List Bool)
    (hlt : 8 * body.length < pre.length + 8) (hpre : pre.length = d.w.pos) (h9 : 9 ≤ d.w.nBits)
    (fuel : Nat) (hf : 1 ≤ fuel) : decGo body.toArray maxbits bm fuel d = some d.out.reverse := by
  obtain ⟨f, rfl⟩ : ∃ f, fuel = f + 1 := ⟨fuel - 1, by omega⟩
  rw [decGo]
  have : d.w.pos + d.w.nBits > 8 * body.toArray.size := by simp only [List.size_toArray]; omega
  simp only [this, if_true]

theorem winv_clear (maxbits : Nat) (h10 : 10 ≤ maxbits) (w : W) (fe : Nat) (hw : Winv maxbits w fe) :
    Winv maxbits w.clear 256 := by
  have h1 : 2 ^ 10 ≤ 2 ^ maxbits := Nat.pow_le_pow_right (by decide) h10
  refine ⟨by simp [W.clear], by simp [W.clear], by simp [W.clear], by omega, by simp [W.clear], ?_⟩
  left; exact ⟨by simp [W.clear], by simp [W.clear]; omega⟩

theorem decGo_encGo (maxbits : Nat) (h10 : 10 ≤ maxbits) (h16 : maxbits ≤ 16) (bm : Bool) (clr : Nat → Bool)
    (maxLen : Nat) (body : Bytes) :
    ∀ (fuelE i : Nat) (w : W) (tab : Array (Nat × UInt8)) (oc : Nat) (rem : Bytes) (pre : List Bool)
      (fin0 : UInt8) (wprev out : Bytes) (fuelD : Nat),
    Stream body (pre ++ emBits (encGo maxbits bm clr maxLen fuelE i w tab oc rem)) →
    8 * body.length < (pre ++ emBits (encGo maxbits bm clr maxLen fuelE i w tab oc rem)).length + 8 →
    pre.length = w.pos → Winv maxbits w (256 + tab.size) → WfTab tab (loCode bm) → ValidCode tab (loCode bm) oc →
    Phr tab oc wprev fin0 → rem.length ≤ fuelE → 2 * ((8 * body.length - w.pos) / 9) + 2 ≤ fuelD →
    decGo body.toArray maxbits bm fuelD { w := w, tab := tab, oldcode := some oc, finchar := fin0, out := out } =
      some (out.reverse ++ rem) := by
  intro fuelE
  induction fuelE with
  | zero =>
    intro i w tab oc rem pre fin0 wprev out fuelD hs hlt hpre hw _ _ _ hrem hfuel
    have : rem = [] := List.eq_nil_of_length_eq_zero (by omega)
    subst this
    simp only [encGo, emBits, List.flatMap_nil, List.append_nil] at hlt
    rw [decGo_stop maxbits bm body _ pre hlt hpre hw.nlo fuelD (by omega)]
    simp
  | succ fe ih =>
    intro i w tab oc rem pre fin0 wprev out fuelD hs hlt hpre hw hwf hoc hprev hrem hfuel
    cases rem with
    | nil =>
      simp only [encGo, emBits, List.flatMap_nil, List.append_nil] at hlt
      rw [decGo_stop maxbits bm body _ pre hlt hpre hw.nlo fuelD (by omega)]
      simp
    | cons b rem' =>
      have h2mb : 2 ^ 10 ≤ 2 ^ maxbits := Nat.pow_le_pow_right (by decide) h10
      by_cases hclr : bm = true ∧ clr i = true
      · -- CLEAR, then the phrase
        obtain ⟨hbm, hci⟩ := hclr
        subst hbm
        simp only [encGo, hci, and_self, if_true, emBits_append] at hs hlt
        have htn : tabNext maxbits (#[] : Array (Nat × UInt8)) oc b = #[(oc, b)] := by
          unfold tabNext
          have : 256 + (#[] : Array (Nat × UInt8)).size < 2 ^ maxbits := by simp; omega
          rw [if_pos this]; rfl
        obtain ⟨hpost1, _⟩ := emitCode_post maxbits h16 w (256 + tab.size) 256 hw
        -- the CLEAR code
        have hs0 : Stream body (pre ++ emBits (emitCode maxbits w (256 + tab.size) 256).1 ++
            (emBits ((0, (emitCode maxbits w (256 + tab.size) 256).2.clear.pos - (emitCode maxbits w (256 + tab.size) 256).2.pos) ::
              (emitCode maxbits (emitCode maxbits w (256 + tab.size) 256).2.clear 256
                (matchGo #[(oc, b)] (loCode true) maxLen b.toNat 1 rem').1).1) ++
             emBits (encGo maxbits true clr maxLen fe (i + 1)
              (emitCode maxbits (emitCode maxbits w (256 + tab.size) 256).2.clear 256
                (matchGo #[(oc, b)] (loCode true) maxLen b.toNat 1 rem').1).2
              #[(oc, b)] (matchGo #[(oc, b)] (loCode true) maxLen b.toNat 1 rem').1
              (matchGo #[(oc, b)] (loCode true) maxLen b.toNat 1 rem').2))) := by
          simpa [List.append_assoc] using hs
        obtain ⟨fuel1, hf1a, hf1b, heq1⟩ := decGo_emit maxbits h16 true body pre _
          { w := w, tab := tab, oldcode := some oc, finchar := fin0, out := out } 256 hs0 hpre hw (by omega)
          (by intro _; omega) fuelD (by omega)
        rw [heq1]
        have hdc : decCode maxbits true
            { w := (emitCode maxbits w (256 + tab.size) 256).2, tab := tab, oldcode := some oc, finchar := fin0, out := out } 256 =
            some { w := (emitCode maxbits w (256 + tab.size) 256).2.clear, tab := #[], oldcode := some oc,
                   finchar := fin0, out := out } := by
          simp [decCode]
        rw [hdc]
        simp only []
        generalize he1 : emitCode maxbits w (256 + tab.size) 256 = e1 at *
        have hw1 : Winv maxbits e1.2 (256 + tab.size) := hpost1.inv _ (by omega) hw.fem
        have hwc : Winv maxbits e1.2.clear 256 := winv_clear maxbits h10 e1.2 _ hw1
        have hal1 : e1.2.pos ≤ e1.2.clear.pos := aligned_ge e1.2 hw1.bp (by have := hw1.nlo; omega)
        -- the phrase after the CLEAR
        have key := decGo_phrase maxbits h16 true body
          (pre ++ emBits e1.1 ++ natToBits (e1.2.clear.pos - e1.2.pos) 0)
          (emBits (encGo maxbits true clr maxLen fe (i + 1)
              (emitCode maxbits e1.2.clear 256 (matchGo #[(oc, b)] (loCode true) maxLen b.toNat 1 rem').1).2
              #[(oc, b)] (matchGo #[(oc, b)] (loCode true) maxLen b.toNat 1 rem').1
              (matchGo #[(oc, b)] (loCode true) maxLen b.toNat 1 rem').2))
          { w := e1.2.clear, tab := #[], oldcode := some oc, finchar := fin0, out := out }
          oc b fin0 wprev rem' maxLen
        simp only [htn, List.size_toArray, List.length_nil, Nat.add_zero] at key
        have hs1 : Stream body (pre ++ emBits e1.1 ++ natToBits (e1.2.clear.pos - e1.2.pos) 0 ++
            emBits (emitCode maxbits e1.2.clear 256 (matchGo #[(oc, b)] (loCode true) maxLen b.toNat 1 rem').1).1 ++
            emBits (encGo maxbits true clr maxLen fe (i + 1)
              (emitCode maxbits e1.2.clear 256 (matchGo #[(oc, b)] (loCode true) maxLen b.toNat 1 rem').1).2
              #[(oc, b)] (matchGo #[(oc, b)] (loCode true) maxLen b.toNat 1 rem').1
              (matchGo #[(oc, b)] (loCode true) maxLen b.toNat 1 rem').2)) := by
          simpa [emBits, List.append_assoc] using hs0
        have hwfE : WfTab (#[(oc, b)] : Array (Nat × UInt8)) (loCode true) := by
          intro j p s hget hlo
          have hj : j = 0 := by
            rcases Nat.eq_zero_or_pos j with h | h
            · exact h
            · have : (#[(oc, b)] : Array (Nat × UInt8))[j]? = none := by simp; omega
              rw [this] at hget; simp at hget
          subst hj; simp [loCode] at hlo
        have hp1 := hpost1.pos
        have hpre1 : (pre ++ emBits e1.1 ++ natToBits (e1.2.clear.pos - e1.2.pos) 0).length = e1.2.clear.pos := by
          simp only [List.length_append, natToBits_length, hpre]; omega
        obtain ⟨hpost2, _⟩ := emitCode_post maxbits h16 e1.2.clear 256
          (matchGo #[(oc, b)] (loCode true) maxLen b.toNat 1 rem').1 hwc
        have hle1 := hs1.le
        simp only [List.length_append, natToBits_length] at hle1
        have hp2 := hpost2.pos
        have ha2 := hpost2.adv9
        have ha1 := hpost1.adv9
        have hT : (emitCode maxbits e1.2.clear 256 (matchGo #[(oc, b)] (loCode true) maxLen b.toNat 1 rem').1).2.pos
            ≤ 8 * body.length := by omega
        have h18 : w.pos + 18 ≤
            (emitCode maxbits e1.2.clear 256 (matchGo #[(oc, b)] (loCode true) maxLen b.toNat 1 rem').1).2.pos := by omega
        obtain ⟨fuel2, w', hf2a, hf2b, hp, hv, happ, heq2⟩ :=
          key hs1 hpre1 hwc (by simp) (by simp) hwfE (by simp) fuel1 (by omega)
        rw [heq2]
        generalize hm : matchGo #[(oc, b)] (loCode true) maxLen b.toNat 1 rem' = m at *
        generalize he2 : emitCode maxbits e1.2.clear 256 m.1 = e2 at *
        have hw'ne : w' ≠ [] := by
          intro h; have := hp.1; rw [h] at this; simp at this
        have hlen : w'.length + m.2.length = rem'.length + 1 := by
          have := congrArg List.length happ; simpa using this
        have hw'len : 0 < w'.length := List.length_pos_iff.mpr hw'ne
        have hlt' : 8 * body.length < (pre ++ emBits e1.1 ++ natToBits (e1.2.clear.pos - e1.2.pos) 0 ++ emBits e2.1 ++
            emBits (encGo maxbits true clr maxLen fe (i + 1) e2.2 #[(oc, b)] m.1 m.2)).length + 8 := by
          simpa [emBits, List.append_assoc, Nat.add_assoc] using hlt
        have := ih (i + 1) e2.2 #[(oc, b)] m.1 m.2
          (pre ++ emBits e1.1 ++ natToBits (e1.2.clear.pos - e1.2.pos) 0 ++ emBits e2.1) b w' (w'.reverse ++ out) fuel2
          hs1 hlt' (by simp only [List.length_append, natToBits_length, hpre]; omega)
          (hpost2.inv _ (by simp) (by simp; omega)) hwfE hv hp (by simp at hrem; omega) (by omega)
        rw [this]
        simp only [List.reverse_append, List.reverse_reverse, List.append_assoc, happ]
      · simp only [encGo, hclr, if_false, emBits_append] at hs hlt
        have hwfE : WfTab (tabNext maxbits tab oc b) (loCode bm) := by
          unfold tabNext; split
          · exact wfTab_push tab (loCode bm) oc b hwf hoc
          · exact hwf
        rw [← List.append_assoc] at hs hlt
        obtain ⟨fuel', w', hf1, hf2, hp, hv, happ, heq⟩ :=
          decGo_phrase maxbits h16 bm body pre _ { w := w, tab := tab, oldcode := some oc, finchar := fin0, out := out }
            oc b fin0 wprev rem' maxLen hs hpre hw rfl rfl hwfE (Or.inl ⟨hoc, hprev⟩) fuelD (by omega)
        rw [heq]
        generalize hm : matchGo (tabNext maxbits tab oc b) (loCode bm) maxLen b.toNat 1 rem' = m at *
        obtain ⟨hpost, _⟩ := emitCode_post maxbits h16 w (256 + tab.size) m.1 hw
        generalize he : emitCode maxbits w (256 + tab.size) m.1 = e at *
        have hw'ne : w' ≠ [] := by
          intro h; have := hp.1; rw [h] at this; simp at this
        have hlen : w'.length + m.2.length = rem'.length + 1 := by
          have := congrArg List.length happ; simpa using this
        have hw'len : 0 < w'.length := List.length_pos_iff.mpr hw'ne
        have hsz : (tabNext maxbits tab oc b).size ≤ tab.size + 1 := by unfold tabNext; split <;> simp
        have hfeE : 256 + (tabNext maxbits tab oc b).size ≤ 2 ^ maxbits := by
          have := hw.fem
          unfold tabNext; split
          · simp; omega
          · omega
        have hposle : e.2.pos ≤ 8 * body.length := by
          have := hs.le
          simp only [List.length_append] at this
          have := hpost.pos
          omega
        have := ih (i + 1) e.2 (tabNext maxbits tab oc b) m.1 m.2 (pre ++ emBits e.1) b w' (w'.reverse ++ out) fuel'
          hs hlt (by simp [hpost.pos, hpre]) (hpost.inv _ (by omega) hfeE) hwfE hv hp (by simp at hrem; omega)
          (by have := hpost.adv9; omega)
        rw [this]
        simp only [List.reverse_append, List.reverse_reverse, List.append_assoc, happ]


theorem stream_packBits (bits : List Bool) : Stream (packBits bits) bits ∧ 8 * (packBits bits).length < bits.length + 8 := by
  refine ⟨⟨streamNat_packBits bits, ?_⟩, ?_⟩ <;> rw [packBits_length] <;> omega

theorem wfTab_init (bm : Bool) : WfTab (initTab bm) (loCode bm) := by
  intro j p s hget hlo
  cases bm with
  | false => simp [initTab] at hget
  | true =>
    have hj : j = 0 := by
      rcases Nat.eq_zero_or_pos j with h | h
      · exact h
      · have : (initTab true)[j]? = none := by simp [initTab]; omega
        rw [this] at hget; simp at hget
    subst hj; simp [loCode] at hlo

/-- **round trip**: the compress(1) decoder model inverts the encoder for every payload, every `maxbits` in
    10..16, block mode on or off, every CLEAR policy and every bound on the phrase length -/
theorem unlzw_lzwEncode (maxbits : Nat) (h10 : 10 ≤ maxbits) (h16 : maxbits ≤ 16) (bm : Bool) (clr : Nat → Bool)
    (maxLen : Nat) (p : Bytes) : unlzw (lzwEncode maxbits bm clr maxLen p) = some p := by
  have hflag : (UInt8.ofNat (maxbits + (if bm then 128 else 0))).toNat = maxbits + (if bm then 128 else 0) := by
    rw [UInt8.toNat_ofNat']; split <;> omega
  have hmbits : (UInt8.ofNat (maxbits + (if bm then 128 else 0))).toNat % 32 = maxbits := by
    rw [hflag]; split <;> omega
  have hbm : ((UInt8.ofNat (maxbits + (if bm then 128 else 0))).toNat / 128 % 2 == 1) = bm := by
    rw [hflag]; cases bm
    · simp; omega
    · simp; omega
  unfold lzwEncode unlzw
  simp only [List.cons_append, List.nil_append, ne_eq, not_true_eq_false, or_self, if_false, hmbits, hbm]
  have hr : ¬ (maxbits < 9 ∨ maxbits > 16) := by omega
  simp only [hr, if_false]
  cases p with
  | nil =>
    simp [lzwEms, emBits, packBits, packGo, decGo, W.init]
  | cons b rem =>
    simp only [lzwEms]
    generalize hrest : encGo maxbits bm clr maxLen rem.length 1 W.init.adv (initTab bm) b.toNat rem = rest
    have hem : emBits ((b.toNat, 9) :: rest) = natToBits 9 b.toNat ++ emBits rest := by simp [emBits]
    rw [hem]
    obtain ⟨hs, hlt⟩ := stream_packBits (natToBits 9 b.toNat ++ emBits rest)
    generalize hbody : packBits (natToBits 9 b.toNat ++ emBits rest) = body at *
    have hle := hs.le
    simp only [List.length_append, natToBits_length] at hle
    have h2mb : 2 ^ 10 ≤ 2 ^ maxbits := Nat.pow_le_pow_right (by decide) h10
    have hsz : (initTab bm).size ≤ 1 := by cases bm <;> simp [initTab]
    -- first code: a 9-bit literal
    have hfuel : 2 * body.length + 4 = (2 * body.length + 3) + 1 := by omega
    rw [hfuel, decGo]
    have hstop : ¬ W.init.pos + W.init.nBits > 8 * body.toArray.size := by
      simp only [List.size_toArray, W.init]; omega
    have hnb : ¬ 256 + (initTab bm).size > W.init.maxcode := by simp only [W.init]; omega
    simp only [hstop, if_false, hnb]
    have hrd : readCode body.toArray W.init.pos W.init.nBits = b.toNat := by
      have hs' : Stream body ([] ++ natToBits 9 b.toNat ++ emBits rest) := by simpa using hs
      exact readCode_at body [] (emBits rest) 9 b.toNat 0 hs' rfl (by decide) (by have := b.toNat_lt; omega)
    rw [hrd]
    have hb256 : ¬ b.toNat ≥ 256 := by have := b.toNat_lt; omega
    simp only [decCode, hb256, if_false]
    have hlit : Phr (initTab bm) b.toNat [b] b := by
      have := phr_lit (initTab bm) b.toNat b.toNat_lt
      simpa using this
    have hw : Winv maxbits W.init.adv (256 + (initTab bm).size) := by
      refine ⟨by simp [W.init, W.adv], by simp [W.init, W.adv], by simp [W.init, W.adv], by omega,
        by simp [W.init, W.adv]; omega, ?_⟩
      left; exact ⟨by simp [W.init, W.adv], by simp [W.init, W.adv]; omega⟩
    have := decGo_encGo maxbits h10 h16 bm clr maxLen body rem.length 1 W.init.adv (initTab bm) b.toNat rem
      (natToBits 9 b.toNat) b [b] [b] (2 * body.length + 3)
      (by rw [hrest]; exact hs) (by rw [hrest]; exact hlt) (by simp [natToBits_length, W.init, W.adv]) hw
      (wfTab_init bm) (Or.inl b.toNat_lt) hlit (Nat.le_refl _) (by simp only [W.init, W.adv]; omega)
    simp only [UInt8.ofNat_toNat] at this ⊢
    rw [this]
    simp

end Xmp.Lzw
