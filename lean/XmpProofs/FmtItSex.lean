import XmpProofs.FmtIt
import XmpProofs.FmtPcm
/-!
# IT 2.14 / 2.15 sample compression: full codec theorem

`decompress (compress raw ++ rest) = some raw` for the width-switching writer of `XmpModel/FmtIt.lean`
(`namespace Sex`) against the model of `src/loaders/itsex.c`, for every width-selection function `wsel`,
8/16 bit, mono/stereo, IT 2.14 and IT 2.15, any length; and the lower bound on the compressed size the
loader's plausibility test relies on.
-/
namespace Xmp.Fmt.It.Sex
open Xmp Xmp.Fmt

/-! ## bits ↔ bytes -/

theorem valBits_zero (n : Nat) : valBits n 0 = List.replicate n false := by
  induction n with
  | zero => rfl
  | succ n ih => rw [valBits_succ, ih]; simp [List.replicate_succ]

theorem bitsVal_lt (t : List Bool) : bitsVal t < 2 ^ t.length := by
  induction t with
  | nil => simp [bitsVal]
  | cons b r ih => simp only [bitsVal, List.length_cons, Nat.pow_succ]; split <;> omega

theorem valBits_bitsVal (t : List Bool) (n : Nat) (h : t.length ≤ n) :
    valBits n (bitsVal t) = t ++ List.replicate (n - t.length) false := by
  induction t generalizing n with
  | nil => simp [bitsVal, valBits_zero]
  | cons b r ih =>
    obtain ⟨m, rfl⟩ : ∃ m, n = m + 1 := ⟨n - 1, by simp at h; omega⟩
    rw [valBits_succ, bitsVal]
    have e1 : ((if b then 1 else 0) + 2 * bitsVal r) / 2 = bitsVal r := by cases b <;> simp <;> omega
    have e2 : decide (((if b then 1 else 0) + 2 * bitsVal r) % 2 = 1) = b := by cases b <;> simp <;> omega
    rw [e1, e2, ih m (by simp at h; omega)]
    simp

theorem byteBits_u8 (v : Nat) (h : v < 256) : byteBits (u8 v) = valBits 8 v := by
  unfold byteBits valBits; rw [u8_toNat_lt h]

theorem toBits_cons (x : UInt8) (r : Bytes) : toBits (x :: r) = byteBits x ++ toBits r := by
  simp [toBits]

theorem toBits_length (b : Bytes) : (toBits b).length = 8 * b.length := by
  induction b with
  | nil => rfl
  | cons x r ih => rw [toBits_cons, List.length_append, ih]; simp [byteBits]; omega

theorem packBits_length (n : Nat) (bits : List Bool) : (packBits n bits).length = n := by
  induction n generalizing bits with
  | zero => rfl
  | succ n ih => simp [packBits, ih]

/-- the bytes written for a bit string read back as that bit string followed by zero padding -/
theorem toBits_packBits (n : Nat) (bits : List Bool) (h : bits.length ≤ 8 * n) :
    toBits (packBits n bits) = bits ++ List.replicate (8 * n - bits.length) false := by
  induction n generalizing bits with
  | zero =>
    have : bits = [] := List.eq_nil_of_length_eq_zero (by omega)
    subst this; rfl
  | succ n ih =>
    have hlt : bitsVal (bits.take 8) < 256 := by
      have h1 := bitsVal_lt (bits.take 8)
      have h2 : (bits.take 8).length ≤ 8 := by simp [List.length_take]; omega
      have h3 : 2 ^ (bits.take 8).length ≤ 2 ^ 8 := Nat.pow_le_pow_right (by omega) h2
      omega
    have hlen : (bits.take 8).length ≤ 8 := by simp [List.length_take]; omega
    rw [packBits, toBits_cons, byteBits_u8 _ hlt, valBits_bitsVal _ 8 hlen,
      ih (bits.drop 8) (by simp [List.length_drop]; omega)]
    by_cases hb : 8 ≤ bits.length
    · have e : (bits.take 8).length = 8 := by simp [List.length_take]; omega
      rw [e, List.length_drop]
      simp only [Nat.sub_self, List.replicate_zero, List.append_nil]
      rw [← List.append_assoc, List.take_append_drop]
      congr 2; omega
    · have e : bits.take 8 = bits := List.take_of_length_le (by omega)
      have e' : bits.drop 8 = [] := List.drop_of_length_le (by omega)
      rw [e, e']
      simp only [List.nil_append, List.length_nil, Nat.sub_zero, List.append_assoc, List.replicate_append_replicate]
      congr 2; omega

theorem rd16le_le16 (n : Nat) (h : n < 65536) : rd16le (le16 n) = n := by
  simp only [le16, rd16le, u8_toNat]; omega

/-! ## one decoder step on what the writer emits -/

/-- what `fits` guarantees about the code `d % 2^w` of a delta at a width below the widest: it is not the
escape code (`w < 7`), it lies outside the width-change window (`7 ≤ w`), and sign extension recovers `d` -/
theorem fits_facts (is16 : Bool) (w d : Nat) (h1 : 1 ≤ w) (h2 : w < (cfg is16).W) (hd : d < (cfg is16).M)
    (hfit : fits (cfg is16) w d = true) :
    (w < 7 → d % 2 ^ w ≠ 2 ^ (w - 1)) ∧
    (7 ≤ w → (d % 2 ^ w ≤ (cfg is16).lo w ∨ d % 2 ^ w > (cfg is16).hi w % 2 ^ 16)) ∧
    signExt (cfg is16) w (d % 2 ^ w) = d := by
  cases is16
  · simp only [cfg, Cfg.M, Bool.false_eq_true, if_false] at h2 hd
    have hw : w = 1 ∨ w = 2 ∨ w = 3 ∨ w = 4 ∨ w = 5 ∨ w = 6 ∨ w = 7 ∨ w = 8 := by omega
    rcases hw with rfl | rfl | rfl | rfl | rfl | rfl | rfl | rfl <;>
      simp [fits, cfg, Cfg.lo, Cfg.hi, Cfg.M, signExt] at hfit ⊢ <;> first | omega | (split <;> omega)
  · simp only [cfg, Cfg.M, if_true] at h2 hd
    have hw : w = 1 ∨ w = 2 ∨ w = 3 ∨ w = 4 ∨ w = 5 ∨ w = 6 ∨ w = 7 ∨ w = 8 ∨ w = 9 ∨ w = 10 ∨ w = 11 ∨ w = 12
       ∨ w = 13 ∨ w = 14 ∨ w = 15 ∨ w = 16 := by omega
    rcases hw with rfl | rfl | rfl | rfl | rfl | rfl | rfl | rfl | rfl | rfl | rfl | rfl | rfl | rfl | rfl | rfl <;>
      simp [fits, cfg, Cfg.lo, Cfg.hi, Cfg.M, signExt] at hfit ⊢ <;> first | omega | (split <;> omega)

/-- the decoder state after one sample with delta `d` (the width is unchanged) -/
def stNext (M : Nat) (st : St) (d : Nat) : St :=
  { st with temp := (d + st.temp) % M, temp2 := (st.temp2 + (d + st.temp) % M) % M }

/-- one decoder step on a value code of any admissible width: same integrator update as at the widest width -/
theorem step_value (is16 it215 : Bool) (st : St) (d : Nat) (rest : List Bool)
    (h1 : 1 ≤ st.left) (h2 : st.left ≤ (cfg is16).W) (hd : d < (cfg is16).M)
    (hfit : fits (cfg is16) st.left d = true) :
    step (cfg is16) it215 st (valBits st.left (d % 2 ^ st.left) ++ rest) =
      .out (if it215 then (st.temp2 + (d + st.temp) % (cfg is16).M) % (cfg is16).M else (d + st.temp) % (cfg is16).M)
        (stNext (cfg is16).M st d) rest := by
  by_cases hW : st.left = (cfg is16).W
  · rw [hW]; exact step_widest is16 it215 st d rest hW hd
  · obtain ⟨h7, h32, hB, hM, _, _⟩ := cfg_facts is16
    obtain ⟨fa, fb, fc⟩ := fits_facts is16 st.left d h1 (by omega) hd hfit
    unfold step
    rw [readBits_valBits _ _ (by omega) (by omega), Nat.mod_mod]
    simp only [fc]
    by_cases h7' : st.left < 7
    · simp only [h7', if_true, fa h7', if_false, stNext]
    · have a2 : st.left < (cfg is16).W := by omega
      simp only [h7', if_false, a2, if_true, fb (by omega), stNext]

theorem widthChange_length_pos (is16 : Bool) (left nw : Nat) (h : 1 ≤ left) :
    1 ≤ (widthChange (cfg is16) left nw).length := by
  obtain ⟨h7, _⟩ := cfg_facts is16
  unfold widthChange
  simp only
  split
  · simp [valBits_length]; omega
  · split <;> simp [valBits_length] <;> omega

theorem newWidth_k (left nw : Nat) (hn1 : 1 ≤ nw) (hn2 : nw ≤ 255) (hne : nw ≠ left) :
    newWidth left (if nw < left then nw else nw - 1) = nw := by
  unfold newWidth
  split <;> split <;> omega

/-- width change from a width below 7: escape code, then the `esc`-bit width field -/
theorem step_change_low (is16 it215 : Bool) (st : St) (nw left : Nat) (rest : List Bool) (hleft : st.left = left)
    (hl1 : 1 ≤ left) (hl2 : left < 7) (hn1 : 1 ≤ nw) (hn2 : nw ≤ (cfg is16).W) (hne : nw ≠ left) :
    step (cfg is16) it215 st (widthChange (cfg is16) left nw ++ rest) = .width nw rest := by
  have hp : 2 ^ (left - 1) % 2 ^ left = 2 ^ (left - 1) :=
    Nat.mod_eq_of_lt (Nat.pow_lt_pow_right (by omega) (by omega))
  have hnw := newWidth_k left nw hn1 (by have := (cfg_facts is16).2.1; omega) hne
  have hk : ((if nw < left then nw else nw - 1) - 1) % 2 ^ (cfg is16).esc + 1 = (if nw < left then nw else nw - 1) := by
    cases is16 <;> simp only [cfg, Bool.false_eq_true, if_false, if_true] at hn2 ⊢ <;> split <;> omega
  have he : 0 < (cfg is16).esc ∧ (cfg is16).esc < 32 := by cases is16 <;> simp [cfg]
  unfold step widthChange
  simp only [hleft, hl2, if_true, List.append_assoc]
  rw [readBits_valBits _ _ hl1 (by omega), hp]
  simp only [if_true]
  rw [readBits_valBits _ _ he.1 he.2]
  simp only [hk, hnw]

theorem mid_facts (is16 : Bool) (left nw : Nat) (h7 : 7 ≤ left) (hW : left < (cfg is16).W)
    (hn1 : 1 ≤ nw) (hn2 : nw ≤ (cfg is16).W) (hne : nw ≠ left) (k : Nat) (hk : k = if nw < left then nw else nw - 1) :
    ((cfg is16).lo left + k) % 2 ^ left = (cfg is16).lo left + k ∧
    ¬ ((cfg is16).lo left + k ≤ (cfg is16).lo left ∨ (cfg is16).lo left + k > (cfg is16).hi left % 2 ^ 16) := by
  have hk1 : 1 ≤ k := by subst hk; split <;> omega
  cases is16
  · simp only [cfg, Bool.false_eq_true, if_false] at hW hn2
    have hk2 : k ≤ 8 := by subst hk; split <;> omega
    have hw : left = 7 ∨ left = 8 := by omega
    rcases hw with rfl | rfl <;> simp [cfg, Cfg.lo, Cfg.hi] <;> omega
  · simp only [cfg, if_true] at hW hn2
    have hk2 : k ≤ 16 := by subst hk; split <;> omega
    have hw : left = 7 ∨ left = 8 ∨ left = 9 ∨ left = 10 ∨ left = 11 ∨ left = 12
       ∨ left = 13 ∨ left = 14 ∨ left = 15 ∨ left = 16 := by omega
    rcases hw with rfl | rfl | rfl | rfl | rfl | rfl | rfl | rfl | rfl | rfl <;> simp [cfg, Cfg.lo, Cfg.hi] <;> omega

/-- width change from a width `7 ≤ left < W`: one code inside the window `(lo, hi]` -/
theorem step_change_mid (is16 it215 : Bool) (st : St) (nw left : Nat) (rest : List Bool) (hleft : st.left = left)
    (h7 : 7 ≤ left) (hW : left < (cfg is16).W) (hn1 : 1 ≤ nw) (hn2 : nw ≤ (cfg is16).W) (hne : nw ≠ left) :
    step (cfg is16) it215 st (widthChange (cfg is16) left nw ++ rest) = .width nw rest := by
  have h32 := (cfg_facts is16).2.1
  have hnw := newWidth_k left nw hn1 (by omega) hne
  obtain ⟨k1, k2⟩ := mid_facts is16 left nw h7 hW hn1 hn2 hne _ rfl
  have a1 : ¬ (left < 7) := by omega
  unfold step widthChange
  simp only [hleft, a1, hW, if_true, if_false]
  rw [readBits_valBits _ _ (by omega) (by omega), k1]
  simp only [k2, if_false, Nat.add_sub_cancel_left, hnw]

/-- width change from the widest width: a code with the top bit set -/
theorem step_change_top (is16 it215 : Bool) (st : St) (nw : Nat) (rest : List Bool) (hleft : st.left = (cfg is16).W)
    (hn1 : 1 ≤ nw) (hn2 : nw < (cfg is16).W) :
    step (cfg is16) it215 st (widthChange (cfg is16) (cfg is16).W nw ++ rest) = .width nw rest := by
  obtain ⟨h7, h32, hB, hM, hMB, hM'⟩ := cfg_facts is16
  have a1 : ¬ ((cfg is16).W < 7) := by omega
  have a2 : ¬ ((cfg is16).W < (cfg is16).W) := by omega
  have a3 : ¬ ((cfg is16).W ≥ (cfg is16).W + 1) := by omega
  have e : ((cfg is16).M + nw - 1) % 2 ^ (cfg is16).W = (cfg is16).M + nw - 1 := by
    apply Nat.mod_eq_of_lt
    cases is16 <;> simp only [cfg, Cfg.M, Bool.false_eq_true, if_false, if_true] at hn2 ⊢ <;> omega
  have a4 : (cfg is16).M + nw - 1 ≥ (cfg is16).M := by omega
  have a5 : ((cfg is16).M + nw - 1 + 1) % 256 = nw := by rcases hM' with h | h <;> rw [h] <;> omega
  unfold step widthChange
  simp only [hleft, a1, a2, if_false]
  rw [readBits_valBits _ _ (by omega) h32, e]
  simp only [a3, a4, if_true, if_false, a5]

/-- **one decoder step on the writer's width-change code**, all three regimes -/
theorem step_change (is16 it215 : Bool) (st : St) (nw : Nat) (rest : List Bool)
    (hl1 : 1 ≤ st.left) (hl2 : st.left ≤ (cfg is16).W) (hn1 : 1 ≤ nw) (hn2 : nw ≤ (cfg is16).W) (hne : nw ≠ st.left) :
    step (cfg is16) it215 st (widthChange (cfg is16) st.left nw ++ rest) = .width nw rest := by
  by_cases c1 : st.left < 7
  · exact step_change_low is16 it215 st nw st.left rest rfl hl1 c1 hn1 hn2 hne
  · by_cases c2 : st.left < (cfg is16).W
    · exact step_change_mid is16 it215 st nw st.left rest rfl (by omega) c2 hn1 hn2 hne
    · have e : st.left = (cfg is16).W := by omega
      rw [e]
      exact step_change_top is16 it215 st nw rest e hn1 (by omega)

/-! ## one block at bit level, arbitrary width selection -/

/-- the width the writer uses for a delta `d` when it would like `want` and is at `left` -/
def target (c : Cfg) (want left d : Nat) : Nat :=
  if want ≠ 0 ∧ want ≤ c.W ∧ fits c want d then want else if fits c left d then left else c.W

theorem encDeltas_cons (c : Cfg) (wsel : Nat → Nat) (d : Nat) (r : List Nat) (i left : Nat) :
    encDeltas c wsel (d :: r) i left =
      (if target c (wsel i) left d ≠ left then widthChange c left (target c (wsel i) left d) else []) ++
        valBits (target c (wsel i) left d) (d % 2 ^ target c (wsel i) left d) ++
        encDeltas c wsel r (i + 1) (target c (wsel i) left d) := rfl

theorem target_facts (c : Cfg) (want left d : Nat) (h1 : 1 ≤ left) (h2 : left ≤ c.W) :
    1 ≤ target c want left d ∧ target c want left d ≤ c.W ∧ fits c (target c want left d) d = true := by
  have hW : fits c c.W d = true := by simp [fits]
  unfold target
  split
  · next h => exact ⟨by omega, h.2.1, h.2.2⟩
  · split
    · next h => exact ⟨h1, h2, h⟩
    · exact ⟨by omega, Nat.le_refl _, hW⟩

theorem integ_cons (M : Nat) (it215 : Bool) (d : Nat) (r : List Nat) (temp temp2 : Nat) :
    integ M it215 (d :: r) temp temp2 =
      (if it215 then (temp2 + (d + temp) % M) % M else (d + temp) % M) ::
        integ M it215 r ((d + temp) % M) ((temp2 + (d + temp) % M) % M) := rfl

/-- **one block, bit level, any width selection**: the `itsex.c` model run on the writer's bits (followed by
anything) integrates the deltas; every decoder iteration consumes at least one bit, so fuel = number of bits suffices -/
theorem decBlock_encDeltas (is16 it215 : Bool) (wsel : Nat → Nat) (ds : List Nat) (hds : ∀ d ∈ ds, d < (cfg is16).M)
    (i left : Nat) (st : St) (hl : st.left = left) (hl1 : 1 ≤ left) (hl2 : left ≤ (cfg is16).W)
    (fuel : Nat) (hf : (encDeltas (cfg is16) wsel ds i left).length ≤ fuel) (rest : List Bool) :
    decBlock (cfg is16) it215 fuel ds.length st (encDeltas (cfg is16) wsel ds i left ++ rest) =
      some (integ (cfg is16).M it215 ds st.temp st.temp2) := by
  induction ds generalizing i left st fuel with
  | nil => cases fuel <;> simp [decBlock, integ]
  | cons d r ih =>
    obtain ⟨t1, t2, t3⟩ := target_facts (cfg is16) (wsel i) left d hl1 hl2
    have hd := hds d (by simp)
    rw [encDeltas_cons] at hf ⊢
    generalize target (cfg is16) (wsel i) left d = t at *
    by_cases hne : t = left
    · subst hne
      simp only [ne_eq, not_true_eq_false, if_false, List.nil_append, List.length_append, valBits_length] at hf ⊢
      obtain ⟨f, rfl⟩ : ∃ f, fuel = f + 1 := ⟨fuel - 1, by omega⟩
      rw [List.append_assoc, List.length_cons, decBlock, ← hl,
        step_value is16 it215 st d _ (by omega) (by omega) hd (by rw [hl]; exact t3)]
      simp only
      rw [hl, ih (fun x hx => hds x (by simp [hx])) (i + 1) t (stNext (cfg is16).M st d) hl t1 t2 f (by omega)]
      simp [integ_cons, stNext]
    · have hwl := widthChange_length_pos is16 left t hl1
      simp only [ne_eq, hne, not_false_eq_true, if_true, List.length_append, valBits_length] at hf ⊢
      obtain ⟨f, rfl⟩ : ∃ f, fuel = f + 2 := ⟨fuel - 2, by omega⟩
      rw [List.append_assoc, List.append_assoc, List.length_cons, decBlock, ← hl,
        step_change is16 it215 st t _ (by omega) (by omega) t1 t2 (by omega)]
      simp only
      have e : valBits t (d % 2 ^ t) = valBits ({ st with left := t } : St).left (d % 2 ^ ({ st with left := t } : St).left) := rfl
      rw [decBlock, e, step_value is16 it215 { st with left := t } d _ t1 t2 hd t3]
      simp only
      rw [ih (fun x hx => hds x (by simp [hx])) (i + 1) t (stNext (cfg is16).M { st with left := t } d) rfl t1 t2 f
        (by omega)]
      simp [integ_cons, stNext]

/-! ## block framing -/

theorem encDeltas_length_ge (c : Cfg) (wsel : Nat → Nat) (ds : List Nat) (i left : Nat) (h1 : 1 ≤ left) (h2 : left ≤ c.W) :
    ds.length ≤ (encDeltas c wsel ds i left).length := by
  induction ds generalizing i left with
  | nil => simp
  | cons d r ih =>
    obtain ⟨t1, t2, _⟩ := target_facts c (wsel i) left d h1 h2
    rw [encDeltas_cons]
    have := ih (i + 1) _ t1 t2
    simp only [List.length_append, valBits_length, List.length_cons]
    omega

theorem encDeltas_widest_length (is16 : Bool) (ds : List Nat) (i : Nat) :
    (encDeltas (cfg is16) (fun _ => 0) ds i (cfg is16).W).length = ds.length * (cfg is16).W := by
  rw [encDeltas_widest]
  induction ds with
  | nil => simp
  | cons d r ih => simp only [List.flatMap_cons, List.length_append, valBits_length, ih, List.length_cons, Nat.succ_mul]; omega

/-- a block is a 16-bit byte count followed by that many bytes holding the bits of *some* width selection
(the writer's, or the widest-code fallback), and the count fits its field -/
theorem encBlock_eq (is16 it215 : Bool) (wsel : Nat → Nat) (xs : List Nat) (i : Nat) (hx : xs.length ≤ (cfg is16).blk) :
    ∃ w' : Nat → Nat,
      encBlock (cfg is16) it215 wsel xs i =
        le16 (((encDeltas (cfg is16) w' (deltas (cfg is16) it215 xs 0 0) i (cfg is16).W).length + 7) / 8) ++
        packBits (((encDeltas (cfg is16) w' (deltas (cfg is16) it215 xs 0 0) i (cfg is16).W).length + 7) / 8)
          (encDeltas (cfg is16) w' (deltas (cfg is16) it215 xs 0 0) i (cfg is16).W) ∧
      ((encDeltas (cfg is16) w' (deltas (cfg is16) it215 xs 0 0) i (cfg is16).W).length + 7) / 8 ≤ 65535 := by
  by_cases h : ((encDeltas (cfg is16) wsel (deltas (cfg is16) it215 xs 0 0) i (cfg is16).W).length + 7) / 8 > 65535
  · refine ⟨fun _ => 0, ?_, ?_⟩
    · unfold encBlock; simp only [h, if_true]
    · rw [encDeltas_widest_length, deltas_length]
      cases is16 <;> simp only [cfg, Bool.false_eq_true, if_false, if_true] at hx ⊢ <;> omega
  · refine ⟨wsel, ?_, by omega⟩
    unfold encBlock; simp only [h, if_false]

theorem encBlock_length_ge (is16 it215 : Bool) (wsel : Nat → Nat) (xs : List Nat) (i : Nat) :
    xs.length ≤ 8 * (encBlock (cfg is16) it215 wsel xs i).length := by
  obtain ⟨h7, _⟩ := cfg_facts is16
  have g (w' : Nat → Nat) := encDeltas_length_ge (cfg is16) w' (deltas (cfg is16) it215 xs 0 0) i (cfg is16).W (by omega) (Nat.le_refl _)
  simp only [deltas_length] at g
  unfold encBlock
  simp only [List.length_append, packBits_length]
  split
  · have := g (fun _ => 0); omega
  · have := g wsel; omega

/-- one block of the channel decoder -/
theorem decChan_block (is16 it215 : Bool) (wsel : Nat → Nat) (f len : Nat) (xs : List Nat) (i : Nat) (tail : Bytes)
    (hx : ∀ x ∈ xs, x < (cfg is16).M) (hlen0 : len ≠ 0)
    (hxl : xs.length = if (cfg is16).blk > len then len else (cfg is16).blk) :
    decChan (cfg is16) it215 (f + 1) len (encBlock (cfg is16) it215 wsel xs i ++ tail) =
      (decChan (cfg is16) it215 f (len - xs.length) tail).map fun (ys, r) => (xs ++ ys, r) := by
  obtain ⟨h7, _, _, _, _, hM⟩ := cfg_facts is16
  have hpos : 0 < (cfg is16).M := by rcases hM with h | h <;> omega
  obtain ⟨w', he, hn⟩ := encBlock_eq is16 it215 wsel xs i (by rw [hxl]; split <;> omega)
  rw [he]
  generalize hbits : encDeltas (cfg is16) w' (deltas (cfg is16) it215 xs 0 0) i (cfg is16).W = bits at *
  generalize hnn : (bits.length + 7) / 8 = n at *
  have hpl := packBits_length n bits
  have e1 : (le16 n ++ packBits n bits ++ tail).take 2 = le16 n := by
    rw [List.append_assoc]; exact List.take_left' rfl
  have e2 : rd16le (le16 n) = n := rd16le_le16 n (by omega)
  have e3 : ((le16 n ++ packBits n bits ++ tail).drop 2).take n = packBits n bits := by
    have : (le16 n ++ (packBits n bits ++ tail)).drop 2 = packBits n bits ++ tail := List.drop_left' rfl
    rw [List.append_assoc, this]; exact List.take_left' hpl
  have e4 : (le16 n ++ packBits n bits ++ tail).drop (2 + n) = tail := by
    apply List.drop_left'; simp [hpl, le16]; omega
  have e5 : decBlock (cfg is16) it215 (8 * n + 8 + xs.length) xs.length { left := (cfg is16).W } (toBits (packBits n bits)) = some xs := by
    rw [toBits_packBits n bits (by omega), ← hbits]
    have := decBlock_encDeltas is16 it215 w' (deltas (cfg is16) it215 xs 0 0) (deltas_lt is16 it215 xs 0 0) i (cfg is16).W
      { left := (cfg is16).W } rfl (by omega) (Nat.le_refl _) (8 * n + 8 + xs.length) (by rw [hbits]; omega)
      (List.replicate (8 * n - bits.length) false)
    rw [deltas_length, hbits] at this
    rw [hbits, this]
    congr 1
    exact integ_deltas is16 it215 xs hx 0 0 0 0 hpos hpos (by cases it215 <;> simp)
  rw [decChan]
  simp only [hlen0, if_false, e1, e2, e3, e4, ← hxl, e5, hpl, Nat.lt_irrefl]
  simp [le16]

theorem decChan_zero (c : Cfg) (it215 : Bool) (f : Nat) (bs : Bytes) : decChan c it215 (f + 1) 0 bs = some ([], bs) := by
  simp [decChan]

/-- **one channel**: the channel decoder on the channel writer's bytes (followed by anything) -/
theorem decChan_encChan (is16 it215 : Bool) (wsel : Nat → Nat) (fe : Nat) :
    ∀ (fd : Nat) (xs : List Nat) (i : Nat) (rest : Bytes), (∀ x ∈ xs, x < (cfg is16).M) →
      xs.length ≤ fe * (cfg is16).blk → xs.length ≤ fd * (cfg is16).blk →
      decChan (cfg is16) it215 (fd + 1) xs.length (encChan (cfg is16) it215 wsel fe xs i ++ rest) = some (xs, rest) := by
  have hbpos : 0 < (cfg is16).blk := by cases is16 <;> simp [cfg]
  induction fe with
  | zero =>
    intro fd xs i rest _ h1 _
    have : xs = [] := List.eq_nil_of_length_eq_zero (by simpa using h1)
    subst this
    simp [encChan, decChan_zero]
  | succ fe ih =>
    intro fd xs i rest hx h1 h2
    by_cases hnil : xs = []
    · subst hnil; simp [encChan, decChan_zero]
    · have hlen : xs.length ≠ 0 := fun h => hnil (List.eq_nil_of_length_eq_zero h)
      have hemp : xs.isEmpty = false := by cases xs <;> simp_all
      rw [encChan]
      simp only [hemp, Bool.false_eq_true, if_false]
      cases fd with
      | zero => simp at h2; exact absurd h2 hnil
      | succ fd =>
        rw [Nat.succ_mul] at h1 h2
        rw [List.append_assoc, decChan_block is16 it215 wsel (fd + 1) xs.length (xs.take (cfg is16).blk) i _
          (fun x hx' => hx x (List.mem_of_mem_take hx')) hlen (by rw [List.length_take]; split <;> omega)]
        have hd : xs.length - (xs.take (cfg is16).blk).length = (xs.drop (cfg is16).blk).length := by
          rw [List.length_take, List.length_drop]; omega
        rw [hd, ih fd (xs.drop (cfg is16).blk) (i + (cfg is16).blk) rest (fun x hx' => hx x (List.mem_of_mem_drop hx'))
          (by rw [List.length_drop]; omega) (by rw [List.length_drop]; omega)]
        simp

theorem encChan_length_ge (is16 it215 : Bool) (wsel : Nat → Nat) (fe : Nat) :
    ∀ (xs : List Nat) (i : Nat), xs.length ≤ fe * (cfg is16).blk →
      xs.length ≤ 8 * (encChan (cfg is16) it215 wsel fe xs i).length := by
  induction fe with
  | zero => intro xs i h; simp at h; simp [h]
  | succ fe ih =>
    intro xs i h
    by_cases hnil : xs = []
    · subst hnil; simp
    · have hemp : xs.isEmpty = false := by cases xs <;> simp_all
      rw [encChan]
      simp only [hemp, Bool.false_eq_true, if_false, List.length_append]
      rw [Nat.succ_mul] at h
      have a := encBlock_length_ge is16 it215 wsel (xs.take (cfg is16).blk) i
      have b := ih (xs.drop (cfg is16).blk) (i + (cfg is16).blk) (by rw [List.length_drop]; omega)
      rw [List.length_take] at a
      rw [List.length_drop] at b
      omega

/-! ## samples ↔ bytes -/

theorem chanVals_lt (is16 : Bool) (b : Bytes) : ∀ x ∈ chanVals is16 b, x < (cfg is16).M := by
  intro x hx
  cases is16
  · simp only [chanVals, Bool.false_eq_true, if_false, List.mem_map] at hx
    obtain ⟨y, _, rfl⟩ := hx
    have := y.toNat_lt
    simpa [cfg, Cfg.M] using this
  · simp only [chanVals, if_true] at hx
    have := words_lt b x hx
    simpa [cfg, Cfg.M] using this

theorem chanVals_length (is16 : Bool) (b : Bytes) (len : Nat) (h : b.length = len * (if is16 then 2 else 1)) :
    (chanVals is16 b).length = len := by
  cases is16
  · simpa [chanVals] using h
  · simp only [chanVals, if_true]
    exact words_length len b (by simp at h; omega)

theorem valsBytes_chanVals (is16 : Bool) (b : Bytes) (len : Nat) (h : b.length = len * (if is16 then 2 else 1)) :
    valsBytes is16 (chanVals is16 b) = b := by
  cases is16
  · simp only [valsBytes, chanVals, Bool.false_eq_true, if_false, List.map_map]
    conv => rhs; rw [← List.map_id b]
    apply List.map_congr_left
    intro x _
    simp [u8]
  · simp only [valsBytes, chanVals, if_true]
    exact unwords_words len b (by simp at h; omega)

/-- one channel with the fuels of `compress` / `decompress` -/
theorem decChan_one (is16 it215 : Bool) (wsel : Nat → Nat) (len : Nat) (vals : List Nat)
    (hv : ∀ x ∈ vals, x < (cfg is16).M) (hl : vals.length = len) (i : Nat) (rest : Bytes) :
    decChan (cfg is16) it215 (len / (cfg is16).blk + 2) len
      (encChan (cfg is16) it215 wsel (len / (cfg is16).blk + 2) vals i ++ rest) = some (vals, rest) := by
  subst hl
  apply decChan_encChan is16 it215 wsel _ (vals.length / (cfg is16).blk + 1) vals i rest hv <;>
    cases is16 <;> simp only [cfg, Bool.false_eq_true, if_false, if_true] <;> omega

theorem chanBytes_eq (flg : Nat) : chanBytes flg = if decide (flg &&& F16BIT ≠ 0) = true then 2 else 1 := by
  unfold chanBytes; by_cases h : flg &&& F16BIT ≠ 0 <;> simp [h]

/-! ## the codec theorem -/

/-- **IT 2.14 / 2.15 sample compression codec**: for every sample format (8/16 bit, mono/stereo), both
compression flavours, every length, every width-selection strategy of the writer and whatever follows the
compressed data in the file, the model of `itsex.c` decodes the writer's output back to the PCM bytes. -/
theorem decompress_compress (flg len : Nat) (it215 : Bool) (wsel : Nat → Nat) (raw rest : Bytes)
    (hlen : raw.length = len * frameBytes flg) :
    decompress flg len it215 (compress flg len it215 wsel raw ++ rest) = some raw := by
  rw [frameBytes_eq, chanBytes_eq] at hlen
  unfold decompress compress
  rw [chanBytes_eq]
  generalize decide (flg &&& F16BIT ≠ 0) = is16 at *
  by_cases hs : flg &&& FSTEREO ≠ 0
  · simp only [if_pos hs] at hlen ⊢
    rw [← Nat.mul_assoc] at hlen
    have hl1 : (raw.take (len * if is16 = true then 2 else 1)).length = len * (if is16 = true then 2 else 1) := by
      rw [List.length_take]; omega
    have hl2 : (raw.drop (len * if is16 = true then 2 else 1)).length = len * (if is16 = true then 2 else 1) := by
      rw [List.length_drop]; omega
    rw [List.append_assoc,
      decChan_one is16 it215 wsel len _ (chanVals_lt is16 _) (chanVals_length is16 _ len hl1) 0]
    simp only
    rw [decChan_one is16 it215 wsel len _ (chanVals_lt is16 _) (chanVals_length is16 _ len hl2) len]
    simp only
    rw [valsBytes_chanVals is16 _ len hl1, valsBytes_chanVals is16 _ len hl2, List.take_append_drop]
  · simp only [if_neg hs, Nat.mul_one] at hlen ⊢
    rw [decChan_one is16 it215 wsel len _ (chanVals_lt is16 _) (chanVals_length is16 _ len hlen) 0]
    simp only
    rw [valsBytes_chanVals is16 _ len hlen]

/-- every sample costs at least one bit: the compressed data is never shorter than `len * channels / 8` bytes,
the lower bound `load_it_sample` demands of the rest of the file before it attempts decompression -/
theorem compress_length_ge (flg len : Nat) (it215 : Bool) (wsel : Nat → Nat) (raw : Bytes)
    (hlen : raw.length = len * frameBytes flg) :
    len * (if flg &&& FSTEREO ≠ 0 then 2 else 1) / 8 ≤ (compress flg len it215 wsel raw).length := by
  rw [frameBytes_eq, chanBytes_eq] at hlen
  unfold compress
  rw [chanBytes_eq]
  generalize decide (flg &&& F16BIT ≠ 0) = is16 at *
  have hf : len ≤ (len / (cfg is16).blk + 2) * (cfg is16).blk := by
    cases is16 <;> simp only [cfg, Bool.false_eq_true, if_false, if_true] <;> omega
  by_cases hs : flg &&& FSTEREO ≠ 0
  · simp only [if_pos hs, List.length_append] at hlen ⊢
    rw [← Nat.mul_assoc] at hlen
    have hl1 : (raw.take (len * if is16 = true then 2 else 1)).length = len * (if is16 = true then 2 else 1) := by
      rw [List.length_take]; omega
    have hl2 : (raw.drop (len * if is16 = true then 2 else 1)).length = len * (if is16 = true then 2 else 1) := by
      rw [List.length_drop]; omega
    have a := encChan_length_ge is16 it215 wsel (len / (cfg is16).blk + 2) (chanVals is16 (raw.take (len * if is16 = true then 2 else 1))) 0
      (by rw [chanVals_length is16 _ len hl1]; exact hf)
    have b := encChan_length_ge is16 it215 wsel (len / (cfg is16).blk + 2) (chanVals is16 (raw.drop (len * if is16 = true then 2 else 1))) len
      (by rw [chanVals_length is16 _ len hl2]; exact hf)
    rw [chanVals_length is16 _ len hl1] at a
    rw [chanVals_length is16 _ len hl2] at b
    omega
  · simp only [if_neg hs, Nat.mul_one] at hlen ⊢
    have a := encChan_length_ge is16 it215 wsel (len / (cfg is16).blk + 2) (chanVals is16 raw) 0
      (by rw [chanVals_length is16 _ len hlen]; exact hf)
    rw [chanVals_length is16 _ len hlen] at a
    omega

/-! ## non-vacuity -/

/-- 16-bit stereo, IT 2.15, three frames, width wishes 4, 7, 12 (left channel) and 3, 17, 1 (right channel):
the hypothesis of `decompress_compress` is satisfiable and the instance is a real stream followed by a foreign byte -/
example :
    decompress 129 3 true
      (compress 129 3 true (fun i => [4, 7, 12, 3, 17, 1].getD i 0)
        [0x10, 0x00, 0x12, 0x00, 0x0f, 0x00, 0xff, 0x7f, 0x00, 0x80, 0x34, 0x12] ++ [0xAA]) =
      some [0x10, 0x00, 0x12, 0x00, 0x0f, 0x00, 0xff, 0x7f, 0x00, 0x80, 0x34, 0x12] :=
  decompress_compress 129 3 true _ _ _ (by decide)

/-- the width selection matters: this stream really contains width-change codes of the regimes `left = W`,
`left < 7` and `7 ≤ left < W` and differs from the widest-code stream of the same samples -/
example :
    compress 0 10 false (fun i => [3, 3, 3, 1, 1, 8, 9, 7, 2, 2].getD i 0) [1, 2, 3, 3, 3, 4, 200, 100, 101, 102] =
      [10, 0, 2, 147, 16, 116, 192, 32, 49, 78, 1, 11] ∧
    compress 0 10 false (fun _ => 0) [1, 2, 3, 3, 3, 4, 200, 100, 101, 102] =
      [12, 0, 1, 2, 4, 0, 0, 32, 0, 49, 78, 1, 2, 0] := by
  decide +kernel

example : 10 * 1 / 8 ≤ (compress 0 10 false (fun i => [3, 3, 3, 1, 1, 8, 9, 7, 2, 2].getD i 0)
    [1, 2, 3, 3, 3, 4, 200, 100, 101, 102]).length :=
  compress_length_ge 0 10 false _ _ (by decide)

end Xmp.Fmt.It.Sex
