import XmpProofs.LoadPost
/-!
# Loader obligations ⇒ the per-loader clauses of `WF` (property C03)

`finish_shape` collects what a successful `finish` leaves of every field of the
raw module; the clause lemmas below derive `rowsOK`, `subsOK`, `samplesOK`,
`envelopesOK`, `namesOK`, `rstOK` of the result from the matching clause of
`LoaderOblig raw`.
-/
namespace Xmp.LoadPost
open Xmp.Gen.Limits

/-- field by field: the result of a successful `finish` in terms of the raw module -/
structure Shape (raw m : Module) : Prop where
  pat : m.pat = clampC raw.pat 0 epiPatMax
  chn : m.chn = clampC raw.chn 0 xmpMaxChannels
  ins : m.ins = clampC raw.ins 0 epiInsMax
  smp : m.smp = clampC raw.smp 0 maxSamples
  len : m.len = clampC raw.len 0 xmpMaxModLength ∨ m.len = 0
  trk : m.trk = raw.trk
  xxt : m.xxt = raw.xxt
  pats : ∀ i q, raw.pattern? i = some q → m.pattern? i = some q
  name : m.name = adjustString raw.name
  typ : m.typ = raw.typ
  rst : m.rst = if raw.rst ≥ clampC raw.len 0 xmpMaxModLength then 0 else raw.rst
  xxi : m.xxi = (adjustNames raw).xxi.mapIdx fun i x =>
      if (i : Int) < clampC raw.ins 0 epiInsMax then epilogueIns raw.volbase raw.insvol x else x
  xxs : m.xxs = (adjustNames raw).xxs.mapIdx (smpStepS (clampC raw.smp 0 maxSamples) (adjustNames raw).xtra)

theorem finish_shape {scan : Nat → ScanRes} {raw m : Module} (h : finish scan raw = .ok m) : Shape raw m := by
  obtain ⟨_, p, hp, hs⟩ := finish_ok h
  obtain ⟨_, _, hcase⟩ := prepareScan_ok hp
  obtain ⟨st, _, hm⟩ := scanSequences_ok hs
  refine ⟨?_, ?_, ?_, ?_, ?_, ?_, ?_, ?_, ?_, ?_, ?_, ?_, ?_⟩
  · subst hm; rcases hcase with hc | ⟨_, _, hc⟩ <;> subst hc <;> rfl
  · subst hm; rcases hcase with hc | ⟨_, _, hc⟩ <;> subst hc <;> rfl
  · subst hm; rcases hcase with hc | ⟨_, _, hc⟩ <;> subst hc <;> rfl
  · subst hm; rcases hcase with hc | ⟨_, _, hc⟩ <;> subst hc <;> rfl
  · subst hm; rcases hcase with hc | ⟨_, _, hc⟩ <;> subst hc
    · right; rfl
    · left; rfl
  · subst hm; rcases hcase with hc | ⟨_, _, hc⟩ <;> subst hc <;> rfl
  · subst hm; rcases hcase with hc | ⟨_, _, hc⟩ <;> subst hc <;> rfl
  · intro i q hq
    subst hm; rcases hcase with hc | ⟨_, _, hc⟩ <;> subst hc
    · exact hq
    · exact pattern?_prepareXxp (epilogue (adjustNames raw)) i q hq _ rfl
  · subst hm; rcases hcase with hc | ⟨_, _, hc⟩ <;> subst hc <;> rfl
  · subst hm; rcases hcase with hc | ⟨_, _, hc⟩ <;> subst hc <;> rfl
  · subst hm; rcases hcase with hc | ⟨_, _, hc⟩ <;> subst hc <;> rfl
  · subst hm; rcases hcase with hc | ⟨_, _, hc⟩ <;> subst hc <;> rfl
  · subst hm; rcases hcase with hc | ⟨_, _, hc⟩ <;> subst hc <;> rfl

/-! ### rows -/

theorem rows_of {raw m : Module} (sh : Shape raw m) (h : rowsOK (clampCounts raw) = true) : rowsOK m = true := by
  unfold rowsOK at h ⊢
  rw [allBelow_iff] at h ⊢
  intro i hi
  have hi' : (i : Int) < (clampCounts raw).pat := by rw [sh.pat] at hi; exact hi
  have := h i hi'
  have hpq : (clampCounts raw).pattern? i = raw.pattern? i := rfl
  rw [hpq] at this
  cases hq : raw.pattern? i with
  | none => simp [hq] at this
  | some q =>
    rw [sh.pats i q hq]
    simp only [hq, Bool.and_eq_true] at this ⊢
    refine ⟨this.1, ?_⟩
    have hc : m.chn = (clampCounts raw).chn := sh.chn
    rw [hc]
    have ht : ∀ t, m.track? t = (clampCounts raw).track? t := by
      intro t; unfold Module.track?; rw [sh.xxt]; rfl
    simp only [ht]
    exact this.2

/-! ### sub-instruments -/

theorem xxi_get {raw m : Module} (sh : Shape raw m) (i : Nat) (hi : (i : Int) < clampC raw.ins 0 epiInsMax) :
    m.xxi[i]? = (raw.xxi[i]?).map fun x =>
      epilogueIns raw.volbase raw.insvol { x with name := adjustString x.name } := by
  have hi1 : (i : Int) < raw.ins := clampC_lt_imp hi
  rw [sh.xxi]
  simp only [adjustNames, List.getElem?_mapIdx, Option.map_map]
  cases raw.xxi[i]? with
  | none => rfl
  | some x => simp only [Option.map_some, Function.comp, hi, hi1, if_true]

theorem subs_of {raw m : Module} (sh : Shape raw m) (h : subsOK (clampCounts raw) = true) : subsOK m = true := by
  unfold subsOK at h ⊢
  rw [allBelow_iff] at h ⊢
  intro i hi
  have hi' : (i : Int) < clampC raw.ins 0 epiInsMax := by rw [sh.ins] at hi; exact hi
  have := h i hi'
  rw [xxi_get sh i hi']
  have hx : (clampCounts raw).xxi = raw.xxi := rfl
  rw [hx] at this
  cases hq : raw.xxi[i]? with
  | none => simp [hq] at this
  | some x =>
    simp only [hq, Option.map_some] at this ⊢
    simp only [Bool.or_eq_true, decide_eq_true_eq] at this ⊢
    rcases this with h1 | h1
    · left; exact h1
    · right
      show (epilogueIns raw.volbase raw.insvol { x with name := adjustString x.name }).sub.isSome = true
      unfold epilogueIns
      simp only
      split
      · exact h1
      · cases hs : x.sub with
        | none => simp [hs] at h1
        | some l => rfl

/-! ### envelopes -/

/-- `check_envelope` plus the lower-bound obligation give the statement's clause -/
theorem checkEnvelope_envOK' (e : Envelope) (h : envLowerOblig e = true) : envOK (checkEnvelope e) = true := by
  unfold envLowerOblig at h
  unfold envOK checkEnvelope
  have hm : (xmpMaxEnvPoints : Int) = 32 := by decide
  simp only [hm] at h ⊢
  cases hon : e.on <;> cases hl : e.floop <;> cases hs : e.fsus <;> simp [hon, hl, hs] at h ⊢ <;> omega

theorem clampVol_envOK (vb : Int) (e : Envelope) (h : envOK e = true) : envOK (clampVolumeEnvelope vb e) = true := h

theorem envelopes_of {raw m : Module} (sh : Shape raw m) (h : envelopesLowerOblig (clampCounts raw) = true) :
    envelopesOK m = true := by
  unfold envelopesLowerOblig at h
  unfold envelopesOK
  rw [allBelow_iff] at h ⊢
  intro i hi
  have hi' : (i : Int) < clampC raw.ins 0 epiInsMax := by rw [sh.ins] at hi; exact hi
  have := h i hi'
  rw [xxi_get sh i hi']
  have hx : (clampCounts raw).xxi = raw.xxi := rfl
  rw [hx] at this
  cases hq : raw.xxi[i]? with
  | none => simp [hq] at this
  | some x =>
    simp only [hq, Option.map_some, Bool.and_eq_true] at this ⊢
    obtain ⟨⟨h1, h2⟩, h3⟩ := this
    exact ⟨⟨clampVol_envOK _ _ (checkEnvelope_envOK' _ h1), checkEnvelope_envOK' _ h2⟩, checkEnvelope_envOK' _ h3⟩

/-! ### samples -/

theorem epilogueLoop_sampleOK (s : Sample) (h : sampleOblig s = true) : sampleOK (epilogueLoop s) = true := by
  cases hd : s.hasData with
  | false =>
    have : epilogueLoop s = s := by unfold epilogueLoop; simp [hd]
    rw [this]; simp [sampleOK, hd]
  | true =>
    simp only [sampleOblig, hd, Bool.not_true, Bool.false_or, Bool.and_eq_true, decide_eq_true_eq] at h
    obtain ⟨hlen, hg⟩ := h
    have hr := epilogueLoop_range s
    have e1 : (epilogueLoop s).hasData = true := by unfold epilogueLoop; split <;> exact hd
    have e2 : (epilogueLoop s).len = s.len := by unfold epilogueLoop; split <;> rfl
    have e3 : (epilogueLoop s).guardOK = s.guardOK := by unfold epilogueLoop; split <;> rfl
    simp only [sampleRangeOK, e1, e2, Bool.not_true, Bool.false_or, Bool.or_eq_true, Bool.and_eq_true,
      decide_eq_true_eq, Bool.not_eq_true'] at hr
    simp only [sampleOK, e1, e2, e3, Bool.not_true, Bool.false_or, Bool.and_eq_true, Bool.or_eq_true,
      decide_eq_true_eq, Bool.not_eq_true']
    rcases hr with hr | hr
    · omega
    · exact ⟨hr, hg⟩

theorem sampleOK_core (s : Sample) (sus sue : Int) :
    sampleOK (if sus ≥ s.len ∨ sus ≥ sue then
       (({ s with fsloop := false, fsloopBidir := false } : Sample), ({ sus := 0, sue := 0 } : Xtra))
     else (s, { sus := sus, sue := sue })).1 = sampleOK s := by
  split <;> rfl

theorem epilogueSmp_sampleOK (s : Sample) (x : Xtra) : sampleOK (epilogueSmp s x).1 = sampleOK s := by
  unfold epilogueSmp
  exact sampleOK_core s _ _

theorem xxs_get {raw m : Module} (sh : Shape raw m) (i : Nat) (hi : (i : Int) < clampC raw.smp 0 maxSamples) :
    m.xxs[i]? = (raw.xxs[i]?).map fun s =>
      smpStepS (clampC raw.smp 0 maxSamples) raw.xtra i { s with name := adjustString s.name } := by
  have hi1 : (i : Int) < raw.smp := clampC_lt_imp hi
  rw [sh.xxs]
  simp only [adjustNames, List.getElem?_mapIdx, Option.map_map]
  cases raw.xxs[i]? with
  | none => rfl
  | some x => simp only [Option.map_some, Function.comp, hi1, if_true]

theorem samples_of {raw m : Module} (sh : Shape raw m) (h : samplesOblig (clampCounts raw) = true) :
    samplesOK m = true := by
  unfold samplesOblig at h
  unfold samplesOK
  rw [allBelow_iff] at h ⊢
  intro i hi
  have hi' : (i : Int) < clampC raw.smp 0 maxSamples := by rw [sh.smp] at hi; exact hi
  have := h i hi'
  rw [xxs_get sh i hi']
  have hx : (clampCounts raw).xxs = raw.xxs := rfl
  rw [hx] at this
  cases hq : raw.xxs[i]? with
  | none => simp [hq] at this
  | some s0 =>
    simp only [hq, Option.map_some] at this ⊢
    have hob : sampleOblig { s0 with name := adjustString s0.name } = true := this
    simp only [smpStepS, hi', if_true]
    cases raw.xtra[i]? with
    | none => exact epilogueLoop_sampleOK _ hob
    | some x0 => simp only; rw [epilogueSmp_sampleOK]; exact epilogueLoop_sampleOK _ hob

/-! ### names -/

theorem names_of {raw m : Module} (sh : Shape raw m) (h : namesOK (clampCounts raw) = true) : namesOK m = true := by
  unfold namesOK at h ⊢
  simp only [Bool.and_eq_true] at h ⊢
  obtain ⟨⟨⟨h1, h2⟩, h3⟩, h4⟩ := h
  refine ⟨⟨⟨?_, ?_⟩, ?_⟩, ?_⟩
  · rw [sh.name]; exact adjustString_hasNul _ h1
  · rw [sh.typ]; exact h2
  · rw [allBelow_iff] at h3 ⊢
    intro i hi
    have hi' : (i : Int) < clampC raw.ins 0 epiInsMax := by rw [sh.ins] at hi; exact hi
    have := h3 i hi'
    rw [xxi_get sh i hi']
    have hx : (clampCounts raw).xxi = raw.xxi := rfl
    rw [hx] at this
    cases hq : raw.xxi[i]? with
    | none => simp [hq] at this
    | some x =>
      simp only [hq, Option.map_some] at this ⊢
      show hasNul (adjustString x.name) = true
      exact adjustString_hasNul _ this
  · rw [allBelow_iff] at h4 ⊢
    intro i hi
    have hi' : (i : Int) < clampC raw.smp 0 maxSamples := by rw [sh.smp] at hi; exact hi
    have := h4 i hi'
    rw [xxs_get sh i hi']
    have hx : (clampCounts raw).xxs = raw.xxs := rfl
    rw [hx] at this
    cases hq : raw.xxs[i]? with
    | none => simp [hq] at this
    | some x =>
      simp only [hq, Option.map_some] at this ⊢
      rw [smpStepS_name]
      exact adjustString_hasNul _ this

/-! ### restart position -/

theorem rst_of {raw m : Module} (sh : Shape raw m) (h : 0 ≤ raw.rst) : 0 ≤ m.rst := by
  rw [sh.rst]; split <;> omega

/-! ## Converse: the obligations are necessary

Apart from `names` (a raw name without NUL is undefined behaviour in
`libxmp_adjust_string`; the model's fallback may terminate it) every clause of
`LoaderOblig raw` follows from `WF` of the result: an obligation failure on a
real load is a failure of the property itself, never a false alarm. -/

theorem rows_conv {raw m : Module} (sh : Shape raw m) (hg : ∀ i : Nat, (i : Int) < raw.pat → raw.patOK i = true)
    (h : rowsOK m = true) : rowsOK (clampCounts raw) = true := by
  unfold rowsOK at h ⊢
  rw [allBelow_iff] at h ⊢
  intro i hi
  have hi' : (i : Int) < m.pat := by rw [sh.pat]; exact hi
  have := h i hi'
  have hpq : (clampCounts raw).pattern? i = raw.pattern? i := rfl
  rw [hpq]
  have hgi := hg i (clampC_lt_imp hi)
  unfold Module.patOK at hgi
  cases hq : raw.pattern? i with
  | none => simp [hq] at hgi
  | some q =>
    rw [sh.pats i q hq] at this
    simp only [Bool.and_eq_true] at this ⊢
    refine ⟨this.1, ?_⟩
    have hc : m.chn = (clampCounts raw).chn := sh.chn
    rw [hc] at this
    have ht : ∀ t, m.track? t = (clampCounts raw).track? t := by
      intro t; unfold Module.track?; rw [sh.xxt]; rfl
    simp only [ht] at this
    exact this.2

theorem subs_conv {raw m : Module} (sh : Shape raw m) (h : subsOK m = true) : subsOK (clampCounts raw) = true := by
  unfold subsOK at h ⊢
  rw [allBelow_iff] at h ⊢
  intro i hi
  have hi' : (i : Int) < clampC raw.ins 0 epiInsMax := hi
  have := h i (by rw [sh.ins]; exact hi')
  rw [xxi_get sh i hi'] at this
  have hx : (clampCounts raw).xxi = raw.xxi := rfl
  rw [hx]
  cases hq : raw.xxi[i]? with
  | none => simp [hq] at this
  | some x =>
    simp only [hq, Option.map_some] at this ⊢
    simp only [Bool.or_eq_true, decide_eq_true_eq] at this ⊢
    rcases this with h1 | h1
    · left; exact h1
    · right
      have h2 : (epilogueIns raw.volbase raw.insvol { x with name := adjustString x.name }).sub.isSome = true := h1
      unfold epilogueIns at h2
      simp only at h2
      split at h2
      · exact h2
      · cases hs : x.sub with
        | none => simp [hs] at h2
        | some l => rfl

theorem checkEnvelope_envOK_conv (e : Envelope) (h : envOK (checkEnvelope e) = true) : envLowerOblig e = true := by
  unfold envLowerOblig
  unfold envOK checkEnvelope at h
  have hm : (xmpMaxEnvPoints : Int) = 32 := by decide
  simp only [hm] at h ⊢
  cases hon : e.on <;> cases hl : e.floop <;> cases hs : e.fsus <;> simp [hon, hl, hs] at h ⊢ <;> omega

theorem envelopes_conv {raw m : Module} (sh : Shape raw m) (h : envelopesOK m = true) :
    envelopesLowerOblig (clampCounts raw) = true := by
  unfold envelopesOK at h
  unfold envelopesLowerOblig
  rw [allBelow_iff] at h ⊢
  intro i hi
  have hi' : (i : Int) < clampC raw.ins 0 epiInsMax := hi
  have := h i (by rw [sh.ins]; exact hi')
  rw [xxi_get sh i hi'] at this
  have hx : (clampCounts raw).xxi = raw.xxi := rfl
  rw [hx]
  cases hq : raw.xxi[i]? with
  | none => simp [hq] at this
  | some x =>
    simp only [hq, Option.map_some, Bool.and_eq_true] at this ⊢
    obtain ⟨⟨h1, h2⟩, h3⟩ := this
    exact ⟨⟨checkEnvelope_envOK_conv _ h1, checkEnvelope_envOK_conv _ h2⟩, checkEnvelope_envOK_conv _ h3⟩

theorem epilogueLoop_sampleOK_conv (s : Sample) (h : sampleOK (epilogueLoop s) = true) : sampleOblig s = true := by
  cases hd : s.hasData with
  | false => simp [sampleOblig, hd]
  | true =>
    have e1 : (epilogueLoop s).hasData = true := by unfold epilogueLoop; split <;> exact hd
    have e2 : (epilogueLoop s).len = s.len := by unfold epilogueLoop; split <;> rfl
    have e3 : (epilogueLoop s).guardOK = s.guardOK := by unfold epilogueLoop; split <;> rfl
    simp only [sampleOK, e1, e2, e3, Bool.not_true, Bool.false_or, Bool.and_eq_true, Bool.or_eq_true,
      decide_eq_true_eq, Bool.not_eq_true'] at h
    simp only [sampleOblig, hd, Bool.not_true, Bool.false_or, Bool.and_eq_true, decide_eq_true_eq]
    obtain ⟨⟨⟨⟨a, b⟩, c⟩, _⟩, g⟩ := h
    exact ⟨by omega, g⟩

theorem samples_conv {raw m : Module} (sh : Shape raw m) (h : samplesOK m = true) :
    samplesOblig (clampCounts raw) = true := by
  unfold samplesOK at h
  unfold samplesOblig
  rw [allBelow_iff] at h ⊢
  intro i hi
  have hi' : (i : Int) < clampC raw.smp 0 maxSamples := hi
  have := h i (by rw [sh.smp]; exact hi')
  rw [xxs_get sh i hi'] at this
  have hx : (clampCounts raw).xxs = raw.xxs := rfl
  rw [hx]
  cases hq : raw.xxs[i]? with
  | none => simp [hq] at this
  | some s0 =>
    simp only [hq, Option.map_some] at this ⊢
    simp only [smpStepS, hi', if_true] at this
    show sampleOblig { s0 with name := adjustString s0.name } = true
    cases hxt : raw.xtra[i]? with
    | none => rw [hxt] at this; exact epilogueLoop_sampleOK_conv _ this
    | some x0 =>
      rw [hxt] at this; simp only at this
      rw [epilogueSmp_sampleOK] at this
      exact epilogueLoop_sampleOK_conv _ this

theorem rst_conv {raw m : Module} (sh : Shape raw m) (h : 0 ≤ m.rst) : 0 ≤ raw.rst := by
  have l1 := @clampC_ge raw.len 0 xmpMaxModLength (by omega)
  rw [sh.rst] at h; split at h <;> omega

end Xmp.LoadPost
