import XmpModel.Control
namespace Xmp.Control
end Xmp.Control
