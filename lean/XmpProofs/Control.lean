import XmpModel.Control
/-! Helper lemmas for the C17 theorems over `Xmp.Control`. -/
namespace Xmp.Control

/-- order `p` exists and holds a pattern (for marker modules: not a 0xfe/0xff marker). -/
def Valid (m : CMod) (p : Int) : Prop :=
  0 ≤ p ∧ p < m.len ∧ m.xxoAt p < m.pat ∧ (m.marker = true → m.xxoAt p < 0xfe)

/-- order `p` holds a pattern and belongs to sequence `q` (whose entry point is not after `p`:
the scan only assigns orders from the entry point on; monitored per module by the check). -/
def Member (m : CMod) (p q : Int) : Prop :=
  Valid m p ∧ m.seqOf p = q ∧ 0 ≤ q ∧ q ≠ 0xff ∧ 0 ≤ m.entry q ∧ m.entry q ≤ p

instance (m : CMod) (p : Int) : Decidable (Valid m p) := by unfold Valid; infer_instance
instance (m : CMod) (p q : Int) : Decidable (Member m p q) := by unfold Member; infer_instance

/-- the state `set_position` leaves behind when it accepts order `p` for sequence `seq`. -/
def landed (m : CMod) (s : St) (seq p : Int) : St :=
  let sc := m.seqAt seq
  let f1 : Flow := if p > sc.scanOrd then { s.f with endPoint := 0 }
    else { s.f with numRows := m.rowsOf (m.xxoAt p), endPoint := sc.scanNum, jumpline := 0 }
  { s with sequence := seq, pos := (if p = 0 then -1 else p), f := resetFlow f1 }

theorem skipMarkers_nomark (m : CMod) (dir start : Int) (n : Nat) (pos : Int)
    (h : ¬(m.marker = true ∧ m.xxoAt pos = 0xfe)) :
    skipMarkers m dir start (n + 1) pos = some pos := by
  simp [skipMarkers, h]

theorem valid_nomark {m : CMod} {p : Int} (h : Valid m p) : ¬(m.marker = true ∧ m.xxoAt p = 0xfe) := by
  intro ⟨hm, hx⟩
  have := h.2.2.2 hm
  omega

theorem valid_noend {m : CMod} {p : Int} (h : Valid m p) : ¬(m.marker = true ∧ m.xxoAt p = 0xff) := by
  intro ⟨hm, hx⟩
  have := h.2.2.2 hm
  omega

/-- `set_position` on an order holding a pattern, for a real sequence id. -/
theorem setPosition_valid (m : CMod) (s : St) (p dir seq : Int) (hv : Valid m p)
    (hseq : seq = if dir = 0 then m.seqOf p else s.sequence) (h1 : seq ≠ 0xff) (h2 : 0 ≤ seq) :
    setPosition m s p dir = some (landed m s seq p) := by
  obtain ⟨hp0, hpl, hpat, hmk⟩ := hv
  have hnm := valid_nomark ⟨hp0, hpl, hpat, hmk⟩
  have hne := valid_noend ⟨hp0, hpl, hpat, hmk⟩
  unfold setPosition
  simp only [← hseq]
  have h3 : ¬ seq < 0 := by omega
  simp only [h1, h3, if_false, hp0, hpl, and_self, if_true, skipFuel, skipMarkers_nomark m dir _ _ p hnm]
  simp only [if_true, hpat, hne, if_false]
  unfold landed
  by_cases hso : p > (m.seqAt seq).scanOrd <;> simp [hso]

/-- the state in which the reposition block of `xmp_play_frame` leaves the player when the
target is order `t` of the current sequence. -/
def entered (m : CMod) (s : St) (t ep : Int) : St :=
  let o := m.infoAt t
  let f1 : Flow := { s.f with endPoint := ep, jumpline := 0, jump := -1,
                              numRows := m.rowsOf (m.xxoAt t), jumpInPat := -1 }
  { s with ord := t, pos := t, row := 0, frame := 0,
           speed := (if o.speed ≠ 0 then o.speed else s.speed), bpm := o.bpm, gvol := o.gvl,
           time := o.time, st26 := o.st26,
           f := (if m.lpReset then { f1 with loopStart := -1, loopCount := 0 } else f1) }

/-- `end_point` as recomputed by the reposition block for a target `t`. -/
def repoEndPoint (m : CMod) (s : St) (t : Int) : Int :=
  let sc := m.seqAt s.sequence
  let ep1 := if t = sc.entry then sc.scanNum else s.f.endPoint
  if t > sc.scanOrd then 0 else ep1

theorem nextOrderLoop_valid (m : CMod) (seq : Int) (n : Nat) (t : Int) (rg : Bool) (hv : Valid m t) :
    nextOrderLoop m seq (n + 1) (t - 1) rg = some (t, rg) := by
  obtain ⟨hp0, hpl, hpat, hmk⟩ := hv
  have hne := valid_noend ⟨hp0, hpl, hpat, hmk⟩
  have h1 : ¬ (t ≥ m.len) := by omega
  have h2 : ¬ (m.pat ≤ m.xxoAt t) := by omega
  have hmark : ¬(m.marker = true ∧ t < m.len ∧ m.xxoAt t = 255) := fun ⟨a, _, c⟩ => hne ⟨a, c⟩
  simp [nextOrderLoop, nextOrderStep, h1, hmark, h2]

/-- The reposition block enters exactly the pending order when it holds a pattern and is not
before the entry point of the current sequence (`pos = -1` stands for the entry point). -/
theorem reposition_valid (m : CMod) (s : St) (t : Int) (hv : Valid m t)
    (hpos : s.pos = t ∨ (s.pos = -1 ∧ m.entry s.sequence = t)) (hent : m.entry s.sequence ≤ t) :
    reposition m s = some (entered m s t (repoEndPoint m s t)) := by
  have hpos1 : (if s.pos = -1 then (m.seqAt s.sequence).entry else s.pos) = t := by
    rcases hpos with h | ⟨h, h'⟩
    · have : ¬ (s.pos = -1) := by have := hv.1; omega
      rw [if_neg this]; exact h
    · rw [if_pos h]; exact h'
  have hord : (if t - 1 < (m.seqAt s.sequence).entry then (m.seqAt s.sequence).entry - 1 else t - 1) = t - 1 := by
    have : (m.seqAt s.sequence).entry ≤ t := hent
    split <;> omega
  unfold reposition
  simp only [hpos1, hord, nextOrder, orderFuel]
  rw [show (600 : Nat) = 599 + 1 from rfl, nextOrderLoop_valid m _ 599 t false hv]
  simp only [Option.map_some]
  unfold entered repoEndPoint updateFromOrdInfo
  by_cases hl : m.lpReset = true <;> simp [hl]

/-- `check_end_of_module` only touches the loop counter and `end_point`. -/
theorem checkEnd_fields (m : CMod) (s : St) :
    (checkEnd m s).ord = s.ord ∧ (checkEnd m s).pos = s.pos ∧ (checkEnd m s).row = s.row ∧
    (checkEnd m s).frame = s.frame ∧ (checkEnd m s).sequence = s.sequence ∧
    (checkEnd m s).speed = s.speed ∧ (checkEnd m s).bpm = s.bpm ∧ (checkEnd m s).gvol = s.gvol ∧
    (checkEnd m s).time = s.time ∧ (checkEnd m s).playing = s.playing ∧
    (checkEnd m s).f.numRows = s.f.numRows := by
  unfold checkEnd
  by_cases h1 : s.ord = (m.seqAt s.sequence).scanOrd ∧ s.row = (m.seqAt s.sequence).scanRow
  · by_cases h2 : s.f.endPoint = 0 <;> simp [h1, h2]
  · simp [h1]

theorem checkEnd_loopCount (m : CMod) (s : St)
    (h : ¬(s.ord = (m.seqAt s.sequence).scanOrd ∧ s.row = (m.seqAt s.sequence).scanRow ∧ s.f.endPoint = 0)) :
    (checkEnd m s).loopCount = s.loopCount := by
  unfold checkEnd
  by_cases h1 : s.ord = (m.seqAt s.sequence).scanOrd ∧ s.row = (m.seqAt s.sequence).scanRow
  · by_cases h2 : s.f.endPoint = 0
    · exact absurd ⟨h1.1, h1.2, h2⟩ h
    · simp [h1, h2]
  · simp [h1]

/-- `xmp_play_frame` with a reposition pending. -/
theorem playFrame_pending (m : CMod) (s : St) (hp : s.playing = true) (hl : 0 < m.len)
    (hend : ¬(m.marker = true ∧ m.xxoAt s.ord = 0xff)) (hne : s.ord ≠ s.pos) (hstop : s.pos ≠ -2) :
    playFrame m s = (reposition m s).map fun s' =>
      ⟨0, some s', if s'.frame = 0 then checkEnd m s' else s'⟩ := by
  have h1 : ¬ (m.len ≤ 0) := by omega
  simp [playFrame, hp, h1, hend, hne, hstop]

/-- Entering order `t` through the reposition block: what the frame reports. -/
theorem playFrame_enters (m : CMod) (s : St) (t : Int) (hp : s.playing = true)
    (hend : ¬(m.marker = true ∧ m.xxoAt s.ord = 0xff)) (hne : s.ord ≠ s.pos) (hstop : s.pos ≠ -2)
    (hv : Valid m t) (hpos : s.pos = t ∨ (s.pos = -1 ∧ m.entry s.sequence = t))
    (hent : m.entry s.sequence ≤ t) :
    playFrame m s = some ⟨0, some (entered m s t (repoEndPoint m s t)),
                          checkEnd m (entered m s t (repoEndPoint m s t))⟩ := by
  have hl : 0 < m.len := by have := hv.1; have := hv.2.1; omega
  rw [playFrame_pending m s hp hl hend hne hstop, reposition_valid m s t hv hpos hent]
  simp [entered]

end Xmp.Control
