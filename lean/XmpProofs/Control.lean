import XmpModel.Control
/-! Helper lemmas for the C17 theorems over `Xmp.Control`. -/
namespace Xmp.Control

/-- order `p` exists and holds a pattern (for marker modules: not a 0xfe/0xff marker). -/
def Valid (m : CMod) (p : Int) : Prop :=
  0 ≤ p ∧ p < m.len ∧ m.xxoAt p < m.pat ∧ (m.marker = true → m.xxoAt p < 0xfe)

/-- order `p` holds a pattern and belongs to sequence `q` (whose entry point is not after `p`:
the scan only assigns orders from the entry point on; monitored per module by the check). -/
def Member (m : CMod) (p q : Int) : Prop :=
  Valid m p ∧ m.seqOf p = q ∧ 0 ≤ q ∧ q ≠ 0xff ∧ 0 ≤ m.entry q ∧ m.entry q ≤ p

instance (m : CMod) (p : Int) : Decidable (Valid m p) := by unfold Valid; infer_instance
instance (m : CMod) (p q : Int) : Decidable (Member m p q) := by unfold Member; infer_instance

/-- the state `set_position` leaves behind when it accepts order `p` for sequence `seq`. -/
def landed (m : CMod) (s : St) (seq p : Int) : St :=
  let sc := m.seqAt seq
  let f1 : Flow := if p > sc.scanOrd then { s.f with endPoint := 0 }
    else { s.f with endPoint := sc.scanNum, jumpline := 0 }
  { s with sequence := seq, pos := (if p = 0 then -1 else p), f := resetFlow f1 }

theorem skipMarkers_nomark (m : CMod) (dir start : Int) (n : Nat) (pos : Int)
    (h : ¬(m.marker = true ∧ m.xxoAt pos = 0xfe)) :
    skipMarkers m dir start (n + 1) pos = some pos := by
  simp [skipMarkers, h]

theorem valid_nomark {m : CMod} {p : Int} (h : Valid m p) : ¬(m.marker = true ∧ m.xxoAt p = 0xfe) := by
  intro ⟨hm, hx⟩
  have := h.2.2.2 hm
  omega

theorem valid_noend {m : CMod} {p : Int} (h : Valid m p) : ¬(m.marker = true ∧ m.xxoAt p = 0xff) := by
  intro ⟨hm, hx⟩
  have := h.2.2.2 hm
  omega

theorem skipInvalid_valid (m : CMod) (n : Nat) (p : Int) (h : m.xxoAt p < m.pat) :
    skipInvalid m n p = p := by
  cases n with
  | zero => rfl
  | succ k =>
    have : ¬ (m.pat ≤ m.xxoAt p) := by omega
    simp [skipInvalid, this]

/-- `set_position(pos, dir)` when the marker/invalid skipping ends on an order `t` that holds a
pattern and (for `dir ≠ 0`) belongs to the sequence: the call accepts `t`. -/
theorem setPosition_target (m : CMod) (s : St) (pos dir seq t1 t : Int)
    (hpos : 0 ≤ pos ∧ pos < m.len)
    (hseq : seq = if dir = 0 then m.seqOf pos else s.sequence)
    (h1 : seq ≠ 0xff) (h2 : 0 ≤ seq)
    (hsk : skipMarkers m dir (m.entry seq) (skipFuel m) pos = some t1)
    (ht : t = if dir > 0 then skipInvalid m (skipFuel m) t1 else t1)
    (hv : Valid m t) (hmem : dir ≠ 0 → m.seqOf t = seq) :
    setPosition m s pos dir = some (landed m s seq t) := by
  obtain ⟨hp0, hpl, hpat, hmk⟩ := hv
  have hne := valid_noend ⟨hp0, hpl, hpat, hmk⟩
  unfold setPosition
  simp only [← hseq]
  have h3 : ¬ seq < 0 := by omega
  have h4 : ¬ (t ≥ m.len) := by omega
  have h5 : ¬ (dir ≠ 0 ∧ (t ≥ m.len ∨ (m.marker = true ∧ m.xxoAt t = 0xff) ∨ m.seqOf t ≠ seq)) := by
    rintro ⟨hd, h | h | h⟩
    · exact h4 h
    · exact hne h
    · exact h (hmem hd)
  simp only [h1, h3, if_false, hpos, and_self, if_true, hsk, Option.map_some]
  unfold setPositionAt
  simp only [← ht, hpl, if_true, h5, if_false]
  simp only [hpat, hne, if_true, if_false]
  unfold landed setPositionFin
  by_cases hso : t > (m.seqAt seq).scanOrd <;> simp [hso, hpl]

/-- `set_position` on an order holding a pattern, for a real sequence id (for `dir ≠ 0` the
order must belong to the current sequence). -/
theorem setPosition_valid (m : CMod) (s : St) (p dir seq : Int) (hv : Valid m p)
    (hseq : seq = if dir = 0 then m.seqOf p else s.sequence) (hmem : m.seqOf p = seq)
    (h1 : seq ≠ 0xff) (h2 : 0 ≤ seq) :
    setPosition m s p dir = some (landed m s seq p) := by
  have hnm := valid_nomark hv
  apply setPosition_target m s p dir seq p p ⟨hv.1, hv.2.1⟩ hseq h1 h2
  · simp only [skipFuel]; exact skipMarkers_nomark m dir _ _ p hnm
  · rw [skipInvalid_valid m _ p hv.2.2.1]; simp
  · exact hv
  · intro _; exact hmem

/-- the order at which the skipping of `set_position` ends is refused for `dir ≠ 0` when it is
past the list, the end marker, or an order of another sequence: the state does not change. -/
theorem setPosition_stay (m : CMod) (s : St) (pos dir t1 t : Int) (hd : dir ≠ 0)
    (hpos : 0 ≤ pos ∧ pos < m.len) (h1 : s.sequence ≠ 0xff) (h2 : 0 ≤ s.sequence)
    (hsk : skipMarkers m dir (m.entry s.sequence) (skipFuel m) pos = some t1)
    (ht : t = if dir > 0 then skipInvalid m (skipFuel m) t1 else t1)
    (hout : t ≥ m.len ∨ (m.marker = true ∧ m.xxoAt t = 0xff) ∨ m.seqOf t ≠ s.sequence) :
    setPosition m s pos dir = some s := by
  unfold setPosition
  have h3 : ¬ s.sequence < 0 := by omega
  have h5 : (dir ≠ 0 ∧ (t ≥ m.len ∨ (m.marker = true ∧ (if t < m.len then m.xxoAt t else 0xff) = 0xff) ∨
      m.seqOf t ≠ s.sequence)) := by
    refine ⟨hd, ?_⟩
    rcases hout with h | h | h
    · exact Or.inl h
    · by_cases hl : t < m.len
      · right; left; simp [hl, h]
      · left; omega
    · exact Or.inr (Or.inr h)
  simp only [hd, if_false, h1, h3, hpos, and_self, if_true, hsk, Option.map_some]
  unfold setPositionAt
  simp only [← ht]
  rw [if_pos h5]

/-- the marker loop of `set_position` terminates within `len + 1` iterations. -/
theorem skipMarkers_isSome (m : CMod) (dir start : Int) (n : Nat) (pos : Int)
    (hb : dir < 0 → (pos - start).toNat < n) (hf : ¬ dir < 0 → (m.len - pos).toNat < n) :
    (skipMarkers m dir start n pos).isSome = true := by
  induction n generalizing pos with
  | zero =>
    by_cases hd : dir < 0
    · exact absurd (hb hd) (by omega)
    · exact absurd (hf hd) (by omega)
  | succ k ih =>
    unfold skipMarkers
    split
    · by_cases hd : dir < 0
      · simp only [hd, if_true]
        split
        · apply ih
          · intro _; have := hb hd; omega
          · intro h; exact absurd hd h
        · rfl
      · simp only [hd, if_false]
        split
        · rfl
        · apply ih
          · intro h; exact absurd h hd
          · intro _; have := hf hd; omega
    · rfl

/-- `set_position` always returns (no call can hang), for modules whose entry points are ≥ 0. -/
theorem setPosition_isSome (m : CMod) (s : St) (pos dir : Int) (he : ∀ q, 0 ≤ m.entry q) :
    (setPosition m s pos dir).isSome = true := by
  unfold setPosition
  generalize (if dir = 0 then m.seqOf pos else s.sequence) = seq
  by_cases h1 : seq = 0xff
  · simp [h1]
  · by_cases h2 : seq < 0
    · simp [h1, h2]
    · by_cases h3 : 0 ≤ pos ∧ pos < m.len
      · simp only [h1, h2, h3, and_self, if_false, if_true, Option.isSome_map]
        apply skipMarkers_isSome
        · intro _; have := he seq; simp only [skipFuel]; omega
        · intro _; simp only [skipFuel]; omega
      · simp [h1, h2, h3]

/-- the pass-over loop really ends: with fuel `≥ len - pos` the result is past the list, holds a
pattern, or is the end marker. -/
theorem skipInvalid_exit (m : CMod) (n : Nat) (pos : Int) (h : (m.len - pos).toNat ≤ n) :
    ¬ (skipInvalid m n pos < m.len ∧ m.xxoAt (skipInvalid m n pos) ≥ m.pat ∧
       ¬(m.marker = true ∧ m.xxoAt (skipInvalid m n pos) = 0xff)) := by
  induction n generalizing pos with
  | zero =>
    simp only [skipInvalid]
    intro ⟨h1, _⟩
    omega
  | succ k ih =>
    unfold skipInvalid
    split
    · apply ih; omega
    · assumption

/-- the state in which the reposition block of `xmp_play_frame` leaves the player when the
target is order `t` of the current sequence. -/
def entered (m : CMod) (s : St) (t ep : Int) : St :=
  let o := m.infoAt t
  let f1 : Flow := { s.f with endPoint := ep, jumpline := 0, jump := -1,
                              numRows := m.rowsOf (m.xxoAt t), jumpInPat := -1 }
  { s with ord := t, pos := t, row := 0, frame := 0,
           speed := (if o.speed ≠ 0 then o.speed else s.speed), bpm := o.bpm, gvol := o.gvl,
           time := o.time, st26 := o.st26,
           f := (if m.lpReset then { f1 with loopStart := -1, loopCount := 0 } else f1) }

theorem entered_fields (m : CMod) (s : St) (t ep : Int) :
    (entered m s t ep).ord = t ∧ (entered m s t ep).pos = t ∧ (entered m s t ep).row = 0 ∧
    (entered m s t ep).frame = 0 ∧ (entered m s t ep).sequence = s.sequence ∧
    (entered m s t ep).speed = (if (m.infoAt t).speed ≠ 0 then (m.infoAt t).speed else s.speed) ∧
    (entered m s t ep).bpm = (m.infoAt t).bpm ∧ (entered m s t ep).gvol = (m.infoAt t).gvl ∧
    (entered m s t ep).time = (m.infoAt t).time ∧ (entered m s t ep).loopCount = s.loopCount ∧
    (entered m s t ep).playing = s.playing ∧ (entered m s t ep).f.endPoint = ep := by
  by_cases hl : m.lpReset = true <;> simp [entered, hl]

theorem entered_flow (m : CMod) (s : St) (t ep : Int) :
    (entered m s t ep).f.pbreak = s.f.pbreak ∧ (entered m s t ep).f.jump = -1 ∧
    (entered m s t ep).f.jumpline = 0 ∧ (entered m s t ep).f.delay = s.f.delay ∧
    (entered m s t ep).f.rowdelay = s.f.rowdelay ∧ (entered m s t ep).f.loopDest = s.f.loopDest ∧
    (entered m s t ep).f.numRows = m.rowsOf (m.xxoAt t) ∧
    (entered m s t ep).f.loopStart = (if m.lpReset then -1 else s.f.loopStart) ∧
    (entered m s t ep).f.loopCount = (if m.lpReset then 0 else s.f.loopCount) := by
  by_cases hl : m.lpReset = true <;> simp [entered, hl]

/-- `end_point` as recomputed by the reposition block for a target `t`. -/
def repoEndPoint (m : CMod) (s : St) (t : Int) : Int :=
  let sc := m.seqAt s.sequence
  let ep1 := if t = sc.entry then sc.scanNum else s.f.endPoint
  if t > sc.scanOrd then 0 else ep1

theorem nextOrderLoop_valid (m : CMod) (seq : Int) (n : Nat) (t : Int) (rg : Bool) (hv : Valid m t) :
    nextOrderLoop m seq (n + 1) (t - 1) rg = some (t, rg) := by
  obtain ⟨hp0, hpl, hpat, hmk⟩ := hv
  have hne := valid_noend ⟨hp0, hpl, hpat, hmk⟩
  have h1 : ¬ (t ≥ m.len) := by omega
  have h2 : ¬ (m.pat ≤ m.xxoAt t) := by omega
  have hmark : ¬(m.marker = true ∧ t < m.len ∧ m.xxoAt t = 255) := fun ⟨a, _, c⟩ => hne ⟨a, c⟩
  simp [nextOrderLoop, nextOrderStep, h1, hmark, h2]

/-- The reposition block enters exactly the pending order when it holds a pattern and is not
before the entry point of the current sequence (`pos = -1` stands for the entry point). -/
theorem reposition_valid (m : CMod) (s : St) (t : Int) (hv : Valid m t)
    (hpos : s.pos = t ∨ (s.pos = -1 ∧ m.entry s.sequence = t)) (hent : m.entry s.sequence ≤ t) :
    reposition m s = some (entered m s t (repoEndPoint m s t)) := by
  have hpos1 : (if s.pos = -1 then (m.seqAt s.sequence).entry else s.pos) = t := by
    rcases hpos with h | ⟨h, h'⟩
    · have : ¬ (s.pos = -1) := by have := hv.1; omega
      rw [if_neg this]; exact h
    · rw [if_pos h]; exact h'
  have hord : (if t - 1 < (m.seqAt s.sequence).entry then (m.seqAt s.sequence).entry - 1 else t - 1) = t - 1 := by
    have : (m.seqAt s.sequence).entry ≤ t := hent
    split <;> omega
  unfold reposition
  simp only [hpos1, hord, nextOrder, orderFuel]
  rw [show (600 : Nat) = 599 + 1 from rfl, nextOrderLoop_valid m _ 599 t false hv]
  simp only [Option.map_some]
  unfold entered repoEndPoint updateFromOrdInfo
  by_cases hl : m.lpReset = true <;> simp [hl]

/-- an order the `do … while` of `next_order` passes over without wrapping. -/
def Skippable (m : CMod) (j : Int) : Prop :=
  j < m.len ∧ m.xxoAt j ≥ m.pat ∧ ¬(m.marker = true ∧ m.xxoAt j = 0xff)

instance (m : CMod) (j : Int) : Decidable (Skippable m j) := by unfold Skippable; infer_instance

/-- fuel sufficiency of the `next_order` loop on a run of `k` pattern-less orders followed by
an order holding a pattern: `k + 1` iterations. -/
theorem nextOrderLoop_skip (m : CMod) (seq : Int) (k : Nat) : ∀ (n : Nat) (t : Int) (rg : Bool),
    Valid m t → (∀ j, t - k ≤ j → j < t → Skippable m j) →
    nextOrderLoop m seq (n + k + 1) (t - k - 1) rg = some (t, rg) := by
  induction k with
  | zero =>
    intro n t rg hv _
    simpa using nextOrderLoop_valid m seq n t rg hv
  | succ k ih =>
    intro n t rg hv hsk
    have hj := hsk (t - ((k + 1 : Nat) : Int)) (by omega) (by omega)
    obtain ⟨hj1, hj2, hj3⟩ := hj
    have e1 : t - ((k + 1 : Nat) : Int) - 1 + 1 = t - ((k + 1 : Nat) : Int) := by omega
    have hmark : ¬(m.marker = true ∧ t - ((k + 1 : Nat) : Int) < m.len ∧ m.xxoAt (t - ((k + 1 : Nat) : Int)) = 255) :=
      fun ⟨a, _, c⟩ => hj3 ⟨a, c⟩
    have h1 : ¬ (t - ((k + 1 : Nat) : Int) ≥ m.len) := by omega
    have hstep : nextOrderStep m seq (t - ((k + 1 : Nat) : Int) - 1) rg = (t - ((k + 1 : Nat) : Int), rg) := by
      simp only [nextOrderStep, e1, h1, hmark, or_self, if_false]
    have e2 : n + (k + 1) + 1 = (n + k + 1) + 1 := by omega
    rw [e2]
    unfold nextOrderLoop
    simp only [hstep, hj2, if_true]
    have e3 : t - ((k + 1 : Nat) : Int) = t - (k : Int) - 1 := by omega
    rw [e3]
    apply ih n t rg hv
    intro j h1 h2
    apply hsk j (by omega) h2

/-- The reposition block with a pending position `e` (or `-1` = the entry point `e`) whose
orders `e … t-1` hold no pattern: the player enters `t`. -/
theorem reposition_skip (m : CMod) (s : St) (e t : Int) (k : Nat) (hv : Valid m t) (he0 : 0 ≤ e)
    (hk : t = e + k) (hsk : ∀ j, e ≤ j → j < t → Skippable m j)
    (hpos : s.pos = e ∨ (s.pos = -1 ∧ m.entry s.sequence = e)) (hent : m.entry s.sequence ≤ e)
    (hfuel : k < 600) :
    reposition m s = some (entered m s t (repoEndPoint m s e)) := by
  have hpos1 : (if s.pos = -1 then (m.seqAt s.sequence).entry else s.pos) = e := by
    rcases hpos with h | ⟨h, h'⟩
    · have : ¬ (s.pos = -1) := by omega
      rw [if_neg this]; exact h
    · rw [if_pos h]; exact h'
  have hord : (if e - 1 < (m.seqAt s.sequence).entry then (m.seqAt s.sequence).entry - 1 else e - 1) = e - 1 := by
    have : (m.seqAt s.sequence).entry ≤ e := hent
    split <;> omega
  unfold reposition
  simp only [hpos1, hord, nextOrder, orderFuel]
  have e1 : e - 1 = t - (k : Int) - 1 := by omega
  have e2 : (600 : Nat) = (599 - k) + k + 1 := by omega
  rw [e1, e2, nextOrderLoop_skip m _ k (599 - k) t false hv (by intro j h1 h2; exact hsk j (by omega) h2)]
  simp only [Option.map_some]
  unfold entered repoEndPoint updateFromOrdInfo
  by_cases hl : m.lpReset = true <;> simp [hl]

/-- `check_end_of_module` only touches the loop counter and `end_point`. -/
theorem checkEnd_fields (m : CMod) (s : St) :
    (checkEnd m s).ord = s.ord ∧ (checkEnd m s).pos = s.pos ∧ (checkEnd m s).row = s.row ∧
    (checkEnd m s).frame = s.frame ∧ (checkEnd m s).sequence = s.sequence ∧
    (checkEnd m s).speed = s.speed ∧ (checkEnd m s).bpm = s.bpm ∧ (checkEnd m s).gvol = s.gvol ∧
    (checkEnd m s).time = s.time ∧ (checkEnd m s).playing = s.playing ∧
    (checkEnd m s).f.numRows = s.f.numRows := by
  unfold checkEnd
  by_cases h1 : s.ord = (m.seqAt s.sequence).scanOrd ∧ s.row = (m.seqAt s.sequence).scanRow
  · by_cases h2 : s.f.endPoint = 0 <;> simp [h1, h2]
  · simp [h1]

theorem checkEnd_loopCount (m : CMod) (s : St)
    (h : ¬(s.ord = (m.seqAt s.sequence).scanOrd ∧ s.row = (m.seqAt s.sequence).scanRow ∧ s.f.endPoint = 0)) :
    (checkEnd m s).loopCount = s.loopCount := by
  unfold checkEnd
  by_cases h1 : s.ord = (m.seqAt s.sequence).scanOrd ∧ s.row = (m.seqAt s.sequence).scanRow
  · by_cases h2 : s.f.endPoint = 0
    · exact absurd ⟨h1.1, h1.2, h2⟩ h
    · simp [h1, h2]
  · simp [h1]

/-- `xmp_play_frame` with a reposition pending. -/
theorem playFrame_pending (m : CMod) (s : St) (hp : s.playing = true) (hl : 0 < m.len)
    (hend : ¬(m.marker = true ∧ m.xxoAt s.ord = 0xff)) (hne : s.ord ≠ s.pos) (hstop : s.pos ≠ -2) :
    playFrame m s = (reposition m s).map fun s' =>
      ⟨0, some s', if s'.frame = 0 then checkEnd m s' else s'⟩ := by
  have h1 : ¬ (m.len ≤ 0) := by omega
  simp [playFrame, hp, h1, hend, hne, hstop]

/-- Entering order `t` through the reposition block: what the frame reports. -/
theorem playFrame_enters (m : CMod) (s : St) (t : Int) (hp : s.playing = true)
    (hend : ¬(m.marker = true ∧ m.xxoAt s.ord = 0xff)) (hne : s.ord ≠ s.pos) (hstop : s.pos ≠ -2)
    (hv : Valid m t) (hpos : s.pos = t ∨ (s.pos = -1 ∧ m.entry s.sequence = t))
    (hent : m.entry s.sequence ≤ t) :
    playFrame m s = some ⟨0, some (entered m s t (repoEndPoint m s t)),
                          checkEnd m (entered m s t (repoEndPoint m s t))⟩ := by
  have hl : 0 < m.len := by have := hv.1; have := hv.2.1; omega
  rw [playFrame_pending m s hp hl hend hne hstop, reposition_valid m s t hv hpos hent]
  simp [entered]

/-- general form of `playFrame_enters`: pending position `e`, first order with a pattern `t`. -/
theorem playFrame_enters_skip (m : CMod) (s : St) (e t : Int) (k : Nat) (hp : s.playing = true)
    (hend : ¬(m.marker = true ∧ m.xxoAt s.ord = 0xff)) (hne : s.ord ≠ s.pos) (hstop : s.pos ≠ -2)
    (hv : Valid m t) (he0 : 0 ≤ e) (hk : t = e + k) (hsk : ∀ j, e ≤ j → j < t → Skippable m j)
    (hpos : s.pos = e ∨ (s.pos = -1 ∧ m.entry s.sequence = e)) (hent : m.entry s.sequence ≤ e)
    (hfuel : k < 600) :
    playFrame m s = some ⟨0, some (entered m s t (repoEndPoint m s e)),
                          checkEnd m (entered m s t (repoEndPoint m s e))⟩ := by
  have hl : 0 < m.len := by have := hv.1; have := hv.2.1; omega
  rw [playFrame_pending m s hp hl hend hne hstop,
      reposition_skip m s e t k hv he0 hk hsk hpos hent hfuel]
  simp [entered]

theorem skipMarkers_le (m : CMod) (dir start : Int) (hd : dir < 0) (n : Nat) (pos r : Int)
    (h : skipMarkers m dir start n pos = some r) : r ≤ pos := by
  induction n generalizing pos with
  | zero => simp [skipMarkers] at h
  | succ k ih =>
    unfold skipMarkers at h
    by_cases hc : m.marker = true ∧ m.xxoAt pos = 0xfe
    · rw [if_pos hc, if_pos hd] at h
      by_cases hp : pos > start
      · rw [if_pos hp] at h; have := ih _ h; omega
      · rw [if_neg hp] at h; injection h with h; omega
    · rw [if_neg hc] at h; injection h with h; omega

theorem skipMarkers_ge (m : CMod) (dir start : Int) (hd : ¬ dir < 0) (n : Nat) (pos r : Int)
    (h : skipMarkers m dir start n pos = some r) : pos ≤ r := by
  induction n generalizing pos with
  | zero => simp [skipMarkers] at h
  | succ k ih =>
    unfold skipMarkers at h
    by_cases hc : m.marker = true ∧ m.xxoAt pos = 0xfe
    · rw [if_pos hc, if_neg hd] at h
      by_cases hp : pos + 1 ≥ m.len
      · rw [if_pos hp] at h; injection h with h; omega
      · rw [if_neg hp] at h; have := ih _ h; omega
    · rw [if_neg hc] at h; injection h with h; omega

theorem skipInvalid_ge (m : CMod) (n : Nat) (pos : Int) : pos ≤ skipInvalid m n pos := by
  induction n generalizing pos with
  | zero => simp [skipInvalid]
  | succ k ih =>
    unfold skipInvalid
    split
    · have := ih (pos + 1); omega
    · omega

/-- candidate orders of `xmp_seek_time`. -/
def SeekCand (m : CMod) (q t : Int) (i : Nat) : Prop :=
  m.xxoAt i < m.pat ∧ m.seqOf i = q ∧ (m.infoAt i).time ≤ t

theorem seekFind_some (m : CMod) (q t : Int) (n i : Nat) (h : seekFind m q t n = some i) :
    i < n ∧ SeekCand m q t i ∧ ∀ j, i < j → j < n → ¬ SeekCand m q t j := by
  induction n with
  | zero => simp [seekFind] at h
  | succ k ih =>
    unfold seekFind at h
    split at h
    · rename_i hc
      have : k = i := by simpa using h
      subst this
      exact ⟨by omega, hc, fun j h1 h2 => by omega⟩
    · rename_i hc
      obtain ⟨a, b, c⟩ := ih h
      refine ⟨by omega, b, fun j h1 h2 => ?_⟩
      by_cases hj : j = k
      · subst hj; exact hc
      · exact c j h1 (by omega)

theorem seekFind_none (m : CMod) (q t : Int) (n : Nat) (h : seekFind m q t n = none) :
    ∀ j, j < n → ¬ SeekCand m q t j := by
  induction n with
  | zero => intro j hj; omega
  | succ k ih =>
    unfold seekFind at h
    split at h
    · simp at h
    · rename_i hc
      intro j hj
      by_cases hjk : j = k
      · subst hjk; exact hc
      · exact ih h j (by omega)

/-! ### xmp_start_player -/

/-- fuel sufficiency of the start-up skip loop: `k` pattern-less orders, then one that stops it. -/
theorem startSkip_run (m : CMod) (k : Nat) : ∀ (n : Nat) (ord : Int),
    (∀ j, ord ≤ j → j < ord + k → j < m.len ∧ m.xxoAt j ≥ m.pat) →
    ¬(ord + k < m.len ∧ m.xxoAt (ord + k) ≥ m.pat) → k ≤ n → startSkip m n ord = ord + k := by
  induction k with
  | zero =>
    intro n ord _ hstop _
    cases n with
    | zero => simp [startSkip]
    | succ n =>
      have : ¬(ord < m.len ∧ m.xxoAt ord ≥ m.pat) := by simpa using hstop
      simp [startSkip, this]
  | succ k ih =>
    intro n ord hsk hstop hn
    cases n with
    | zero => omega
    | succ n =>
      have h0 := hsk ord (by omega) (by omega)
      unfold startSkip
      rw [if_pos h0, ih n (ord + 1) (fun j h1 h2 => hsk j (by omega) (by omega))
        (by have e : ord + 1 + (k : Int) = ord + ((k + 1 : Nat) : Int) := by omega
            rw [e]; exact hstop) (by omega)]
      omega

/-- the start-up loop really ends within its fuel. -/
theorem startSkip_exit (m : CMod) (n : Nat) (ord : Int) (h : (m.len - ord).toNat ≤ n) :
    ¬ (startSkip m n ord < m.len ∧ m.xxoAt (startSkip m n ord) ≥ m.pat) := by
  induction n generalizing ord with
  | zero =>
    simp only [startSkip]
    intro ⟨h1, _⟩
    omega
  | succ k ih =>
    unfold startSkip
    split
    · apply ih; omega
    · assumption

/-- the sequencing state after `xmp_start_player` when `t` is the first order with a pattern
(`frame` is -1 after the call, 0 in the first frame). -/
def startedAt (m : CMod) (s : St) (t frame : Int) : St :=
  let o := m.infoAt t
  { s with playing := true, pos := 0, ord := t, frame := frame, row := 0, loopCount := 0, sequence := 0,
           speed := (if o.speed ≠ 0 then o.speed else s.speed), bpm := o.bpm, gvol := o.gvl,
           time := o.time, st26 := o.st26,
           f := resetFlow { s.f with numRows := m.rowsOf (m.xxoAt t), endPoint := (m.seqAt 0).scanNum } }

def started (m : CMod) (s : St) (t : Int) : St := startedAt m s t (-1)

theorem xmpStartPlayer_eq (m : CMod) (s : St) (t : Int) (k : Nat) (hv : Valid m t) (hk : t = k)
    (hsk : ∀ j, 0 ≤ j → j < t → Skippable m j) : xmpStartPlayer m s = started m s t := by
  obtain ⟨hp0, hpl, hpat, _⟩ := hv
  have hrun : startSkip m (skipFuel m) 0 = t := by
    have := startSkip_run m k (skipFuel m) 0
      (fun j h1 h2 => ⟨(hsk j h1 (by omega)).1, (hsk j h1 (by omega)).2.1⟩)
      (by rw [Int.zero_add, ← hk]; intro ⟨_, h⟩; omega) (by simp only [skipFuel]; omega)
    omega
  have h1 : ¬(t ≥ m.len ∨ m.len = 0) := by omega
  unfold xmpStartPlayer
  simp only [hrun, h1, if_false]
  simp [started, startedAt, updateFromOrdInfo]

end Xmp.Control
