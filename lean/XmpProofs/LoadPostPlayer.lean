import XmpModel.LoadPostPlayer
import XmpProofs.LoadPost
import XmpProofs.LoadPostOblig
/-!
# The player's guards render out-of-range references harmless (C03)
-/
namespace Xmp.LoadPost.Player
open Xmp.Gen.Limits Xmp.Gen.C03Guards

/-- the macros of src/player.h and the functions `get_subinstrument`, `libxmp_get_sample`,
`libxmp_get_instrument` have the texts / guard expressions the model mirrors (regenerated from
the sources on every run) -/
theorem guards_present :
    isValidInstrumentOK = true ∧ isValidSampleOK = true ∧ isValidNoteOK = true
    ∧ getSubInstrumentGuard = true ∧ getSubNoteGuard = true ∧ getSubMappedGuard = true ∧ getSubDefault = true
    ∧ getSubNull = true ∧ getSampleNeg = true ∧ getSampleMod = true ∧ getSampleSmix = true
    ∧ getInstrumentNeg = true ∧ getInstrumentMod = true := by
  decide

/-- the common load path (load.c, load_helpers.c, scan.c, loaders/common.c, sample.c, iff.c) owns no
writable process-wide data — no file-scope variable, no function-scope `static` scratch table: what one
load computes (entry points, scan tables, …) can never leak into a load running in another context.
(All six objects were found and inspected.) -/
theorem loadPath_no_statics : loadPathStatics = [] ∧ loadPathObjects.length = 6 := by
  decide

/-- the functions that use a sub-instrument's `sid` as an index (or store it as the channel's
sample) without a range test.  They rely on the loaders' `sidsOK`. -/
def allowedTrusted : List (String × String) :=
  [ ("hmn_extras.c", "libxmp_hmn_play_extras"), ("med_extras.c", "libxmp_med_change_period"),
    ("med_extras.c", "libxmp_med_play_extras"), ("read_event.c", "read_event_ft2"),
    ("read_event.c", "read_event_mod"), ("read_event.c", "read_event_smix") ]

/-- every unguarded read of `sub->sid` outside the loaders is one of the known ones -/
theorem sidSites_known :
    ∀ s ∈ sidSites, s.2.2 = SidUse.trusted → (s.1, s.2.1) ∈ allowedTrusted := by
  decide

/-- `(uint32)x < (uint32)n` for a count `0 ≤ n < 2^31` and a C `int` `x` means `0 ≤ x < n` -/
theorem u32_lt {x n : Int} (hn0 : 0 ≤ n) (hn : n < 2147483648) (hx0 : -2147483648 ≤ x) (hx1 : x < 2147483648)
    (h : u32 x < u32 n) : 0 ≤ x ∧ x < n ∧ u32 x = x.toNat := by
  unfold u32 at *
  have hn' : n % 4294967296 = n := Int.emod_eq_of_lt hn0 (by omega)
  rw [hn'] at h
  by_cases hx : 0 ≤ x
  · have hx' : x % 4294967296 = x := Int.emod_eq_of_lt hx (by omega)
    rw [hx'] at h ⊢
    omega
  · exfalso
    have : x % 4294967296 = x + 4294967296 := by
      have h1 : (x + 4294967296) % 4294967296 = x + 4294967296 := Int.emod_eq_of_lt (by omega) (by omega)
      rw [← h1]; simp
    rw [this] at h
    omega

theorem counts_ins {m : Module} (hc : countsOK m = true) : 0 ≤ m.ins ∧ m.ins < 2147483648 ∧ 0 ≤ m.smp ∧ m.smp < 2147483648 := by
  simp only [countsOK, Bool.and_eq_true, decide_eq_true_eq] at hc
  have e1 : (epiInsMax : Int) = 255 := rfl
  have e2 : (maxSamples : Int) = 1024 := rfl
  omega

/-- what `get_subinstrument` returns for ANY instrument number and key of an event (any C `int`s)
and ANY key map: NULL, or an instrument inside the table with sub-instruments and a
sub-instrument index below its `nsm` -/
theorem getSub_spec (m : Module) (hc : countsOK m = true) (map : Nat → Nat → Nat) (ins key : Int)
    (hi0 : -2147483648 ≤ ins) (hi1 : ins < 2147483648) (i j : Nat) (h : getSub m map ins key = some (i, j)) :
    (i : Int) = ins ∧ (i : Int) < m.ins ∧ ∃ x, m.xxi[i]? = some x ∧ (j : Int) < x.nsm := by
  obtain ⟨c1, c2, _, _⟩ := counts_ins hc
  unfold getSub at h
  split at h
  · rename_i hv
    simp only [isValidInstrument, Bool.and_eq_true, decide_eq_true_eq] at hv
    obtain ⟨hlt, hx⟩ := hv
    obtain ⟨u1, u2, u3⟩ := u32_lt c1 c2 hi0 hi1 hlt
    cases hq : m.xxi[u32 ins]? with
    | none => simp [hq] at hx
    | some x =>
      simp only [hq, decide_eq_true_eq] at hx h
      have hi : ((u32 ins : Nat) : Int) = ins := by rw [u3]; omega
      split at h
      · split at h
        · rename_i hm
          injection h with h
          injection h with h1 h2
          subst h1; subst h2
          exact ⟨hi, by omega, x, hq, hm.2⟩
        · cases h
      · injection h with h
        injection h with h1 h2
        subst h1; subst h2
        exact ⟨hi, by omega, x, hq, by simpa using hx⟩
  · cases h

/-- the guarded chain event → sub-instrument → `sid` → sample: whatever the event, the key map
and the `sid`s hold, the sample that is played lies inside the sample table and has data -/
theorem sampleOf_spec (m : Module) (hc : countsOK m = true) (map : Nat → Nat → Nat) (ins key : Int) (s : Nat)
    (h : sampleOf m map ins key = some s) :
    (s : Int) < m.smp ∧ ∃ sm, m.xxs[s]? = some sm ∧ sm.hasData = true := by
  obtain ⟨_, _, c3, c4⟩ := counts_ins hc
  unfold sampleOf at h
  split at h
  · cases h
  · rename_i i j _
    split at h
    · cases h
    · rename_i x _
      simp only at h
      generalize hsid : x.sids.getD j 0 = smp at h
      split at h
      · rename_i hv
        split at h
        · rename_i hr
          injection h with h
          simp only [isValidSample, Bool.and_eq_true, decide_eq_true_eq] at hv
          obtain ⟨hlt, hd⟩ := hv
          have hu : u32 smp = smp.toNat := by
            unfold u32; rw [Int.emod_eq_of_lt hr.1 (by omega)]
          rw [hu] at hd
          subst h
          refine ⟨by omega, ?_⟩
          cases hq : m.xxs[smp.toNat]? with
          | none => simp [hq] at hd
          | some sm => exact ⟨sm, rfl, by simpa [hq] using hd⟩
        · cases h
      · split at h
        · rename_i hr; omega
        · cases h

/-- the UNGUARDED uses (`sidSites_known`): with the loaders' `sidsOK`, the `sid` of the
sub-instrument `get_subinstrument` returned is a valid index into the sample table -/
theorem trusted_spec (m : Module) (hc : countsOK m = true) (hs : sidsOK m = true) (map : Nat → Nat → Nat)
    (ins key : Int) (hi0 : -2147483648 ≤ ins) (hi1 : ins < 2147483648) (i j : Nat)
    (h : getSub m map ins key = some (i, j)) :
    ∃ x, m.xxi[i]? = some x ∧ ∀ sd, x.sids[j]? = some sd → 0 ≤ sd ∧ sd < m.smp := by
  obtain ⟨_, hlt, x, hx, hj⟩ := getSub_spec m hc map ins key hi0 hi1 i j h
  refine ⟨x, hx, ?_⟩
  intro sd hsd
  unfold sidsOK at hs
  have := allBelow_iff.mp hs i hlt
  simp only [hx] at this
  have := allBelow_iff.mp this j hj
  simpa [hsd] using this

/-- the post-load path keeps `sidsOK` (it never touches a `sid`, `nsm` or the sample count
beyond the CLAMP) -/
theorem sids_of {raw m : Module} (sh : Shape raw m) (h : sidsOK (clampCounts raw) = true) : sidsOK m = true := by
  unfold sidsOK at h ⊢
  rw [allBelow_iff] at h ⊢
  intro i hi
  have hi' : (i : Int) < clampC raw.ins 0 epiInsMax := by rw [sh.ins] at hi; exact hi
  have := h i hi'
  rw [xxi_get sh i hi']
  have hx : (clampCounts raw).xxi = raw.xxi := rfl
  have hs : (clampCounts raw).smp = m.smp := sh.smp.symm
  rw [hx, hs] at this
  cases hq : raw.xxi[i]? with
  | none => rfl
  | some x =>
    simp only [hq, Option.map_some] at this ⊢
    exact this

end Xmp.LoadPost.Player
