import XmpModel.LhNew
/-!
Copy stage of the LHA -lh4- … -lh7- decoders: the blank dictionary in front of the file.
-/
namespace Xmp.Container
open Xmp Xmp.Gen.Depackers

theorem lhNewInitialWindow_blank (n : Nat) : lhNewInitialWindow n = List.replicate n 0x20 := by
  unfold lhNewInitialWindow
  have : UInt8.ofNat lhNewFill = 0x20 := by decide
  rw [this]

theorem replicate_cons_self {α : Type} (c : α) (n : Nat) : c :: List.replicate n c = List.replicate (n + 1) c := rfl

/-- a copy whose source lies in a history made of one byte value only produces that byte value -/
theorem lhCopy_replicate (c : UInt8) (o : Nat) : ∀ (n m : Nat), o < m →
    lhCopy o n (List.replicate m c) = List.replicate (m + n) c := by
  intro n
  induction n with
  | zero => intro m _; rfl
  | succ n ih =>
    intro m h
    have hg : (List.replicate m c).getD o 0 = c := by
      simp [List.getD_eq_getElem?_getD, List.getElem?_replicate, h]
    rw [lhCopy, hg, replicate_cons_self, ih (m + 1) (by omega)]
    have e : m + 1 + n = m + (n + 1) := by omega
    rw [e]

theorem lhNewRun_append (a b : List LhTok) (rh : Bytes) : lhNewRun (a ++ b) rh = lhNewRun b (lhNewRun a rh) := by
  induction a generalizing rh with
  | nil => rfl
  | cons t ts ih => cases t <;> simp [lhNewRun, ih]

theorem lhCopy_suffix (o : Nat) : ∀ (n : Nat) (rh : Bytes), ∃ s, lhCopy o n rh = s ++ rh ∧ s.length = n := by
  intro n
  induction n with
  | zero => intro rh; exact ⟨[], rfl, rfl⟩
  | succ n ih =>
    intro rh
    obtain ⟨s, hs, hl⟩ := ih (rh.getD o 0 :: rh)
    refine ⟨s ++ [rh.getD o 0], ?_, by simp [hl]⟩
    rw [lhCopy, hs]; simp

/-- the history only grows at its head -/
theorem lhNewRun_suffix (ts : List LhTok) : ∀ rh : Bytes, ∃ s, lhNewRun ts rh = s ++ rh := by
  induction ts with
  | nil => intro rh; exact ⟨[], rfl⟩
  | cons t ts ih =>
    intro rh
    cases t with
    | lit b =>
      obtain ⟨s, hs⟩ := ih (b :: rh)
      exact ⟨s ++ [b], by rw [lhNewRun, hs]; simp⟩
    | copy o n =>
      obtain ⟨s1, h1, _⟩ := lhCopy_suffix o n rh
      obtain ⟨s, hs⟩ := ih (lhCopy o n rh)
      exact ⟨s ++ s1, by rw [lhNewRun, hs, h1]; simp⟩

theorem lhNewRun_lits (p : Bytes) : ∀ rh : Bytes, lhNewRun (p.map .lit) rh = p.reverse ++ rh := by
  induction p with
  | nil => intro rh; rfl
  | cons b r ih => intro rh; simp [lhNewRun, ih]

/-- **the first copy command of a stream reads the blank dictionary**: whatever its offset (below the ring size) and
    length, the output begins with that many blanks -/
theorem lhNewExpand_first_copy (ring o n : Nat) (ts : List LhTok) (ho : o < ring) :
    ∃ rest, lhNewExpand ring (.copy o n :: ts) = List.replicate n 0x20 ++ rest := by
  unfold lhNewExpand
  rw [lhNewRun, lhNewInitialWindow_blank, lhCopy_replicate 0x20 o n ring ho]
  obtain ⟨s, hs⟩ := lhNewRun_suffix ts (List.replicate (ring + n) 0x20)
  refine ⟨s.reverse, ?_⟩
  rw [hs, List.reverse_append, List.reverse_replicate, ← List.replicate_append_replicate, List.append_assoc,
    List.drop_left' (List.length_replicate ..)]

theorem lhNewExpand_lits (ring : Nat) (p : Bytes) : lhNewExpand ring (p.map .lit) = p := by
  unfold lhNewExpand
  rw [lhNewRun_lits, List.reverse_append, List.reverse_reverse, lhNewInitialWindow_blank, List.reverse_replicate,
    List.drop_left' (List.length_replicate ..)]

theorem lhLeadBlanks_spec (p : Bytes) :
    p = List.replicate (lhLeadBlanks p) 0x20 ++ p.drop (lhLeadBlanks p) := by
  induction p with
  | nil => rfl
  | cons b r ih =>
    have hf : UInt8.ofNat lhNewFill = 0x20 := by decide
    unfold lhLeadBlanks
    rw [hf]
    by_cases h : b = 0x20
    · subst h
      simp only [if_true]
      rw [Nat.add_comm 1, List.replicate_succ, List.cons_append, List.drop_succ_cons, ← ih]
    · simp [h]

theorem lhCopies_run (c : UInt8) (o : Nat) : ∀ (fuel k m : Nat), k ≤ fuel → o < m →
    lhNewRun (lhCopies o fuel k) (List.replicate m c) = List.replicate (m + k) c := by
  intro fuel
  induction fuel with
  | zero =>
    intro k m hk _
    have : k = 0 := by omega
    subst this
    simp only [lhCopies, lhNewRun, Nat.add_zero]
  | succ f ih =>
    intro k m hk ho
    unfold lhCopies
    by_cases h0 : k = 0
    · subst h0; simp [lhNewRun]
    · simp only [h0, if_false]
      by_cases h1 : k ≤ 256
      · simp only [h1, if_true, lhNewRun]
        exact lhCopy_replicate c o k m ho
      · simp only [h1, if_false, lhNewRun]
        rw [lhCopy_replicate c o 200 m ho, ih (k - 200) (m + 200) (by omega) (by omega)]
        have e : m + 200 + (k - 200) = m + k := by omega
        rw [e]

/-- every copy command of the encoder is expressible (3 … 256 bytes) -/
theorem lhCopies_legal (o : Nat) : ∀ (fuel k : Nat), 3 ≤ k → ∀ t ∈ lhCopies o fuel k,
    ∃ n, t = .copy o n ∧ 3 ≤ n ∧ n ≤ 256 := by
  intro fuel
  induction fuel with
  | zero => intro k _ t ht; simp [lhCopies] at ht
  | succ f ih =>
    intro k hk t ht
    unfold lhCopies at ht
    have h0 : ¬ k = 0 := by omega
    simp only [h0, if_false] at ht
    by_cases h1 : k ≤ 256
    · simp only [h1, if_true, List.mem_singleton] at ht
      exact ⟨k, ht, hk, h1⟩
    · simp only [h1, if_false, List.mem_cons] at ht
      rcases ht with rfl | ht
      · exact ⟨200, rfl, by decide, by decide⟩
      · exact ih (k - 200) (by omega) t ht

/-- **decode ∘ encode = id** for the encoder that codes leading blanks as matches into the dictionary in front of the
    file (any offset below the ring size) -/
theorem lhNewExpand_encodeLead (ring o : Nat) (p : Bytes) (ho : o < ring) :
    lhNewExpand ring (lhNewEncodeLead o p) = p := by
  unfold lhNewEncodeLead
  by_cases hk : lhLeadBlanks p < 3
  · simp only [hk, if_true]; exact lhNewExpand_lits ring p
  · simp only [hk, if_false]
    unfold lhNewExpand
    rw [lhNewRun_append, lhNewInitialWindow_blank, lhCopies_run 0x20 o _ _ ring (Nat.le_refl _) ho, lhNewRun_lits,
      List.reverse_append, List.reverse_reverse, List.reverse_replicate, ← List.replicate_append_replicate,
      List.append_assoc, List.drop_left' (List.length_replicate ..)]
    exact (lhLeadBlanks_spec p).symm

/-- the decoder parameter of `unlha` built from a Huffman stage that yields commands expanding to `p` -/
theorem lhaDecNew_spec (huff : Bytes → Bytes → Option (List LhTok)) (rest : Bytes → Bool → Bytes → Nat → Option Bytes)
    (method cdata p : Bytes) (mac : Bool) (ring : Nat) (toks : List LhTok)
    (hm : lhNewRing method = some ring) (hh : huff method cdata = some toks) (he : lhNewExpand ring toks = p) :
    lhaDecNew huff rest method mac cdata p.length = some p := by
  unfold lhaDecNew
  simp only [hm, hh, he, Nat.lt_irrefl, if_false, List.take_length]

end Xmp.Container
