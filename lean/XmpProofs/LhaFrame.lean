import XmpProofs.ZipFrame
import XmpModel.LhaFrame
/-!
Byte-level framing of LHA archives with stored (`-lh0-`) members and level 0 / 1 / 2 headers: `unlha` (model of
`decrunch_lha` over the lhasa reader) on an archive written by `lhaWrap`.
-/
namespace Xmp.Container
open Xmp Xmp.Gen.Depackers

theorem bAt_skip (a r : Bytes) (j k : Nat) (h : a.length = k) : bAt (a ++ r) (j + k) = bAt r j := by
  rw [Nat.add_comm, ← bAt_drop, List.drop_left' h]

theorem bAt_s16 (x : Nat) (r : Bytes) (j : Nat) : bAt (le16 x ++ r) (j + 2) = bAt r j := bAt_skip _ _ _ _ rfl
theorem bAt_s32 (x : Nat) (r : Bytes) (j : Nat) : bAt (le32 x ++ r) (j + 4) = bAt r j := bAt_skip _ _ _ _ rfl
theorem bAt_s5 (a b c d e : UInt8) (r : Bytes) (j : Nat) :
    bAt (([a, b, c, d, e] : Bytes) ++ r) (j + 5) = bAt r j := bAt_skip [a, b, c, d, e] r j 5 rfl
theorem bAt_s2 (a b : UInt8) (r : Bytes) (j : Nat) :
    bAt (([a, b] : Bytes) ++ r) (j + 2) = bAt r j := bAt_skip [a, b] r j 2 rfl
theorem bAt_s1 (a : UInt8) (r : Bytes) (j : Nat) :
    bAt (([a] : Bytes) ++ r) (j + 1) = bAt r j := bAt_skip [a] r j 1 rfl
theorem u32At_s5 (a b c d e : UInt8) (r : Bytes) (j : Nat) :
    u32At (([a, b, c, d, e] : Bytes) ++ r) (j + 5) = u32At r j := u32At_skip [a, b, c, d, e] r j 5 rfl
theorem u32At_s2 (a b : UInt8) (r : Bytes) (j : Nat) :
    u32At (([a, b] : Bytes) ++ r) (j + 2) = u32At r j := u32At_skip [a, b] r j 2 rfl
theorem u16At_s5 (a b c d e : UInt8) (r : Bytes) (j : Nat) :
    u16At (([a, b, c, d, e] : Bytes) ++ r) (j + 5) = u16At r j := u16At_skip [a, b, c, d, e] r j 5 rfl
theorem u16At_s2 (a b : UInt8) (r : Bytes) (j : Nat) :
    u16At (([a, b] : Bytes) ++ r) (j + 2) = u16At r j := u16At_skip [a, b] r j 2 rfl
theorem u16At_s1 (a : UInt8) (r : Bytes) (j : Nat) :
    u16At (([a] : Bytes) ++ r) (j + 1) = u16At r j := u16At_skip [a] r j 1 rfl

theorem bAt_head (x : UInt8) (r : Bytes) : bAt (x :: r) 0 = x.toNat := by simp [bAt]

/-- reading the fixed 22 bytes and then the rest of the header reproduces the header bytes -/
theorem read_header_bytes (H tail : Bytes) (h22 : 22 ≤ H.length) (hmax : H.length - 22 ≤ lhaMaxExt) (h0 : LhaHeader) :
    ∃ raw s, sRead (H ++ tail) 22 = some (raw, s) ∧ raw = H.take 22 ∧
      extendRaw { h0 with raw := raw } s (H.length - 22) = some ({ h0 with raw := H }, tail) := by
  refine ⟨H.take 22, H.drop 22 ++ tail, ?_, rfl, ?_⟩
  · unfold sRead
    have : ¬ (H ++ tail).length < 22 := by simp only [List.length_append]; omega
    rw [if_neg this, List.take_append_of_le_length h22, List.drop_append_of_le_length h22]
  · unfold extendRaw sRead
    have h1 : ¬ H.length - 22 > lhaMaxExt := by omega
    have h2 : ¬ (H.drop 22 ++ tail).length < H.length - 22 := by simp only [List.length_append, List.length_drop]; omega
    have h3 : (H.drop 22).length = H.length - 22 := by simp
    rw [if_neg h1, if_neg h2]
    simp only [Option.map_some, List.take_left' h3, List.drop_left' h3, List.take_append_drop]


/-! ## plain names -/

structure PlainName (n : Bytes) : Prop where
  ne : n ≠ []
  nul : noNul n
  slash : ∀ x ∈ n, x ≠ 0x2f
  bslash : ∀ x ∈ n, x ≠ 0x5c
  len : n.length ≤ 200

theorem map_bsToSlash (n : Bytes) (h : ∀ x ∈ n, x ≠ 0x5c) : n.map bsToSlash = n := by
  induction n with
  | nil => rfl
  | cons c n ih =>
    have hc : c ≠ 0x5c := h c (by simp)
    simp [bsToSlash, hc, ih (fun x hx => h x (by simp [hx]))]

theorem lastSlash_none (n : Bytes) (h : ∀ x ∈ n, x ≠ 0x2f) : lastSlash n = none := by
  unfold lastSlash
  have : (n.zipIdx.filter (fun p => decide (p.1 = 0x2f))) = [] := by
    rw [List.filter_eq_nil_iff]
    intro p hp
    have : p.1 ∈ n := by
      have := List.mem_zipIdx hp
      obtain ⟨_, _, h3⟩ := this
      rw [h3]; exact List.getElem_mem _
    simpa using h p.1 this
  rw [this]; rfl

theorem level0Path_plain (h : LhaHeader) (n : Bytes) (hn : PlainName n) :
    level0Path h n = { h with filename := some n } := by
  unfold level0Path
  have h0 : n.length ≠ 0 := fun h0 => hn.ne (List.eq_nil_of_length_eq_zero h0)
  rw [if_neg h0]
  simp only [map_bsToSlash n hn.bslash, cstr_self n hn.nul, lastSlash_none n hn.slash]

theorem sum_foldl_ofNat (b : Bytes) :
    (b.foldl (fun a x => a + x.toNat) 0) % 256 = (lhaSum b).toNat := by
  unfold lhaSum
  rw [UInt8.toNat_ofNat']
  omega


/-! ## level 0 / 1 headers -/

def plainHdr (raw : Bytes) (lvl n os : Nat) (fname : Bytes) : LhaHeader :=
  { raw := raw, level := lvl, method := lhaLh0, csize := n, length := n, osType := os, filename := some fname }


def l01Body (n t : Nat) (attr : UInt8) (lvl : Nat) (name : Bytes) (crcv : Nat) (tailx : Bytes) : Bytes :=
  ([0x2d, 0x6c, 0x68, 0x30, 0x2d] : Bytes) ++ (le32 n ++ (le32 n ++ (le32 t ++ (([attr, UInt8.ofNat lvl] : Bytes) ++
    (([UInt8.ofNat name.length] : Bytes) ++ (name ++ (le16 crcv ++ tailx)))))))

theorem l01Body_length (n t : Nat) (attr : UInt8) (lvl : Nat) (name : Bytes) (crcv : Nat) (tailx : Bytes) :
    (l01Body n t attr lvl name crcv tailx).length = 22 + name.length + tailx.length := by
  unfold l01Body
  simp only [List.length_append, le16_length, le32_length, List.length_cons, List.length_nil]; omega

theorem bAt_pair1 (a b : UInt8) (r : Bytes) : bAt (([a, b] : Bytes) ++ r) 1 = b.toNat := by simp [bAt]
theorem bAt_single0 (a : UInt8) (r : Bytes) : bAt (([a] : Bytes) ++ r) 0 = a.toNat := by simp [bAt]

theorem decodeLevel0_spec (n t : Nat) (attr : UInt8) (lvl : Nat) (name : Bytes) (crcv : Nat) (tailx rest : Bytes)
    (hl : lvl = 0 ∧ tailx = [] ∨ lvl = 1 ∧ tailx.length = 3) (hn : PlainName name) (hn32 : n < 2 ^ 32) :
    let body := l01Body n t attr lvl name crcv tailx
    let H : Bytes := ([UInt8.ofNat body.length, lhaSum body] : Bytes) ++ body
    decodeLevel0 { raw := H.take 22, level := lvl } (H.drop 22 ++ rest) =
      some (plainHdr H lvl n (if lvl = 0 then 0 else bAt tailx 0) name, rest) := by
  intro body H
  have hbl : body.length = 22 + name.length + tailx.length := l01Body_length _ _ _ _ _ _ _
  have hnl := hn.len
  have htl : tailx.length ≤ 3 := by rcases hl with ⟨_, h⟩ | ⟨_, h⟩ <;> simp [h]
  have hHl : H.length = 2 + body.length := by simp [H]; omega
  have hb256 : (UInt8.ofNat body.length).toNat = body.length := by rw [UInt8.toNat_ofNat']; omega
  have hnm256 : (UInt8.ofNat name.length).toNat = name.length := by rw [UInt8.toNat_ofNat']; omega
  have hlv256 : (UInt8.ofNat lvl).toNat = lvl := by
    rw [UInt8.toNat_ofNat']; rcases hl with ⟨h, _⟩ | ⟨h, _⟩ <;> omega
  have hH : H = ([UInt8.ofNat body.length, lhaSum body] : Bytes) ++ (([0x2d, 0x6c, 0x68, 0x30, 0x2d] : Bytes) ++
      (le32 n ++ (le32 n ++ (le32 t ++ (([attr, UInt8.ofNat lvl] : Bytes) ++
      (([UInt8.ofNat name.length] : Bytes) ++ (name ++ (le16 crcv ++ tailx)))))))) := rfl
  have e0 : bAt H 0 = body.length := by rw [hH]; simp [bAt, hb256]
  have e1 : bAt H 1 = (lhaSum body).toNat := by rw [hH]; simp [bAt]
  have e20 : bAt H 20 = lvl := by
    rw [hH]; simp only [bAt_s2, bAt_s5, bAt_s32]; rw [bAt_pair1, hlv256]
  have e21 : bAt H 21 = name.length := by
    rw [hH]; simp only [bAt_s2, bAt_s5, bAt_s32]; rw [bAt_single0, hnm256]
  have e7 : u32At H 7 = n := by
    rw [hH]; simp only [u32At_s2, u32At_s5]; exact u32At_le32 _ hn32 _
  have e11 : u32At H 11 = n := by
    rw [hH]; simp only [u32At_s2, u32At_s5, u32At_s32]; exact u32At_le32 _ hn32 _
  have emeth : (H.drop 2).take 5 = lhaLh0 := by rw [hH]; rfl
  have hP22 : H = (([UInt8.ofNat body.length, lhaSum body] : Bytes) ++ ([0x2d, 0x6c, 0x68, 0x30, 0x2d] : Bytes) ++
      le32 n ++ le32 n ++ le32 t ++ ([attr, UInt8.ofNat lvl] : Bytes) ++ ([UInt8.ofNat name.length] : Bytes)) ++
      (name ++ (le16 crcv ++ tailx)) := by rw [hH]; simp only [List.append_assoc]
  have hP22l : (([UInt8.ofNat body.length, lhaSum body] : Bytes) ++ ([0x2d, 0x6c, 0x68, 0x30, 0x2d] : Bytes) ++
      le32 n ++ le32 n ++ le32 t ++ ([attr, UInt8.ofNat lvl] : Bytes) ++ ([UInt8.ofNat name.length] : Bytes)).length = 22 := by
    simp only [List.length_append, le32_length]; rfl
  have ename : (H.drop 22).take name.length = name := by
    rw [hP22, List.drop_left' hP22l, List.take_left' rfl]
  have eos : bAt H (24 + name.length) = bAt tailx 0 := by
    have : H = ((([UInt8.ofNat body.length, lhaSum body] : Bytes) ++ ([0x2d, 0x6c, 0x68, 0x30, 0x2d] : Bytes) ++
      le32 n ++ le32 n ++ le32 t ++ ([attr, UInt8.ofNat lvl] : Bytes) ++ ([UInt8.ofNat name.length] : Bytes)) ++
      name ++ le16 crcv) ++ tailx := by rw [hH]; simp only [List.append_assoc]
    rw [this]
    have hl' : ((([UInt8.ofNat body.length, lhaSum body] : Bytes) ++ ([0x2d, 0x6c, 0x68, 0x30, 0x2d] : Bytes) ++
      le32 n ++ le32 n ++ le32 t ++ ([attr, UInt8.ofNat lvl] : Bytes) ++ ([UInt8.ofNat name.length] : Bytes)) ++
      name ++ le16 crcv).length = 24 + name.length := by
      rw [List.length_append, List.length_append, hP22l, le16_length]; omega
    have := bAt_skip _ tailx 0 _ hl'
    simpa using this
  have etk0 : bAt (H.take 22) 0 = body.length := by
    rw [← e0]; simp [bAt, List.getD_eq_getElem?_getD, List.getElem?_take]
  have etk1 : bAt (H.take 22) 1 = (lhaSum body).toNat := by
    rw [← e1]; simp [bAt, List.getD_eq_getElem?_getD, List.getElem?_take]
  have hsum : ((H.drop 2).foldl (fun a b => a + b.toNat) 0) % 256 = (lhaSum body).toNat := by
    have : H.drop 2 = body := rfl
    rw [this]; exact sum_foldl_ofNat body
  have hext : extendRaw { raw := H.take 22, level := lvl } (H.drop 22 ++ rest) (body.length + 2 - (H.take 22).length) =
      some ({ raw := H, level := lvl }, rest) := by
    have h22 : 22 ≤ H.length := by omega
    obtain ⟨raw, s, h1, h2, h3⟩ := read_header_bytes H rest h22 (by unfold lhaMaxExt; omega) { level := lvl }
    have hlen : body.length + 2 - (H.take 22).length = H.length - 22 := by
      rw [List.length_take]; omega
    rw [hlen]
    have hs : s = H.drop 22 ++ rest := by
      unfold sRead at h1
      have : ¬ (H ++ rest).length < 22 := by simp only [List.length_append]; omega
      rw [if_neg this] at h1
      simp only [Option.some.injEq, Prod.mk.injEq] at h1
      rw [← h1.2, List.drop_append_of_le_length h22]
    rw [← hs, ← h2]; exact h3
  unfold decodeLevel0
  simp only [etk0, etk1]
  have hmin : ¬ body.length < (if lvl = 0 then 22 else 25) := by
    rcases hl with ⟨h, h'⟩ | ⟨h, h'⟩ <;> simp [h] <;> omega
  simp only [hmin, if_false, hext, hsum, ne_eq, not_true_eq_false, e21]
  have hpl : ¬ (if lvl = 0 then 22 else 25) + name.length > body.length := by
    rcases hl with ⟨h, h'⟩ | ⟨h, h'⟩ <;> simp [h] <;> omega
  simp only [hpl, if_false, emeth, e7, e11, ename, eos, level0Path_plain _ name hn]
  have hnoext : ¬ (lvl = 0 ∧ body.length > 22 + name.length) := by
    rcases hl with ⟨h, h'⟩ | ⟨h, h'⟩
    · rw [h'] at hbl; simp at hbl; omega
    · omega
  simp only [hnoext, if_false]
  rfl

/-! ## whole header read, member legality -/

def lhaOsFix (os : Nat) : Bool := os = 0 || os = 0x4d || os = 0x61 || os = 0x20 || os = 0x32

/-- OS type the reader derives for a written member -/
def lhaSeenOs (m : LhaMember) : Nat := if m.level = 0 then 0 else m.osId.toNat

/-- the file name `decrunch_lha` passes to `libxmp_exclude_match` (after `fix_msdos_allcaps`) -/
def lhaSeenName (m : LhaMember) : Bytes :=
  if lhaOsFix (lhaSeenOs m) ∧ m.name.any isLowerB = false then m.name.map toLowerB else m.name

structure LhaMember.Legal (m : LhaMember) : Prop where
  lvl : m.level ≤ 2
  name : PlainName m.name
  dlen : m.data.length < 2 ^ 32
  mac : m.osId ≠ 0x6d
  os9 : m.level = 2 → m.osId ≠ 0x4b

theorem fixAllCaps_plain (raw : Bytes) (lvl n os : Nat) (name : Bytes) (hn : PlainName name) :
    fixAllCaps (plainHdr raw lvl n os name) =
      plainHdr raw lvl n os (if name.any isLowerB = false then name.map toLowerB else name) := by
  by_cases hlow : name.any isLowerB = true
  · have : ¬ (name.any isLowerB = false) := by simp [hlow]
    simp [fixAllCaps, plainHdr, cstr_self name hn.nul, hlow]
  · have hlow' : name.any isLowerB = false := by simpa using hlow
    simp [fixAllCaps, plainHdr, cstr_self name hn.nul, hlow']

theorem lha_post (raw : Bytes) (lvl n os : Nat) (name : Bytes) (hn : PlainName name) (s : Bytes) :
    lhaPost (plainHdr raw lvl n os name) s =
      some (plainHdr raw lvl n os (if lhaOsFix os ∧ name.any isLowerB = false then name.map toLowerB else name), s) := by
  have hne : lhaLh0 ≠ lhaDirMethod := by decide
  have hne7 : lhaLh0 ≠ [0x2d, 0x6c, 0x68, 0x37, 0x2d] := by decide
  unfold lhaPost
  have h1 : ¬ ((plainHdr raw lvl n os name).osType = 0x41 ∧ (plainHdr raw lvl n os name).method = lhaLh0 ∧
      (plainHdr raw lvl n os name).length = 0 ∧ (plainHdr raw lvl n os name).filename.isNone = true) := by
    simp [plainHdr]
  simp only [h1, if_false]
  have h2 : ¬ (((plainHdr raw lvl n os name).method ≠ lhaDirMethod ∧ (plainHdr raw lvl n os name).filename.isNone = true) ∨
      ((plainHdr raw lvl n os name).method = lhaDirMethod ∧ (plainHdr raw lvl n os name).path.isNone = true)) := by
    simp [plainHdr, hne]
  simp only [h2, if_false]
  have hos : (plainHdr raw lvl n os name).osType = os := rfl
  rw [hos]
  by_cases hfix : os = 0 ∨ os = 0x4d ∨ os = 0x61 ∨ os = 0x20 ∨ os = 0x32
  · have hof : lhaOsFix os = true := by
      unfold lhaOsFix; rcases hfix with h | h | h | h | h <;> simp [h]
    simp only [hfix, if_true, hof, true_and, fixAllCaps_plain raw lvl n os name hn]
    simp [plainHdr, hne7]
  · have hof : lhaOsFix os = false := by
      unfold lhaOsFix
      simp only [not_or] at hfix
      simp [hfix.1, hfix.2.1, hfix.2.2.1, hfix.2.2.2.1, hfix.2.2.2.2]
    simp only [hfix, if_false, hof, Bool.false_eq_true, false_and]
    simp [plainHdr, hne7]


theorem plainHdr_raw (raw : Bytes) (lvl n os : Nat) (f : Bytes) : (plainHdr raw lvl n os f).raw = raw := rfl

theorem sRead_header (H T : Bytes) (h22 : 22 ≤ H.length) :
    sRead (H ++ T) 22 = some (H.take 22, H.drop 22 ++ T) := by
  unfold sRead
  have : ¬ (H ++ T).length < 22 := by simp only [List.length_append]; omega
  rw [if_neg this, List.take_append_of_le_length h22, List.drop_append_of_le_length h22]

theorem bAt_take (H : Bytes) (k i : Nat) (h : i < k) : bAt (H.take k) i = bAt H i := by
  simp [bAt, List.getD_eq_getElem?_getD, List.getElem?_take, h]

theorem l01_level_byte (n t : Nat) (attr : UInt8) (lvl : Nat) (hl : lvl < 256) (name : Bytes) (crcv : Nat)
    (tailx : Bytes) (a b : UInt8) :
    bAt ((([a, b] : Bytes) ++ l01Body n t attr lvl name crcv tailx).take 22) 20 = lvl := by
  rw [bAt_take _ _ _ (by decide)]
  unfold l01Body
  simp only [bAt_s2, bAt_s5, bAt_s32]
  rw [bAt_pair1, UInt8.toNat_ofNat']; omega

theorem u16At_tail0 (A : Bytes) : u16At (A ++ le16 0) ((A ++ le16 0).length - 2) = 0 := by
  have : (A ++ le16 0).length - 2 = A.length := by simp [le16_length]
  rw [this, u16At_drop, List.drop_left]; rfl

theorem lhaReadHeader_l01 (crc : Bytes → UInt16) (m : LhaMember) (hm : m.Legal) (hl : m.level = 0 ∨ m.level = 1)
    (rest : Bytes) :
    ∃ raw, lhaReadHeader (lhaEntry crc m ++ rest) =
      some (plainHdr raw m.level m.data.length (lhaSeenOs m) (lhaSeenName m), m.data ++ rest) := by
  have hname := hm.name
  rcases hl with hl | hl
  · -- level 0
    have hE : lhaEntry crc m = (([UInt8.ofNat (l01Body m.data.length m.time m.attr 0 m.name (crc m.data).toNat []).length,
        lhaSum (l01Body m.data.length m.time m.attr 0 m.name (crc m.data).toNat [])] : Bytes) ++
        l01Body m.data.length m.time m.attr 0 m.name (crc m.data).toNat []) ++ m.data := by
      simp [lhaEntry, hl, l01Body, lhaLh0, List.append_assoc]
    rw [hE, List.append_assoc]
    generalize hH : (([UInt8.ofNat (l01Body m.data.length m.time m.attr 0 m.name (crc m.data).toNat []).length,
        lhaSum (l01Body m.data.length m.time m.attr 0 m.name (crc m.data).toNat [])] : Bytes) ++
        l01Body m.data.length m.time m.attr 0 m.name (crc m.data).toNat []) = H
    have hHl : 22 ≤ H.length := by
      rw [← hH]; simp only [List.length_append, l01Body_length, List.length_cons, List.length_nil]; omega
    have hlev : bAt (H.take 22) 20 = 0 := by rw [← hH]; exact l01_level_byte _ _ _ 0 (by decide) _ _ _ _ _
    have hdec := decodeLevel0_spec m.data.length m.time m.attr 0 m.name (crc m.data).toNat [] (m.data ++ rest)
      (Or.inl ⟨rfl, rfl⟩) hname hm.dlen
    simp only [hH] at hdec
    unfold lhaReadHeader
    rw [sRead_header H _ hHl]
    simp only [hlev, if_true, hdec]
    refine ⟨H, ?_⟩
    rw [lha_post H 0 _ 0 m.name hname]
    simp [lhaSeenName, lhaSeenOs, hl]
  · -- level 1
    have hE : lhaEntry crc m = (([UInt8.ofNat (l01Body m.data.length m.time m.attr 1 m.name (crc m.data).toNat
          ([m.osId] ++ le16 0)).length,
        lhaSum (l01Body m.data.length m.time m.attr 1 m.name (crc m.data).toNat ([m.osId] ++ le16 0))] : Bytes) ++
        l01Body m.data.length m.time m.attr 1 m.name (crc m.data).toNat ([m.osId] ++ le16 0)) ++ m.data := by
      simp [lhaEntry, hl, l01Body, lhaLh0, List.append_assoc]
    rw [hE, List.append_assoc]
    have htail : ∃ A, (([UInt8.ofNat (l01Body m.data.length m.time m.attr 1 m.name (crc m.data).toNat
          ([m.osId] ++ le16 0)).length,
        lhaSum (l01Body m.data.length m.time m.attr 1 m.name (crc m.data).toNat ([m.osId] ++ le16 0))] : Bytes) ++
        l01Body m.data.length m.time m.attr 1 m.name (crc m.data).toNat ([m.osId] ++ le16 0)) = A ++ le16 0 := by
      unfold l01Body
      simp only [← List.append_assoc]
      exact ⟨_, rfl⟩
    generalize hH : (([UInt8.ofNat (l01Body m.data.length m.time m.attr 1 m.name (crc m.data).toNat
          ([m.osId] ++ le16 0)).length,
        lhaSum (l01Body m.data.length m.time m.attr 1 m.name (crc m.data).toNat ([m.osId] ++ le16 0))] : Bytes) ++
        l01Body m.data.length m.time m.attr 1 m.name (crc m.data).toNat ([m.osId] ++ le16 0)) = H at htail
    have hHl : 22 ≤ H.length := by
      rw [← hH]; simp only [List.length_append, l01Body_length, List.length_cons, List.length_nil]; omega
    have hlev : bAt (H.take 22) 20 = 1 := by rw [← hH]; exact l01_level_byte _ _ _ 1 (by decide) _ _ _ _ _
    have hdec := decodeLevel0_spec m.data.length m.time m.attr 1 m.name (crc m.data).toNat ([m.osId] ++ le16 0)
      (m.data ++ rest) (Or.inr ⟨rfl, rfl⟩) hname hm.dlen
    simp only [hH] at hdec
    unfold lhaReadHeader
    rw [sRead_header H _ hHl]
    have h10 : ¬ (1 = 0) := by decide
    simp only [hlev, h10, if_false, if_true, hdec]
    obtain ⟨A, hA⟩ := htail
    have hu : u16At H (H.length - 2) = 0 := by rw [hA]; exact u16At_tail0 A
    -- no level-1 extended headers
    have hfu : (m.data ++ rest).length + 1 = (m.data ++ rest).length + 1 := rfl
    rw [readL1Ext]
    simp only [plainHdr_raw, hu, if_true]
    -- the extended header walk stops at the zero length field
    have hH2 : 2 ≤ H.length := by omega
    unfold decodeExt
    rw [extWalk]
    have hnot : ¬ (H.length - 2 + 2 > H.length) := by omega
    simp only [plainHdr_raw, hnot, if_false, hu, if_true, Option.map_some, show ¬ (2 = 4) by decide]
    refine ⟨H, ?_⟩
    have hos : bAt (([m.osId] : Bytes) ++ le16 0) 0 = m.osId.toNat := by simp [bAt]
    rw [hos, lha_post H 1 _ _ m.name hname]
    simp [lhaSeenName, lhaSeenOs, hl]


/-! ## level 2 headers -/

def l2Hdr (hl n t : Nat) (attr osId : UInt8) (name : Bytes) (crcv : Nat) (pad : Bytes) : Bytes :=
  le16 hl ++ (([0x2d, 0x6c, 0x68, 0x30, 0x2d] : Bytes) ++ (le32 n ++ (le32 n ++ (le32 t ++ (([attr, 2] : Bytes) ++
    (le16 crcv ++ (([osId] : Bytes) ++ (le16 (3 + name.length) ++ (([1] : Bytes) ++ (name ++ (le16 0 ++ pad)))))))))))

theorem l2Hdr_length (hl n t : Nat) (attr osId : UInt8) (name : Bytes) (crcv : Nat) (pad : Bytes) :
    (l2Hdr hl n t attr osId name crcv pad).length = 29 + name.length + pad.length := by
  unfold l2Hdr
  simp only [List.length_append, le16_length, le32_length, List.length_cons, List.length_nil]; omega

theorem bAt_pair0 (a b : UInt8) (r : Bytes) : bAt (([a, b] : Bytes) ++ r) 0 = a.toNat := by simp [bAt]

theorem lhaReadHeader_l2 (crc : Bytes → UInt16) (m : LhaMember) (hm : m.Legal) (hl : m.level = 2) (rest : Bytes) :
    ∃ raw, lhaReadHeader (lhaEntry crc m ++ rest) =
      some (plainHdr raw m.level m.data.length (lhaSeenOs m) (lhaSeenName m), m.data ++ rest) := by
  have hname := hm.name
  have hnl := hname.len
  have hnpos : 0 < m.name.length := List.length_pos_iff.mpr hname.ne
  obtain ⟨pad, hpl, hE⟩ : ∃ pad : Bytes, pad.length ≤ 1 ∧ lhaEntry crc m =
      l2Hdr (29 + m.name.length + pad.length) m.data.length m.time m.attr m.osId m.name (crc m.data).toNat pad ++ m.data := by
    refine ⟨if (29 + m.name.length) % 256 = 0 then [0] else [], by split <;> simp, ?_⟩
    have h2 : ¬ m.level = 0 ∧ ¬ m.level = 1 := by omega
    unfold lhaEntry l2Hdr
    simp only [h2.1, h2.2, if_false, lhaLh0, List.length_append, le16_length, le32_length, List.length_cons,
      List.length_nil, List.append_assoc]
    have e : 2 + (0 + 1 + 1 + 1 + 1 + 1 + (4 + (4 + (4 + (0 + 1 + 1 + (2 + (0 + 1))))))) + (2 + (0 + 1 + (m.name.length + 2)))
        = 29 + m.name.length := by omega
    rw [e]
  rw [hE, List.append_assoc]
  generalize hH : l2Hdr (29 + m.name.length + pad.length) m.data.length m.time m.attr m.osId m.name (crc m.data).toNat pad = H
  have hHl : H.length = 29 + m.name.length + pad.length := by rw [← hH]; exact l2Hdr_length _ _ _ _ _ _ _ _
  have hH' : H = le16 (29 + m.name.length + pad.length) ++ (([0x2d, 0x6c, 0x68, 0x30, 0x2d] : Bytes) ++
      (le32 m.data.length ++ (le32 m.data.length ++ (le32 m.time ++ (([m.attr, 2] : Bytes) ++
      (le16 (crc m.data).toNat ++ (([m.osId] : Bytes) ++ (le16 (3 + m.name.length) ++ (([1] : Bytes) ++
      (m.name ++ (le16 0 ++ pad))))))))))) := by rw [← hH]; rfl
  have e0 : u16At H 0 = 29 + m.name.length + pad.length := by
    rw [hH']; exact u16At_le16 _ (by omega) _
  have e20 : bAt H 20 = 2 := by
    rw [hH']; simp only [bAt_s16, bAt_s5, bAt_s32]; rw [bAt_pair1]; rfl
  have e7 : u32At H 7 = m.data.length := by
    rw [hH']; simp only [u32At_s16, u32At_s5]; exact u32At_le32 _ hm.dlen _
  have e11 : u32At H 11 = m.data.length := by
    rw [hH']; simp only [u32At_s16, u32At_s5, u32At_s32]; exact u32At_le32 _ hm.dlen _
  have e23 : bAt H 23 = m.osId.toNat := by
    rw [hH']; simp only [bAt_s16, bAt_s5, bAt_s32, bAt_s2]; rw [bAt_single0]
  have e24 : u16At H 24 = 3 + m.name.length := by
    rw [hH']; simp only [u16At_s16, u16At_s5, u16At_s32, u16At_s2, u16At_s1]
    exact u16At_le16 _ (by omega) _
  have e26 : bAt H 26 = 1 := by
    rw [hH']; simp only [bAt_s16, bAt_s5, bAt_s32, bAt_s2, bAt_s1]; rw [bAt_single0]; rfl
  have emeth : (H.drop 2).take 5 = lhaLh0 := by rw [hH']; rfl
  have hP27 : H = (le16 (29 + m.name.length + pad.length) ++ ([0x2d, 0x6c, 0x68, 0x30, 0x2d] : Bytes) ++
      le32 m.data.length ++ le32 m.data.length ++ le32 m.time ++ ([m.attr, 2] : Bytes) ++
      le16 (crc m.data).toNat ++ ([m.osId] : Bytes) ++ le16 (3 + m.name.length) ++ ([1] : Bytes)) ++
      (m.name ++ (le16 0 ++ pad)) := by rw [hH']; simp only [List.append_assoc]
  have hP27l : (le16 (29 + m.name.length + pad.length) ++ ([0x2d, 0x6c, 0x68, 0x30, 0x2d] : Bytes) ++
      le32 m.data.length ++ le32 m.data.length ++ le32 m.time ++ ([m.attr, 2] : Bytes) ++
      le16 (crc m.data).toNat ++ ([m.osId] : Bytes) ++ le16 (3 + m.name.length) ++ ([1] : Bytes)).length = 27 := by
    simp only [List.length_append, le16_length, le32_length]; rfl
  have ename : (H.drop 27).take m.name.length = m.name := by
    rw [hP27, List.drop_left' hP27l, List.take_left' rfl]
  have eend : u16At H (27 + m.name.length) = 0 := by
    have : H = ((le16 (29 + m.name.length + pad.length) ++ ([0x2d, 0x6c, 0x68, 0x30, 0x2d] : Bytes) ++
      le32 m.data.length ++ le32 m.data.length ++ le32 m.time ++ ([m.attr, 2] : Bytes) ++
      le16 (crc m.data).toNat ++ ([m.osId] : Bytes) ++ le16 (3 + m.name.length) ++ ([1] : Bytes)) ++ m.name) ++
      (le16 0 ++ pad) := by rw [hH']; simp only [List.append_assoc]
    rw [this, u16At_drop, List.drop_left' (by rw [List.length_append, hP27l])]
    rfl
  have h22 : 22 ≤ H.length := by omega
  unfold lhaReadHeader
  rw [sRead_header H _ h22]
  have hlev : bAt (H.take 22) 20 = 2 := by rw [bAt_take _ _ _ (by decide)]; exact e20
  have hu0 : u16At (H.take 22) 0 = 29 + m.name.length + pad.length := by
    rw [← e0]; simp [u16At, List.getD_eq_getElem?_getD, List.getElem?_take]
  have hn0 : ¬ (2 = 0) := by decide
  have hn1 : ¬ (2 = 1) := by decide
  simp only [hlev, hn0, hn1, if_false, if_true, hu0]
  have h26 : ¬ 29 + m.name.length + pad.length < 26 := by omega
  simp only [h26, if_false]
  obtain ⟨raw, s, h1, h2, h3⟩ := read_header_bytes H (m.data ++ rest) h22 (by unfold lhaMaxExt; omega) { level := 2 }
  have hs : s = H.drop 22 ++ (m.data ++ rest) := by
    rw [sRead_header H _ h22] at h1
    simp only [Option.some.injEq, Prod.mk.injEq] at h1
    exact h1.2.symm
  have hext : extendRaw { raw := H.take 22, level := 2 } (H.drop 22 ++ (m.data ++ rest))
      (29 + m.name.length + pad.length - (H.take 22).length) = some ({ raw := H, level := 2 }, m.data ++ rest) := by
    have : 29 + m.name.length + pad.length - (H.take 22).length = H.length - 22 := by
      rw [List.length_take]; omega
    rw [this, ← hs, ← h2]; exact h3
  rw [hext]
  simp only [emeth, e7, e11, e23]
  have hK : ¬ m.osId.toNat = 0x4b := by
    intro h; exact hm.os9 hl (UInt8.toNat_inj.mp h)
  simp only [hK, if_false]
  -- extended headers: file name, then the terminator
  unfold decodeExt
  simp only []
  rw [extWalk]
  have hc1 : ¬ 24 + 2 > H.length := by omega
  simp only [hc1, if_false, show ¬ (2 = 4) by decide, e24]
  have hc2 : ¬ 3 + m.name.length = 0 := by omega
  have hc3 : ¬ (3 + m.name.length < 2 + 1 ∨ 3 + m.name.length > H.length - 24 - 2) := by omega
  simp only [hc2, hc3, if_false]
  have hdecode : extDecode { raw := H, level := 2, method := lhaLh0, csize := m.data.length, length := m.data.length, osType := m.osId.toNat } (24 + 2) (3 + m.name.length - 2) = plainHdr H 2 m.data.length m.osId.toNat m.name := by
    unfold extDecode
    have ht : bAt H (24 + 2) = 1 := e26
    have hd : (H.drop (24 + 2 + 1)).take (3 + m.name.length - 2 - 1) = m.name := by
      have : 3 + m.name.length - 2 - 1 = m.name.length := by omega
      rw [this]; exact ename
    simp only [ht, hd, show ¬ (1 = 0) by decide, if_false, if_true]
    have hlen1 : ¬ m.name.length < 1 := by omega
    simp only [hlen1, if_false, cstr_self m.name hname.nul]
    have hmap : m.name.map (fun b => if b = 0x2f then 0x5f else b) = m.name := by
      have : ∀ (l : Bytes), (∀ x ∈ l, x ≠ 0x2f) → l.map (fun b => if b = 0x2f then (0x5f : UInt8) else b) = l := by
        intro l hl
        induction l with
        | nil => rfl
        | cons c l ih =>
          have hc : c ≠ 0x2f := hl c (by simp)
          simp [hc, ih (fun x hx => hl x (by simp [hx]))]
      exact this m.name hname.slash
    rw [hmap]; rfl
  rw [hdecode]
  have hfuel : H.length = (28 + m.name.length + pad.length) + 1 := by omega
  rw [show extWalk 2 H.length = extWalk 2 ((28 + m.name.length + pad.length) + 1) by rw [hfuel], extWalk]
  simp only [plainHdr_raw]
  have hc4 : ¬ 24 + (3 + m.name.length) + 2 > H.length := by omega
  have hoff : 24 + (3 + m.name.length) = 27 + m.name.length := by omega
  simp only [hc4, if_false, show ¬ (2 = 4) by decide, hoff, eend, if_true, ite_self, Option.map_some]
  refine ⟨H, ?_⟩
  rw [lha_post H 2 _ _ m.name hname]
  simp [lhaSeenName, lhaSeenOs, hl]


/-! ## the walk -/

theorem lhaReadHeader_entry (crc : Bytes → UInt16) (m : LhaMember) (hm : m.Legal) (rest : Bytes) :
    ∃ raw, lhaReadHeader (lhaEntry crc m ++ rest) =
      some (plainHdr raw m.level m.data.length (lhaSeenOs m) (lhaSeenName m), m.data ++ rest) := by
  have := hm.lvl
  rcases (by omega : m.level = 0 ∨ m.level = 1 ∨ m.level = 2) with h | h | h
  · exact lhaReadHeader_l01 crc m hm (Or.inl h) rest
  · exact lhaReadHeader_l01 crc m hm (Or.inr h) rest
  · exact lhaReadHeader_l2 crc m hm h rest

theorem nullRead_ok : ∀ (fuel k : Nat) (d T acc : Bytes), d.length = k → k + 1 ≤ fuel →
    lhaNullRead fuel (d ++ T) k k acc = some (acc ++ d) := by
  intro fuel
  induction fuel with
  | zero => intro k d T acc _ h; omega
  | succ f ih =>
    intro k d T acc hd hf
    rw [lhaNullRead]
    by_cases hk : k = 0
    · subst hk
      have : d = [] := List.eq_nil_of_length_eq_zero hd
      simp [this]
    · simp only [hk, if_false]
      have hb : ¬ min 1024 k = 0 := by omega
      have hs : ¬ (d ++ T).length < min 1024 k := by simp only [List.length_append]; omega
      simp only [hb, hs, if_false]
      have hble : min 1024 k ≤ d.length := by omega
      have h1 : (d ++ T).drop (min 1024 k) = d.drop (min 1024 k) ++ T := List.drop_append_of_le_length hble
      have h2 : ((d ++ T).take (min 1024 k)).take k = d.take (min 1024 k) := by
        rw [List.take_append_of_le_length hble, List.take_take]
        congr 1; omega
      have h3 : k - min k (min 1024 k) = k - min 1024 k := by omega
      rw [h1, h2, h3, ih (k - min 1024 k) (d.drop (min 1024 k)) T _ (by simp; omega) (by omega)]
      simp [List.append_assoc]

theorem toLowerB_ne0 (b : UInt8) (h : b ≠ 0) : toLowerB b ≠ 0 := by
  unfold toLowerB
  split
  · next hc =>
    intro h0
    have := congrArg UInt8.toNat h0
    rw [UInt8.toNat_add] at this
    simp at this; omega
  · exact h

theorem lhaSeenName_noNul (m : LhaMember) (hn : noNul m.name) : noNul (lhaSeenName m) := by
  unfold lhaSeenName
  split
  · intro x hx
    obtain ⟨y, hy, rfl⟩ := List.mem_map.mp hx
    exact toLowerB_ne0 y (hn y hy)
  · exact hn

theorem lhaWalk_skip (crc : Bytes → UInt16) (dec : Bytes → Bool → Bytes → Nat → Option Bytes)
    (pre : List LhaMember) : ∀ (T : Bytes) (fuel : Nat),
    (∀ x ∈ pre, x.Legal ∧ excludeMatch (lhaSeenName x) = true) →
    lhaWalk dec (fuel + pre.length) (pre.flatMap (lhaEntry crc) ++ T) = lhaWalk dec fuel T := by
  induction pre with
  | nil => intro T fuel _; simp
  | cons x pre ih =>
    intro T fuel hpre
    obtain ⟨hx, hex⟩ := hpre x (by simp)
    obtain ⟨raw, hr⟩ := lhaReadHeader_entry crc x hx (pre.flatMap (lhaEntry crc) ++ T)
    have hfu : fuel + (x :: pre).length = (fuel + pre.length) + 1 := by simp; omega
    rw [hfu, List.flatMap_cons, List.append_assoc, lhaWalk, hr]
    have hcs : cstr (lhaSeenName x) = lhaSeenName x := cstr_self _ (lhaSeenName_noNul x hx.name.nul)
    simp only [plainHdr, Option.getD_some, hcs, hex, or_true, if_true, List.drop_left]
    exact ih T fuel (fun y hy => hpre y (by simp [hy]))

theorem lhaWalk_hit (crc : Bytes → UInt16) (dec : Bytes → Bool → Bytes → Nat → Option Bytes) (m : LhaMember)
    (hm : m.Legal) (hx : excludeMatch (lhaSeenName m) = false) (hne : m.data ≠ [])
    (hlim : m.data.length ≤ depackLimit) (T : Bytes) (fuel : Nat) :
    lhaWalk dec (fuel + 1) (lhaEntry crc m ++ T) = some m.data := by
  obtain ⟨raw, hr⟩ := lhaReadHeader_entry crc m hm T
  rw [lhaWalk, hr]
  have hcs : cstr (lhaSeenName m) = lhaSeenName m := cstr_self _ (lhaSeenName_noNul m hm.name.nul)
  have hnd : lhaLh0 ≠ lhaDirMethod := by decide
  have hlen : ¬ (m.data.length = 0 ∨ m.data.length > depackLimit) := by
    have : m.data.length ≠ 0 := fun h => hne (List.eq_nil_of_length_eq_zero h)
    omega
  have hmac : lhaSeenOs m ≠ 0x6d := by
    unfold lhaSeenOs; split
    · decide
    · intro h; exact hm.mac (UInt8.toNat_inj.mp h)
  have hst : lhaIsStored lhaLh0 = true := by decide
  simp only [plainHdr, Option.getD_some, hcs, hx, hnd, Bool.false_eq_true, or_self, if_false, hlen, hst, hmac,
    ne_eq, not_false_eq_true, and_self, if_true]
  have := nullRead_ok (m.data.length + 1) m.data.length m.data T [] rfl (Nat.le_refl _)
  simpa using this

theorem lhaEntry_match (crc : Bytes → UInt16) (m : LhaMember) (hm : m.Legal) (T : Bytes) :
    lhaHdrMatch (lhaEntry crc m ++ T) 0 = true ∧ 13 ≤ (lhaEntry crc m).length := by
  have := hm.lvl
  rcases (by omega : m.level = 0 ∨ m.level = 1 ∨ m.level = 2) with h | h | h
  · constructor
    · simp [lhaHdrMatch, bAt, lhaEntry, h, lhaLh0]
    · simp [lhaEntry, h, lhaLh0, le32_length]; omega
  · constructor
    · simp [lhaHdrMatch, bAt, lhaEntry, h, lhaLh0]
    · simp [lhaEntry, h, lhaLh0, le32_length]; omega
  · have h2 : ¬ m.level = 0 ∧ ¬ m.level = 1 := by omega
    constructor
    · simp [lhaHdrMatch, bAt, lhaEntry, h2.1, h2.2, lhaLh0, le16]
    · simp [lhaEntry, h2.1, h2.2, lhaLh0, le32_length, le16_length]; omega

theorem lhaEntry_pos (crc : Bytes → UInt16) (m : LhaMember) : 0 < (lhaEntry crc m).length := by
  unfold lhaEntry
  split
  · simp
  · split
    · simp
    · simp only [List.length_append, le16_length]; omega

theorem lha_flatMap_length_ge (crc : Bytes → UInt16) (ms : List LhaMember) :
    ms.length ≤ (ms.flatMap (lhaEntry crc)).length := by
  induction ms with
  | nil => simp
  | cons x ms ih =>
    have := lhaEntry_pos crc x
    simp only [List.flatMap_cons, List.length_append, List.length_cons]; omega

/-- **LHA framing, stored members, header levels 0 / 1 / 2**: `m0` is the first member of the archive -/
theorem unlha_wrap (crc : Bytes → UInt16) (dec : Bytes → Bool → Bytes → Nat → Option Bytes)
    (pre post : List LhaMember) (m m0 : LhaMember) (rest0 : List LhaMember)
    (h0 : pre ++ m :: post = m0 :: rest0) (hm0 : m0.Legal)
    (hpre : ∀ x ∈ pre, x.Legal ∧ excludeMatch (lhaSeenName x) = true)
    (hm : m.Legal) (hx : excludeMatch (lhaSeenName m) = false) (hne : m.data ≠ [])
    (hlim : m.data.length ≤ depackLimit) :
    unlha dec (lhaWrap crc (pre ++ m :: post)) = some m.data := by
  have hskip : skipSfx (lhaWrap crc (pre ++ m :: post)) = some 0 := by
    rw [h0]
    unfold lhaWrap skipSfx
    rw [List.flatMap_cons, List.append_assoc]
    obtain ⟨hmt, h13⟩ := lhaEntry_match crc m0 hm0 (rest0.flatMap (lhaEntry crc) ++ [0])
    rw [skipSfxGo]
    have hc : ¬ (0 + 13 > (lhaEntry crc m0 ++ (rest0.flatMap (lhaEntry crc) ++ [0])).length ∨ 0 ≥ lhaSfxLimit) := by
      simp only [List.length_append]; unfold lhaSfxLimit; omega
    simp only [hc, if_false, hmt, and_self, if_true]
  unfold unlha
  rw [hskip]
  simp only [List.drop_zero]
  unfold lhaWrap
  rw [List.flatMap_append, List.flatMap_cons, List.append_assoc, List.append_assoc]
  generalize hT : post.flatMap (lhaEntry crc) ++ [0] = T
  have hge := lha_flatMap_length_ge crc pre
  have hpos := lhaEntry_pos crc m
  obtain ⟨k, hk⟩ : ∃ k, (pre.flatMap (lhaEntry crc) ++ (lhaEntry crc m ++ T)).length + 1 = (k + 1) + pre.length :=
    ⟨(pre.flatMap (lhaEntry crc) ++ (lhaEntry crc m ++ T)).length - pre.length, by
      simp only [List.length_append]; omega⟩
  rw [hk, lhaWalk_skip crc dec pre _ (k + 1) hpre]
  exact lhaWalk_hit crc dec m hm hx hne hlim T k


theorem lhaEntry_level_byte (crc : Bytes → UInt16) (m : LhaMember) (hm : m.Legal) (T : Bytes) :
    bAt (lhaEntry crc m ++ T) 20 = m.level := by
  have := hm.lvl
  rcases (by omega : m.level = 0 ∨ m.level = 1 ∨ m.level = 2) with h | h | h
  · simp [bAt, lhaEntry, h, lhaLh0, le32]
  · simp [bAt, lhaEntry, h, lhaLh0, le32]
  · have h2 : ¬ m.level = 0 ∧ ¬ m.level = 1 := by omega
    simp [bAt, lhaEntry, h2.1, h2.2, lhaLh0, le32, le16, h]

theorem lhaWrap_length (crc : Bytes → UInt16) (m0 : LhaMember) (rest : List LhaMember) (hm : m0.Legal) :
    22 ≤ (lhaWrap crc (m0 :: rest)).length := by
  have := hm.lvl
  have hne := hm.name.ne
  have hnpos : 0 < m0.name.length := List.length_pos_iff.mpr hne
  unfold lhaWrap
  rw [List.flatMap_cons]
  simp only [List.length_append]
  have : 23 ≤ (lhaEntry crc m0).length := by
    rcases (by omega : m0.level = 0 ∨ m0.level = 1 ∨ m0.level = 2) with h | h | h
    · simp [lhaEntry, h, lhaLh0, le32_length, le16_length]; omega
    · simp [lhaEntry, h, lhaLh0, le32_length, le16_length]; omega
    · have h2 : ¬ m0.level = 0 ∧ ¬ m0.level = 1 := by omega
      simp [lhaEntry, h2.1, h2.2, lhaLh0, le32_length, le16_length]; omega
  omega

end Xmp.Container
