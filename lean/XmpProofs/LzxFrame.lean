import XmpProofs.ArcfsFrame
import XmpModel.LzxFrame
/-!
Byte-level framing of LZX archives with stored, unmerged members: `lzxRead` (model of `lzx_read`) on an archive
written by `lzxWrap`.
-/
namespace Xmp.Container
open Xmp Xmp.Gen.Depackers

structure LzxMember.Legal (m : LzxMember) : Prop where
  nameLen : m.name.length < 256
  nameNul : noNul m.name
  commentLen : m.comment.length < 256
  dlen : m.data.length < 2 ^ 32
  date : m.date < 2 ^ 32

/-- header CRC of a written entry -/
def lzxHcrc (crc : UInt32 → Bytes → UInt32) (m : LzxMember) : UInt32 :=
  let c0 := crc 0 (lzxHdr31 crc m 0)
  let c1 := if m.name.length ≠ 0 then crc c0 m.name else c0
  if m.comment.length ≠ 0 then crc c1 m.comment else c1

theorem lzxHdr31_length (crc : UInt32 → Bytes → UInt32) (m : LzxMember) (h : Nat) : (lzxHdr31 crc m h).length = 31 := by
  unfold lzxHdr31
  simp only [List.length_append, le32_length, List.length_cons, List.length_nil]

theorem bAt_s4 (a b c d : UInt8) (r : Bytes) (j : Nat) : bAt (([a, b, c, d] : Bytes) ++ r) (j + 4) = bAt r j :=
  bAt_skip [a, b, c, d] r j 4 rfl

theorem bAt_quad (a b c d : UInt8) (r : Bytes) :
    bAt (([a, b, c, d] : Bytes) ++ r) 1 = b.toNat ∧ bAt (([a, b, c, d] : Bytes) ++ r) 2 = c.toNat := by
  simp [bAt]

theorem lzxReadEntry_entry (crc : UInt32 → Bytes → UInt32) (m : LzxMember) (hm : m.Legal) (rest : Bytes) :
    lzxReadEntry crc (lzxEntry crc m ++ rest) =
      some ({ usize := m.data.length, csize := m.data.length, method := 0, flags := 0, extractVer := 10,
              crc32 := (crc 0 m.data).toNat, headerCrc := (lzxHcrc crc m).toNat, filename := m.name,
              computedCrc := (lzxHcrc crc m).toNat }, m.data ++ rest) := by
  have hE : lzxEntry crc m = lzxHdr31 crc m (lzxHcrc crc m).toNat ++ (m.name ++ (m.comment ++ m.data)) := by
    simp [lzxEntry, lzxHcrc, List.append_assoc]
  rw [hE, List.append_assoc, List.append_assoc, List.append_assoc]
  generalize hH : (lzxHcrc crc m).toNat = hc
  have hhc : hc < 2 ^ 32 := by rw [← hH]; exact (lzxHcrc crc m).toNat_lt
  have hl31 := lzxHdr31_length crc m hc
  have hcn : (UInt8.ofNat m.name.length).toNat = m.name.length := by
    rw [UInt8.toNat_ofNat']; have := hm.nameLen; omega
  have hcc : (UInt8.ofNat m.comment.length).toNat = m.comment.length := by
    rw [UInt8.toNat_ofNat']; have := hm.commentLen; omega
  unfold lzxReadEntry
  have hlen : ¬ (lzxHdr31 crc m hc ++ (m.name ++ (m.comment ++ (m.data ++ rest)))).length < 31 := by
    simp only [List.length_append, hl31]; omega
  rw [if_neg hlen, List.take_left' hl31, List.drop_left' hl31]
  -- fields of the 31-byte header
  have hB : lzxHdr31 crc m hc = ([m.attrs, 0] : Bytes) ++ (le32 m.data.length ++ (le32 m.data.length ++
      (([0x0a, 0, 0, 0] : Bytes) ++ (([UInt8.ofNat m.comment.length, 0x0a] : Bytes) ++ (([0, 0] : Bytes) ++
      (le32 m.date ++ (le32 (crc 0 m.data).toNat ++ (le32 hc ++ ([UInt8.ofNat m.name.length] : Bytes))))))))) := by
    unfold lzxHdr31; simp only [List.append_assoc]
  have e30 : bAt (lzxHdr31 crc m hc) 30 = m.name.length := by
    rw [hB]; simp only [bAt_s2, bAt_s32, bAt_s4]
    simp [bAt, hcn]
  have e14 : bAt (lzxHdr31 crc m hc) 14 = m.comment.length := by
    rw [hB]; simp only [bAt_s2, bAt_s32, bAt_s4]
    rw [bAt_pair0, hcc]
  have e15 : bAt (lzxHdr31 crc m hc) 15 = 10 := by
    rw [hB]; simp only [bAt_s2, bAt_s32, bAt_s4]
    rw [bAt_pair1]; rfl
  have e11 : bAt (lzxHdr31 crc m hc) 11 = 0 := by
    rw [hB]; simp only [bAt_s2, bAt_s32]
    exact (bAt_quad _ _ _ _ _).1
  have e12 : bAt (lzxHdr31 crc m hc) 12 = 0 := by
    rw [hB]; simp only [bAt_s2, bAt_s32]
    exact (bAt_quad _ _ _ _ _).2
  have e2 : u32At (lzxHdr31 crc m hc) 2 = m.data.length := by
    rw [hB]; simp only [u32At_s2]; exact u32At_le32 _ hm.dlen _
  have e6 : u32At (lzxHdr31 crc m hc) 6 = m.data.length := by
    rw [hB]; simp only [u32At_s2, u32At_s32]; exact u32At_le32 _ hm.dlen _
  have e22 : u32At (lzxHdr31 crc m hc) 22 = (crc 0 m.data).toNat := by
    rw [hB]; simp only [u32At_s2, u32At_s32, u32At_s4]
    exact u32At_le32 _ (crc 0 m.data).toNat_lt _
  have e26 : u32At (lzxHdr31 crc m hc) 26 = hc := by
    rw [hB]; simp only [u32At_s2, u32At_s32, u32At_s4]
    exact u32At_le32 _ hhc _
  -- the header with its CRC field zeroed is the header written with CRC 0
  have hzero : (lzxHdr31 crc m hc).take 26 ++ [0, 0, 0, 0] ++ (lzxHdr31 crc m hc).drop 30 = lzxHdr31 crc m 0 := by
    have hP : ∀ h, lzxHdr31 crc m h = (([m.attrs, 0] : Bytes) ++ le32 m.data.length ++ le32 m.data.length ++
        ([0x0a, 0, 0, 0] : Bytes) ++ ([UInt8.ofNat m.comment.length, 0x0a] : Bytes) ++ ([0, 0] : Bytes) ++
        le32 m.date ++ le32 (crc 0 m.data).toNat) ++ (le32 h ++ ([UInt8.ofNat m.name.length] : Bytes)) := by
      intro h; unfold lzxHdr31; simp only [List.append_assoc]
    have hPl : (([m.attrs, 0] : Bytes) ++ le32 m.data.length ++ le32 m.data.length ++
        ([0x0a, 0, 0, 0] : Bytes) ++ ([UInt8.ofNat m.comment.length, 0x0a] : Bytes) ++ ([0, 0] : Bytes) ++
        le32 m.date ++ le32 (crc 0 m.data).toNat).length = 26 := by
      simp only [List.length_append, le32_length]; rfl
    rw [hP hc, hP 0, List.take_left' hPl]
    have : ((([m.attrs, 0] : Bytes) ++ le32 m.data.length ++ le32 m.data.length ++
        ([0x0a, 0, 0, 0] : Bytes) ++ ([UInt8.ofNat m.comment.length, 0x0a] : Bytes) ++ ([0, 0] : Bytes) ++
        le32 m.date ++ le32 (crc 0 m.data).toNat) ++ (le32 hc ++ ([UInt8.ofNat m.name.length] : Bytes))).drop 30 =
        ([UInt8.ofNat m.name.length] : Bytes) := by
      rw [show (30 : Nat) = 26 + 4 from rfl, ← List.drop_drop, List.drop_left' hPl, List.drop_left' (le32_length hc)]
    rw [this]
    simp [le32, List.append_assoc]
  simp only [e30, e14, e15, e11, e12, e2, e6, e22, e26, hzero]
  have hn1 : ¬ (m.name ++ (m.comment ++ (m.data ++ rest))).length < m.name.length := by
    simp only [List.length_append]; omega
  rw [if_neg hn1, List.take_left' rfl, List.drop_left' rfl]
  have hn2 : ¬ (m.comment ++ (m.data ++ rest)).length < m.comment.length := by
    simp only [List.length_append]; omega
  rw [if_neg hn2, List.take_left' rfl, List.drop_left' rfl, cstr_self m.name hm.nameNul]
  have : (if m.comment.length ≠ 0 then
      crc (if m.name.length ≠ 0 then crc (crc 0 (lzxHdr31 crc m 0)) m.name else crc 0 (lzxHdr31 crc m 0)) m.comment
      else if m.name.length ≠ 0 then crc (crc 0 (lzxHdr31 crc m 0)) m.name else crc 0 (lzxHdr31 crc m 0)) =
      lzxHcrc crc m := by
    unfold lzxHcrc; rfl
  rw [this, hH]


def lzxSpec (crc : UInt32 → Bytes → UInt32) (m : LzxMember) : LzxEntry :=
  { usize := m.data.length, csize := m.data.length, method := 0, flags := 0, extractVer := 10,
    crc32 := (crc 0 m.data).toNat, headerCrc := (lzxHcrc crc m).toNat, filename := m.name,
    computedCrc := (lzxHcrc crc m).toNat }

theorem lzxCheck_excluded (crc : UInt32 → Bytes → UInt32) (m : LzxMember) (fileLen : Nat)
    (hex : excludeMatch m.name = true) : lzxCheck {} (lzxSpec crc m) fileLen = ({}, false) := by
  unfold lzxCheck lzxSpec
  simp [hex, LzxState.reset]

theorem lzxCheck_hit (crc : UInt32 → Bytes → UInt32) (m : LzxMember) (fileLen : Nat)
    (hx : excludeMatch m.name = false) (hlt : m.data.length < fileLen) (hlim : m.data.length ≤ depackLimit)
    (hne : m.data.length ≠ 0) :
    lzxCheck {} (lzxSpec crc m) fileLen =
      ({ total := m.data.length, selected := some (0, m.data.length, (crc 0 m.data).toNat) }, true) := by
  unfold lzxCheck lzxSpec
  have h1 : ¬ m.data.length ≥ fileLen := by omega
  have h2 : ¬ m.data.length > depackLimit := by omega
  simp [hx, h1, h2, hne, LzxState.reset, LzxState.select]

theorem lzxEntry_pos (crc : UInt32 → Bytes → UInt32) (m : LzxMember) : 31 ≤ (lzxEntry crc m).length := by
  unfold lzxEntry
  simp only [List.length_append, lzxHdr31_length]; omega

theorem lzxLoop_skip (crc : UInt32 → Bytes → UInt32) (dec : Bytes → Nat → Option Bytes) (fileLen : Nat)
    (pre : List LzxMember) : ∀ (T : Bytes) (fuel : Nat),
    (∀ x ∈ pre, x.Legal ∧ excludeMatch x.name = true) →
    lzxLoop crc dec fileLen (fuel + pre.length) {} (pre.flatMap (lzxEntry crc) ++ T) = lzxLoop crc dec fileLen fuel {} T := by
  induction pre with
  | nil => intro T fuel _; simp
  | cons x pre ih =>
    intro T fuel hpre
    obtain ⟨hx, hex⟩ := hpre x (by simp)
    have hfu : fuel + (x :: pre).length = (fuel + pre.length) + 1 := by simp; omega
    rw [hfu, List.flatMap_cons, List.append_assoc, lzxLoop, lzxReadEntry_entry crc x hx]
    simp only []
    have := lzxCheck_excluded crc x fileLen hex
    unfold lzxSpec at this
    rw [this]
    simp only [Bool.not_false, if_true, List.drop_left]
    exact ih T fuel (fun y hy => hpre y (by simp [hy]))

/-- **LZX framing, stored unmerged members**: entry headers with file names and comments, header CRC-32, excluded
    members skipped, the first other member is returned after the CRC-32 gate -/
theorem lzxRead_wrap (crc : UInt32 → Bytes → UInt32) (dec : Bytes → Nat → Option Bytes) (pre post : List LzxMember)
    (m : LzxMember)
    (hpre : ∀ x ∈ pre, x.Legal ∧ excludeMatch x.name = true)
    (hm : m.Legal) (hx : excludeMatch m.name = false) (hlim : m.data.length ≤ depackLimit) (hne : m.data ≠ []) :
    lzxRead crc dec (lzxWrap crc (pre ++ m :: post)) = some m.data := by
  have hn0 : m.data.length ≠ 0 := fun h => hne (List.eq_nil_of_length_eq_zero h)
  unfold lzxRead lzxWrap
  generalize hT : post.flatMap (lzxEntry crc) = T
  have hflat : (pre ++ m :: post).flatMap (lzxEntry crc) = pre.flatMap (lzxEntry crc) ++ (lzxEntry crc m ++ T) := by
    rw [List.flatMap_append, List.flatMap_cons, hT]
  rw [hflat]
  generalize hF : ([0x4c, 0x5a, 0x58, 0, 0x0c, 0, 0x0a, 0x04, 0, 0] : Bytes) ++
      (pre.flatMap (lzxEntry crc) ++ (lzxEntry crc m ++ T)) = F
  have hFl : F.length = 10 + ((pre.flatMap (lzxEntry crc)).length + ((lzxEntry crc m).length + T.length)) := by
    rw [← hF]; simp only [List.length_append, List.length_cons, List.length_nil]
  have hElen : (lzxEntry crc m).length = 31 + m.name.length + m.comment.length + m.data.length := by
    unfold lzxEntry; simp only [List.length_append, lzxHdr31_length]
  have h10 : ¬ F.length < 10 := by omega
  have hmagic : memEqAt F 0 [0x4c, 0x5a, 0x58] = true := by rw [← hF]; rfl
  have hdrop : F.drop 10 = pre.flatMap (lzxEntry crc) ++ (lzxEntry crc m ++ T) := by rw [← hF]; rfl
  simp only [h10, if_false, hmagic, Bool.not_true, Bool.false_eq_true, hdrop]
  have hge : pre.length ≤ (pre.flatMap (lzxEntry crc)).length := by
    clear hdrop hF hFl hflat
    induction pre with
    | nil => simp
    | cons x pre ih =>
      have := lzxEntry_pos crc x
      simp only [List.flatMap_cons, List.length_append, List.length_cons]
      have := ih (fun y hy => hpre y (by simp [hy]))
      omega
  obtain ⟨k, hk⟩ : ∃ k, F.length + 1 = (k + 1) + pre.length := ⟨F.length - pre.length, by omega⟩
  rw [hk, lzxLoop_skip crc dec F.length pre _ (k + 1) hpre]
  rw [lzxLoop, lzxReadEntry_entry crc m hm]
  simp only []
  have hchk := lzxCheck_hit crc m F.length hx (by omega) hlim hn0
  unfold lzxSpec at hchk
  rw [hchk]
  simp only [Bool.not_true, Bool.false_eq_true, if_false, List.length_append]
  have hl2 : ¬ m.data.length + T.length < m.data.length := by omega
  simp only [hl2, if_false, List.take_left' rfl, ne_eq, not_true_eq_false]
  simp

end Xmp.Container
