import XmpModel.Bzip2
import XmpProofs.Bzip2Bits
import XmpProofs.Bzip2Huff
/-!
# bzip2: the decode tables of `read_block_header` against a canonical Huffman encoder, arbitrary lengths

For every assignment of code lengths 1..20 whose Kraft sum is at most 1, the tables `limit/base/permute`
decode the canonical code (codes in increasing order of (length, symbol)) of every symbol.
-/
namespace Xmp.Bzip2
open Xmp

/-! ## bit strings -/

theorem putBits_split (v : Nat) : ∀ (a b : Nat), putBits (a + b) v = putBits a (v / 2 ^ b) ++ putBits b v
  | 0, b => by simp [putBits]
  | a + 1, b => by
    have : a + 1 + b = (a + b) + 1 := by omega
    rw [this]
    simp only [putBits, List.cons_append]
    rw [putBits_split v a b, Nat.testBit_div_two_pow]

/-- reading the first `m` bits of an `n`-bit code -/
theorem getBits_prefix (m n v : Nat) (hmn : m ≤ n) (hv : v < 2 ^ n) (rest : Bits) :
    getBits m (putBits n v ++ rest) = .ok (v / 2 ^ (n - m), putBits (n - m) v ++ rest) := by
  have e : n = m + (n - m) := by omega
  conv => lhs; rw [e, putBits_split, List.append_assoc]
  rw [getBits_putBits]
  rw [Nat.div_lt_iff_lt_mul (Nat.two_pow_pos _), ← Nat.pow_add]
  have : m + (n - m) = n := by omega
  rw [this]; exact hv

/-! ## smallest and largest length -/

theorem minMax_spec : ∀ (l0 : Nat) (rest : List Nat) (mn mx : Nat), mn ≤ mx →
    (∀ l ∈ rest, True) →
    let r := rest.foldl (fun (mm : Nat × Nat) l => if l > mm.2 then (mm.1, l) else if l < mm.1 then (l, mm.2) else mm) (mn, mx)
    r.1 ≤ mn ∧ mx ≤ r.2 ∧ r.1 ≤ r.2 ∧ (∀ l ∈ rest, r.1 ≤ l ∧ l ≤ r.2) ∧
      (r.1 = mn ∨ r.1 ∈ rest) ∧ (r.2 = mx ∨ r.2 ∈ rest)
  | _, [], mn, mx, h, _ => by simp [h]
  | l0, l :: rest, mn, mx, h, _ => by
    simp only [List.foldl_cons]
    by_cases h1 : l > mx
    · have ih := minMax_spec l0 rest mn l (by omega) (fun _ _ => trivial)
      simp only [h1, if_true]
      simp only at ih
      obtain ⟨a, b, c, d, e, f⟩ := ih
      refine ⟨a, by omega, c, ?_, ?_, ?_⟩
      · intro x hx
        rcases List.mem_cons.mp hx with rfl | hx
        · omega
        · exact d x hx
      · rcases e with e | e
        · exact Or.inl e
        · exact Or.inr (List.mem_cons_of_mem _ e)
      · rcases f with f | f
        · exact Or.inr (by rw [f]; exact List.mem_cons_self)
        · exact Or.inr (List.mem_cons_of_mem _ f)
    · simp only [h1, if_false]
      by_cases h2 : l < mn
      · have ih := minMax_spec l0 rest l mx (by omega) (fun _ _ => trivial)
        simp only [h2, if_true]
        simp only at ih
        obtain ⟨a, b, c, d, e, f⟩ := ih
        refine ⟨by omega, b, c, ?_, ?_, ?_⟩
        · intro x hx
          rcases List.mem_cons.mp hx with rfl | hx
          · omega
          · exact d x hx
        · rcases e with e | e
          · exact Or.inr (by rw [e]; exact List.mem_cons_self)
          · exact Or.inr (List.mem_cons_of_mem _ e)
        · rcases f with f | f
          · exact Or.inl f
          · exact Or.inr (List.mem_cons_of_mem _ f)
      · have ih := minMax_spec l0 rest mn mx h (fun _ _ => trivial)
        simp only [h2, if_false]
        simp only at ih
        obtain ⟨a, b, c, d, e, f⟩ := ih
        refine ⟨a, b, c, ?_, ?_, ?_⟩
        · intro x hx
          rcases List.mem_cons.mp hx with rfl | hx
          · omega
          · exact d x hx
        · rcases e with e | e
          · exact Or.inl e
          · exact Or.inr (List.mem_cons_of_mem _ e)
        · rcases f with f | f
          · exact Or.inl f
          · exact Or.inr (List.mem_cons_of_mem _ f)

/-- `minLen`/`maxLen` as computed by the C (`if (> maxLen) … else if (< minLen) …`) are the true extremes -/
theorem minMax_bounds (lengths : List Nat) (hne : lengths ≠ []) :
    (∀ l ∈ lengths, (minMax lengths).1 ≤ l ∧ l ≤ (minMax lengths).2) ∧
    (minMax lengths).1 ∈ lengths ∧ (minMax lengths).2 ∈ lengths := by
  obtain ⟨l0, rest, rfl⟩ := List.exists_cons_of_ne_nil hne
  have := minMax_spec l0 rest l0 l0 (Nat.le_refl _) (fun _ _ => trivial)
  simp only at this
  obtain ⟨a, b, c, d, e, f⟩ := this
  unfold minMax
  refine ⟨?_, ?_, ?_⟩
  · intro x hx
    rcases List.mem_cons.mp hx with rfl | hx
    · exact ⟨a, b⟩
    · exact d x hx
  · rcases e with e | e
    · rw [e]; exact List.mem_cons_self
    · exact List.mem_cons_of_mem _ e
  · rcases f with f | f
    · rw [f]; exact List.mem_cons_self
    · exact List.mem_cons_of_mem _ f

/-! ## the canonical code in closed form -/

/-- first code value of length `k` (0 up to the shortest length, then `2·(first + count)` per level) -/
def firstCode (temp : Nat → Nat) (minLen : Nat) : Nat → Nat
  | 0 => 0
  | k + 1 => if k + 1 ≤ minLen then 0 else 2 * (firstCode temp minLen k + temp k)

/-- number of symbols with a code shorter than `k` -/
def cumF (temp : Nat → Nat) (minLen : Nat) : Nat → Nat
  | 0 => 0
  | k + 1 => if k + 1 ≤ minLen then 0 else cumF temp minLen k + temp k

theorem firstCode_le_min (temp : Nat → Nat) (minLen k : Nat) (h : k ≤ minLen) : firstCode temp minLen k = 0 := by
  cases k with
  | zero => rfl
  | succ k => simp [firstCode, h]

theorem cumF_le_min (temp : Nat → Nat) (minLen k : Nat) (h : k ≤ minLen) : cumF temp minLen k = 0 := by
  cases k with
  | zero => rfl
  | succ k => simp [cumF, h]

theorem firstCode_succ (temp : Nat → Nat) (minLen k : Nat) (h : minLen ≤ k) :
    firstCode temp minLen (k + 1) = 2 * (firstCode temp minLen k + temp k) := by
  simp only [firstCode]; rw [if_neg (by omega)]

theorem cumF_succ (temp : Nat → Nat) (minLen k : Nat) (h : minLen ≤ k) :
    cumF temp minLen (k + 1) = cumF temp minLen k + temp k := by
  simp only [cumF]; rw [if_neg (by omega)]

/-- the `limit[]/base[]` loop of `read_block_header` in closed form -/
theorem lbLoop_closed (temp : Nat → Nat) (minLen : Nat) : ∀ (n a : Nat) (L B : Nat → Int), minLen ≤ a →
    lbLoop temp (List.range' a n) (firstCode temp minLen a) (cumF temp minLen a) L B =
      (firstCode temp minLen (a + n),
       (fun k => if a ≤ k ∧ k < a + n then ((firstCode temp minLen k + temp k : Nat) : Int) - 1 else L k),
       (fun k => if a < k ∧ k ≤ a + n then ((firstCode temp minLen k : Nat) : Int) - (cumF temp minLen k : Nat) else B k))
  | 0, a, L, B, _ => by
    simp only [List.range'_zero, lbLoop, Nat.add_zero]
    congr 2
    · funext k; rw [if_neg (by omega)]
    · funext k; rw [if_neg (by omega)]
  | n + 1, a, L, B, h => by
    rw [List.range'_succ, lbLoop]
    have e1 : 2 * (firstCode temp minLen a + temp a) = firstCode temp minLen (a + 1) := (firstCode_succ temp minLen a h).symm
    have e2 : cumF temp minLen a + temp a = cumF temp minLen (a + 1) := (cumF_succ temp minLen a h).symm
    rw [e1, e2, lbLoop_closed temp minLen n (a + 1) _ _ (by omega)]
    have : a + 1 + n = a + (n + 1) := by omega
    rw [this]
    congr 2
    · funext k
      unfold upd
      by_cases hk : k = a
      · subst hk
        rw [if_neg (by omega), if_pos rfl, if_pos (by omega)]
      · by_cases h2 : a + 1 ≤ k ∧ k < a + (n + 1)
        · rw [if_pos h2, if_pos (by omega)]
        · rw [if_neg h2, if_neg hk, if_neg (by omega)]
    · funext k
      unfold upd
      by_cases hk : k = a + 1
      · subst hk
        rw [if_neg (by omega), if_pos rfl, if_pos (by omega)]
      · by_cases h2 : a + 1 < k ∧ k ≤ a + (n + 1)
        · rw [if_pos h2, if_pos (by omega)]
        · rw [if_neg h2, if_neg hk, if_neg (by omega)]

theorem limitFn_closed (lengths : List Nat) (mn mx : Nat) (hmm : minMax lengths = (mn, mx)) (hle : mn ≤ mx)
    (k : Nat) (hk1 : mn ≤ k) (hk2 : k ≤ mx) :
    limitFn lengths k = ((firstCode (fun ii => lengths.count ii) mn k + lengths.count k : Nat) : Int) - 1 ∧
    limitFn lengths (mx + 1) = intMax := by
  unfold limitFn
  rw [hmm]
  simp only
  have h0 := lbLoop_closed (fun ii => lengths.count ii) mn (mx - mn) mn (fun _ => 0) (fun _ => 0) (Nat.le_refl _)
  rw [firstCode_le_min _ mn mn (Nat.le_refl _), cumF_le_min _ mn mn (Nat.le_refl _)] at h0
  rw [h0]
  simp only
  have hmx : mn + (mx - mn) = mx := by omega
  rw [hmx]
  unfold upd
  refine ⟨?_, by simp⟩
  rw [if_neg (by omega)]
  by_cases e : k = mx
  · subst e
    rw [if_pos rfl]
    push_cast
    omega
  · rw [if_neg e]
    show (if mn ≤ k ∧ k < mx then _ else _) = _
    rw [if_pos (by omega)]

theorem baseFn_closed (lengths : List Nat) (mn mx : Nat) (hmm : minMax lengths = (mn, mx)) (hle : mn ≤ mx)
    (k : Nat) (hk1 : mn ≤ k) (hk2 : k ≤ mx) :
    baseFn lengths k = ((firstCode (fun ii => lengths.count ii) mn k : Nat) : Int) -
      (cumF (fun ii => lengths.count ii) mn k : Nat) := by
  unfold baseFn
  rw [hmm]
  simp only
  have h0 := lbLoop_closed (fun ii => lengths.count ii) mn (mx - mn) mn (fun _ => 0) (fun _ => 0) (Nat.le_refl _)
  rw [firstCode_le_min _ mn mn (Nat.le_refl _), cumF_le_min _ mn mn (Nat.le_refl _)] at h0
  rw [h0]
  simp only
  unfold upd
  by_cases e : k = mn
  · subst e
    rw [if_pos rfl, firstCode_le_min _ k k (Nat.le_refl _), cumF_le_min _ k k (Nat.le_refl _)]
    rfl
  · rw [if_neg e]
    show (if mn < k ∧ k ≤ mn + (mx - mn) then _ else _) = _
    rw [if_pos (by omega)]

/-! ## Kraft's inequality -/

/-- `Σ_{j ≤ k} count(j) · 2^(k-j)`: the Kraft sum of the lengths up to `k`, scaled by `2^k` -/
def kraftUpTo (temp : Nat → Nat) : Nat → Nat
  | 0 => temp 0
  | k + 1 => 2 * kraftUpTo temp k + temp (k + 1)

theorem kraftUpTo_mono (temp : Nat → Nat) (k : Nat) : ∀ (d : Nat), 2 ^ d * kraftUpTo temp k ≤ kraftUpTo temp (k + d)
  | 0 => by simp
  | d + 1 => by
    have ih := kraftUpTo_mono temp k d
    rw [← Nat.add_assoc, kraftUpTo, Nat.pow_succ]
    have : 2 ^ d * 2 * kraftUpTo temp k = 2 * (2 ^ d * kraftUpTo temp k) := by
      rw [Nat.mul_comm (2 ^ d) 2, Nat.mul_assoc]
    omega

/-- with no symbol shorter than `mn`, the scaled Kraft sum is `first code + count` at every level -/
theorem kraftUpTo_eq (temp : Nat → Nat) (mn : Nat) (hz : ∀ j, j < mn → temp j = 0) :
    ∀ (k : Nat), kraftUpTo temp k = firstCode temp mn k + temp k
  | 0 => by simp [kraftUpTo, firstCode]
  | k + 1 => by
    rw [kraftUpTo, kraftUpTo_eq temp mn hz k]
    by_cases h : k + 1 ≤ mn
    · rw [firstCode_le_min _ _ _ h, firstCode_le_min _ _ _ (by omega), hz k (by omega)]
    · rw [firstCode_succ _ _ _ (by omega)]

/-- Kraft ≤ 1 (at scale `2^top`) ⇒ the canonical codes of every length `k ≤ top` fit into `k` bits -/
theorem code_fits (temp : Nat → Nat) (mn top : Nat) (hz : ∀ j, j < mn → temp j = 0)
    (hk : kraftUpTo temp top ≤ 2 ^ top) (k : Nat) (hkt : k ≤ top) :
    firstCode temp mn k + temp k ≤ 2 ^ k := by
  rw [← kraftUpTo_eq temp mn hz k]
  have h1 := kraftUpTo_mono temp k (top - k)
  have e : k + (top - k) = top := by omega
  rw [e] at h1
  have h2 : 2 ^ (top - k) * kraftUpTo temp k ≤ 2 ^ (top - k) * 2 ^ k := by
    rw [← Nat.pow_add, Nat.add_comm, e]; omega
  exact Nat.le_of_mul_le_mul_left h2 (Nat.two_pow_pos _)

/-- codes of length `len` start above the prefixes of all shorter codes -/
theorem firstCode_ge (temp : Nat → Nat) (mn ii : Nat) (hii : mn ≤ ii) : ∀ (d : Nat),
    (firstCode temp mn ii + temp ii) * 2 ^ (d + 1) ≤ firstCode temp mn (ii + d + 1)
  | 0 => by
    rw [firstCode_succ _ _ _ hii]; omega
  | d + 1 => by
    have ih := firstCode_ge temp mn ii hii d
    rw [← Nat.add_assoc, firstCode_succ _ _ _ (by omega), Nat.pow_succ]
    have : (firstCode temp mn ii + temp ii) * (2 ^ (d + 1) * 2) = 2 * ((firstCode temp mn ii + temp ii) * 2 ^ (d + 1)) := by
      rw [Nat.mul_comm (2 ^ (d + 1)) 2, ← Nat.mul_assoc, Nat.mul_comm _ 2, Nat.mul_assoc]
    rw [this]
    have : ii + (d + 1) = ii + d + 1 := by omega
    omega

/-! ## symbols of one length -/

theorem symsOfLen_length (lengths : List Nat) (k : Nat) : (symsOfLen lengths k).length = lengths.count k := by
  unfold symsOfLen
  rw [List.length_map, List.count_eq_length_filter]
  have h := List.zipIdx_map_fst 0 lengths
  have : (lengths.zipIdx.filter (fun p => p.1 == k)).length = ((lengths.zipIdx.map Prod.fst).filter (· == k)).length := by
    rw [List.filter_map, List.length_map]; rfl
  rw [this, h]

theorem mem_symsOfLen (lengths : List Nat) (k sym : Nat) : sym ∈ symsOfLen lengths k ↔ lengths[sym]? = some k := by
  unfold symsOfLen
  simp only [List.mem_map, List.mem_filter, beq_iff_eq]
  constructor
  · rintro ⟨⟨x, i⟩, ⟨hm, hx⟩, rfl⟩
    simp only at hx
    subst hx
    exact List.mk_mem_zipIdx_iff_getElem?.mp hm
  · intro h
    exact ⟨(k, sym), ⟨List.mk_mem_zipIdx_iff_getElem?.mpr h, rfl⟩, rfl⟩

theorem count_lt_succ (lengths : List Nat) (k : Nat) :
    (lengths.filter (· < k + 1)).length = (lengths.filter (· < k)).length + lengths.count k := by
  induction lengths with
  | nil => simp
  | cons a t ih =>
    simp only [List.filter_cons, List.count_cons]
    by_cases h1 : a < k
    · have h2 : a < k + 1 := by omega
      have h3 : ¬ a = k := by omega
      simp [h1, h2, h3, ih]; omega
    · by_cases h3 : a = k
      · subst h3
        simp [ih]; omega
      · have h2 : ¬ a < k + 1 := by omega
        simp [h1, h2, h3, ih]

/-- `cumF` counts the symbols with shorter codes -/
theorem cumF_eq_filter (lengths : List Nat) (mn : Nat) (hmn : ∀ l ∈ lengths, mn ≤ l) :
    ∀ (k : Nat), cumF (fun ii => lengths.count ii) mn k = (lengths.filter (· < k)).length
  | 0 => by
    have : lengths.filter (· < 0) = [] := List.filter_eq_nil_iff.mpr (fun a _ => by simp)
    rw [this]; rfl
  | k + 1 => by
    by_cases h : k + 1 ≤ mn
    · rw [cumF_le_min _ _ _ h]
      symm
      rw [List.length_eq_zero_iff, List.filter_eq_nil_iff]
      intro l hl
      have := hmn l hl
      simp; omega
    · rw [cumF_succ _ _ _ (by omega), cumF_eq_filter lengths mn hmn k, count_lt_succ]

/-- the symbols with shorter codes fill `permute[0 .. cumF len)` -/
theorem permute_prefix_length (lengths : List Nat) (mn : Nat) (hmn : ∀ l ∈ lengths, mn ≤ l) :
    ∀ (d : Nat), ((List.range' mn d).flatMap (symsOfLen lengths)).length = cumF (fun ii => lengths.count ii) mn (mn + d)
  | 0 => by simp [cumF_le_min]
  | d + 1 => by
    rw [List.range'_1_concat, List.flatMap_append, List.length_append, permute_prefix_length lengths mn hmn d]
    simp only [List.flatMap_cons, List.flatMap_nil, List.append_nil, symsOfLen_length]
    rw [← Nat.add_assoc, cumF_succ _ _ _ (by omega)]

theorem permuteList_getD (lengths : List Nat) (mn mx : Nat) (hmm : minMax lengths = (mn, mx))
    (hmn : ∀ l ∈ lengths, mn ≤ l) (sym len : Nat) (hlen : lengths[sym]? = some len) (h1 : mn ≤ len) (h2 : len ≤ mx) :
    (permuteList lengths).getD (cumF (fun ii => lengths.count ii) mn len + (symsOfLen lengths len).idxOf sym) 0 = sym := by
  unfold permuteList
  rw [hmm]
  simp only
  have hsplit : List.range' mn (mx + 1 - mn) = List.range' mn (len - mn) ++ (len :: List.range' (len + 1) (mx - len)) := by
    have := @List.range'_append mn (len - mn) (mx + 1 - len) 1
    rw [Nat.one_mul] at this
    have e1 : mn + (len - mn) = len := by omega
    have e2 : len - mn + (mx + 1 - len) = mx + 1 - mn := by omega
    rw [e1, e2] at this
    rw [← this]
    congr 1
    have : mx + 1 - len = (mx - len) + 1 := by omega
    rw [this, List.range'_succ]
  rw [hsplit, List.flatMap_append, List.flatMap_cons]
  have hA := permute_prefix_length lengths mn hmn (len - mn)
  have e1 : mn + (len - mn) = len := by omega
  rw [e1] at hA
  have hmem : sym ∈ symsOfLen lengths len := (mem_symsOfLen lengths len sym).mpr hlen
  have hidx : (symsOfLen lengths len).idxOf sym < (symsOfLen lengths len).length := List.idxOf_lt_length_of_mem hmem
  rw [List.getD_eq_getElem?_getD, List.getElem?_append_right (by omega), hA, Nat.add_sub_cancel_left,
    List.getElem?_append_left hidx, List.getElem?_eq_getElem hidx, Option.getD_some]
  exact List.getElem_idxOf hidx

/-! ## the decode loop on a canonical code -/

/-- the canonical code of a symbol: `len` bits, value `firstCode len + rank among the symbols of that length` -/
def canonValue (lengths : List Nat) (sym : Nat) : Nat :=
  firstCode (fun ii => lengths.count ii) (minMax lengths).1 (lengths.getD sym 0) +
    (symsOfLen lengths (lengths.getD sym 0)).idxOf sym

def canonEncode (lengths : List Nat) (sym : Nat) : Bits := putBits (lengths.getD sym 0) (canonValue lengths sym)

theorem div_step (v d : Nat) : 2 * (v / 2 ^ (d + 1)) + (v.testBit d).toNat = v / 2 ^ d := by
  rw [Nat.toNat_testBit, Nat.pow_succ, ← Nat.div_div_eq_div_mul]
  omega

theorem hufLoop_canon (g : Group) (temp : Nat → Nat) (mn len v : Nat) (rest : Bits)
    (hlim : ∀ ii, mn ≤ ii → ii ≤ len → g.limit.getD ii 0 = ((firstCode temp mn ii + temp ii : Nat) : Int) - 1)
    (hv1 : firstCode temp mn len ≤ v) (hv2 : v < firstCode temp mn len + temp len) :
    ∀ (d fuel : Nat), d + 1 ≤ fuel → mn + d ≤ len →
      hufLoop g fuel (len - d) (v / 2 ^ d) (putBits d v ++ rest) = .ok (len, v, rest)
  | 0, fuel, hf, _ => by
    obtain ⟨f, rfl⟩ : ∃ f, fuel = f + 1 := ⟨fuel - 1, by omega⟩
    simp only [hufLoop, Nat.sub_zero, Nat.pow_zero, Nat.div_one, putBits, List.nil_append]
    rw [hlim len (by omega) (Nat.le_refl _), if_neg (by omega)]
  | d + 1, fuel, hf, hd => by
    obtain ⟨f, rfl⟩ : ∃ f, fuel = f + 1 := ⟨fuel - 1, by omega⟩
    have hii : mn ≤ len - (d + 1) := by omega
    have hge := firstCode_ge temp mn (len - (d + 1)) hii d
    have e : len - (d + 1) + d + 1 = len := by omega
    rw [e] at hge
    have hq : firstCode temp mn (len - (d + 1)) + temp (len - (d + 1)) ≤ v / 2 ^ (d + 1) := by
      rw [Nat.le_div_iff_mul_le (Nat.two_pow_pos _)]; omega
    simp only [hufLoop, putBits, List.cons_append]
    rw [hlim (len - (d + 1)) hii (by omega), if_pos (by omega)]
    rw [div_step]
    have e2 : len - (d + 1) + 1 = len - d := by omega
    rw [e2]
    exact hufLoop_canon g temp mn len v rest hlim hv1 hv2 d f (by omega) (by omega)

/-- **(d)** for every assignment of code lengths 1..20 to at most 258 symbols whose Kraft sum is at most 1
    (`kraftUpTo count 20 ≤ 2^20`, i.e. `Σ_sym 2^(20-len) ≤ 2^20`), the tables `limit/base/permute` that
    `read_block_header` builds decode the canonical code of every symbol and leave the following bits alone -/
theorem decodeSym_canon (lengths : List Nat) (hsz : lengths.length ≤ 258)
    (hrange : ∀ l ∈ lengths, 1 ≤ l ∧ l ≤ 20)
    (hkraft : kraftUpTo (fun ii => lengths.count ii) 20 ≤ 2 ^ 20)
    (sym : Nat) (hsym : sym < lengths.length) (rest : Bits) :
    decodeSym (mkGroup lengths) (canonEncode lengths sym ++ rest) = .ok (sym, rest) := by
  have hne : lengths ≠ [] := by intro e; rw [e] at hsym; simp at hsym
  obtain ⟨hb, hmnmem, hmxmem⟩ := minMax_bounds lengths hne
  generalize hmm : minMax lengths = mm at *
  obtain ⟨mn, mx⟩ := mm
  simp only at hb hmnmem hmxmem
  have hmn1 := (hrange mn hmnmem).1
  have hmx20 := (hrange mx hmxmem).2
  have hmnmx : mn ≤ mx := (hb mn hmnmem).2
  generalize htemp : (fun ii => lengths.count ii) = temp at *
  have htempv : ∀ ii, lengths.count ii = temp ii := fun ii => by rw [← htemp]
  have hlenget : lengths[sym]? = some (lengths.getD sym 0) := by
    rw [List.getD_eq_getElem?_getD, List.getElem?_eq_getElem hsym]; rfl
  generalize hlen : lengths.getD sym 0 = len at *
  have hlenmem : len ∈ lengths := by
    rw [List.getElem?_eq_getElem hsym] at hlenget
    simp only [Option.some.injEq] at hlenget
    rw [← hlenget]; exact List.getElem_mem hsym
  obtain ⟨hl1, hl2⟩ := hb len hlenmem
  have hz : ∀ j, j < mn → temp j = 0 := by
    intro j hj
    rw [← htemp]
    simp only [List.count_eq_zero]
    intro hm
    have := (hb j hm).1
    omega
  -- the code value
  have hmemS : sym ∈ symsOfLen lengths len := (mem_symsOfLen lengths len sym).mpr hlenget
  have hrank : (symsOfLen lengths len).idxOf sym < temp len := by
    have := List.idxOf_lt_length_of_mem hmemS
    rw [symsOfLen_length] at this
    rw [← htemp]; exact this
  have hfit := code_fits temp mn 20 hz hkraft len (by omega)
  have hcv : canonValue lengths sym = firstCode temp mn len + (symsOfLen lengths len).idxOf sym := by
    unfold canonValue; rw [hmm, hlen, htemp]
  generalize hv : canonValue lengths sym = v at *
  -- tables
  have hg : (mkGroup lengths).minLen = mn ∧ (mkGroup lengths).maxLen = mx := by
    unfold mkGroup; rw [hmm]; exact ⟨rfl, rfl⟩
  have hlimit : ∀ ii, mn ≤ ii → ii ≤ len → (mkGroup lengths).limit.getD ii 0 = ((firstCode temp mn ii + temp ii : Nat) : Int) - 1 := by
    intro ii h1 h2
    have : (mkGroup lengths).limit = ((List.range 23).map (limitFn lengths)).toArray := by
      unfold mkGroup; rw [hmm]
    rw [this, frozen_getD _ _ _ (by omega), (limitFn_closed lengths mn mx hmm hmnmx ii h1 (by omega)).1, htemp, htempv]
  have hbase : (mkGroup lengths).base.getD len 0 = ((firstCode temp mn len : Nat) : Int) - (cumF temp mn len : Nat) := by
    have : (mkGroup lengths).base = ((List.range 23).map (baseFn lengths)).toArray := by
      unfold mkGroup; rw [hmm]
    rw [this, frozen_getD _ _ _ (by omega), baseFn_closed lengths mn mx hmm hmnmx len hl1 hl2, htemp]
  have hperm : (mkGroup lengths).permute.getD (cumF temp mn len + (symsOfLen lengths len).idxOf sym) 0 = sym := by
    have : (mkGroup lengths).permute = (permuteList lengths).toArray := by
      unfold mkGroup; rw [hmm]
    rw [this, Array.getD_eq_getD_getElem?, List.getElem?_toArray, ← List.getD_eq_getElem?_getD, ← htemp]
    exact permuteList_getD lengths mn mx hmm (fun l hl => (hb l hl).1) sym len hlenget hl1 hl2
  have hcum : cumF temp mn len + temp len ≤ lengths.length := by
    rw [← htemp, cumF_eq_filter lengths mn (fun l hl => (hb l hl).1), ← count_lt_succ]
    exact List.length_filter_le _ _
  -- run the decoder
  unfold decodeSym canonEncode
  rw [hlen, hv, hg.1, getBits_prefix mn len v hl1 (by omega)]
  simp only
  have hloop := hufLoop_canon (mkGroup lengths) temp mn len v rest hlimit (by omega) (by omega) (len - mn) 22 (by omega) (by omega)
  have e : len - (len - mn) = mn := by omega
  rw [e] at hloop
  rw [hloop]
  simp only [hg.2, hbase]
  have hj2 : ((v : Nat) : Int) - (((firstCode temp mn len : Nat) : Int) - ((cumF temp mn len : Nat) : Int)) =
      ((cumF temp mn len + (symsOfLen lengths len).idxOf sym : Nat) : Int) := by
    rw [hcv]; push_cast; omega
  rw [hj2]
  have hms : (Gen.maxSymbols : Int) = 258 := rfl
  rw [hms, if_neg (by omega)]
  rw [Int.toNat_natCast, hperm]

/-! ## the Kraft hypothesis in its usual form -/

theorem kraftUpTo_add (f g : Nat → Nat) : ∀ (k : Nat),
    kraftUpTo (fun j => f j + g j) k = kraftUpTo f k + kraftUpTo g k
  | 0 => rfl
  | k + 1 => by simp only [kraftUpTo, kraftUpTo_add f g k]; omega

theorem kraftUpTo_single (a : Nat) : ∀ (k : Nat),
    kraftUpTo (fun j => if a = j then 1 else 0) k = if a ≤ k then 2 ^ (k - a) else 0
  | 0 => by
    simp only [kraftUpTo]
    by_cases h : a = 0
    · subst h; simp
    · rw [if_neg h, if_neg (by omega)]
  | k + 1 => by
    simp only [kraftUpTo, kraftUpTo_single a k]
    by_cases h1 : a ≤ k
    · rw [if_pos h1, if_neg (by omega), if_pos (by omega)]
      have : k + 1 - a = (k - a) + 1 := by omega
      rw [this, Nat.pow_succ]; omega
    · by_cases h2 : a = k + 1
      · subst h2
        rw [if_neg h1]; simp
      · rw [if_neg h1, if_neg h2, if_neg (by omega)]

/-- `kraftUpTo count 20` is `Σ_sym 2^(20 - len(sym))` -/
theorem kraftUpTo_eq_sum : ∀ (lengths : List Nat), (∀ l ∈ lengths, l ≤ 20) →
    kraftUpTo (fun ii => lengths.count ii) 20 = (lengths.map (fun l => 2 ^ (20 - l))).sum
  | [], _ => by decide
  | a :: t, h => by
    have ih := kraftUpTo_eq_sum t (fun l hl => h l (List.mem_cons_of_mem _ hl))
    have ha := h a List.mem_cons_self
    have e : (fun ii => (a :: t).count ii) = (fun j => (fun j => t.count j) j + (fun j => if a = j then 1 else 0) j) := by
      funext j
      simp only [List.count_cons, beq_iff_eq]
    rw [e, kraftUpTo_add, ih, kraftUpTo_single, if_pos ha, List.map_cons, List.sum_cons]
    omega

end Xmp.Bzip2
