import XmpProofs.Container
import XmpModel.ArcFrame
/-!
Byte-level framing of ARC / Spark archives (`arc_read` of src/depackers/arc.c as modelled by
`Xmp.Container.arcRead`) and correctness of the concrete RLE90 encoder `rle90Enc`.
-/
namespace Xmp.Container
open Xmp Xmp.Gen.Depackers

/-! ## the concrete RLE90 encoder -/

theorem runLen_spec (b : UInt8) (r : Bytes) (n : Nat) :
    ∃ k, runLen b r n = n + k ∧ k ≤ r.length ∧ r.take k = List.replicate k b ∧ (n ≤ 255 → n + k ≤ 255) := by
  induction r generalizing n with
  | nil => exact ⟨0, by simp [runLen]⟩
  | cons c r ih =>
    simp only [runLen]
    by_cases h : c = b ∧ n < 255
    · simp only [h, and_self, if_true]
      obtain ⟨k, h1, h2, h3, h4⟩ := ih (n + 1)
      refine ⟨k + 1, by omega, by simp; omega, ?_, by omega⟩
      simp [List.take_succ_cons, h3, List.replicate_succ]
    · simp only [h, if_false]
      exact ⟨0, by simp⟩

theorem expandGo_rle90Enc (fuel : Nat) : ∀ (p acc : Bytes) (last : UInt8), p.length ≤ fuel →
    expandGo (rle90EncFuel fuel p) acc last = p.reverse ++ acc := by
  induction fuel with
  | zero =>
    intro p acc last h
    have : p = [] := List.eq_nil_of_length_eq_zero (by omega)
    subst this; simp [rle90EncFuel, expandGo]
  | succ fuel ih =>
    intro p acc last h
    cases p with
    | nil => simp [rle90EncFuel, expandGo]
    | cons b r =>
      simp only [rle90EncFuel]
      have hr : r.length ≤ fuel := by simp at h; omega
      by_cases hb : b = 0x90
      · simp only [hb, if_true, expandGo, ih r _ _ hr]; simp
      · simp only [hb, if_false]
        obtain ⟨k, h1, h2, h3, h4⟩ := runLen_spec b r 1
        by_cases hn : runLen b r 1 ≥ 3
        · simp only [hn, if_true, expandGo]
          have hk : runLen b r 1 - 1 = k := by omega
          have hto : (UInt8.ofNat (runLen b r 1)).toNat = runLen b r 1 := by
            rw [UInt8.toNat_ofNat']; have := h4 (by omega); omega
          rw [hto, hk, ih (r.drop k) _ _ (by simp; omega)]
          have : r = List.replicate k b ++ r.drop k := by rw [← h3, List.take_append_drop]
          conv => rhs; rw [this]
          simp [List.reverse_append]
        · simp only [hn, if_false, expandGo, ih r _ _ hr]; simp

/-- the simple encoder's token stream means the payload -/
theorem rle90Enc_expand (p : Bytes) : expand (rle90Enc p) = p := by
  unfold expand rle90Enc
  rw [expandGo_rle90Enc p.length p [] 0 (Nat.le_refl _)]; simp

theorem rle90EncFuel_ok (fuel : Nat) : ∀ p : Bytes, ∀ t ∈ rle90EncFuel fuel p, t.Ok := by
  induction fuel with
  | zero => intro p t ht; simp [rle90EncFuel] at ht
  | succ fuel ih =>
    intro p t ht
    cases p with
    | nil => simp [rle90EncFuel] at ht
    | cons b r =>
      simp only [rle90EncFuel] at ht
      by_cases hb : b = 0x90
      · simp only [hb, if_true, List.mem_cons] at ht
        rcases ht with h | h
        · subst h; trivial
        · exact ih r t h
      · simp only [hb, if_false] at ht
        obtain ⟨k, h1, h2, h3, h4⟩ := runLen_spec b r 1
        by_cases hn : runLen b r 1 ≥ 3
        · simp only [hn, if_true, List.mem_cons] at ht
          rcases ht with h | h | h
          · subst h; exact hb
          · subst h
            show UInt8.ofNat (runLen b r 1) ≠ 0
            intro h0
            have := congrArg UInt8.toNat h0
            rw [UInt8.toNat_ofNat'] at this
            have := h4 (by omega); simp at *; omega
          · exact ih _ t h
        · simp only [hn, if_false, List.mem_cons] at ht
          rcases ht with h | h
          · subst h; exact hb
          · exact ih r t h

theorem rle90Enc_ok (p : Bytes) : ∀ t ∈ rle90Enc p, t.Ok := rle90EncFuel_ok p.length p

/-- **RLE90 round trip with the concrete encoder** -/
theorem unrle90_rle90Enc (p : Bytes) : unrle90 p.length (render (rle90Enc p)) = some p := by
  have := unrle90_render (rle90Enc p) (rle90Enc_ok p)
  rwa [rle90Enc_expand] at this


/-! ## header field access -/

theorem getD_drop0 (l : Bytes) (i j : Nat) : (l.drop i).getD j 0 = l.getD (i + j) 0 := by
  simp [List.getD_eq_getElem?_getD, List.getElem?_drop]

theorem u32At_drop (l : Bytes) (i : Nat) : u32At l i = u32At (l.drop i) 0 := by
  simp [u32At, Nat.add_assoc]

theorem u16At_drop (l : Bytes) (i : Nat) : u16At l i = u16At (l.drop i) 0 := by
  simp [u16At]

theorem u32At_at (a r : Bytes) (n i : Nat) (ha : a.length = i) (hn : n < 2 ^ 32) :
    u32At (a ++ (le32 n ++ r)) i = n := by
  rw [u32At_drop, List.drop_left' ha, u32At_le32 n hn]

theorem u16At_le16 (n : Nat) (h : n < 65536) (r : Bytes) : u16At (le16 n ++ r) 0 = n := by
  simp [u16At, le16, u16le, UInt8.toNat_ofNat']
  omega

theorem u16At_at (a r : Bytes) (n i : Nat) (ha : a.length = i) (hn : n < 65536) :
    u16At (a ++ (le16 n ++ r)) i = n := by
  rw [u16At_drop, List.drop_left' ha, u16At_le16 n hn]

theorem le16_length (n : Nat) : (le16 n).length = 2 := rfl

theorem cstr_self (name : Bytes) (hn : noNul name) : cstr name = name := by
  unfold cstr
  induction name with
  | nil => rfl
  | cons c n ih =>
    have hc : c ≠ 0 := hn c (by simp)
    have ih' := ih (fun x hx => hn x (by simp [hx]))
    rw [List.takeWhile_cons]
    have : decide (c ≠ 0) = true := by simp [hc]
    rw [this]; simp only [if_true]; rw [ih']

theorem cstr_nul (name t : Bytes) (hn : noNul name) : cstr (name ++ 0 :: t) = name := by
  unfold cstr
  induction name with
  | nil => simp [List.takeWhile_cons]
  | cons c n ih =>
    have hc : c ≠ 0 := hn c (by simp)
    have ih' := ih (fun x hx => hn x (by simp [hx]))
    rw [List.cons_append, List.takeWhile_cons]
    have : decide (c ≠ 0) = true := by simp [hc]
    rw [this]; simp only [if_true]; rw [ih']

theorem cstr_take (name : Bytes) (hn : noNul name) (hl : name.length ≤ 12) :
    cstr ((name ++ List.replicate (13 - name.length) 0).take 12) = name := by
  rw [List.take_append, List.take_of_length_le (by omega : name.length ≤ 12)]
  rcases Nat.lt_or_ge name.length 12 with h | h
  · have : (List.replicate (13 - name.length) (0 : UInt8)).take (12 - name.length)
        = 0 :: List.replicate (11 - name.length) 0 := by
      rw [List.take_replicate]
      have : min (12 - name.length) (13 - name.length) = (11 - name.length) + 1 := by omega
      rw [this, List.replicate_succ]
    rw [this, cstr_nul name _ hn]
  · have : 12 - name.length = 0 := by omega
    rw [this]; simp [cstr_self name hn]


/-! ## `arc_read_entry` on a written entry -/

structure ArcMember.Legal (m : ArcMember) : Prop where
  nameLen : m.name.length ≤ 12
  nameNul : noNul m.name
  meth : m.method % 128 = 1 ∨ m.method % 128 = 2 ∨ m.method % 128 = 3
  methHi : m.method < 256
  dlen : m.data.length < 2 ^ 32
  clen : m.cdata.length < 2 ^ 32
  date : m.date < 65536
  time : m.time < 65536
  attrs : m.attrs.length = 12
  packed : m.method % 128 = 3 → (∀ t ∈ m.toks, t.Ok) ∧ expand m.toks = m.data
  /-- a Spark entry whose load address marks a directory is walked into, not read -/
  notDir : ¬ (m.method = 130 ∧ u32At m.attrs 0 / 256 = 0xfffddc)

/-- header bytes between the method byte and the compressed data -/
def arcHdrTail (crc : Bytes → UInt16) (m : ArcMember) : Bytes :=
  (m.name ++ List.replicate (13 - m.name.length) 0) ++ (le32 m.cdata.length ++ (le16 m.date ++ (le16 m.time ++
  (le16 (crc m.data).toNat ++ ((if m.method % 128 = arcUnpackedOld then [] else le32 m.data.length) ++
  (if m.method ≥ 128 then m.attrs else []))))))

theorem arcEntryBytes_eq (crc : Bytes → UInt16) (m : ArcMember) :
    arcEntryBytes crc m = 0x1a :: UInt8.ofNat m.method :: (arcHdrTail crc m ++ m.cdata) := by
  simp [arcEntryBytes, arcHdrTail, List.append_assoc]

theorem arcHdrTail_length (crc : Bytes → UInt16) (m : ArcMember) (hm : m.Legal) :
    (arcHdrTail crc m).length = arcHeaderLength m.method - 2 ∧ 2 < arcHeaderLength m.method := by
  have h1 := hm.nameLen
  have h2 := hm.attrs
  have hmeth := hm.meth
  unfold arcHdrTail arcHeaderLength
  simp only [arcEndOfArchive, arc6EndOfDir, arcUnpackedOld, arcHeaderSize, sparkHeaderExtra, List.length_append,
    List.length_replicate, le32_length, le16_length]
  have hne : ¬ (m.method % 128 = 0 ∨ m.method = 31) := by omega
  simp only [hne, if_false]
  by_cases ho : m.method % 128 = 1 <;> by_cases hs : m.method ≥ 128 <;> simp [ho, hs, h2, le32_length] <;> omega

theorem arcReadEntry_entry (crc : Bytes → UInt16) (m : ArcMember) (hm : m.Legal) (rest : Bytes) :
    arcReadEntry (arcEntryBytes crc m ++ rest) =
      some ({ method := m.method, filename := m.name, csize := m.cdata.length, crc := (crc m.data).toNat,
              usize := m.data.length, loadAddr := if m.method ≥ 128 then u32At m.attrs 0 else 0 },
            m.cdata ++ rest) := by
  obtain ⟨hlen, hgt⟩ := arcHdrTail_length crc m hm
  have hmb : (UInt8.ofNat m.method).toNat = m.method := by
    rw [UInt8.toNat_ofNat']; have := hm.methHi; omega
  rw [arcEntryBytes_eq]
  simp only [List.cons_append, List.append_assoc, arcReadEntry, hmb, ne_eq, not_true_eq_false, if_false]
  have hle : ¬ arcHeaderLength m.method ≤ 2 := by omega
  have hnl : ¬ (arcHdrTail crc m ++ (m.cdata ++ rest)).length < arcHeaderLength m.method - 2 := by
    simp only [List.length_append]; omega
  simp only [hle, hnl, if_false]
  rw [List.take_left' hlen, List.drop_left' hlen]
  -- the header buffer
  have hN : (m.name ++ List.replicate (13 - m.name.length) (0 : UInt8)).length = 13 := by
    have := hm.nameLen; simp; omega
  have hcs : u32At (0x1a :: UInt8.ofNat m.method :: arcHdrTail crc m) 15 = m.cdata.length := by
    have : (0x1a :: UInt8.ofNat m.method :: arcHdrTail crc m) =
        ([0x1a, UInt8.ofNat m.method] ++ (m.name ++ List.replicate (13 - m.name.length) 0)) ++
        (le32 m.cdata.length ++ (le16 m.date ++ (le16 m.time ++
          (le16 (crc m.data).toNat ++ ((if m.method % 128 = arcUnpackedOld then [] else le32 m.data.length) ++
          (if m.method ≥ 128 then m.attrs else [])))))) := by
      simp [arcHdrTail, List.append_assoc]
    rw [this]
    exact u32At_at _ _ _ 15 (by simp only [List.length_append, hN]; rfl) hm.clen
  have hcrc : u16At (0x1a :: UInt8.ofNat m.method :: arcHdrTail crc m) 23 = (crc m.data).toNat := by
    have : (0x1a :: UInt8.ofNat m.method :: arcHdrTail crc m) =
        ([0x1a, UInt8.ofNat m.method] ++ (m.name ++ List.replicate (13 - m.name.length) 0) ++
          le32 m.cdata.length ++ le16 m.date ++ le16 m.time) ++
        (le16 (crc m.data).toNat ++ ((if m.method % 128 = arcUnpackedOld then [] else le32 m.data.length) ++
          (if m.method ≥ 128 then m.attrs else []))) := by
      simp [arcHdrTail, List.append_assoc]
    rw [this]
    exact u16At_at _ _ _ 23 (by simp only [List.length_append, hN, le32_length, le16_length]; rfl)
      (by have := (crc m.data).toNat_lt; omega)
  have hname : cstr (((0x1a : UInt8) :: UInt8.ofNat m.method :: arcHdrTail crc m).drop 2 |>.take 12) = m.name := by
    simp only [List.drop_succ_cons, List.drop_zero, arcHdrTail]
    rw [List.take_append_of_le_length (by rw [hN]; omega)]
    exact cstr_take m.name hm.nameNul hm.nameLen
  have hus : (if arcIsPacked m.method = true then u32At (0x1a :: UInt8.ofNat m.method :: arcHdrTail crc m) 25
      else m.cdata.length) = m.data.length := by
    have hmeth := hm.meth
    by_cases hp : m.method % 128 = 3
    · have : arcIsPacked m.method = true := by simp [arcIsPacked, arcUnpacked, arcUnpackedOld, hp]
      rw [if_pos this]
      have h1 : ¬ m.method % 128 = arcUnpackedOld := by simp [arcUnpackedOld, hp]
      have : (0x1a :: UInt8.ofNat m.method :: arcHdrTail crc m) =
          ([0x1a, UInt8.ofNat m.method] ++ (m.name ++ List.replicate (13 - m.name.length) 0) ++
            le32 m.cdata.length ++ le16 m.date ++ le16 m.time ++ le16 (crc m.data).toNat) ++
          (le32 m.data.length ++ (if m.method ≥ 128 then m.attrs else [])) := by
        simp [arcHdrTail, List.append_assoc, h1]
      rw [this]
      exact u32At_at _ _ _ 25 (by simp only [List.length_append, hN, le32_length, le16_length]; rfl) hm.dlen
    · have : arcIsPacked m.method = false := by
        have h12 : m.method % 128 = 2 ∨ m.method % 128 = 1 := by omega
        rcases h12 with h | h <;> simp [arcIsPacked, arcUnpacked, arcUnpackedOld, h]
      rw [this]
      simp only [ArcMember.cdata, arcPacked, hp, if_false]
      simp
  have hla : (if m.method ≥ 128 then
        u32At (0x1a :: UInt8.ofNat m.method :: arcHdrTail crc m) (arcHeaderLength m.method - sparkHeaderExtra)
      else 0) = (if m.method ≥ 128 then u32At m.attrs 0 else 0) := by
    by_cases hs : m.method ≥ 128
    · simp only [hs, if_true]
      have : (0x1a :: UInt8.ofNat m.method :: arcHdrTail crc m) =
          ([0x1a, UInt8.ofNat m.method] ++ (m.name ++ List.replicate (13 - m.name.length) 0) ++
            le32 m.cdata.length ++ le16 m.date ++ le16 m.time ++ le16 (crc m.data).toNat ++
            (if m.method % 128 = arcUnpackedOld then [] else le32 m.data.length)) ++ m.attrs := by
        simp [arcHdrTail, List.append_assoc, hs]
      rw [this, u32At_drop, List.drop_left']
      have hmeth := hm.meth
      unfold arcHeaderLength
      simp only [arcEndOfArchive, arc6EndOfDir, arcUnpackedOld, arcHeaderSize, sparkHeaderExtra, List.length_append,
        hN, le32_length, le16_length]
      have hne : ¬ (m.method % 128 = 0 ∨ m.method = 31) := by omega
      simp only [hne, if_false, hs, if_true]
      by_cases ho : m.method % 128 = 1 <;> simp [ho, le32_length]
    · simp only [hs, if_false]
  simp only [hcs, hcrc, hname, hus, hla]


/-! ## the `arc_read` walk -/

theorem arc_not_end (m : ArcMember) (hm : m.Legal) :
    ¬ (m.method % 128 = arcEndOfArchive ∨ m.method = arc6EndOfDir) := by
  have := hm.meth
  simp only [arcEndOfArchive, arc6EndOfDir]; omega

theorem arc_not_dir (m : ArcMember) (hm : m.Legal) (e : ArcEntry) (h1 : e.method = m.method)
    (h2 : e.loadAddr = if m.method ≥ 128 then u32At m.attrs 0 else 0) : arcIsDirectory e = false := by
  have hmeth := hm.meth
  have hnd := hm.notDir
  unfold arcIsDirectory
  simp only [h1, h2, arc6Dir, arcUnpacked]
  have h30 : ¬ m.method = 30 := by omega
  by_cases h130 : m.method = 130
  · have : ¬ u32At m.attrs 0 / 256 = 0xfffddc := fun h => hnd ⟨h130, h⟩
    simp [h130, this]
  · simp [h30]; intro h; omega

theorem arc_not_dir' (crc : Bytes → UInt16) (m : ArcMember) (hm : m.Legal) :
    arcIsDirectory (ArcEntry.mk m.method m.name m.cdata.length (crc m.data).toNat m.data.length
      (if m.method ≥ 128 then u32At m.attrs 0 else 0)) = false :=
  arc_not_dir m hm _ rfl rfl

theorem arc_supported (m : ArcMember) (hm : m.Legal) : arcSupported.contains (m.method % 128) = true := by
  rcases hm.meth with h | h | h <;> rw [h] <;> decide

theorem arcReadFuel_skip (crc : Bytes → UInt16) (dec : Nat → Bytes → Nat → Option Bytes) (fileLen : Nat)
    (pre : List ArcMember) : ∀ (tail : Bytes) (fuel level : Nat),
    (∀ x ∈ pre, x.Legal ∧ excludeMatch x.name = true) →
    arcReadFuel crc dec fileLen (fuel + pre.length) (pre.flatMap (arcEntryBytes crc) ++ tail) level =
      arcReadFuel crc dec fileLen fuel tail level := by
  induction pre with
  | nil => intro tail fuel level _; simp
  | cons x pre ih =>
    intro tail fuel level hpre
    obtain ⟨hx, hex⟩ := hpre x (by simp)
    have hfu : fuel + (x :: pre).length = (fuel + pre.length) + 1 := by simp; omega
    rw [hfu, List.flatMap_cons, List.append_assoc, arcReadFuel, arcReadEntry_entry crc x hx]
    simp only [arc_not_end x hx, if_false, arc_not_dir' crc x hx, hex, Bool.or_true, if_true,
      List.length_append, List.drop_left, Bool.false_eq_true]
    have : x.cdata.length ≤ x.cdata.length + (List.flatMap (arcEntryBytes crc) pre ++ tail).length := by omega
    simp only [List.length_append] at this
    simp only [this, if_true]
    exact ih tail fuel level (fun y hy => hpre y (by simp [hy]))

theorem arcReadFuel_hit (crc : Bytes → UInt16) (dec : Nat → Bytes → Nat → Option Bytes) (fileLen fuel : Nat)
    (m : ArcMember) (hm : m.Legal) (hx : excludeMatch m.name = false) (hlim : m.data.length ≤ depackLimit)
    (hfl : m.cdata.length ≤ fileLen) (tail : Bytes) (level : Nat) :
    arcReadFuel crc dec fileLen (fuel + 1) (arcEntryBytes crc m ++ tail) level = some m.data := by
  rw [arcReadFuel, arcReadEntry_entry crc m hm]
  have h1 : ¬ m.cdata.length > fileLen := by omega
  have h2 : ¬ m.data.length > depackLimit := by omega
  simp only [arc_not_end m hm, if_false, arc_not_dir' crc m hm, arc_supported m hm, hx, h1, h2,
    Bool.not_true, Bool.or_false, Bool.false_eq_true, decide_false, List.length_append, List.take_left]
  have h3 : ¬ m.cdata.length + tail.length < m.cdata.length := by omega
  simp only [h3, if_false]
  by_cases hp : m.method % 128 = 3
  · obtain ⟨hok, hexp⟩ := hm.packed hp
    have hpk : arcIsPacked m.method = true := by simp [arcIsPacked, arcUnpacked, arcUnpackedOld, hp]
    have hcd : m.cdata = render m.toks := by simp [ArcMember.cdata, arcPacked, hp]
    have hun : unrle90 m.data.length m.cdata = some m.data := by
      rw [hcd, ← hexp]; exact unrle90_render m.toks hok
    simp only [hpk, if_true, arcPacked, hp, hun, ne_eq, not_true_eq_false, if_false]
  · have hpk : arcIsPacked m.method = false := by
      have h12 : m.method % 128 = 2 ∨ m.method % 128 = 1 := by have := hm.meth; omega
      rcases h12 with h | h <;> simp [arcIsPacked, arcUnpacked, arcUnpackedOld, h]
    have hcd : m.cdata = m.data := by simp [ArcMember.cdata, arcPacked, hp]
    simp only [hpk, Bool.false_eq_true, if_false, hcd, ne_eq, not_true_eq_false]

theorem arcEntryBytes_length_pos (crc : Bytes → UInt16) (m : ArcMember) : 0 < (arcEntryBytes crc m).length := by
  rw [arcEntryBytes_eq]; simp

theorem flatMap_length_ge (crc : Bytes → UInt16) (ms : List ArcMember) :
    ms.length ≤ (ms.flatMap (arcEntryBytes crc)).length := by
  induction ms with
  | nil => simp
  | cons x ms ih =>
    have := arcEntryBytes_length_pos crc x
    simp only [List.flatMap_cons, List.length_append, List.length_cons]; omega

/-- **ARC / Spark framing**: on an archive written member by member, `arc_read` walks over the excluded
    members (any number, stored or packed) and returns the data of the first other member — stored (methods
    1, 2) or RLE90-packed (method 3, any well-formed token stream), plain or Spark header — whatever follows it. -/
theorem arcRead_wrap (crc : Bytes → UInt16) (dec : Nat → Bytes → Nat → Option Bytes) (pre post : List ArcMember)
    (m : ArcMember) (spark : Bool)
    (hpre : ∀ x ∈ pre, x.Legal ∧ excludeMatch x.name = true)
    (hm : m.Legal) (hx : excludeMatch m.name = false) (hlim : m.data.length ≤ depackLimit) :
    arcRead crc dec (arcWrap crc (pre ++ m :: post) spark) = some m.data := by
  unfold arcRead arcWrap
  rw [List.flatMap_append, List.flatMap_cons, List.append_assoc, List.append_assoc]
  generalize htail : post.flatMap (arcEntryBytes crc) ++ [0x1a, if spark then 0x80 else 0] = tail
  have hlen : (pre.flatMap (arcEntryBytes crc) ++ (arcEntryBytes crc m ++ tail)).length =
      (pre.flatMap (arcEntryBytes crc)).length + ((arcEntryBytes crc m).length + tail.length) := by
    simp [List.length_append]
  have hge := flatMap_length_ge crc pre
  have hcl : m.cdata.length ≤ (arcEntryBytes crc m).length := by
    rw [arcEntryBytes_eq]; simp; omega
  obtain ⟨k, hk⟩ : ∃ k, (pre.flatMap (arcEntryBytes crc) ++ (arcEntryBytes crc m ++ tail)).length + 1 =
      (k + 1) + pre.length := ⟨(pre.flatMap (arcEntryBytes crc) ++ (arcEntryBytes crc m ++ tail)).length - pre.length, by omega⟩
  rw [hk, arcReadFuel_skip crc dec _ pre _ (k + 1) 0 hpre]
  exact arcReadFuel_hit crc dec _ k m hm hx hlim (by omega) tail 0

/-- with the concrete encoder: a method-3 member packed by `rle90Enc` -/
theorem arcRead_wrap_rle90Enc (crc : Bytes → UInt16) (dec : Nat → Bytes → Nat → Option Bytes) (pre post : List ArcMember)
    (m : ArcMember) (spark : Bool)
    (hpre : ∀ x ∈ pre, x.Legal ∧ excludeMatch x.name = true)
    (hm : { m with toks := rle90Enc m.data }.Legal) (hx : excludeMatch m.name = false)
    (hlim : m.data.length ≤ depackLimit) :
    arcRead crc dec (arcWrap crc (pre ++ { m with toks := rle90Enc m.data } :: post) spark) = some m.data :=
  arcRead_wrap crc dec pre post { m with toks := rle90Enc m.data } spark hpre hm hx hlim


/-! ## headers with explicit field values (directory entries) -/

structure ArcHdrOk (m : ArcMember) (cs kv us : Nat) : Prop where
  nameLen : m.name.length ≤ 12
  nameNul : noNul m.name
  methHi : m.method < 256
  meth : m.method % 128 ≠ 0 ∧ m.method ≠ 31
  clen : cs < 2 ^ 32
  kvlt : kv < 65536
  dlen : us < 2 ^ 32
  attrs : m.attrs.length = 12

theorem arcHdrTailG_length (m : ArcMember) (cs kv us : Nat) (hm : ArcHdrOk m cs kv us) :
    (arcHdrTailG m cs kv us).length = arcHeaderLength m.method - 2 ∧ 2 < arcHeaderLength m.method := by
  have h1 := hm.nameLen
  have h2 := hm.attrs
  have hmeth := hm.meth
  unfold arcHdrTailG arcHeaderLength
  simp only [arcEndOfArchive, arc6EndOfDir, arcUnpackedOld, arcHeaderSize, sparkHeaderExtra, List.length_append,
    List.length_replicate, le32_length, le16_length]
  have hne : ¬ (m.method % 128 = 0 ∨ m.method = 31) := by omega
  simp only [hne, if_false]
  by_cases ho : m.method % 128 = 1 <;> by_cases hs : m.method ≥ 128 <;> simp [ho, hs, h2, le32_length] <;> omega

theorem arcReadEntry_hdr (m : ArcMember) (cs kv us : Nat) (hm : ArcHdrOk m cs kv us) (rest : Bytes) :
    arcReadEntry (arcHdrG m cs kv us ++ rest) =
      some ({ method := m.method, filename := m.name, csize := cs, crc := kv,
              usize := if arcIsPacked m.method = true then us else cs,
              loadAddr := if m.method ≥ 128 then u32At m.attrs 0 else 0 },
            rest) := by
  obtain ⟨hlen, hgt⟩ := arcHdrTailG_length m cs kv us hm
  have hmb : (UInt8.ofNat m.method).toNat = m.method := by
    rw [UInt8.toNat_ofNat']; have := hm.methHi; omega
  unfold arcHdrG
  simp only [List.cons_append, List.append_assoc, arcReadEntry, hmb, ne_eq, not_true_eq_false, if_false]
  have hle : ¬ arcHeaderLength m.method ≤ 2 := by omega
  have hnl : ¬ (arcHdrTailG m cs kv us ++ rest).length < arcHeaderLength m.method - 2 := by
    simp only [List.length_append]; omega
  simp only [hle, hnl, if_false]
  rw [List.take_left' hlen, List.drop_left' hlen]
  -- the header buffer
  have hN : (m.name ++ List.replicate (13 - m.name.length) (0 : UInt8)).length = 13 := by
    have := hm.nameLen; simp; omega
  have hcs : u32At (0x1a :: UInt8.ofNat m.method :: arcHdrTailG m cs kv us) 15 = cs := by
    have : (0x1a :: UInt8.ofNat m.method :: arcHdrTailG m cs kv us) =
        ([0x1a, UInt8.ofNat m.method] ++ (m.name ++ List.replicate (13 - m.name.length) 0)) ++
        (le32 cs ++ (le16 m.date ++ (le16 m.time ++
          (le16 kv ++ ((if m.method % 128 = arcUnpackedOld then [] else le32 us) ++
          (if m.method ≥ 128 then m.attrs else [])))))) := by
      simp [arcHdrTailG, List.append_assoc]
    rw [this]
    exact u32At_at _ _ _ 15 (by simp only [List.length_append, hN]; rfl) hm.clen
  have hcrc : u16At (0x1a :: UInt8.ofNat m.method :: arcHdrTailG m cs kv us) 23 = kv := by
    have : (0x1a :: UInt8.ofNat m.method :: arcHdrTailG m cs kv us) =
        ([0x1a, UInt8.ofNat m.method] ++ (m.name ++ List.replicate (13 - m.name.length) 0) ++
          le32 cs ++ le16 m.date ++ le16 m.time) ++
        (le16 kv ++ ((if m.method % 128 = arcUnpackedOld then [] else le32 us) ++
          (if m.method ≥ 128 then m.attrs else []))) := by
      simp [arcHdrTailG, List.append_assoc]
    rw [this]
    exact u16At_at _ _ _ 23 (by simp only [List.length_append, hN, le32_length, le16_length]; rfl)
      hm.kvlt
  have hname : cstr (((0x1a : UInt8) :: UInt8.ofNat m.method :: arcHdrTailG m cs kv us).drop 2 |>.take 12) = m.name := by
    simp only [List.drop_succ_cons, List.drop_zero, arcHdrTailG]
    rw [List.take_append_of_le_length (by rw [hN]; omega)]
    exact cstr_take m.name hm.nameNul hm.nameLen
  have hus : (if arcIsPacked m.method = true then u32At (0x1a :: UInt8.ofNat m.method :: arcHdrTailG m cs kv us) 25
      else cs) = (if arcIsPacked m.method = true then us else cs) := by
    by_cases hp : arcIsPacked m.method = true
    · rw [if_pos hp, if_pos hp]
      have h1 : ¬ m.method % 128 = arcUnpackedOld := by
        intro h; rw [arcIsPacked, h] at hp; simp at hp
      have : (0x1a :: UInt8.ofNat m.method :: arcHdrTailG m cs kv us) =
          ([0x1a, UInt8.ofNat m.method] ++ (m.name ++ List.replicate (13 - m.name.length) 0) ++
            le32 cs ++ le16 m.date ++ le16 m.time ++ le16 kv) ++
          (le32 us ++ (if m.method ≥ 128 then m.attrs else [])) := by
        simp [arcHdrTailG, List.append_assoc, h1]
      rw [this]
      exact u32At_at _ _ _ 25 (by simp only [List.length_append, hN, le32_length, le16_length]; rfl) hm.dlen
    · rw [if_neg hp, if_neg hp]
  have hla : (if m.method ≥ 128 then
        u32At (0x1a :: UInt8.ofNat m.method :: arcHdrTailG m cs kv us) (arcHeaderLength m.method - sparkHeaderExtra)
      else 0) = (if m.method ≥ 128 then u32At m.attrs 0 else 0) := by
    by_cases hs : m.method ≥ 128
    · simp only [hs, if_true]
      have : (0x1a :: UInt8.ofNat m.method :: arcHdrTailG m cs kv us) =
          ([0x1a, UInt8.ofNat m.method] ++ (m.name ++ List.replicate (13 - m.name.length) 0) ++
            le32 cs ++ le16 m.date ++ le16 m.time ++ le16 kv ++
            (if m.method % 128 = arcUnpackedOld then [] else le32 us)) ++ m.attrs := by
        simp [arcHdrTailG, List.append_assoc, hs]
      rw [this, u32At_drop, List.drop_left']
      have hmeth := hm.meth
      unfold arcHeaderLength
      simp only [arcEndOfArchive, arc6EndOfDir, arcUnpackedOld, arcHeaderSize, sparkHeaderExtra, List.length_append,
        hN, le32_length, le16_length]
      have hne : ¬ (m.method % 128 = 0 ∨ m.method = 31) := by omega
      simp only [hne, if_false, hs, if_true]
      by_cases ho : m.method % 128 = 1 <;> simp [ho, le32_length]
    · simp only [hs, if_false]
  simp only [hcs, hcrc, hname, hus, hla]



/-! ## the signature test on a written archive -/

def printable (name : Bytes) : Prop := ∀ x ∈ name, 32 ≤ x.toNat ∧ x.toNat ≠ 0x7f

theorem arcNameScan_name (b : Bytes) (name : Bytes) : ∀ (i fuel : Nat),
    (∀ j, j < name.length → bAt b (i + 2 + j) = (name.getD j 0).toNat) → bAt b (i + 2 + name.length) = 0 →
    printable name → name.length < fuel → arcNameScan b i fuel = true := by
  induction name with
  | nil =>
    intro i fuel _ hz _ hf
    obtain ⟨f, rfl⟩ : ∃ f, fuel = f + 1 := ⟨fuel - 1, by simp at hf; omega⟩
    simp only [List.length_nil, Nat.add_zero] at hz
    simp [arcNameScan, hz]
  | cons c name ih =>
    intro i fuel hj hz hp hf
    obtain ⟨f, rfl⟩ : ∃ f, fuel = f + 1 := ⟨fuel - 1, by simp at hf; omega⟩
    have h0 := hj 0 (by simp)
    simp only [Nat.add_zero, List.getD_cons_zero] at h0
    have hc := hp c (by simp)
    have hc0 : ¬ (bAt b (i + 2) == 0) = true := by rw [h0]; simp; omega
    have hc1 : ¬ (decide (bAt b (i + 2) < 32) || bAt b (i + 2) == 0x7f) = true := by
      rw [h0]; simp; omega
    simp only [arcNameScan, hc0, hc1, if_false, Bool.false_eq_true]
    apply ih (i + 1) f
    · intro j hjl
      have := hj (j + 1) (by simp; omega)
      simp only [List.getD_cons_succ] at this
      rw [← this]; congr 1; omega
    · rw [← hz]; congr 1; simp; omega
    · exact fun x hx => hp x (by simp [hx])
    · simp at hf; omega

theorem bAt_cons_succ (x : UInt8) (l : Bytes) (i : Nat) : bAt (x :: l) (i + 1) = bAt l i := by
  simp [bAt]

/-- `is_arc_archive` accepts an archive whose first member has a printable name -/
theorem arcTest_wrap (crc : Bytes → UInt16) (m0 : ArcMember) (rest : List ArcMember) (spark : Bool)
    (hm : m0.Legal) (hp : printable m0.name) :
    arcTest (sniff (arcWrap crc (m0 :: rest) spark)) = true := by
  have hb : ∀ i, i < sniffSize → bAt (sniff (arcWrap crc (m0 :: rest) spark)) i =
      bAt (arcWrap crc (m0 :: rest) spark) i := fun i hi => bAt_sniff _ i hi
  have hfile : arcWrap crc (m0 :: rest) spark = 0x1a :: UInt8.ofNat m0.method ::
      (m0.name ++ (List.replicate (13 - m0.name.length) 0 ++
        ((le32 m0.cdata.length ++ (le16 m0.date ++ (le16 m0.time ++
        (le16 (crc m0.data).toNat ++ ((if m0.method % 128 = arcUnpackedOld then [] else le32 m0.data.length) ++
        (if m0.method ≥ 128 then m0.attrs else [])))))) ++ m0.cdata ++
        (rest.flatMap (arcEntryBytes crc) ++ [0x1a, if spark then 0x80 else 0])))) := by
    simp [arcWrap, arcEntryBytes, List.append_assoc]
  generalize htail : ((le32 m0.cdata.length ++ (le16 m0.date ++ (le16 m0.time ++
        (le16 (crc m0.data).toNat ++ ((if m0.method % 128 = arcUnpackedOld then [] else le32 m0.data.length) ++
        (if m0.method ≥ 128 then m0.attrs else [])))))) ++ m0.cdata ++
        (rest.flatMap (arcEntryBytes crc) ++ [0x1a, if spark then 0x80 else 0])) = tail at hfile
  have hmb : (UInt8.ofNat m0.method).toNat = m0.method := by
    rw [UInt8.toNat_ofNat']; have := hm.methHi; omega
  have hnl := hm.nameLen
  unfold arcTest
  have h0 : bAt (sniff (arcWrap crc (m0 :: rest) spark)) 0 = 0x1a := by
    rw [hb 0 (by decide), hfile]; rfl
  have h1 : bAt (sniff (arcWrap crc (m0 :: rest) spark)) 1 = m0.method := by
    rw [hb 1 (by decide), hfile]; simp [bAt, hmb]
  have hscan : arcNameScan (sniff (arcWrap crc (m0 :: rest) spark)) 0 13 = true := by
    apply arcNameScan_name _ m0.name 0 13
    · intro j hj
      rw [hb _ (by simp [sniffSize]; omega), hfile]
      have : 0 + 2 + j = (j + 1) + 1 := by omega
      rw [this, bAt_cons_succ, bAt_cons_succ]
      simp [bAt, List.getD_eq_getElem?_getD, List.getElem?_append_left hj]
    · rw [hb _ (by simp [sniffSize]; omega), hfile]
      have : 0 + 2 + m0.name.length = (m0.name.length + 1) + 1 := by omega
      rw [this, bAt_cons_succ, bAt_cons_succ]
      have hpos : 0 < 13 - m0.name.length := by omega
      simp [bAt, List.getD_eq_getElem?_getD, List.getElem?_append_right (Nat.le_refl _),
        List.getElem?_append_left, hpos]
    · exact hp
    · omega
  rw [h0, h1, hscan]
  have hmeth := hm.meth
  have hhi := hm.methHi
  simp only [beq_self_eq_true, Bool.true_and]
  by_cases hs : m0.method ≥ 128
  · have : arcTestSpark.contains (m0.method - 0x80) = true := by
      have : m0.method - 0x80 = 1 ∨ m0.method - 0x80 = 2 ∨ m0.method - 0x80 = 3 := by omega
      rcases this with h | h | h <;> rw [h] <;> decide
    rw [this]; simp [hs]
  · have : arcTestPlain.contains m0.method = true := by
      have : m0.method = 1 ∨ m0.method = 2 ∨ m0.method = 3 := by omega
      rcases this with h | h | h <;> rw [h] <;> decide
    rw [this]; simp

/-- byte 2 of the archive is the first byte of the first member's name (0 for an empty name): LHA's test
    (`-lh?-` at offset 2) fails when the name does not start with `-` -/
theorem arc_byte2 (crc : Bytes → UInt16) (m0 : ArcMember) (rest : List ArcMember) (spark : Bool)
    (h : m0.name.getD 0 0 ≠ 0x2d) : bAt (sniff (arcWrap crc (m0 :: rest) spark)) 2 ≠ 45 := by
  rw [bAt_sniff _ 2 (by decide)]
  cases hn : m0.name with
  | nil =>
    simp [arcWrap, arcEntryBytes, bAt, hn]
  | cons c t =>
    rw [hn] at h
    simp only [List.getD_cons_zero] at h
    simp [arcWrap, arcEntryBytes, bAt, hn]
    intro hc; apply h; exact UInt8.toNat_inj.mp hc

theorem arcWrap_length (crc : Bytes → UInt16) (m0 : ArcMember) (rest : List ArcMember) (spark : Bool)
    (hm : m0.Legal) : minHeaderSize ≤ (sniff (arcWrap crc (m0 :: rest) spark)).length := by
  have h1 := (arcHdrTail_length crc m0 hm).1
  have h2 : 25 ≤ arcHeaderLength m0.method := by
    have hmeth := hm.meth
    unfold arcHeaderLength
    simp only [arcEndOfArchive, arc6EndOfDir, arcUnpackedOld, arcHeaderSize, sparkHeaderExtra]
    have hne : ¬ (m0.method % 128 = 0 ∨ m0.method = 31) := by omega
    simp only [hne, if_false]
    by_cases h1 : m0.method % 128 = 1 <;> simp [h1] <;> omega
  unfold sniff arcWrap
  rw [List.flatMap_cons, arcEntryBytes_eq]
  simp only [List.length_take, List.length_append, List.length_cons, sniffSize, minHeaderSize]
  omega


/-! ## sub-directories: the walker's directory level -/

def ArcItem.Ok (crc : Bytes → UInt16) : ArcItem → Prop
  | .file m => m.Legal ∧ excludeMatch m.name = true
  | .dopen h cs kv => ArcHdrOk h cs kv cs ∧ (h.method = 30 ∨ (h.method = 130 ∧ u32At h.attrs 0 / 256 = 0xfffddc))
  | .dclose k => k.toNat % 128 = 0 ∨ k.toNat = 31

theorem arcReadEntry_close (k : UInt8) (hk : k.toNat % 128 = 0 ∨ k.toNat = 31) (rest : Bytes) :
    arcReadEntry (([0x1a, k] : Bytes) ++ rest) = some ({ method := k.toNat }, rest) := by
  have hl : arcHeaderLength k.toNat ≤ 2 := by
    have hk' : k.toNat % 128 = arcEndOfArchive ∨ k.toNat = arc6EndOfDir := by
      simpa [arcEndOfArchive, arc6EndOfDir] using hk
    unfold arcHeaderLength
    rw [if_pos hk']; exact Nat.le_refl _
  simp [arcReadEntry, hl]

/-- the walk over skipped files, directory headers and closing markers only changes the directory level -/
theorem arcReadFuel_items (crc : Bytes → UInt16) (dec : Nat → Bytes → Nat → Option Bytes) (fileLen : Nat)
    (pre : List ArcItem) : ∀ (T : Bytes) (fuel level level' : Nat),
    (∀ x ∈ pre, x.Ok crc) → arcLevel level pre = some level' →
    arcReadFuel crc dec fileLen (fuel + pre.length) (arcItemsBytes crc pre ++ T) level =
      arcReadFuel crc dec fileLen fuel T level' := by
  induction pre with
  | nil => intro T fuel level level' _ h; simp [arcLevel] at h; subst h; simp [arcItemsBytes]
  | cons x pre ih =>
    intro T fuel level level' hok hlev
    have hx := hok x (by simp)
    have hrest : ∀ y ∈ pre, y.Ok crc := fun y hy => hok y (by simp [hy])
    have hfu : fuel + (x :: pre).length = (fuel + pre.length) + 1 := by simp; omega
    rw [hfu]
    simp only [arcItemsBytes, List.flatMap_cons, List.append_assoc]
    cases x with
    | file m =>
      have := arcReadFuel_skip crc dec fileLen [m] (arcItemsBytes crc pre ++ T) (fuel + pre.length) level
        (by intro y hy; simp at hy; subst hy; exact hx)
      simp only [List.flatMap_cons, List.flatMap_nil, List.append_nil, List.length_cons, List.length_nil] at this
      simp only [arcItemBytes, arcItemsBytes] at this ⊢
      rw [this]
      exact ih T fuel level level' hrest (by simpa [arcLevel] using hlev)
    | dopen h cs kv =>
      obtain ⟨hh, hdir⟩ := hx
      simp only [arcItemBytes]
      rw [arcReadFuel, arcReadEntry_hdr h cs kv cs hh]
      have hne : ¬ (h.method % 128 = arcEndOfArchive ∨ h.method = arc6EndOfDir) := by
        have := hh.meth; simp only [arcEndOfArchive, arc6EndOfDir]; omega
      have hd : arcIsDirectory (ArcEntry.mk h.method h.name cs kv (if arcIsPacked h.method = true then cs else cs)
          (if h.method ≥ 128 then u32At h.attrs 0 else 0)) = true := by
        unfold arcIsDirectory
        rcases hdir with h30 | ⟨h130, hla⟩
        · simp [h30, arc6Dir]
        · simp [h130, arcUnpacked, arc6Dir, hla]
      simp only [hne, if_false, hd, if_true]
      exact ih T fuel (level + 1) level' hrest (by simpa [arcLevel] using hlev)
    | dclose k =>
      simp only [arcItemBytes]
      rw [arcReadFuel, arcReadEntry_close k hx]
      have hx' : k.toNat % 128 = 0 ∨ k.toNat = 31 := hx
      have he : (k.toNat % 128 = arcEndOfArchive ∨ k.toNat = arc6EndOfDir) := by
        simpa [arcEndOfArchive, arc6EndOfDir] using hx'
      simp only [arcLevel] at hlev
      by_cases hl0 : level = 0
      · simp [hl0] at hlev
      · simp only [hl0, if_false] at hlev
        simp only [he, if_true, show level > 0 from Nat.pos_of_ne_zero hl0]
        exact ih T fuel (level - 1) level' hrest hlev

theorem arcItemBytes_pos (crc : Bytes → UInt16) (x : ArcItem) : 0 < (arcItemBytes crc x).length := by
  cases x with
  | file m => exact arcEntryBytes_length_pos crc m
  | dopen h cs kv => simp [arcItemBytes, arcHdrG]
  | dclose k => simp [arcItemBytes]

/-- **ARC / Spark framing with sub-directories**: whatever excluded files, directory headers (Spark or ARC 6) and
    closing markers precede it — at any nesting depth, inside an open directory or after closed ones — the first
    other member is reached and returned, provided no marker closes a directory that is not open -/
theorem arcRead_items (crc : Bytes → UInt16) (dec : Nat → Bytes → Nat → Option Bytes) (pre : List ArcItem)
    (post : Bytes) (m : ArcMember) (level' : Nat)
    (hpre : ∀ x ∈ pre, x.Ok crc) (hlev : arcLevel 0 pre = some level')
    (hm : m.Legal) (hx : excludeMatch m.name = false) (hlim : m.data.length ≤ depackLimit) :
    arcRead crc dec (arcItemsBytes crc pre ++ (arcEntryBytes crc m ++ post)) = some m.data := by
  unfold arcRead
  have hge : pre.length ≤ (arcItemsBytes crc pre).length := by
    clear hlev
    induction pre with
    | nil => simp [arcItemsBytes]
    | cons x pre ih =>
      have := arcItemBytes_pos crc x
      have := ih (fun y hy => hpre y (by simp [hy]))
      simp only [arcItemsBytes, List.flatMap_cons, List.length_append, List.length_cons] at *
      omega
  have hcl : m.cdata.length ≤ (arcEntryBytes crc m).length := by
    rw [arcEntryBytes_eq]; simp; omega
  obtain ⟨k, hk⟩ : ∃ k, (arcItemsBytes crc pre ++ (arcEntryBytes crc m ++ post)).length + 1 = (k + 1) + pre.length :=
    ⟨(arcItemsBytes crc pre ++ (arcEntryBytes crc m ++ post)).length - pre.length, by
      simp only [List.length_append]; omega⟩
  rw [hk, arcReadFuel_items crc dec _ pre _ (k + 1) 0 level' hpre hlev]
  exact arcReadFuel_hit crc dec _ k m hm hx hlim (by simp only [List.length_append]; omega) post level'

end Xmp.Container
