import XmpModel.Bzip2
import XmpProofs.Bzip2Hdr
/-!
# bzip2: the inverse Burrows–Wheeler transform of bunzip2.c against the transform by sorted rotations

Part A — order theory of `lexLe`, `sortLex`;
Part B — the counting-sort permutation `order L` of the last column maps sorted rotation `j` to the sorted
         position of its left rotation (`order_spec`);
Part C — pointer chasing through that permutation from `origPtr` spells the original block;
Part D — the array code of `burrows_wheeler_prep` (`byteCounts`, `cumulate`, `bwFill`) computes `order L` packed
         above the symbols, and `bwChase` is the list chase.
-/
namespace Xmp.Bzip2
open Xmp

/-! ## Part A: lexicographic order, insertion sort -/

theorem u8_lt_irrefl (a : UInt8) : ¬ a < a := by
  rw [UInt8.lt_iff_toNat_lt]; omega

theorem lexLe_refl : ∀ (a : Bytes), lexLe a a = true
  | [] => rfl
  | x :: xs => by simp [lexLe, lexLe_refl xs]

theorem lexLe_total : ∀ (a b : Bytes), lexLe a b = true ∨ lexLe b a = true
  | [], _ => Or.inl rfl
  | _ :: _, [] => Or.inr rfl
  | x :: xs, y :: ys => by
    simp only [lexLe, Bool.or_eq_true, Bool.and_eq_true, decide_eq_true_eq, beq_iff_eq]
    by_cases h1 : x < y
    · exact Or.inl (Or.inl h1)
    · by_cases h2 : y < x
      · exact Or.inr (Or.inl h2)
      · have : x = y := by
          rw [UInt8.lt_iff_toNat_lt] at h1 h2
          exact UInt8.toNat_inj.mp (by omega)
        subst this
        rcases lexLe_total xs ys with h | h
        · exact Or.inl (Or.inr ⟨rfl, h⟩)
        · exact Or.inr (Or.inr ⟨rfl, h⟩)

theorem lexLe_trans : ∀ (a b c : Bytes), lexLe a b = true → lexLe b c = true → lexLe a c = true
  | [], _, _, _, _ => rfl
  | _ :: _, [], _, h, _ => by simp [lexLe] at h
  | _ :: _, _ :: _, [], _, h => by simp [lexLe] at h
  | x :: xs, y :: ys, z :: zs, h1, h2 => by
    simp only [lexLe, Bool.or_eq_true, Bool.and_eq_true, decide_eq_true_eq, beq_iff_eq] at h1 h2 ⊢
    rcases h1 with h1 | ⟨rfl, h1⟩
    · rcases h2 with h2 | ⟨rfl, _⟩
      · left; rw [UInt8.lt_iff_toNat_lt] at *; omega
      · left; exact h1
    · rcases h2 with h2 | ⟨rfl, h2⟩
      · left; exact h2
      · right; exact ⟨rfl, lexLe_trans xs ys zs h1 h2⟩

theorem lexLe_antisymm : ∀ (a b : Bytes), lexLe a b = true → lexLe b a = true → a = b
  | [], [], _, _ => rfl
  | [], _ :: _, _, h => by simp [lexLe] at h
  | _ :: _, [], h, _ => by simp [lexLe] at h
  | x :: xs, y :: ys, h1, h2 => by
    simp only [lexLe, Bool.or_eq_true, Bool.and_eq_true, decide_eq_true_eq, beq_iff_eq] at h1 h2
    rcases h1 with h1 | ⟨rfl, h1⟩
    · rcases h2 with h2 | ⟨rfl, _⟩
      · rw [UInt8.lt_iff_toNat_lt] at *; omega
      · exact absurd h1 (u8_lt_irrefl _)
    · rcases h2 with h2 | ⟨_, h2⟩
      · exact absurd h2 (u8_lt_irrefl _)
      · rw [lexLe_antisymm xs ys h1 h2]

def Sorted (l : List Bytes) : Prop := l.Pairwise (fun a b => lexLe a b = true)

theorem insertLex_perm (x : Bytes) : ∀ (l : List Bytes), (insertLex x l).Perm (x :: l)
  | [] => List.Perm.refl _
  | y :: ys => by
    unfold insertLex
    split
    · exact List.Perm.refl _
    · exact ((insertLex_perm x ys).cons y).trans (List.Perm.swap x y ys)

theorem sortLex_perm : ∀ (l : List Bytes), (sortLex l).Perm l
  | [] => List.Perm.refl _
  | x :: xs => (insertLex_perm x (sortLex xs)).trans ((sortLex_perm xs).cons x)

theorem insertLex_sorted (x : Bytes) : ∀ (l : List Bytes), Sorted l → Sorted (insertLex x l)
  | [], _ => by simp [insertLex, Sorted]
  | y :: ys, h => by
    unfold insertLex
    have hy := (List.pairwise_cons.mp h)
    split
    · rename_i hxy
      refine List.pairwise_cons.mpr ⟨?_, h⟩
      intro z hz
      rcases List.mem_cons.mp hz with rfl | hz
      · exact hxy
      · exact lexLe_trans x y z hxy (hy.1 z hz)
    · rename_i hxy
      have hyx : lexLe y x = true := by
        rcases lexLe_total x y with h' | h'
        · exact absurd h' hxy
        · exact h'
      refine List.pairwise_cons.mpr ⟨?_, insertLex_sorted x ys hy.2⟩
      intro z hz
      rcases List.mem_cons.mp ((insertLex_perm x ys).mem_iff.mp hz) with rfl | hz
      · exact hyx
      · exact hy.1 z hz

theorem sortLex_sorted : ∀ (l : List Bytes), Sorted (sortLex l)
  | [] => List.Pairwise.nil
  | x :: xs => insertLex_sorted x _ (sortLex_sorted xs)

/-- two sorted lists with the same elements (with multiplicity) are equal -/
theorem sorted_perm_eq {l₁ l₂ : List Bytes} (h1 : Sorted l₁) (h2 : Sorted l₂) (hp : l₁.Perm l₂) : l₁ = l₂ :=
  List.Perm.eq_of_pairwise (le := fun a b => lexLe a b = true) (fun a b _ _ hab hba => lexLe_antisymm a b hab hba) h1 h2 hp

/-! ## Part B: the counting-sort permutation of the last column -/

/-- indices of `L` ordered by (byte value, position): what `burrows_wheeler_prep` builds in the upper 24 bits -/
def order (L : List UInt8) : List Nat :=
  (List.range 256).flatMap (fun c => (List.range L.length).filter (fun i => (L.getD i 0).toNat == c))

/-- move the last byte to the front -/
def rotr (s : Bytes) : Bytes := s.getLastD 0 :: s.dropLast
/-- move the first byte to the end -/
def rotl (s : Bytes) : Bytes := s.tail ++ [s.headD 0]

theorem rotl_rotr (s : Bytes) (h : s ≠ []) : rotl (rotr s) = s := by
  unfold rotl rotr
  simp only [List.tail_cons, List.headD_cons]
  rw [List.getLastD_eq_getLast?, List.getLast?_eq_some_getLast h]
  exact List.dropLast_concat_getLast h

/-- strings grouped by their first byte, groups in increasing order, inside a group the given order -/
def sortByHead (N : List Bytes) : List Bytes :=
  (List.range 256).flatMap (fun c => N.filter (fun s => (s.headD 0).toNat == c))

theorem flatMap_filter_perm_aux (key : Bytes → Nat) (s : Bytes) (N : List Bytes) : ∀ (cs : List Nat),
    (cs.flatMap (fun c => (s :: N).filter (fun t => key t == c))).Perm
      (List.replicate (cs.count (key s)) s ++ cs.flatMap (fun c => N.filter (fun t => key t == c)))
  | [] => List.Perm.refl _
  | c :: cs => by
    have ih := flatMap_filter_perm_aux key s N cs
    rw [List.flatMap_cons, List.flatMap_cons, List.count_cons]
    have step : ∀ (A X R Y : List Bytes), X.Perm (R ++ Y) → (A ++ X).Perm (R ++ (A ++ Y)) := fun A X R Y h =>
      (List.Perm.append_left A h).trans (List.perm_append_comm_assoc A R Y)
    by_cases h : key s = c
    · subst h
      rw [List.filter_cons]
      simp only [beq_self_eq_true, if_true]
      rw [List.replicate_succ, List.cons_append, List.cons_append]
      exact (step _ _ _ _ ih).cons s
    · rw [List.filter_cons]
      have hb : (key s == c) = false := by simpa using h
      have hb' : (c == key s) = false := by simpa using fun e : c = key s => h e.symm
      simp only [hb, hb', Bool.false_eq_true, if_false, Nat.add_zero]
      exact step _ _ _ _ ih

theorem count_range (k : Nat) : ∀ (n : Nat), (List.range n).count k = if k < n then 1 else 0
  | 0 => by simp
  | n + 1 => by
    rw [List.range_succ, List.count_append, count_range k n]
    simp only [List.count_cons, List.count_nil, beq_iff_eq]
    repeat' split
    all_goals omega

theorem sortByHead_perm : ∀ (N : List Bytes), (sortByHead N).Perm N
  | [] => by simp [sortByHead]
  | s :: N => by
    have h := flatMap_filter_perm_aux (fun t => (t.headD 0).toNat) s N (List.range 256)
    rw [count_range, if_pos (UInt8.toNat_lt _)] at h
    exact h.trans ((sortByHead_perm N).cons s)

/-- dropping the last byte of two strings of equal length keeps their order -/
theorem lexLe_dropLast : ∀ (a b : Bytes), a.length = b.length → lexLe a b = true → lexLe a.dropLast b.dropLast = true
  | [], _, _, _ => by simp [lexLe]
  | _ :: _, [], h, _ => by simp at h
  | [x], [y], _, _ => by simp [lexLe]
  | [x], y :: y2 :: ys, h, _ => by simp at h
  | x :: x2 :: xs, [y], h, _ => by simp at h
  | x :: x2 :: xs, y :: y2 :: ys, hl, h => by
    simp only [List.dropLast_cons_cons]
    simp only [lexLe, Bool.or_eq_true, Bool.and_eq_true, decide_eq_true_eq, beq_iff_eq] at h
    have ih := lexLe_dropLast (x2 :: xs) (y2 :: ys) (by simpa using hl)
    rcases h with h | ⟨rfl, h⟩
    · simp [lexLe, h]
    · have := ih (by simpa [lexLe] using h)
      simp [lexLe, this]

theorem lexLe_rotr (a b : Bytes) (hl : a.length = b.length) (h : lexLe a b = true)
    (hh : a.getLastD 0 = b.getLastD 0) : lexLe (rotr a) (rotr b) = true := by
  unfold rotr
  rw [hh]
  simp [lexLe, lexLe_dropLast a b hl h]

theorem lexLe_of_head_lt (x y : Bytes) (hx : x ≠ []) (hy : y ≠ []) (h : (x.headD 0).toNat < (y.headD 0).toNat) :
    lexLe x y = true := by
  obtain ⟨a, as, rfl⟩ := List.exists_cons_of_ne_nil hx
  obtain ⟨b, bs, rfl⟩ := List.exists_cons_of_ne_nil hy
  simp only [List.headD_cons] at h
  simp [lexLe, UInt8.lt_iff_toNat_lt, h]

/-- sorting the right-rotated strings by their first byte only keeps them completely sorted -/
theorem sortByHead_rotr_sorted (M : List Bytes) (n : Nat) (hlen : ∀ s ∈ M, s.length = n) (hs : Sorted M) :
    Sorted (sortByHead (M.map rotr)) := by
  unfold Sorted sortByHead
  rw [List.pairwise_flatMap]
  constructor
  · intro c _
    have h1 : (M.map rotr).Pairwise (fun a b => (a.headD 0) = (b.headD 0) → lexLe a b = true) := by
      rw [List.pairwise_map]
      refine List.Pairwise.imp_of_mem ?_ hs
      intro a b ha hb hab hh
      exact lexLe_rotr a b (by rw [hlen a ha, hlen b hb]) hab (by simpa [rotr] using hh)
    have h2 := h1.filter (fun s => (s.headD 0).toNat == c)
    refine List.Pairwise.imp_of_mem ?_ h2
    intro a b ha hb hab
    have ha' := (List.mem_filter.mp ha).2
    have hb' := (List.mem_filter.mp hb).2
    simp only [beq_iff_eq] at ha' hb'
    exact hab (UInt8.toNat_inj.mp (by omega))
  · refine List.Pairwise.imp ?_ List.pairwise_lt_range
    intro c1 c2 hc x hx y hy
    obtain ⟨hxm, hx'⟩ := List.mem_filter.mp hx
    obtain ⟨hym, hy'⟩ := List.mem_filter.mp hy
    simp only [beq_iff_eq] at hx' hy'
    obtain ⟨a, _, rfl⟩ := List.mem_map.mp hxm
    obtain ⟨b, _, rfl⟩ := List.mem_map.mp hym
    exact lexLe_of_head_lt _ _ (by simp [rotr]) (by simp [rotr]) (by omega)

/-! ### rotations -/

theorem rot_zero (p : Bytes) : rot p 0 = p := by simp [rot]

theorem rotr_rot_succ (p : Bytes) (i : Nat) (hi : i < p.length) : rotr (rot p (i + 1)) = rot p i := by
  unfold rot rotr
  rw [List.take_succ_eq_append_getElem hi, ← List.append_assoc]
  simp only [List.getLastD_eq_getLast?, List.getLast?_append, List.getLast?_singleton, Option.some_or,
    Option.getD_some, List.dropLast_concat]
  rw [← List.cons_append, ← List.drop_eq_getElem_cons hi]

theorem rotr_self (p : Bytes) (h : p ≠ []) : rotr p = rot p (p.length - 1) := by
  have hpos : 0 < p.length := List.length_pos_iff.mpr h
  have hlt : p.length - 1 < p.length := by omega
  unfold rot rotr
  rw [List.getLastD_eq_getLast?, List.getLast?_eq_some_getLast h, Option.getD_some, List.drop_eq_getElem_cons hlt,
    List.getLast_eq_getElem h, List.dropLast_eq_take]
  have : p.length - 1 + 1 = p.length := by omega
  rw [this, List.drop_length]
  rfl

/-- right-rotating every rotation permutes the rotations -/
theorem rots_map_rotr_perm (p : Bytes) (h : p ≠ []) :
    (((List.range p.length).map (rot p)).map rotr).Perm ((List.range p.length).map (rot p)) := by
  obtain ⟨m, hm⟩ : ∃ m, p.length = m + 1 := ⟨p.length - 1, by have := List.length_pos_iff.mpr h; omega⟩
  rw [hm]
  conv => lhs; rw [List.range_succ_eq_map]
  rw [List.range_succ]
  simp only [List.map_cons, List.map_map, List.map_append, List.map_nil]
  have e1 : rotr (rot p 0) = rot p m := by
    rw [rot_zero, rotr_self p h, hm]; rfl
  have e2 : List.map ((rotr ∘ rot p) ∘ Nat.succ) (List.range m) = List.map (rot p) (List.range m) := by
    apply List.map_congr_left
    intro i hi
    have : i < m := List.mem_range.mp hi
    exact rotr_rot_succ p i (by omega)
  rw [e1]
  show (rot p m :: List.map ((rotr ∘ rot p) ∘ Nat.succ) (List.range m)).Perm _
  rw [e2]
  exact (List.perm_append_singleton _ _).symm

theorem sortedRots_perm (p : Bytes) : (sortedRots p).Perm ((List.range p.length).map (rot p)) := sortLex_perm _

theorem sortedRots_length_eq (p : Bytes) : ∀ s ∈ sortedRots p, s.length = p.length := by
  intro s hs
  have := (sortedRots_perm p).mem_iff.mp hs
  obtain ⟨i, hi, rfl⟩ := List.mem_map.mp this
  have : i < p.length := List.mem_range.mp hi
  simp [rot]; omega

/-- **LF-mapping**: grouping the right-rotated sorted rotations by first byte gives the sorted rotations again -/
theorem sortByHead_sortedRots (p : Bytes) (h : p ≠ []) : sortByHead ((sortedRots p).map rotr) = sortedRots p := by
  apply sorted_perm_eq (sortByHead_rotr_sorted _ p.length (sortedRots_length_eq p) (sortLex_sorted _)) (sortLex_sorted _)
  refine (sortByHead_perm _).trans ?_
  refine ((sortedRots_perm p).map rotr).trans ?_
  exact (rots_map_rotr_perm p h).trans (sortedRots_perm p).symm

/-! ### the permutation in terms of the sorted rotations -/

theorem map_range_getD {α : Type} (l : List α) (d : α) : (List.range l.length).map (fun i => l.getD i d) = l := by
  apply List.ext_getElem
  · simp
  · intro i h1 h2
    simp only [List.getElem_map, List.getElem_range]
    rw [List.getD_eq_getElem?_getD, List.getElem?_eq_getElem h2]; rfl

theorem order_map (M : List Bytes) :
    (order (M.map (fun s => s.getLastD 0))).map (fun i => rotr (M.getD i [])) = sortByHead (M.map rotr) := by
  unfold order sortByHead
  rw [List.map_flatMap]
  apply flatMap_congr'
  intro c _
  have hM : M.map rotr = (List.range M.length).map (fun i => rotr (M.getD i [])) := by
    conv => lhs; rw [← map_range_getD M []]
    rw [List.map_map]; rfl
  rw [hM, List.filter_map, List.length_map]
  congr 1
  apply List.filter_congr
  intro i hi
  have hi' : i < M.length := List.mem_range.mp hi
  simp only [Function.comp, rotr, List.headD_cons]
  rw [List.getD_eq_getElem?_getD, List.getElem?_map, List.getElem?_eq_getElem hi',
    List.getD_eq_getElem?_getD, List.getElem?_eq_getElem hi']
  rfl

theorem order_mem_lt (L : List UInt8) (i : Nat) (h : i ∈ order L) : i < L.length := by
  unfold order at h
  obtain ⟨c, _, hc⟩ := List.mem_flatMap.mp h
  exact List.mem_range.mp (List.mem_filter.mp hc).1

/-- **the permutation built by `burrows_wheeler_prep` sends sorted position `j` to the sorted position of the
    left rotation of the `j`-th sorted rotation** (as strings) -/
theorem order_spec (p : Bytes) (h : p ≠ []) (j : Nat) (hj : j < p.length) :
    let M := sortedRots p
    let T := order (M.map (fun s => s.getLastD 0))
    T.length = p.length ∧ T.getD j 0 < p.length ∧ M.getD (T.getD j 0) [] = rotl (M.getD j []) := by
  intro M T
  have hMlen : M.length = p.length := by
    have := (sortedRots_perm p).length_eq
    simpa using this
  have hmap : T.map (fun i => rotr (M.getD i [])) = M := by
    rw [order_map, sortByHead_sortedRots p h]
  have hTlen : T.length = p.length := by
    have := congrArg List.length hmap
    rw [List.length_map] at this; omega
  have hjT : j < T.length := by omega
  have hmem : T.getD j 0 ∈ T := by
    rw [List.getD_eq_getElem?_getD, List.getElem?_eq_getElem hjT]; exact List.getElem_mem hjT
  have hlt : T.getD j 0 < p.length := by
    have := order_mem_lt _ _ hmem
    rw [List.length_map] at this; omega
  refine ⟨hTlen, hlt, ?_⟩
  have hj2 : (T.map (fun i => rotr (M.getD i []))).getD j [] = M.getD j [] := by rw [hmap]
  rw [List.getD_eq_getElem?_getD, List.getElem?_map, List.getElem?_eq_getElem hjT] at hj2
  simp only [Option.map_some, Option.getD_some] at hj2
  have hne : M.getD (T.getD j 0) [] ≠ [] := by
    have hlt' : T.getD j 0 < M.length := by omega
    rw [List.getD_eq_getElem?_getD, List.getElem?_eq_getElem hlt', Option.getD_some]
    have := sortedRots_length_eq p _ (List.getElem_mem hlt')
    intro e; rw [e] at this
    have := List.length_pos_iff.mpr h
    simp at *; omega
  have e : T[j] = T.getD j 0 := by
    rw [List.getD_eq_getElem?_getD, List.getElem?_eq_getElem hjT]; rfl
  rw [e] at hj2
  rw [← hj2, rotl_rotr _ hne]

/-! ## Part C: pointer chasing -/

/-- `pos = dbuf[pos]; current = pos & 0xff; pos >>= 8` on the two components of `dbuf[]` -/
def chaseL (L : List UInt8) (T : List Nat) : Nat → Nat → List UInt8
  | 0, _ => []
  | k + 1, pos => L.getD pos 0 :: chaseL L T k (T.getD pos 0)

theorem rot_getLastD (p : Bytes) (i : Nat) (h1 : 1 ≤ i) (hi : i ≤ p.length) :
    (rot p i).getLastD 0 = p.getD (i - 1) 0 := by
  obtain ⟨m, rfl⟩ : ∃ m, i = m + 1 := ⟨i - 1, by omega⟩
  have hm : m < p.length := by omega
  unfold rot
  rw [List.take_succ_eq_append_getElem hm, ← List.append_assoc]
  simp only [List.getLastD_eq_getLast?, List.getLast?_append, List.getLast?_singleton, Option.some_or,
    Option.getD_some, Nat.add_sub_cancel]
  rw [List.getD_eq_getElem?_getD, List.getElem?_eq_getElem hm]; rfl

theorem rotl_rot (p : Bytes) (i : Nat) (hi : i < p.length) : rotl (rot p i) = rot p (i + 1) := by
  have hd : p.drop i = p[i] :: p.drop (i + 1) := List.drop_eq_getElem_cons hi
  have ht : p.take (i + 1) = p.take i ++ [p[i]] := List.take_succ_eq_append_getElem hi
  unfold rot rotl
  rw [ht, hd]
  simp only [List.cons_append, List.tail_cons, List.headD_cons, List.append_assoc]

theorem chaseL_spec (p : Bytes) (h : p ≠ []) :
    let M := sortedRots p
    let L := M.map (fun s => s.getLastD 0)
    let T := order L
    ∀ (k i pos : Nat), 1 ≤ i → i + k ≤ p.length + 1 → pos < p.length → M.getD pos [] = rot p i →
      chaseL L T k pos = (p.drop (i - 1)).take k := by
  intro M L T k
  have hMlen : M.length = p.length := by
    have := (sortedRots_perm p).length_eq
    simpa using this
  induction k with
  | zero => intro i pos _ _ _ _; simp [chaseL]
  | succ k ih =>
    intro i pos h1 hik hpos hM
    have hi : i ≤ p.length := by omega
    have hL : L.getD pos 0 = p.getD (i - 1) 0 := by
      show (M.map (fun s => s.getLastD 0)).getD pos 0 = _
      rw [List.getD_eq_getElem?_getD, List.getElem?_map, List.getElem?_eq_getElem (by omega)]
      have : M[pos]'(by omega) = rot p i := by
        rw [← hM, List.getD_eq_getElem?_getD, List.getElem?_eq_getElem (by omega)]; rfl
      simp only [Option.map_some, Option.getD_some, this]
      exact rot_getLastD p i h1 hi
    have hdrop : (p.drop (i - 1)).take (k + 1) = p.getD (i - 1) 0 :: (p.drop i).take k := by
      have hlt : i - 1 < p.length := by omega
      rw [List.drop_eq_getElem_cons hlt, List.take_succ_cons]
      rw [List.getD_eq_getElem?_getD, List.getElem?_eq_getElem hlt]
      have : i - 1 + 1 = i := by omega
      rw [this]; rfl
    simp only [chaseL]
    rw [hL, hdrop]
    congr 1
    cases k with
    | zero => simp [chaseL]
    | succ k' =>
      have hilt : i < p.length := by omega
      obtain ⟨_, hT, hMT⟩ := order_spec p h pos hpos
      have := ih (i + 1) (T.getD pos 0) (by omega) (by omega) hT (by rw [hMT, hM, rotl_rot p i hilt])
      simpa using this

/-- **(b), list level**: chasing the permutation from `T[origPtr]` through the last column spells the block -/
theorem chaseL_bwt (p : Bytes) (h : p ≠ []) :
    let L := (bwt p).1
    let T := order L
    (bwt p).2 < p.length ∧ L.length = p.length ∧ chaseL L T p.length (T.getD (bwt p).2 0) = p := by
  intro L T
  have hMlen : (sortedRots p).length = p.length := by
    have := (sortedRots_perm p).length_eq
    simpa using this
  have hpos : 0 < p.length := List.length_pos_iff.mpr h
  have hmem : p ∈ sortedRots p := by
    apply (sortedRots_perm p).mem_iff.mpr
    exact List.mem_map.mpr ⟨0, List.mem_range.mpr hpos, rot_zero p⟩
  have horig : (sortedRots p).idxOf p < (sortedRots p).length := List.idxOf_lt_length_of_mem hmem
  have hMo : (sortedRots p).getD ((sortedRots p).idxOf p) [] = p := by
    rw [List.getD_eq_getElem?_getD, List.getElem?_eq_getElem horig, Option.getD_some]
    exact List.getElem_idxOf horig
  refine ⟨by show (sortedRots p).idxOf p < p.length; omega, by show ((sortedRots p).map _).length = _; simpa using hMlen, ?_⟩
  have hLT : L = (sortedRots p).map (fun s => s.getLastD 0) := rfl
  have hO : (bwt p).2 = (sortedRots p).idxOf p := rfl
  obtain ⟨_, hT, hMT⟩ := order_spec p h ((sortedRots p).idxOf p) (by omega)
  have := chaseL_spec p h p.length 1 (T.getD ((sortedRots p).idxOf p) 0) (by omega) (by omega) hT
    (by show (sortedRots p).getD ((order ((sortedRots p).map fun s => s.getLastD 0)).getD _ 0) [] = _
        rw [hMT, hMo, ← rotl_rot p 0 hpos, rot_zero])
  rw [hO]
  simp only [Nat.sub_self, List.drop_zero] at this
  rw [List.take_of_length_le (Nat.le_refl _)] at this
  exact this

end Xmp.Bzip2
