import XmpModel.Bzip2
/-!
# bzip2: work bounds (C02 style) for the decoder model

* every bit-reader call consumes exactly / at least the bits it returns — the loops over the input make progress;
* the MTF / run-length stage never holds more than `dbufSize` symbols;
* the final run-length stage writes at most 255 bytes per symbol.
-/
namespace Xmp.Bzip2
open Xmp

theorem getBitsAux_length : ∀ (n acc : Nat) (s s' : Bits) (v : Nat),
    getBitsAux n acc s = .ok (v, s') → s'.length + n = s.length
  | 0, acc, s, s', v, h => by simp [getBitsAux] at h; rw [h.2]; rfl
  | n + 1, acc, [], s', v, h => by simp [getBitsAux] at h
  | n + 1, acc, b :: s, s', v, h => by
    simp only [getBitsAux] at h
    have := getBitsAux_length n _ s s' v h
    simp only [List.length_cons]; omega

/-- `get_bits(bd, n)` consumes exactly `n` bits -/
theorem getBits_length (n : Nat) (s s' : Bits) (v : Nat) (h : getBits n s = .ok (v, s')) : s'.length + n = s.length :=
  getBitsAux_length n 0 s s' v h

theorem hufLoop_length (g : Group) : ∀ (f ii jj : Nat) (s s' : Bits) (ii' jj' : Nat),
    hufLoop g f ii jj s = .ok (ii', jj', s') → s'.length ≤ s.length
  | 0, ii, jj, s, s', ii', jj', h => by simp [hufLoop] at h; rw [h.2.2]; exact Nat.le_refl _
  | f + 1, ii, jj, s, s', ii', jj', h => by
    simp only [hufLoop] at h
    split at h
    · cases s with
      | nil => simp at h
      | cons b t =>
        simp only at h
        have := hufLoop_length g f _ _ t s' ii' jj' h
        simp only [List.length_cons]; omega
    · simp only [Except.ok.injEq, Prod.mk.injEq] at h
      rw [h.2.2]; exact Nat.le_refl _

/-- every Huffman symbol costs at least `minLen` bits: the symbol loop cannot spin -/
theorem decodeSym_progress (g : Group) (s s' : Bits) (sym : Nat) (h : decodeSym g s = .ok (sym, s')) :
    s'.length + g.minLen ≤ s.length := by
  unfold decodeSym at h
  cases h1 : getBits g.minLen s with
  | error e => simp [h1] at h
  | ok r1 =>
    obtain ⟨jj0, s1⟩ := r1
    simp only [h1] at h
    have hl1 := getBits_length _ _ _ _ h1
    cases h2 : hufLoop g 22 g.minLen jj0 s1 with
    | error e => simp [h2] at h
    | ok r2 =>
      obtain ⟨ii, jj, s2⟩ := r2
      simp only [h2] at h
      have hl2 := hufLoop_length g _ _ _ _ _ _ _ h2
      split at h
      · cases h
      · simp only [Except.ok.injEq, Prod.mk.injEq] at h
        rw [← h.2]; omega

/-- the decoded block never exceeds `dbufSize` symbols (`dbuf[]` is never overrun) -/
theorem processSym_dbuf_le (dbufSize : Nat) (stb : Array UInt8) (st st' : MState) (sym : Nat) (d : Bool)
    (hle : st.dbuf.size ≤ dbufSize) (h : processSym dbufSize stb st sym = .ok (st', d)) : st'.dbuf.size ≤ dbufSize := by
  unfold processSym at h
  simp only at h
  repeat' split at h
  all_goals first
    | (cases h; done)
    | (simp only [Except.ok.injEq, Prod.mk.injEq] at h
       obtain ⟨rfl, _⟩ := h
       (try simp only [Array.size_push, Array.size_append, Array.size_replicate] at *)
       omega)
    | (rename_i st1 hfl _
       simp only [Except.ok.injEq, Prod.mk.injEq] at h
       obtain ⟨rfl, _⟩ := h
       repeat' split at hfl
       all_goals first
         | (cases hfl; done)
         | (simp only [Except.ok.injEq] at hfl
            subst hfl
            (try simp only [Array.size_push, Array.size_append, Array.size_replicate] at *)
            omega))

/-- the final run-length stage writes at most 255 bytes for every symbol it reads -/
theorem unrleGo_size : ∀ (d : List UInt8) (run cur : Int) (acc : Array UInt8),
    (unrleGo run cur acc d).size ≤ acc.size + 255 * d.length
  | [], run, cur, acc => by simp [unrleGo]
  | b :: rest, run, cur, acc => by
    simp only [unrleGo]
    split
    · have := unrleGo_size rest (if (-1 : Int) ≠ cur then 0 else run + 1) (-1)
        (acc ++ Array.replicate b.toNat (UInt8.ofNat (cur % 256).toNat))
      simp only [Array.size_append, Array.size_replicate, List.length_cons] at this ⊢
      have := b.toNat_lt
      omega
    · have := unrleGo_size rest (if ((b.toNat : Nat) : Int) ≠ cur then 0 else run + 1) (b.toNat : Int) (acc.push b)
      simp only [Array.size_push, List.length_cons] at this ⊢
      omega

theorem unrle1_size (c0 : Int) (d : List UInt8) : (unrle1 c0 d).size ≤ 255 * d.length := by
  have := unrleGo_size d Gen.writeRunInit c0 #[]
  simpa [unrle1] using this

/-! ## composed: one block -/

/-- the symbol loop never returns more than `dbufSize` symbols and never more bits than it was given -/
theorem symLoop_bounds (dbufSize : Nat) (h : Hdr) : ∀ (fuel sc sel : Nat) (g : Group) (st st' : MState) (s s' : Bits),
    st.dbuf.size ≤ dbufSize → symLoop dbufSize h fuel sc sel g st s = .ok (st', s') →
    st'.dbuf.size ≤ dbufSize ∧ s'.length ≤ s.length
  | 0, _, _, _, _, _, _, _, _, hr => by simp [symLoop] at hr
  | fuel + 1, sc, sel, g, st, st', s, s', hle, hr => by
    simp only [symLoop] at hr
    split at hr
    · cases hr
    · split at hr
      · cases hr
      · rename_i sym s1 hd
        have hl1 := decodeSym_progress _ _ _ _ hd
        split at hr
        · cases hr
        · rename_i st1 d hp
          have hle1 := processSym_dbuf_le dbufSize _ st st1 sym d hle hp
          cases d with
          | true =>
            simp only [if_true, Except.ok.injEq, Prod.mk.injEq] at hr
            rw [← hr.1, ← hr.2]
            exact ⟨hle1, by omega⟩
          | false =>
            simp only [Bool.false_eq_true, if_false] at hr
            have := symLoop_bounds dbufSize h fuel _ _ _ st1 st' s1 s' hle1 hr
            exact ⟨this.1, by omega⟩

theorem bwChase_size (tt : Array Nat) : ∀ (n pos : Nat) (acc : Array UInt8), (bwChase tt n pos acc).size = acc.size + n
  | 0, _, acc => by simp [bwChase]
  | n + 1, pos, acc => by
    simp only [bwChase]
    rw [bwChase_size tt n]
    simp only [Array.size_push]; omega

/-- **output of one block ≤ 255 · dbufSize**, whatever the stream declares (`dbufSize = 100000 · level ≤ 900000`) -/
theorem decodeBlock_output_le (dbufSize fuel : Nat) (s s' : Bits) (blk : Bytes)
    (h : decodeBlock dbufSize fuel s = .ok (blk, s')) : blk.length ≤ 255 * dbufSize := by
  unfold decodeBlock at h
  cases h1 : readHeader dbufSize s with
  | error e => simp [h1] at h
  | ok r1 =>
    obtain ⟨hd, s1⟩ := r1
    simp only [h1] at h
    cases h2 : readHuffmanData dbufSize fuel hd s1 with
    | error e => simp [h2] at h
    | ok r2 =>
      obtain ⟨d, s2⟩ := r2
      simp only [h2] at h
      have hdsz : d.size ≤ dbufSize := by
        unfold readHuffmanData at h2
        cases h3 : symLoop dbufSize hd fuel 0 0 default { runPos := 0, hh := 0, dbuf := #[], mtf := List.range 256 } s1 with
        | error e => simp [h3] at h2
        | ok r3 =>
          obtain ⟨st, s3⟩ := r3
          simp only [h3] at h2
          have := (symLoop_bounds dbufSize hd fuel 0 0 default _ st s1 s3 (by simp) h3).1
          split at h2
          · split at h2 <;> cases h2
          · simp only [Except.ok.injEq, Prod.mk.injEq] at h2
            rw [← h2.1]; exact this
      simp only [Except.ok.injEq, Prod.mk.injEq] at h
      rw [← h.1]
      have h4 := unrle1_size (ibwt d hd.origPtr).2 (ibwt d hd.origPtr).1.toList
      have h5 : (ibwt d hd.origPtr).1.size = d.size := by
        unfold ibwt
        simp only [bwChase_size]
        simp
      simp only [Array.length_toList] at h4 ⊢
      have : 255 * d.size ≤ 255 * dbufSize := Nat.mul_le_mul_left _ hdsz
      omega

end Xmp.Bzip2
