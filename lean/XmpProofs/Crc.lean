import XmpModel.Crc
/-!
# Helper lemmas for the CRC model (C09)

* linearity of the LFSR step, `tblStep = eight serial steps` given a correct table,
  lifted to whole messages (`tblLoop_eq_bitwise`);
* the burst lemma: from `P.msb = true` (reflected) the register after at most `w` steps
  from 0 is 0 only if every fed bit was 0; the zero-input step is injective.
All proofs are core Lean (`BitVec`, `omega`, `simp`), no Mathlib.
-/
namespace Xmp.Crc

/-- zero-input step -/
def Z {w} (P s : BitVec w) : BitVec w := stepX P s (s.getLsbD 0)
def Zn {w} (P : BitVec w) : Nat → BitVec w → BitVec w
  | 0, s => s
  | n+1, s => Zn P n (Z P s)

theorem ite_xor {w} (P : BitVec w) (x y : Bool) :
    (if (x ^^ y) then P else 0#w) = (if x then P else 0#w) ^^^ (if y then P else 0#w) := by
  cases x <;> cases y <;> simp

theorem stepX_xor {w} (P a b : BitVec w) (x y : Bool) :
    stepX P (a ^^^ b) (x ^^ y) = stepX P a x ^^^ stepX P b y := by
  unfold stepX
  rw [ite_xor, BitVec.ushiftRight_xor_distrib]
  ac_rfl

theorem stepBit_xor {w} (P a b : BitVec w) (x y : Bool) :
    stepBit P (a ^^^ b) (x ^^ y) = stepBit P a x ^^^ stepBit P b y := by
  unfold stepBit
  rw [← stepX_xor, BitVec.getLsbD_xor]
  congr 1
  cases a.getLsbD 0 <;> cases b.getLsbD 0 <;> cases x <;> cases y <;> rfl

theorem Z_eq_stepBit {w} (P s : BitVec w) : Z P s = stepBit P s false := by
  simp [Z, stepBit]

theorem Z_xor {w} (P a b : BitVec w) : Z P (a ^^^ b) = Z P a ^^^ Z P b := by
  rw [Z_eq_stepBit, Z_eq_stepBit, Z_eq_stepBit, ← stepBit_xor]; rfl

theorem Zn_xor {w} (P : BitVec w) (n : Nat) (a b : BitVec w) : Zn P n (a ^^^ b) = Zn P n a ^^^ Zn P n b := by
  induction n generalizing a b with
  | zero => rfl
  | succ n ih => simp only [Zn]; rw [Z_xor, ih]

theorem Z_xor_in {w} (P s u : BitVec w) : Z P (s ^^^ u) = stepBit P s (u.getLsbD 0) ^^^ (u >>> 1) := by
  unfold Z stepBit
  rw [BitVec.getLsbD_xor]
  unfold stepX
  rw [BitVec.ushiftRight_xor_distrib]
  ac_rfl


/-- feeding the `n` low bits of `v` serially = xor them in at once, then `n` zero-input steps -/
theorem runBits_natBits {w} (P : BitVec w) (n : Nat) (hn : n ≤ w) (s : BitVec w) (v : Nat) :
    runBits P s (natBits v n) = Zn P n (s ^^^ BitVec.ofNat w (v % 2 ^ n)) := by
  induction n generalizing s v with
  | zero => simp [natBits, runBits, Zn, Nat.mod_one]
  | succ n ih =>
    simp only [natBits, runBits, Zn]
    rw [ih (by omega), Z_xor_in]
    have h1 : (BitVec.ofNat w (v % 2 ^ (n + 1))).getLsbD 0 = v.testBit 0 := by
      rw [BitVec.getLsbD_ofNat]
      simp only [Nat.testBit_mod_two_pow]
      simp
      omega
    have h2 : (BitVec.ofNat w (v % 2 ^ (n + 1))) >>> 1 = BitVec.ofNat w (v / 2 % 2 ^ n) := by
      apply BitVec.eq_of_toNat_eq
      rw [BitVec.toNat_ushiftRight, BitVec.toNat_ofNat, BitVec.toNat_ofNat, Nat.shiftRight_eq_div_pow]
      have hlt : v % 2 ^ (n + 1) < 2 ^ w := Nat.lt_of_lt_of_le (Nat.mod_lt _ (Nat.two_pow_pos _)) (Nat.pow_le_pow_right (by omega) hn)
      have hlt2 : v / 2 % 2 ^ n < 2 ^ w := Nat.lt_of_lt_of_le (Nat.mod_lt _ (Nat.two_pow_pos _)) (Nat.pow_le_pow_right (by omega) (by omega))
      rw [Nat.mod_eq_of_lt hlt, Nat.mod_eq_of_lt hlt2, Nat.pow_succ, Nat.mul_comm, Nat.pow_one, Nat.mod_mul_right_div_self]
    rw [h1, h2]

/-- zero-input steps on a state whose low `n` bits are clear are plain shifts -/
theorem Zn_shift {w} (P : BitVec w) (n : Nat) (u : BitVec w) (hu : u.toNat * 2 ^ n < 2 ^ w) :
    Zn P n (u <<< n) = u := by
  induction n with
  | zero => simp [Zn]
  | succ n ih =>
    simp only [Zn]
    have hlsb : (u <<< (n + 1)).getLsbD 0 = false := by simp
    have hZ : Z P (u <<< (n + 1)) = u <<< n := by
      unfold Z stepX
      rw [hlsb]
      simp only [Bool.false_eq_true, if_false, BitVec.xor_zero]
      apply BitVec.eq_of_toNat_eq
      rw [BitVec.toNat_ushiftRight, BitVec.toNat_shiftLeft, BitVec.toNat_shiftLeft,
        Nat.shiftLeft_eq, Nat.shiftLeft_eq, Nat.shiftRight_eq_div_pow]
      have h2 : u.toNat * 2 ^ n < 2 ^ w := by
        have : u.toNat * 2 ^ n ≤ u.toNat * 2 ^ (n + 1) := Nat.mul_le_mul_left _ (Nat.pow_le_pow_right (by omega) (by omega))
        omega
      rw [Nat.mod_eq_of_lt hu, Nat.mod_eq_of_lt h2, Nat.pow_succ, ← Nat.mul_assoc]
      simp
    rw [hZ]
    apply ih
    have : u.toNat * 2 ^ n ≤ u.toNat * 2 ^ (n + 1) := Nat.mul_le_mul_left _ (Nat.pow_le_pow_right (by omega) (by omega))
    omega

theorem split_lo_hi {w} (n : Nat) (t : BitVec w) :
    t = BitVec.ofNat w (t.toNat % 2 ^ n) ^^^ ((t >>> n) <<< n) := by
  apply BitVec.eq_of_getLsbD_eq
  intro i hi
  rw [BitVec.getLsbD_xor, BitVec.getLsbD_ofNat, BitVec.getLsbD_shiftLeft, BitVec.getLsbD_ushiftRight,
    Nat.testBit_mod_two_pow]
  by_cases h : i < n
  · simp [h, hi, BitVec.getLsbD]
  · have : n + (i - n) = i := by omega
    simp [h, hi, this]

theorem Zn_split {w} (P : BitVec w) (n : Nat) (t : BitVec w) :
    Zn P n t = Zn P n (BitVec.ofNat w (t.toNat % 2 ^ n)) ^^^ (t >>> n) := by
  have h := split_lo_hi n t
  conv => lhs; rw [h]
  rw [Zn_xor, Zn_shift]
  rw [BitVec.toNat_ushiftRight, Nat.shiftRight_eq_div_pow]
  have : t.toNat / 2 ^ n * 2 ^ n ≤ t.toNat := Nat.div_mul_le_self _ _
  have := t.isLt
  omega

/-- a table is correct when entry `i` is the state reached from `i` by eight zero-input steps -/
def TableOk {w} (P : BitVec w) (T : List (BitVec w)) : Prop :=
  ∀ i, i < 256 → T.getD i 0#w = Zn P 8 (BitVec.ofNat w i)

theorem tblStep_eq_bits {w} (hw : 8 ≤ w) (P : BitVec w) (T : List (BitVec w)) (hT : TableOk P T)
    (s : BitVec w) (b : UInt8) : tblStep T s b = runBits P s (byteBitsLsb b) := by
  unfold tblStep byteBitsLsb
  have hb : b.toNat < 256 := b.toNat_lt
  rw [runBits_natBits P 8 hw, Zn_split P 8]
  have hb' : b.toNat % 2 ^ 8 = b.toNat := Nat.mod_eq_of_lt hb
  rw [hb']
  have hbw : b.toNat < 2 ^ w := by
    have h1 : (2:Nat) ^ 8 ≤ 2 ^ w := Nat.pow_le_pow_right (by decide) hw
    omega
  have hidx : (s ^^^ BitVec.ofNat w b.toNat).toNat % 2 ^ 8 = b.toNat ^^^ s.toNat % 256 := by
    rw [BitVec.toNat_xor, BitVec.toNat_ofNat, Nat.mod_eq_of_lt hbw, Nat.xor_mod_two_pow, hb', Nat.xor_comm]
  have hlt : b.toNat ^^^ s.toNat % 256 < 256 := by
    have := @Nat.xor_lt_two_pow b.toNat (s.toNat % 256) 8 hb (Nat.mod_lt _ (by omega))
    simpa using this
  rw [hidx, ← hT _ hlt]
  congr 1
  rw [BitVec.ushiftRight_xor_distrib]
  have : BitVec.ofNat w b.toNat >>> 8 = 0#w := by
    apply BitVec.eq_of_toNat_eq
    rw [BitVec.toNat_ushiftRight, BitVec.toNat_ofNat, Nat.mod_eq_of_lt hbw, Nat.shiftRight_eq_div_pow]
    simp; omega
  rw [this, BitVec.xor_zero]

theorem tblLoop_eq_foldl {w} (T : List (BitVec w)) (s : BitVec w) (m : Bytes) :
    tblLoop T s m = m.foldl (tblStep T) s := by
  fun_induction tblLoop T s m <;> simp_all [List.foldl]

theorem runBits_append {w} (P : BitVec w) (s : BitVec w) (a b : List Bool) :
    runBits P s (a ++ b) = runBits P (runBits P s a) b := by
  induction a generalizing s with
  | nil => rfl
  | cons x a ih => simp [runBits, ih]

theorem foldl_tblStep_eq_bitwise {w} (hw : 8 ≤ w) (P : BitVec w) (T : List (BitVec w)) (hT : TableOk P T)
    (s : BitVec w) (m : Bytes) : m.foldl (tblStep T) s = crcBitwise P s m := by
  unfold crcBitwise
  induction m generalizing s with
  | nil => rfl
  | cons b m ih => simp only [List.foldl, bitsLsb, runBits_append]; rw [ih, tblStep_eq_bits hw P T hT]


theorem stepX_msb {w} (P : BitVec w) (hP : P.msb = true) (s : BitVec w) (x : Bool) :
    (stepX P s x).msb = x := by
  unfold stepX
  cases x <;> simp [BitVec.msb_xor, hP, BitVec.msb_ushiftRight]

theorem msb_true_le {w} (s : BitVec w) (h : s.msb = true) : 2 ^ (w - 1) ≤ s.toNat := by
  have := BitVec.msb_eq_decide s
  rw [h] at this
  simpa using this.symm

theorem w_pos_of_msb {w} (P : BitVec w) (hP : P.msb = true) : 0 < w := by
  cases w with
  | zero => simp [BitVec.msb, BitVec.getMsbD] at hP
  | succ n => omega

/-- after `j` steps from 0 the register is 0 or at least `2^(w-j)` -/
def Low {w} (j : Nat) (s : BitVec w) : Prop := s = 0#w ∨ 2 ^ (w - j) ≤ s.toNat

theorem low_step {w} (P : BitVec w) (hP : P.msb = true) (j : Nat) (hj : j < w) (s : BitVec w) (x : Bool)
    (h : Low j s) : Low (j + 1) (stepX P s x) := by
  cases x with
  | true =>
    right
    have h1 := msb_true_le _ (stepX_msb P hP s true)
    have hle : 2 ^ (w - (j + 1)) ≤ 2 ^ (w - 1) := Nat.pow_le_pow_right (by decide) (by omega)
    omega
  | false =>
    have e : stepX P s false = s >>> 1 := by simp [stepX]
    rw [e]
    rcases h with h | h
    · left; subst h; simp
    · right
      rw [BitVec.toNat_ushiftRight, Nat.shiftRight_eq_div_pow]
      have : 2 ^ (w - j) = 2 * 2 ^ (w - (j + 1)) := by
        rw [← Nat.pow_succ']; congr 1; omega
      omega

theorem step_zero_back {w} (P : BitVec w) (hP : P.msb = true) (j : Nat) (hj : j < w) (s : BitVec w) (x : Bool)
    (h : Low j s) (hz : stepX P s x = 0#w) : x = false ∧ s = 0#w := by
  have hw := w_pos_of_msb P hP
  have hm := stepX_msb P hP s x
  rw [hz] at hm
  have hx : x = false := by simpa using hm.symm
  subst hx
  refine ⟨rfl, ?_⟩
  have e : stepX P s false = s >>> 1 := by simp [stepX]
  rw [e] at hz
  rcases h with h | h
  · exact h
  · exfalso
    have h1 : (s >>> 1).toNat = 0 := by rw [hz]; simp
    rw [BitVec.toNat_ushiftRight, Nat.shiftRight_eq_div_pow] at h1
    have : 2 ≤ 2 ^ (w - j) := by
      calc 2 = 2 ^ 1 := rfl
        _ ≤ 2 ^ (w - j) := Nat.pow_le_pow_right (by decide) (by omega)
    omega

/-- a run of at most `w - j` bits from a `Low j` state that ends in 0 started in 0 and fed only zeros -/
theorem run_zero_back {w} (P : BitVec w) (hP : P.msb = true) (X : List Bool) (j : Nat) (s : BitVec w)
    (hl : Low j s) (hlen : j + X.length ≤ w) (hz : runBits P s X = 0#w) :
    s = 0#w ∧ ∀ b ∈ X, b = false := by
  induction X generalizing j s with
  | nil => exact ⟨hz, by simp⟩
  | cons b X ih =>
    simp only [runBits, List.length_cons] at hz hlen
    have hj : j < w := by omega
    have hl' := low_step P hP j hj s (s.getLsbD 0 ^^ b) hl
    have ⟨h0, hX⟩ := ih (j + 1) (stepBit P s b) hl' (by omega) hz
    have ⟨hx, hs⟩ := step_zero_back P hP j hj s _ hl h0
    subst hs
    refine ⟨rfl, ?_⟩
    intro c hc
    rcases List.mem_cons.mp hc with h | h
    · subst h; simpa using hx
    · exact hX c h

/-- the zero-input step is injective at 0 -/
theorem stepBit_false_eq_zero {w} (P : BitVec w) (hP : P.msb = true) (s : BitVec w)
    (h : stepBit P s false = 0#w) : s = 0#w := by
  have hw := w_pos_of_msb P hP
  unfold stepBit at h
  have hm := stepX_msb P hP s (s.getLsbD 0 ^^ false)
  rw [h] at hm
  simp at hm
  unfold stepX at h
  simp [← hm] at h
  apply BitVec.eq_of_toNat_eq
  rw [hm] at h
  simp only [Bool.false_eq_true, if_false] at h
  have h1 : (s >>> 1).toNat = 0 := by rw [h]; simp
  rw [BitVec.toNat_ushiftRight, Nat.shiftRight_eq_div_pow] at h1
  have h0 : s.toNat % 2 = 0 := by
    have hb : s.toNat.testBit 0 = false := by
      have := hm
      simp only [BitVec.getLsbD] at this
      exact this
    rw [Nat.testBit_zero] at hb
    simp at hb
    omega
  simp at h1 ⊢
  omega

theorem runBits_linear {w} (P : BitVec w) (X Y : List Bool) (h : X.length = Y.length) (s t : BitVec w) :
    runBits P s X ^^^ runBits P t Y = runBits P (s ^^^ t) (List.zipWith (· ^^ ·) X Y) := by
  induction X generalizing Y s t with
  | nil => cases Y with
    | nil => rfl
    | cons _ _ => simp at h
  | cons x X ih => cases Y with
    | nil => simp at h
    | cons y Y =>
      simp only [List.length_cons, Nat.add_right_cancel_iff] at h
      simp only [runBits, List.zipWith_cons_cons]
      rw [ih Y h, stepBit_xor]

theorem stepBit_inj {w} (P : BitVec w) (hP : P.msb = true) (s t : BitVec w) (b : Bool)
    (h : stepBit P s b = stepBit P t b) : s = t := by
  have h1 : stepBit P (s ^^^ t) (b ^^ b) = 0#w := by rw [stepBit_xor, h]; simp
  simp only [Bool.xor_self] at h1
  have := stepBit_false_eq_zero P hP _ h1
  exact BitVec.xor_eq_zero_iff.mp this

theorem runBits_inj {w} (P : BitVec w) (hP : P.msb = true) (C : List Bool) (s t : BitVec w)
    (h : runBits P s C = runBits P t C) : s = t := by
  induction C generalizing s t with
  | nil => exact h
  | cons c C ih => exact stepBit_inj P hP s t c (ih _ _ h)

/-- **Burst detection**: two bit strings that agree outside a window of at most `w`
    consecutive bits and differ inside it have different CRC registers, for every start value. -/
theorem runBits_burst_ne {w} (P : BitVec w) (hP : P.msb = true) (A X X' C : List Bool)
    (hlen : X.length = X'.length) (hw : X.length ≤ w) (hne : X ≠ X') (s : BitVec w) :
    runBits P s (A ++ X ++ C) ≠ runBits P s (A ++ X' ++ C) := by
  intro h
  rw [runBits_append, runBits_append, runBits_append, runBits_append] at h
  have h2 := runBits_inj P hP C _ _ h
  generalize runBits P s A = t at h2
  have h3 : runBits P t X ^^^ runBits P t X' = 0#w := by rw [h2]; simp
  rw [runBits_linear P X X' hlen] at h3
  simp only [BitVec.xor_self] at h3
  have ⟨_, hall⟩ := run_zero_back P hP _ 0 0#w (Or.inl rfl) (by simp [List.length_zipWith]; omega) h3
  apply hne
  clear h h2 h3 hw hne
  induction X generalizing X' with
  | nil => cases X' with
    | nil => rfl
    | cons _ _ => simp at hlen
  | cons x X ih => cases X' with
    | nil => simp at hlen
    | cons y Y =>
      simp only [List.length_cons, Nat.add_right_cancel_iff] at hlen
      simp only [List.zipWith_cons_cons, List.mem_cons, forall_eq_or_imp] at hall
      have hxy : x = y := by cases x <;> cases y <;> simp_all
      rw [hxy, ih Y hlen hall.2]

/-! ### generated tables are correct (256 entries each, checked by kernel evaluation) -/
theorem table32_ok : TableOk P32 table32 := by
  unfold TableOk; decide +kernel
theorem table16_ok : TableOk P16 table16 := by
  unfold TableOk; decide +kernel
theorem P32_msb : P32.msb = true := by decide
theorem P16_msb : P16.msb = true := by decide

/-! ### bytes ↔ bits -/
def ofBits : List Bool → Nat
  | [] => 0
  | b :: bs => b.toNat + 2 * ofBits bs

theorem ofBits_natBits (v n : Nat) : ofBits (natBits v n) = v % 2 ^ n := by
  induction n generalizing v with
  | zero => simp [natBits, ofBits, Nat.mod_one]
  | succ n ih =>
    simp only [natBits, ofBits, ih]
    rw [Nat.pow_succ, Nat.mul_comm (2 ^ n) 2, Nat.mod_mul, Nat.testBit_zero]
    cases h : decide (v % 2 = 1) <;> simp_all <;> omega

theorem length_natBits (v n : Nat) : (natBits v n).length = n := by
  induction n generalizing v with
  | zero => rfl
  | succ n ih => simp [natBits, ih]

theorem byteBitsLsb_inj (a b : UInt8) (h : byteBitsLsb a = byteBitsLsb b) : a = b := by
  unfold byteBitsLsb at h
  have h1 := congrArg ofBits h
  rw [ofBits_natBits, ofBits_natBits] at h1
  have ha := a.toNat_lt
  have hb := b.toNat_lt
  apply UInt8.toNat_inj.mp
  omega

theorem length_byteBitsLsb (a : UInt8) : (byteBitsLsb a).length = 8 := length_natBits _ _

theorem bitsLsb_append (a b : Bytes) : bitsLsb (a ++ b) = bitsLsb a ++ bitsLsb b := by
  induction a with
  | nil => rfl
  | cons x a ih => simp [bitsLsb, ih]

theorem length_bitsLsb (a : Bytes) : (bitsLsb a).length = 8 * a.length := by
  induction a with
  | nil => rfl
  | cons x a ih => simp [bitsLsb, ih, length_byteBitsLsb]; omega

theorem bitsLsb_inj (a b : Bytes) (hl : a.length = b.length) (h : bitsLsb a = bitsLsb b) : a = b := by
  induction a generalizing b with
  | nil => cases b with
    | nil => rfl
    | cons _ _ => simp at hl
  | cons x a ih => cases b with
    | nil => simp at hl
    | cons y b =>
      simp only [bitsLsb] at h
      have h8 : (byteBitsLsb x).length = (byteBitsLsb y).length := by simp [length_byteBitsLsb]
      have ⟨h1, h2⟩ := List.append_inj h h8
      rw [byteBitsLsb_inj x y h1, ih b (by simpa using hl) h2]

theorem reverse_reverse {w} (s : BitVec w) : s.reverse.reverse = s := by
  apply BitVec.eq_of_getLsbD_eq
  intro i hi
  rw [BitVec.getLsbD_reverse, BitVec.getMsbD_reverse]

theorem reverse_inj {w} (s t : BitVec w) (h : s.reverse = t.reverse) : s = t := by
  rw [← reverse_reverse s, h, reverse_reverse]

theorem reverse_xor {w} (s t : BitVec w) : (s ^^^ t).reverse = s.reverse ^^^ t.reverse := by
  apply BitVec.eq_of_getLsbD_eq
  intro i hi
  rw [BitVec.getLsbD_xor, BitVec.getLsbD_reverse, BitVec.getLsbD_reverse, BitVec.getLsbD_reverse]
  simp only [BitVec.getMsbD, BitVec.getLsbD_xor]
  cases decide (i < w) <;> simp

theorem reverse_zero {w} : (0#w).reverse = 0#w := by
  apply BitVec.eq_of_getLsbD_eq
  intro i hi
  simp [BitVec.getLsbD_reverse, BitVec.getMsbD]

theorem reverse_shl1 {w} (s : BitVec w) : (s <<< 1).reverse = s.reverse >>> 1 := by
  apply BitVec.eq_of_getLsbD_eq
  intro i hi
  simp only [BitVec.getLsbD_reverse, BitVec.getLsbD_ushiftRight, BitVec.getMsbD, BitVec.getLsbD_shiftLeft]
  by_cases h : i + 1 < w
  · have e : w - 1 - i - 1 = w - 1 - (1 + i) := by omega
    have h1 : ¬ (w - 1 - i < 1) := by omega
    have h2 : w - 1 - i < w := by omega
    have h3 : 1 + i < w := by omega
    simp [hi, h1, h2, h3, e]
  · have h1 : w - 1 - i < 1 := by omega
    have h3 : ¬ (1 + i < w) := by omega
    simp [h1, h3]

theorem stepXM_reverse {w} (P s : BitVec w) (x : Bool) :
    (stepXM P s x).reverse = stepX P.reverse s.reverse x := by
  unfold stepXM stepX
  rw [reverse_xor, reverse_shl1]
  cases x <;> simp [reverse_zero]

theorem stepBitM_reverse {w} (P s : BitVec w) (b : Bool) :
    (stepBitM P s b).reverse = stepBit P.reverse s.reverse b := by
  unfold stepBitM stepBit
  rw [stepXM_reverse, BitVec.getLsbD_reverse]
  simp [BitVec.msb]

theorem runBitsM_reverse {w} (P s : BitVec w) (X : List Bool) :
    (runBitsM P s X).reverse = runBits P.reverse s.reverse X := by
  induction X generalizing s with
  | nil => rfl
  | cons b X ih => simp only [runBitsM, runBits]; rw [ih, stepBitM_reverse]

/-- burst detection for the MSB-first CRC (bzip2): needs the constant term of the polynomial -/
theorem runBitsM_burst_ne {w} (P : BitVec w) (hP : P.getLsbD 0 = true) (A X X' C : List Bool)
    (hlen : X.length = X'.length) (hw : X.length ≤ w) (hne : X ≠ X') (s : BitVec w) :
    runBitsM P s (A ++ X ++ C) ≠ runBitsM P s (A ++ X' ++ C) := by
  intro h
  have h' := congrArg BitVec.reverse h
  rw [runBitsM_reverse, runBitsM_reverse] at h'
  exact runBits_burst_ne P.reverse (by rw [BitVec.msb_reverse]; exact hP) A X X' C hlen hw hne _ h'

/-- table entries of the MSB-first CRC: eight zero-input steps from `i << (w-8)` -/
def ZM {w} (P s : BitVec w) : BitVec w := stepXM P s s.msb
def ZMn {w} (P : BitVec w) : Nat → BitVec w → BitVec w
  | 0, s => s
  | n+1, s => ZMn P n (ZM P s)


/-! ### message-level statements -/

theorem tblLoop_eq_bitwise {w} (hw : 8 ≤ w) (P : BitVec w) (T : List (BitVec w)) (hT : TableOk P T)
    (s : BitVec w) (m : Bytes) : tblLoop T s m = crcBitwise P s m := by
  rw [tblLoop_eq_foldl, foldl_tblStep_eq_bitwise hw P T hT]

theorem crc32ANoInv_eq_bitwise (m : Bytes) (c : BitVec 32) : crc32ANoInv m c = crcBitwise P32 c m :=
  tblLoop_eq_bitwise (by decide) P32 table32 table32_ok c m

theorem crc32A_eq_bitwise (m : Bytes) (c : BitVec 32) : crc32A m c = ~~~ crcBitwise P32 (~~~ c) m := by
  unfold crc32A; rw [crc32ANoInv_eq_bitwise]

theorem crc16IBM_eq_bitwise (m : Bytes) (c : BitVec 16) : crc16IBM m c = crcBitwise P16 c m :=
  tblLoop_eq_bitwise (by decide) P16 table16 table16_ok c m

theorem crcBitwise_append {w} (P s : BitVec w) (a b : Bytes) :
    crcBitwise P s (a ++ b) = crcBitwise P (crcBitwise P s a) b := by
  unfold crcBitwise; rw [bitsLsb_append, runBits_append]

/-- chunked computation (xz block data, LZX entry header, miniz streaming): feeding the
    previous result back as the start value continues the same CRC -/
theorem crc32A_append (a b : Bytes) (c : BitVec 32) : crc32A b (crc32A a c) = crc32A (a ++ b) c := by
  simp only [crc32A_eq_bitwise, BitVec.not_not, crcBitwise_append]

theorem crc16IBM_append (a b : Bytes) (c : BitVec 16) : crc16IBM b (crc16IBM a c) = crc16IBM (a ++ b) c := by
  simp only [crc16IBM_eq_bitwise, crcBitwise_append]

/-- byte-level burst detection for a reflected CRC register -/
theorem crcBitwise_window_ne {w} (P : BitVec w) (hP : P.msb = true) (A W W' C : Bytes)
    (hlen : W.length = W'.length) (hw : 8 * W.length ≤ w) (hne : W ≠ W') (s : BitVec w) :
    crcBitwise P s (A ++ W ++ C) ≠ crcBitwise P s (A ++ W' ++ C) := by
  unfold crcBitwise
  simp only [bitsLsb_append]
  apply runBits_burst_ne P hP
  · simp [length_bitsLsb, hlen]
  · simpa [length_bitsLsb] using hw
  · intro h; exact hne (bitsLsb_inj W W' hlen h)


/-! ### bzip2's MSB-first table routine = bitwise definition -/

theorem ZM_eq_stepBitM {w} (P s : BitVec w) : ZM P s = stepBitM P s false := by
  simp [ZM, stepBitM]

theorem ZMn_reverse {w} (P : BitVec w) (n : Nat) (s : BitVec w) : (ZMn P n s).reverse = Zn P.reverse n s.reverse := by
  induction n generalizing s with
  | zero => rfl
  | succ n ih =>
    simp only [ZMn, Zn]
    rw [ih, ZM_eq_stepBitM, stepBitM_reverse, Z_eq_stepBit]

theorem ZMn_xor {w} (P : BitVec w) (n : Nat) (a b : BitVec w) : ZMn P n (a ^^^ b) = ZMn P n a ^^^ ZMn P n b := by
  apply reverse_inj
  rw [reverse_xor, ZMn_reverse, ZMn_reverse, ZMn_reverse, reverse_xor, Zn_xor]

theorem runBitsM_linear {w} (P : BitVec w) (X Y : List Bool) (h : X.length = Y.length) (s t : BitVec w) :
    runBitsM P s X ^^^ runBitsM P t Y = runBitsM P (s ^^^ t) (List.zipWith (· ^^ ·) X Y) := by
  apply reverse_inj
  rw [reverse_xor, runBitsM_reverse, runBitsM_reverse, runBitsM_reverse, reverse_xor, runBits_linear _ _ _ h]

theorem runBitsM_zeros {w} (P : BitVec w) (n : Nat) (s : BitVec w) :
    runBitsM P s (List.replicate n false) = ZMn P n s := by
  induction n generalizing s with
  | zero => rfl
  | succ n ih => simp only [List.replicate_succ, runBitsM, ZMn]; rw [ih, ZM_eq_stepBitM]

theorem zipWith_false (Y : List Bool) : List.zipWith (· ^^ ·) (List.replicate Y.length false) Y = Y := by
  induction Y with
  | nil => rfl
  | cons y Y ih => simp [List.replicate_succ, ih]

/-- zero-input MSB-first steps on a state whose top `n` bits are clear are plain left shifts -/
theorem ZMn_shift (P : BitVec 32) (n : Nat) (u : BitVec 32) (hn : n ≤ 32) (hu : u.toNat < 2 ^ (32 - n)) :
    ZMn P n u = u <<< n := by
  induction n generalizing u with
  | zero => simp [ZMn]
  | succ n ih =>
    simp only [ZMn]
    have hp : (2:Nat) ^ (32 - n) = 2 * 2 ^ (32 - (n + 1)) := by
      rw [← Nat.pow_succ']; congr 1; omega
    have hle : (2:Nat) ^ (32 - (n+1)) ≤ 2 ^ 31 := Nat.pow_le_pow_right (by decide) (by omega)
    have hmsb : u.msb = false := by
      rw [BitVec.msb_eq_decide]; simp; omega
    have hZ : ZM P u = u <<< 1 := by simp [ZM, stepXM, hmsb]
    rw [hZ, ih (u <<< 1) (by omega)]
    · rw [Nat.add_comm n 1, BitVec.shiftLeft_add]
    · rw [BitVec.toNat_shiftLeft, Nat.shiftLeft_eq]
      have : u.toNat * 2 ^ 1 < 2 ^ 32 := by
        have h32 : (2:Nat) ^ 31 * 2 = 2 ^ 32 := by decide
        omega
      rw [Nat.mod_eq_of_lt this]; omega

def TableOkM (P : BitVec 32) (T : List (BitVec 32)) : Prop :=
  ∀ i, i < 256 → T.getD i 0#32 = ZMn P 8 (BitVec.ofNat 32 i <<< 24)

theorem tableBz_ok : TableOkM PBz tableBz := by unfold TableOkM; decide +kernel

theorem tableBz_bits : ∀ i, i < 256 → runBitsM PBz 0#32 (byteBitsMsb (UInt8.ofNat i)) = tableBz.getD i 0#32 := by
  decide +kernel

theorem length_byteBitsMsb (b : UInt8) : (byteBitsMsb b).length = 8 := by
  simp [byteBitsMsb, length_natBits]

theorem shl_xor (x y : Nat) : BitVec.ofNat 32 (x ^^^ y) <<< 24 = BitVec.ofNat 32 x <<< 24 ^^^ BitVec.ofNat 32 y <<< 24 := by
  apply BitVec.eq_of_getLsbD_eq
  intro i hi
  simp only [BitVec.getLsbD_xor, BitVec.getLsbD_shiftLeft, BitVec.getLsbD_ofNat, Nat.testBit_xor]
  cases decide (i < 32) <;> cases decide (i < 24) <;> cases decide (i - 24 < 32) <;> simp

theorem tableM_xor (P : BitVec 32) (T : List (BitVec 32)) (hT : TableOkM P T) (x y : Nat) (hx : x < 256) (hy : y < 256) :
    T.getD (x ^^^ y) 0#32 = T.getD x 0#32 ^^^ T.getD y 0#32 := by
  have hxy : x ^^^ y < 256 := @Nat.xor_lt_two_pow x y 8 hx hy
  rw [hT _ hxy, hT _ hx, hT _ hy, ← ZMn_xor, shl_xor]

theorem bzStep_eq_bits_gen (P : BitVec 32) (T : List (BitVec 32)) (hT : TableOkM P T)
    (hbits : ∀ i, i < 256 → runBitsM P 0#32 (byteBitsMsb (UInt8.ofNat i)) = T.getD i 0#32)
    (s : BitVec 32) (b : UInt8) :
    bzStep T s b = runBitsM P s (byteBitsMsb b) := by
  have hb : b.toNat < 256 := b.toNat_lt
  have hlin := runBitsM_linear P (List.replicate (byteBitsMsb b).length false) (byteBitsMsb b) (by simp) s 0#32
  rw [zipWith_false, BitVec.xor_zero, length_byteBitsMsb, runBitsM_zeros] at hlin
  rw [← hlin]
  have hbb : runBitsM P 0#32 (byteBitsMsb b) = T.getD b.toNat 0#32 := by
    have := hbits b.toNat hb
    rwa [UInt8.ofNat_toNat] at this
  rw [hbb]
  have hlt := s.isLt
  have hidx : s.toNat / 2 ^ 24 < 256 := by omega
  have e1 : BitVec.ofNat 32 (s.toNat % 2 ^ 24) <<< 8 = s <<< 8 := by
    apply BitVec.eq_of_toNat_eq
    simp only [BitVec.toNat_shiftLeft, BitVec.toNat_ofNat, Nat.shiftLeft_eq]
    omega
  have e2 : (s >>> 24) <<< 24 = BitVec.ofNat 32 (s.toNat / 2 ^ 24) <<< 24 := by
    apply BitVec.eq_of_toNat_eq
    simp only [BitVec.toNat_shiftLeft, BitVec.toNat_ofNat, BitVec.toNat_ushiftRight, Nat.shiftLeft_eq, Nat.shiftRight_eq_div_pow]
    omega
  have hs : ZMn P 8 s = (s <<< 8) ^^^ T.getD (s.toNat / 2 ^ 24) 0#32 := by
    have hsplit := split_lo_hi 24 s
    conv => lhs; rw [hsplit]
    rw [ZMn_xor, ZMn_shift P 8 _ (by decide) (by rw [BitVec.toNat_ofNat]; omega), e1, e2, ← hT _ hidx]
  rw [hs]
  unfold bzStep
  rw [tableM_xor P T hT _ _ hidx hb]
  ac_rfl

theorem bzStep_eq_bits (s : BitVec 32) (b : UInt8) :
    bzStep tableBz s b = runBitsM PBz s (byteBitsMsb b) :=
  bzStep_eq_bits_gen PBz tableBz tableBz_ok tableBz_bits s b

theorem bzBlockCrc_eq_bitwise (m : Bytes) : bzBlockCrc m = ~~~ crcBitwiseM PBz 0xFFFFFFFF#32 m := by
  unfold bzBlockCrc crcBitwiseM
  congr 1
  generalize (0xFFFFFFFF#32) = s
  induction m generalizing s with
  | nil => rfl
  | cons b m ih =>
    simp only [List.foldl, bitsMsb]
    rw [ih, bzStep_eq_bits]
    clear ih
    generalize byteBitsMsb b = X
    induction X generalizing s with
    | nil => rfl
    | cons x X ih2 => simp only [List.cons_append, runBitsM]; rw [ih2]


end Xmp.Crc
