import XmpModel.Bzip2
/-!
# bzip2: the final run-length stage of `write_bunzip_data` inverts the encoder's first stage

`unrle1 c0 (rle1 p) = p` for every payload and every initial `writeCurrent`.
-/
namespace Xmp.Bzip2
open Xmp

/-- list view of the output loop started from an empty output buffer -/
def U (run cur : Int) (d : List UInt8) : List UInt8 := (unrleGo run cur #[] d).toList

theorem unrleGo_acc (run cur : Int) (acc : Array UInt8) (d : List UInt8) :
    (unrleGo run cur acc d).toList = acc.toList ++ U run cur d := by
  induction d generalizing run cur acc with
  | nil => simp [U, unrleGo]
  | cons b rest ih =>
    unfold U
    simp only [unrleGo]
    split
    · rw [ih, ih (acc := #[] ++ _)]; simp [List.append_assoc]
    · rw [ih, ih (acc := #[].push b)]; simp

theorem U_nil (run cur : Int) : U run cur [] = [] := by simp [U, unrleGo]

theorem U_cons_count (cur : Int) (b : UInt8) (rest : List UInt8) :
    U 3 cur (b :: rest) =
      List.replicate b.toNat (UInt8.ofNat (cur % 256).toNat) ++ U (if (-1 : Int) ≠ cur then 0 else 3 + 1) (-1) rest := by
  unfold U
  simp only [unrleGo]
  rw [if_pos (by decide)]
  rw [unrleGo_acc]
  simp [U]

theorem U_cons_lit (run cur : Int) (hr : run ≠ 3) (b : UInt8) (rest : List UInt8) :
    U run cur (b :: rest) = b :: U (if ((b.toNat : Nat) : Int) ≠ cur then 0 else run + 1) (b.toNat : Int) rest := by
  unfold U
  simp only [unrleGo]
  rw [if_neg (by simpa [Gen.runTrigger] using hr)]
  rw [unrleGo_acc]
  simp [U]

/-- `k` more copies of the byte the loop is sitting on, while the run counter stays ≤ 3 -/
theorem U_same (b : UInt8) (rest : List UInt8) : ∀ (k : Nat) (j : Int), 0 ≤ j → j + k ≤ 3 →
    U j (b.toNat : Int) (List.replicate k b ++ rest) = List.replicate k b ++ U (j + k) (b.toNat : Int) rest
  | 0, j, _, _ => by simp
  | k + 1, j, h0, h3 => by
    rw [List.replicate_succ, List.cons_append, U_cons_lit j _ (by omega)]
    rw [if_neg (by simp)]
    rw [U_same b rest k (j + 1) (by omega) (by omega)]
    have e : j + 1 + (k : Int) = j + ((k + 1 : Nat) : Int) := by omega
    rw [e]; rfl

/-- state of the output loop at the start of an encoder run of byte `b` -/
def Fresh (run cur : Int) (b : UInt8) : Prop :=
  (run = 0 ∧ cur = -1) ∨ (0 ≤ run ∧ run ≤ 2 ∧ cur ≠ (b.toNat : Int)) ∨ run = -1

theorem U_first (run cur : Int) (b : UInt8) (h : Fresh run cur b) (rest : List UInt8) :
    U run cur (b :: rest) = b :: U 0 (b.toNat : Int) rest := by
  rw [U_cons_lit run cur (by rcases h with h | h | h <;> omega)]
  congr 2
  rcases h with ⟨_, h⟩ | ⟨_, _, h⟩ | h
  · rw [if_pos (by omega)]
  · rw [if_pos (fun e => h e.symm)]
  · split <;> omega

theorem ofNat_toNat_mod (b : UInt8) : UInt8.ofNat (((b.toNat : Int) % 256).toNat) = b := by
  have : b.toNat < 256 := b.toNat_lt
  have h : ((b.toNat : Int) % 256).toNat = b.toNat := by omega
  rw [h]; exact UInt8.ofNat_toNat

/-- one encoder run `rleRun b n` (1 ≤ n ≤ 255) is expanded to `n` copies; the state afterwards -/
theorem U_run (run cur : Int) (b : UInt8) (n : Nat) (h1 : 1 ≤ n) (h255 : n ≤ 255) (hf : Fresh run cur b)
    (rest : List UInt8) :
    U run cur (rleRun b n ++ rest) =
      List.replicate n b ++ (if n ≥ 4 then U 0 (-1) rest else U ((n : Int) - 1) (b.toNat : Int) rest) := by
  unfold rleRun
  split
  · rename_i h4
    show U run cur (b :: ([b, b, b] ++ (UInt8.ofNat (n - 4) :: rest))) = _
    rw [U_first run cur b hf]
    have := U_same b (UInt8.ofNat (n - 4) :: rest) 3 0 (by omega) (by omega)
    simp only [List.replicate] at this
    rw [show ([b, b, b] : List UInt8) = [b, b, b] from rfl, this]
    rw [show ((0 : Int) + ((3 : Nat) : Int)) = 3 from rfl, U_cons_count]
    rw [ofNat_toNat_mod]
    have hb : (UInt8.ofNat (n - 4)).toNat = n - 4 := by
      simp only [UInt8.toNat_ofNat']; omega
    rw [hb, if_pos (by have := b.toNat_lt; omega)]
    have : n = 4 + (n - 4) := by omega
    conv => rhs; rw [this, ← List.replicate_append_replicate]
    simp [List.replicate]
  · rename_i h4
    obtain ⟨m, rfl⟩ : ∃ m, n = m + 1 := ⟨n - 1, by omega⟩
    rw [List.replicate_succ, List.cons_append, U_first run cur b hf]
    rw [U_same b rest m 0 (by omega) (by omega)]
    have e : (0 : Int) + (m : Int) = ((m + 1 : Nat) : Int) - 1 := by omega
    rw [e]; rfl

theorem toNat_int_ne {a b : UInt8} (h : a ≠ b) : (b.toNat : Int) ≠ (a.toNat : Int) := by
  intro e
  apply h
  have : a.toNat = b.toNat := by omega
  exact UInt8.toNat_inj.mp this

/-- the encoder's run scanner, decoded -/
theorem U_rle1Go : ∀ (rest : Bytes) (cur : UInt8) (n : Nat) (run c : Int), 1 ≤ n → n ≤ 255 → Fresh run c cur →
    U run c (rle1Go cur n rest) = List.replicate n cur ++ rest
  | [], cur, n, run, c, h1, h255, hf => by
    have := U_run run c cur n h1 h255 hf []
    simp only [List.append_nil, U_nil, ite_self] at this
    simpa [rle1Go] using this
  | b :: rest, cur, n, run, c, h1, h255, hf => by
    unfold rle1Go
    split
    · rename_i h
      rw [U_rle1Go rest cur (n + 1) run c (by omega) (by omega) hf, h.1]
      rw [List.replicate_succ', List.append_assoc]; rfl
    · rename_i h
      rw [U_run run c cur n h1 h255 hf]
      have hfresh : Fresh (if n ≥ 4 then 0 else (n : Int) - 1) (if n ≥ 4 then -1 else (cur.toNat : Int)) b := by
        by_cases h4 : n ≥ 4
        · simp only [h4, if_true]; exact Or.inl ⟨rfl, rfl⟩
        · simp only [h4, if_false]
          refine Or.inr (Or.inl ⟨by omega, by omega, ?_⟩)
          have hne : b ≠ cur := fun e => h ⟨e, by omega⟩
          exact toNat_int_ne hne
      by_cases h4 : n ≥ 4
      · simp only [h4, if_true] at hfresh ⊢
        rw [U_rle1Go rest b 1 _ _ (by omega) (by omega) hfresh]; rfl
      · simp only [h4, if_false] at hfresh ⊢
        rw [U_rle1Go rest b 1 _ _ (by omega) (by omega) hfresh]; rfl

/-- **(a)** the final run-length stage of `write_bunzip_data` inverts `rle1`, whatever `writeCurrent` holds
    initially (the run counter starts at `Gen.writeRunInit = -1`) -/
theorem unrle1_rle1 (c0 : Int) (p : Bytes) : (unrle1 c0 (rle1 p)).toList = p := by
  cases p with
  | nil => simp [unrle1, rle1, unrleGo]
  | cons b rest =>
    show U Gen.writeRunInit c0 (rle1Go b 1 rest) = b :: rest
    rw [U_rle1Go rest b 1 Gen.writeRunInit c0 (by omega) (by omega) (Or.inr (Or.inr rfl))]; rfl

/-- size of the encoder's output: at most 5 bytes for every 4 of the input (+ the last short run) -/
theorem rleRun_length (b : UInt8) (n : Nat) (h1 : 1 ≤ n) : (rleRun b n).length ≤ n + 1 ∧ 4 * (rleRun b n).length ≤ 5 * n := by
  unfold rleRun; split <;> simp <;> omega

theorem rle1Go_length : ∀ (rest : Bytes) (cur : UInt8) (n : Nat), 1 ≤ n →
    4 * (rle1Go cur n rest).length ≤ 5 * (n + rest.length) ∧ 1 ≤ (rle1Go cur n rest).length
  | [], cur, n, h1 => by
    have := rleRun_length cur n h1
    simp only [rle1Go, List.length_nil, Nat.add_zero]
    refine ⟨this.2, ?_⟩
    unfold rleRun; split <;> simp <;> omega
  | b :: rest, cur, n, h1 => by
    unfold rle1Go
    split
    · have := rle1Go_length rest cur (n + 1) (by omega)
      simp only [List.length_cons]; omega
    · have h2 := rle1Go_length rest b 1 (by omega)
      have h3 := rleRun_length cur n h1
      simp only [List.length_append, List.length_cons]; omega

theorem rle1_length (p : Bytes) : 4 * (rle1 p).length ≤ 5 * p.length ∧ (p ≠ [] → 1 ≤ (rle1 p).length) := by
  cases p with
  | nil => simp [rle1]
  | cons b rest =>
    have := rle1Go_length rest b 1 (by omega)
    simp only [rle1, List.length_cons]
    exact ⟨by omega, fun _ => this.2⟩

end Xmp.Bzip2
