import XmpProofs.WorkBound
/-!
# MMCMP tables and RLE90: counts backed by bytes, output never above what was sized (C02)

The MMCMP block table and sub-block tables are read entry by entry from the file (`mmTable`, `mmSubs`: structural
loops over the declared 16-bit counts), so a successful read proves the bytes were there: `4·blocks` and
`8·sub-blocks` are at most the file size.  The output buffer is sized once from the header (`filesize ≤
LIBXMP_DEPACK_LIMIT`) and no block can change its length.  RLE90 (`arc_unrle90_block`) makes one step per input
byte and returns exactly the `dest_len` bytes the caller sized.
-/
namespace Xmp.Work
open Xmp Xmp.Container

theorem mmTable_len (f : Bytes) : ∀ n ofs l, mmTable f n ofs = some l →
    l.length = n ∧ (0 < n → ofs + 4 * n ≤ f.length) := by
  intro n
  induction n with
  | zero => intro ofs l h; simp [mmTable] at h; subst h; simp
  | succ k ih =>
    intro ofs l h
    simp only [mmTable] at h
    split at h
    · simp at h
    rename_i hlen
    simp only [Option.map_eq_some_iff] at h
    obtain ⟨r, hr, he⟩ := h
    subst he
    have := ih _ _ hr
    refine ⟨by simp [this.1], fun _ => ?_⟩
    cases k with
    | zero => omega
    | succ j => have := this.2 (by omega); omega

/-- sub-block table: `n` entries need `8·n` bytes of file, and their sizes come out of the budget
(`filesize` minus what earlier sub-blocks of all blocks used): sizes + budget left = budget given -/
theorem mmSubs_len (f : Bytes) : ∀ n ofs budget l b', mmSubs f n ofs budget = some (l, b') →
    l.length = n ∧ (0 < n → ofs + 8 * n ≤ f.length) ∧ (l.map (·.2)).sum + b' = budget := by
  intro n
  induction n with
  | zero =>
    intro ofs budget l b' h
    simp only [mmSubs, Option.some.injEq, Prod.mk.injEq] at h
    obtain ⟨h1, h2⟩ := h
    subst h1; subst h2; simp
  | succ k ih =>
    intro ofs budget l b' h
    simp only [mmSubs] at h
    split at h
    · simp at h
    rename_i hlen
    split at h
    · simp at h
    split at h
    · simp at h
    rename_i hb
    simp only [Option.map_eq_some_iff] at h
    obtain ⟨r, hr, he⟩ := h
    obtain ⟨rl, rb⟩ := r
    simp only [Prod.mk.injEq] at he
    obtain ⟨h1, h2⟩ := he
    subst h1; subst h2
    have := ih _ _ _ _ hr
    refine ⟨by simp [this.1], fun _ => ?_, ?_⟩
    · cases k with
      | zero => omega
      | succ j => have := this.2.1 (by omega); omega
    · simp only [List.map_cons, List.sum_cons]
      have := this.2.2
      omega

theorem mmWriteAt_len (out : Bytes) (pos : Nat) (d : Bytes) (h : pos + d.length ≤ out.length) :
    (mmWriteAt out pos d).length = out.length := by
  simp only [mmWriteAt, List.length_append, List.length_take, List.length_drop]
  omega

theorem mmBlockCopy_len : ∀ (subs : List (Nat × Nat)) (s out out' : Bytes),
    mmBlockCopy subs s out = some out' → out'.length = out.length := by
  intro subs
  induction subs with
  | nil => intro s out out' h; simp [mmBlockCopy] at h; subst h; rfl
  | cons ps rest ih =>
    intro s out out' h
    obtain ⟨pos, size⟩ := ps
    simp only [mmBlockCopy] at h
    split at h
    · simp at h
    rename_i h1
    split at h
    · simp at h
    rename_i h2
    have := ih _ _ _ h
    rw [this]
    apply mmWriteAt_len
    simp only [List.length_take]
    omega

/-- no block changes the length of the output buffer (for any decoder of the compressed blocks that writes in place) -/
theorem mmBlocks_len (dec : Nat → Nat → Nat → List (Nat × Nat) → Bytes → Bytes → Option Bytes) (f : Bytes)
    (hdec : ∀ a b c subs s out out', dec a b c subs s out = some out' → out'.length = out.length) :
    ∀ (tbl : List Nat) (budget : Nat) (out out' : Bytes), mmBlocks dec f tbl budget out = some out' → out'.length = out.length := by
  intro tbl
  induction tbl with
  | nil => intro budget out out' h; simp [mmBlocks] at h; subst h; rfl
  | cons bo rest ih =>
    intro budget out out' h
    simp only [mmBlocks] at h
    repeat' split at h
    all_goals (try (simp at h; done))
    all_goals (rename_i o1 ho; have := ih _ _ _ h; rw [this])
    all_goals (first | exact mmBlockCopy_len _ _ _ _ ho | exact hdec _ _ _ _ _ _ _ ho | skip)
    all_goals
      (split at ho
       · exact mmBlockCopy_len _ _ _ _ ho
       · exact hdec _ _ _ _ _ _ _ ho)

/-- **MMCMP bounds**: an accepted file has its block table inside the file (`4·blocks` bytes), and the output has
exactly the declared `filesize`, between 16 and `LIBXMP_DEPACK_LIMIT` bytes -/
theorem decrunchMmcmp_out (dec : Nat → Nat → Nat → List (Nat × Nat) → Bytes → Bytes → Option Bytes) (f out : Bytes)
    (hdec : ∀ a b c subs s o o', dec a b c subs s o = some o' → o'.length = o.length)
    (h : decrunchMmcmp dec f = some out) :
    out.length = u32At f 14 ∧ 16 ≤ out.length ∧ out.length ≤ depackLimit ∧
      u32At f 18 + 4 * u16At f 12 ≤ f.length ∧ 1 ≤ u16At f 12 := by
  unfold decrunchMmcmp at h
  dsimp only at h
  repeat' split at h
  all_goals (try (simp at h; done))
  rename_i hc _ tbl htbl
  have hl := mmBlocks_len dec f hdec _ _ _ _ h
  simp only [List.length_replicate] at hl
  have ht := mmTable_len f _ _ _ htbl
  simp only [not_or, Nat.not_lt] at hc
  refine ⟨hl, by omega, by omega, ?_, by omega⟩
  exact ht.2 (by omega)

/-! ## RLE90 -/

theorem unrle90Go_len : ∀ (src : Bytes) (room : Nat) (acc : Bytes) (last : UInt8) (inRle blk : Bool) (room' : Nat) (acc' : Bytes),
    unrle90Go src room acc last inRle blk = some (room', acc') → room' + acc'.length = room + acc.length := by
  intro src
  induction src with
  | nil =>
    intro room acc last inRle blk room' acc' h
    simp only [unrle90Go, Option.some.injEq, Prod.mk.injEq] at h
    obtain ⟨h1, h2⟩ := h
    subst h1; subst h2; rfl
  | cons b rest ih =>
    intro room acc last inRle blk room' acc' h
    cases inRle with
    | true =>
      simp only [unrle90Go] at h
      repeat' split at h
      all_goals (try (simp at h; done))
      all_goals (have := ih _ _ _ _ _ _ _ h; simp only [List.length_cons, List.length_append, List.length_replicate] at this; omega)
    | false =>
      simp only [unrle90Go] at h
      repeat' split at h
      all_goals (try (simp at h; done))
      all_goals first
        | (have := ih _ _ _ _ _ _ _ h; simp only [List.length_cons] at this; omega)
        | (have := ih _ _ _ _ _ _ _ h; omega)
        | (simp only [Option.some.injEq, Prod.mk.injEq] at h; obtain ⟨h1, h2⟩ := h; subst h1; subst h2; rfl)

/-- **RLE90 output**: `arc_unpack(…, ARC_M_PACKED)` returns exactly the `dest_len` bytes its caller sized (one
step per input byte: the model recurses on the input list) — a run length cannot push the output past the buffer -/
theorem unrle90_len (destLen : Nat) (src out : Bytes) (h : unrle90 destLen src = some out) : out.length = destLen := by
  unfold unrle90 at h
  split at h
  · rename_i acc hg
    simp only [Option.some.injEq] at h
    subst h
    have := unrle90Go_len _ _ _ _ _ _ _ _ hg
    simp only [List.length_reverse, List.length_nil] at this ⊢
    omega
  · simp at h

end Xmp.Work
