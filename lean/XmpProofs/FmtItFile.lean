import XmpProofs.FmtItPat
import XmpProofs.FmtItSex
import XmpProofs.FmtS3mFile
/-!
# Whole-file round trip of the IT codec, sample mode (`Xmp.Fmt.It.read (write s o) = some s`)

The file is `header · orders · sample-header offsets · pattern offsets · IMPS headers · pattern blobs ·
sample blobs`; the reader follows 32-bit file offsets.  Pattern data: `unpackData_pack` (FmtItPat), compressed
samples: `Sex.decompress_compress` (FmtItSex), plain samples: `S3m.loadPcm_storePcm`.
-/
namespace Xmp.Fmt.It
open Xmp Xmp.Fmt

/-! ## sample header codec -/

theorem decSmpHdr_parts (F N T : Bytes) (hF : F.length = 20) (hN : N.length = 25) :
    decSmpHdr (F ++ (N ++ T)) =
      { magic := F.take 4, flags := (F.getD 18 0).toNat, vol := (F.getD 19 0).toNat, name := N ++ T.take 1,
        cvt := (T.getD 1 0).toNat, dfp := (T.getD 2 0).toNat, len := rd32le ((T.drop 3).take 4),
        lps := rd32le ((T.drop 7).take 4), lpe := rd32le ((T.drop 11).take 4), sus := rd32le ((T.drop 19).take 4),
        sue := rd32le ((T.drop 23).take 4), ptr := rd32le ((T.drop 27).take 4) } := by
  have d (k : Nat) : (F ++ (N ++ T)).drop (45 + k) = T.drop k := by
    rw [show 45 + k = 20 + (25 + k) by omega, drop_add_left hF, drop_add_left hN]
  have g (k : Nat) (hk : k < 20) : (F ++ (N ++ T)).getD k 0 = F.getD k 0 := by
    rw [List.getD_eq_getElem?_getD, List.getD_eq_getElem?_getD, List.getElem?_append_left (by omega)]
  have g2 (k : Nat) : (F ++ (N ++ T)).getD (45 + k) 0 = T.getD k 0 := by
    rw [List.getD_eq_getElem?_getD, List.getD_eq_getElem?_getD, List.getElem?_append_right (by omega),
      List.getElem?_append_right (by omega)]
    congr 2; omega
  unfold decSmpHdr
  rw [show (48 : Nat) = 45 + 3 by rfl, show (52 : Nat) = 45 + 7 by rfl, show (56 : Nat) = 45 + 11 by rfl,
    show (64 : Nat) = 45 + 19 by rfl, show (68 : Nat) = 45 + 23 by rfl, show (72 : Nat) = 45 + 27 by rfl,
    show (46 : Nat) = 45 + 1 by rfl, show (47 : Nat) = 45 + 2 by rfl,
    d, d, d, d, d, d, g2, g2, g 18 (by omega), g 19 (by omega)]
  congr 1
  · rw [List.take_append_of_le_length (by omega)]
  · rw [show (20 : Nat) = 20 + 0 by rfl, drop_add_left hF, List.drop_zero, List.take_append, hN]
    rw [List.take_of_length_le (by omega)]

def subOf (x : Ins) : Sub := x.subs.headD { sid := 0, vol := 0, pan := 0, xpo := 0, fin := 0 }

def flOfN (flg : Nat) (nz cmp : Bool) : Nat :=
  (if nz then 1 else 0) + (if flg &&& F16BIT ≠ 0 then 2 else 0) + (if flg &&& FSTEREO ≠ 0 then 4 else 0) +
  (if cmp then 8 else 0) +
  (if flg &&& FLOOP ≠ 0 then 0x10 else 0) + (if flg &&& FSLOOP ≠ 0 then 0x20 else 0) +
  (if flg &&& FBIDIR ≠ 0 then 0x40 else 0) + (if flg &&& FSBIDIR ≠ 0 then 0x80 else 0)

def flOf (m : Smp) (comp : Nat) : Nat := flOfN m.flg (decide (m.len ≠ 0)) (decide (comp ≠ 0 ∧ m.len > 1))
def cvtOf (m : Smp) (signed : Bool) (comp : Nat) : Nat := (if signed then 1 else 0) + (if comp = 2 ∧ m.len > 1 then 4 else 0)
def dfpOf (x : Ins) : Nat := 0x80 + (subOf x).pan.toNat / 4

theorem str_imps : str "IMPS" = [73, 77, 80, 83] := by decide +kernel

theorem encSmpHdrG_eq (name : Bytes) (vol dfp : Nat) (m : Smp) (signed : Bool) (comp c5 ptr : Nat) :
    encSmpHdrG name vol dfp m signed comp c5 ptr =
      [73, 77, 80, 83, 0, 0, 0, 0, 0, 0, 0, 0, 0, 0, 0, 0, 0, 64, u8 (flOf m comp), u8 vol] ++
      (padTo 25 name ++
        ([0, u8 (cvtOf m signed comp), u8 dfp] ++ le32 m.len ++ le32 m.lps ++ le32 m.lpe ++ le32 c5 ++ le32 m.sus ++
          le32 m.sue ++ le32 ptr ++ [0, 0, 0, 0])) := by
  simp [encSmpHdrG, str_imps, List.replicate, flOf, flOfN, cvtOf]

theorem encSmpHdr_eqG (x : Ins) (m : Smp) (signed : Bool) (comp c5 ptr : Nat) :
    encSmpHdr x m signed comp c5 ptr = encSmpHdrG x.name (subOf x).vol (dfpOf x) m signed comp c5 ptr := rfl

theorem encSmpHdrG_length (name : Bytes) (vol dfp : Nat) (m : Smp) (signed : Bool) (comp c5 ptr : Nat) :
    (encSmpHdrG name vol dfp m signed comp c5 ptr).length = 80 := by
  rw [encSmpHdrG_eq]; simp [le32, padTo_length]

theorem encSmpHdr_length (x : Ins) (m : Smp) (signed : Bool) (comp c5 ptr : Nat) :
    (encSmpHdr x m signed comp c5 ptr).length = 80 := encSmpHdrG_length _ _ _ _ _ _ _ _

theorem decSmpHdr_encG (name : Bytes) (vol dfp : Nat) (m : Smp) (signed : Bool) (comp c5 ptr : Nat) :
    decSmpHdr (encSmpHdrG name vol dfp m signed comp c5 ptr) =
      { magic := str "IMPS", flags := (u8 (flOf m comp)).toNat, vol := (u8 vol).toNat,
        name := padTo 25 name ++ [0], cvt := (u8 (cvtOf m signed comp)).toNat, dfp := (u8 dfp).toNat,
        len := rd32le (le32 m.len), lps := rd32le (le32 m.lps), lpe := rd32le (le32 m.lpe),
        sus := rd32le (le32 m.sus), sue := rd32le (le32 m.sue), ptr := rd32le (le32 ptr) } := by
  rw [encSmpHdrG_eq, decSmpHdr_parts _ _ _ rfl (padTo_length 25 name), str_imps]
  simp [le32]

/-! ## names -/

theorem dropWhile_replicate_append (k : Nat) (l : Bytes) :
    (List.replicate k (32 : UInt8) ++ l).dropWhile (· == 32) = l.dropWhile (· == 32) := by
  induction k with
  | zero => rfl
  | succ k ih => simp [List.replicate_succ, ih]

theorem stripTrail_append_blanks (b : Bytes) (k : Nat) : stripTrail (b ++ List.replicate k 32) = stripTrail b := by
  unfold stripTrail
  rw [List.reverse_append, List.reverse_replicate, dropWhile_replicate_append]

theorem copyAdjust_self {n : Nat} {b : Bytes} (h : NameOk n b) : copyAdjust n b = b := by
  unfold copyAdjust
  rw [List.take_of_length_le h.1, cstr_self h, map_print _ h.2.1, stripTrail_self h.2.2]

theorem map_zero_blank {b : Bytes} (h : ∀ c ∈ b, isPrintAscii c = true) :
    b.map (fun c => if c = 0 then (32 : UInt8) else c) = b := by
  induction b with
  | nil => rfl
  | cons x xs ih =>
    have hx : ¬ x = 0 := by
      intro hc; have := h x (by simp); subst hc; simp [isPrintAscii] at this
    simp only [List.map_cons, hx, if_false, ih (fun c hc => h c (by simp [hc]))]

theorem fixName_padTo {b : Bytes} (h : NameOk 25 b) : fixName (padTo 25 b ++ [0]) = b := by
  unfold fixName
  simp only
  rw [List.take_left' (padTo_length 25 b), padTo_eq h.1, List.map_append, map_zero_blank h.2.1, List.map_replicate]
  simp only [if_true]
  rw [stripTrail_append_blanks, stripTrail_self h.2.2, copyAdjust_self h, adjustString_self h]

/-! ## flags -/

def hdrFlgN (flags : Nat) : Nat :=
  (if flags / 2 % 2 = 1 then F16BIT else 0) + (if flags / 4 % 2 = 1 then FSTEREO else 0) +
  (if flags / 16 % 2 = 1 then FLOOP else 0) + (if flags / 64 % 2 = 1 then FBIDIR else 0) +
  (if flags / 32 % 2 = 1 then FSLOOP else 0) + (if flags / 128 % 2 = 1 then FSBIDIR else 0)

theorem hdrFlg_eq (h : SmpHdr) : hdrFlg h = hdrFlgN h.flags := rfl

theorem flag_facts (nz cmp : Bool) : ∀ flg < 256, flg &&& FSMASK = flg →
    flOfN flg nz cmp < 256 ∧ hdrFlgN (flOfN flg nz cmp) = flg ∧
    (flOfN flg nz cmp % 2 = 1 ↔ nz = true) ∧ (flOfN flg nz cmp / 8 % 2 = 1 ↔ cmp = true) ∧
    (flOfN flg nz cmp / 32 % 2 = 1 ↔ flg &&& FSLOOP ≠ 0) := by
  cases nz <;> cases cmp <;> decide +kernel

theorem flag_clear1 : ∀ flg < 256, flg &&& FSMASK = flg → flg &&& FLOOP = 0 → flg &&& (0xffff - FLOOP) = flg := by
  decide +kernel

theorem flag_clear2 : ∀ flg < 256, flg &&& FSMASK = flg → (flg &&& FBIDIR ≠ 0 → flg &&& FLOOP ≠ 0) → flg &&& FLOOP = 0 →
    flg &&& (0xffff - (FLOOP ||| FBIDIR)) = flg := by
  decide +kernel

theorem flag_clear3 : ∀ flg < 256, flg &&& FSMASK = flg → (flg &&& FSBIDIR ≠ 0 → flg &&& FSLOOP ≠ 0) → flg &&& FSLOOP = 0 →
    flg &&& (0xffff - (FSLOOP ||| FSBIDIR)) = flg := by
  decide +kernel

/-! ## one sample (both modes) -/

theorem subsOk_cases {i : Nat} {l : List Sub} (h : SubsOk i l) :
    ∃ sub, l = [sub] ∧ sub.sid = i ∧ sub.vol ≤ 64 ∧ 0 ≤ sub.pan ∧ sub.pan ≤ 256 ∧ sub.pan % 4 = 0 ∧
      sub.xpo = 0 ∧ sub.fin = 0 := by
  match l, h with
  | [sub], h => exact ⟨sub, rfl, h⟩

/-- the sample part of a sample-mode slot -/
theorem slot_smpOk {i : Nat} {x : Ins} {m : Smp} (h : SlotOk i x m) : SmpOk m := by
  obtain ⟨-, -, -, h1, h2, h3, h4, h5, h6, hcase⟩ := h
  refine ⟨h1, h2, h3, h4, h5, h6, ?_⟩
  by_cases hl : m.len = 0
  · rw [if_pos hl] at hcase ⊢; exact hcase.2
  · rw [if_neg hl] at hcase ⊢; exact hcase.2

theorem smp_flags {m : Smp} (h : SmpOk m) : m.flg < 256 ∧ m.flg &&& FSMASK = m.flg :=
  ⟨flagsOk_lt (by decide) h.1, h.1⟩

theorem smp_facts {m : Smp} (h : SmpOk m) :
    m.len ≤ 0x100000 ∧ m.lps ≤ m.len ∧ m.lpe ≤ m.len ∧ m.sus ≤ m.len ∧ m.sue ≤ m.len := by
  obtain ⟨-, -, -, hlen, -, -, hcase⟩ := h
  by_cases hl : m.len = 0
  · rw [if_pos hl] at hcase
    obtain ⟨-, h1, h2, h3, h4⟩ := hcase
    refine ⟨hlen, by omega, by omega, by omega, by omega⟩
  · rw [if_neg hl] at hcase
    obtain ⟨hloop, hsus⟩ := hcase
    refine ⟨hlen, ?_, ?_, ?_, ?_⟩
    · split at hloop <;> omega
    · split at hloop <;> omega
    · split at hsus <;> omega
    · split at hsus <;> omega

/-- the header the reader sees -/
theorem rawHdrG_norm {m : Smp} (h : SmpOk m) (name : Bytes) (vol dfp : Nat) (hv : vol < 256) (hd : dfp < 256)
    (signed : Bool) (comp c5 ptr : Nat) (hptr : ptr < 0x100000000) :
    decSmpHdr (encSmpHdrG name vol dfp m signed comp c5 ptr) =
      { magic := str "IMPS", flags := flOf m comp, vol := vol, name := padTo 25 name ++ [0],
        cvt := cvtOf m signed comp, dfp := dfp, len := m.len, lps := m.lps, lpe := m.lpe,
        sus := m.sus, sue := m.sue, ptr := ptr } := by
  obtain ⟨h1, h2, h3, h4, h5⟩ := smp_facts h
  obtain ⟨hf1, hf2⟩ := smp_flags h
  have hfl : flOf m comp < 256 := (flag_facts _ _ m.flg hf1 hf2).1
  have hcv : cvtOf m signed comp < 256 := by unfold cvtOf; split <;> split <;> omega
  rw [decSmpHdr_encG, rd32le_le32 (by omega), rd32le_le32 (by omega), rd32le_le32 (by omega), rd32le_le32 (by omega),
    rd32le_le32 (by omega), rd32le_le32 hptr, u8_toNat_lt hfl, u8_toNat_lt hv, u8_toNat_lt hcv, u8_toNat_lt hd]

/-- the stored bytes of one sample (`smpBlob` with the options spelled out) -/
def blobOf (m : Smp) (signed : Bool) (comp : Nat) (wsel : Nat → Nat) : Bytes :=
  let raw := S3m.storePcm (!signed) m.flg m.len m.pcm
  if comp ≠ 0 ∧ m.len > 1 then Sex.compress m.flg m.len (comp = 2) wsel raw else raw

theorem smpBlob_eq (o : Opts) (m : Smp) (i : Nat) : smpBlob o m i = blobOf m (o.signed i) (o.comp i) (o.wsel i) := rfl

theorem decompress_nil (flg len : Nat) (it215 : Bool) (h : 0 < len) : Sex.decompress flg len it215 [] = none := by
  have hl : ¬ len = 0 := by omega
  simp [Sex.decompress, Sex.decChan, hl]

theorem compress_ne_nil (flg len : Nat) (it215 : Bool) (wsel : Nat → Nat) (raw : Bytes)
    (hlen : raw.length = len * frameBytes flg) (h : 0 < len) : Sex.compress flg len it215 wsel raw ≠ [] := by
  intro he
  have := Sex.decompress_compress flg len it215 wsel raw [] hlen
  rw [he, List.append_nil, decompress_nil flg len it215 h] at this
  cases this

theorem susFix_smp {m : Smp} (h : SmpOk m) : susFix m = m := by
  obtain ⟨hf1, hf2⟩ := smp_flags h
  have hc3 := flag_clear3 m.flg hf1 hf2
  obtain ⟨-, -, hsb, -, -, -, hcase⟩ := h
  unfold susFix
  by_cases hl : m.len = 0
  · rw [if_pos hl] at hcase
    obtain ⟨h0, -, -, h3, h4⟩ := hcase
    have : m.sus ≥ m.len ∨ m.sus ≥ (if m.sue > m.len then m.len else m.sue) := by omega
    simp only [this, if_true]
    cases m; simp_all
  · rw [if_neg hl] at hcase
    obtain ⟨-, hsus⟩ := hcase
    by_cases hs : m.flg &&& FSLOOP ≠ 0
    · rw [if_pos hs] at hsus
      have a1 : ¬ (m.sue > m.len) := by omega
      have a2 : ¬ (m.sus ≥ m.len ∨ m.sus ≥ m.sue) := by omega
      simp only [a1, if_false, a2]
    · rw [if_neg hs] at hsus
      have : m.sus ≥ m.len ∨ m.sus ≥ (if m.sue > m.len then m.len else m.sue) := by
        right; split <;> omega
      simp only [this, if_true]
      have := hc3 hsb (by simpa using hs)
      cases m; simp_all

theorem loop_smp {m : Smp} (h : SmpOk m) (hl : m.len ≠ 0) :
    loopSanity m.len m.lps m.lpe (if m.lpe > m.len ∨ m.lps ≥ m.lpe then m.flg &&& (0xffff - FLOOP) else m.flg) =
      (m.lps, m.lpe, m.flg) := by
  obtain ⟨hf1, hf2⟩ := smp_flags h
  have c1 := flag_clear1 m.flg hf1 hf2
  have c2 := flag_clear2 m.flg hf1 hf2
  obtain ⟨-, hb, -, -, -, -, hcase⟩ := h
  rw [if_neg hl] at hcase
  obtain ⟨hloop, -⟩ := hcase
  by_cases hf : m.flg &&& FLOOP ≠ 0
  · rw [if_pos hf] at hloop
    rw [if_neg (by omega)]
    unfold loopSanity
    simp only [show ¬ (m.lpe > m.len) by omega, if_false, show ¬ (m.lps ≥ m.len ∨ m.lps ≥ m.lpe) by omega]
    have : ¬ (m.flg &&& FBIDIR ≠ 0 ∧ m.flg &&& FLOOP = 0) := fun hh => hf hh.2
    simp only [this, if_false]
  · rw [if_neg hf] at hloop
    have hf' : m.flg &&& FLOOP = 0 := by simpa using hf
    rw [if_pos (by omega), c1 hf']
    unfold loopSanity
    rw [hloop.1, hloop.2]
    simp only [show ¬ (0 > m.len) by omega, if_false, show (0 ≥ m.len ∨ 0 ≥ 0) by omega, if_true, c2 hb hf']

theorem sus_smp {m : Smp} (h : SmpOk m) :
    (if m.flg &&& FSLOOP ≠ 0 then (m.sus, m.sue) else (0, 0)) = (m.sus, m.sue) := by
  obtain ⟨-, -, -, -, -, -, hcase⟩ := h
  split
  · rfl
  · next hs =>
    by_cases hl : m.len = 0
    · rw [if_pos hl] at hcase
      rw [hcase.2.2.2.1, hcase.2.2.2.2]
    · rw [if_neg hl, if_neg hs] at hcase
      rw [hcase.2.1, hcase.2.2]

set_option maxHeartbeats 400000 in
/-- `load_it_sample` on the writer's header and data gives back the sample (without its name) -/
theorem loadSmpCore_ok {m : Smp} (h : SmpOk m) (hmn : m.name = []) (file : Bytes) (signed : Bool)
    (comp ptr : Nat) (wsel : Nat → Nat) (magic name : Bytes) (vol dfp : Nat)
    (hloc : m.len ≠ 0 → ∃ rest, file.drop ptr = blobOf m signed comp wsel ++ rest) :
    loadSmpCore file { magic := magic, flags := flOf m comp, vol := vol, name := name, cvt := cvtOf m signed comp,
                       dfp := dfp, len := m.len, lps := m.lps, lpe := m.lpe, sus := m.sus, sue := m.sue, ptr := ptr } =
      some m := by
  obtain ⟨hf1, hf2⟩ := smp_flags h
  have hff := flag_facts (decide (m.len ≠ 0)) (decide (comp ≠ 0 ∧ m.len > 1)) m.flg hf1 hf2
  have hflg : hdrFlgN (flOf m comp) = m.flg := hff.2.1
  have hnz : flOf m comp % 2 = 1 ↔ decide (m.len ≠ 0) = true := hff.2.2.1
  have hcmp : flOf m comp / 8 % 2 = 1 ↔ decide (comp ≠ 0 ∧ m.len > 1) = true := hff.2.2.2.1
  have hsl : flOf m comp / 32 % 2 = 1 ↔ m.flg &&& FSLOOP ≠ 0 := hff.2.2.2.2
  clear hff
  obtain ⟨b1, b2, b3, b4, b5⟩ := smp_facts h
  have hsus := sus_smp h
  have hsf := susFix_smp h
  have hlen1 : m.len ≠ 1 := h.2.2.2.2.1
  have hpcm : m.pcm.length = m.len * frameBytes m.flg := h.2.2.2.2.2.1
  have hsb : m.flg &&& FSBIDIR ≠ 0 → m.flg &&& FSLOOP ≠ 0 := h.2.2.1
  unfold loadSmpCore
  have a0 : ¬ (m.len ≥ 0x80000000 ∨ m.lps ≥ 0x80000000 ∨ m.lpe ≥ 0x80000000 ∨ m.sus ≥ 0x80000000 ∨ m.sue ≥ 0x80000000) := by
    omega
  simp only [if_false, a0, hdrFlg_eq, hflg]
  generalize flOf m comp = fl at *
  have hsl' : (fl / 32 % 2 = 1) = (m.flg &&& FSLOOP ≠ 0) := propext hsl
  simp only [hsl', hsus]
  by_cases hl : m.len = 0
  · have c : ¬ (fl % 2 = 1 ∧ m.len > 1) := by omega
    simp only [c, if_false]
    have hp : m.pcm = [] := List.eq_nil_of_length_eq_zero (by rw [hpcm, hl]; simp)
    have : ({ name := [], len := m.len, lps := m.lps, lpe := m.lpe, flg := m.flg, sus := m.sus, sue := m.sue, pcm := [] } : Smp) = m := by
      cases m; simp_all
    rw [this, hsf]
  · have hl2 : m.len > 1 := by omega
    have c : fl % 2 = 1 ∧ m.len > 1 :=
      ⟨hnz.2 (by simpa using hl), hl2⟩
    have c2 : ¬ (m.len > 0x10000000) := by omega
    have c3 : ¬ (cvtOf m signed comp = 0xff) := by unfold cvtOf; split <;> split <;> omega
    simp only [c, and_self, if_true, c2, c3, if_false, loop_smp h hl]
    have hflg3 : (if m.flg &&& FSBIDIR ≠ 0 ∧ m.flg &&& FSLOOP = 0 then m.flg &&& (0xffff - FSBIDIR) else m.flg) = m.flg := by
      rw [if_neg]; intro hh; exact hsb hh.1 hh.2
    simp only [hflg3]
    have hcv : decide (cvtOf m signed comp % 2 = 0) = !signed := by
      unfold cvtOf; cases signed <;> simp <;> split <;> omega
    obtain ⟨rest, hr⟩ := hloc hl
    have hS := S3m.storePcm_length (!signed) m.flg m.len m.pcm hpcm
    have hfin : ∀ raw, S3m.loadPcm (decide (cvtOf m signed comp % 2 = 0)) m.flg m.len raw = m.pcm →
        susFix { name := [], len := m.len, lps := m.lps, lpe := m.lpe, flg := m.flg, sus := m.sus, sue := m.sue,
                 pcm := S3m.loadPcm (decide (cvtOf m signed comp % 2 = 0)) m.flg m.len raw } = m := by
      intro raw hraw
      rw [hraw]
      have : ({ name := [], len := m.len, lps := m.lps, lpe := m.lpe, flg := m.flg, sus := m.sus, sue := m.sue, pcm := m.pcm } : Smp) = m := by
        cases m; simp_all
      rw [this, hsf]
    by_cases hc : comp ≠ 0 ∧ m.len > 1
    · have c4 : fl / 8 % 2 = 1 := hcmp.2 (by simpa using hc)
      have hblob : blobOf m signed comp wsel = Sex.compress m.flg m.len (comp = 2) wsel (S3m.storePcm (!signed) m.flg m.len m.pcm) := by
        unfold blobOf; simp only; rw [if_pos hc]
      rw [hblob] at hr
      have hge := Sex.compress_length_ge m.flg m.len (decide (comp = 2)) wsel _ (hS.trans hpcm)
      have hne := compress_ne_nil m.flg m.len (decide (comp = 2)) wsel _ (hS.trans hpcm) (by omega)
      have hpos : 0 < (Sex.compress m.flg m.len (decide (comp = 2)) wsel (S3m.storePcm (!signed) m.flg m.len m.pcm)).length :=
        List.length_pos_iff.2 hne
      have hfl := congrArg List.length hr
      rw [List.length_drop, List.length_append] at hfl
      have c5' : ¬ (ptr ≥ file.length ∨ file.length - ptr < m.len * (if m.flg &&& FSTEREO ≠ 0 then 2 else 1) / 8) := by omega
      have h215 : decide (cvtOf m signed comp / 4 % 2 = 1) = decide (comp = 2) := by
        unfold cvtOf
        by_cases h2 : comp = 2
        · simp only [h2, true_and, hl2, if_true]; cases signed <;> simp
        · simp only [h2, false_and, if_false]; cases signed <;> simp
      simp only [c4, if_true, c5', if_false, h215, hr]
      rw [Sex.decompress_compress m.flg m.len (decide (comp = 2)) wsel _ rest (hS.trans hpcm)]
      simp only
      rw [hfin _ (by rw [hcv]; exact S3m.loadPcm_storePcm _ _ _ _ hpcm)]
    · have c4 : ¬ (fl / 8 % 2 = 1) := by
        intro hh; exact hc (by simpa using hcmp.1 hh)
      have hblob : blobOf m signed comp wsel = S3m.storePcm (!signed) m.flg m.len m.pcm := by
        unfold blobOf; simp only; rw [if_neg hc]
      rw [hblob] at hr
      have hpos : 0 < m.len * frameBytes m.flg := Nat.mul_pos (by omega) (S3m.frameBytes_pos _)
      have hfl := congrArg List.length hr
      rw [List.length_drop, List.length_append, hS, hpcm] at hfl
      have c5' : ¬ (ptr + m.len * frameBytes m.flg > file.length) := by omega
      have htake : (file.drop ptr).take (m.len * frameBytes m.flg) = S3m.storePcm (!signed) m.flg m.len m.pcm := by
        rw [hr, List.take_left' (by rw [hS, hpcm])]
      simp only [c4, if_false, c5', htake]
      rw [hfin _ (by rw [hcv]; exact S3m.loadPcm_storePcm _ _ _ _ hpcm)]

/-! ## sample mode: one slot -/

theorem slot_sub_facts {i : Nat} {x : Ins} {m : Smp} (h : SlotOk i x m) :
    (subOf x).vol ≤ 64 ∧ 0x80 ≤ dfpOf x ∧ dfpOf x ≤ 0xc0 := by
  obtain ⟨-, -, -, -, -, -, -, -, -, hcase⟩ := h
  by_cases hl : m.len = 0
  · rw [if_pos hl] at hcase
    simp only [subOf, dfpOf, hcase.1, List.headD_nil]
    exact ⟨by omega, by decide, by decide⟩
  · rw [if_neg hl] at hcase
    obtain ⟨sub, hsub, -, hv, hp0, hp1, -, -, -⟩ := subsOk_cases hcase.1
    simp only [subOf, dfpOf, hsub, List.headD_cons]
    exact ⟨hv, by omega, by omega⟩

theorem ins_slot {i : Nat} {x : Ins} {m : Smp} (h : SlotOk i x m) (magic : Bytes) (flags cvt lps lpe sus sue ptr : Nat) :
    smpModeIns i { magic := magic, flags := flags, vol := (subOf x).vol, name := padTo 25 x.name ++ [0], cvt := cvt,
                   dfp := dfpOf x, len := m.len, lps := lps, lpe := lpe, sus := sus, sue := sue, ptr := ptr } = x := by
  unfold smpModeIns
  obtain ⟨hname, hkm, -, -, -, -, -, -, -, hcase⟩ := h
  simp only
  rw [fixName_padTo hname]
  cases x with
  | mk name subs keymap =>
  simp only at hkm hcase
  subst hkm
  by_cases hl : m.len = 0
  · rw [if_pos hl] at hcase
    simp [hl, hcase.1]
  · rw [if_neg hl] at hcase
    obtain ⟨sub, rfl, h1, h2, h3, h4, h5, h6, h7⟩ := subsOk_cases hcase.1
    cases sub with
    | mk sid vol pan xpo fin =>
    simp only at h1 h2 h3 h4 h5 h6 h7
    subst h1 h6 h7
    have hd : dfpOf { name := name, subs := [{ sid := sid, vol := vol, pan := pan, xpo := 0, fin := 0 }] } = 0x80 + pan.toNat / 4 := rfl
    have hv : (subOf { name := name, subs := [{ sid := sid, vol := vol, pan := pan, xpo := 0, fin := 0 }] }).vol = vol := rfl
    simp only [ne_eq, hl, not_false_eq_true, if_true, hv]
    generalize dfpOf _ = d at hd ⊢
    subst hd
    rw [if_pos (by omega)]
    have e : (((0x80 + pan.toNat / 4) % 128 * 4 : Nat) : Int) = pan := by omega
    rw [e]

theorem loadSmp_slot {i : Nat} {x : Ins} {m : Smp} (h : SlotOk i x m) (file : Bytes) (signed : Bool)
    (comp c5 ptr : Nat) (wsel : Nat → Nat) (hptr : ptr < 0x100000000)
    (hloc : m.len ≠ 0 → ∃ rest, file.drop ptr = blobOf m signed comp wsel ++ rest) :
    loadSmp file i (encSmpHdr x m signed comp c5 ptr) = some (x, m) := by
  obtain ⟨hv, hd1, hd2⟩ := slot_sub_facts h
  unfold loadSmp
  rw [encSmpHdr_eqG, rawHdrG_norm (slot_smpOk h) _ _ _ (by omega) (by omega) signed comp c5 ptr hptr]
  simp only [ne_eq, not_true_eq_false, if_false]
  rw [loadSmpCore_ok (slot_smpOk h) h.2.2.1 file signed comp ptr wsel _ _ _ _ hloc, ins_slot h]
  rfl

/-! ## all slots -/

/-- offsets of consecutive 80-byte headers -/
def hdrOffs (b : Nat) : Nat → List Nat
  | 0 => []
  | n + 1 => b :: hdrOffs (b + 80) n

theorem hdrOffs_eq (b n : Nat) : (List.range n).map (fun i => b + 80 * i) = hdrOffs b n := by
  induction n generalizing b with
  | zero => rfl
  | succ n ih =>
    rw [List.range_succ_eq_map, List.map_cons, List.map_map, hdrOffs, ← ih (b + 80)]
    congr 1
    apply List.map_congr_left
    intro k _
    simp only [Function.comp]; omega

theorem hdrOffs_length (b n : Nat) : (hdrOffs b n).length = n := by
  induction n generalizing b with
  | zero => rfl
  | succ n ih => simp [hdrOffs, ih]

theorem hdrOffs_lt (b n : Nat) : ∀ p ∈ hdrOffs b n, p < b + 80 * n := by
  induction n generalizing b with
  | zero => simp [hdrOffs]
  | succ n ih =>
    intro p hp
    simp only [hdrOffs, List.mem_cons] at hp
    rcases hp with rfl | hp
    · omega
    · have := ih (b + 80) p hp; omega

/-- where the sample bodies are in `file` -/
def Located (file : Bytes) (o : Opts) : List Smp → List Nat → Nat → Prop
  | m :: ms, off :: offs, i =>
    (m.len ≠ 0 → ∃ rest, file.drop off = smpBlob o m i ++ rest) ∧ off < 0x100000000 ∧ Located file o ms offs (i + 1)
  | [], [], _ => True
  | _, _, _ => False

theorem located_blobs (o : Opts) (file : Bytes) (hfl : file.length < 0x100000000) (ms : List Smp) (i base : Nat)
    (pre post : Bytes) (hpre : pre.length = base) (hfile : file = pre ++ ((smpBlobs o ms i).flatten ++ post)) :
    Located file o ms (offsets base (smpBlobs o ms i)) i := by
  induction ms generalizing i base pre with
  | nil => simp [smpBlobs, offsets, Located]
  | cons m ms ih =>
    simp only [smpBlobs, offsets, Located]
    simp only [smpBlobs, List.flatten_cons, List.append_assoc] at hfile
    refine ⟨fun _ => ⟨(smpBlobs o ms (i + 1)).flatten ++ post, ?_⟩, ?_, ?_⟩
    · rw [hfile, List.drop_left' hpre]
    · have := congrArg List.length hfile
      rw [List.length_append] at this
      omega
    · exact ih (i + 1) (base + (smpBlob o m i).length) (pre ++ smpBlob o m i)
        (by rw [List.length_append, hpre]) (by rw [hfile, List.append_assoc])

theorem slotsOk_cons {i : Nat} {x : Ins} {xs : List Ins} {m : Smp} {ms : List Smp} :
    SlotsOk i (x :: xs) (m :: ms) ↔ SlotOk i x m ∧ SlotsOk (i + 1) xs ms := by
  simp [SlotsOk]

theorem slotsOk_length {i : Nat} {xs : List Ins} {ms : List Smp} (h : SlotsOk i xs ms) :
    xs.length = ms.length := by
  induction xs generalizing i ms with
  | nil => cases ms with
    | nil => rfl
    | cons m ms => simp [SlotsOk] at h
  | cons x xs ih => cases ms with
    | nil => simp [SlotsOk] at h
    | cons m ms => simp [ih (slotsOk_cons.1 h).2]

theorem readSmps_rt (o : Opts) (file : Bytes) (xs : List Ins) (ms : List Smp) (offs : List Nat) (i b : Nat)
    (pre post : Bytes) (hpre : pre.length = b) (hs : SlotsOk i xs ms) (hloc : Located file o ms offs i)
    (hfile : file = pre ++ (encSmpHdrs o xs ms offs i ++ post)) :
    readSmps file (hdrOffs b xs.length) i = some (xs.zip ms) := by
  induction xs generalizing ms offs i b pre with
  | nil => simp [hdrOffs, readSmps]
  | cons x xs ih =>
    cases ms with
    | nil => simp [SlotsOk] at hs
    | cons m ms =>
    cases offs with
    | nil => simp [Located] at hloc
    | cons off offs =>
    obtain ⟨hs1, hs2⟩ := slotsOk_cons.1 hs
    obtain ⟨hl1, hl2, hl3⟩ := hloc
    simp only [encSmpHdrs, List.append_assoc] at hfile
    have hb : (file.drop b).take 80 = encSmpHdr x m (o.signed i) (o.comp i) (o.c5spd i) off := by
      rw [hfile, List.drop_left' hpre, List.take_left' (encSmpHdr_length _ _ _ _ _ _)]
    simp only [List.length_cons, hdrOffs]
    conv => lhs; unfold readSmps
    simp only [hb, encSmpHdr_length, Nat.lt_irrefl, if_false]
    rw [loadSmp_slot hs1 file (o.signed i) (o.comp i) (o.c5spd i) off (o.wsel i) hl2
      (by intro hl; rw [← smpBlob_eq]; exact hl1 hl)]
    simp only
    rw [ih ms offs (i + 1) (b + 80) (pre ++ encSmpHdr x m (o.signed i) (o.comp i) (o.c5spd i) off)
      (by rw [List.length_append, hpre, encSmpHdr_length]) hs2 hl3 (by rw [hfile, List.append_assoc])]
    simp

/-! ## patterns -/

/-- first pass of `it_load` on one pattern offset -/
def rdBlock (bs : Bytes) (pp : Nat) : Option (Option (Nat × Bytes)) :=
  if pp = 0 then some none
  else match patBlock bs pp with
    | none => none
    | some (rows, d) => if rows = 0 then none else some (if rows > 1024 then none else some (rows, d))

/-- what the first pass finds for pattern `p` -/
def blockOf (chn : Nat) (o : Opts) (p : Pat) (pi ci : Nat) : Option (Nat × Bytes) :=
  if pi ≠ 0 ∧ o.nullEmpty ∧ isEmptyPat p ∧ p.rows = 64 then none
  else some (p.rows, pack chn p (patOpt chn o pi ci) ci)

def blocksOf (chn : Nat) (o : Opts) : List Pat → Nat → Nat → List (Option (Nat × Bytes))
  | [], _, _ => []
  | p :: ps, pi, ci => blockOf chn o p pi ci :: blocksOf chn o ps (pi + 1) (ci + p.cells.length)

theorem patBlock_blob (file : Bytes) (pp rows : Nat) (d tail : Bytes) (hr : rows < 65536) (hd : d.length < 65536)
    (hf : file.drop pp = le16 d.length ++ le16 rows ++ [0, 0, 0, 0] ++ d ++ tail) :
    patBlock file pp = some (rows, d) := by
  have l8 : (le16 d.length ++ le16 rows ++ [0, 0, 0, 0]).length = 8 := rfl
  have h8 : (file.drop pp).take 8 = le16 d.length ++ le16 rows ++ [0, 0, 0, 0] := by
    rw [hf, List.append_assoc, List.take_left' l8]
  have hd8 : file.drop (pp + 8) = d ++ tail := by
    rw [← List.drop_drop, hf, List.append_assoc, List.drop_left' l8]
  unfold patBlock
  simp only [h8, hd8]
  have e1 : rd16le ((le16 d.length ++ le16 rows ++ [0, 0, 0, 0]).take 2) = d.length := by
    rw [List.append_assoc, List.take_left' (le16_length _), rd16le_le16 hd]
  have e2 : rd16le (((le16 d.length ++ le16 rows ++ [0, 0, 0, 0]).drop 2).take 2) = rows := by
    rw [List.append_assoc, List.drop_left' (le16_length _), List.take_left' (le16_length _), rd16le_le16 hr]
  rw [e1, e2, List.take_left' rfl]
  simp [le16]

theorem blocks_rt (chn : Nat) (o : Opts) (file : Bytes) (ps : List Pat)
    (hps : ∀ p ∈ ps, PatOk chn p ∧ p.rows * (7 * chn + 1) ≤ 65535) (pi ci base : Nat) (hbase : 1 ≤ base) (pre post : Bytes)
    (hpre : pre.length = base) (hfile : file = pre ++ ((patBlobs chn o ps pi ci).flatten ++ post)) :
    (patOffsOf base (patBlobs chn o ps pi ci)).mapM (rdBlock file) = some (blocksOf chn o ps pi ci) := by
  induction ps generalizing pi ci base pre with
  | nil => simp [patBlobs, patOffsOf, blocksOf]
  | cons p ps ih =>
    obtain ⟨hp, hsz⟩ := hps p (by simp)
    simp only [patBlobs, List.flatten_cons, List.append_assoc] at hfile
    have ih' := ih (fun q hq => hps q (by simp [hq])) (pi + 1) (ci + p.cells.length) (base + (patBlob chn o p pi ci).length)
      (by omega) (pre ++ patBlob chn o p pi ci) (by rw [List.length_append, hpre])
      (by rw [hfile, List.append_assoc])
    simp only [patBlobs, patOffsOf, blocksOf, List.mapM_cons, ih']
    by_cases he : pi ≠ 0 ∧ o.nullEmpty ∧ isEmptyPat p ∧ p.rows = 64
    · have hb : patBlob chn o p pi ci = [] := by unfold patBlob; rw [if_pos he]
      have hbk : blockOf chn o p pi ci = none := by unfold blockOf; rw [if_pos he]
      simp [hb, hbk, rdBlock]
    · have hb : patBlob chn o p pi ci = le16 (pack chn p (patOpt chn o pi ci) ci).length ++ le16 p.rows ++ [0, 0, 0, 0] ++
          pack chn p (patOpt chn o pi ci) ci := by unfold patBlob; rw [if_neg he]
      have hbk : blockOf chn o p pi ci = some (p.rows, pack chn p (patOpt chn o pi ci) ci) := by
        unfold blockOf; rw [if_neg he]
      have hne : (patBlob chn o p pi ci).isEmpty = false := by rw [hb]; simp [le16]
      have hb0 : ¬ base = 0 := by omega
      have hpl := pack_length_le chn p (patOpt chn o pi ci) ci
      have hrows : p.rows < 65536 := by have := hp.2.1; omega
      have hr0 : ¬ p.rows = 0 := by have := hp.1; omega
      have hr1 : ¬ p.rows > 1024 := by have := hp.2.1; omega
      have hpb := patBlock_blob file base p.rows (pack chn p (patOpt chn o pi ci) ci)
        ((patBlobs chn o ps (pi + 1) (ci + p.cells.length)).flatten ++ post) hrows (by omega)
        (by rw [hfile, List.drop_left' hpre, hb])
      simp [hne, rdBlock, hb0, hpb, hr0, hr1, hbk]

/-- second pass: the pattern made from one block -/
def patOfBlock (chn : Nat) (blk : Option (Nat × Bytes)) : Pat :=
  match blk with
  | none => { rows := 64, cells := List.replicate (64 * chn) {} }
  | some (rows, d) => { rows := rows, cells := (unpackData chn rows d).flatten }

theorem emptyPat_eq {chn : Nat} {p : Pat} (hp : PatOk chn p) (he : isEmptyPat p = true) (hr : p.rows = 64) :
    p = { rows := 64, cells := List.replicate (64 * chn) {} } := by
  obtain ⟨-, -, hl, -⟩ := hp
  cases p with
  | mk rows cells =>
  simp only at hr hl
  subst hr
  congr 1
  rw [List.eq_replicate_iff]
  refine ⟨hl, fun c hc => ?_⟩
  simp only [isEmptyPat, List.all_eq_true, Bool.and_eq_true, decide_eq_true_eq] at he
  obtain ⟨⟨a, b⟩, d⟩ := he c hc
  cases c; simp_all

theorem pats_of_blocks (chn : Nat) (hc : 1 ≤ chn ∧ chn ≤ 64) (o : Opts) (ps : List Pat) (hps : ∀ p ∈ ps, PatOk chn p)
    (pi ci : Nat) : (blocksOf chn o ps pi ci).map (patOfBlock chn) = ps := by
  induction ps generalizing pi ci with
  | nil => rfl
  | cons p ps ih =>
    have hp := hps p (by simp)
    simp only [blocksOf, List.map_cons, ih (fun q hq => hps q (by simp [hq]))]
    congr 1
    unfold blockOf
    split
    · next he => exact (emptyPat_eq hp he.2.2.1 he.2.2.2).symm
    · simp only [patOfBlock, unpackData_pack chn p _ ci hc hp]

/-- first pass: channel count -/
def scanStep (mx : Nat) (blk : Option (Nat × Bytes)) : Nat :=
  match blk with
  | none => mx
  | some (rows, d) => scanGo (d.length + 1) d rows (List.replicate 64 0) mx

theorem scan_blocks (chn : Nat) (hc : 1 ≤ chn ∧ chn ≤ 64) (o : Opts) (ps : List Pat) (hps : ∀ p ∈ ps, PatOk chn p)
    (pi ci mx : Nat) (hmx : mx ≤ chn - 1) :
    mx ≤ (blocksOf chn o ps pi ci).foldl scanStep mx ∧ (blocksOf chn o ps pi ci).foldl scanStep mx ≤ chn - 1 := by
  induction ps generalizing pi ci mx with
  | nil => exact ⟨Nat.le_refl _, hmx⟩
  | cons p ps ih =>
    have hp := hps p (by simp)
    simp only [blocksOf, List.foldl_cons]
    have h1 : mx ≤ scanStep mx (blockOf chn o p pi ci) ∧ scanStep mx (blockOf chn o p pi ci) ≤ chn - 1 := by
      unfold blockOf
      split
      · exact ⟨Nat.le_refl _, hmx⟩
      · exact ⟨scanGo_ge _ _ _ _ _, scanGo_pack_le chn p _ ci mx hc hp hmx⟩
    obtain ⟨h2, h3⟩ := ih (fun q hq => hps q (by simp [hq])) (pi + 1) (ci + p.cells.length) _ h1.2
    exact ⟨Nat.le_trans h1.1 h2, h3⟩

theorem scan_all (chn : Nat) (hc : 1 ≤ chn ∧ chn ≤ 64) (o : Opts) (ps : List Pat) (hps : ∀ p ∈ ps, PatOk chn p)
    (hne : 1 ≤ ps.length) : (blocksOf chn o ps 0 0).foldl scanStep 0 = chn - 1 := by
  cases ps with
  | nil => simp at hne
  | cons p ps =>
    have hp := hps p (by simp)
    simp only [blocksOf, List.foldl_cons]
    have h1 : scanStep 0 (blockOf chn o p 0 0) = chn - 1 := by
      unfold blockOf
      rw [if_neg (by intro hh; exact hh.1 rfl)]
      exact scanGo_pack_marker chn p _ 0 0 hc hp (by omega) (by simp [patOpt])
    rw [h1]
    obtain ⟨h2, h3⟩ := scan_blocks chn hc o ps (fun q hq => hps q (by simp [hq])) (0 + 1) (0 + p.cells.length) (chn - 1)
      (Nat.le_refl _)
    omega

/-! ## instrument mode: samples -/

/-- what `readSmpsI` returns for the writer's samples -/
def infosOf (o : Opts) : List Smp → Nat → List (Option (Nat × Nat) × Smp)
  | [], _ => []
  | m :: ms, i => (some (o.smpVol i, smpDfp o i), m) :: infosOf o ms (i + 1)

theorem smpDfp_le (o : Opts) (i : Nat) (h : match o.smpPan i with | some p => p ≤ 64 | none => True) :
    smpDfp o i ≤ 0xc0 := by
  unfold smpDfp
  cases hp : o.smpPan i with
  | none => simp
  | some p => rw [hp] at h; simp only at h ⊢; omega

theorem encSmpHdrsI_length (o : Opts) (ms : List Smp) (offs : List Nat) (i : Nat) (h : offs.length = ms.length) :
    (encSmpHdrsI o ms offs i).length = 80 * ms.length := by
  induction ms generalizing offs i with
  | nil => simp [encSmpHdrsI]
  | cons m ms ih =>
    cases offs with
    | nil => simp at h
    | cons off offs =>
      simp only [encSmpHdrsI, List.length_append, encSmpHdrG_length, List.length_cons, ih offs (i + 1) (by simpa using h)]
      omega

theorem readSmpsI_rt (o : Opts) (file : Bytes) (ms : List Smp) (offs : List Nat) (i b : Nat)
    (pre post : Bytes) (hpre : pre.length = b) (hs : SmpsOkI o i ms) (hloc : Located file o ms offs i)
    (hfile : file = pre ++ (encSmpHdrsI o ms offs i ++ post)) :
    readSmpsI file (hdrOffs b ms.length) = some (infosOf o ms i) := by
  induction ms generalizing offs i b pre with
  | nil => simp [hdrOffs, readSmpsI, infosOf]
  | cons m ms ih =>
    cases offs with
    | nil => simp [Located] at hloc
    | cons off offs =>
    obtain ⟨⟨hname, hsm, hvol, hpan⟩, hs2⟩ := hs
    obtain ⟨hl1, hl2, hl3⟩ := hloc
    simp only [encSmpHdrsI, List.append_assoc] at hfile
    have hb : (file.drop b).take 80 = encSmpHdrG m.name (o.smpVol i) (smpDfp o i) m (o.signed i) (o.comp i) (o.c5spd i) off := by
      rw [hfile, List.drop_left' hpre, List.take_left' (encSmpHdrG_length _ _ _ _ _ _ _ _)]
    have hd := smpDfp_le o i hpan
    simp only [List.length_cons, hdrOffs]
    conv => lhs; unfold readSmpsI
    simp only [hb, encSmpHdrG_length, Nat.lt_irrefl, if_false,
      rawHdrG_norm hsm _ _ _ (by omega : o.smpVol i < 256) (by omega : smpDfp o i < 256) _ _ _ _ hl2,
      ne_eq, not_true_eq_false]
    have hcore := loadSmpCore_ok (m := { m with name := [] }) hsm rfl file (o.signed i) (o.comp i) off (o.wsel i)
      (str "IMPS") (padTo 25 m.name ++ [0]) (o.smpVol i) (smpDfp o i)
      (by intro hl; have := hl1 hl; rw [smpBlob_eq] at this; exact this)
    have hcore' : loadSmpCore file
        { magic := str "IMPS", flags := flOf m (o.comp i), vol := o.smpVol i,
          name := padTo 25 m.name ++ [0], cvt := cvtOf m (o.signed i) (o.comp i), dfp := smpDfp o i, len := m.len,
          lps := m.lps, lpe := m.lpe, sus := m.sus, sue := m.sue, ptr := off } = some { m with name := [] } := hcore
    rw [hcore']
    simp only
    rw [ih offs (i + 1) (b + 80) (pre ++ encSmpHdrG m.name (o.smpVol i) (smpDfp o i) m (o.signed i) (o.comp i) (o.c5spd i) off)
      (by rw [List.length_append, hpre, encSmpHdrG_length]) hs2 hl3 (by rw [hfile, List.append_assoc])]
    simp only [Option.map_some, infosOf, fixName_padTo hname]

/-! ## instrument mode: the key table -/

/-- sample-number bytes of the key table for the key map `km` (from key `j` on); `S` = sample ids of the sub-instruments -/
def keyBytesOf (off : Nat → Bool) (S : List Nat) : List Nat → Nat → List Nat
  | [], _ => []
  | k :: ks, j => (if off j then 0 else S.getD k 0 + 1) :: keyBytesOf off S ks (j + 1)

theorem keyOrder_ge (noSmp : Nat) (off : Nat → Bool) (km : List Nat) (j t n : Nat)
    (h : keyOrder noSmp off km j t = some n) : t ≤ n := by
  induction km generalizing j t with
  | nil => simp only [keyOrder, Option.some.injEq] at h; omega
  | cons k ks ih =>
    simp only [keyOrder] at h
    split at h
    · split at h
      · exact ih _ _ h
      · cases h
    · split at h
      · exact ih _ _ h
      · split at h
        · have := ih _ _ h; omega
        · cases h

theorem idxOf_take_lt {S : List Nat} (hn : S.Nodup) {k t : Nat} (hk : k < t) (ht : t ≤ S.length) :
    (S.take t).idxOf (S.getD k 0) = k := by
  have hk' : k < (S.take t).length := by rw [List.length_take]; omega
  have e : S.getD k 0 = (S.take t)[k] := by
    rw [List.getD_eq_getElem?_getD, List.getElem_take, List.getElem?_eq_getElem (by omega)]; rfl
  rw [e]
  exact List.Nodup.idxOf_getElem (List.Sublist.nodup (List.take_sublist t S) hn) k hk'

theorem idxOf_take_eq {S : List Nat} (hn : S.Nodup) {t : Nat} (ht : t < S.length) :
    (S.take t).idxOf (S.getD t 0) = (S.take t).length := by
  apply List.idxOf_eq_length
  intro hmem
  rw [List.getD_eq_getElem?_getD, List.getElem?_eq_getElem ht] at hmem
  simp only [Option.getD_some] at hmem
  obtain ⟨i, hi, he⟩ := List.mem_iff_getElem.1 hmem
  rw [List.getElem_take] at he
  have hi' : i < t := by rw [List.length_take] at hi; omega
  have := (List.getElem_inj hn).mp he
  omega

theorem take_succ_getD {S : List Nat} {t : Nat} (ht : t < S.length) : S.take t ++ [S.getD t 0] = S.take (t + 1) := by
  rw [List.getD_eq_getElem?_getD, List.getElem?_eq_getElem ht, List.take_add_one, List.getElem?_eq_getElem ht]
  rfl

/-- **key table codec**: the loader's numbering of the sub-instruments recovers the sample ids and the key map -/
theorem keyScan_rt (noSmp : Nat) (off : Nat → Bool) (S : List Nat) (hn : S.Nodup) (h120 : ∀ c ∈ S, c < 120)
    (km : List Nat) (j t : Nat) (ht : t ≤ S.length) (h : keyOrder noSmp off km j t = some S.length) :
    keyScan noSmp (keyBytesOf off S km j) (S.take t) = (S, km) := by
  induction km generalizing j t with
  | nil =>
    simp only [keyOrder, Option.some.injEq] at h
    subst h
    simp [keyBytesOf, keyScan]
  | cons k ks ih =>
    simp only [keyOrder] at h
    simp only [keyBytesOf]
    by_cases ho : off j = true
    · simp only [ho, if_true] at h ⊢
      split at h
      · next hk =>
        subst hk
        simp only [keyScan, true_or, if_true]
        rw [ih (j + 1) t ht h]
      · cases h
    · simp only [ho, Bool.false_eq_true, if_false] at h ⊢
      have hc (k' : Nat) (hk' : k' < S.length) : ¬ (S.getD k' 0 + 1 = 0 ∨ S.getD k' 0 + 1 > 120) := by
        have : S.getD k' 0 ∈ S := by
          rw [List.getD_eq_getElem?_getD, List.getElem?_eq_getElem hk']; simp
        have := h120 _ this
        omega
      split at h
      · next hk =>
        simp only [keyScan, hc k (by omega), if_false, Nat.add_sub_cancel]
        rw [idxOf_take_lt hn hk ht]
        have : k < (S.take t).length := by rw [List.length_take]; omega
        simp only [this, if_true]
        rw [ih (j + 1) t ht h]
      · split at h
        · next hk1 hk2 =>
          subst hk2
          have hge := keyOrder_ge _ _ _ _ _ _ h
          simp only [keyScan, hc k (by omega), if_false, Nat.add_sub_cancel]
          rw [idxOf_take_eq hn (by omega)]
          simp only [Nat.lt_irrefl, if_false]
          rw [take_succ_getD (by omega), ih (j + 1) (k + 1) (by omega) h]
          simp [List.length_take]; omega
        · cases h

theorem range_map_rec (F : Nat → Nat → Nat) (rec : List Nat → Nat → List Nat)
    (hnil : ∀ j, rec [] j = []) (hcons : ∀ k ks j, rec (k :: ks) j = F j k :: rec ks (j + 1))
    (l : List Nat) (j0 : Nat) : (List.range l.length).map (fun j => F (j0 + j) (l.getD j 0)) = rec l j0 := by
  induction l generalizing j0 with
  | nil => simp [hnil]
  | cons k ks ih =>
    rw [List.length_cons, List.range_succ_eq_map, List.map_cons, List.map_map, hcons]
    congr 1
    rw [← ih (j0 + 1)]
    apply List.map_congr_left
    intro j _
    simp only [Function.comp, List.getD_cons_succ]
    congr 1; omega

theorem keyBytes_eq (off : Nat → Bool) (S km : List Nat) (hl : km.length = 121) :
    (List.range 120).map (fun j => if off j then 0 else S.getD (km.getD j 0) 0 + 1) = keyBytesOf off S (km.take 120) 0 := by
  have := range_map_rec (fun j k => if off j then 0 else S.getD k 0 + 1) (keyBytesOf off S) (fun _ => rfl) (fun _ _ _ => rfl)
    (km.take 120) 0
  rw [List.length_take, hl] at this
  rw [← this]
  apply List.map_congr_left
  intro j hj
  have hj' : j < 120 := List.mem_range.1 hj
  simp only [Nat.zero_add]
  have e : (km.take 120).getD j 0 = km.getD j 0 := by
    rw [List.getD_eq_getElem?_getD, List.getElem?_take_of_lt hj', ← List.getD_eq_getElem?_getD]
  rw [e]

/-! ## instrument mode: `IMPI` headers -/

theorem str_impi : str "IMPI" = [73, 77, 80, 73] := by decide +kernel

def fillOf (o : Opts) (i k : Nat) : UInt8 := o.filler (1000 * i + k)

def insDfp (o : Opts) (isNew : Bool) (i : Nat) : UInt8 :=
  if isNew then (match o.insPan i with | some p => u8 p | none => u8 (0x80 + (fillOf o i 25).toNat % 128)) else fillOf o i 25

def keyTable (o : Opts) (smpNo : Nat → Nat) (i : Nat) : Bytes :=
  (List.range 120).flatMap fun j => [o.keyNote i j, u8 (if o.keyOff i j then 0 else smpNo j)]

def enodeOf (o : Opts) (i : Nat) : Bytes :=
  (List.range 50).map fun k =>
    if k = 2 * o.envNodes i then 0xff
    else if k % 2 = 0 ∧ k < 2 * o.envNodes i then u8 ((fillOf o i (504 + k)).toNat % 255) else fillOf o i (504 + k)

/-- the last 250 bytes: envelope data -/
def insTail (o : Opts) (isNew : Bool) (i : Nat) : Bytes :=
  (List.range 200).map (fun k => fillOf o i (304 + k)) ++
    (if isNew then (List.range 50).map (fun k => fillOf o i (504 + k)) else enodeOf o i)

theorem encIns_eq (o : Opts) (isNew : Bool) (smpNo : Nat → Nat) (x : Ins) (i : Nat) :
    encIns o isNew smpNo x i =
      [73, 77, 80, 73] ++ ((List.range 21).map (fun k => fillOf o i (4 + k)) ++ ([insDfp o isNew i] ++
        ((List.range 6).map (fun k => fillOf o i (26 + k)) ++ ((padTo 25 x.name ++ [0]) ++
          ((List.range 6).map (fun k => fillOf o i (58 + k)) ++ (keyTable o smpNo i ++ insTail o isNew i)))))) := by
  simp only [encIns, str_impi, insTail, enodeOf, keyTable, insDfp, fillOf, List.append_assoc]
  rfl

theorem pairs_length (f g : Nat → UInt8) (n : Nat) : ((List.range n).flatMap fun j => [f j, g j]).length = 2 * n := by
  induction n with
  | zero => rfl
  | succ n ih => rw [List.range_succ, List.flatMap_append, List.length_append, ih]; simp; omega

theorem keyTable_length (o : Opts) (smpNo : Nat → Nat) (i : Nat) : (keyTable o smpNo i).length = 240 :=
  pairs_length _ _ 120

theorem insTail_length (o : Opts) (isNew : Bool) (i : Nat) : (insTail o isNew i).length = 250 := by
  unfold insTail enodeOf; cases isNew <;> simp

theorem encIns_length (o : Opts) (isNew : Bool) (smpNo : Nat → Nat) (x : Ins) (i : Nat) :
    (encIns o isNew smpNo x i).length = 554 := by
  rw [encIns_eq]
  simp [padTo_length, keyTable_length, insTail_length]

theorem pairs_getD (f g : Nat → UInt8) (n j : Nat) (hj : j < n) :
    ((List.range n).flatMap fun j => [f j, g j]).getD (2 * j + 1) 0 = g j := by
  induction n with
  | zero => omega
  | succ n ih =>
    have hl := pairs_length f g n
    rw [List.range_succ, List.flatMap_append, List.getD_eq_getElem?_getD]
    by_cases hjn : j < n
    · rw [List.getElem?_append_left (by omega), ← List.getD_eq_getElem?_getD, ih hjn]
    · have : j = n := by omega
      subst this
      rw [List.getElem?_append_right (by omega), hl]
      simp

/-- the fields `readInsHdr` looks at, in any byte string that starts like the writer's header -/
theorem insHdr_fields (A B C N D K T : Bytes) (d : UInt8) (hA : A.length = 4) (hB : B.length = 21) (hC : C.length = 6)
    (hN : N.length = 26) (hD : D.length = 6) :
    (A ++ (B ++ ([d] ++ (C ++ (N ++ (D ++ (K ++ T))))))).take 4 = A ∧
    (A ++ (B ++ ([d] ++ (C ++ (N ++ (D ++ (K ++ T))))))).getD 25 0 = d ∧
    ((A ++ (B ++ ([d] ++ (C ++ (N ++ (D ++ (K ++ T))))))).drop 32).take 26 = N ∧
    (A ++ (B ++ ([d] ++ (C ++ (N ++ (D ++ (K ++ T))))))).drop 64 = K ++ T := by
  refine ⟨List.take_left' hA, ?_, ?_, ?_⟩
  · rw [List.getD_eq_getElem?_getD, List.getElem?_append_right (by omega), List.getElem?_append_right (by omega)]
    simp [hA, hB]
  · rw [show (32 : Nat) = 4 + (21 + (1 + (6 + 0))) by rfl, drop_add_left hA, drop_add_left hB,
      drop_add_left (a := [d]) (n := 1) rfl, drop_add_left hC, List.drop_zero, List.take_left' hN]
  · rw [show (64 : Nat) = 4 + (21 + (1 + (6 + (26 + (6 + 0))))) by rfl, drop_add_left hA, drop_add_left hB,
      drop_add_left (a := [d]) (n := 1) rfl, drop_add_left hC, drop_add_left hN, drop_add_left hD, List.drop_zero]

theorem getD_drop' (l : Bytes) (n k : Nat) : (l.drop n).getD k 0 = l.getD (n + k) 0 := by
  rw [List.getD_eq_getElem?_getD, List.getD_eq_getElem?_getD, List.getElem?_drop]

theorem getD_take' (l : Bytes) (n k : Nat) (h : k < n) : (l.take n).getD k 0 = l.getD k 0 := by
  rw [List.getD_eq_getElem?_getD, List.getD_eq_getElem?_getD, List.getElem?_take_of_lt h]

theorem enodeOk_enodeOf (o : Opts) (i : Nat) (h : o.envNodes i < 25) : enodeOk (enodeOf o i) = true := by
  unfold enodeOk
  rw [List.any_eq_true]
  refine ⟨o.envNodes i, List.mem_range.2 h, ?_⟩
  unfold enodeOf
  rw [List.getD_eq_getElem?_getD, List.getElem?_map, List.getElem?_range (by omega)]
  simp

def insPanOf (o : Opts) (isNew : Bool) (i : Nat) : Int :=
  if isNew then (match o.insPan i with | some q => ((q * 4 : Nat) : Int) | none => -1) else -1

theorem sub_sid_getD (subs : List Sub) (k : Nat) : (subs.getD k default).sid = (subs.map (·.sid)).getD k 0 := by
  rw [List.getD_eq_getElem?_getD, List.getD_eq_getElem?_getD, List.getElem?_map]
  cases subs[k]? <;> rfl

theorem keymap_last {km : List Nat} (hl : km.length = 121) (h0 : km.getD 120 0 = 0) : km.take 120 ++ [0] = km := by
  have hlt : 120 < km.length := by omega
  rw [List.getD_eq_getElem?_getD, List.getElem?_eq_getElem hlt] at h0
  simp only [Option.getD_some] at h0
  have := List.drop_eq_getElem_cons hlt
  have e121 : km.drop (120 + 1) = [] := List.drop_of_length_le (by omega)
  rw [e121, h0] at this
  conv => rhs; rw [← List.take_append_drop 120 km, this]

set_option maxHeartbeats 400000 in
theorem readInsHdr_enc (o : Opts) (nsmp i : Nat) (x : Ins) (hx : InsOkI o nsmp i x) (file : Bytes) (pp : Nat) (rest : Bytes)
    (hfile : file.drop pp = encIns o (decide (o.cmwt ≥ 0x200)) (keySmp x) x i ++ rest) :
    readInsHdr (decide (o.cmwt ≥ 0x200)) file pp =
      some { name := x.name, sids := x.subs.map (·.sid), keymap := x.keymap,
             pan := insPanOf o (decide (o.cmwt ≥ 0x200)) i } := by
  obtain ⟨hname, hkl, hk0, hord, hnd, hsubs, hip, henv⟩ := hx
  generalize decide (o.cmwt ≥ 0x200) = isNew at *
  generalize hE : encIns o isNew (keySmp x) x i = E at hfile
  have hEl : E.length = 554 := by rw [← hE]; exact encIns_length _ _ _ _ _
  have hEq := encIns_eq o isNew (keySmp x) x i
  rw [hE] at hEq
  obtain ⟨f1, f2, f3, f4⟩ := insHdr_fields [73, 77, 80, 73] ((List.range 21).map (fun k => fillOf o i (4 + k)))
    ((List.range 6).map (fun k => fillOf o i (26 + k))) (padTo 25 x.name ++ [0])
    ((List.range 6).map (fun k => fillOf o i (58 + k))) (keyTable o (keySmp x) i) (insTail o isNew i) (insDfp o isNew i)
    rfl (by simp) (by simp) (by simp [padTo_length]) (by simp)
  rw [← hEq] at f1 f2 f3 f4
  -- the bytes the reader fetches
  have hneed : (if isNew = true then 550 else 554) ≤ 554 := by split <;> omega
  have hb : (file.drop pp).take (if isNew = true then 550 else 554) = E.take (if isNew = true then 550 else 554) := by
    rw [hfile, List.take_append_of_le_length (by rw [hEl]; exact hneed)]
  have hbl : (E.take (if isNew = true then 550 else 554)).length = (if isNew = true then 550 else 554) := by
    rw [List.length_take, hEl]; split <;> rfl
  have hn304 : 304 ≤ (if isNew = true then 550 else 554) := by split <;> omega
  -- keys
  have hkeys : ((List.range 120).map fun j => ((E.take (if isNew = true then 550 else 554)).getD (64 + 2 * j + 1) 0).toNat) =
      keyBytesOf (o.keyOff i) (x.subs.map (·.sid)) (x.keymap.take 120) 0 := by
    rw [← keyBytes_eq _ _ _ hkl]
    apply List.map_congr_left
    intro j hj
    have hj' : j < 120 := List.mem_range.1 hj
    rw [getD_take' _ _ _ (by omega), show 64 + 2 * j + 1 = 64 + (2 * j + 1) by omega, ← getD_drop', f4,
      List.getD_eq_getElem?_getD, List.getElem?_append_left (by rw [keyTable_length]; omega), ← List.getD_eq_getElem?_getD]
    unfold keyTable
    rw [pairs_getD _ _ 120 j hj', u8_toNat]
    split
    · rfl
    · rw [keySmp, sub_sid_getD]
      have : (x.subs.map (·.sid)).getD (x.keymap.getD j 0) 0 < 120 := by
        rw [List.getD_eq_getElem?_getD]
        cases hg : (x.subs.map (·.sid))[x.keymap.getD j 0]? with
        | none => show 0 < 120; omega
        | some c =>
          show c < 120
          have hm := List.mem_of_getElem? hg
          simp only [List.mem_map] at hm
          obtain ⟨sub, hsub, rfl⟩ := hm
          exact (hsubs sub hsub).2.1
      omega
  have hS120 : ∀ c ∈ x.subs.map (·.sid), c < 120 := by
    intro c hc
    simp only [List.mem_map] at hc
    obtain ⟨sub, hsub, rfl⟩ := hc
    exact (hsubs sub hsub).2.1
  have hscan := keyScan_rt (if isNew = true then 0xff else 0) (o.keyOff i) (x.subs.map (·.sid)) hnd hS120
    (x.keymap.take 120) 0 0 (Nat.zero_le _) (by rw [List.length_map]; exact hord)
  rw [List.take_zero] at hscan
  unfold readInsHdr
  simp only [hb, hbl, Nat.lt_irrefl, if_false, hkeys, hscan]
  rw [List.take_take, Nat.min_eq_left (by omega), f1]
  simp only [str_impi, ne_eq, not_true_eq_false, if_false]
  have hname' : fixName (((E.take (if isNew = true then 550 else 554)).drop 32).take 26) = x.name := by
    rw [List.drop_take, List.take_take, Nat.min_eq_left (by omega), f3, fixName_padTo hname]
  have hdfp : (E.take (if isNew = true then 550 else 554)).getD 25 0 = insDfp o isNew i := by
    rw [getD_take' _ _ _ (by omega), f2]
  rw [hname', hdfp, keymap_last hkl hk0]
  cases isNew
  · -- old format: the envelope node table has its terminator
    have hE554 : E.take 554 = E := List.take_of_length_le (by omega)
    have hen : ((E.take 554).drop 504).take 50 = enodeOf o i := by
      rw [hE554, show (504 : Nat) = 64 + (240 + 200) by rfl, ← List.drop_drop, f4,
        drop_add_left (keyTable_length _ _ _)]
      unfold insTail
      simp only [Bool.false_eq_true, if_false]
      rw [List.drop_left' (by simp), List.take_of_length_le (by simp [enodeOf])]
    simp only [Bool.false_eq_true, if_false, Bool.not_false, Bool.true_and, hen, enodeOk_enodeOf o i henv, Bool.not_true,
      false_and, insPanOf]
  · simp only [if_true, Bool.not_true, Bool.false_and, Bool.false_eq_true, if_false, true_and, insPanOf, insDfp]
    cases hq : o.insPan i with
    | none =>
      have : ¬ ((u8 (0x80 + (fillOf o i 25).toNat % 128)).toNat < 0x80) := by rw [u8_toNat]; omega
      simp only [this, if_false]
    | some q =>
      rw [hq] at hip
      simp only at hip
      simp only [if_true, u8_toNat_lt (by omega : q < 256), hip]

/-! ## instrument mode: all instruments -/

/-- offsets of consecutive 554-byte headers -/
def insOffs (b : Nat) : Nat → List Nat
  | 0 => []
  | n + 1 => b :: insOffs (b + 554) n

theorem insOffs_eq (b n : Nat) : (List.range n).map (fun i => b + 554 * i) = insOffs b n := by
  induction n generalizing b with
  | zero => rfl
  | succ n ih =>
    rw [List.range_succ_eq_map, List.map_cons, List.map_map, insOffs, ← ih (b + 554)]
    congr 1
    apply List.map_congr_left
    intro k _
    simp only [Function.comp]; omega

theorem insOffs_length (b n : Nat) : (insOffs b n).length = n := by
  induction n generalizing b with
  | zero => rfl
  | succ n ih => simp [insOffs, ih]

theorem insOffs_lt (b n : Nat) : ∀ p ∈ insOffs b n, p < b + 554 * n := by
  induction n generalizing b with
  | zero => simp [insOffs]
  | succ n ih =>
    intro p hp
    simp only [insOffs, List.mem_cons] at hp
    rcases hp with rfl | hp
    · omega
    · have := ih (b + 554) p hp; omega

/-- what `readInsHdrs` returns for the writer's instruments -/
def hdrsOf (o : Opts) : List Ins → Nat → List InsHdr
  | [], _ => []
  | x :: xs, i => { name := x.name, sids := x.subs.map (·.sid), keymap := x.keymap,
                    pan := insPanOf o (decide (o.cmwt ≥ 0x200)) i } :: hdrsOf o xs (i + 1)

theorem encInss_length (o : Opts) (xs : List Ins) (i : Nat) : (encInss o xs i).flatten.length = 554 * xs.length := by
  induction xs generalizing i with
  | nil => rfl
  | cons x xs ih =>
    simp only [encInss, List.flatten_cons, List.length_append, encIns_length, ih, List.length_cons]; omega

theorem readInsHdrs_rt (o : Opts) (nsmp : Nat) (file : Bytes) (xs : List Ins) (i b : Nat) (pre post : Bytes)
    (hpre : pre.length = b) (hx : InssOkI o nsmp i xs) (hfile : file = pre ++ ((encInss o xs i).flatten ++ post)) :
    readInsHdrs (decide (o.cmwt ≥ 0x200)) file (insOffs b xs.length) = some (hdrsOf o xs i) := by
  induction xs generalizing i b pre with
  | nil => simp [insOffs, readInsHdrs, hdrsOf]
  | cons x xs ih =>
    obtain ⟨hx1, hx2⟩ := hx
    simp only [encInss, List.flatten_cons, List.append_assoc] at hfile
    simp only [List.length_cons, insOffs, readInsHdrs, hdrsOf]
    rw [readInsHdr_enc o nsmp i x hx1 file b ((encInss o xs (i + 1)).flatten ++ post)
      (by rw [hfile, List.drop_left' hpre])]
    simp only
    rw [ih (i + 1) (b + 554) (pre ++ encIns o (decide (o.cmwt ≥ 0x200)) (keySmp x) x i)
      (by rw [List.length_append, hpre, encIns_length]) hx2 (by rw [hfile, List.append_assoc])]
    rfl

theorem infosOf_getD (o : Opts) (ms : List Smp) (i k : Nat) (hk : k < ms.length) :
    ((infosOf o ms i).map (·.1)).getD k none = some (o.smpVol (i + k), smpDfp o (i + k)) := by
  induction ms generalizing i k with
  | nil => simp at hk
  | cons m ms ih =>
    cases k with
    | zero => simp [infosOf]
    | succ k =>
      simp only [infosOf, List.map_cons, List.getD_cons_succ]
      rw [ih (i + 1) k (by simpa using hk)]
      congr 3 <;> omega

theorem infosOf_snd (o : Opts) (ms : List Smp) (i : Nat) : (infosOf o ms i).map (·.2) = ms := by
  induction ms generalizing i with
  | nil => rfl
  | cons m ms ih => simp [infosOf, ih]

theorem smpsOkI_get (o : Opts) (ms : List Smp) (i k : Nat) (h : SmpsOkI o i ms) (hk : k < ms.length) :
    match o.smpPan (i + k) with | some p => p ≤ 64 | none => True := by
  induction ms generalizing i k with
  | nil => simp at hk
  | cons m ms ih =>
    obtain ⟨h1, h2⟩ := h
    cases k with
    | zero => exact h1.2.2.2
    | succ k =>
      have := ih (i + 1) k h2 (by simpa using hk)
      rwa [show i + 1 + k = i + (k + 1) by omega] at this

theorem mkIns_slot (o : Opts) (ms : List Smp) (i : Nat) (x : Ins) (hx : InsOkI o ms.length i x) (hms : SmpsOkI o 0 ms) :
    mkIns ((infosOf o ms 0).map (·.1))
      { name := x.name, sids := x.subs.map (·.sid), keymap := x.keymap, pan := insPanOf o (decide (o.cmwt ≥ 0x200)) i } = x := by
  obtain ⟨-, -, -, -, -, hsubs, -, -⟩ := hx
  cases x with
  | mk name subs keymap =>
  simp only at hsubs
  unfold mkIns
  simp only [List.map_map]
  congr 1
  conv => rhs; rw [← List.map_id subs]
  apply List.map_congr_left
  intro sub hsub
  obtain ⟨h1, -, h3, h4, h5, h6⟩ := hsubs sub hsub
  simp only [Function.comp, id]
  have hg := infosOf_getD o ms 0 sub.sid h1
  rw [Nat.zero_add] at hg
  rw [hg]
  simp only
  have hp := smpsOkI_get o ms 0 sub.sid hms h1
  rw [Nat.zero_add] at hp
  have hpan : (if smpDfp o sub.sid ≥ 0x80 then ((smpDfp o sub.sid % 128 * 4 : Nat) : Int)
      else insPanOf o (decide (o.cmwt ≥ 0x200)) i) = sub.pan := by
    rw [h4]
    unfold smpDfp subPan insPanOf
    cases hq : o.smpPan sub.sid with
    | none => simp; rfl
    | some p =>
      rw [hq] at hp
      simp only at hp ⊢
      rw [if_pos (by omega)]
      congr 1; omega
  rw [hpan]
  cases sub; simp_all

theorem mkIns_all (o : Opts) (ms : List Smp) (xs : List Ins) (i : Nat) (hx : InssOkI o ms.length i xs) (hms : SmpsOkI o 0 ms) :
    (hdrsOf o xs i).map (mkIns ((infosOf o ms 0).map (·.1))) = xs := by
  induction xs generalizing i with
  | nil => rfl
  | cons x xs ih =>
    obtain ⟨h1, h2⟩ := hx
    simp only [hdrsOf, List.map_cons, mkIns_slot o ms i x h1 hms, ih (i + 1) h2]

/-! ## the reader with its local functions named -/

def read' (bs : Bytes) : Option Module := do
  if bs.length < 192 then none
  if bs.take 4 ≠ str "IMPM" then none
  let ordnum := rd16le ((bs.drop 32).take 2)
  let insnum := rd16le ((bs.drop 34).take 2)
  let smpnum := rd16le ((bs.drop 36).take 2)
  let patnum := rd16le ((bs.drop 38).take 2)
  let cmwt := rd16le ((bs.drop 42).take 2)
  let flags := rd16le ((bs.drop 44).take 2)
  let special := rd16le ((bs.drop 46).take 2)
  if (bs.getD 48 0).toNat > 0x80 then none
  if insnum > 255 ∨ smpnum > 255 ∨ patnum > 255 then none
  let olen := if ordnum > 256 then 256 else ordnum
  let tab := 192 + ordnum + 4 * insnum
  if tab + 4 * smpnum + 4 * patnum > bs.length then none
  let p0 := tab + 4 * smpnum + 4 * patnum
  let p1 := if special / 2 % 2 = 1 then p0 + 2 + 8 * rd16le ((bs.drop p0).take 2) else p0
  if special / 2 % 2 = 1 ∧ p0 + 2 > bs.length then none
  if (flags / 128 % 2 = 1 ∨ special / 8 % 2 = 1) ∧ p1 + 4896 > bs.length then none
  let ords := (bs.drop 192).take olen
  if !(S3m.scanStarts patnum ords) then none
  let ppIns := decodeN 4 rd32le insnum (bs.drop (192 + ordnum))
  let ppSmp := decodeN 4 rd32le smpnum (bs.drop tab)
  let ppPat := decodeN 4 rd32le patnum (bs.drop (tab + 4 * smpnum))
  let (ins, smps) ← (if flags / 4 % 2 = 1 then readInsMode bs cmwt ppIns ppSmp
                     else (readSmps bs ppSmp 0).map fun sl => (sl.map (·.1), sl.map (·.2)))
  let blocks ← ppPat.mapM (rdBlock bs)
  let maxCh := blocks.foldl scanStep 0
  let chn := maxCh + 1
  let pats := blocks.map (patOfBlock chn)
  some { name := adjustString (cstr ((bs.drop 4).take 26)), chn := chn, orders := fixOrders patnum ords,
         pats := pats, ins := ins, smps := smps.map obsLoop,
         spd := fixSpd (bs.getD 50 0).toNat, bpm := fixBpm (bs.getD 51 0).toNat }

theorem read_eq (bs : Bytes) : read bs = read' bs := rfl

theorem read_eq_some {bs : Bytes} {ordnum insnum smpnum patnum flags special : Nat} {ins : List Ins} {smps : List Smp}
    {blocks : List (Option (Nat × Bytes))}
    (hlen : ¬ bs.length < 192) (hmagic : bs.take 4 = str "IMPM")
    (hord : rd16le ((bs.drop 32).take 2) = ordnum) (hins : rd16le ((bs.drop 34).take 2) = insnum)
    (hsmp : rd16le ((bs.drop 36).take 2) = smpnum) (hpat : rd16le ((bs.drop 38).take 2) = patnum)
    (hflags : rd16le ((bs.drop 44).take 2) = flags) (hspecial : rd16le ((bs.drop 46).take 2) = special)
    (hgv : ¬ (bs.getD 48 0).toNat > 0x80) (hlim : insnum ≤ 255 ∧ smpnum ≤ 255 ∧ patnum ≤ 255)
    (hord256 : ¬ ordnum > 256)
    (htab : ¬ (192 + ordnum + 4 * insnum + 4 * smpnum + 4 * patnum > bs.length))
    (hhist : ¬ (special / 2 % 2 = 1 ∧ 192 + ordnum + 4 * insnum + 4 * smpnum + 4 * patnum + 2 > bs.length))
    (hmidi : ¬ ((flags / 128 % 2 = 1 ∨ special / 8 % 2 = 1) ∧
      (if special / 2 % 2 = 1 then 192 + ordnum + 4 * insnum + 4 * smpnum + 4 * patnum + 2 +
          8 * rd16le ((bs.drop (192 + ordnum + 4 * insnum + 4 * smpnum + 4 * patnum)).take 2)
       else 192 + ordnum + 4 * insnum + 4 * smpnum + 4 * patnum) + 4896 > bs.length))
    (hstart : S3m.scanStarts patnum ((bs.drop 192).take ordnum) = true)
    (hIS : (if flags / 4 % 2 = 1 then
              readInsMode bs (rd16le ((bs.drop 42).take 2)) (decodeN 4 rd32le insnum (bs.drop (192 + ordnum)))
                (decodeN 4 rd32le smpnum (bs.drop (192 + ordnum + 4 * insnum)))
            else (readSmps bs (decodeN 4 rd32le smpnum (bs.drop (192 + ordnum + 4 * insnum))) 0).map
              fun sl => (sl.map (·.1), sl.map (·.2))) = some (ins, smps))
    (hblocks : (decodeN 4 rd32le patnum (bs.drop (192 + ordnum + 4 * insnum + 4 * smpnum))).mapM (rdBlock bs) = some blocks) :
    read bs = some { name := adjustString (cstr ((bs.drop 4).take 26)), chn := blocks.foldl scanStep 0 + 1,
                     orders := fixOrders patnum ((bs.drop 192).take ordnum),
                     pats := blocks.map (patOfBlock (blocks.foldl scanStep 0 + 1)), ins := ins,
                     smps := smps.map obsLoop, spd := fixSpd (bs.getD 50 0).toNat,
                     bpm := fixBpm (bs.getD 51 0).toNat } := by
  have c1 : ¬ (insnum > 255 ∨ smpnum > 255 ∨ patnum > 255) := by omega
  rw [read_eq]
  unfold read'
  simp only [hlen, hmagic, hord, hins, hsmp, hpat, hflags, hspecial, hgv, c1, hord256, htab, hhist, hmidi, hstart, hIS, hblocks,
    Option.bind_eq_bind, Option.bind_some, if_false, ne_eq, not_true_eq_false, Bool.not_true, Bool.false_eq_true,
    Option.bind_none]

/-! ## header -/

theorem str_impm : str "IMPM" = [73, 77, 80, 77] := by decide +kernel

def flagsOf (o : Opts) : Nat :=
  o.flags % 128 / 8 * 8 + o.flags % 4 + (if o.insMode then 4 else 0) + (if o.midi / 2 % 2 = 1 then 128 else 0)

theorem fileHdr_eq (s : Module) (o : Opts) :
    fileHdr s o = [73, 77, 80, 77] ++ (padTo 26 s.name ++
      ([4, 16, u8 (s.orders.length % 256), u8 (s.orders.length / 256), u8 (nIns s o % 256), u8 (nIns s o / 256), u8 (s.smps.length % 256), u8 (s.smps.length / 256),
        u8 (s.pats.length % 256), u8 (s.pats.length / 256), u8 (o.cwt % 256), u8 (o.cwt / 256), u8 (o.cmwt % 256), u8 (o.cmwt / 256),
        u8 (flagsOf o % 256), u8 (flagsOf o / 256), u8 (specialOf o % 256), u8 (specialOf o / 256), o.gv, o.mv, u8 s.spd, u8 s.bpm, 128, 0, 0, 0, 0, 0, 0, 0, 0, 0, 0, 0] ++
       ((List.range 64).map o.chpan ++ (List.range 64).map o.chvol))) := by
  have z : u8 0 = 0 := rfl
  simp [fileHdr, le16, le32, str_impm, flagsOf, z]

theorem fileHdr_length (s : Module) (o : Opts) : (fileHdr s o).length = 192 := by
  rw [fileHdr_eq]; simp [padTo_length]

theorem fileHdr_fields (s : Module) (o : Opts) (rest : Bytes) :
    (fileHdr s o ++ rest).take 4 = str "IMPM" ∧
    rd16le (((fileHdr s o ++ rest).drop 32).take 2) = (u8 (s.orders.length % 256)).toNat + (u8 (s.orders.length / 256)).toNat * 256 ∧
    rd16le (((fileHdr s o ++ rest).drop 34).take 2) = (u8 (nIns s o % 256)).toNat + (u8 (nIns s o / 256)).toNat * 256 ∧
    rd16le (((fileHdr s o ++ rest).drop 36).take 2) = (u8 (s.smps.length % 256)).toNat + (u8 (s.smps.length / 256)).toNat * 256 ∧
    rd16le (((fileHdr s o ++ rest).drop 38).take 2) = (u8 (s.pats.length % 256)).toNat + (u8 (s.pats.length / 256)).toNat * 256 ∧
    rd16le (((fileHdr s o ++ rest).drop 42).take 2) = (u8 (o.cmwt % 256)).toNat + (u8 (o.cmwt / 256)).toNat * 256 ∧
    rd16le (((fileHdr s o ++ rest).drop 44).take 2) = (u8 (flagsOf o % 256)).toNat + (u8 (flagsOf o / 256)).toNat * 256 ∧
    rd16le (((fileHdr s o ++ rest).drop 46).take 2) = (u8 (specialOf o % 256)).toNat + (u8 (specialOf o / 256)).toNat * 256 ∧
    (fileHdr s o ++ rest).getD 48 0 = o.gv ∧ (fileHdr s o ++ rest).getD 50 0 = u8 s.spd ∧
    (fileHdr s o ++ rest).getD 51 0 = u8 s.bpm ∧ ((fileHdr s o ++ rest).drop 4).take 26 = padTo 26 s.name := by
  have hn := padTo_length 26 s.name
  have h4 : ([73, 77, 80, 77] : Bytes).length = 4 := rfl
  rw [fileHdr_eq, str_impm]
  simp only [List.append_assoc]
  have d (k : Nat) (Y : Bytes) : ([73, 77, 80, 77] ++ (padTo 26 s.name ++ Y)).drop (30 + k) = Y.drop k := by
    rw [show 30 + k = 4 + (26 + k) by omega, drop_add_left h4, drop_add_left hn]
  have g (k : Nat) (Y : Bytes) : ([73, 77, 80, 77] ++ (padTo 26 s.name ++ Y)).getD (30 + k) 0 = Y.getD k 0 := by
    rw [List.getD_eq_getElem?_getD, List.getD_eq_getElem?_getD, List.getElem?_append_right (by rw [h4]; omega),
      List.getElem?_append_right (by rw [h4, hn]; omega)]
    congr 2; rw [h4, hn]; omega
  refine ⟨rfl, ?_, ?_, ?_, ?_, ?_, ?_, ?_, ?_, ?_, ?_, ?_⟩
  · rw [show (32 : Nat) = 30 + 2 by rfl, d]; rfl
  · rw [show (34 : Nat) = 30 + 4 by rfl, d]; rfl
  · rw [show (36 : Nat) = 30 + 6 by rfl, d]; rfl
  · rw [show (38 : Nat) = 30 + 8 by rfl, d]; rfl
  · rw [show (42 : Nat) = 30 + 12 by rfl, d]; rfl
  · rw [show (44 : Nat) = 30 + 14 by rfl, d]; rfl
  · rw [show (46 : Nat) = 30 + 16 by rfl, d]; rfl
  · rw [show (48 : Nat) = 30 + 18 by rfl, g]; rfl
  · rw [show (50 : Nat) = 30 + 20 by rfl, g]; rfl
  · rw [show (51 : Nat) = 30 + 21 by rfl, g]; rfl
  · rw [List.drop_left' h4, List.take_left' hn]


/-! ## tables and sizes -/

theorem decodeN_le32 (ps : List Nat) (h : ∀ p ∈ ps, p < 4294967296) (rest : Bytes) :
    decodeN 4 rd32le ps.length (ps.flatMap le32 ++ rest) = ps := by
  induction ps with
  | nil => rfl
  | cons p ps ih =>
    simp only [List.length_cons, decodeN, List.flatMap_cons, List.append_assoc]
    rw [List.take_left' (le32_length p), List.drop_left' (le32_length p), rd32le_le32 (h p (by simp)),
      ih (fun q hq => h q (by simp [hq]))]

theorem flatMap_le32_length (ps : List Nat) : (ps.flatMap le32).length = 4 * ps.length := by
  induction ps with
  | nil => rfl
  | cons p ps ih => simp only [List.flatMap_cons, List.length_append, le32_length, ih, List.length_cons]; omega

theorem hdrTable_eq (b n : Nat) : (List.range n).flatMap (fun i => le32 (b + 80 * i)) = (hdrOffs b n).flatMap le32 := by
  rw [← hdrOffs_eq, List.flatMap_map]

theorem patBlobs_length (chn : Nat) (o : Opts) (ps : List Pat) (pi ci : Nat) :
    (patBlobs chn o ps pi ci).length = ps.length := by
  induction ps generalizing pi ci with
  | nil => rfl
  | cons p ps ih => simp [patBlobs, ih]

theorem smpBlobs_length (o : Opts) (ms : List Smp) (i : Nat) : (smpBlobs o ms i).length = ms.length := by
  induction ms generalizing i with
  | nil => rfl
  | cons m ms ih => simp [smpBlobs, ih]

theorem patOffsOf_length (base : Nat) (bs : List Bytes) : (patOffsOf base bs).length = bs.length := by
  induction bs generalizing base with
  | nil => rfl
  | cons b bs ih => simp [patOffsOf, ih]

theorem offsets_length (base : Nat) (bs : List Bytes) : (offsets base bs).length = bs.length := by
  induction bs generalizing base with
  | nil => rfl
  | cons b bs ih => simp [offsets, ih]

theorem patOffsOf_le (base : Nat) (bs : List Bytes) : ∀ off ∈ patOffsOf base bs, off ≤ base + bs.flatten.length := by
  induction bs generalizing base with
  | nil => simp [patOffsOf]
  | cons b bs ih =>
    intro off hoff
    simp only [patOffsOf, List.mem_cons] at hoff
    simp only [List.flatten_cons, List.length_append]
    rcases hoff with rfl | hoff
    · split <;> omega
    · have := ih (base + b.length) off hoff; omega

theorem encSmpHdrs_length (o : Opts) (xs : List Ins) (ms : List Smp) (offs : List Nat) (i : Nat)
    (h1 : xs.length = ms.length) (h2 : offs.length = ms.length) : (encSmpHdrs o xs ms offs i).length = 80 * xs.length := by
  induction xs generalizing ms offs i with
  | nil => simp [encSmpHdrs]
  | cons x xs ih =>
    cases ms with
    | nil => simp at h1
    | cons m ms =>
    cases offs with
    | nil => simp at h2
    | cons off offs =>
      simp only [encSmpHdrs, List.length_append, encSmpHdr_length, List.length_cons,
        ih ms offs (i + 1) (by simpa using h1) (by simpa using h2)]
      omega

theorem obsLoop_slot {i : Nat} {x : Ins} {m : Smp} (h : SlotOk i x m) : obsLoop m = m := by
  obtain ⟨-, -, -, -, -, -, -, -, -, hcase⟩ := h
  unfold obsLoop
  by_cases hl : m.len = 0
  · rw [if_pos hl] at hcase
    obtain ⟨-, h0, h1, h2, h3, h4⟩ := hcase
    cases m; simp_all
  · rw [if_neg hl] at hcase
    obtain ⟨-, hloop, hsus⟩ := hcase
    cases m with
    | mk name len lps lpe flg sus sue pcm =>
    simp only at hloop hsus ⊢
    by_cases a : flg &&& FLOOP = 0 <;> by_cases b : flg &&& FSLOOP = 0 <;> simp_all

theorem zip_fst {i : Nat} {xs : List Ins} {ms : List Smp} (h : SlotsOk i xs ms) : (xs.zip ms).map (·.1) = xs := by
  induction xs generalizing i ms with
  | nil => simp
  | cons x xs ih => cases ms with
    | nil => simp [SlotsOk] at h
    | cons m ms => simp [ih (slotsOk_cons.1 h).2]

theorem zip_snd_obs {i : Nat} {xs : List Ins} {ms : List Smp} (h : SlotsOk i xs ms) :
    (xs.zip ms).map (fun p => obsLoop p.2) = ms := by
  induction xs generalizing i ms with
  | nil => cases ms with
    | nil => rfl
    | cons m ms => simp [SlotsOk] at h
  | cons x xs ih => cases ms with
    | nil => simp [SlotsOk] at h
    | cons m ms =>
      obtain ⟨h1, h2⟩ := slotsOk_cons.1 h
      simp [obsLoop_slot h1, ih h2]

theorem obsLoop_smp {m : Smp} (h : SmpOk m) : obsLoop m = m := by
  obtain ⟨-, -, -, -, -, -, hcase⟩ := h
  unfold obsLoop
  by_cases hl : m.len = 0
  · rw [if_pos hl] at hcase
    obtain ⟨h0, h1, h2, h3, h4⟩ := hcase
    cases m; simp_all
  · rw [if_neg hl] at hcase
    obtain ⟨hloop, hsus⟩ := hcase
    cases m with
    | mk name len lps lpe flg sus sue pcm =>
    simp only at hloop hsus ⊢
    by_cases a : flg &&& FLOOP = 0 <;> by_cases b : flg &&& FSLOOP = 0 <;> simp_all

theorem map_obsLoop {ms : List Smp} (h : ∀ m ∈ ms, SmpOk m) : ms.map obsLoop = ms := by
  conv => rhs; rw [← List.map_id ms]
  apply List.map_congr_left
  intro m hm
  exact obsLoop_smp (h m hm)

theorem slots_smpOk {i : Nat} {xs : List Ins} {ms : List Smp} (h : SlotsOk i xs ms) : ∀ m ∈ ms, SmpOk m := by
  induction xs generalizing i ms with
  | nil => cases ms with
    | nil => simp
    | cons m ms => simp [SlotsOk] at h
  | cons x xs ih => cases ms with
    | nil => simp [SlotsOk] at h
    | cons m ms =>
      obtain ⟨h1, h2⟩ := slotsOk_cons.1 h
      intro m' hm'
      simp only [List.mem_cons] at hm'
      rcases hm' with rfl | hm'
      · exact slot_smpOk h1
      · exact ih h2 m' hm'

theorem smpsI_smpOk {o : Opts} {i : Nat} {ms : List Smp} (h : SmpsOkI o i ms) : ∀ m ∈ ms, SmpOk m := by
  induction ms generalizing i with
  | nil => simp
  | cons m ms ih =>
    obtain ⟨h1, h2⟩ := h
    intro m' hm'
    simp only [List.mem_cons] at hm'
    rcases hm' with rfl | hm'
    · exact h1.2.1
    · exact ih h2 m' hm'

theorem zip_snd {i : Nat} {xs : List Ins} {ms : List Smp} (h : SlotsOk i xs ms) : (xs.zip ms).map (·.2) = ms := by
  induction xs generalizing i ms with
  | nil => cases ms with
    | nil => rfl
    | cons m ms => simp [SlotsOk] at h
  | cons x xs ih => cases ms with
    | nil => simp [SlotsOk] at h
    | cons m ms => simp [ih (slotsOk_cons.1 h).2]

theorem insTable_eq (b n : Nat) : (List.range n).flatMap (fun i => le32 (b + 554 * i)) = (insOffs b n).flatMap le32 := by
  rw [← insOffs_eq, List.flatMap_map]

/-! ## the theorem -/

theorem extraBlock_length (o : Opts) :
    (extraBlock o).length = (match o.history with | some n => 2 + 8 * n | none => 0) + (if o.midi ≠ 0 then 4896 else 0) := by
  unfold extraBlock
  cases hh : o.history with
  | none => by_cases hm : o.midi = 0 <;> simp [hm]
  | some n => by_cases hm : o.midi = 0 <;> simp [hm, le16] <;> omega


theorem special_bit1 (o : Opts) : specialOf o / 2 % 2 = 1 ↔ o.history.isSome = true := by
  unfold specialOf; split <;> split <;> simp_all <;> omega

theorem special_bit3 (o : Opts) : specialOf o / 8 % 2 = 1 ↔ o.midi % 2 = 1 := by
  unfold specialOf; split <;> split <;> simp_all <;> omega

theorem flags_bit7 (o : Opts) : flagsOf o / 128 % 2 = 1 ↔ o.midi / 2 % 2 = 1 := by
  unfold flagsOf; split <;> split <;> simp_all <;> omega

set_option maxHeartbeats 1000000 in
/-- **IT whole-file round trip**, sample mode and instrument mode (new and old `IMPI` headers): header, order list,
the offset tables, instrument headers with key tables, `IMPS` headers with all loop / sustain-loop / ping-pong flags,
default volume and pan, packed patterns with every mask / last-value choice (stored or offset 0), channel count
found by the first pass, plain (signed / unsigned, 8 / 16 bit, mono / stereo) and IT 2.14 / 2.15 compressed samples. -/
theorem roundtrip (s : Module) (o : Opts) (h : WellFormed s o) : read (write s o) = some s := by
  obtain ⟨hname, hplay, hchn, hnord, ⟨hnpat1, hnpat2⟩, hpats, hnsmp, hmode, hspd, hbpm, hgv, hhistOk, hmidiOk, hpsz, hfl⟩ := h
  have hords := S3m.startsValid_exists hplay
  generalize hT0 : (List.range (nIns s o)).flatMap (fun i => le32 (insBase s o + 554 * i)) = T0
  generalize hT1 : (List.range s.smps.length).flatMap (fun i => le32 (hdrBase s o + 80 * i)) = T1
  generalize hT2 : (patOffs s o).flatMap le32 = T2
  generalize hIB : (if o.insMode = true then (encInss o s.ins 0).flatten else []) = IB
  generalize hIH : (if o.insMode = true then encSmpHdrsI o s.smps (smpOffs s o) 0
                    else encSmpHdrs o s.ins s.smps (smpOffs s o) 0) = IH
  generalize hPB : (patBlobs s.chn o s.pats 0 0).flatten = PB
  generalize hSB : (smpBlobs o s.smps 0).flatten = SB
  have hpol : (patOffs s o).length = s.pats.length := by unfold patOffs; rw [patOffsOf_length, patBlobs_length]
  have hsol : (smpOffs s o).length = s.smps.length := by unfold smpOffs; rw [offsets_length, smpBlobs_length]
  have hnI : nIns s o ≤ 255 := by
    unfold nIns; split
    · next hm => rw [if_pos hm] at hmode; exact hmode.1
    · omega
  have hT0l : T0.length = 4 * nIns s o := by rw [← hT0, insTable_eq, flatMap_le32_length, insOffs_length]
  have hT1l : T1.length = 4 * s.smps.length := by rw [← hT1, hdrTable_eq, flatMap_le32_length, hdrOffs_length]
  have hT2l : T2.length = 4 * s.pats.length := by rw [← hT2, flatMap_le32_length, hpol]
  have hIBl : IB.length = 554 * nIns s o := by
    rw [← hIB]; unfold nIns; split
    · exact encInss_length _ _ _
    · rfl
  have hIHl : IH.length = 80 * s.smps.length := by
    rw [← hIH]; split
    · exact encSmpHdrsI_length o _ _ _ hsol
    · next hm =>
      rw [if_neg hm] at hmode
      rw [encSmpHdrs_length o _ _ _ _ (slotsOk_length hmode) hsol, slotsOk_length hmode]
  have hPBl : PB.length = ((patBlobs s.chn o s.pats 0 0).map (·.length)).sum := by
    rw [← hPB, List.length_flatten]
  have hw : write s o = fileHdr s o ++ (s.orders ++ (T0 ++ (T1 ++ (T2 ++ (extraBlock o ++ (IB ++ (IH ++ (PB ++ SB)))))))) := by
    simp only [write, hT0, hT1, hT2, hIB, hIH, hPB, hSB, List.append_assoc]
  have hH := fileHdr_length s o
  have hprel : (fileHdr s o ++ (s.orders ++ (T0 ++ (T1 ++ (T2 ++ extraBlock o))))).length = insBase s o := by
    simp only [List.length_append, hH, hT0l, hT1l, hT2l, insBase]; omega
  have hprel2 : (fileHdr s o ++ (s.orders ++ (T0 ++ (T1 ++ (T2 ++ extraBlock o)))) ++ IB).length = hdrBase s o := by
    rw [List.length_append, hprel, hIBl]; rfl
  have hpatBase : (fileHdr s o ++ (s.orders ++ (T0 ++ (T1 ++ (T2 ++ extraBlock o)))) ++ IB ++ IH).length = patBase s o := by
    rw [List.length_append, hprel2, hIHl]; rfl
  have hSBl : SB.length = ((smpBlobs o s.smps 0).map (·.length)).sum := by rw [← hSB, List.length_flatten]
  -- the file has the size `fileSize` computes
  have hfl0 : (fileHdr s o ++ (s.orders ++ (T0 ++ (T1 ++ (T2 ++ (extraBlock o ++ (IB ++ (IH ++ (PB ++ SB))))))))).length <
      0x100000000 := by
    simp only [List.length_append, hH, hT0l, hT1l, hT2l, hIBl, hIHl, hPBl, hSBl]
    unfold fileSize smpBase patBase hdrBase insBase at hfl
    omega
  clear hfl
  have hfl := hfl0
  have hfl' := hfl
  simp only [List.length_append, hH, hT0l, hT1l, hT2l, hIBl, hIHl] at hfl'
  generalize hW : fileHdr s o ++ (s.orders ++ (T0 ++ (T1 ++ (T2 ++ (extraBlock o ++ (IB ++ (IH ++ (PB ++ SB)))))))) = W at hfl
  obtain ⟨f1, f2, f3, f4, f5, fc, f6, f7, f8, f9, f10, f11⟩ :=
    fileHdr_fields s o (s.orders ++ (T0 ++ (T1 ++ (T2 ++ (extraBlock o ++ (IB ++ (IH ++ (PB ++ SB))))))))
  rw [hW] at f1 f2 f3 f4 f5 fc f6 f7 f8 f9 f10 f11
  have e1 : (u8 (s.orders.length % 256)).toNat + (u8 (s.orders.length / 256)).toNat * 256 = s.orders.length := by
    simp only [u8_toNat]; omega
  have e0 : (u8 (nIns s o % 256)).toNat + (u8 (nIns s o / 256)).toNat * 256 = nIns s o := by
    simp only [u8_toNat]; omega
  have e2 : (u8 (s.smps.length % 256)).toNat + (u8 (s.smps.length / 256)).toNat * 256 = s.smps.length := by
    simp only [u8_toNat]; omega
  have e3 : (u8 (s.pats.length % 256)).toNat + (u8 (s.pats.length / 256)).toNat * 256 = s.pats.length := by
    simp only [u8_toNat]; omega
  have hflb : flagsOf o < 256 := by unfold flagsOf; split <;> split <;> omega
  have e4 : (u8 (flagsOf o % 256)).toNat + (u8 (flagsOf o / 256)).toNat * 256 = flagsOf o := by
    simp only [u8_toNat]; omega
  -- positions
  have d192 : W.drop 192 = s.orders ++ (T0 ++ (T1 ++ (T2 ++ (extraBlock o ++ (IB ++ (IH ++ (PB ++ SB))))))) := by
    rw [← hW]; exact List.drop_left' hH
  have dT0 : W.drop (192 + s.orders.length) = T0 ++ (T1 ++ (T2 ++ (extraBlock o ++ (IB ++ (IH ++ (PB ++ SB)))))) := by
    rw [← List.drop_drop, d192, List.drop_left' rfl]
  have dT1 : W.drop (192 + s.orders.length + 4 * nIns s o) = T1 ++ (T2 ++ (extraBlock o ++ (IB ++ (IH ++ (PB ++ SB))))) := by
    rw [← List.drop_drop, dT0, List.drop_left' hT0l]
  have dT2 : W.drop (192 + s.orders.length + 4 * nIns s o + 4 * s.smps.length) = T2 ++ (extraBlock o ++ (IB ++ (IH ++ (PB ++ SB)))) := by
    rw [← List.drop_drop, dT1, List.drop_left' hT1l]
  have hordsEq : (W.drop 192).take s.orders.length = s.orders := by rw [d192, List.take_left' rfl]
  -- tables
  have t0 : decodeN 4 rd32le (nIns s o) (T0 ++ (T1 ++ (T2 ++ (extraBlock o ++ (IB ++ (IH ++ (PB ++ SB))))))) = insOffs (insBase s o) (nIns s o) := by
    have := decodeN_le32 (insOffs (insBase s o) (nIns s o))
      (fun p hp => by have := insOffs_lt _ _ p hp; unfold insBase at this; omega) (T1 ++ (T2 ++ (extraBlock o ++ (IB ++ (IH ++ (PB ++ SB))))))
    rwa [insOffs_length, ← insTable_eq, hT0] at this
  have t1 : decodeN 4 rd32le s.smps.length (T1 ++ (T2 ++ (extraBlock o ++ (IB ++ (IH ++ (PB ++ SB)))))) = hdrOffs (hdrBase s o) s.smps.length := by
    have := decodeN_le32 (hdrOffs (hdrBase s o) s.smps.length)
      (fun p hp => by have := hdrOffs_lt _ _ p hp; unfold hdrBase insBase at this; omega) (T2 ++ (extraBlock o ++ (IB ++ (IH ++ (PB ++ SB)))))
    rwa [hdrOffs_length, ← hdrTable_eq, hT1] at this
  have t2 : decodeN 4 rd32le s.pats.length (T2 ++ (extraBlock o ++ (IB ++ (IH ++ (PB ++ SB))))) = patOffs s o := by
    have := decodeN_le32 (patOffs s o) (fun p hp => by
      have := patOffsOf_le _ _ p hp
      rw [hPB] at this
      unfold patBase hdrBase insBase at this
      omega) (extraBlock o ++ (IB ++ (IH ++ (PB ++ SB))))
    rwa [hpol, hT2] at this
  -- samples
  have l1 : Located W o s.smps (smpOffs s o) 0 := by
    unfold smpOffs smpBase
    refine located_blobs o _ hfl s.smps 0 _ (fileHdr s o ++ (s.orders ++ (T0 ++ (T1 ++ (T2 ++ extraBlock o)))) ++ IB ++ IH ++ PB) [] ?_ ?_
    · rw [List.length_append, hpatBase, hPBl]
    · rw [← hW, hSB]; simp only [List.append_assoc, List.append_nil]
  -- patterns
  have p1 : (patOffs s o).mapM (rdBlock W) = some (blocksOf s.chn o s.pats 0 0) := by
    unfold patOffs
    refine blocks_rt s.chn o _ s.pats (fun p hp => ⟨hpats p hp, hpsz p hp⟩) 0 0 _ (by unfold patBase hdrBase insBase; omega)
      (fileHdr s o ++ (s.orders ++ (T0 ++ (T1 ++ (T2 ++ extraBlock o)))) ++ IB ++ IH) SB hpatBase ?_
    rw [← hW, hPB]; simp only [List.append_assoc]
  -- instruments and samples
  have hIS : (if flagsOf o / 4 % 2 = 1 then
        readInsMode W (rd16le ((W.drop 42).take 2)) (decodeN 4 rd32le (nIns s o) (W.drop (192 + s.orders.length)))
          (decodeN 4 rd32le s.smps.length (W.drop (192 + s.orders.length + 4 * nIns s o)))
      else (readSmps W (decodeN 4 rd32le s.smps.length (W.drop (192 + s.orders.length + 4 * nIns s o))) 0).map
        fun sl => (sl.map (·.1), sl.map (·.2))) = some (s.ins, s.smps) := by
    rw [dT0, dT1, t0, t1]
    by_cases hm : o.insMode = true
    · rw [if_pos hm] at hmode
      obtain ⟨hni, hcm, hio, hso⟩ := hmode
      have hbit : flagsOf o / 4 % 2 = 1 := by unfold flagsOf; rw [if_pos hm]; split <;> omega
      have hnI' : nIns s o = s.ins.length := by unfold nIns; rw [if_pos hm]
      have ec : (u8 (o.cmwt % 256)).toNat + (u8 (o.cmwt / 256)).toNat * 256 = o.cmwt := by
        simp only [u8_toNat]; omega
      rw [if_pos hbit, fc, ec, hnI']
      rw [if_pos hm] at hIB hIH
      unfold readInsMode
      rw [readInsHdrs_rt o s.smps.length W s.ins 0 (insBase s o) (fileHdr s o ++ (s.orders ++ (T0 ++ (T1 ++ (T2 ++ extraBlock o)))))
        (IH ++ (PB ++ SB)) hprel hio (by rw [← hW, hIB]; simp only [List.append_assoc])]
      simp only
      rw [readSmpsI_rt o W s.smps (smpOffs s o) 0 (hdrBase s o) (fileHdr s o ++ (s.orders ++ (T0 ++ (T1 ++ (T2 ++ extraBlock o)))) ++ IB)
        (PB ++ SB) hprel2 hso l1 (by rw [← hW, hIH]; simp only [List.append_assoc])]
      simp only
      rw [mkIns_all o s.smps s.ins 0 hio hso, infosOf_snd]
    · rw [if_neg hm] at hmode
      have hbit : ¬ (flagsOf o / 4 % 2 = 1) := by unfold flagsOf; rw [if_neg hm]; split <;> omega
      rw [if_neg hbit]
      rw [if_neg hm] at hIH
      have := readSmps_rt o W s.ins s.smps (smpOffs s o) 0 (hdrBase s o) (fileHdr s o ++ (s.orders ++ (T0 ++ (T1 ++ (T2 ++ extraBlock o)))) ++ IB)
        (PB ++ SB) hprel2 hmode l1 (by rw [← hW, hIH]; simp only [List.append_assoc])
      rw [slotsOk_length hmode] at this
      rw [this]
      simp only [Option.map_some, zip_fst hmode, zip_snd hmode]
  have hsmpOk : ∀ m ∈ s.smps, SmpOk m := by
    by_cases hm : o.insMode = true
    · rw [if_pos hm] at hmode; exact smpsI_smpOk hmode.2.2.2
    · rw [if_neg hm] at hmode; exact slots_smpOk hmode
  -- edit history and MIDI configuration blocks
  have hXl := extraBlock_length o
  have e5 : (u8 (specialOf o % 256)).toNat + (u8 (specialOf o / 256)).toNat * 256 = specialOf o := by
    have : specialOf o < 256 := by unfold specialOf; split <;> split <;> omega
    simp only [u8_toNat]; omega
  have hWl : W.length = 192 + s.orders.length + 4 * nIns s o + 4 * s.smps.length + 4 * s.pats.length +
      (extraBlock o).length + (IB ++ (IH ++ (PB ++ SB))).length := by
    rw [← hW]; simp only [List.length_append, hH, hT0l, hT1l, hT2l]; omega
  have dXB : W.drop (192 + s.orders.length + 4 * nIns s o + 4 * s.smps.length + 4 * s.pats.length) =
      extraBlock o ++ (IB ++ (IH ++ (PB ++ SB))) := by
    rw [← List.drop_drop, dT2, List.drop_left' hT2l]
  have hsp2 := special_bit1 o
  have hsp8 := special_bit3 o
  have hfl128 := flags_bit7 o
  have hhist : ¬ (specialOf o / 2 % 2 = 1 ∧
      192 + s.orders.length + 4 * nIns s o + 4 * s.smps.length + 4 * s.pats.length + 2 > W.length) := by
    rintro ⟨h1, h2⟩
    have := hsp2.1 h1
    cases hh : o.history with
    | none => rw [hh] at this; cases this
    | some n => rw [hh] at hXl; simp only at hXl; omega
  have hmidi : ¬ ((flagsOf o / 128 % 2 = 1 ∨ specialOf o / 8 % 2 = 1) ∧
      (if specialOf o / 2 % 2 = 1 then 192 + s.orders.length + 4 * nIns s o + 4 * s.smps.length + 4 * s.pats.length + 2 +
          8 * rd16le ((W.drop (192 + s.orders.length + 4 * nIns s o + 4 * s.smps.length + 4 * s.pats.length)).take 2)
       else 192 + s.orders.length + 4 * nIns s o + 4 * s.smps.length + 4 * s.pats.length) + 4896 > W.length) := by
    rintro ⟨h1, h2⟩
    have hm0 : o.midi ≠ 0 := by
      rcases h1 with h1 | h1
      · have := hfl128.1 h1; omega
      · have := hsp8.1 h1; omega
    rw [if_pos hm0] at hXl
    cases hh : o.history with
    | none =>
      rw [hh] at hXl
      have : ¬ (specialOf o / 2 % 2 = 1) := by rw [hsp2, hh]; simp
      rw [if_neg this] at h2
      simp only at hXl
      omega
    | some n =>
      rw [hh] at hXl hhistOk
      simp only at hXl hhistOk
      have : specialOf o / 2 % 2 = 1 := by rw [hsp2, hh]; rfl
      rw [if_pos this, dXB] at h2
      have hx : extraBlock o = le16 n ++ ((List.range (8 * n)).map (fun k => o.filler (500000 + k)) ++
          (List.range 4896).map (fun k => o.filler (600000 + k))) := by
        unfold extraBlock; rw [hh, if_pos hm0]; simp only [List.append_assoc]
      rw [hx, List.append_assoc, List.take_left' (le16_length n), rd16le_le16 hhistOk] at h2
      omega
  have key := read_eq_some (bs := W)
    (by rw [← hW, List.length_append, hH]; omega) f1 (f2.trans e1) (f3.trans e0) (f4.trans e2) (f5.trans e3) (f6.trans e4)
    (f7.trans e5) (by rw [f8]; omega) ⟨by omega, by omega, by omega⟩ (by omega)
    (by rw [hWl]; omega) hhist hmidi
    (by rw [hordsEq]; exact S3m.scanStarts_of hplay)
    hIS (by rw [dT2, t2]; exact p1)
  rw [hw, hW, key, f9, f10, f11, hordsEq, scan_all s.chn hchn o s.pats hpats hnpat1,
    show s.chn - 1 + 1 = s.chn by omega, pats_of_blocks s.chn hchn o s.pats hpats,
    adjustString_cstr_padTo ⟨by have := hname.1; omega, hname.2.1, hname.2.2⟩, S3m.fixOrders_of hords,
    map_obsLoop hsmpOk, fixSpd_byte hspd.1 hspd.2, fixBpm_byte (by omega) hbpm.2]

end Xmp.Fmt.It
